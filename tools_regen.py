#!/usr/bin/env python3
"""Regenerate every translator-generated Lean file (lean/D42/Gen/*.lean) from the repository named by D42_REPO (default /repo).
Run by MANIFEST.setup_cmd before `lake build` and by tools_precommit.sh before committing, so that the generated files in the
tree always describe the source they are built against (a file left behind by a run against a mutated tree must never be
built or committed). A translator that cannot read the source leaves its file as it is; the checks report that themselves."""
import importlib
import os
import sys

sys.path.insert(0, os.path.dirname(os.path.abspath(__file__)))

NAMES = ["extract_consts", "extract_guards", "extract_migration", "extract_validator", "extract_representor", "extract_substitutor",
         "extract_effects", "extract_entropy", "extract_generator"]


def main():
    for n in NAMES:
        try:
            r = importlib.import_module("harness." + n).run()
            print(n, r)
        except Exception as e:  # noqa: BLE001
            print(n, "FAILED", type(e).__name__, e)
    return 0


if __name__ == "__main__":
    sys.exit(main())
