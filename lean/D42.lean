import D42.Model.Data
import D42.Model.Float
import D42.Model.Validate
import D42.Model.Sexp
import D42.Model.Codec
