/-
  D42.Model.Gen — transcription of d42/generation/_generator.py, _random.py, _regex_generator.py.

  Randomness is an explicit list of answers (`Draws`); every request is range-checked, so theorems
  quantify over *all valid outcomes of every draw, including both ends*. A draw outside the range the
  code asked for is `badDraw` (a defect of the draw list, never of the code).
-/
import D42.Model.Float
import D42.Gen.Consts

namespace D42

structure GS where
  draws : Draws
  reqs  : List Req := []     -- most recent first

abbrev G (α : Type) := GS → Except PyExc (α × GS)

@[inline] def G.pure {α} (a : α) : G α := fun s => .ok (a, s)
@[inline] def G.bind {α β} (m : G α) (f : α → G β) : G β := fun s =>
  match m s with
  | .ok (a, s') => f a s'
  | .error e => .error e
instance : Monad G where
  pure := G.pure
  bind := G.bind

def G.fail {α} (e : PyExc) : G α := fun _ => .error e

/-- `random.randint(a, b)`: `ValueError` on an empty range. -/
def randint (a b : Int) : G Int := fun s =>
  if a > b then .error .valueError else
  match s.draws with
  | .int n :: ds => if a ≤ n ∧ n ≤ b then .ok (n, { draws := ds, reqs := .randint a b :: s.reqs }) else .error .badDraw
  | _ => .error .badDraw

/-- `random.choice(seq)` for a sequence of length `n`: the chosen index; `IndexError` when empty. -/
def choiceIdx (n : Nat) : G Nat := fun s =>
  if n = 0 then .error .indexError else
  match s.draws with
  | .idx i :: ds => if i < n then .ok (i, { draws := ds, reqs := .choice n :: s.reqs }) else .error .badDraw
  | _ => .error .badDraw

/-- `random.choice(string)`: the answer names the chosen character (the order of the candidates is
    not observable through it — see K1 for the one place where the code makes it hash-dependent). -/
def choiceChar (cands : List Nat) : G Nat := fun s =>
  if cands = [] then .error .indexError else
  match s.draws with
  | .idx c :: ds => if cands.contains c then .ok (c, { draws := ds, reqs := .choice cands.length :: s.reqs }) else .error .badDraw
  | _ => .error .badDraw

/-- `random.uniform(a, b)` for a finite span: CPython's contract `a ≤ result ≤ b` is assumed
    (checked on the answer). A span that overflows (`b - a` not finite) is not modelled (K5). -/
def uniform (env : Env) (a b : PyFloat) : G PyFloat := fun s =>
  match a, b with
  | .fin x, .fin y =>
    (match env.fl (y - x) with
     | .fin _ =>
       (match s.draws with
        | .flt f :: ds => if PyFloat.le a f && PyFloat.le f b then .ok (f, { draws := ds, reqs := .uniform a b :: s.reqs }) else .error .badDraw
        | _ => .error .badDraw)
     | _ => .error .unmodelled)
  | _, _ => .error .unmodelled

/-- `uuid4()`, `datetime.utcnow()`, `date.today() - timedelta(days)`: answered by the environment.
    The answer is checked to be of the kind CPython guarantees (a version-4 UUID, a datetime, a date);
    anything else is a defect of the draw list. -/
def extDraw (kind : Nat) : G PyVal := fun s =>
  match s.draws with
  | .ext v :: ds =>
    let ok := match kind, v with
      | 0, .uuid _ 4 => true
      | 1, .datetime _ => true
      | 2, .date _ => true
      | _, _ => false
    if ok then .ok (v, { draws := ds, reqs := .ext kind :: s.reqs }) else .error .badDraw
  | _ => .error .badDraw

/-- `Random.random_str(length, alphabet)`: `range(length)` is empty for a negative length. -/
def randomStr : Nat → List Nat → G Str
  | 0, _ => pure []
  | n + 1, alphabet => do
    let c ← choiceChar alphabet
    let r ← randomStr n alphabet
    pure (c :: r)

/-- Python `max(a, b)` / `min(a, b)` on floats (the second wins only if strictly better). -/
def pyMaxF (a b : PyFloat) : PyFloat := if PyFloat.lt a b then b else a
def pyMinF (a b : PyFloat) : PyFloat := if PyFloat.lt b a then b else a

/-- `ceil(Decimal(repr(x)) * 10**p)` with the exceptions `Decimal` raises for non-finite values. -/
def decCeil (x : PyFloat) (dec : Option Rat) (p : Nat) : Except PyExc Int :=
  match x, dec with
  | .fin _, some d => .ok (d * ((10 ^ p : Nat) : Rat)).ceil
  | .fin _, none => .error .unmodelled
  | .nan, _ => .error .valueError
  | _, _ => .error .overflowError
def decFloor (x : PyFloat) (dec : Option Rat) (p : Nat) : Except PyExc Int :=
  match x, dec with
  | .fin _, some d => .ok (d * ((10 ^ p : Nat) : Rat)).floor
  | .fin _, none => .error .unmodelled
  | .nan, _ => .error .valueError
  | _, _ => .error .overflowError

def liftE {α} (e : Except PyExc α) : G α := fun s => match e with | .ok a => .ok (a, s) | .error x => .error x

/-- `round(x, p)` on a float: decimal round-half-even of the exact value, then nearest double. -/
def roundP (env : Env) (x : PyFloat) (p : Nat) : PyFloat :=
  match x with
  | .fin q => env.fl ((rhe (q * ((10 ^ p : Nat) : Rat)) : Rat) / ((10 ^ p : Nat) : Rat))
  | f => f

/-- `Random.random_float(start, end, precision)` (after fix F8). -/
def randomFloat (env : Env) (start stop : PyFloat) (startDec stopDec : Option Rat) (prec : Option Nat) : G PyFloat :=
  if PyFloat.lt stop start then G.fail .valueError else
  if PyFloat.eq start stop then pure start else      -- `if start == end: return float(start)` (fix F20)
  match prec with
  | none => uniform env start stop
  | some p => do
    let l ← liftE (decCeil start startDec p)
    let r ← liftE (decFloor stop stopDec p)
    let k ← randint l r
    let res := env.fl ((k : Rat) / ((10 ^ p : Nat) : Rat))
    pure (roundP env res p)

/-- the effective (bound, decimal companion) pairs `Generator.visit_float` hands to `random_float`: declared bounds, or
    the defaults widened so that they never fall on the wrong side of a declared bound (fix F7); an infinite bound on its
    own side bounds nothing (fix F20: `has_min`, `has_max`) -/
def floatRange (mn mx : Option PyFloat) (mnDec mxDec : Option Rat) : (PyFloat × Option Rat) × (PyFloat × Option Rat) :=
  let hasMin := match mn with | some .ninf => false | some _ => true | none => false
  let hasMax := match mx with | some .pinf => false | some _ => true | none => false
  let lo0 : PyFloat × Option Rat := match mn with
    | some m => if hasMin then (m, mnDec) else (.fin Consts.FLOAT_MIN, some Consts.FLOAT_MIN_DEC)
    | none => (.fin Consts.FLOAT_MIN, some Consts.FLOAT_MIN_DEC)
  let hi0 : PyFloat × Option Rat := match mx with
    | some m => if hasMax then (m, mxDec) else (.fin Consts.FLOAT_MAX, some Consts.FLOAT_MAX_DEC)
    | none => (.fin Consts.FLOAT_MAX, some Consts.FLOAT_MAX_DEC)
  let hi := if !hasMax then (if PyFloat.lt hi0.1 lo0.1 then lo0 else hi0) else hi0
  let lo := if !hasMin then (if PyFloat.lt hi.1 lo0.1 then hi else lo0) else lo0
  (lo, hi)

/-! ### regex generation (`RegexGenerator`) -/

def rangeChars (lo hi : Nat) : List Nat := (List.range (hi + 1 - lo)).map (· + lo)

/-- the characters a class item excludes in `_generate_not_in` -/
def excluded : ClsItem → Except PyExc (List Nat)
  | .lit c => .ok [c]
  | .range lo hi => .ok (rangeChars lo hi)
  | .digit => .ok Consts.RX_DIGITS
  | .word => .ok Consts.RX_WORD
  | .unsup _ => .error .valueError

def excludedAll : List ClsItem → Except PyExc (List Nat)
  | [] => .ok []
  | i :: is => do let a ← excluded i; let b ← excludedAll is; pure (a ++ b)

def genNotIn (items : List ClsItem) : G Nat := do
  let ex ← liftE (excludedAll items)
  choiceChar (Consts.RX_LETTERS.filter (fun c => !ex.contains c))

def genClsItem : ClsItem → G Nat
  | .lit c => pure c
  | .range lo hi => do let n ← randint lo hi; pure n.toNat
  | .digit => choiceChar Consts.RX_DIGITS
  | .word => choiceChar Consts.RX_WORD
  | .unsup _ => G.fail .valueError

/-- `count` repetitions of a generator, concatenated -/
def repeatG (m : G Str) : Nat → G Str
  | 0 => pure []
  | n + 1 => do let a ← m; let b ← repeatG m n; pure (a ++ b)

mutual
def genRe : Re → G Str
  | .any => do let c ← choiceChar Consts.RX_LETTERS; pure [c]
  | .lit c => pure [c]
  | .notLit c => do let x ← genNotIn [.lit c]; pure [x]
  | .cls true items => do let x ← genNotIn items; pure [x]
  | .cls false items => do
      let i ← choiceIdx items.length
      match items[i]? with
      | some it => do let x ← genClsItem it; pure [x]
      | none => G.fail .badDraw
  | .group r => genSeq r
  | .rep mn mx r => do
      let hi : Nat := match mx with | some m => m | none => max Consts.RX_MAX_REPEAT mn
      let n ← randint mn hi
      repeatG (genSeq r) n.toNat
  | .at_ => pure []
  | .branch alts => do
      let i ← choiceIdx alts.length
      genAlt alts i
  | .unsup _ => G.fail .valueError
def genSeq : List Re → G Str
  | [] => pure []
  | r :: rs => do let a ← genRe r; let b ← genSeq rs; pure (a ++ b)
/-- generate the `i`-th alternative -/
def genAlt : List (List Re) → Nat → G Str
  | [], _ => G.fail .badDraw
  | a :: _, 0 => genSeq a
  | _ :: as, i + 1 => genAlt as i
end

/-! ### `Generator` -/

def pyMaxI (a b : Int) : Int := if a < b then b else a
def pyMinI (a b : Int) : Int := if b < a then b else a

def genLength (L : LenP) (dmin dmax : Int) : G Int :=
  match L.len with
  | some n => pure n
  | none =>
    let mn := match L.minLen with | some m => m | none => dmin
    let mx := match L.maxLen with | some m => m | none => pyMaxI dmax mn
    randint mn mx

def genScalar (env : Env) : ScalarS → G PyVal
  | .none => pure .none
  | .bool (some b) => pure (.bool b)
  | .bool none => do let i ← choiceIdx 2; pure (.bool (i == 0))
  | .int (some v) _ _ => pure (.int v)
  | .int none mn mx => do
      let lo0 := match mn with | some m => m | none => Consts.INT_MIN
      let hi0 := match mx with | some m => m | none => Consts.INT_MAX
      let hi := if mx.isNone then pyMaxI hi0 lo0 else hi0
      let lo := if mn.isNone then pyMinI lo0 hi else lo0
      let n ← randint lo hi
      pure (.int n)
  | .float (some v) _ _ _ _ _ => pure (.float v)
  | .float none mn mx prec mnDec mxDec => do
      let (lo, hi) := floatRange mn mx mnDec mxDec
      let f ← randomFloat env lo.1 hi.1 lo.2 hi.2 prec
      pure (.float f)
  | .str (some v) _ _ _ _ => pure (.str v)
  | .str none _ _ _ (some pat) => do let s ← genSeq pat.tree; pure (.str s)
  | .str none L alphabet substr none => do
      let length ← (match L.len with
        | some n => pure n
        | none =>
          let mn0 := match L.minLen with | some m => m | none => Consts.STR_LEN_MIN
          let mx0 := match L.maxLen with | some m => m | none => pyMaxI Consts.STR_LEN_MAX mn0
          let (mn, mx) := match substr with
            | some sub => (pyMaxI mn0 sub.length, pyMaxI mx0 sub.length)
            | none => (mn0, mx0)
          randint mn mx)
      let al := match alphabet with | some a => a | none => Consts.STR_ALPHABET
      match substr with
      | some sub => do
          let g ← randomStr (length - sub.length).toNat al
          let off ← randint 0 g.length
          pure (.str (g.take off.toNat ++ sub ++ g.drop off.toNat))
      | none => do
          let g ← randomStr length.toNat al
          pure (.str g)
  | .bytes (some v) => pure (.bytes v)
  | .bytes none => do
      let n ← randint Consts.BYTES_LEN_MIN Consts.BYTES_LEN_MAX
      let g ← randomStr n.toNat Consts.STR_ALPHABET
      pure (.bytes g)      -- the default alphabet is ASCII: `.encode()` is the identity on code points
  | .uuid4 (some (i, ver)) => pure (.uuid i ver)
  | .uuid4 none => extDraw 0
  | .datetime (some i) => pure (.datetime i)
  | .datetime none => extDraw 1
  | .date (some (true, i)) => pure (.datetime i)
  | .date (some (false, i)) => pure (.date i)
  | .date none => do
      let _ ← randint (-100000) 100000
      extDraw 2

/-- `n` values from the same generator -/
def replicateG (m : G PyVal) : Nat → G (List PyVal)
  | 0 => pure []
  | n + 1 => do let a ← m; let b ← replicateG m n; pure (a :: b)

mutual
def gen (env : Env) : Schema → G PyVal
  | .scalar k => genScalar env k
  | .listU L =>
    (match L.len with
     | some n => pure (.list (List.replicate n.toNat (.list [])))
     | none => do
       let n ← genLength L Consts.LIST_LEN_MIN Consts.LIST_LEN_MAX
       if L.minLen.isSome || L.maxLen.isSome then pure (.list (List.replicate n.toNat (.list [])))
       else pure (.list []))
  | .listT t L => do
      let n ← genLength L Consts.LIST_LEN_MIN Consts.LIST_LEN_MAX
      let xs ← replicateG (gen env t) n.toNat
      pure (.list xs)
  | .listE _ elems _ _ => do let xs ← genList env elems; pure (.list xs)
  | .dict none _ => pure (.dict [])
  | .dict (some fs) _ => do let kvs ← genFields env fs; pure (.dict kvs)
  | .any none => pure .none
  | .any (some ts) => do
      let i ← choiceIdx ts.length
      genNth env ts i
  | .alias _ t => gen env t
  | .custom t => gen env t
def genList (env : Env) : List Schema → G (List PyVal)
  | [] => pure []
  | s :: ss => do let a ← gen env s; let b ← genList env ss; pure (a :: b)
def genFields (env : Env) : List (PyKey × Bool × Schema) → G (List (PyKey × PyVal))
  | [] => pure []
  | (k, opt, s) :: fs =>
    if opt then genFields env fs
    else do let a ← gen env s; let b ← genFields env fs; pure ((k, a) :: b)
def genNth (env : Env) : List Schema → Nat → G PyVal
  | [], _ => G.fail .badDraw
  | s :: _, 0 => gen env s
  | _ :: ss, i + 1 => genNth env ss i
end

/-- run a generator on a draw list: value, unconsumed draws, requests in order -/
def runGen {α} (m : G α) (d : Draws) : Except PyExc (α × Draws × List Req) :=
  match m { draws := d } with
  | .ok (a, s) => .ok (a, s.draws, s.reqs.reverse)
  | .error e => .error e

end D42
