/-
  D42.Model.Migrate — transcription of `rewrite_imports` in d42/migration/migrate_v1_to_v2.py
  (after fix F10). Python's parser is external: a module is given as its physical lines (UTF-8
  bytes, line ends kept) together with what `ast.parse` reports about the top-level statements.
-/
namespace D42.Migrate

abbrev Bytes := List Nat

structure Alias where
  name   : Bytes
  asname : Option Bytes
deriving Repr, Inhabited, DecidableEq

inductive Kind where
  | importFrom (module : Option Bytes) (level : Nat) (names : List Alias)
  | other
deriving Repr, Inhabited

/-- a top-level statement as `ast` reports it (1-based lines, byte columns) -/
structure Stmt where
  lineno     : Nat
  endLineno  : Nat
  col        : Nat
  endCol     : Nat
  kind       : Kind
deriving Repr, Inhabited

/-- `mapping[old_module][name] = (new_module, new_name)` -/
abbrev Mapping := List (Bytes × List (Bytes × (Bytes × Bytes)))

def Mapping.find (m : Mapping) (module name : Bytes) : Option (Bytes × Bytes) :=
  match m.find? (fun e => e.1 == module) with
  | some e => (e.2.find? (fun x => x.1 == name)).map (·.2)
  | none => none

def bs (s : String) : Bytes := s.toUTF8.toList.map (·.toNat)

def importName (n : Bytes) (a : Option Bytes) : Bytes :=
  match a with | some x => n ++ bs " as " ++ x | none => n

def joinBytes (sep : Bytes) : List Bytes → Bytes
  | [] => []
  | [x] => x
  | x :: r => x ++ sep ++ joinBytes sep r

/-- `new_imports[new_module].append(import_name)` on an insertion-ordered table -/
def addGrouped (g : List (Bytes × List Bytes)) (k v : Bytes) : List (Bytes × List Bytes) :=
  if g.any (fun e => e.1 == k) then g.map (fun e => if e.1 == k then (e.1, e.2 ++ [v]) else e)
  else g ++ [(k, [v])]

/-- the replacement lines of one `from module import names` statement -/
def replacementLines (m : Mapping) (module : Option Bytes) (names : List Alias) : List Bytes :=
  let step := fun (acc : List (Bytes × List Bytes) × List Bytes) (a : Alias) =>
    match (match module with | some md => m.find md a.name | none => none) with
    | some (newMod, newName) => (addGrouped acc.1 newMod (importName newName a.asname), acc.2)
    | none => (acc.1, acc.2 ++ [importName a.name a.asname])
  let (grouped, unmapped) := names.foldl step ([], [])
  grouped.map (fun e => bs "from " ++ e.1 ++ bs " import " ++ joinBytes (bs ", ") e.2 ++ bs "\n") ++
  (if unmapped.isEmpty then [] else
    [bs "from " ++ (module.getD (bs "None")) ++ bs " import " ++ joinBytes (bs ", ") unmapped ++ bs "\n"])

def isSpace (c : Nat) : Bool := c == 32 || c == 9 || c == 10 || c == 13 || c == 11 || c == 12

def stripBoth (b : Bytes) : Bytes := ((b.dropWhile isSpace).reverse.dropWhile isSpace).reverse
def rstripNl (b : Bytes) : Bytes := (b.reverse.dropWhile (· == 10)).reverse

/-- apply one replacement to the current list of line chunks -/
def applyOne (lines : List Bytes) (st : Stmt) (repl : List Bytes) : List Bytes :=
  let s := st.lineno - 1
  let e := st.endLineno - 1
  let head := (lines.getD s []).take st.col
  let tail := (lines.getD e []).drop st.endCol
  let shares := !(stripBoth head).isEmpty || (tail.dropWhile isSpace).head? == some 59   -- ';'
  let repl' := if shares then [head ++ rstripNl (repl.foldl (· ++ ·) []) ++ tail] else repl
  lines.take s ++ repl' ++ lines.drop (e + 1)

/-- physical lines with their line ends kept, split at `\n`, `\r\n` and `\r` only — how the parser
    numbers lines (`io.StringIO(source, newline='').readlines()`) -/
def splitLines : Bytes → List Bytes
  | [] => []
  | src => go src [] 
where
  go : Bytes → Bytes → List Bytes
    | [], cur => if cur.isEmpty then [] else [cur.reverse]
    | 13 :: 10 :: r, cur => (10 :: 13 :: cur).reverse :: go r []
    | 13 :: r, cur => (13 :: cur).reverse :: go r []
    | 10 :: r, cur => (10 :: cur).reverse :: go r []
    | c :: r, cur => go r (c :: cur)

/-- `rewrite_imports(source, mapping)` on already split lines: `none` = nothing to do -/
def rewriteLines (m : Mapping) (lines : List Bytes) (stmts : List Stmt) : Option Bytes :=
  let reps := stmts.filterMap (fun st => match st.kind with
    | .importFrom module level names => if level > 0 then none else some (st, replacementLines m module names)
    | .other => none)
  if reps.isEmpty then none
  else some ((reps.reverse.foldl (fun ls r => applyOne ls r.1 r.2) lines).foldl (· ++ ·) [])

/-- `rewrite_imports(source, mapping)` -/
def rewriteImports (m : Mapping) (src : Bytes) (stmts : List Stmt) : Option Bytes :=
  rewriteLines m (splitLines src) stmts

end D42.Migrate
