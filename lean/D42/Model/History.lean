/-
  D42.Model.History — the abstract spec of C07: a pool of schemas (immutable values) and a history of
  public operations over it. Every operation is a pure function of the pool entries it names; a
  successful one appends its result, nothing is ever changed in place.
-/
import D42.Model.Subst
import D42.Model.Decl
import D42.Model.Gen
import D42.Model.Repr
import D42.Model.Eq

namespace D42

inductive HOp where
  | decl (i : Nat) (op : Op)                         -- refinement call on pool[i]
  | subst (i : Nat) (v : PyVal)                      -- pool[i] % v
  | union (i j : Nat)                                -- pool[i] | pool[j]
  | add (i j : Nat)                                  -- pool[i] + pool[j]
  | makeRequired (i : Nat) (ks : Option (List PyKey))
  | fromNative (v : PyVal)
  | getItem (i : Nat) (k : PyKey)
  | validate (i : Nat) (v : PyVal)                   -- observers: no result is stored
  | represent (i : Nat)
  | eq (i j : Nat)
deriving Repr, Inhabited

/-- what one step shows to the caller -/
inductive HObs where
  | stored (idx : Nat)          -- a new schema was appended at this index
  | raised (e : PyExc)
  | errors (n : Nat)
  | text (t : List Tok)
  | bool (b : Bool)
  | badIndex
deriving Repr, Inhabited

abbrev Pool := List Schema

def store (pool : Pool) (r : Except PyExc Schema) : Pool × HObs :=
  match r with
  | .ok s => (pool ++ [s], .stored pool.length)
  | .error e => (pool, .raised e)

def hstep (env : Env) (pool : Pool) : HOp → Pool × HObs
  | .decl i op => (match pool[i]? with | some s => store pool (Decl.apply s op) | none => (pool, .badIndex))
  | .subst i v => (match pool[i]? with | some s => store pool (D42.subst env s v) | none => (pool, .badIndex))
  | .union i j => (match pool[i]?, pool[j]? with | some a, some b => store pool (.ok (a.union b)) | _, _ => (pool, .badIndex))
  | .add i j => (match pool[i]?, pool[j]? with
      | some a, some b => store pool (match a.add b with | some r => .ok r | none => .error .typeError)
      | _, _ => (pool, .badIndex))
  | .makeRequired i ks => (match pool[i]? with | some s => store pool (D42.makeRequired s ks) | none => (pool, .badIndex))
  | .fromNative v => store pool (D42.fromNative v)
  | .getItem i k => (match pool[i]? with | some s => store pool (D42.getItem s k) | none => (pool, .badIndex))
  | .validate i v => (match pool[i]? with | some s => (pool, .errors (D42.validateP env false s v []).length) | none => (pool, .badIndex))
  | .represent i => (match pool[i]? with | some s => (pool, .text (D42.represent s 0)) | none => (pool, .badIndex))
  | .eq i j => (match pool[i]?, pool[j]? with | some a, some b => (pool, .bool (pyEq env a b)) | _, _ => (pool, .badIndex))

def runHistory (env : Env) : Pool → List HOp → Pool × List HObs
  | pool, [] => (pool, [])
  | pool, op :: ops =>
    let (p1, o) := hstep env pool op
    let (p2, os) := runHistory env p1 ops
    (p2, o :: os)

end D42
