/-
  D42.Model.Sexp — S-expressions for the line protocol between the harness and the model driver.
-/
namespace D42

inductive Sexp where
  | atom (s : String)
  | list (xs : List Sexp)
deriving Repr, Inhabited

namespace Sexp

partial def toStr : Sexp → String
  | .atom s => s
  | .list xs => "(" ++ " ".intercalate (xs.map toStr) ++ ")"

/-- tokens: "(" , ")" , atoms (no whitespace / parens) -/
def tokenize (s : String) : Array String := Id.run do
  let mut out : Array String := #[]
  let mut cur : String := ""
  for c in s.toList do
    if c == '(' || c == ')' then
      if cur != "" then out := out.push cur; cur := ""
      out := out.push (String.singleton c)
    else if c == ' ' || c == '\n' || c == '\t' || c == '\r' then
      if cur != "" then out := out.push cur; cur := ""
    else cur := cur.push c
  if cur != "" then out := out.push cur
  return out

/-- parse one expression starting at token `i`; returns it with the next index. -/
partial def parseAt (toks : Array String) (i : Nat) : Option (Sexp × Nat) :=
  if h : i < toks.size then
    let t := toks[i]
    if t == "(" then
      let rec go (j : Nat) (acc : Array Sexp) : Option (Sexp × Nat) :=
        if h2 : j < toks.size then
          if toks[j] == ")" then some (.list acc.toList, j + 1)
          else match parseAt toks j with
            | some (e, j') => go j' (acc.push e)
            | none => none
        else none
      go (i + 1) #[]
    else if t == ")" then none
    else some (.atom t, i + 1)
  else none

def parse (s : String) : Option Sexp :=
  match parseAt (tokenize s) 0 with
  | some (e, _) => some e
  | none => none

end Sexp
end D42
