/-
  D42.Model.Decl — transcription of the refinement methods of d42/declaration/types/*.py,
  `SchemaFacade.alias`, `|`, `DictSchema.__add__/__getitem__/keys`, `make_required`.

  Arguments range over *any* Python value (`Arg.v`), `Nil` (the omitted-argument marker), schemas,
  element lists and key tables, so that wrongly-typed calls are part of the model.
-/
import D42.Model.Validate
import D42.Gen.Consts

namespace D42

inductive ElemArg where
  | ell
  | sch (s : Schema)
  | bad                       -- neither a schema nor `...`
deriving Repr, Inhabited

inductive KeyArg where
  | ell
  | key (k : PyKey) (optional : Bool)
deriving Repr, Inhabited

inductive Arg where
  | v (x : PyVal)             -- any python value
  | nil                       -- niltype.Nil
  | sch (s : Schema)
  | elems (xs : List ElemArg)
  | keys (kvs : List (KeyArg × ElemArg))
  /-- a pattern string with the two external facts `regex()` consults: does it compile, and
      (when the schema has a fixed value) does `re.search(pattern, value)` succeed -/
  | pat (compiles : Bool) (p : Pat) (matchesValue : Bool)
deriving Repr, Inhabited

inductive Op where
  | call (a : Arg)
  | min (a : Arg)
  | max (a : Arg)
  | precision (a : Arg)
  | len (a b : Arg)
  | alphabet (a : Arg)
  | contains (a : Arg)
  | regex (a : Arg)
  | anyCall (as : List Arg)
deriving Repr, Inhabited

abbrev DErr {α} : Except PyExc α := .error .declarationError

def argInt : Arg → Option Int
  | .v x => asInt x
  | _ => none

def argFloat : Arg → Option PyFloat
  | .v (.float f) => some f
  | _ => none

def argStr : Arg → Option Str
  | .v (.str s) => some s
  | _ => none

def argIsEllipsis : Arg → Bool
  | .v .ellipsis => true
  | _ => false

/-! ### str / list `len(...)` helpers (`__declare_len`, `__declare_min_len`, `__declare_max_len`) -/

def strDeclLen (v : Option Str) (L : LenP) (a : Arg) : Except PyExc LenP :=
  match argInt a with
  | none => DErr
  | some n => (match v with
    | some s => if (s.length : Int) ≠ n then DErr else .ok { L with len := some n }
    | none => .ok { L with len := some n })

def strDeclMin (v : Option Str) (L : LenP) (a : Arg) : Except PyExc LenP :=
  match argInt a with
  | none => DErr
  | some n => (match v with
    | some s => if n > (s.length : Int) then DErr else .ok { L with minLen := some n }
    | none => .ok { L with minLen := some n })

def strDeclMax (v : Option Str) (L : LenP) (a : Arg) : Except PyExc LenP :=
  match argInt a with
  | none => DErr
  | some n => (match v with
    | some s => if n < (s.length : Int) then DErr else .ok { L with maxLen := some n }
    | none => .ok { L with maxLen := some n })

/-- list: `some (count, hasEllipsis)` when an element list is declared -/
def listDeclLen (el : Option (Nat × Bool)) (L : LenP) (a : Arg) : Except PyExc LenP :=
  match argInt a with
  | none => DErr
  | some n => (match el with
    | some (c, false) => if n ≠ (c : Int) then DErr else .ok { L with len := some n }
    | some (c, true) => if n < (c : Int) then DErr else .ok { L with len := some n }
    | none => .ok { L with len := some n })

def listDeclMin (el : Option (Nat × Bool)) (L : LenP) (a : Arg) : Except PyExc LenP :=
  match argInt a with
  | none => DErr
  | some n => (match el with
    | some (c, _) => if n > (c : Int) then DErr else .ok { L with minLen := some n }
    | none => .ok { L with minLen := some n })

def listDeclMax (el : Option (Nat × Bool)) (L : LenP) (a : Arg) : Except PyExc LenP :=
  match argInt a with
  | none => DErr
  | some n => (match el with
    | some (c, _) => if n < (c : Int) then DErr else .ok { L with maxLen := some n }
    | none => .ok { L with maxLen := some n })

/-- the dispatch of `len(val_or_min, max=Nil)` shared by str and list -/
def declLenDispatch (dl dmin dmax : LenP → Arg → Except PyExc LenP) (L : LenP) (a b : Arg) : Except PyExc LenP :=
  if argIsEllipsis a then dmax L b
  else match b with
    | .nil => dl L a
    | b => if argIsEllipsis b then dmin L a else do let L' ← dmin L a; dmax L' b

def LenP.anySet (L : LenP) : Bool := L.len.isSome || L.minLen.isSome || L.maxLen.isSome

/-! ### any: flatten nested unions -/

def flattenAny : List Schema → List Schema
  | [] => []
  | .any (some ts) :: r => flattenAny ts ++ flattenAny r
  | s :: r => s :: flattenAny r

/-! ### list / dict argument processing -/

def elemsOk : List ElemArg → Bool
  | xs =>
    let n := xs.length
    !(xs.any (fun e => match e with | .bad => true | _ => false)) &&
    ((List.range n).all (fun i => match xs[i]? with
        | some .ell => i == 0 || i + 1 == n
        | _ => true)) &&
    !(n == 2 && (match xs with | [.ell, .ell] => true | _ => false))

def elemSchemas : List ElemArg → List Schema
  | [] => []
  | .sch s :: r => s :: elemSchemas r
  | _ :: r => elemSchemas r

def mkListE (xs : List ElemArg) (L : LenP) : Schema :=
  let n := xs.length
  let lead := match xs.head? with | some .ell => true | _ => false
  let trail := n ≥ 2 && (match xs.getLast? with | some .ell => true | _ => false)
  .listE lead (elemSchemas xs) trail L

/-- dict-literal update: a later occurrence of a key replaces the entry but keeps its position -/
def upsertField (fs : List (PyKey × Bool × Schema)) (k : PyKey) (o : Bool) (s : Schema) : List (PyKey × Bool × Schema) :=
  if hasField k fs then fs.map (fun f => if f.1 == k then (k, o, s) else f) else fs ++ [(k, o, s)]

/-- `DictSchema.__call__` body: returns the field table and the position of `...: ...` -/
def buildKeys : List (KeyArg × ElemArg) → List (PyKey × Bool × Schema) → Option Nat → Nat → Except PyExc (List (PyKey × Bool × Schema) × Option Nat)
  | [], fs, ell, _ => .ok (fs, ell)
  | (.ell, .ell) :: r, fs, ell, n => buildKeys r fs (match ell with | some p => some p | none => some n) (match ell with | some _ => n | none => n + 1)
  | (.ell, _) :: _, _, _, _ => DErr
  | (.key _ _, .ell) :: _, _, _, _ => DErr
  | (.key _ _, .bad) :: _, _, _, _ => DErr
  | (.key k o, .sch s) :: r, fs, ell, n => buildKeys r (upsertField fs k o s) ell (if hasField k fs then n else n + 1)

/-! ### the refinement methods -/

def declScalar (k : ScalarS) (op : Op) : Except PyExc ScalarS :=
  match k, op with
  -- bool
  | .bool v, .call (.v (.bool b)) => if v.isSome then DErr else .ok (.bool (some b))
  | .bool _, .call _ => DErr
  -- int
  | .int v mn mx, .call a =>
    (match argInt a with
     | none => DErr
     | some n => if v.isSome then DErr else if mn.isSome || mx.isSome then DErr else .ok (.int (some n) mn mx))
  | .int v mn mx, .min a =>
    (match argInt a with
     | none => DErr
     | some n => if mn.isSome then DErr else
        (match v with | some x => if n > x then DErr else .ok (.int v (some n) mx) | none => .ok (.int v (some n) mx)))
  | .int v mn mx, .max a =>
    (match argInt a with
     | none => DErr
     | some n => if mx.isSome then DErr else
        (match v with | some x => if n < x then DErr else .ok (.int v mn (some n)) | none => .ok (.int v mn (some n))))
  -- float (the decimal companions of min/max are recomputed by the encoder; the model keeps `none`
  -- here and `Decl` results are compared modulo those fields)
  | .float v mn mx p d1 d2, .call a =>
    (match argFloat a with
     | none => DErr
     | some f => if v.isSome then DErr else if mn.isSome || mx.isSome then DErr else .ok (.float (some f) mn mx p d1 d2))
  | .float v mn mx p _ d2, .min a =>
    (match argFloat a with
     | none => DErr
     | some f => if mn.isSome then DErr else
        (match v with
         | some x => if !(PyFloat.le f x) then DErr else .ok (.float v (some f) mx p none d2)
         | none => .ok (.float v (some f) mx p none d2)))
  | .float v mn mx p d1 _, .max a =>
    (match argFloat a with
     | none => DErr
     | some f => if mx.isSome then DErr else
        (match v with
         | some x => if !(PyFloat.ge f x) then DErr else .ok (.float v mn (some f) p d1 none)
         | none => .ok (.float v mn (some f) p d1 none)))
  | .float v mn mx p d1 d2, .precision a =>
    (match argInt a with
     | none => DErr
     | some n => if !(1 ≤ n && n ≤ (Consts.FLOAT_DIG : Int)) then DErr
        else if p.isSome then DErr else .ok (.float v mn mx (some n.toNat) d1 d2))
  -- str
  | .str v L al sub pat, .call a =>
    (match argStr a with
     | none => DErr
     | some s => if v.isSome || L.anySet || al.isSome || sub.isSome || pat.isSome then DErr
        else .ok (.str (some s) L al sub pat))
  | .str v L al sub pat, .len a b =>
    if L.anySet || pat.isSome then DErr else
    do let L' ← declLenDispatch (strDeclLen v) (strDeclMin v) (strDeclMax v) L a b
       pure (.str v L' al sub pat)
  | .str v L al sub pat, .alphabet a =>
    (match argStr a with
     | none => DErr
     | some letters => if al.isSome then DErr else if pat.isSome then DErr else
        (match v with
         | some s => if s.all (fun c => letters.contains c) then .ok (.str v L (some letters) sub pat) else DErr
         | none => .ok (.str v L (some letters) sub pat)))
  | .str v L al sub pat, .contains a =>
    (match argStr a with
     | none => DErr
     | some x => if sub.isSome then DErr else if pat.isSome then DErr else
        (match v with
         | some s => if isInfixB x s then .ok (.str v L al (some x) pat) else DErr
         | none => .ok (.str v L al (some x) pat)))
  | .str v L al sub pat, .regex (.pat compiles p m) =>
    if pat.isSome || al.isSome || L.anySet || sub.isSome then DErr
    else if !compiles then DErr
    else (match v with
      | some _ => if m then .ok (.str v L al sub (some p)) else DErr
      | none => .ok (.str v L al sub (some p)))
  | .str _ _ _ _ _, .regex _ => DErr
  -- bytes / uuid4 / datetime / date
  | .bytes v, .call (.v (.bytes b)) => if v.isSome then DErr else .ok (.bytes (some b))
  | .bytes _, .call _ => DErr
  | .uuid4 v, .call (.v (.uuid i ver)) => if ver ≠ 4 then DErr else if v.isSome then DErr else .ok (.uuid4 (some (i, ver)))
  | .uuid4 _, .call _ => DErr
  | .datetime v, .call (.v (.datetime i)) => if v.isSome then DErr else .ok (.datetime (some i))
  | .datetime _, .call _ => DErr
  | .date v, .call (.v (.date i)) => if v.isSome then DErr else .ok (.date (some (false, i)))
  | .date v, .call (.v (.datetime i)) => if v.isSome then DErr else .ok (.date (some (true, i)))
  | .date _, .call _ => DErr
  -- a method the type does not have
  | _, _ => .error .attributeError

def Schema.elInfo : Schema → Option (Nat × Bool)
  | .listE lead es trail _ => some (es.length, lead || trail)
  | _ => none

def allSch : List Arg → Option (List Schema)
  | [] => some []
  | .sch s :: r => (allSch r).map (s :: ·)
  | _ :: _ => none

/-- one declaration call on a schema -/
def Decl.apply (s : Schema) (op : Op) : Except PyExc Schema :=
  match s, op with
  | .scalar k, op => do let k' ← declScalar k op; pure (.scalar k')
  -- list(elements_or_type)
  | .listU L, .call (.sch t) => if L.anySet then DErr else .ok (.listT t L)
  | .listU L, .call (.elems xs) => if L.anySet then DErr else if elemsOk xs then .ok (mkListE xs L) else DErr
  | .listU _, .call _ => DErr
  | .listT _ _, .call (.sch _) => DErr
  | .listT _ _, .call (.elems _) => DErr
  | .listT _ _, .call _ => DErr
  | .listE .., .call _ => DErr
  -- list.len
  | .listU L, .len a b =>
    if L.anySet then DErr else
    do let L' ← declLenDispatch (listDeclLen none) (listDeclMin none) (listDeclMax none) L a b; pure (.listU L')
  | .listT t L, .len a b =>
    if L.anySet then DErr else
    do let L' ← declLenDispatch (listDeclLen none) (listDeclMin none) (listDeclMax none) L a b; pure (.listT t L')
  | .listE lead es trail L, .len a b =>
    if L.anySet then DErr else
    let el := some (es.length, lead || trail)
    do let L' ← declLenDispatch (listDeclLen el) (listDeclMin el) (listDeclMax el) L a b; pure (.listE lead es trail L')
  -- dict(keys)
  | .dict none _, .call (.keys kvs) =>
    do let (fs, ell) ← buildKeys kvs [] none 0; pure (.dict (some fs) ell)
  | .dict _ _, .call _ => DErr
  -- any(type, *types)
  | .any ts, .anyCall as =>
    (match allSch as with
     | none => DErr
     | some ss => if as.isEmpty then .error .typeError else if ts.isSome then DErr else .ok (.any (some (flattenAny ss))))
  | _, _ => .error .attributeError

def Decl.run : Schema → List Op → Except PyExc Schema
  | s, [] => .ok s
  | s, op :: ops => do let s' ← Decl.apply s op; Decl.run s' ops

/-! ### combinators (C13) -/

/-- `a | b` = `schema.any(a, b)` -/
def Schema.union (a b : Schema) : Schema := .any (some (flattenAny [a, b]))

/-- `{**self_keys, **other_keys}` -/
def mergeFields (a b : List (PyKey × Bool × Schema)) : List (PyKey × Bool × Schema) :=
  b.foldl (fun acc f => upsertField acc f.1 f.2.1 f.2.2) a

/-- `DictSchema.__add__`; `none` when an operand is not a dict schema (TypeError / AttributeError) -/
def Schema.add : Schema → Schema → Option Schema
  | .dict fa ea, .dict fb eb =>
    let a := fa.getD []
    let b := fb.getD []
    -- position of `...` in the merged table: self's position if self has it, else appended where
    -- other's entry falls after the merged concrete keys that precede it
    let merged := mergeFields a b
    let ell := match ea, eb with
      | some p, _ => some p
      | none, some q => some (a.length + ((b.take q).filter (fun f => !(hasField f.1 a))).length)
      | none, none => none
    some (.dict (some merged) ell)
  | _, _ => none

/-- `make_required(schema, keys)`; `keys = none` means all keys -/
def makeRequired : Schema → Option (List PyKey) → Except PyExc Schema
  | .dict none e, ks =>
    (match ks with
     | none => .ok (.dict none e)
     | some [] => .ok (.dict none e)
     | some _ => DErr)
  | .dict (some fs) e, ks =>
    (match ks with
     | none => .ok (.dict (some (fs.map (fun f => (f.1, false, f.2.2)))) e)
     | some l =>
       if l.all (fun k => hasField k fs || (k == PyKey.ellipsis && e.isSome)) then
         .ok (.dict (some (fs.map (fun f => (f.1, (if l.contains f.1 then false else f.2.1), f.2.2)))) e)
       else DErr)
  | _, _ => DErr

/-- `d[key]` -/
def getItem : Schema → PyKey → Except PyExc Schema
  | .dict (some fs) _, k =>
    (match fs.find? (fun f => f.1 == k) with
     | some f => .ok f.2.2
     | none => .error .keyError)
  | .dict none _, _ => .error .keyError
  | _, _ => .error .typeError

end D42
