/-
  D42.Model.Data — the data universe of the model (core Lean only, no imports).

  Python values, schema properties, paths, validation errors, regex trees, RNG draws.
  Everything here is a plain inductive/structure so that the model functions are total,
  structurally recursive and executable.
-/

namespace D42

/-- Python `str` as a list of code points (Python admits lone surrogates, Lean `Char` does not). -/
abbrev Str := List Nat

/-- Python `float`: every finite double is a dyadic rational, shipped exactly. -/
inductive PyFloat where
  | fin (q : Rat)
  | pinf
  | ninf
  | nan
deriving DecidableEq, Repr, Inhabited

/-- Canonical hashable dict key. `True/1/1.0` are already identified by the encoder exactly as
    Python's dict identifies them; tuples, floats that are not integral, frozensets … are `other`
    atoms interned by `==`/`hash` inside one case. -/
inductive PyKey where
  | str (s : Str)
  | int (n : Int)
  | bytes (b : List Nat)
  | none
  | ellipsis
  | other (id : Nat)
deriving DecidableEq, Repr, Inhabited

/-- Python values. `uuid/datetime/date` are atoms interned by `==` inside one case.
    `other` is everything every `isinstance` test of d42 answers `False` for
    (Decimal, Fraction, tuple, set, bytearray, opaque objects, `Nil`). -/
inductive PyVal where
  | none
  | bool (b : Bool)
  | int (n : Int)
  | float (f : PyFloat)
  | str (s : Str)
  | bytes (b : List Nat)
  | uuid (id : Nat) (version : Nat)
  | datetime (id : Nat)
  | date (id : Nat)
  | list (xs : List PyVal)
  | dict (kvs : List (PyKey × PyVal))
  | ellipsis
  | other (id : Nat)
deriving Repr, Inhabited

/-- Regex tree, mirroring what `sre_parse` returns (built by the harness from the real parser). -/
inductive ClsItem where
  | lit (c : Nat)
  | range (lo hi : Nat)
  | digit
  | word
  | unsup (name : Nat)     -- \s \S \D \W … inside a class
deriving DecidableEq, Repr, Inhabited

inductive Re where
  | any
  | lit (c : Nat)
  | notLit (c : Nat)
  | cls (neg : Bool) (items : List ClsItem)
  | group (r : List Re)
  | rep (min : Nat) (max : Option Nat) (r : List Re)     -- `none` = open-ended (MAXREPEAT)
  | at_                                                  -- any anchor
  | branch (alts : List (List Re))
  | unsup (name : Nat)                                   -- any opcode the generator does not know
deriving Repr, Inhabited

/-- `len`, `min_len`, `max_len` props (ints: negative lengths can be declared). -/
structure LenP where
  len    : Option Int := none
  minLen : Option Int := none
  maxLen : Option Int := none
deriving DecidableEq, Repr, Inhabited

/-- Compiled pattern prop: an id (the pattern text lives in the harness) and its parse tree. -/
structure Pat where
  id   : Nat
  tree : List Re
deriving Repr, Inhabited

/-- Non-recursive schemas. A prop that is missing and a prop set to `Nil` are both `none`. -/
inductive ScalarS where
  | none
  | bool (v : Option Bool)
  | int (v mn mx : Option Int)
  /-- `mnDec/mxDec` are `Decimal(repr(min/max))` as exact rationals (used by `random_float`). -/
  | float (v mn mx : Option PyFloat) (prec : Option Nat) (mnDec mxDec : Option Rat)
  | str (v : Option Str) (L : LenP) (alphabet substr : Option Str) (pattern : Option Pat)
  | bytes (v : Option (List Nat))
  | uuid4 (v : Option (Nat × Nat))           -- (id, version)
  | datetime (v : Option Nat)
  | date (v : Option (Bool × Nat))           -- (is a datetime object, id)
deriving Repr, Inhabited

/-- Schemas. Element lists keep the `...` markers as flags: `[..., a]` = lead, `[a, ...]` = trail,
    `[..., a, ...]` = both, `[...]` = lead with no elements. Dict fields keep the `...: ...` entry
    out of the recursive list; `ell` is its insertion position (only `represent` needs it). -/
inductive Schema where
  | scalar (k : ScalarS)
  | listU (L : LenP)
  | listT (t : Schema) (L : LenP)
  | listE (lead : Bool) (elems : List Schema) (trail : Bool) (L : LenP)
  | dict (fields : Option (List (PyKey × Bool × Schema))) (ell : Option Nat)
  | any (types : Option (List Schema))
  | alias (name : Option Str) (t : Schema)
  | custom (inner : Schema)
deriving Repr, Inhabited

inductive Step where
  | idx (i : Nat)
  | key (k : PyKey)
deriving DecidableEq, Repr, Inhabited

abbrev Path := List Step

/-- The type names used by `TypeValidationError`. -/
inductive Ty where
  | none | bool | int | float | str | list | dict | bytes | uuid | datetime | date
deriving DecidableEq, Repr, Inhabited

/-- Validation errors: kind, path, actual value, parameter. -/
inductive Err where
  | type (p : Path) (actual : PyVal) (expected : Ty)
  | value (p : Path) (actual : PyVal) (expected : PyVal)
  | min (p : Path) (actual : PyVal) (bound : PyVal)
  | max (p : Path) (actual : PyVal) (bound : PyVal)
  | len (p : Path) (actual : PyVal) (n : Int)
  | minLen (p : Path) (actual : PyVal) (n : Int)
  | maxLen (p : Path) (actual : PyVal) (n : Int)
  | alphabet (p : Path) (actual : PyVal) (alphabet : Str)
  | substr (p : Path) (actual : PyVal) (sub : Str)
  | regex (p : Path) (actual : PyVal) (pat : Nat)
  | missingElem (p : Path) (actual : PyVal) (i : Nat)
  | extraElem (p : Path) (actual : PyVal) (i : Nat)
  | missingKey (p : Path) (actual : PyVal) (k : PyKey)
  | extraKey (p : Path) (actual : PyVal) (k : PyKey)
  | mismatch (p : Path) (actual : PyVal) (alts : List Schema)
  | uuidVersion (p : Path) (actual : PyVal) (version : Nat)
deriving Repr, Inhabited

def Err.path : Err → Path
  | .type p .. | .value p .. | .min p .. | .max p .. | .len p .. | .minLen p .. | .maxLen p ..
  | .alphabet p .. | .substr p .. | .regex p .. | .missingElem p .. | .extraElem p ..
  | .missingKey p .. | .extraKey p .. | .mismatch p .. | .uuidVersion p .. => p

def Err.actual : Err → PyVal
  | .type _ a _ | .value _ a _ | .min _ a _ | .max _ a _ | .len _ a _ | .minLen _ a _
  | .maxLen _ a _ | .alphabet _ a _ | .substr _ a _ | .regex _ a _ | .missingElem _ a _
  | .extraElem _ a _ | .missingKey _ a _ | .extraKey _ a _ | .mismatch _ a _
  | .uuidVersion _ a _ => a

/-- Python exceptions the model distinguishes. -/
inductive PyExc where
  | declarationError
  | substitutionError
  | validationException (n : Nat)
  | valueError
  | overflowError
  | attributeError
  | indexError
  | typeError
  | keyError
  /-- the scripted RNG answered outside the requested range / with the wrong kind / ran dry:
      a defect of the *draw list*, never of the code. -/
  | badDraw
  /-- the input leads to a state the model does not represent (see DESIGN §2). -/
  | unmodelled
deriving DecidableEq, Repr, Inhabited

/-- One answer of the random source. -/
inductive Draw where
  | int (n : Int)            -- answer to randint(a, b)
  | flt (f : PyFloat)        -- answer to uniform(a, b)
  | idx (i : Nat)            -- answer to choice(seq): the index chosen
  | ext (v : PyVal)          -- uuid4(), utcnow(), today()
deriving Repr, Inhabited

abbrev Draws := List Draw

/-- What the model asked of the random source (compared with the scripted RNG's request log). -/
inductive Req where
  | randint (a b : Int)
  | uniform (a b : PyFloat)
  | choice (n : Nat)
  | ext (kind : Nat)         -- 0 uuid4, 1 utcnow, 2 today
deriving DecidableEq, Repr, Inhabited

/-- External facts the model is parametric in. `rxSearch pat s` is CPython's
    `re.search(pattern, s) is not None`; `fl` is IEEE-754 binary64 round-to-nearest-even of an
    exact rational (the driver instantiates both; theorems state what they assume of them). -/
structure Env where
  rxSearch : Nat → Str → Bool
  fl       : Rat → PyFloat

end D42
