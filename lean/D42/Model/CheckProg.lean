/-
  D42.Model.CheckProg — a small language of "check programs" and its interpreter.

  `harness/extract_validator.py` translates the statement sequence of every non-recursive
  `Validator.visit_*` method of d42/validation/_validator.py (and the type/length prelude of the
  container visitors) into a `List Stmt` on every run (`D42/Gen/ValidatorProg.lean`).
  `Props/ValidatorProg.lean` proves that the hand-written model (`validateScalar`, `lenErrFirst`,
  the container type checks of `validateP`) computes, for EVERY input, exactly what this interpreter
  computes on the extracted programs — so the scalar core of the model is re-checked against what the
  source says now, not only sampled.

  Statement forms = the idioms the file uses today (one constructor each); the translator refuses
  anything else. The interpreter gives each idiom the meaning of the Python it stands for:
  `return result.add_error(e)` ends the method with the errors so far plus `e`;
  `result.add_error(e)` accumulates.
-/
import D42.Model.Validate

namespace D42
namespace CP

/-- the props a check may read -/
inductive PName where
  | value | min | max | precision | len | minLen | maxLen | alphabet | substr | pattern
deriving DecidableEq, Repr, Inhabited

/-- the condition of a check, `P` being the prop it guards on -/
inductive Test where
  | valLt      -- value < P
  | valGt      -- value > P
  | notValGe   -- not (value >= P)
  | notValLe   -- not (value <= P)
  | lenNe      -- len(value) != P
  | lenLt      -- len(value) < P
  | lenGt      -- len(value) > P
  | notIn      -- P not in value
deriving DecidableEq, Repr, Inhabited

/-- the error class constructed with `(path, value, schema.props.P)` -/
inductive EKind where
  | min | max | len | minLen | maxLen | substr
deriving DecidableEq, Repr, Inhabited

inductive Stmt where
  /-- `if error := self._validate_type(path, value, T): return result.add_error(error)` -/
  | typeGuard (t : Ty)
  /-- `if props.value is not Nil: if error := self._validate_value(path, value, props.value): return …` -/
  | valueGuard
  /-- the float fixed-value block (isclose / scaled comparison with the `round` fallback) -/
  | floatValueGuard
  /-- `if value.version != v: return result.add_error(InvalidUUIDVersionValidationError(…))` -/
  | uuidVersionGuard (v : Nat)
  /-- `if props.pattern is not Nil: if re.search(pattern, value) is None: return … RegexValidationError` -/
  | regexGuard
  /-- `if props.alphabet is not Nil: for letter in value: if letter not in set(alphabet): return …` -/
  | alphabetGuard
  /-- `if props.P is not Nil: if <test>: [return] result.add_error(K(path, value, props.P))` -/
  | check (p : PName) (t : Test) (k : EKind) (ret : Bool)
deriving DecidableEq, Repr, Inhabited

/-- what a method can read of its schema -/
structure PV where
  get : PName → Option PyVal
  pat : Option Nat := none

def viewLen (L : LenP) : PName → Option PyVal
  | .len => L.len.map PyVal.int
  | .minLen => L.minLen.map PyVal.int
  | .maxLen => L.maxLen.map PyVal.int
  | _ => none

def viewScalar : ScalarS → PV
  | .none => { get := fun _ => none }
  | .bool v => { get := fun | .value => v.map PyVal.bool | _ => none }
  | .int v mn mx =>
    { get := fun | .value => v.map PyVal.int | .min => mn.map PyVal.int | .max => mx.map PyVal.int | _ => none }
  | .float v mn mx prec _ _ =>
    { get := fun
        | .value => v.map PyVal.float | .min => mn.map PyVal.float | .max => mx.map PyVal.float
        | .precision => prec.map (fun n => PyVal.int n) | _ => none }
  | .str v L al sub pat =>
    { get := fun
        | .value => v.map PyVal.str | .alphabet => al.map PyVal.str | .substr => sub.map PyVal.str
        | n => viewLen L n,
      pat := pat.map (·.id) }
  | .bytes v => { get := fun | .value => v.map PyVal.bytes | _ => none }
  | .uuid4 v => { get := fun | .value => v.map (fun x => PyVal.uuid x.1 x.2) | _ => none }
  | .datetime v => { get := fun | .value => v.map PyVal.datetime | _ => none }
  | .date v =>
    { get := fun
        | .value => v.map (fun x => if x.1 then PyVal.datetime x.2 else PyVal.date x.2)
        | _ => none }

/-- `isinstance(value, T)` for the classes the validator names (bool ⊂ int, datetime ⊂ date) -/
def isInstance : Ty → PyVal → Bool
  | .none, .none => true
  | .bool, .bool _ => true
  | .int, .int _ => true
  | .int, .bool _ => true
  | .float, .float _ => true
  | .str, .str _ => true
  | .list, .list _ => true
  | .dict, .dict _ => true
  | .bytes, .bytes _ => true
  | .uuid, .uuid _ _ => true
  | .datetime, .datetime _ => true
  | .date, .date _ => true
  | .date, .datetime _ => true
  | _, _ => false

/-- Python `==` between a value that passed the type check and a fixed value of the same schema -/
def pyEqAtom : PyVal → PyVal → Bool
  | .str a, .str b => a == b
  | .bytes a, .bytes b => a == b
  | .uuid a _, .uuid b _ => a == b
  | .datetime a, .datetime b => a == b
  | .date a, .date b => a == b
  | a, b => (match asInt a, asInt b with | some n, some m => n == m | _, _ => false)

def pyLen : PyVal → Option Nat
  | .str s => some s.length
  | .list xs => some xs.length
  | _ => none

def evalTest (t : Test) (a b : PyVal) : Bool :=
  match t with
  | .valLt => (match asInt a, asInt b with
               | some n, some m => decide (n < m)
               | _, _ => (match a, b with | .float f, .float m => PyFloat.lt f m | _, _ => false))
  | .valGt => (match asInt a, asInt b with
               | some n, some m => decide (n > m)
               | _, _ => (match a, b with | .float f, .float m => PyFloat.lt m f | _, _ => false))
  | .notValGe => (match a, b with
                  | .float f, .float m => !(PyFloat.ge f m)
                  | _, _ => (match asInt a, asInt b with | some n, some m => decide (n < m) | _, _ => false))
  | .notValLe => (match a, b with
                  | .float f, .float m => !(PyFloat.le f m)
                  | _, _ => (match asInt a, asInt b with | some n, some m => decide (n > m) | _, _ => false))
  | .lenNe => (match pyLen a, asInt b with | some n, some k => decide ((n : Int) ≠ k) | _, _ => false)
  | .lenLt => (match pyLen a, asInt b with | some n, some k => decide ((n : Int) < k) | _, _ => false)
  | .lenGt => (match pyLen a, asInt b with | some n, some k => decide ((n : Int) > k) | _, _ => false)
  | .notIn => (match a, b with | .str s, .str sub => !(isInfixB sub s) | _, _ => false)

def mkErr (k : EKind) (p : Path) (a b : PyVal) : Err :=
  match k with
  | .min => Err.min p a b
  | .max => Err.max p a b
  | .len => Err.len p a ((asInt b).getD 0)
  | .minLen => Err.minLen p a ((asInt b).getD 0)
  | .maxLen => Err.maxLen p a ((asInt b).getD 0)
  | .substr => (match b with | .str s => Err.substr p a s | _ => Err.substr p a [])

/-- `schema.props.precision` as the natural number the declaration guarantees it is -/
def precOf (pv : PV) : Option Nat :=
  match pv.get .precision with | some (.int n) => some n.toNat | _ => none

/-- outcome of one statement -/
inductive Out where
  | ret (e : Err)          -- `return result.add_error(e)`
  | add (es : List Err)    -- fall through, having added `es`

def step (env : Env) (pv : PV) (a : PyVal) (p : Path) : Stmt → Out
  | .typeGuard t => if isInstance t a then .add [] else .ret (Err.type p a t)
  | .valueGuard =>
    (match pv.get .value with
     | some x => if pyEqAtom a x then .add [] else .ret (Err.value p a x)
     | none => .add [])
  | .floatValueGuard =>
    (match pv.get .value, a with
     | some (.float x), .float f =>
       if floatValueOk env f x (precOf pv) then .add [] else .ret (Err.value p a (.float x))
     | _, _ => .add [])
  | .uuidVersionGuard v =>
    (match a with
     | .uuid _ ver => if ver ≠ v then .ret (Err.uuidVersion p a ver) else .add []
     | _ => .add [])
  | .regexGuard =>
    (match pv.pat, a with
     | some id, .str s => if env.rxSearch id s then .add [] else .ret (Err.regex p a id)
     | _, _ => .add [])
  | .alphabetGuard =>
    (match pv.get .alphabet, a with
     | some (.str al), .str s => if s.all (fun c => al.contains c) then .add [] else .ret (Err.alphabet p a al)
     | _, _ => .add [])
  | .check pn t k ret =>
    (match pv.get pn with
     | some b => if evalTest t a b then (if ret then .ret (mkErr k p a b) else .add [mkErr k p a b]) else .add []
     | none => .add [])

/-- run a method body; the flag says whether it ended at an early `return` -/
def run (env : Env) (pv : PV) (a : PyVal) (p : Path) : List Stmt → List Err → List Err × Bool
  | [], acc => (acc, false)
  | s :: rest, acc =>
    (match step env pv a p s with
     | .ret e => (acc ++ [e], true)
     | .add es => run env pv a p rest (acc ++ es))

/-! ### one rewriting lemma per statement form (the proofs in Props/ValidatorProg.lean use only these) -/

section lemmas
variable (env : Env) (pv : PV) (a : PyVal) (p : Path) (rest : List Stmt) (acc : List Err)

@[simp] theorem run_nil : run env pv a p [] acc = (acc, false) := rfl

theorem run_typeGuard (t : Ty) :
    run env pv a p (.typeGuard t :: rest) acc
      = if isInstance t a then run env pv a p rest acc else (acc ++ [Err.type p a t], true) := by
  by_cases hc : isInstance t a = true <;> simp [run, step, hc]

theorem run_valueGuard :
    run env pv a p (.valueGuard :: rest) acc
      = (match pv.get .value with
         | none => run env pv a p rest acc
         | some x => if pyEqAtom a x then run env pv a p rest acc else (acc ++ [Err.value p a x], true)) := by
  cases h : pv.get .value with
  | none => simp [run, step, h]
  | some x => by_cases hc : pyEqAtom a x = true <;> simp [run, step, h, hc]

theorem run_check (pn : PName) (t : Test) (k : EKind) (r : Bool) :
    run env pv a p (.check pn t k r :: rest) acc
      = (match pv.get pn with
         | none => run env pv a p rest acc
         | some b =>
           if evalTest t a b then
             (if r then (acc ++ [mkErr k p a b], true) else run env pv a p rest (acc ++ [mkErr k p a b]))
           else run env pv a p rest acc) := by
  cases h : pv.get pn with
  | none => simp [run, step, h]
  | some b => by_cases hc : evalTest t a b = true <;> cases r <;> simp [run, step, h, hc]

/-- what an accumulating check contributes -/
def checkErrs (pv : PV) (a : PyVal) (p : Path) (pn : PName) (t : Test) (k : EKind) : List Err :=
  match pv.get pn with
  | some b => if evalTest t a b then [mkErr k p a b] else []
  | none => []

theorem run_check_add (pn : PName) (t : Test) (k : EKind) :
    run env pv a p (.check pn t k false :: rest) acc = run env pv a p rest (acc ++ checkErrs pv a p pn t k) := by
  rw [run_check]; unfold checkErrs
  cases pv.get pn with
  | none => simp
  | some b => by_cases hc : evalTest t a b = true <;> simp [hc]

theorem run_uuidVersionGuard (v id ver : Nat) :
    run env pv (.uuid id ver) p (.uuidVersionGuard v :: rest) acc
      = if ver = v then run env pv (.uuid id ver) p rest acc
        else (acc ++ [Err.uuidVersion p (.uuid id ver) ver], true) := by
  by_cases hc : ver = v <;> simp [run, step, hc]

theorem run_regexGuard (s : Str) :
    run env pv (.str s) p (.regexGuard :: rest) acc
      = (match pv.pat with
         | none => run env pv (.str s) p rest acc
         | some id => if env.rxSearch id s then run env pv (.str s) p rest acc
                      else (acc ++ [Err.regex p (.str s) id], true)) := by
  cases h : pv.pat with
  | none => simp [run, step, h]
  | some id => by_cases hc : env.rxSearch id s = true <;> simp [run, step, h, hc]

theorem run_alphabetGuard_none (h : pv.get .alphabet = none) :
    run env pv a p (.alphabetGuard :: rest) acc = run env pv a p rest acc := by
  simp [run, step, h]

theorem run_alphabetGuard_some (al s : Str) (h : pv.get .alphabet = some (.str al)) :
    run env pv (.str s) p (.alphabetGuard :: rest) acc
      = if s.all (fun c => al.contains c) then run env pv (.str s) p rest acc
        else (acc ++ [Err.alphabet p (.str s) al], true) := by
  by_cases hc : (s.all (fun c => al.contains c)) = true <;> simp only [run, step, h, hc] <;> simp

theorem run_floatValueGuard_none (h : pv.get .value = none) :
    run env pv a p (.floatValueGuard :: rest) acc = run env pv a p rest acc := by
  simp [run, step, h]

theorem run_floatValueGuard_some (x f : PyFloat) (h : pv.get .value = some (.float x)) :
    run env pv (.float f) p (.floatValueGuard :: rest) acc
      = if floatValueOk env f x (precOf pv)
        then run env pv (.float f) p rest acc else (acc ++ [Err.value p (.float f) (.float x)], true) := by
  by_cases hc : floatValueOk env f x (precOf pv) = true <;>
    simp only [run, step, h, hc] <;> simp

end lemmas

end CP
end D42
