/-
  D42.Model.Rollout — transcription of d42/utils/_rollout.py.
-/
import D42.Model.Data

namespace D42

inductive RKey where
  | str (s : Str) (optional : Bool)     -- "a.b" or optional("a.b")
  | ell
  | other (id : Nat)                    -- any non-str key: TypeError
deriving DecidableEq, Repr, Inhabited

inductive RVal where
  | leaf (payload : Nat)                -- any non-dict value, untouched
  | ell
  | dict (kvs : List (RKey × RVal))
deriving Repr, Inhabited

/-- split at the first occurrence of `sep` (non-empty): `(before, after)` -/
def splitFirst (sep : Str) : Str → Option (Str × Str)
  | [] => if sep.isEmpty then some ([], []) else none
  | c :: r =>
    if sep.isPrefixOf (c :: r) then some ([], (c :: r).drop sep.length)
    else (splitFirst sep r).map (fun ht => (c :: ht.1, ht.2))

def rlookup (k : RKey) : List (RKey × RVal) → Option RVal
  | [] => none
  | (k', v) :: r => if k = k' then some v else rlookup k r

/-- `d[k] = v`: replace in place or append -/
def rupsert (d : List (RKey × RVal)) (k : RKey) (v : RVal) : List (RKey × RVal) :=
  if (rlookup k d).isSome then d.map (fun kv => if kv.1 = k then (k, v) else kv) else d ++ [(k, v)]

/-- one iteration of the first loop of `rollout` -/
def rolloutStep (sep : Str) (upd : List (RKey × RVal)) (kv : RKey × RVal) : Except PyExc (List (RKey × RVal)) :=
  match kv with
  | (.ell, .ell) => .ok (rupsert upd .ell .ell)
  | (.ell, _) => .error .valueError
  | (.other _, _) => .error .typeError
  | (.str s opt, v) =>
    match splitFirst sep s with
    | none => .ok (rupsert upd (.str s opt) v)
    | some (h, t) =>
      match rlookup (.str h false) upd with
      | none => .ok (upd ++ [(.str h false, .dict [(.str t opt, v)])])
      | some (.dict d) => .ok (rupsert upd (.str h false) (.dict (rupsert d (.str t opt) v)))
      | some _ => .error .typeError

def rolloutPass (sep : Str) : List (RKey × RVal) → List (RKey × RVal) → Except PyExc (List (RKey × RVal))
  | upd, [] => .ok upd
  | upd, kv :: r => do let u ← rolloutStep sep upd kv; rolloutPass sep u r

/-- `rollout(keys, separator=sep)` with explicit fuel (each level consumes one). -/
def rolloutF (sep : Str) : Nat → List (RKey × RVal) → Except PyExc (List (RKey × RVal))
  | 0, _ => .error .unmodelled
  | f + 1, kvs =>
    if sep.isEmpty then .error .valueError else do
    let upd ← rolloutPass sep [] kvs
    upd.mapM (fun kv => match kv.2 with
      | .dict d => do let d' ← rolloutF sep f d; pure (kv.1, RVal.dict d')
      | v => pure (kv.1, v))

/-- a bound on the nesting the result can have: every level removes at least one character or
    descends one level of an already nested mapping -/
def rsize : RVal → Nat
  | .dict kvs => 1 + rsizeL kvs
  | _ => 1
where rsizeL : List (RKey × RVal) → Nat
  | [] => 0
  | (k, v) :: r => (match k with | .str s _ => s.length + 1 | _ => 1) + rsize v + rsizeL r

def rollout (sep : Str) (kvs : List (RKey × RVal)) : Except PyExc (List (RKey × RVal)) :=
  rolloutF sep (rsize (.dict kvs) + 1) kvs

end D42
