/-
  D42.Model.Subst — transcription of d42/utils/_from_native.py and d42/substitution/_substitutor.py.
-/
import D42.Model.Validate

namespace D42

/-! ### from_native -/

mutual
def fromNative : PyVal → Except PyExc Schema
  | .none => .ok (.scalar .none)
  | .bool b => .ok (.scalar (.bool (some b)))
  | .int n => .ok (.scalar (.int (some n) none none))
  | .float f => .ok (.scalar (.float (some f) none none none none none))
  | .str s => .ok (.scalar (.str (some s) {} none none none))
  | .bytes b => .ok (.scalar (.bytes (some b)))
  | .uuid i ver => if ver = 4 then .ok (.scalar (.uuid4 (some (i, ver)))) else .error .valueError
  | .datetime i => .ok (.scalar (.datetime (some i)))
  | .date i => .ok (.scalar (.date (some (false, i))))
  | .list xs => do let es ← fromNativeList xs; pure (.listE false es false {})
  | .dict kvs =>
    if kvs.any (fun kv => kv.1 == PyKey.ellipsis) then .error .valueError
    else do let fs ← fromNativeKVs kvs; pure (.dict (some fs) none)
  | .ellipsis => .error .valueError
  | .other _ => .error .valueError
def fromNativeList : List PyVal → Except PyExc (List Schema)
  | [] => .ok []
  | x :: xs => do let a ← fromNative x; let b ← fromNativeList xs; pure (a :: b)
def fromNativeKVs : List (PyKey × PyVal) → Except PyExc (List (PyKey × Bool × Schema))
  | [] => .ok []
  | (k, v) :: r => do let a ← fromNative v; let b ← fromNativeKVs r; pure ((k, false, a) :: b)
end

/-- `Substitutor._from_native`: `ValueError` becomes `SubstitutionError`. -/
def fromNativeS (v : PyVal) : Except PyExc Schema :=
  match fromNative v with
  | .ok s => .ok s
  | .error _ => .error .substitutionError

def fromNativeListS : List PyVal → Except PyExc (List Schema)
  | [] => .ok []
  | x :: xs => do let a ← fromNativeS x; let b ← fromNativeListS xs; pure (a :: b)

/-! ### substitution -/

/-- `props.update(value=value)` for a scalar that has just passed validation. -/
def ScalarS.withValue : ScalarS → PyVal → ScalarS
  | .none, _ => .none
  | .bool _, .bool b => .bool (some b)
  | .int _ mn mx, v => (match asInt v with | Option.some n => .int (Option.some n) mn mx | Option.none => .int Option.none mn mx)
  | .float _ mn mx p d1 d2, .float f => .float (some f) mn mx p d1 d2
  | .str _ L al sub pat, .str s => .str (some s) L al sub pat
  | .bytes _, .bytes b => .bytes (some b)
  | .uuid4 _, .uuid i ver => .uuid4 (some (i, ver))
  | .datetime _, .datetime i => .datetime (some i)
  | .date _, .date i => .date (some (false, i))
  | .date _, .datetime i => .date (some (true, i))
  | k, _ => k

/-- the list value stripped of a leading / trailing `...` (which become the markers) -/
def stripEll (xs : List PyVal) : Bool × List PyVal × Bool :=
  let lead := match xs.head? with | some .ellipsis => true | _ => false
  let xs1 := if lead then xs.drop 1 else xs
  let trail := match xs1.getLast? with | some .ellipsis => true | _ => false
  let core := if trail then xs1.dropLast else xs1
  (lead, core, trail)

def ok? {α} : Except PyExc α → Option α | .ok a => some a | .error _ => none

/-- undeclared (or only-`...`) dict: every given member through `from_native`; `relaxed` = the
    original had `...: ...` -/
def substFresh (kvs : List (PyKey × PyVal)) (relaxed : Bool) : Except PyExc Schema :=
  if kvs.any (fun kv => (kv.1 == PyKey.ellipsis) != isEllipsis kv.2) then .error .substitutionError else
  let concrete := kvs.filter (fun kv => !(kv.1 == PyKey.ellipsis))
  let pos := kvs.findIdx? (fun kv => kv.1 == PyKey.ellipsis)
  do
    let fs ← (concrete.mapM (fun kv => do let s ← fromNativeS kv.2; pure (kv.1, false, s)))
    let ell := match pos with | some p => some p | none => if relaxed then some kvs.length else none
    pure (.dict (some fs) ell)

mutual
def subst (env : Env) : Schema → PyVal → Except PyExc Schema
  | .scalar k, v =>
    if (validateScalar env k v []).isEmpty then .ok (.scalar (k.withValue v)) else .error .substitutionError
  | .listU L, v =>
    if !(validateP env true (.listU L) v []).isEmpty then .error .substitutionError else
    (match v with
     | .list xs =>
       if !xs.isEmpty && xs.all isEllipsis then .error .substitutionError
       else if (xs.drop 1).dropLast.any isEllipsis then .error .substitutionError
       else
         let (lead, core, trail) := stripEll xs
         do let es ← fromNativeListS core; pure (.listE lead es trail L)
     | _ => .error .unmodelled)
  | .listT t L, v =>
    if !(validateP env true (.listT t L) v []).isEmpty then .error .substitutionError else
    (match v with
     | .list xs =>
       if !xs.isEmpty && xs.all isEllipsis then .error .substitutionError
       else if (xs.drop 1).dropLast.any isEllipsis then .error .substitutionError
       else
         let (lead, core, trail) := stripEll xs
         do let es ← substAll env t core; pure (.listE lead es trail L)
     | _ => .error .unmodelled)
  | .listE lead elems trail L, v =>
    if !(validateP env true (.listE lead elems trail L) v []).isEmpty then .error .substitutionError else
    (match v with
     | .list xs =>
       if !xs.isEmpty && xs.all isEllipsis then .error .substitutionError
       else if xs.any isEllipsis then .error .substitutionError
       else if lead && trail && !elems.isEmpty then
         (match substWindows env elems xs 0 xs.length with
          | some es => .ok (.listE false es false L)
          | none => .error .substitutionError)
       else if trail then
         do let es ← substElems env elems xs 0; pure (.listE false es false L)
       else if lead then
         do let es ← substElems env elems xs (xs.length - elems.length); pure (.listE false es false L)
       else
         do let es ← substElems env elems xs 0; pure (.listE false es false L)
     | _ => .error .unmodelled)
  | .dict none ell, v =>
    if !(validateP env true (.dict none ell) v []).isEmpty then .error .substitutionError else
    (match v with
     | .dict kvs => substFresh kvs false
     | _ => .error .unmodelled)
  | .dict (some []) (some pos), v =>
    if !(validateP env true (.dict (some []) (some pos)) v []).isEmpty then .error .substitutionError else
    (match v with
     | .dict kvs => substFresh kvs true
     | _ => .error .unmodelled)
  | .dict (some fs) ell, v =>
    if !(validateP env true (.dict (some fs) ell) v []).isEmpty then .error .substitutionError else
    (match v with
     | .dict kvs =>
       if kvs.any (fun kv => kv.1 == PyKey.ellipsis) then .error .substitutionError else
       do
         let fs' ← substFields env fs kvs
         if kvs.any (fun kv => !(hasField kv.1 fs)) then .error .substitutionError
         else pure (.dict (some fs') ell)
     | _ => .error .unmodelled)
  | .any none, v => do let s ← fromNativeS v; pure (.any (some [s]))
  | .any (some ts), v =>
    if !(validateP env true (.any (some ts)) v []).isEmpty then .error .substitutionError else
    (match substAlts env ts v with
     | [] => .error .substitutionError
     | r => .ok (.any (some r)))
  | .alias n t, v => do let t' ← subst env t v; pure (.alias n t')
  | .custom t, v => do let t' ← subst env t v; pure (.custom t')
/-- typed list: every element through the element type -/
def substAll (env : Env) (t : Schema) : List PyVal → Except PyExc (List Schema)
  | [] => .ok []
  | x :: xs => do let a ← subst env t x; let b ← substAll env t xs; pure (a :: b)
/-- `_substitute_elements(value, elements, start)` -/
def substElems (env : Env) (elems : List Schema) (xs : List PyVal) (start : Nat) : Except PyExc (List Schema) := do
  let mid ← substZip env elems (xs.drop start) 
  let suffix ← fromNativeListS (xs.drop (start + elems.length))
  let pre ← fromNativeListS (xs.take start)
  pure (pre ++ mid ++ suffix)
/-- element schemas against consecutive values; running out of values is `Index out of range` -/
def substZip (env : Env) : List Schema → List PyVal → Except PyExc (List Schema)
  | [], _ => .ok []
  | _ :: _, [] => .error .substitutionError
  | s :: ss, x :: xs => do let a ← subst env s x; let b ← substZip env ss xs; pure (a :: b)
/-- contains form: first window start in `i .. n-1` that substitutes -/
def substWindows (env : Env) (elems : List Schema) (xs : List PyVal) (i n : Nat) : Option (List Schema) :=
  if i < n then
    match ok? (substElems env elems xs i) with
    | some r => some r
    | none => substWindows env elems xs (i + 1) n
  else none
def substFields (env : Env) : List (PyKey × Bool × Schema) → List (PyKey × PyVal) → Except PyExc (List (PyKey × Bool × Schema))
  | [], _ => .ok []
  | (k, opt, s) :: fs, kvs => do
    let f ← (match lookupKey k kvs with
      | some .ellipsis => pure (k, false, s)
      | some x => do let s' ← subst env s x; pure (k, false, s')
      | none => pure (k, opt, s))
    let r ← substFields env fs kvs
    pure (f :: r)
def substAlts (env : Env) : List Schema → PyVal → List Schema
  | [], _ => []
  | s :: ss, v =>
    match ok? (subst env s v) with
    | some r => r :: substAlts env ss v
    | none => substAlts env ss v
end

end D42
