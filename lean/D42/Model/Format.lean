/-
  D42.Model.Format — the parts of d42/validation/_formatter.py that are not wording: which path a
  message names, and the one Python raise point of the formatter (`len(error.actual_value)` in the three
  length messages). `validate_or_fail` on top of it.
-/
import D42.Model.Validate

namespace D42

/-- Python `len(x)`: TypeError for a value that is not sized -/
def pyLenX : PyVal → Except PyExc Nat
  | .str s => .ok s.length
  | .bytes b => .ok b.length
  | .list xs => .ok xs.length
  | .dict kvs => .ok kvs.length
  | _ => .error .typeError

/-- what a rendered message is made of, wording aside -/
structure Msg where
  kind  : String
  shown : Path          -- the path the message names (empty = the message names no path)
  len   : Option Nat    -- the `len(actual)` printed by the three length messages
deriving Repr

/-- `error.format(formatter)` -/
def formatX : Err → Except PyExc Msg
  | .type p _ _ => .ok ⟨"type", p, none⟩
  | .value p _ _ => .ok ⟨"value", p, none⟩
  | .min p _ _ => .ok ⟨"min", p, none⟩
  | .max p _ _ => .ok ⟨"max", p, none⟩
  | .len p a _ => do let n ← pyLenX a; pure ⟨"len", p, some n⟩
  | .minLen p a _ => do let n ← pyLenX a; pure ⟨"minlen", p, some n⟩
  | .maxLen p a _ => do let n ← pyLenX a; pure ⟨"maxlen", p, some n⟩
  | .alphabet p _ _ => .ok ⟨"alphabet", p, none⟩
  | .substr p _ _ => .ok ⟨"substr", p, none⟩
  | .regex p _ _ => .ok ⟨"regex", p, none⟩
  | .missingElem p _ i => .ok ⟨"missingelem", p ++ [.idx i], none⟩
  | .extraElem p _ _ => .ok ⟨"extraelem", p, none⟩
  | .missingKey p _ k => .ok ⟨"missingkey", p ++ [.key k], none⟩
  | .extraKey p _ _ => .ok ⟨"extrakey", p, none⟩
  | .mismatch p _ _ => .ok ⟨"mismatch", p, none⟩
  | .uuidVersion p _ _ => .ok ⟨"uuidversion", p, none⟩

def formatAll : List Err → Except PyExc (List Msg)
  | [] => .ok []
  | e :: es => do let m ← formatX e; let ms ← formatAll es; pure (m :: ms)

/-- `validate_or_fail(schema, value)`: `True`, or ValidationException carrying one line per error -/
def validateOrFail (env : Env) (s : Schema) (v : PyVal) : Except PyExc Bool := do
  let errs ← validate env false s v []
  let msgs ← formatAll errs
  if msgs.isEmpty then pure true else .error (.validationException msgs.length)

end D42
