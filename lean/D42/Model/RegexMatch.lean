/-
  D42.Model.RegexMatch — an executable matcher for the pattern trees of the supported regex constructs
  (brute force over all ways to cut the string; exponential, meant for short strings): the model's
  `re.fullmatch(pattern, s) is not None`. `extB` says which non-ASCII characters `\d` / `\w` accept.
-/
import D42.Model.Data

namespace D42

def isAsciiDigitB (x : Nat) : Bool := 48 ≤ x && x ≤ 57
def isAsciiWordB (x : Nat) : Bool := (48 ≤ x && x ≤ 57) || (65 ≤ x && x ≤ 90) || (97 ≤ x && x ≤ 122) || x == 95

def ClsItem.acceptsB (extB : ClsItem → Nat → Bool) : ClsItem → Nat → Bool
  | .lit c, x => x == c
  | .range lo hi, x => lo ≤ x && x ≤ hi
  | .digit, x => isAsciiDigitB x || (128 ≤ x && extB .digit x)
  | .word, x => isAsciiWordB x || (128 ≤ x && extB .word x)
  | .unsup n, x => extB (.unsup n) x

/-- all ways to cut a string in two -/
def splits (s : Str) : List (Str × Str) := (List.range (s.length + 1)).map (fun i => (s.take i, s.drop i))

/-- `n` consecutive pieces, each accepted by `p` -/
def repNB (p : Str → Bool) : Nat → Str → Bool
  | 0, s => s.isEmpty
  | n + 1, s => (splits s).any (fun ab => p ab.1 && repNB p n ab.2)

/-- some count between `mn` and the bound works (`hi` = declared maximum, or — open-ended — the largest count
    that can matter: beyond `max mn |s|` iterations some piece is empty and can be dropped) -/
def repRangeB (p : Str → Bool) (mn : Nat) (mx : Option Nat) (s : Str) : Bool :=
  let hi := match mx with | some m => min m (max mn s.length) | none => max mn s.length
  (List.range (hi + 1)).any (fun n => mn ≤ n && repNB p n s)

mutual
def matchB (extB : ClsItem → Nat → Bool) : Re → Str → Bool
  | .any, s => (match s with | [c] => c != 10 | _ => false)
  | .lit c, s => (match s with | [x] => x == c | _ => false)
  | .notLit c, s => (match s with | [x] => x != c | _ => false)
  | .cls neg items, s => (match s with | [x] => (items.any (fun it => it.acceptsB extB x)) != neg | _ => false)
  | .group r, s => matchSeqB extB r s
  | .rep mn mx r, s => repRangeB (matchSeqB extB r) mn mx s
  | .at_, s => s.isEmpty
  | .branch alts, s => matchAltB extB alts s
  | .unsup _, _ => false
def matchSeqB (extB : ClsItem → Nat → Bool) : List Re → Str → Bool
  | [], s => s.isEmpty
  | r :: rs, s => (splits s).any (fun ab => matchB extB r ab.1 && matchSeqB extB rs ab.2)
def matchAltB (extB : ClsItem → Nat → Bool) : List (List Re) → Str → Bool
  | [], _ => false
  | a :: as, s => matchSeqB extB a s || matchAltB extB as s
end

end D42
