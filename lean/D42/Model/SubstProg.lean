/-
  D42.Model.SubstProg — what `harness/extract_substitutor.py` reads off the source on every run
  (`D42/Gen/SubstProg.lean`), and its meaning:

  * the `isinstance` ladder of d42/utils/_from_native.py as an ordered list of steps (first match wins);
  * for every non-recursive `Substitutor.visit_*`: the three-statement idiom "validate with the substitution
    validator; raise make_substitution_error if there are errors; return class(props[.update(value=value)])", recorded
    as whether the returned props carry the value.

  `Props/SubstProg.lean` proves the hand model (`fromNative`, the scalar clause of `subst`) equal to these for every input.
-/
import D42.Model.CheckProg
import D42.Model.Subst

namespace D42
namespace SP
open CP

/-- one rung of the ladder -/
inductive FNStep where
  | isNone                          -- `value is None` → NoneSchema()
  | inst (t : Ty)                   -- `isinstance(value, T)` → TSchema()(value)
  | instUuid (version : Nat)        -- `isinstance(value, UUID) and value.version == 4` → UUID4Schema()(value)
  | list                            -- `isinstance(value, list)` → ListSchema()([from_native(x) for x in value])
  | dict (refuseEllipsisKeys : Bool) -- `isinstance(value, dict)` → refuse marker keys, DictSchema()({k: from_native(v)})
deriving DecidableEq, Repr, Inhabited

/-- what the first matching rung does with a value -/
inductive Shape where
  | none | scalar (t : Ty) | uuid | list | dict (refuse : Bool) | refuse
deriving DecidableEq, Repr, Inhabited

def classify : List FNStep → PyVal → Shape
  | [], _ => .refuse                               -- the final `else: raise ValueError(value)`
  | .isNone :: r, v => (match v with | .none => .none | _ => classify r v)
  | .inst t :: r, v => if isInstance t v then .scalar t else classify r v
  | .instUuid ver :: r, v => (match v with | .uuid _ x => if x = ver then .uuid else classify r v | _ => classify r v)
  | .list :: r, v => (match v with | .list _ => .list | _ => classify r v)
  | .dict b :: r, v => (match v with | .dict _ => .dict b | _ => classify r v)

/-- the schema a rung builds (members through the model's own recursive functions) -/
def build : Shape → PyVal → Except PyExc Schema
  | .none, _ => .ok (.scalar .none)
  | .scalar .bool, .bool b => .ok (.scalar (.bool (some b)))
  | .scalar .int, v => (match asInt v with | some n => .ok (.scalar (.int (some n) none none)) | none => .error .unmodelled)
  | .scalar .float, .float f => .ok (.scalar (.float (some f) none none none none none))
  | .scalar .str, .str s => .ok (.scalar (.str (some s) {} none none none))
  | .scalar .bytes, .bytes b => .ok (.scalar (.bytes (some b)))
  | .scalar .datetime, .datetime i => .ok (.scalar (.datetime (some i)))
  | .scalar .date, .date i => .ok (.scalar (.date (some (false, i))))
  | .scalar .date, .datetime i => .ok (.scalar (.date (some (true, i))))
  | .uuid, .uuid i ver => .ok (.scalar (.uuid4 (some (i, ver))))
  | .list, .list xs => do let es ← fromNativeList xs; pure (.listE false es false {})
  | .dict refuse, .dict kvs =>
    if refuse && kvs.any (fun kv => kv.1 == PyKey.ellipsis) then .error .valueError
    else do let fs ← fromNativeKVs kvs; pure (.dict (some fs) none)
  | .refuse, _ => .error .valueError
  | _, _ => .error .unmodelled

/-- a scalar `Substitutor.visit_*`: validate, raise on errors, return the schema with or without the value -/
structure ScalarSubst where
  validates : Bool      -- `result = schema.__accept__(self._validator, value=value)`
  raises : Bool         -- `if result.has_errors(): raise make_substitution_error(result, self._formatter)`
  setsValue : Bool      -- `schema.props.update(value=value)` (false: `schema.props`)
deriving DecidableEq, Repr, Inhabited

def runScalarSubst (env : Env) (f : ScalarSubst) (k : ScalarS) (v : PyVal) : Except PyExc Schema :=
  if f.validates && f.raises && !(validateScalar env k v []).isEmpty then .error .substitutionError
  else .ok (.scalar (if f.setsValue then k.withValue v else k))

end SP
end D42
