/-
  D42.Model.Repr — transcription of d42/representation/_representor.py (name = "schema", indent = 4).

  The text is a list of tokens: literal text, and holes for the literals whose rendering is
  CPython's `repr` (the harness fills them from the same objects).
-/
import D42.Model.Data

namespace D42

inductive Tok where
  | t (s : String)
  | val (v : PyVal)        -- `{value!r}`
  | key (k : PyKey)        -- `{key!r}`
  | pat (id : Nat)         -- `{pattern!r}`
  | name (s : Str)         -- alias name (inserted verbatim)
deriving Repr, Inhabited

def spaces (n : Nat) : String := String.ofList (List.replicate n ' ')

def reprInt (n : Int) : Tok := .val (.int n)

def reprLen (L : LenP) : List Tok :=
  match L.len, L.minLen, L.maxLen with
  | some n, _, _ => [.t ".len(", reprInt n, .t ")"]
  | none, some a, some b => [.t ".len(", reprInt a, .t ", ", reprInt b, .t ")"]
  | none, some a, none => [.t ".len(", reprInt a, .t ", ...)"]
  | none, none, some b => [.t ".len(..., ", reprInt b, .t ")"]
  | none, none, none => []

def callTok (v : PyVal) : List Tok := [.t "(", .val v, .t ")"]

def reprScalar : ScalarS → List Tok
  | .none => [.t "schema.none"]
  | .bool v => .t "schema.bool" :: (match v with | some b => callTok (.bool b) | none => [])
  | .int v mn mx =>
    .t "schema.int" :: (match v with | some x => callTok (.int x) | none => []) ++
    (match mn with | some x => [.t ".min(", reprInt x, .t ")"] | none => []) ++
    (match mx with | some x => [.t ".max(", reprInt x, .t ")"] | none => [])
  | .float v mn mx p _ _ =>
    .t "schema.float" :: (match v with | some x => callTok (.float x) | none => []) ++
    (match mn with | some x => [.t ".min(", .val (.float x), .t ")"] | none => []) ++
    (match mx with | some x => [.t ".max(", .val (.float x), .t ")"] | none => []) ++
    (match p with | some x => [.t ".precision(", reprInt x, .t ")"] | none => [])
  | .str v L al sub pat =>
    .t "schema.str" :: (match v with | some x => callTok (.str x) | none => []) ++
    (match al with | some x => [.t ".alphabet(", .val (.str x), .t ")"] | none => []) ++
    (match sub with | some x => [.t ".contains(", .val (.str x), .t ")"] | none => []) ++
    (match pat with | some x => [.t ".regex(", .pat x.id, .t ")"] | none => []) ++
    reprLen L
  | .bytes v => .t "schema.bytes" :: (match v with | some b => callTok (.bytes b) | none => [])
  | .uuid4 v => .t "schema.uuid4" :: (match v with | some (i, ver) => callTok (.uuid i ver) | none => [])
  | .datetime v => .t "schema.datetime" :: (match v with | some i => callTok (.datetime i) | none => [])
  | .date v => .t "schema.date" :: (match v with
      | some (true, i) => callTok (.datetime i) | some (false, i) => callTok (.date i) | none => [])

/-- join token groups with a separator -/
def joinToks (sep : String) : List (List Tok) → List Tok
  | [] => []
  | [x] => x
  | x :: r => x ++ [.t sep] ++ joinToks sep r

/-- insert `x` at position `i` (or at the end) -/
def insertAt {α} (l : List α) (i : Nat) (x : α) : List α := l.take i ++ [x] ++ l.drop i

mutual
def represent : Schema → Nat → List Tok
  | .scalar k, _ => reprScalar k
  | .listU L, _ => .t "schema.list" :: reprLen L
  | .listT t L, ind => [.t "schema.list("] ++ represent t ind ++ [.t ")"] ++ reprLen L
  | .listE lead es trail L, ind =>
    let items : List (List Tok) :=
      (if lead then [[.t (spaces (ind + 4) ++ "...")]] else []) ++
      reprElems es (ind + 4) ++
      (if trail then [[.t (spaces (ind + 4) ++ "...")]] else [])
    (if items.isEmpty then [.t "schema.list([])"]
     else [.t "schema.list([\n"] ++ joinToks ",\n" items ++ [.t ("\n" ++ spaces ind ++ "])")]) ++ reprLen L
  | .dict none _, _ => [.t "schema.dict"]
  | .dict (some fs) ell, ind =>
    (match fs, ell with
     | [], none => [.t "schema.dict({})"]
     | [], some _ => [.t "schema.dict({...: ...})"]
     | _, _ =>
       let pairs := reprFields fs (ind + 4)
       let pairs := match ell with
         | some p => insertAt pairs p [.t (spaces (ind + 4) ++ "...: ...")]
         | none => pairs
       [.t "schema.dict({\n"] ++ joinToks ",\n" pairs ++ [.t ("\n" ++ spaces ind ++ "})")])
  | .any none, _ => [.t "schema.any"]
  | .any (some ts), ind => [.t "schema.any("] ++ joinToks ", " (reprAlts ts ind) ++ [.t ")"]
  | .alias n t, ind =>
    (match n with | some s => [Tok.name s] | none => [.t "TypeAliasSchema"]) ++ [.t "<"] ++ represent t ind ++ [.t ">"]
  | .custom t, ind => represent t ind
def reprElems : List Schema → Nat → List (List Tok)
  | [], _ => []
  | s :: ss, ind => ([.t (spaces ind)] ++ represent s ind) :: reprElems ss ind
def reprFields : List (PyKey × Bool × Schema) → Nat → List (List Tok)
  | [], _ => []
  | (k, opt, s) :: fs, ind =>
    ([.t (spaces ind)] ++ (if opt then [.t "optional(", .key k, .t ")"] else [.key k]) ++ [.t ": "] ++ represent s ind)
      :: reprFields fs ind
def reprAlts : List Schema → Nat → List (List Tok)
  | [], _ => []
  | s :: ss, ind => represent s ind :: reprAlts ss ind
end

end D42
