/-
  D42.Model.Validate — transcription of d42/validation/_validator.py (`Validator`) and of
  d42/substitution/_validator.py (`SubstitutorValidator`, selected by `sub = true`).

  `validateP` is the pure function all meaning theorems are about. `validate` is the same
  visitor with every Python raise point explicit (`Except PyExc`); `Props/C08.lean` proves
  `validate = .ok ∘ validateP`, i.e. every raise point is caught or dominated by a type check.
-/
import D42.Model.Float

namespace D42

/-! ### scalar helpers -/

def isInfixB (sub s : Str) : Bool := decide (sub <:+: s)

def lenErrs (L : LenP) (n : Nat) (p : Path) (v : PyVal) : List Err :=
  (match L.len with | some k => if (n : Int) ≠ k then [Err.len p v k] else [] | none => []) ++
  (match L.minLen with | some k => if (n : Int) < k then [Err.minLen p v k] else [] | none => []) ++
  (match L.maxLen with | some k => if (n : Int) > k then [Err.maxLen p v k] else [] | none => [])

/-- list flavour: the first failing length check returns alone. -/
def lenErrFirst (L : LenP) (n : Nat) (p : Path) (v : PyVal) : Option Err :=
  match L.len with
  | some k => if (n : Int) ≠ k then some (Err.len p v k) else
      (match L.minLen with
       | some k => if (n : Int) < k then some (Err.minLen p v k) else
           (match L.maxLen with | some k => if (n : Int) > k then some (Err.maxLen p v k) else none | none => none)
       | none => (match L.maxLen with | some k => if (n : Int) > k then some (Err.maxLen p v k) else none | none => none))
  | none =>
      (match L.minLen with
       | some k => if (n : Int) < k then some (Err.minLen p v k) else
           (match L.maxLen with | some k => if (n : Int) > k then some (Err.maxLen p v k) else none | none => none)
       | none => (match L.maxLen with | some k => if (n : Int) > k then some (Err.maxLen p v k) else none | none => none))

/-- `isinstance(value, int)` view: bools are ints. -/
def asInt : PyVal → Option Int
  | .int n => some n
  | .bool b => some (if b then 1 else 0)
  | _ => none

def intBoundErrs (mn mx : Option Int) (n : Int) (p : Path) (v : PyVal) : List Err :=
  (match mn with | some m => if n < m then [Err.min p v (.int m)] else [] | none => []) ++
  (match mx with | some m => if n > m then [Err.max p v (.int m)] else [] | none => [])

def floatBoundErrs (mn mx : Option PyFloat) (f : PyFloat) (p : Path) (v : PyVal) : List Err :=
  (match mn with | some m => if !(PyFloat.ge f m) then [Err.min p v (.float m)] else [] | none => []) ++
  (match mx with | some m => if !(PyFloat.le f m) then [Err.max p v (.float m)] else [] | none => [])

/-- the float "equals the fixed value" test, raise points explicit. -/
def floatValueOkX (env : Env) (f x : PyFloat) (prec : Option Nat) : Except PyExc Bool :=
  match prec with
  | none => .ok (isclose env f x)
  | some pr =>
    -- try: round(value*scale); round(expected*scale)  except (OverflowError, ValueError): ==
    match (do let a ← pyRound (fscale env f pr); let b ← pyRound (fscale env x pr); pure (a == b)) with
    | .ok r => .ok r
    | .error .overflowError => .ok (PyFloat.eq f x)
    | .error .valueError => .ok (PyFloat.eq f x)
    | .error e => .error e

def floatValueOk (env : Env) (f x : PyFloat) (prec : Option Nat) : Bool :=
  match prec with
  | none => isclose env f x
  | some pr => eqAtPrecision env f x pr

/-- `visit_str` after the value and pattern checks: lengths, substring, alphabet accumulate -/
def strTail (L : LenP) (alphabet substr : Option Str) (s : Str) (p : Path) (a : PyVal) : List Err :=
  lenErrs L s.length p a ++
  (match substr with | some sub => if isInfixB sub s then [] else [Err.substr p a sub] | none => []) ++
  (match alphabet with | some al => if s.all (fun c => al.contains c) then [] else [Err.alphabet p a al] | none => [])

/-- the pattern check returns alone when it fails -/
def strRest (env : Env) (L : LenP) (alphabet substr : Option Str) (pattern : Option Pat)
    (s : Str) (p : Path) (a : PyVal) : List Err :=
  match pattern with
  | some pt => if env.rxSearch pt.id s then strTail L alphabet substr s p a else [Err.regex p a pt.id]
  | none => strTail L alphabet substr s p a

/-- the value check returns alone when it fails -/
def strErrs (env : Env) (v : Option Str) (L : LenP) (alphabet substr : Option Str)
    (pattern : Option Pat) (s : Str) (p : Path) (a : PyVal) : List Err :=
  match v with
  | some x => if s ≠ x then [Err.value p a (.str x)] else strRest env L alphabet substr pattern s p a
  | none => strRest env L alphabet substr pattern s p a

/-- All non-recursive visitors (`visit_none … visit_date`), pure. -/
def validateScalar (env : Env) (k : ScalarS) (a : PyVal) (p : Path) : List Err :=
  match k with
  | .none => (match a with | .none => [] | _ => [Err.type p a .none])
  | .bool v =>
    (match a with
     | .bool b => (match v with | some x => if b ≠ x then [Err.value p a (.bool x)] else [] | none => [])
     | _ => [Err.type p a .bool])
  | .int v mn mx =>
    (match asInt a with
     | some n =>
       (match v with
        | some x => if n ≠ x then [Err.value p a (.int x)] else intBoundErrs mn mx n p a
        | none => intBoundErrs mn mx n p a)
     | none => [Err.type p a .int])
  | .float v mn mx prec _ _ =>
    (match a with
     | .float f =>
       (match v with
        | some x => if floatValueOk env f x prec then floatBoundErrs mn mx f p a else [Err.value p a (.float x)]
        | none => floatBoundErrs mn mx f p a)
     | _ => [Err.type p a .float])
  | .str v L alphabet substr pattern =>
    (match a with
     | .str s => strErrs env v L alphabet substr pattern s p a
     | _ => [Err.type p a .str])
  | .bytes v =>
    (match a with
     | .bytes b => (match v with | some x => if b ≠ x then [Err.value p a (.bytes x)] else [] | none => [])
     | _ => [Err.type p a .bytes])
  | .uuid4 v =>
    (match a with
     | .uuid id ver =>
       if ver ≠ 4 then [Err.uuidVersion p a ver] else
       (match v with | some (xid, xver) => if id ≠ xid then [Err.value p a (.uuid xid xver)] else [] | none => [])
     | _ => [Err.type p a .uuid])
  | .datetime v =>
    (match a with
     | .datetime id => (match v with | some x => if id ≠ x then [Err.value p a (.datetime x)] else [] | none => [])
     | _ => [Err.type p a .datetime])
  | .date v =>
    (match a with
     | .date id =>
       (match v with
        | some (true, x) => [Err.value p a (.datetime x)]      -- a date never equals a datetime
        | some (false, x) => if id ≠ x then [Err.value p a (.date x)] else []
        | none => [])
     | .datetime id =>                                          -- datetime is a subclass of date
       (match v with
        | some (true, x) => if id ≠ x then [Err.value p a (.datetime x)] else []
        | some (false, x) => [Err.value p a (.date x)]
        | none => [])
     | _ => [Err.type p a .date])

/-- Same visitor with the one scalar raise point (`round`) explicit. -/
def validateScalarX (env : Env) (k : ScalarS) (a : PyVal) (p : Path) : Except PyExc (List Err) :=
  match k with
  | .float v mn mx prec _ _ =>
    (match a with
     | .float f =>
       (match v with
        | some x => do
            let ok ← floatValueOkX env f x prec
            pure (if ok then floatBoundErrs mn mx f p a else [Err.value p a (.float x)])
        | none => pure (floatBoundErrs mn mx f p a))
     | _ => pure [Err.type p a .float])
  | k => pure (validateScalar env k a p)

/-! ### containers -/

def lookupKey (k : PyKey) : List (PyKey × PyVal) → Option PyVal
  | [] => none
  | (k', v) :: r => if k = k' then some v else lookupKey k r

def hasField (k : PyKey) (fs : List (PyKey × Bool × Schema)) : Bool :=
  fs.any (fun f => f.1 == k)

/-- first list of minimal length: Python's stable `sort(key=len)` followed by `[0]`. -/
def minByLen {α} : List (List α) → List α
  | [] => []
  | [x] => x
  | x :: y :: r => let m := minByLen (y :: r); if x.length ≤ m.length then x else m

def extraElems (p : Path) (a : PyVal) (from_ to : Nat) : List Err :=
  (List.range' from_ (to - from_)).map (fun i => Err.extraElem p a i)

def isEllipsis : PyVal → Bool | .ellipsis => true | _ => false

mutual
/-- `sub = false`: `Validator`; `sub = true`: `SubstitutorValidator`. -/
def validateP (env : Env) (sub : Bool) : Schema → PyVal → Path → List Err
  | .scalar k, a, p => validateScalar env k a p
  | .listU L, a, p =>
    (match a with
     | .list xs => (match lenErrFirst L xs.length p a with | some e => [e] | none => [])
     | _ => [Err.type p a .list])
  | .listT t L, a, p =>
    (match a with
     | .list xs =>
       (match lenErrFirst L xs.length p a with
        | some e => [e]
        | none => validateAllP env sub t xs 0 xs.length p)
     | _ => [Err.type p a .list])
  | .listE lead elems trail L, a, p =>
    (match a with
     | .list xs =>
       (match lenErrFirst L xs.length p a with
        | some e => [e]
        | none =>
          if lead && trail && !elems.isEmpty then
            -- contains form
            (if xs.isEmpty then validateElemsP env sub elems xs 0 a p
             else minByLen (windowsP env sub elems xs 0 xs.length a p))
          else if trail then
            validateElemsP env sub elems xs 0 a p
          else if lead then
            validateElemsP env sub elems (xs.drop (xs.length - elems.length)) (xs.length - elems.length) a p
          else
            validateElemsP env sub elems xs 0 a p ++ extraElems p a elems.length xs.length)
     | _ => [Err.type p a .list])
  | .dict none _, a, p =>
    (match a with
     | .dict _ => []
     | _ => [Err.type p a .dict])
  | .dict (some fs) ell, a, p =>
    (match a with
     | .dict kvs =>
       validateFieldsP env sub fs kvs a p ++
       (if ell.isSome then [] else
          (kvs.filter (fun kv => !(hasField kv.1 fs))).map (fun kv => Err.extraKey p a kv.1))
     | _ => [Err.type p a .dict])
  | .any none, _, _ => []
  | .any (some ts), a, p => if anyOkP env sub ts a p then [] else [Err.mismatch p a ts]
  | .alias _ t, a, p => validateP env sub t a p
  | .custom t, a, p => validateP env sub t a p
/-- typed list: elements `xs` starting at index `i`; `n` is the length of the whole list
    (the substitution validator skips a `...` at index 0 or n-1). -/
def validateAllP (env : Env) (sub : Bool) (t : Schema) : List PyVal → Nat → Nat → Path → List Err
  | [], _, _, _ => []
  | x :: xs, i, n, p =>
    (if sub && isEllipsis x && (i == 0 || i + 1 == n) then []
     else validateP env sub t x (p ++ [.idx i])) ++ validateAllP env sub t xs (i + 1) n p
/-- `_validate_elements`: `xs` is `value[start:]`, `i` the real index of its head. -/
def validateElemsP (env : Env) (sub : Bool) : List Schema → List PyVal → Nat → PyVal → Path → List Err
  | [], _, _, _, _ => []
  | _ :: _, [], i, a, p => [Err.missingElem p a i]
  | s :: ss, x :: xs, i, a, p =>
    validateP env sub s x (p ++ [.idx i]) ++ validateElemsP env sub ss xs (i + 1) a p
/-- the error lists of every window start `i, i+1, …` (contains form); `xs` = `value[i:]`,
    one window per remaining element. -/
def windowsP (env : Env) (sub : Bool) (elems : List Schema) : List PyVal → Nat → Nat → PyVal → Path → List (List Err)
  | [], _, _, _, _ => []
  | x :: xs, i, n, a, p =>
    validateElemsP env sub elems (x :: xs) i a p :: windowsP env sub elems xs (i + 1) n a p
def validateFieldsP (env : Env) (sub : Bool) : List (PyKey × Bool × Schema) → List (PyKey × PyVal) → PyVal → Path → List Err
  | [], _, _, _ => []
  | (k, opt, s) :: fs, kvs, a, p =>
    (match lookupKey k kvs with
     | some x => if sub && isEllipsis x then [] else validateP env sub s x (p ++ [.key k])
     | none => if opt || sub then [] else [Err.missingKey p a k]) ++
    validateFieldsP env sub fs kvs a p
def anyOkP (env : Env) (sub : Bool) : List Schema → PyVal → Path → Bool
  | [], _, _ => false
  | s :: ss, a, p => (validateP env sub s a p).isEmpty || anyOkP env sub ss a p
end

/-! ### the same visitor with Python's raise points explicit -/

mutual
def validate (env : Env) (sub : Bool) : Schema → PyVal → Path → Except PyExc (List Err)
  | .scalar k, a, p => validateScalarX env k a p
  | .listU L, a, p =>
    (match a with
     | .list xs => pure (match lenErrFirst L xs.length p a with | some e => [e] | none => [])
     | _ => pure [Err.type p a .list])
  | .listT t L, a, p =>
    (match a with
     | .list xs =>
       (match lenErrFirst L xs.length p a with
        | some e => pure [e]
        | none => validateAll env sub t xs 0 xs.length p)
     | _ => pure [Err.type p a .list])
  | .listE lead elems trail L, a, p =>
    (match a with
     | .list xs =>
       (match lenErrFirst L xs.length p a with
        | some e => pure [e]
        | none =>
          if lead && trail && !elems.isEmpty then
            (if xs.isEmpty then validateElems env sub elems xs 0 a p
             else do let ws ← windows env sub elems xs 0 xs.length a p; pure (minByLen ws))
          else if trail then
            validateElems env sub elems xs 0 a p
          else if lead then
            validateElems env sub elems (xs.drop (xs.length - elems.length)) (xs.length - elems.length) a p
          else do
            let es ← validateElems env sub elems xs 0 a p
            pure (es ++ extraElems p a elems.length xs.length))
     | _ => pure [Err.type p a .list])
  | .dict none _, a, p =>
    (match a with
     | .dict _ => pure []
     | _ => pure [Err.type p a .dict])
  | .dict (some fs) ell, a, p =>
    (match a with
     | .dict kvs => do
       let es ← validateFields env sub fs kvs a p
       pure (es ++
         (if ell.isSome then [] else
            (kvs.filter (fun kv => !(hasField kv.1 fs))).map (fun kv => Err.extraKey p a kv.1)))
     | _ => pure [Err.type p a .dict])
  | .any none, _, _ => pure []
  | .any (some ts), a, p => do
      let ok ← anyOk env sub ts a p
      pure (if ok then [] else [Err.mismatch p a ts])
  | .alias _ t, a, p => validate env sub t a p
  | .custom t, a, p => validate env sub t a p
def validateAll (env : Env) (sub : Bool) (t : Schema) : List PyVal → Nat → Nat → Path → Except PyExc (List Err)
  | [], _, _, _ => pure []
  | x :: xs, i, n, p => do
    let e ← (if sub && isEllipsis x && (i == 0 || i + 1 == n) then pure []
             else validate env sub t x (p ++ [.idx i]))
    let r ← validateAll env sub t xs (i + 1) n p
    pure (e ++ r)
def validateElems (env : Env) (sub : Bool) : List Schema → List PyVal → Nat → PyVal → Path → Except PyExc (List Err)
  | [], _, _, _, _ => pure []
  | _ :: _, [], i, a, p => pure [Err.missingElem p a i]
  | s :: ss, x :: xs, i, a, p => do
    let e ← validate env sub s x (p ++ [.idx i])
    let r ← validateElems env sub ss xs (i + 1) a p
    pure (e ++ r)
def windows (env : Env) (sub : Bool) (elems : List Schema) : List PyVal → Nat → Nat → PyVal → Path → Except PyExc (List (List Err))
  | [], _, _, _, _ => pure []
  | x :: xs, i, n, a, p => do
    let w ← validateElems env sub elems (x :: xs) i a p
    let r ← windows env sub elems xs (i + 1) n a p
    pure (w :: r)
def validateFields (env : Env) (sub : Bool) : List (PyKey × Bool × Schema) → List (PyKey × PyVal) → PyVal → Path → Except PyExc (List Err)
  | [], _, _, _ => pure []
  | (k, opt, s) :: fs, kvs, a, p => do
    let e ← (match lookupKey k kvs with
             | some x => if sub && isEllipsis x then pure [] else validate env sub s x (p ++ [.key k])
             | none => pure (if opt || sub then [] else [Err.missingKey p a k]))
    let r ← validateFields env sub fs kvs a p
    pure (e ++ r)
def anyOk (env : Env) (sub : Bool) : List Schema → PyVal → Path → Except PyExc Bool
  | [], _, _ => pure false
  | s :: ss, a, p => do
    let e ← validate env sub s a p
    if e.isEmpty then pure true else anyOk env sub ss a p
end

end D42
