/-
  D42.Model.Float — Python float semantics over exact rationals.

  Comparisons are exact. Operations that round take the rounding function `fl` from `Env`;
  `flExec` is the executable IEEE-754 binary64 round-to-nearest-even used by the driver.
-/
import D42.Model.Data

namespace D42

/-- round-half-even of a rational to an integer (Python's `round(x)` on the exact value). -/
def rhe (q : Rat) : Int :=
  let f := q.floor
  let r := q - f
  if r < 1/2 then f
  else if 1/2 < r then f + 1
  else if f % 2 = 0 then f else f + 1

def pow2 (e : Int) : Rat :=
  if 0 ≤ e then ((2 : Nat) ^ e.toNat : Nat) else 1 / (((2 : Nat) ^ (-e).toNat : Nat) : Rat)

/-- ⌊log₂ a⌋ for a positive rational. -/
def floorLog2 (a : Rat) : Int :=
  let n := a.num.toNat
  let d := a.den
  let e : Int := (Nat.log2 n : Int) - (Nat.log2 d : Int)
  -- e - 1 ≤ ⌊log₂ a⌋ ≤ e + 1 ; fix up
  if a < pow2 e then e - 1 else if pow2 (e + 1) ≤ a then e + 1 else e

/-- IEEE-754 binary64 round-to-nearest-even of an exact rational (with subnormals and overflow). -/
def flExec (q : Rat) : PyFloat :=
  if q = 0 then .fin 0 else
  let a := if q < 0 then -q else q
  let e0 := floorLog2 a - 52
  let e := if e0 < -1074 then -1074 else e0
  let m := rhe (a / pow2 e)
  let r : Rat := (m : Rat) * pow2 e
  if pow2 1024 ≤ r then (if q < 0 then .ninf else .pinf)
  else .fin (if q < 0 then -r else r)

namespace PyFloat

def isNan : PyFloat → Bool | .nan => true | _ => false
def isFinite : PyFloat → Bool | .fin _ => true | _ => false

/-- Python `a <= b`. -/
def le : PyFloat → PyFloat → Bool
  | .nan, _ => false
  | _, .nan => false
  | .ninf, _ => true
  | _, .pinf => true
  | .fin a, .fin b => decide (a ≤ b)
  | .pinf, _ => false
  | .fin _, .ninf => false

/-- Python `a >= b`. -/
def ge (a b : PyFloat) : Bool := le b a

/-- Python `a < b`. -/
def lt : PyFloat → PyFloat → Bool
  | .nan, _ => false
  | _, .nan => false
  | .fin a, .fin b => decide (a < b)
  | .ninf, .ninf => false
  | .ninf, _ => true
  | .pinf, _ => false
  | .fin _, .pinf => true
  | .fin _, .ninf => false

/-- Python `a == b` (nan is unequal to itself). -/
def eq : PyFloat → PyFloat → Bool
  | .fin a, .fin b => decide (a = b)
  | .pinf, .pinf => true
  | .ninf, .ninf => true
  | _, _ => false

end PyFloat

/-- exact value of the double nearest to `1e-9` (`0x1.12e0be826d695p-30`). -/
def relTolD : Rat := (4835703278458517 : Rat) / (4835703278458516698824704 : Rat)

def absQ (q : Rat) : Rat := if q < 0 then -q else q

def PyFloat.abs : PyFloat → PyFloat
  | .fin q => .fin (absQ q)
  | .ninf => .pinf
  | f => f

/-- `math.isclose(a, b)` with the default `rel_tol=1e-09, abs_tol=0.0`, following the C source. -/
def isclose (env : Env) (a b : PyFloat) : Bool :=
  if PyFloat.eq a b then true else
  match a, b with
  | .fin x, .fin y =>
    let diff := (env.fl (y - x)).abs
    PyFloat.le diff (env.fl (relTolD * y)).abs || PyFloat.le diff (env.fl (relTolD * x)).abs
      || PyFloat.le diff (.fin 0)
  | _, _ => false

/-- `round(x)` on a Python float: the integer, or the exception CPython raises. -/
def pyRound : PyFloat → Except PyExc Int
  | .fin q => .ok (rhe q)
  | .nan => .error .valueError
  | _ => .error .overflowError

/-- `value * 10 ** precision` in double arithmetic (`10**p` is exact for p ≤ 22). -/
def fscale (env : Env) (x : PyFloat) (p : Nat) : PyFloat :=
  match x with
  | .fin q => env.fl (q * ((10 ^ p : Nat) : Rat))
  | f => f

/-- The "equal at this precision" test of `Validator.visit_float` (after the F6 fix):
    both products are rounded; if either `round` raises, fall back to `==`. -/
def eqAtPrecision (env : Env) (value expected : PyFloat) (p : Nat) : Bool :=
  match pyRound (fscale env value p), pyRound (fscale env expected p) with
  | .ok a, .ok b => a == b
  | _, _ => PyFloat.eq value expected

end D42
