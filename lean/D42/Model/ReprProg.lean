/-
  D42.Model.ReprProg — the statement sequences of the non-recursive `Representor.visit_*` methods as programs, and
  their interpreter. `harness/extract_representor.py` regenerates `D42/Gen/ReprProg.lean` from
  d42/representation/_representor.py on every run; `Props/ReprProg.lean` proves that the hand model `reprScalar`
  prints, for every scalar schema, exactly what the interpreter prints on the extracted program — which calls are
  printed, for which declared props, in which order, with which text around the literal.
-/
import D42.Model.CheckProg
import D42.Model.Repr

namespace D42
namespace RP
open CP

inductive RStmt where
  /-- `r = f"{self._name}.<name>"` (or `return f"{self._name}.<name>"` as the whole body) -/
  | head (name : String)
  /-- `if schema.props.P is not Nil: r += f"<pre>{schema.props.P!r}<post>"` -/
  | emit (p : PName) (pre post : String)
  /-- the `len` / `min_len, max_len` / `min_len, ...` / `..., max_len` if-elif chain -/
  | lenChain
deriving DecidableEq, Repr, Inhabited

/-- the literal hole printed for a prop -/
def tokOf (pv : PV) : PName → Option Tok
  | .pattern => pv.pat.map Tok.pat
  | p => (pv.get p).map Tok.val

def lenToks (pv : PV) : List Tok :=
  match pv.get .len, pv.get .minLen, pv.get .maxLen with
  | some n, _, _ => [.t ".len(", .val n, .t ")"]
  | none, some a, some b => [.t ".len(", .val a, .t ", ", .val b, .t ")"]
  | none, some a, none => [.t ".len(", .val a, .t ", ...)"]
  | none, none, some b => [.t ".len(..., ", .val b, .t ")"]
  | none, none, none => []

def runRepr (pv : PV) : List RStmt → List Tok
  | [] => []
  | .head n :: r => .t ("schema." ++ n) :: runRepr pv r
  | .emit p pre post :: r =>
    (match tokOf pv p with | some t => [.t pre, t, .t post] | none => []) ++ runRepr pv r
  | .lenChain :: r => lenToks pv ++ runRepr pv r

end RP
end D42
