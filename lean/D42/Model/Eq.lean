/-
  D42.Model.Eq — `Schema.__eq__` (overridden by d42.validation.eq) and `Props.__eq__`.

  A schema-valued prop compared with something that is not a schema (`Nil` because the other side
  lacks the prop, or the `...` marker of an element list) falls through to
  `not validate(schema, thing).has_errors()` — the model follows the code there (finding K8).
-/
import D42.Model.Validate

namespace D42

def optEq {α} (eq : α → α → Bool) : Option α → Option α → Bool
  | none, none => true
  | some a, some b => eq a b
  | _, _ => false

def lenPEq (a b : LenP) : Bool :=
  optEq (· == ·) a.len b.len && optEq (· == ·) a.minLen b.minLen && optEq (· == ·) a.maxLen b.maxLen

def scalarEq : ScalarS → ScalarS → Bool
  | .none, .none => true
  | .bool a, .bool b => optEq (· == ·) a b
  | .int a1 a2 a3, .int b1 b2 b3 => optEq (· == ·) a1 b1 && optEq (· == ·) a2 b2 && optEq (· == ·) a3 b3
  | .float a1 a2 a3 a4 _ _, .float b1 b2 b3 b4 _ _ =>
    optEq PyFloat.eq a1 b1 && optEq PyFloat.eq a2 b2 && optEq PyFloat.eq a3 b3 && optEq (· == ·) a4 b4
  | .str a1 aL a3 a4 a5, .str b1 bL b3 b4 b5 =>
    optEq (· == ·) a1 b1 && lenPEq aL bL && optEq (· == ·) a3 b3 && optEq (· == ·) a4 b4 &&
    optEq (fun (x y : Pat) => x.id == y.id) a5 b5
  | .bytes a, .bytes b => optEq (· == ·) a b
  | .uuid4 a, .uuid4 b => optEq (fun (x y : Nat × Nat) => x.1 == y.1) a b
  | .datetime a, .datetime b => optEq (· == ·) a b
  | .date a, .date b => optEq (fun (x y : Bool × Nat) => x.1 == y.1 && x.2 == y.2) a b
  | _, _ => false

/-- the `Nil` object as a value: every isinstance test fails on it -/
def nilVal : PyVal := .other 0

/-- element list with markers, as the list object stored in props -/
def elemList (lead : Bool) (es : List Schema) (trail : Bool) : List (Option Schema) :=
  (if lead then [none] else []) ++ es.map some ++ (if trail then [none] else [])

mutual
def pyEq (env : Env) : Schema → Schema → Bool
  | .scalar a, .scalar b => scalarEq a b
  | .listU L, .listU M => lenPEq L M
  | .listU L, .listT u M => (validateP env false u nilVal []).isEmpty && lenPEq L M
  | .listT t L, .listU M => (validateP env false t nilVal []).isEmpty && lenPEq L M
  | .listT t L, .listT u M => pyEq env t u && lenPEq L M
  | .listE lead es trail L, .listE lead2 es2 trail2 M =>
    (if lead then
       (match elemList lead2 es2 trail2 with
        | y :: ys =>
          (match y with | none => true | some b => (validateP env false b .ellipsis []).isEmpty) &&
          eqElems env es trail ys
        | [] => false)
     else eqElems env es trail (elemList lead2 es2 trail2)) && lenPEq L M
  | .dict fa ea, .dict fb eb =>
    (match fa, fb with
     | none, none => true
     | some a, some b => (ea.isSome == eb.isSome) && a.length == b.length && eqFields env a b
     | _, _ => false)
  | .any a, .any b =>
    (match a, b with
     | none, none => true
     | some x, some y => eqList env x y
     | _, _ => false)
  | .alias n t, .alias m u => optEq (· == ·) n m && pyEq env t u
  | .custom t, .custom u => pyEq env t u
  | _, _ => false
/-- own concrete elements (then the trailing marker) against the other side's element list -/
def eqElems (env : Env) : List Schema → Bool → List (Option Schema) → Bool
  | e :: es, tr, y :: ys =>
    (match y with
     | some b => pyEq env e b
     | none => (validateP env false e .ellipsis []).isEmpty) && eqElems env es tr ys
  | _ :: _, _, [] => false
  | [], true, [y] => (match y with | none => true | some b => (validateP env false b .ellipsis []).isEmpty)
  | [], true, _ => false
  | [], false, [] => true
  | [], false, _ :: _ => false
def eqList (env : Env) : List Schema → List Schema → Bool
  | [], [] => true
  | x :: xs, y :: ys => pyEq env x y && eqList env xs ys
  | _, _ => false
/-- every field of `a` has an equal field (same key, same flag, equal schema) in `b` -/
def eqFields (env : Env) : List (PyKey × Bool × Schema) → List (PyKey × Bool × Schema) → Bool
  | [], _ => true
  | (k, o, s) :: r, b =>
    (match b.find? (fun f => f.1 == k) with
     | some f => (o == f.2.1) && pyEq env s f.2.2
     | none => false) && eqFields env r b
end

/-- `schema == value` for a non-schema value -/
def pyEqValue (env : Env) (s : Schema) (v : PyVal) : Bool := (validateP env false s v []).isEmpty

end D42
