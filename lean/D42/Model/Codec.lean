/-
  D42.Model.Codec — wire format (S-expressions) ⇄ model data. Trusted glue; exercised by the
  harness round-trip self-test on every run.
-/
import D42.Model.Data
import D42.Model.Sexp

namespace D42
open Sexp

def atomInt? (s : String) : Option Int := s.toInt?
def atomNat? (s : String) : Option Nat := s.toNat?

def sxInt : Sexp → Option Int | .atom s => atomInt? s | _ => none
def sxNat : Sexp → Option Nat | .atom s => atomNat? s | _ => none

def sxNats (xs : List Sexp) : Option (List Nat) := xs.mapM sxNat

def mkRat (n : Int) (d : Nat) : Rat := (n : Rat) / (d : Rat)

def decFloat : Sexp → Option PyFloat
  | .atom "+inf" => some .pinf
  | .atom "-inf" => some .ninf
  | .atom "nan" => some .nan
  | .list [.atom "f", n, d] => do some (.fin (mkRat (← sxInt n) (← sxNat d)))
  | _ => none

def decRat : Sexp → Option Rat
  | .list [.atom "q", n, d] => do some (mkRat (← sxInt n) (← sxNat d))
  | _ => none

def decKey : Sexp → Option PyKey
  | .atom "N" => some .none
  | .atom "E" => some .ellipsis
  | .list (.atom "s" :: cs) => do some (.str (← sxNats cs))
  | .list (.atom "y" :: cs) => do some (.bytes (← sxNats cs))
  | .list [.atom "i", n] => do some (.int (← sxInt n))
  | .list [.atom "o", n] => do some (.other (← sxNat n))
  | _ => none

partial def decVal : Sexp → Option PyVal
  | .atom "N" => some .none
  | .atom "E" => some .ellipsis
  | .atom "+inf" => some (.float .pinf)
  | .atom "-inf" => some (.float .ninf)
  | .atom "nan" => some (.float .nan)
  | .list [.atom "b", n] => do some (.bool ((← sxNat n) != 0))
  | .list [.atom "i", n] => do some (.int (← sxInt n))
  | .list [.atom "f", n, d] => do some (.float (.fin (mkRat (← sxInt n) (← sxNat d))))
  | .list (.atom "s" :: cs) => do some (.str (← sxNats cs))
  | .list (.atom "y" :: cs) => do some (.bytes (← sxNats cs))
  | .list [.atom "u", i, v] => do some (.uuid (← sxNat i) (← sxNat v))
  | .list [.atom "dt", i] => do some (.datetime (← sxNat i))
  | .list [.atom "d", i] => do some (.date (← sxNat i))
  | .list [.atom "o", i] => do some (.other (← sxNat i))
  | .list (.atom "l" :: xs) => do some (.list (← xs.mapM decVal))
  | .list (.atom "m" :: kvs) => do
      let r ← kvs.mapM (fun kv => match kv with
        | .list [k, v] => do some ((← decKey k), (← decVal v))
        | _ => none)
      some (.dict r)
  | _ => none

def decOpt {α} (f : Sexp → Option α) : Sexp → Option (Option α)
  | .atom "_" => some none
  | e => do some (some (← f e))

def decStr : Sexp → Option Str
  | .list (.atom "s" :: cs) => sxNats cs
  | _ => none

def decBytes : Sexp → Option (List Nat)
  | .list (.atom "y" :: cs) => sxNats cs
  | _ => none

def decClsItem : Sexp → Option ClsItem
  | .list [.atom "lit", c] => do some (.lit (← sxNat c))
  | .list [.atom "range", a, b] => do some (.range (← sxNat a) (← sxNat b))
  | .atom "digit" => some .digit
  | .atom "word" => some .word
  | .list [.atom "unsup", n] => do some (.unsup (← sxNat n))
  | _ => none

partial def decRe : Sexp → Option Re
  | .atom "any" => some .any
  | .atom "at" => some .at_
  | .list [.atom "lit", c] => do some (.lit (← sxNat c))
  | .list [.atom "notlit", c] => do some (.notLit (← sxNat c))
  | .list (.atom "in" :: neg :: items) => do some (.cls ((← sxNat neg) != 0) (← items.mapM decClsItem))
  | .list (.atom "sub" :: rs) => do some (.group (← rs.mapM decRe))
  | .list (.atom "rep" :: mn :: mx :: rs) => do
      let mx' ← (match mx with | .atom "inf" => some none | e => (sxNat e).map some)
      some (.rep (← sxNat mn) mx' (← rs.mapM decRe))
  | .list (.atom "branch" :: alts) => do
      some (.branch (← alts.mapM (fun a => match a with | .list rs => rs.mapM decRe | _ => none)))
  | .list [.atom "unsup", n] => do some (.unsup (← sxNat n))
  | _ => none

def decPat : Sexp → Option Pat
  | .list (.atom "rx" :: i :: rs) => do some { id := (← sxNat i), tree := (← rs.mapM decRe) }
  | _ => none

def decLenP (a b c : Sexp) : Option LenP := do
  some { len := (← decOpt sxInt a), minLen := (← decOpt sxInt b), maxLen := (← decOpt sxInt c) }

def decBool : Sexp → Option Bool | .atom "0" => some false | .atom "1" => some true | _ => none

def decScalar : Sexp → Option ScalarS
  | .list [.atom "none"] => some .none
  | .list [.atom "bool", v] => do some (.bool (← decOpt decBool v))
  | .list [.atom "int", v, mn, mx] => do some (.int (← decOpt sxInt v) (← decOpt sxInt mn) (← decOpt sxInt mx))
  | .list [.atom "float", v, mn, mx, p, d1, d2] => do
      some (.float (← decOpt decFloat v) (← decOpt decFloat mn) (← decOpt decFloat mx) (← decOpt sxNat p)
        (← decOpt decRat d1) (← decOpt decRat d2))
  | .list [.atom "str", v, l1, l2, l3, al, sub, pat] => do
      some (.str (← decOpt decStr v) (← decLenP l1 l2 l3) (← decOpt decStr al) (← decOpt decStr sub) (← decOpt decPat pat))
  | .list [.atom "bytes", v] => do some (.bytes (← decOpt decBytes v))
  | .list [.atom "uuid4", v] => do
      some (.uuid4 (← decOpt (fun e => match e with
        | .list [.atom "u", i, ver] => do some ((← sxNat i), (← sxNat ver)) | _ => none) v))
  | .list [.atom "datetime", v] => do
      some (.datetime (← decOpt (fun e => match e with | .list [.atom "dt", i] => sxNat i | _ => none) v))
  | .list [.atom "date", v] => do
      some (.date (← decOpt (fun e => match e with
        | .list [.atom "dt", i] => do some (true, (← sxNat i))
        | .list [.atom "d", i] => do some (false, (← sxNat i))
        | _ => none) v))
  | _ => none

partial def decSchema : Sexp → Option Schema
  | .list [.atom "listU", a, b, c] => do some (.listU (← decLenP a b c))
  | .list [.atom "listT", t, a, b, c] => do some (.listT (← decSchema t) (← decLenP a b c))
  | .list [.atom "listE", lead, trail, .list es, a, b, c] => do
      some (.listE (← decBool lead) (← es.mapM decSchema) (← decBool trail) (← decLenP a b c))
  | .list [.atom "dict", .atom "nil"] => some (.dict none none)
  | .list (.atom "dict" :: ell :: fs) => do
      let fs' ← fs.mapM (fun f => match f with
        | .list [k, o, s] => do some ((← decKey k), (← decBool o), (← decSchema s))
        | _ => none)
      some (.dict (some fs') (← decOpt sxNat ell))
  | .list [.atom "any", .atom "_"] => some (.any none)
  | .list (.atom "any" :: ts) => do some (.any (some (← ts.mapM decSchema)))
  | .list [.atom "alias", n, t] => do some (.alias (← decOpt decStr n) (← decSchema t))
  | .list [.atom "custom", t] => do some (.custom (← decSchema t))
  | e => do some (.scalar (← decScalar e))

def decDraw : Sexp → Option Draw
  | .list [.atom "ri", n] => do some (.int (← sxInt n))
  | .list [.atom "rf", f] => do some (.flt (← decFloat f))
  | .list [.atom "rc", i] => do some (.idx (← sxNat i))
  | .list [.atom "rx", v] => do some (.ext (← decVal v))
  | _ => none

/-! ### encoders -/

def encNats (tag : String) (cs : List Nat) : Sexp := .list (.atom tag :: cs.map (fun c => .atom (toString c)))
def encInt (n : Int) : Sexp := .atom (toString n)
def encNat (n : Nat) : Sexp := .atom (toString n)

def encFloat : PyFloat → Sexp
  | .pinf => .atom "+inf"
  | .ninf => .atom "-inf"
  | .nan => .atom "nan"
  | .fin q => .list [.atom "f", encInt q.num, encNat q.den]

def encRat (q : Rat) : Sexp := .list [.atom "q", encInt q.num, encNat q.den]

def encKey : PyKey → Sexp
  | .none => .atom "N"
  | .ellipsis => .atom "E"
  | .str s => encNats "s" s
  | .bytes b => encNats "y" b
  | .int n => .list [.atom "i", encInt n]
  | .other i => .list [.atom "o", encNat i]

partial def encVal : PyVal → Sexp
  | .none => .atom "N"
  | .ellipsis => .atom "E"
  | .bool b => .list [.atom "b", .atom (if b then "1" else "0")]
  | .int n => .list [.atom "i", encInt n]
  | .float f => encFloat f
  | .str s => encNats "s" s
  | .bytes b => encNats "y" b
  | .uuid i v => .list [.atom "u", encNat i, encNat v]
  | .datetime i => .list [.atom "dt", encNat i]
  | .date i => .list [.atom "d", encNat i]
  | .other i => .list [.atom "o", encNat i]
  | .list xs => .list (.atom "l" :: xs.map encVal)
  | .dict kvs => .list (.atom "m" :: kvs.map (fun kv => .list [encKey kv.1, encVal kv.2]))

def encOpt {α} (f : α → Sexp) : Option α → Sexp
  | none => .atom "_"
  | some a => f a

def encBool (b : Bool) : Sexp := .atom (if b then "1" else "0")

def encClsItem : ClsItem → Sexp
  | .lit c => .list [.atom "lit", encNat c]
  | .range a b => .list [.atom "range", encNat a, encNat b]
  | .digit => .atom "digit"
  | .word => .atom "word"
  | .unsup n => .list [.atom "unsup", encNat n]

partial def encRe : Re → Sexp
  | .any => .atom "any"
  | .at_ => .atom "at"
  | .lit c => .list [.atom "lit", encNat c]
  | .notLit c => .list [.atom "notlit", encNat c]
  | .cls neg items => .list (.atom "in" :: encBool neg :: items.map encClsItem)
  | .group rs => .list (.atom "sub" :: rs.map encRe)
  | .rep mn mx rs => .list (.atom "rep" :: encNat mn :: (match mx with | none => .atom "inf" | some m => encNat m) :: rs.map encRe)
  | .branch alts => .list (.atom "branch" :: alts.map (fun a => .list (a.map encRe)))
  | .unsup n => .list [.atom "unsup", encNat n]

def encLenP (L : LenP) : List Sexp := [encOpt encInt L.len, encOpt encInt L.minLen, encOpt encInt L.maxLen]

def encScalar : ScalarS → Sexp
  | .none => .list [.atom "none"]
  | .bool v => .list [.atom "bool", encOpt encBool v]
  | .int v mn mx => .list [.atom "int", encOpt encInt v, encOpt encInt mn, encOpt encInt mx]
  | .float v mn mx p d1 d2 => .list [.atom "float", encOpt encFloat v, encOpt encFloat mn, encOpt encFloat mx,
      encOpt encNat p, encOpt encRat d1, encOpt encRat d2]
  | .str v L al sub pat => .list ([.atom "str", encOpt (encNats "s") v] ++ encLenP L ++
      [encOpt (encNats "s") al, encOpt (encNats "s") sub,
       encOpt (fun (pt : Pat) => .list (.atom "rx" :: encNat pt.id :: pt.tree.map encRe)) pat])
  | .bytes v => .list [.atom "bytes", encOpt (encNats "y") v]
  | .uuid4 v => .list [.atom "uuid4", encOpt (fun (iv : Nat × Nat) => .list [.atom "u", encNat iv.1, encNat iv.2]) v]
  | .datetime v => .list [.atom "datetime", encOpt (fun i => .list [.atom "dt", encNat i]) v]
  | .date v => .list [.atom "date", encOpt (fun (bi : Bool × Nat) => .list [.atom (if bi.1 then "dt" else "d"), encNat bi.2]) v]

partial def encSchema : Schema → Sexp
  | .scalar k => encScalar k
  | .listU L => .list (.atom "listU" :: encLenP L)
  | .listT t L => .list (.atom "listT" :: encSchema t :: encLenP L)
  | .listE lead es trail L => .list ([.atom "listE", encBool lead, encBool trail, .list (es.map encSchema)] ++ encLenP L)
  | .dict none _ => .list [.atom "dict", .atom "nil"]
  | .dict (some fs) ell => .list (.atom "dict" :: encOpt encNat ell ::
      fs.map (fun f => .list [encKey f.1, encBool f.2.1, encSchema f.2.2]))
  | .any none => .list [.atom "any", .atom "_"]
  | .any (some ts) => .list (.atom "any" :: ts.map encSchema)
  | .alias n t => .list [.atom "alias", encOpt (encNats "s") n, encSchema t]
  | .custom t => .list [.atom "custom", encSchema t]

def encStep : Step → Sexp
  | .idx i => .list [.atom "i", encNat i]
  | .key k => .list [.atom "k", encKey k]

def encPath (p : Path) : Sexp := .list (.atom "p" :: p.map encStep)

def encTy : Ty → Sexp
  | .none => .atom "none" | .bool => .atom "bool" | .int => .atom "int" | .float => .atom "float"
  | .str => .atom "str" | .list => .atom "list" | .dict => .atom "dict" | .bytes => .atom "bytes"
  | .uuid => .atom "uuid" | .datetime => .atom "datetime" | .date => .atom "date"

def encErr : Err → Sexp
  | .type p a t => .list [.atom "type", encPath p, encVal a, encTy t]
  | .value p a x => .list [.atom "value", encPath p, encVal a, encVal x]
  | .min p a x => .list [.atom "min", encPath p, encVal a, encVal x]
  | .max p a x => .list [.atom "max", encPath p, encVal a, encVal x]
  | .len p a n => .list [.atom "len", encPath p, encVal a, encInt n]
  | .minLen p a n => .list [.atom "minlen", encPath p, encVal a, encInt n]
  | .maxLen p a n => .list [.atom "maxlen", encPath p, encVal a, encInt n]
  | .alphabet p a s => .list [.atom "alphabet", encPath p, encVal a, encNats "s" s]
  | .substr p a s => .list [.atom "substr", encPath p, encVal a, encNats "s" s]
  | .regex p a i => .list [.atom "regex", encPath p, encVal a, encNat i]
  | .missingElem p a i => .list [.atom "missingelem", encPath p, encVal a, encNat i]
  | .extraElem p a i => .list [.atom "extraelem", encPath p, encVal a, encNat i]
  | .missingKey p a k => .list [.atom "missingkey", encPath p, encVal a, encKey k]
  | .extraKey p a k => .list [.atom "extrakey", encPath p, encVal a, encKey k]
  | .mismatch p a ts => .list [.atom "mismatch", encPath p, encVal a, .list (ts.map encSchema)]
  | .uuidVersion p a v => .list [.atom "uuidversion", encPath p, encVal a, encNat v]

def encExc : PyExc → Sexp
  | .declarationError => .atom "DeclarationError"
  | .substitutionError => .atom "SubstitutionError"
  | .validationException n => .list [.atom "ValidationException", encNat n]
  | .valueError => .atom "ValueError"
  | .overflowError => .atom "OverflowError"
  | .attributeError => .atom "AttributeError"
  | .indexError => .atom "IndexError"
  | .typeError => .atom "TypeError"
  | .keyError => .atom "KeyError"
  | .badDraw => .atom "BADDRAW"
  | .unmodelled => .atom "UNMODELLED"

def encReq : Req → Sexp
  | .randint a b => .list [.atom "randint", encInt a, encInt b]
  | .uniform a b => .list [.atom "uniform", encFloat a, encFloat b]
  | .choice n => .list [.atom "choice", encNat n]
  | .ext k => .list [.atom "ext", encNat k]

end D42
