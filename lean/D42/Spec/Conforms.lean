/-
  D42.Spec.Conforms — the declarative meaning of a schema, written from the text of property C02.
  It is *not* derived from the validator: no error lists, no paths, no early returns — only
  "the value has the type, equals the fixed value, lies within the bounds, …".
-/
import D42.Model.Validate

namespace D42

/-- `len` / `min_len` / `max_len` all hold of a length -/
def LenOK (L : LenP) (n : Nat) : Prop :=
  (∀ k, L.len = some k → (n : Int) = k) ∧
  (∀ k, L.minLen = some k → k ≤ (n : Int)) ∧
  (∀ k, L.maxLen = some k → (n : Int) ≤ k)

/-- meaning of the non-recursive schemas -/
def ConformsScalar (env : Env) : ScalarS → PyVal → Prop
  | .none, v => v = .none
  | .bool x, v => ∃ b, v = .bool b ∧ (∀ y, x = some y → b = y)
  | .int x mn mx, v => ∃ n, asInt v = some n ∧ (∀ y, x = some y → n = y) ∧
      (∀ m, mn = some m → m ≤ n) ∧ (∀ m, mx = some m → n ≤ m)
  | .float x mn mx prec _ _, v => ∃ f, v = .float f ∧
      (∀ y, x = some y → floatValueOk env f y prec = true) ∧
      (∀ m, mn = some m → PyFloat.le m f = true) ∧ (∀ m, mx = some m → PyFloat.le f m = true)
  | .str x L alphabet substr pattern, v => ∃ s, v = .str s ∧ (∀ y, x = some y → s = y) ∧
      LenOK L s.length ∧
      (∀ a, alphabet = some a → ∀ c ∈ s, c ∈ a) ∧
      (∀ sub, substr = some sub → sub <:+: s) ∧
      (∀ p, pattern = some p → env.rxSearch p.id s = true)
  | .bytes x, v => ∃ b, v = .bytes b ∧ (∀ y, x = some y → b = y)
  | .uuid4 x, v => ∃ i, v = .uuid i 4 ∧ (∀ y, x = some y → i = y.1)
  | .datetime x, v => ∃ i, v = .datetime i ∧ (∀ y, x = some y → i = y)
  | .date x, v =>
      (∃ i, v = .date i ∧ (∀ y, x = some y → y = (false, i))) ∨
      (∃ i, v = .datetime i ∧ (∀ y, x = some y → y = (true, i)))

mutual
/-- `Conforms env s v`: the value `v` conforms to the meaning of schema `s`. -/
def Conforms (env : Env) : Schema → PyVal → Prop
  | .scalar k, v => ConformsScalar env k v
  | .listU L, v => ∃ xs, v = .list xs ∧ LenOK L xs.length
  | .listT t L, v => ∃ xs, v = .list xs ∧ LenOK L xs.length ∧ AllC env t xs
  | .listE lead es trail L, v => ∃ xs, v = .list xs ∧ LenOK L xs.length ∧
      (if lead = true ∧ trail = true ∧ es ≠ [] then
         -- [..., a, b, ...] : some window of consecutive elements matches
         ∃ i, i < xs.length ∧ PrefixC env es (xs.drop i)
       else if trail = true then
         -- [a, b, ...] : the list starts with a, b
         PrefixC env es xs
       else if lead = true then
         -- [..., a, b] : the list ends with a, b
         PrefixC env es (xs.drop (xs.length - es.length))
       else
         -- [a, b] : exactly
         xs.length = es.length ∧ PrefixC env es xs)
  | .dict none _, v => ∃ kvs, v = .dict kvs
  | .dict (some fs) ell, v => ∃ kvs, v = .dict kvs ∧ FieldsC env fs kvs ∧
      (ell = none → ∀ kv ∈ kvs, hasField kv.1 fs = true)
  | .any none, _ => True
  | .any (some ts), v => AnyC env ts v
  | .alias _ t, v => Conforms env t v
  | .custom t, v => Conforms env t v
/-- every element conforms to the element type -/
def AllC (env : Env) (t : Schema) : List PyVal → Prop
  | [] => True
  | x :: xs => Conforms env t x ∧ AllC env t xs
/-- the list has at least as many elements as there are schemas, and they conform pointwise -/
def PrefixC (env : Env) : List Schema → List PyVal → Prop
  | [], _ => True
  | _ :: _, [] => False
  | s :: ss, x :: xs => Conforms env s x ∧ PrefixC env ss xs
/-- every required key is present, and every declared key that is present conforms -/
def FieldsC (env : Env) : List (PyKey × Bool × Schema) → List (PyKey × PyVal) → Prop
  | [], _ => True
  | (k, opt, s) :: fs, kvs =>
    (match lookupKey k kvs with
     | some x => Conforms env s x
     | none => opt = true) ∧ FieldsC env fs kvs
/-- at least one alternative accepts -/
def AnyC (env : Env) : List Schema → PyVal → Prop
  | [], _ => False
  | s :: ss, v => Conforms env s v ∨ AnyC env ss v
end

/-- a schema is satisfiable when some value conforms to it -/
def Sat (env : Env) (s : Schema) : Prop := ∃ v, Conforms env s v

end D42
