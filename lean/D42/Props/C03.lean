/-
  C03 — every validation error is true and points at the offending sub-value.
-/
import D42.Props.C02

namespace D42

/-- follow a path from a value: list index or dict key at each step -/
def resolve : PyVal → Path → Option PyVal
  | v, [] => some v
  | .list xs, .idx i :: r => (match xs[i]? with | some x => resolve x r | none => none)
  | .dict kvs, .key k :: r => (match lookupKey k kvs with | some x => resolve x r | none => none)
  | _, _ => none

/-- "the error sits under `p` and following the rest of its path from `a` reaches what it reports" -/
def Located (a : PyVal) (p : Path) (e : Err) : Prop :=
  ∃ q, e.path = p ++ q ∧ resolve a q = some e.actual

theorem located_here (a : PyVal) (p : Path) (e : Err) (h1 : e.path = p) (h2 : e.actual = a) : Located a p e :=
  ⟨[], by simp [h1], by simp [resolve, h2]⟩

theorem located_step_idx (xs : List PyVal) (i : Nat) (x : PyVal) (p : Path) (e : Err)
    (hx : xs[i]? = some x) (h : Located x (p ++ [.idx i]) e) : Located (.list xs) p e := by
  obtain ⟨q, h1, h2⟩ := h
  exact ⟨.idx i :: q, by simp [h1], by simp [resolve, hx, h2]⟩

theorem located_step_key (kvs : List (PyKey × PyVal)) (k : PyKey) (x : PyVal) (p : Path) (e : Err)
    (hx : lookupKey k kvs = some x) (h : Located x (p ++ [.key k]) e) : Located (.dict kvs) p e := by
  obtain ⟨q, h1, h2⟩ := h
  exact ⟨.key k :: q, by simp [h1], by simp [resolve, hx, h2]⟩

theorem lenErrFirst_located (L : LenP) (n : Nat) (p : Path) (a : PyVal) (e : Err)
    (h : lenErrFirst L n p a = some e) : e.path = p ∧ e.actual = a := by
  unfold lenErrFirst at h
  rcases L with ⟨l, mn, mx⟩
  cases l <;> cases mn <;> cases mx <;> simp at h <;>
    (repeat' split at h) <;> simp_all [Err.path, Err.actual] <;>
    (try (obtain ⟨_, rfl⟩ := h; simp [Err.path, Err.actual])) <;>
    (try (subst h; simp [Err.path, Err.actual]))

theorem lenErrs_here (L : LenP) (n : Nat) (p : Path) (a : PyVal) :
    ∀ e ∈ lenErrs L n p a, e.path = p ∧ e.actual = a := by
  intro e he
  rcases L with ⟨l, mn, mx⟩
  cases l <;> cases mn <;> cases mx <;> grind [lenErrs, Err.path, Err.actual]

theorem strErrs_here (env : Env) (v : Option Str) (L : LenP) (al sub : Option Str) (pat : Option Pat) (s : Str) (p : Path) (a : PyVal) :
    ∀ e ∈ strErrs env v L al sub pat s p a, e.path = p ∧ e.actual = a := by
  intro e he
  have := lenErrs_here L s.length p a
  cases v <;> cases pat <;> cases al <;> cases sub <;>
    grind [strErrs, strRest, strTail, Err.path, Err.actual]

theorem validateScalar_here (env : Env) (k : ScalarS) (a : PyVal) (p : Path) :
    ∀ e ∈ validateScalar env k a p, e.path = p ∧ e.actual = a := by
  intro e he
  cases k with
  | str v L al sub pat =>
    cases a <;> (first | (simp only [validateScalar] at he; exact strErrs_here _ _ _ _ _ _ _ _ _ e he) | grind [validateScalar, Err.path, Err.actual])
  | int v mn mx => cases v <;> cases mn <;> cases mx <;> grind [validateScalar, intBoundErrs, Err.path, Err.actual]
  | float v mn mx prec d1 d2 => cases a <;> cases v <;> cases mn <;> cases mx <;> grind [validateScalar, floatBoundErrs, Err.path, Err.actual]
  | none => cases a <;> grind [validateScalar, Err.path, Err.actual]
  | bool v => cases v <;> cases a <;> grind [validateScalar, Err.path, Err.actual]
  | bytes v => cases v <;> cases a <;> grind [validateScalar, Err.path, Err.actual]
  | datetime v => cases v <;> cases a <;> grind [validateScalar, Err.path, Err.actual]
  | uuid4 v => rcases v with _ | ⟨i, ver⟩ <;> cases a <;> grind [validateScalar, Err.path, Err.actual]
  | date v => rcases v with _ | ⟨b, i⟩ <;> cases a <;> (try cases b) <;> grind [validateScalar, Err.path, Err.actual]

theorem drop_cons_getElem {α} : ∀ (whole : List α) (i : Nat) (x : α) (xs : List α),
    whole.drop i = x :: xs → whole[i]? = some x ∧ whole.drop (i + 1) = xs
  | [], i, x, xs, h => by simp at h
  | w :: ws, 0, x, xs, h => by simp at h; simp [h.1, h.2]
  | w :: ws, i + 1, x, xs, h => by
    have := drop_cons_getElem ws i x xs (by simpa using h)
    simpa using this

theorem minByLen_mem {α} : ∀ (ws : List (List α)), ws ≠ [] → minByLen ws ∈ ws
  | [], h => absurd rfl h
  | [x], _ => by simp [minByLen]
  | x :: y :: r, _ => by
    have ih := minByLen_mem (y :: r) (by simp)
    simp only [minByLen]
    split
    · simp
    · exact List.mem_cons_of_mem _ ih

mutual
theorem validateP_located (env : Env) (sub : Bool) : ∀ (s : Schema) (a : PyVal) (p : Path),
    ∀ e ∈ validateP env sub s a p, Located a p e
  | .scalar k, a, p => by
    intro e he
    simp only [validateP] at he
    have := validateScalar_here env k a p e he
    exact located_here a p e this.1 this.2
  | .listU L, a, p => by
    intro e he
    cases a <;> simp only [validateP, List.mem_singleton] at he <;>
      (try (subst he; exact located_here _ _ _ rfl rfl))
    case list xs =>
      cases h : lenErrFirst L xs.length p (.list xs) with
      | none => simp [h] at he
      | some e' =>
        have hl := lenErrFirst_located L _ p _ e' h
        simp [h] at he; subst he
        exact located_here _ _ _ hl.1 hl.2
  | .listT t L, a, p => by
    intro e he
    cases a <;> simp only [validateP, List.mem_singleton] at he <;>
      (try (subst he; exact located_here _ _ _ rfl rfl))
    case list xs =>
      cases h : lenErrFirst L xs.length p (.list xs) with
      | some e' =>
        have hl := lenErrFirst_located L _ p _ e' h
        simp [h] at he; subst he
        exact located_here _ _ _ hl.1 hl.2
      | none =>
        simp only [h] at he
        exact validateAllP_located env sub t xs 0 xs.length p xs (by simp) e he
  | .listE lead es trail L, a, p => by
    intro e he
    cases a <;> simp only [validateP, List.mem_singleton] at he <;>
      (try (subst he; exact located_here _ _ _ rfl rfl))
    case list xs =>
      cases h : lenErrFirst L xs.length p (.list xs) with
      | some e' =>
        have hl := lenErrFirst_located L _ p _ e' h
        simp [h] at he; subst he
        exact located_here _ _ _ hl.1 hl.2
      | none =>
        simp only [h] at he
        have hE := validateElemsP_located env sub es
        split at he
        · split at he
          · exact hE xs 0 (.list xs) p xs rfl (by simp) e he
          · cases xs with
            | nil => simp [windowsP, minByLen] at he
            | cons x xs' =>
              have hm := minByLen_mem _ (show windowsP env sub es (x :: xs') 0 (x :: xs').length (.list (x :: xs')) p ≠ [] by simp [windowsP])
              exact windowsP_located env sub es (x :: xs') 0 _ (.list (x :: xs')) p (x :: xs') rfl (by simp) _ hm e he
        · split at he
          · exact hE xs 0 (.list xs) p xs rfl (by simp) e he
          · split at he
            · exact hE _ _ (.list xs) p xs rfl rfl e he
            · rcases List.mem_append.1 he with he | he
              · exact hE xs 0 (.list xs) p xs rfl (by simp) e he
              · simp [extraElems] at he
                obtain ⟨i, _, rfl⟩ := he
                exact located_here _ _ _ rfl rfl
  | .dict none _, a, p => by
    intro e he
    cases a <;> simp [validateP] at he <;> subst he <;> exact located_here _ _ _ rfl rfl
  | .dict (some fs) ell, a, p => by
    intro e he
    cases a <;> simp only [validateP, List.mem_singleton] at he <;>
      (try (subst he; exact located_here _ _ _ rfl rfl))
    case dict kvs =>
      rcases List.mem_append.1 he with he | he
      · exact validateFieldsP_located env sub fs kvs (.dict kvs) p rfl e he
      · split at he
        · simp at he
        · simp at he
          obtain ⟨k, v, _, rfl⟩ := he
          exact located_here _ _ _ rfl rfl
  | .any none, _, _ => by simp [validateP]
  | .any (some ts), a, p => by
    intro e he
    simp only [validateP] at he
    split at he
    · simp at he
    · simp at he; subst he; exact located_here _ _ _ rfl rfl
  | .alias _ t, a, p => by
    intro e he; simp only [validateP] at he; exact validateP_located env sub t a p e he
  | .custom t, a, p => by
    intro e he; simp only [validateP] at he; exact validateP_located env sub t a p e he
theorem validateAllP_located (env : Env) (sub : Bool) (t : Schema) : ∀ (xs : List PyVal) (i n : Nat) (p : Path) (whole : List PyVal),
    whole.drop i = xs → ∀ e ∈ validateAllP env sub t xs i n p, Located (.list whole) p e
  | [], _, _, _, _, _ => by simp [validateAllP]
  | x :: xs, i, n, p, whole, hd => by
    intro e he
    have hc := drop_cons_getElem whole i x xs hd
    simp only [validateAllP] at he
    rcases List.mem_append.1 he with he | he
    · split at he
      · simp at he
      · exact located_step_idx whole i x p e hc.1 (validateP_located env sub t x _ e he)
    · exact validateAllP_located env sub t xs (i + 1) n p whole hc.2 e he
theorem validateElemsP_located (env : Env) (sub : Bool) : ∀ (ss : List Schema) (xs : List PyVal) (i : Nat) (a : PyVal) (p : Path) (whole : List PyVal),
    a = .list whole → whole.drop i = xs → ∀ e ∈ validateElemsP env sub ss xs i a p, Located (.list whole) p e
  | [], _, _, _, _, _, _, _ => by simp [validateElemsP]
  | _ :: _, [], i, a, p, whole, ha, _ => by
    intro e he
    simp [validateElemsP] at he; subst he; subst ha
    exact located_here _ _ _ rfl rfl
  | s :: ss, x :: xs, i, a, p, whole, ha, hd => by
    intro e he
    have hc := drop_cons_getElem whole i x xs hd
    simp only [validateElemsP] at he
    rcases List.mem_append.1 he with he | he
    · exact located_step_idx whole i x p e hc.1 (validateP_located env sub s x _ e he)
    · exact validateElemsP_located env sub ss xs (i + 1) a p whole ha hc.2 e he
theorem windowsP_located (env : Env) (sub : Bool) (elems : List Schema) : ∀ (xs : List PyVal) (i n : Nat) (a : PyVal) (p : Path) (whole : List PyVal),
    a = .list whole → whole.drop i = xs → ∀ w ∈ windowsP env sub elems xs i n a p, ∀ e ∈ w, Located (.list whole) p e
  | [], _, _, _, _, _, _, _ => by simp [windowsP]
  | x :: xs, i, n, a, p, whole, ha, hd => by
    intro w hw e he
    have hc := drop_cons_getElem whole i x xs hd
    simp only [windowsP, List.mem_cons] at hw
    rcases hw with rfl | hw
    · exact validateElemsP_located env sub elems (x :: xs) i a p whole ha hd e he
    · exact windowsP_located env sub elems xs (i + 1) n a p whole ha hc.2 w hw e he
theorem validateFieldsP_located (env : Env) (sub : Bool) : ∀ (fs : List (PyKey × Bool × Schema)) (kvs : List (PyKey × PyVal)) (a : PyVal) (p : Path),
    a = .dict kvs → ∀ e ∈ validateFieldsP env sub fs kvs a p, Located (.dict kvs) p e
  | [], _, _, _, _ => by simp [validateFieldsP]
  | (k, opt, s) :: fs, kvs, a, p, ha => by
    intro e he
    simp only [validateFieldsP] at he
    rcases List.mem_append.1 he with he | he
    · cases hl : lookupKey k kvs with
      | none =>
        simp only [hl] at he
        split at he
        · simp at he
        · simp at he; subst he; subst ha; exact located_here _ _ _ rfl rfl
      | some x =>
        simp only [hl] at he
        split at he
        · simp at he
        · exact located_step_key kvs k x p e hl (validateP_located env sub s x _ e he)
    · exact validateFieldsP_located env sub fs kvs a p ha e he
end

/-- **C03 (location).** Every error of `validate(schema, value)` has a path that, followed from the
    root value, reaches exactly the sub-value the error reports. -/
theorem errors_located (env : Env) (s : Schema) (v : PyVal) :
    ∀ e ∈ validateP env false s v [], resolve v e.path = some e.actual := by
  intro e he
  obtain ⟨q, h1, h2⟩ := validateP_located env false s v [] e he
  simpa [h1] using h2

end D42
