/-
  C02 — umbrella: verdict = meaning, and the scalar core of the model = the check programs extracted from the source.
-/
import D42.Props.C02
import D42.Props.ValidatorProg
