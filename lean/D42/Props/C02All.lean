/-
  C02 — umbrella: verdict = meaning, and the scalar core of the model = the check programs extracted from the source.
-/
import D42.Props.C02
import D42.Props.ValidatorProg

namespace D42
open CP

/-- the statement sequences of the scalar `Validator.visit_*` methods AS EXTRACTED FROM THE SOURCE accept exactly the
    conforming values: running the extracted program yields no error iff the value conforms to the scalar schema's
    declarative meaning (`validateScalar_eq_extracted` composed with `validateScalar_nil_iff`) -/
theorem extracted_accepts_iff_conforms (env : Env) (k : ScalarS) (a : PyVal) (p : Path) :
    (run env (viewScalar k) a p (progOf k) []).1 = [] ↔ ConformsScalar env k a := by
  rw [← validateScalar_eq_extracted]
  exact validateScalar_nil_iff env k a p

end D42
