/-
  C08 (second half) — every returned error renders to a message, and `validate_or_fail` returns True
  exactly when there are no errors and otherwise raises ValidationException with one line per error.
-/
import D42.Props.C08
import D42.Props.C03Facts

namespace D42

theorem sized_of_pyLen (a : PyVal) (k : Nat) (h : pyLen a = some k) : Sized a := by
  cases a <;> simp [pyLen] at h <;> trivial

theorem renderable_of_fact (env : Env) (e : Err) (h : Fact env e) : Renderable e := by
  cases e <;> simp only [Renderable] <;> simp only [Fact] at h <;>
    (obtain ⟨k, hk, _⟩ := h; exact sized_of_pyLen _ _ hk)

/-- **every error the validator returns renders** (the formatter's only raise point, `len(actual)`, is
    reached only for strings and lists) -/
theorem format_total (env : Env) (s : Schema) (v : PyVal) (p : Path) :
    ∀ e ∈ validateP env false s v p, ∃ m, formatX e = .ok m := by
  intro e he
  exact formatX_ok_of_renderable e (renderable_of_fact env e (errors_true env s v p e he))

theorem formatAll_ok : ∀ (es : List Err), (∀ e ∈ es, ∃ m, formatX e = .ok m) →
    ∃ ms, formatAll es = .ok ms ∧ ms.length = es.length
  | [], _ => ⟨[], rfl, rfl⟩
  | e :: es, h => by
    obtain ⟨m, hm⟩ := h e (by simp)
    obtain ⟨ms, hms, hl⟩ := formatAll_ok es (fun e' he' => h e' (List.mem_cons_of_mem _ he'))
    exact ⟨m :: ms, by simp [formatAll, hm, hms, bind, Except.bind, pure, Except.pure], by simp [hl]⟩

/-- **`validate_or_fail`** returns `True` exactly when there are no errors and otherwise raises
    ValidationException carrying one line per error — and never anything else -/
theorem validateOrFail_spec (env : Env) (s : Schema) (v : PyVal) :
    validateOrFail env s v =
      (if validateP env false s v [] = [] then .ok true
       else .error (.validationException (validateP env false s v []).length)) := by
  unfold validateOrFail
  rw [validate_ok]
  obtain ⟨ms, hms, hl⟩ := formatAll_ok (validateP env false s v []) (format_total env s v [])
  simp only [bind, Except.bind, hms]
  by_cases h : validateP env false s v [] = []
  · have : ms = [] := List.length_eq_zero_iff.1 (by simp [hl, h])
    simp [h, this, pure, Except.pure]
  · have : ms ≠ [] := by
      intro hm; apply h; exact List.length_eq_zero_iff.1 (by rw [← hl, hm]; rfl)
    simp [h, this, hl]

end D42

namespace D42

/-- **the rendered message names the path** (C03, last clause): whatever `formatX` renders names exactly
    `shownPath e` — the error's own path, extended by the missing index / key — which extends the error's path
    (`shownPath_extends`) and, by `errors_located`, leads to the reported sub-value -/
theorem format_shown (e : Err) (m : Msg) (h : formatX e = .ok m) : m.shown = shownPath e := by
  cases e <;> simp only [formatX] at h
  all_goals first
    | (cases h; rfl)
    | (rename_i p a n
       cases hl : pyLenX a with
       | error x => simp [hl, bind, Except.bind] at h
       | ok k => simp [hl, bind, Except.bind, pure, Except.pure] at h; subst h; rfl)

theorem format_names_path (env : Env) (s : Schema) (v : PyVal) (p : Path) (e : Err) (m : Msg)
    (_he : e ∈ validateP env false s v p) (h : formatX e = .ok m) : e.path <+: m.shown := by
  rw [format_shown e m h]; exact shownPath_extends e

end D42
