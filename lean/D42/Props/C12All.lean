/-
  C12 — umbrella: error kind / idempotence, and the scalar clause of the substitution model + from_native = what was
  extracted from the source.
-/
import D42.Props.C12Idem
import D42.Props.SubstProg

namespace D42
open SP

/-- a scalar substitution AS EXTRACTED FROM THE SOURCE fails with SubstitutionError only, and when it succeeds the value it
    was given passes the scalar checks of the original schema -/
theorem extracted_scalar_subst_spec (env : Env) (k : ScalarS) (v : PyVal) :
    (∀ e, runScalarSubst env (substFormOf k) k v = .error e → e = .substitutionError) ∧
    (∀ s, runScalarSubst env (substFormOf k) k v = .ok s → validateScalar env k v [] = []) := by
  constructor
  · intro e h
    unfold runScalarSubst at h
    split at h <;> simp_all
  · intro s h
    unfold runScalarSubst at h
    split at h
    · simp at h
    · rename_i hc
      cases k <;> simp_all [substFormOf, Gen.SubstProg.noneSubst, Gen.SubstProg.boolSubst, Gen.SubstProg.intSubst,
        Gen.SubstProg.floatSubst, Gen.SubstProg.strSubst, Gen.SubstProg.bytesSubst, Gen.SubstProg.uuid4Subst,
        Gen.SubstProg.datetimeSubst, Gen.SubstProg.dateSubst]

end D42
