/-
  C12 — umbrella: error kind / idempotence, and the scalar clause of the substitution model + from_native = what was
  extracted from the source.
-/
import D42.Props.C12Idem
import D42.Props.SubstProg
