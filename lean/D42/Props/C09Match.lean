/-
  C09 (meaning of "matches the entire pattern") — an executable matcher for the supported constructs that
  decides `MatchesSeq`; the driver runs it against CPython's `re.fullmatch` on generated (pattern, string)
  pairs, so the declarative language the theorems of Props/C09.lean talk about is checked to be Python's.
-/
import D42.Props.C09
import D42.Model.RegexMatch

namespace D42

/-- the boolean table agrees with the abstract one -/
def ExtAgree (extB : ClsItem → Nat → Bool) (ext : ClsItem → Nat → Prop) : Prop := ∀ it x, extB it x = true ↔ ext it x

/-! ### helper lemmas -/

theorem hC09M_mem_splits (s a b : Str) : (a, b) ∈ splits s ↔ s = a ++ b := by
  simp only [splits, List.mem_map, List.mem_range]
  constructor
  · rintro ⟨i, _, h⟩
    simp only [Prod.mk.injEq] at h
    rw [← h.1, ← h.2, List.take_append_drop]
  · rintro rfl
    exact ⟨a.length, by simp; omega, by simp⟩

theorem hC09M_repNB_iff (p : Str → Bool) (P : Str → Prop) (hp : ∀ t, p t = true ↔ P t) :
    ∀ (n : Nat) (s : Str), repNB p n s = true ↔ RepN P n s
  | 0, s => by simp [repNB, RepN]
  | n + 1, s => by
    simp only [repNB, RepN, List.any_eq_true, Bool.and_eq_true]
    constructor
    · rintro ⟨⟨a, b⟩, hm, h1, h2⟩
      exact ⟨a, b, (hC09M_mem_splits s a b).mp hm, (hp a).mp h1, (hC09M_repNB_iff p P hp n b).mp h2⟩
    · rintro ⟨a, b, hs, h1, h2⟩
      exact ⟨(a, b), (hC09M_mem_splits s a b).mpr hs, (hp a).mpr h1, (hC09M_repNB_iff p P hp n b).mpr h2⟩

/-- pigeonhole: with more pieces than characters one piece is empty and can be dropped -/
theorem hC09M_repN_drop (P : Str → Prop) : ∀ (n : Nat) (s : Str), RepN P (n + 1) s → s.length ≤ n → RepN P n s
  | 0, s, h, hl => by
    have : s = [] := List.eq_nil_of_length_eq_zero (by omega)
    simpa [RepN] using this
  | n + 1, s, h, hl => by
    obtain ⟨a, b, hs, ha, hb⟩ := h
    cases a with
    | nil => simp at hs; subst hs; exact hb
    | cons x a =>
      refine ⟨x :: a, b, hs, ha, hC09M_repN_drop P n b hb ?_⟩
      subst hs; simp at hl; omega

/-! ### theorems to prove -/

/-- dropping empty pieces: counts above `max mn |s|` never matter -/
theorem repN_bound (P : Str → Prop) (mn n : Nat) (s : Str) (h : RepN P n s) (hn : mn ≤ n) :
    ∃ k, mn ≤ k ∧ k ≤ max mn s.length ∧ k ≤ n ∧ RepN P k s := by
  induction n with
  | zero => exact ⟨0, hn, by omega, by omega, h⟩
  | succ n ih =>
    by_cases hle : n + 1 ≤ max mn s.length
    · exact ⟨n + 1, hn, hle, Nat.le_refl _, h⟩
    · have h1 : mn ≤ n := by omega
      have h2 : s.length ≤ n := by omega
      obtain ⟨k, a, b, c, d⟩ := ih (hC09M_repN_drop P n s h h2) h1
      exact ⟨k, a, b, by omega, d⟩

theorem hC09M_repRangeB_iff (p : Str → Bool) (P : Str → Prop) (hp : ∀ t, p t = true ↔ P t)
    (mn : Nat) (mx : Option Nat) (s : Str) :
    repRangeB p mn mx s = true ↔ ∃ n : Nat, mn ≤ n ∧ (∀ m, mx = some m → n ≤ m) ∧ RepN P n s := by
  simp only [repRangeB, List.any_eq_true, Bool.and_eq_true, List.mem_range, decide_eq_true_eq]
  constructor
  · rintro ⟨n, hlt, hmn, hr⟩
    refine ⟨n, hmn, ?_, (hC09M_repNB_iff p P hp n s).mp hr⟩
    intro m hm; subst hm; simp only at hlt; omega
  · rintro ⟨n, hmn, hmx, hr⟩
    obtain ⟨k, k1, k2, k3, k4⟩ := repN_bound P mn n s hr hmn
    refine ⟨k, ?_, k1, (hC09M_repNB_iff p P hp k s).mpr k4⟩
    cases mx with
    | none => simp only; omega
    | some m => have := hmx m rfl; simp only; omega

theorem hC09M_acceptsB_iff (extB : ClsItem → Nat → Bool) (ext : ClsItem → Nat → Prop) (ha : ExtAgree extB ext)
    (it : ClsItem) (x : Nat) : it.acceptsB extB x = true ↔ it.accepts ext x := by
  cases it with
  | lit c => simp [ClsItem.acceptsB, ClsItem.accepts]
  | range lo hi => simp [ClsItem.acceptsB, ClsItem.accepts]
  | digit => simp [ClsItem.acceptsB, ClsItem.accepts, isAsciiDigitB, isAsciiDigit, ha .digit x]
  | word => simp [ClsItem.acceptsB, ClsItem.accepts, isAsciiWordB, isAsciiWord, ha .word x, or_assoc]
  | unsup n => simp [ClsItem.acceptsB, ClsItem.accepts, ha (.unsup n) x]

theorem hC09M_any_acceptsB_iff (extB : ClsItem → Nat → Bool) (ext : ClsItem → Nat → Prop) (ha : ExtAgree extB ext)
    (items : List ClsItem) (x : Nat) :
    items.any (fun it => it.acceptsB extB x) = true ↔ ∃ it ∈ items, it.accepts ext x := by
  simp only [List.any_eq_true]
  constructor
  · rintro ⟨it, h1, h2⟩; exact ⟨it, h1, (hC09M_acceptsB_iff extB ext ha it x).mp h2⟩
  · rintro ⟨it, h1, h2⟩; exact ⟨it, h1, (hC09M_acceptsB_iff extB ext ha it x).mpr h2⟩

theorem hC09M_single_iff (s : Str) (q : Nat → Bool) (Q : Nat → Prop) (hq : ∀ x, q x = true ↔ Q x) :
    (match s with | [x] => q x | _ => false) = true ↔ ∃ x, s = [x] ∧ Q x := by
  match s with
  | [] => simp
  | [x] => simp [hq]
  | _ :: _ :: _ => simp

mutual
theorem hC09M_matchB_iff (extB : ClsItem → Nat → Bool) (ext : ClsItem → Nat → Prop) (ha : ExtAgree extB ext) :
    ∀ (r : Re) (s : Str), matchB extB r s = true ↔ Matches ext r s
  | .any, s => by
    simp only [matchB, Matches]
    exact hC09M_single_iff s (fun c => c != 10) (fun c => c ≠ 10) (by simp)
  | .lit c, s => by
    simp only [matchB, Matches]
    refine (hC09M_single_iff s (fun x => x == c) (fun x => x = c) (by simp)).trans ?_
    constructor
    · rintro ⟨x, rfl, rfl⟩; rfl
    · rintro rfl; exact ⟨c, rfl, rfl⟩
  | .notLit c, s => by
    simp only [matchB, Matches]
    exact hC09M_single_iff s (fun x => x != c) (fun x => x ≠ c) (by simp)
  | .cls neg items, s => by
    simp only [matchB, Matches]
    apply hC09M_single_iff s (fun x => (items.any (fun it => it.acceptsB extB x)) != neg)
      (fun x => ((∃ it ∈ items, it.accepts ext x) ↔ neg = false))
    intro x
    have := hC09M_any_acceptsB_iff extB ext ha items x
    cases hb : items.any (fun it => it.acceptsB extB x) <;> cases neg <;> simp_all
  | .group r, s => by
    simp only [matchB, Matches]
    exact hC09M_matchSeqB_iff extB ext ha r s
  | .rep mn mx r, s => by
    simp only [matchB, Matches]
    exact hC09M_repRangeB_iff _ _ (fun t => hC09M_matchSeqB_iff extB ext ha r t) mn mx s
  | .at_, s => by simp [matchB, Matches]
  | .branch alts, s => by
    simp only [matchB, Matches]
    exact hC09M_matchAltB_iff extB ext ha alts s
  | .unsup n, s => by simp [matchB, Matches]
theorem hC09M_matchSeqB_iff (extB : ClsItem → Nat → Bool) (ext : ClsItem → Nat → Prop) (ha : ExtAgree extB ext) :
    ∀ (r : List Re) (s : Str), matchSeqB extB r s = true ↔ MatchesSeq ext r s
  | [], s => by simp [matchSeqB, MatchesSeq]
  | r :: rs, s => by
    simp only [matchSeqB, MatchesSeq, List.any_eq_true, Bool.and_eq_true]
    constructor
    · rintro ⟨⟨a, b⟩, hm, h1, h2⟩
      exact ⟨a, b, (hC09M_mem_splits s a b).mp hm, (hC09M_matchB_iff extB ext ha r a).mp h1,
        (hC09M_matchSeqB_iff extB ext ha rs b).mp h2⟩
    · rintro ⟨a, b, hs, h1, h2⟩
      exact ⟨(a, b), (hC09M_mem_splits s a b).mpr hs, (hC09M_matchB_iff extB ext ha r a).mpr h1,
        (hC09M_matchSeqB_iff extB ext ha rs b).mpr h2⟩
theorem hC09M_matchAltB_iff (extB : ClsItem → Nat → Bool) (ext : ClsItem → Nat → Prop) (ha : ExtAgree extB ext) :
    ∀ (alts : List (List Re)) (s : Str), matchAltB extB alts s = true ↔ MatchesAlt ext alts s
  | [], s => by simp [matchAltB, MatchesAlt]
  | a :: as, s => by
    simp only [matchAltB, MatchesAlt, Bool.or_eq_true]
    rw [hC09M_matchSeqB_iff extB ext ha a s, hC09M_matchAltB_iff extB ext ha as s]
end

/-- **the matcher decides the declarative language** -/
theorem matchSeqB_iff (extB : ClsItem → Nat → Bool) (ext : ClsItem → Nat → Prop) (ha : ExtAgree extB ext)
    (r : List Re) (s : Str) : matchSeqB extB r s = true ↔ MatchesSeq ext r s :=
  hC09M_matchSeqB_iff extB ext ha r s

theorem matchB_iff (extB : ClsItem → Nat → Bool) (ext : ClsItem → Nat → Prop) (ha : ExtAgree extB ext)
    (r : Re) (s : Str) : matchB extB r s = true ↔ Matches ext r s :=
  hC09M_matchB_iff extB ext ha r s

/-- the alternatives too -/
theorem hC09M_matchAltB_iff' (extB : ClsItem → Nat → Bool) (ext : ClsItem → Nat → Prop) (ha : ExtAgree extB ext)
    (alts : List (List Re)) (s : Str) : matchAltB extB alts s = true ↔ MatchesAlt ext alts s :=
  hC09M_matchAltB_iff extB ext ha alts s

/-- **C09, executable form.** whatever the draws, the string the generator returns is accepted by the matcher
    (`genSeq_sound` composed with `matchSeqB_iff`; state it with exactly the hypotheses `genSeq_sound` has) -/
theorem genSeq_matchB (extB : ClsItem → Nat → Bool) (ext : ClsItem → Nat → Prop) (ha : ExtAgree extB ext)
    (r : List Re) (s : Str) (h : MatchesSeq ext r s) : matchSeqB extB r s = true :=
  (matchSeqB_iff extB ext ha r s).mpr h

/-- non-vacuity: `(ab|c)+\d{2,}` accepts "abc42", rejects "ab4" -/
theorem matchB_example :
    let r : List Re := [.rep 1 none [.group [.branch [[.lit 97, .lit 98], [.lit 99]]]], .rep 2 none [.cls false [.digit]]]
    matchSeqB (fun _ _ => false) r [97, 98, 99, 52, 50] = true ∧ matchSeqB (fun _ _ => false) r [97, 98, 52] = false := by
  decide

end D42
