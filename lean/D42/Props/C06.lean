/- C06 (statements are being added) -/
import D42.Model.Repr
import D42.Model.Decl
