/-
  C06 — repr(schema) is DSL source that rebuilds an equal schema (scalar schemas; containers print their
  members recursively with the same function, see `represent`).

  The printed text is split into *which calls are printed* (`scalarCalls`) and *how a call is rendered*
  (`opToks`); Python's parser turns the rendered text back into those calls (trusted). The theorem is
  that replaying the printed calls through the declaration model rebuilds exactly the schema.
-/
import D42.Model.Repr
import D42.Model.Decl
import D42.Props.C11

namespace D42

/-- the empty schema of the same type (`schema.int`, `schema.str`, …) -/
def freshOf : ScalarS → ScalarS
  | .none => .none
  | .bool _ => .bool none
  | .int .. => .int none none none
  | .float .. => .float none none none none none none
  | .str .. => .str none {} none none none
  | .bytes _ => .bytes none
  | .uuid4 _ => .uuid4 none
  | .datetime _ => .datetime none
  | .date _ => .date none

def facadeName : ScalarS → String
  | .none => "schema.none" | .bool _ => "schema.bool" | .int .. => "schema.int" | .float .. => "schema.float"
  | .str .. => "schema.str" | .bytes _ => "schema.bytes" | .uuid4 _ => "schema.uuid4"
  | .datetime _ => "schema.datetime" | .date _ => "schema.date"

def optCall {α} (f : α → Op) : Option α → List Op
  | some a => [f a]
  | none => []

/-- the `len(...)` call that is printed for the declared length props -/
def lenCall (L : LenP) : List Op :=
  match L.len, L.minLen, L.maxLen with
  | some n, _, _ => [.len (.v (.int n)) .nil]
  | none, some a, some b => [.len (.v (.int a)) (.v (.int b))]
  | none, some a, none => [.len (.v (.int a)) (.v .ellipsis)]
  | none, none, some b => [.len (.v .ellipsis) (.v (.int b))]
  | none, none, none => []

/-- the refinement calls `repr` prints for a scalar schema, in the order it prints them
    (value; min, max, precision; alphabet, contains, regex, len) -/
def scalarCalls : ScalarS → List Op
  | .none => []
  | .bool v => optCall (fun b => .call (.v (.bool b))) v
  | .int v mn mx => optCall (fun x => .call (.v (.int x))) v ++ optCall (fun x => .min (.v (.int x))) mn ++
      optCall (fun x => .max (.v (.int x))) mx
  | .float v mn mx p _ _ => optCall (fun x => .call (.v (.float x))) v ++ optCall (fun x => .min (.v (.float x))) mn ++
      optCall (fun x => .max (.v (.float x))) mx ++ optCall (fun (x : Nat) => .precision (.v (.int x))) p
  | .str v L al sub pat => optCall (fun x => .call (.v (.str x))) v ++ optCall (fun x => .alphabet (.v (.str x))) al ++
      optCall (fun x => .contains (.v (.str x))) sub ++ optCall (fun x => .regex (.pat true x true)) pat ++ lenCall L
  | .bytes v => optCall (fun x => .call (.v (.bytes x))) v
  | .uuid4 v => optCall (fun (x : Nat × Nat) => .call (.v (.uuid x.1 x.2))) v
  | .datetime v => optCall (fun x => .call (.v (.datetime x))) v
  | .date v => optCall (fun (x : Bool × Nat) => .call (.v (if x.1 then .datetime x.2 else .date x.2))) v

/-- how one call is rendered -/
def argToks : Arg → List Tok
  | .v .ellipsis => [.t "..."]
  | .v x => [.val x]
  | .pat _ p _ => [.pat p.id]
  | _ => []

def opToks : Op → List Tok
  | .call a => [.t "("] ++ argToks a ++ [.t ")"]
  | .min a => [.t ".min("] ++ argToks a ++ [.t ")"]
  | .max a => [.t ".max("] ++ argToks a ++ [.t ")"]
  | .precision a => [.t ".precision("] ++ argToks a ++ [.t ")"]
  | .alphabet a => [.t ".alphabet("] ++ argToks a ++ [.t ")"]
  | .contains a => [.t ".contains("] ++ argToks a ++ [.t ")"]
  | .regex a => [.t ".regex("] ++ argToks a ++ [.t ")"]
  | .len a .nil => [.t ".len("] ++ argToks a ++ [.t ")"]
  | .len a b => [.t ".len("] ++ argToks a ++ [.t ", "] ++ argToks b ++ [.t ")"]
  | .anyCall _ => []

/-- join adjacent text tokens so that token lists can be compared as rendered text -/
def flattenToks : List Tok → List Tok
  | .t a :: .t b :: r => flattenToks (.t (a ++ b) :: r)
  | x :: r => x :: flattenToks r
  | [] => []
termination_by l => l.length

/-! ### helper lemmas and proofs -/

theorem reprElems_indent (s : Schema) (ss : List Schema) (ind : Nat) :
    reprElems (s :: ss) ind = ([.t (spaces ind)] ++ represent s ind) :: reprElems ss ind := by
  rw [reprElems]

/-- nested containers are printed at `indent + 4` and closed at `indent` -/
theorem represent_listE_layout (es : List Schema) (L : LenP) (ind : Nat) (e : Schema) :
    represent (.listE false (e :: es) false L) ind =
      [.t "schema.list([\n"] ++ joinToks ",\n" (reprElems (e :: es) (ind + 4)) ++
      [.t ("\n" ++ spaces ind ++ "])")] ++ reprLen L := by
  rw [represent, reprElems]
  simp

/-- `flattenToks` is a right fold of this step -/
def tokStep : Tok → List Tok → List Tok
  | .t a, .t b :: r => .t (a ++ b) :: r
  | x, r => x :: r

theorem tokStep_assoc (a b : String) (z : List Tok) :
    tokStep (.t a) (tokStep (.t b) z) = tokStep (.t (a ++ b)) z := by
  cases z with
  | nil => simp [tokStep]
  | cons y z => cases y <;> simp [tokStep, String.append_assoc]

theorem flattenToks_cons_aux (n : Nat) : ∀ (x : Tok) (r : List Tok), r.length ≤ n →
    flattenToks (x :: r) = tokStep x (flattenToks r) := by
  induction n with
  | zero =>
    intro x r hr
    cases r with
    | nil => cases x <;> simp [flattenToks, tokStep]
    | cons y r => simp at hr
  | succ n ih =>
    intro x r hr
    cases r with
    | nil => cases x <;> simp [flattenToks, tokStep]
    | cons y r =>
      have hr' : r.length ≤ n := by simp at hr; omega
      cases x with
      | t a =>
        cases y with
        | t b =>
          rw [flattenToks, ih _ _ hr', ih _ _ hr', tokStep_assoc]
        | _ => rw [flattenToks] <;> simp [ih _ _ hr', tokStep]
      | _ => rw [flattenToks] <;> simp [tokStep]

theorem flattenToks_cons (x : Tok) (r : List Tok) :
    flattenToks (x :: r) = tokStep x (flattenToks r) :=
  flattenToks_cons_aux r.length x r (Nat.le_refl _)

theorem flattenToks_append_congr (a b b' : List Tok) (h : flattenToks b = flattenToks b') :
    flattenToks (a ++ b) = flattenToks (a ++ b') := by
  induction a with
  | nil => simpa using h
  | cons x a ih => simp only [List.cons_append, flattenToks_cons, ih]

theorem reprLen_eq_lenCall (L : LenP) :
    flattenToks (reprLen L) = flattenToks ((lenCall L).flatMap opToks) := by
  obtain ⟨l, mn, mx⟩ := L
  cases l <;> cases mn <;> cases mx <;>
    simp [reprLen, lenCall, opToks, argToks, reprInt, flattenToks_cons, tokStep, flattenToks]

/-- **the printed text is exactly the facade name followed by the rendered calls** (no constraint,
    flag or value is lost or altered in the text) -/
theorem reprScalar_eq_calls (k : ScalarS) :
    flattenToks (reprScalar k) = flattenToks (.t (facadeName k) :: (scalarCalls k).flatMap opToks) := by
  cases k with
  | str v L al sub pat =>
    have : reprScalar (.str v L al sub pat) =
        (.t "schema.str" :: (optCall (fun x => Op.call (.v (.str x))) v ++ optCall (fun x => Op.alphabet (.v (.str x))) al ++
      optCall (fun x => Op.contains (.v (.str x))) sub ++ optCall (fun x => Op.regex (.pat true x true)) pat).flatMap opToks) ++ reprLen L := by
      cases v <;> cases al <;> cases sub <;> cases pat <;> simp [reprScalar, optCall, opToks, argToks, callTok]
    rw [this]
    simp only [scalarCalls, facadeName, List.flatMap_append, ← List.cons_append]
    exact flattenToks_append_congr _ _ _ (reprLen_eq_lenCall L)
  | none => simp [reprScalar, facadeName, scalarCalls]
  | bool v => cases v <;> simp [reprScalar, facadeName, scalarCalls, optCall, opToks, argToks, callTok]
  | int v mn mx => cases v <;> cases mn <;> cases mx <;> simp [reprScalar, facadeName, scalarCalls, optCall, opToks, argToks, callTok, reprInt]
  | float v mn mx p d1 d2 => cases v <;> cases mn <;> cases mx <;> cases p <;> simp [reprScalar, facadeName, scalarCalls, optCall, opToks, argToks, callTok, reprInt]
  | bytes v => cases v <;> simp [reprScalar, facadeName, scalarCalls, optCall, opToks, argToks, callTok]
  | uuid4 v => rcases v with _ | ⟨i, ver⟩ <;> simp [reprScalar, facadeName, scalarCalls, optCall, opToks, argToks, callTok]
  | datetime v => cases v <;> simp [reprScalar, facadeName, scalarCalls, optCall, opToks, argToks, callTok]
  | date v => rcases v with _ | ⟨_ | _, i⟩ <;> simp [reprScalar, facadeName, scalarCalls, optCall, opToks, argToks, callTok]

/-- the length props of a reachable str schema: `len` excludes `min_len`/`max_len`, and a fixed value
    is consistent with each of them -/
def StrLenInv (v : Option Str) (L : LenP) : Prop :=
  (L.len.isSome → L.minLen = none ∧ L.maxLen = none) ∧
  ∀ s, v = some s →
    (∀ n, L.len = some n → (s.length : Int) = n) ∧
    (∀ n, L.minLen = some n → n ≤ (s.length : Int)) ∧
    (∀ n, L.maxLen = some n → (s.length : Int) ≤ n)

/-- invariant of the scalar schemas reachable by `declScalar` calls from the empty schema -/
def Inv : ScalarS → Prop
  | .int v mn mx =>
    (∀ x n, v = some x → mn = some n → n ≤ x) ∧ (∀ x n, v = some x → mx = some n → x ≤ n)
  | .float v mn mx p d1 d2 =>
    d1 = none ∧ d2 = none ∧
    (∀ x f, v = some x → mn = some f → PyFloat.le f x = true) ∧
    (∀ x f, v = some x → mx = some f → PyFloat.ge f x = true) ∧
    (∀ n, p = some n → 1 ≤ n ∧ n ≤ 15)
  | .str v L al sub pat =>
    (pat.isSome → L = {} ∧ al = none ∧ sub = none) ∧ StrLenInv v L ∧
    (∀ s l, v = some s → al = some l → s.all (fun c => l.contains c) = true) ∧
    (∀ s x, v = some s → sub = some x → isInfixB x s = true)
  | .uuid4 v => ∀ i ver, v = some (i, ver) → ver = 4
  | _ => True

theorem anySet_false (L : LenP) (h : L.anySet = false) : L = {} := by
  obtain ⟨l, mn, mx⟩ := L
  cases l <;> cases mn <;> cases mx <;> simp_all [LenP.anySet]

theorem anySet_false_iff (L : LenP) : L.anySet = false ↔ L = {} := by
  constructor
  · exact anySet_false L
  · rintro rfl; rfl

theorem strDeclLen_ok (v : Option Str) (L L' : LenP) (a : Arg) (h : strDeclLen v L a = .ok L') :
    ∃ n, argInt a = some n ∧ L' = { L with len := some n } ∧ ∀ s, v = some s → (s.length : Int) = n := by
  unfold strDeclLen at h
  repeat' split at h
  all_goals (try (simp at h; done))
  all_goals (simp at h; subst h; exact ⟨_, by assumption, rfl, by simp_all⟩)

theorem strDeclMin_ok (v : Option Str) (L L' : LenP) (a : Arg) (h : strDeclMin v L a = .ok L') :
    ∃ n, argInt a = some n ∧ L' = { L with minLen := some n } ∧ ∀ s, v = some s → n ≤ (s.length : Int) := by
  unfold strDeclMin at h
  repeat' split at h
  all_goals (try (simp at h; done))
  all_goals (simp at h; subst h; exact ⟨_, by assumption, rfl, by simp_all; try omega⟩)

theorem strDeclMax_ok (v : Option Str) (L L' : LenP) (a : Arg) (h : strDeclMax v L a = .ok L') :
    ∃ n, argInt a = some n ∧ L' = { L with maxLen := some n } ∧ ∀ s, v = some s → (s.length : Int) ≤ n := by
  unfold strDeclMax at h
  repeat' split at h
  all_goals (try (simp at h; done))
  all_goals (simp at h; subst h; exact ⟨_, by assumption, rfl, by simp_all; try omega⟩)

theorem strLen_ok (v : Option Str) (L' : LenP) (a b : Arg) (h : strLen v {} a b = .ok L') : StrLenInv v L' := by
  unfold strLen declLenDispatch at h
  split at h
  · obtain ⟨n, _, rfl, hn⟩ := strDeclMax_ok _ _ _ _ h
    simp_all [StrLenInv]
  · split at h
    · obtain ⟨n, _, rfl, hn⟩ := strDeclLen_ok _ _ _ _ h
      simp_all [StrLenInv]
    · split at h
      · obtain ⟨n, _, rfl, hn⟩ := strDeclMin_ok _ _ _ _ h
        simp_all [StrLenInv]
      · cases h1 : strDeclMin v {} a with
        | error e => simp [h1, bind, Except.bind] at h
        | ok L1 =>
          simp only [h1, bind, Except.bind] at h
          obtain ⟨n, _, rfl, hn⟩ := strDeclMin_ok _ _ _ _ h1
          obtain ⟨m, _, rfl, hm⟩ := strDeclMax_ok _ _ _ _ h
          simp_all [StrLenInv]


theorem inv_step_str_len (v : Option Str) (L : LenP) (al sub : Option Str) (pat : Option Pat) (a b : Arg) (k' : ScalarS)
    (hi : Inv (.str v L al sub pat)) (h : declScalar (.str v L al sub pat) (.len a b) = .ok k') : Inv k' := by
  rw [str_len] at h
  split at h
  · cases h
  · rename_i hc
    simp only [Bool.or_eq_true, not_or, Bool.not_eq_true] at hc
    obtain ⟨hL, hp⟩ := hc
    have hL := anySet_false L hL
    subst hL
    cases h1 : strLen v {} a b with
    | error e => simp [h1] at h
    | ok L1 =>
      simp only [h1] at h
      cases h
      have := strLen_ok _ _ _ _ h1
      simp_all [Inv]

theorem int_call (v mn mx : Option Int) (a : Arg) : declScalar (.int v mn mx) (.call a) =
    (match argInt a with
     | none => DErr
     | some n => if v.isSome then DErr else if mn.isSome || mx.isSome then DErr else .ok (.int (some n) mn mx)) := rfl

theorem float_call (v mn mx : Option PyFloat) (p : Option Nat) (d1 d2 : Option Rat) (a : Arg) :
    declScalar (.float v mn mx p d1 d2) (.call a) =
    (match argFloat a with
     | none => DErr
     | some f => if v.isSome then DErr else if mn.isSome || mx.isSome then DErr else .ok (.float (some f) mn mx p d1 d2)) := rfl

theorem str_call (v : Option Str) (L : LenP) (al sub : Option Str) (pat : Option Pat) (a : Arg) :
    declScalar (.str v L al sub pat) (.call a) =
    (match argStr a with
     | none => DErr
     | some s => if v.isSome || L.anySet || al.isSome || sub.isSome || pat.isSome then DErr
        else .ok (.str (some s) L al sub pat)) := rfl

theorem inv_step_call (k k' : ScalarS) (a : Arg) (hi : Inv k) (h : declScalar k (.call a) = .ok k') : Inv k' := by
  cases k with
  | none => cases h
  | int v mn mx =>
    rw [int_call] at h
    repeat' split at h
    all_goals (try (simp at h; done))
    all_goals (simp at h; subst h; simp_all [Inv])
  | float v mn mx p d1 d2 =>
    rw [float_call] at h
    repeat' split at h
    all_goals (try (simp at h; done))
    all_goals (simp at h; subst h; simp_all [Inv])
  | str v L al sub pat =>
    rw [str_call] at h
    repeat' split at h
    all_goals (try (simp at h; done))
    all_goals (simp at h; subst h; simp_all [Inv, anySet_false_iff, StrLenInv])
  | bool v =>
    cases a <;> (try (cases h; done))
    rename_i x
    cases x <;> (try (cases h; done))
    simp only [declScalar] at h
    split at h <;> cases h
    trivial
  | bytes v =>
    cases a <;> (try (cases h; done))
    rename_i x
    cases x <;> (try (cases h; done))
    simp only [declScalar] at h
    split at h <;> cases h
    trivial
  | datetime v =>
    cases a <;> (try (cases h; done))
    rename_i x
    cases x <;> (try (cases h; done))
    simp only [declScalar] at h
    split at h <;> cases h
    trivial
  | date v =>
    cases a <;> (try (cases h; done))
    rename_i x
    cases x <;> (try (cases h; done))
    all_goals (simp only [declScalar] at h; split at h <;> cases h; trivial)
  | uuid4 v =>
    cases a <;> (try (cases h; done))
    rename_i x
    cases x <;> (try (cases h; done))
    simp only [declScalar] at h
    repeat' split at h
    all_goals (try (cases h; done))
    cases h
    simp_all [Inv]

theorem inv_step (k k' : ScalarS) (op : Op) (hi : Inv k) (h : declScalar k op = .ok k') : Inv k' := by
  cases op with
  | len a b =>
    cases k with
    | str v L al sub pat => exact inv_step_str_len v L al sub pat a b k' hi h
    | _ => cases h
  | anyCall _ => cases k <;> cases h
  | min a =>
    cases k with
    | int v mn mx =>
      rw [int_min] at h
      repeat' split at h
      all_goals (try (simp at h; done))
      all_goals (simp at h; subst h; simp_all [Inv]; try omega)
    | float v mn mx p d1 d2 =>
      rw [float_min] at h
      repeat' split at h
      all_goals (try (simp at h; done))
      all_goals (simp at h; subst h; simp_all [Inv])
    | _ => cases h
  | max a =>
    cases k with
    | int v mn mx =>
      rw [int_max] at h
      repeat' split at h
      all_goals (try (simp at h; done))
      all_goals (simp at h; subst h; simp_all [Inv]; try omega)
    | float v mn mx p d1 d2 =>
      rw [float_max] at h
      repeat' split at h
      all_goals (try (simp at h; done))
      all_goals (simp at h; subst h; simp_all [Inv])
    | _ => cases h
  | precision a =>
    cases k with
    | float v mn mx p d1 d2 =>
      rw [float_precision] at h
      cases ha : argInt a with
      | none => simp [ha] at h
      | some n =>
        simp only [ha] at h
        cases hb : (decide (1 ≤ n) && decide (n ≤ (Consts.FLOAT_DIG : Int))) with
        | false => rw [hb] at h; simp at h
        | true =>
          rw [hb] at h
          cases p with
          | some _ => simp at h
          | none =>
            simp at h
            subst h
            simp [Consts.FLOAT_DIG] at hb
            simp_all [Inv]
            have h2 := of_decide_eq_true hb.2; omega
    | _ => cases h
  | alphabet a =>
    cases k with
    | str v L al sub pat =>
      rw [str_alphabet] at h
      repeat' split at h
      all_goals (try (simp at h; done))
      all_goals (simp at h; subst h; simp_all [Inv])
    | _ => cases h
  | contains a =>
    cases k with
    | str v L al sub pat =>
      rw [str_contains] at h
      repeat' split at h
      all_goals (try (simp at h; done))
      all_goals (simp at h; subst h; simp_all [Inv])
    | _ => cases h
  | regex a =>
    cases k with
    | str v L al sub pat =>
      rw [str_regex] at h
      repeat' split at h
      all_goals (try (simp at h; done))
      all_goals (simp at h; subst h; simp_all [Inv, anySet_false_iff])
    | _ => cases h
  | call a => exact inv_step_call k k' a hi h


theorem inv_run (ops : List Op) : ∀ (k k' : ScalarS), Inv k → runScalar k ops = .ok k' → Inv k' := by
  induction ops with
  | nil => intro k k' hi h; simp only [runScalar] at h; cases h; exact hi
  | cons op ops ih =>
    intro k k' hi h
    rw [runScalar_cons] at h
    cases h1 : declScalar k op with
    | error e => simp [h1] at h
    | ok k1 =>
      simp only [h1, bindE_ok] at h
      exact ih k1 k' (inv_step k k1 op hi h1) h

theorem inv_fresh (k : ScalarS) : Inv (freshOf k) := by
  cases k <;> simp [freshOf, Inv, StrLenInv]

theorem runScalar_append (a : List Op) : ∀ (k : ScalarS) (b : List Op),
    runScalar k (a ++ b) = bindE (runScalar k a) (fun k' => runScalar k' b) := by
  induction a with
  | nil => intro k b; simp [runScalar]
  | cons op a ih =>
    intro k b
    rw [List.cons_append, runScalar_cons, runScalar_cons]
    cases declScalar k op with
    | error e => rfl
    | ok k1 => simp only [bindE_ok]; exact ih k1 b

theorem stage_int_call (v : Option Int) :
    runScalar (.int none none none) (optCall (fun x => .call (.v (.int x))) v) = .ok (.int v none none) := by
  cases v <;> simp [optCall, runScalar, int_call, argInt, asInt]

theorem stage_int_min (v mn mx : Option Int) (h : ∀ x n, v = some x → mn = some n → n ≤ x) :
    runScalar (.int v none mx) (optCall (fun x => .min (.v (.int x))) mn) = .ok (.int v mn mx) := by
  cases mn with
  | none => simp [optCall, runScalar]
  | some n =>
    cases v with
    | none => simp [optCall, runScalar, int_min, argInt, asInt]
    | some x =>
      have := h x n rfl rfl
      have h' : ¬ x < n := by omega
      simp [optCall, runScalar, int_min, argInt, asInt, h']

theorem stage_int_max (v mn mx : Option Int) (h : ∀ x n, v = some x → mx = some n → x ≤ n) :
    runScalar (.int v mn none) (optCall (fun x => .max (.v (.int x))) mx) = .ok (.int v mn mx) := by
  cases mx with
  | none => simp [optCall, runScalar]
  | some n =>
    cases v with
    | none => simp [optCall, runScalar, int_max, argInt, asInt]
    | some x =>
      have := h x n rfl rfl
      have h' : ¬ n < x := by omega
      simp [optCall, runScalar, int_max, argInt, asInt, h']

theorem replay_int (v mn mx : Option Int) (hi : Inv (.int v mn mx)) :
    runScalar (.int none none none) (scalarCalls (.int v mn mx)) = .ok (.int v mn mx) := by
  simp only [scalarCalls, runScalar_append, stage_int_call, bindE_ok, stage_int_min v mn none hi.1,
    stage_int_max v mn mx hi.2]

theorem stage_float_call (v : Option PyFloat) :
    runScalar (.float none none none none none none) (optCall (fun x => .call (.v (.float x))) v) =
      .ok (.float v none none none none none) := by
  cases v <;> simp [optCall, runScalar, float_call, argFloat]

theorem stage_float_min (v mn mx : Option PyFloat) (p : Option Nat) (d2 : Option Rat)
    (h : ∀ x f, v = some x → mn = some f → PyFloat.le f x = true) :
    runScalar (.float v none mx p none d2) (optCall (fun x => .min (.v (.float x))) mn) = .ok (.float v mn mx p none d2) := by
  cases mn with
  | none => simp [optCall, runScalar]
  | some n =>
    cases v with
    | none => simp [optCall, runScalar, float_min, argFloat]
    | some x =>
      have := h x n rfl rfl
      simp [optCall, runScalar, float_min, argFloat, this]

theorem stage_float_max (v mn mx : Option PyFloat) (p : Option Nat) (d1 : Option Rat)
    (h : ∀ x f, v = some x → mx = some f → PyFloat.ge f x = true) :
    runScalar (.float v mn none p d1 none) (optCall (fun x => .max (.v (.float x))) mx) = .ok (.float v mn mx p d1 none) := by
  cases mx with
  | none => simp [optCall, runScalar]
  | some n =>
    cases v with
    | none => simp [optCall, runScalar, float_max, argFloat]
    | some x =>
      have := h x n rfl rfl
      simp [optCall, runScalar, float_max, argFloat, this]

theorem stage_float_prec (v mn mx : Option PyFloat) (p : Option Nat) (d1 d2 : Option Rat)
    (h : ∀ n, p = some n → 1 ≤ n ∧ n ≤ 15) :
    runScalar (.float v mn mx none d1 d2) (optCall (fun (x : Nat) => .precision (.v (.int x))) p) = .ok (.float v mn mx p d1 d2) := by
  cases p with
  | none => simp [optCall, runScalar]
  | some n =>
    have := h n rfl
    have hb : (decide (1 ≤ (n : Int)) && decide ((n : Int) ≤ (Consts.FLOAT_DIG : Int))) = true := by
      rw [Bool.and_eq_true]
      exact ⟨decide_eq_true (by omega), decide_eq_true (by simp only [Consts.FLOAT_DIG]; omega)⟩
    simp only [optCall, runScalar, float_precision, argInt, asInt, hb]
    simp

theorem replay_float (v mn mx : Option PyFloat) (p : Option Nat) (d1 d2 : Option Rat) (hi : Inv (.float v mn mx p d1 d2)) :
    runScalar (.float none none none none none none) (scalarCalls (.float v mn mx p d1 d2)) = .ok (.float v mn mx p d1 d2) := by
  obtain ⟨rfl, rfl, h1, h2, h3⟩ := hi
  simp only [scalarCalls, runScalar_append, stage_float_call, bindE_ok, stage_float_min v mn none none none h1,
    stage_float_max v mn mx none none h2, stage_float_prec v mn mx p none none h3]


theorem stage_str_call (v : Option Str) :
    runScalar (.str none {} none none none) (optCall (fun x => .call (.v (.str x))) v) = .ok (.str v {} none none none) := by
  cases v <;> simp [optCall, runScalar, str_call, argStr, LenP.anySet]

theorem stage_str_alphabet (v : Option Str) (L : LenP) (al sub : Option Str)
    (h : ∀ s l, v = some s → al = some l → s.all (fun c => l.contains c) = true) :
    runScalar (.str v L none sub none) (optCall (fun x => .alphabet (.v (.str x))) al) = .ok (.str v L al sub none) := by
  cases al with
  | none => simp [optCall, runScalar]
  | some l =>
    cases v with
    | none => simp [optCall, runScalar, str_alphabet, argStr]
    | some s =>
      have := h s l rfl rfl
      simp only [optCall, runScalar, str_alphabet, argStr, this]
      simp

theorem stage_str_contains (v : Option Str) (L : LenP) (al sub : Option Str)
    (h : ∀ s x, v = some s → sub = some x → isInfixB x s = true) :
    runScalar (.str v L al none none) (optCall (fun x => .contains (.v (.str x))) sub) = .ok (.str v L al sub none) := by
  cases sub with
  | none => simp [optCall, runScalar]
  | some l =>
    cases v with
    | none => simp [optCall, runScalar, str_contains, argStr]
    | some s =>
      have := h s l rfl rfl
      simp only [optCall, runScalar, str_contains, argStr, this]
      simp

theorem stage_str_regex (v : Option Str) (al sub : Option Str) (pat : Option Pat)
    (h : pat.isSome → al = none ∧ sub = none) :
    runScalar (.str v {} al sub none) (optCall (fun x => .regex (.pat true x true)) pat) = .ok (.str v {} al sub pat) := by
  cases pat with
  | none => simp [optCall, runScalar]
  | some p =>
    obtain ⟨rfl, rfl⟩ := h rfl
    cases v <;> simp [optCall, runScalar, str_regex, regexArg, LenP.anySet]

theorem if_lt_neg {α} (a b : Int) (h : a ≤ b) (x y : α) : (if b < a then x else y) = y :=
  if_neg (by omega)

theorem stage_str_len (v : Option Str) (L : LenP) (al sub : Option Str) (pat : Option Pat)
    (h : pat.isSome → L = {}) (hL : StrLenInv v L) :
    runScalar (.str v {} al sub pat) (lenCall L) = .ok (.str v L al sub pat) := by
  cases pat with
  | some p => rw [h rfl]; simp [lenCall, runScalar]
  | none =>
    obtain ⟨l, mn, mx⟩ := L
    obtain ⟨h1, h2⟩ := hL
    cases l with
    | some n =>
      obtain ⟨rfl, rfl⟩ := h1 rfl
      cases v with
      | none =>
        simp [lenCall, runScalar, str_len, LenP.anySet, strLen, declLenDispatch, argIsEllipsis, strDeclLen, argInt, asInt]
      | some s =>
        have := (h2 s rfl).1 n rfl
        simp [lenCall, runScalar, str_len, LenP.anySet, strLen, declLenDispatch, argIsEllipsis, strDeclLen, argInt, asInt, this]
    | none =>
      cases v with
      | none =>
        cases mn <;> cases mx <;>
        simp [lenCall, runScalar, str_len, LenP.anySet, strLen, declLenDispatch, argIsEllipsis, strDeclMin, strDeclMax, argInt, asInt, bind, Except.bind]
      | some s =>
        obtain ⟨_, h3, h4⟩ := h2 s rfl
        cases mn with
        | none =>
          cases mx with
          | none => simp [lenCall, runScalar]
          | some b =>
            have := h4 b rfl
            simp [lenCall, runScalar, str_len, LenP.anySet, strLen, declLenDispatch, argIsEllipsis, strDeclMax,
              argInt, asInt, if_lt_neg _ _ this]
        | some a =>
          have ha := h3 a rfl
          cases mx with
          | none =>
            simp [lenCall, runScalar, str_len, LenP.anySet, strLen, declLenDispatch, argIsEllipsis, strDeclMin,
              argInt, asInt, if_lt_neg _ _ ha]
          | some b =>
            have hb := h4 b rfl
            simp [lenCall, runScalar, str_len, LenP.anySet, strLen, declLenDispatch, argIsEllipsis, strDeclMin, strDeclMax,
              argInt, asInt, if_lt_neg _ _ ha, if_lt_neg _ _ hb, bind, Except.bind]


theorem replay_str (v : Option Str) (L : LenP) (al sub : Option Str) (pat : Option Pat)
    (hi : Inv (.str v L al sub pat)) :
    runScalar (.str none {} none none none) (scalarCalls (.str v L al sub pat)) = .ok (.str v L al sub pat) := by
  obtain ⟨h1, h2, h3, h4⟩ := hi
  simp only [scalarCalls, runScalar_append, stage_str_call, bindE_ok, stage_str_alphabet v {} al none h3,
    stage_str_contains v {} al sub h4, stage_str_regex v al sub pat (fun h => (h1 h).2),
    stage_str_len v L al sub pat (fun h => (h1 h).1) h2]

theorem replay_of_inv (k : ScalarS) (hi : Inv k) : runScalar (freshOf k) (scalarCalls k) = .ok k := by
  cases k with
  | none => rfl
  | int v mn mx => exact replay_int v mn mx hi
  | float v mn mx p d1 d2 => exact replay_float v mn mx p d1 d2 hi
  | str v L al sub pat => exact replay_str v L al sub pat hi
  | bool v => cases v <;> simp [freshOf, scalarCalls, optCall, runScalar, declScalar]
  | bytes v => cases v <;> simp [freshOf, scalarCalls, optCall, runScalar, declScalar]
  | datetime v => cases v <;> simp [freshOf, scalarCalls, optCall, runScalar, declScalar]
  | date v => rcases v with _ | ⟨_ | _, i⟩ <;> simp [freshOf, scalarCalls, optCall, runScalar, declScalar]
  | uuid4 v =>
    rcases v with _ | ⟨i, ver⟩
    · simp [freshOf, scalarCalls, optCall, runScalar]
    · have : ver = 4 := hi i ver rfl
      subst this
      simp [freshOf, scalarCalls, optCall, runScalar, declScalar]

/-- **C06 (scalars).** For every scalar schema that can be built through the DSL (reachable from the
    empty schema by declaration calls), replaying the calls that `repr` prints rebuilds exactly that schema. -/
theorem repr_scalar_roundtrip (k : ScalarS) (ops : List Op)
    (hreach : runScalar (freshOf k) ops = .ok k) :
    runScalar (freshOf k) (scalarCalls k) = .ok k :=
  replay_of_inv k (inv_run ops _ _ (inv_fresh k) hreach)

set_option linter.unusedVariables false in
/-- the defect fixed by F2, as a theorem about the model: a str schema with a pattern has no length props,
    so the printed order (regex before len) can never be rejected on replay -/
theorem pattern_excludes_len (k : ScalarS) (ops : List Op) (v : Option Str) (L : LenP) (al sub : Option Str) (p : Pat)
    (hreach : runScalar (.str none {} none none none) ops = .ok (.str v L al sub (some p))) :
    L = {} ∧ al = none ∧ sub = none :=
  (inv_run ops _ _ (inv_fresh (.str v L al sub (some p))) hreach).1 rfl


theorem runScalar_single (k : ScalarS) (op : Op) : runScalar k [op] = declScalar k op := by
  simp only [runScalar]; cases declScalar k op <;> rfl

theorem bindE_eq_ok {x : Except PyExc ScalarS} {f : ScalarS → Except PyExc ScalarS} {k' : ScalarS}
    (h : bindE x f = .ok k') : ∃ k1, x = .ok k1 ∧ f k1 = .ok k' := by
  cases x with
  | error e => simp at h
  | ok k1 => exact ⟨k1, rfl, by simpa using h⟩

theorem sinv_int_min (v mn mx : Option Int) (k1 : ScalarS)
    (h : runScalar (.int v none mx) (optCall (fun x => .min (.v (.int x))) mn) = .ok k1) : k1 = .int v mn mx := by
  cases mn with
  | none => simp [optCall, runScalar] at h; exact h.symm
  | some n =>
    simp only [optCall, runScalar_single, int_min, argInt, asInt] at h
    repeat' split at h
    all_goals (try (simp at h; done))
    all_goals (simp at h; exact h.symm)

theorem sinv_int_max (v mn mx : Option Int) (k1 : ScalarS)
    (h : runScalar (.int v mn none) (optCall (fun x => .max (.v (.int x))) mx) = .ok k1) : k1 = .int v mn mx := by
  cases mx with
  | none => simp [optCall, runScalar] at h; exact h.symm
  | some n =>
    simp only [optCall, runScalar_single, int_max, argInt, asInt] at h
    repeat' split at h
    all_goals (try (simp at h; done))
    all_goals (simp at h; exact h.symm)

theorem stable_int (v mn mx : Option Int) (k' : ScalarS)
    (h : runScalar (.int none none none) (scalarCalls (.int v mn mx)) = .ok k') : k' = .int v mn mx := by
  simp only [scalarCalls, runScalar_append, stage_int_call, bindE_ok] at h
  obtain ⟨k1, h1, h2⟩ := bindE_eq_ok h
  rw [sinv_int_min _ _ _ _ h1] at h2
  exact sinv_int_max _ _ _ _ h2

theorem sinv_float_min (v mn mx : Option PyFloat) (p : Option Nat) (d1 d2 : Option Rat) (k1 : ScalarS)
    (h : runScalar (.float v none mx p d1 d2) (optCall (fun x => .min (.v (.float x))) mn) = .ok k1) :
    ∃ d1', k1 = .float v mn mx p d1' d2 := by
  cases mn with
  | none => simp [optCall, runScalar] at h; exact ⟨_, h.symm⟩
  | some n =>
    simp only [optCall, runScalar_single, float_min, argFloat] at h
    repeat' split at h
    all_goals (try (simp at h; done))
    all_goals (simp at h; exact ⟨_, h.symm⟩)

theorem sinv_float_max (v mn mx : Option PyFloat) (p : Option Nat) (d1 d2 : Option Rat) (k1 : ScalarS)
    (h : runScalar (.float v mn none p d1 d2) (optCall (fun x => .max (.v (.float x))) mx) = .ok k1) :
    ∃ d2', k1 = .float v mn mx p d1 d2' := by
  cases mx with
  | none => simp [optCall, runScalar] at h; exact ⟨_, h.symm⟩
  | some n =>
    simp only [optCall, runScalar_single, float_max, argFloat] at h
    repeat' split at h
    all_goals (try (simp at h; done))
    all_goals (simp at h; exact ⟨_, h.symm⟩)

theorem sinv_float_prec (v mn mx : Option PyFloat) (p : Option Nat) (d1 d2 : Option Rat) (k1 : ScalarS)
    (h : runScalar (.float v mn mx none d1 d2) (optCall (fun (x : Nat) => .precision (.v (.int x))) p) = .ok k1) :
    k1 = .float v mn mx p d1 d2 := by
  cases p with
  | none => simp [optCall, runScalar] at h; exact h.symm
  | some n =>
    simp only [optCall, runScalar_single, float_precision, argInt, asInt] at h
    repeat' split at h
    all_goals (try (simp at h; done))
    all_goals (simp at h; exact h.symm)

theorem stable_float (v mn mx : Option PyFloat) (p : Option Nat) (d1 d2 : Option Rat) (k' : ScalarS)
    (h : runScalar (.float none none none none none none) (scalarCalls (.float v mn mx p d1 d2)) = .ok k') :
    ∃ d1' d2', k' = .float v mn mx p d1' d2' := by
  simp only [scalarCalls, runScalar_append, stage_float_call, bindE_ok] at h
  obtain ⟨k2, h', h3⟩ := bindE_eq_ok h
  obtain ⟨k1, h1, h2⟩ := bindE_eq_ok h'
  obtain ⟨d1', rfl⟩ := sinv_float_min _ _ _ _ _ _ _ h1
  obtain ⟨d2', rfl⟩ := sinv_float_max _ _ _ _ _ _ _ h2
  exact ⟨d1', d2', sinv_float_prec _ _ _ _ _ _ _ h3⟩


theorem sinv_str_alphabet (v : Option Str) (L : LenP) (al sub : Option Str) (pat : Option Pat) (k1 : ScalarS)
    (h : runScalar (.str v L none sub pat) (optCall (fun x => .alphabet (.v (.str x))) al) = .ok k1) :
    k1 = .str v L al sub pat := by
  cases al with
  | none => simp [optCall, runScalar] at h; exact h.symm
  | some n =>
    simp only [optCall, runScalar_single, str_alphabet, argStr] at h
    repeat' split at h
    all_goals (try (simp at h; done))
    all_goals (simp at h; exact h.symm)

theorem sinv_str_contains (v : Option Str) (L : LenP) (al sub : Option Str) (pat : Option Pat) (k1 : ScalarS)
    (h : runScalar (.str v L al none pat) (optCall (fun x => .contains (.v (.str x))) sub) = .ok k1) :
    k1 = .str v L al sub pat := by
  cases sub with
  | none => simp [optCall, runScalar] at h; exact h.symm
  | some n =>
    simp only [optCall, runScalar_single, str_contains, argStr] at h
    repeat' split at h
    all_goals (try (simp at h; done))
    all_goals (simp at h; exact h.symm)

theorem sinv_str_regex (v : Option Str) (L : LenP) (al sub : Option Str) (pat : Option Pat) (k1 : ScalarS)
    (h : runScalar (.str v L al sub none) (optCall (fun x => .regex (.pat true x true)) pat) = .ok k1) :
    k1 = .str v L al sub pat := by
  cases pat with
  | none => simp [optCall, runScalar] at h; exact h.symm
  | some n =>
    simp only [optCall, runScalar_single, str_regex, regexArg] at h
    repeat' split at h
    all_goals (try (simp at h; done))
    all_goals (simp at h; exact h.symm)

theorem sinv_str_len (v : Option Str) (L : LenP) (al sub : Option Str) (pat : Option Pat) (k1 : ScalarS)
    (h : runScalar (.str v {} al sub pat) (lenCall L) = .ok k1) :
    ∃ L', k1 = .str v L' al sub pat ∧ reprLen L' = reprLen L := by
  obtain ⟨l, mn, mx⟩ := L
  cases l with
  | some n =>
    simp only [lenCall, runScalar_single, str_len] at h
    split at h
    · cases h
    · cases h1 : strLen v {} (.v (.int n)) .nil with
      | error e => simp [h1] at h
      | ok L1 =>
        simp only [h1] at h
        cases h
        refine ⟨L1, rfl, ?_⟩
        simp [strLen, declLenDispatch, argIsEllipsis] at h1
        obtain ⟨n', hn', rfl, _⟩ := strDeclLen_ok _ _ _ _ h1
        simp [argInt, asInt] at hn'
        subst hn'
        simp [reprLen]
  | none =>
    cases mn with
    | none =>
      cases mx with
      | none => simp [lenCall, runScalar] at h; exact ⟨_, h.symm, rfl⟩
      | some b =>
        simp only [lenCall, runScalar_single, str_len] at h
        split at h
        · cases h
        · cases h1 : strLen v {} (.v .ellipsis) (.v (.int b)) with
          | error e => simp [h1] at h
          | ok L1 =>
            simp only [h1] at h
            cases h
            refine ⟨L1, rfl, ?_⟩
            simp [strLen, declLenDispatch, argIsEllipsis] at h1
            obtain ⟨n', hn', rfl, _⟩ := strDeclMax_ok _ _ _ _ h1
            simp [argInt, asInt] at hn'
            subst hn'
            simp [reprLen]
    | some a =>
      cases mx with
      | none =>
        simp only [lenCall, runScalar_single, str_len] at h
        split at h
        · cases h
        · cases h1 : strLen v {} (.v (.int a)) (.v .ellipsis) with
          | error e => simp [h1] at h
          | ok L1 =>
            simp only [h1] at h
            cases h
            refine ⟨L1, rfl, ?_⟩
            simp [strLen, declLenDispatch, argIsEllipsis] at h1
            obtain ⟨n', hn', rfl, _⟩ := strDeclMin_ok _ _ _ _ h1
            simp [argInt, asInt] at hn'
            subst hn'
            simp [reprLen]
      | some b =>
        simp only [lenCall, runScalar_single, str_len] at h
        split at h
        · cases h
        · cases h1 : strLen v {} (.v (.int a)) (.v (.int b)) with
          | error e => simp [h1] at h
          | ok L1 =>
            simp only [h1] at h
            cases h
            refine ⟨L1, rfl, ?_⟩
            simp [strLen, declLenDispatch, argIsEllipsis] at h1
            cases h2 : strDeclMin v {} (.v (.int a)) with
            | error e => simp [h2, bind, Except.bind] at h1
            | ok L2 =>
              simp [h2, bind, Except.bind] at h1
              obtain ⟨n', hn', rfl, _⟩ := strDeclMin_ok _ _ _ _ h2
              obtain ⟨m', hm', rfl, _⟩ := strDeclMax_ok _ _ _ _ h1
              simp [argInt, asInt] at hn' hm'
              subst hn' hm'
              simp [reprLen]


theorem stable_str (v : Option Str) (L : LenP) (al sub : Option Str) (pat : Option Pat) (k' : ScalarS)
    (h : runScalar (.str none {} none none none) (scalarCalls (.str v L al sub pat)) = .ok k') :
    ∃ L', k' = .str v L' al sub pat ∧ reprLen L' = reprLen L := by
  simp only [scalarCalls, runScalar_append, stage_str_call, bindE_ok] at h
  obtain ⟨k3, h', h4⟩ := bindE_eq_ok h
  obtain ⟨k2, h'', h3⟩ := bindE_eq_ok h'
  obtain ⟨k1, h1, h2⟩ := bindE_eq_ok h''
  rw [sinv_str_alphabet _ _ _ _ _ _ h1] at h2
  rw [sinv_str_contains _ _ _ _ _ _ h2] at h3
  rw [sinv_str_regex _ _ _ _ _ _ h3] at h4
  exact sinv_str_len _ _ _ _ _ _ h4

/-- …and the rebuilt schema prints the same (determinism of the text) -/
theorem repr_scalar_stable (k k' : ScalarS) (h : runScalar (freshOf k) (scalarCalls k) = .ok k') :
    reprScalar k' = reprScalar k := by
  cases k with
  | none => simp [freshOf, scalarCalls, runScalar] at h; rw [← h]
  | int v mn mx => rw [stable_int v mn mx k' h]
  | float v mn mx p d1 d2 =>
    obtain ⟨d1', d2', rfl⟩ := stable_float v mn mx p d1 d2 k' h
    simp [reprScalar]
  | str v L al sub pat =>
    obtain ⟨L', rfl, hL⟩ := stable_str v L al sub pat k' h
    simp [reprScalar, hL]
  | bool v =>
    cases v <;> simp [freshOf, scalarCalls, optCall, runScalar, declScalar] at h <;> rw [← h]
  | bytes v =>
    cases v <;> simp [freshOf, scalarCalls, optCall, runScalar, declScalar] at h <;> rw [← h]
  | datetime v =>
    cases v <;> simp [freshOf, scalarCalls, optCall, runScalar, declScalar] at h <;> rw [← h]
  | date v =>
    rcases v with _ | ⟨_ | _, i⟩ <;> simp [freshOf, scalarCalls, optCall, runScalar, declScalar] at h <;> rw [← h]
  | uuid4 v =>
    rcases v with _ | ⟨i, ver⟩
    · simp [freshOf, scalarCalls, optCall, runScalar] at h; rw [← h]
    · simp only [freshOf, scalarCalls, optCall, runScalar_single, declScalar] at h
      repeat' split at h
      all_goals (try (cases h; done))
      cases h; rfl

end D42
