/-
  C16 — a forwarding custom type is indistinguishable from the built-in it wraps.
-/
import D42.Model.Validate
import D42.Model.Gen
import D42.Model.Repr
import D42.Model.Subst
import D42.Model.Eq

namespace D42

/-- remove every custom wrapper -/
def erase : Schema → Schema
  | .scalar k => .scalar k
  | .listU L => .listU L
  | .listT t L => .listT (erase t) L
  | .listE lead es trail L => .listE lead (eraseList es) trail L
  | .dict none e => .dict none e
  | .dict (some fs) e => .dict (some (eraseFields fs)) e
  | .any none => .any none
  | .any (some ts) => .any (some (eraseList ts))
  | .alias n t => .alias n (erase t)
  | .custom t => erase t
where
  eraseList : List Schema → List Schema
    | [] => []
    | s :: ss => erase s :: eraseList ss
  eraseFields : List (PyKey × Bool × Schema) → List (PyKey × Bool × Schema)
    | [] => []
    | (k, o, s) :: fs => (k, o, erase s) :: eraseFields fs

theorem custom_validate (env : Env) (sub : Bool) (t : Schema) (v : PyVal) (p : Path) :
    validateP env sub (.custom t) v p = validateP env sub t v p := by simp [validateP]

theorem custom_represent (t : Schema) (ind : Nat) : represent (.custom t) ind = represent t ind := by
  simp [represent]

theorem custom_gen (env : Env) (t : Schema) : gen env (.custom t) = gen env t := by simp [gen]

theorem custom_subst_ok (env : Env) (t : Schema) (v : PyVal) :
    subst env (.custom t) v = (subst env t v).map Schema.custom := by
  simp [subst]
  cases subst env t v <;> rfl

theorem custom_pyEq (env : Env) (t u : Schema) : pyEq env (.custom t) (.custom u) = pyEq env t u := by
  simp [pyEq]

/-- errors compared modulo wrappers inside the alternatives a mismatch error lists -/
def eraseErr : Err → Err
  | .mismatch p a ts => .mismatch p a (erase.eraseList ts)
  | e => e

theorem minByLen_map {α β} (f : α → β) : ∀ (ws : List (List α)),
    minByLen (ws.map (List.map f)) = (minByLen ws).map f
  | [] => by simp [minByLen]
  | [x] => by simp [minByLen]
  | x :: y :: r => by
    have ih := minByLen_map f (y :: r)
    simp only [List.map_cons] at ih
    simp only [List.map_cons, minByLen, ih, List.length_map]
    split <;> rfl

theorem validateScalar_eraseErr (env : Env) (k : ScalarS) (a : PyVal) (p : Path) :
    (validateScalar env k a p).map eraseErr = validateScalar env k a p := by
  have h : ∀ e ∈ validateScalar env k a p, eraseErr e = e := by
    intro e he
    cases k with
    | str v L al sub pat =>
      cases a <;> (try (simp [validateScalar] at he; subst he; rfl))
      case str s =>
        simp only [validateScalar] at he
        have hl : ∀ e ∈ lenErrs L s.length p (.str s), eraseErr e = e := by
          intro e he
          rcases L with ⟨l, mn, mx⟩
          cases l <;> cases mn <;> cases mx <;> grind [lenErrs, eraseErr]
        cases v <;> cases pat <;> cases al <;> cases sub <;>
          grind [strErrs, strRest, strTail, eraseErr]
    | int v mn mx => cases v <;> cases mn <;> cases mx <;> grind [validateScalar, intBoundErrs, eraseErr]
    | float v mn mx prec d1 d2 => cases a <;> cases v <;> cases mn <;> cases mx <;> grind [validateScalar, floatBoundErrs, eraseErr]
    | none => cases a <;> grind [validateScalar, eraseErr]
    | bool v => cases v <;> cases a <;> grind [validateScalar, eraseErr]
    | bytes v => cases v <;> cases a <;> grind [validateScalar, eraseErr]
    | datetime v => cases v <;> cases a <;> grind [validateScalar, eraseErr]
    | uuid4 v => rcases v with _ | ⟨i, ver⟩ <;> cases a <;> grind [validateScalar, eraseErr]
    | date v => rcases v with _ | ⟨b, i⟩ <;> cases a <;> (try cases b) <;> grind [validateScalar, eraseErr]
  have : (validateScalar env k a p).map eraseErr = (validateScalar env k a p).map id :=
    List.map_congr_left (by simpa using h)
  simpa using this

theorem lenErrFirst_eraseErr (L : LenP) (n : Nat) (p : Path) (a : PyVal) (e : Err)
    (h : lenErrFirst L n p a = some e) : eraseErr e = e := by
  rcases L with ⟨l, mn, mx⟩
  cases l <;> cases mn <;> cases mx <;> grind [lenErrFirst, eraseErr]

theorem hasField_eraseFields (k : PyKey) : ∀ (fs : List (PyKey × Bool × Schema)),
    hasField k (erase.eraseFields fs) = hasField k fs
  | [] => rfl
  | (k', o, s) :: fs => by
    have ih := hasField_eraseFields k fs
    simp only [hasField] at ih ⊢
    simp [erase.eraseFields, ih]

theorem eraseList_length : ∀ (ss : List Schema), (erase.eraseList ss).length = ss.length
  | [] => rfl
  | _ :: ss => by simp [erase.eraseList, eraseList_length ss]

theorem eraseList_eq_nil (ss : List Schema) : erase.eraseList ss = [] ↔ ss = [] := by
  cases ss <;> simp [erase.eraseList]

theorem eraseList_isEmpty (ss : List Schema) : (erase.eraseList ss).isEmpty = ss.isEmpty := by
  cases ss <;> simp [erase.eraseList]

theorem map_isEmpty {α β} (f : α → β) (l : List α) : (l.map f).isEmpty = l.isEmpty := by
  cases l <;> rfl

mutual
/-- validating against the tree with every wrapper erased gives the same errors (same kinds, paths,
    actual values, parameters), up to the wrappers inside the alternatives a mismatch error lists -/
theorem erase_validate (env : Env) (sub : Bool) : ∀ (s : Schema) (a : PyVal) (p : Path),
    validateP env sub (erase s) a p = (validateP env sub s a p).map eraseErr
  | .scalar k, a, p => by simp [erase, validateP, validateScalar_eraseErr]
  | .listU L, a, p => by
    cases a <;> simp [erase, validateP, eraseErr]
    case list xs =>
      cases h : lenErrFirst L xs.length p (.list xs) with
      | none => simp
      | some e => simp [lenErrFirst_eraseErr L _ p _ e h]
  | .listT t L, a, p => by
    cases a <;> simp [erase, validateP, eraseErr]
    case list xs =>
      cases h : lenErrFirst L xs.length p (.list xs) with
      | none => simp [erase_validateAll env sub t]
      | some e => simp [lenErrFirst_eraseErr L _ p _ e h]
  | .listE lead es trail L, a, p => by
    cases a <;> simp [erase, validateP, eraseErr]
    case list xs =>
      cases h : lenErrFirst L xs.length p (.list xs) with
      | some e => simp [lenErrFirst_eraseErr L _ p _ e h]
      | none =>
        simp only [eraseList_isEmpty, eraseList_eq_nil, eraseList_length, erase_validateElems env sub es,
          erase_windows env sub es, minByLen_map]
        repeat' split
        all_goals (first | rfl | simp [extraElems, eraseErr, Function.comp_def] | (trace_state; fail))
  | .dict none _, a, p => by cases a <;> simp [erase, validateP, eraseErr]
  | .dict (some fs) ell, a, p => by
    cases a <;> simp [erase, validateP, eraseErr]
    case dict kvs =>
      simp only [erase_validateFields env sub fs, hasField_eraseFields]
      cases ell <;> simp [eraseErr, Function.comp_def]
  | .any none, _, _ => by simp [erase, validateP]
  | .any (some ts), a, p => by
    simp only [erase, validateP, erase_anyOk env sub ts]
    split <;> simp [eraseErr]
  | .alias _ t, a, p => by simp [erase, validateP, erase_validate env sub t]
  | .custom t, a, p => by simp [erase, validateP, erase_validate env sub t]
theorem erase_validateAll (env : Env) (sub : Bool) (t : Schema) : ∀ (xs : List PyVal) (i n : Nat) (p : Path),
    validateAllP env sub (erase t) xs i n p = (validateAllP env sub t xs i n p).map eraseErr
  | [], _, _, _ => by simp [validateAllP]
  | x :: xs, i, n, p => by
    simp only [validateAllP, erase_validate env sub t, erase_validateAll env sub t xs, List.map_append]
    split <;> simp
theorem erase_validateElems (env : Env) (sub : Bool) : ∀ (ss : List Schema) (xs : List PyVal) (i : Nat) (a : PyVal) (p : Path),
    validateElemsP env sub (erase.eraseList ss) xs i a p = (validateElemsP env sub ss xs i a p).map eraseErr
  | [], _, _, _, _ => by simp [erase.eraseList, validateElemsP]
  | _ :: _, [], _, _, _ => by simp [erase.eraseList, validateElemsP, eraseErr]
  | s :: ss, x :: xs, i, a, p => by
    simp [erase.eraseList, validateElemsP, erase_validate env sub s, erase_validateElems env sub ss xs]
theorem erase_windows (env : Env) (sub : Bool) (elems : List Schema) : ∀ (xs : List PyVal) (i n : Nat) (a : PyVal) (p : Path),
    windowsP env sub (erase.eraseList elems) xs i n a p = (windowsP env sub elems xs i n a p).map (List.map eraseErr)
  | [], _, _, _, _ => by simp [windowsP]
  | x :: xs, i, n, a, p => by
    simp [windowsP, erase_validateElems env sub elems, erase_windows env sub elems xs]
theorem erase_validateFields (env : Env) (sub : Bool) : ∀ (fs : List (PyKey × Bool × Schema)) (kvs : List (PyKey × PyVal)) (a : PyVal) (p : Path),
    validateFieldsP env sub (erase.eraseFields fs) kvs a p = (validateFieldsP env sub fs kvs a p).map eraseErr
  | [], _, _, _ => by simp [erase.eraseFields, validateFieldsP]
  | (k, opt, s) :: fs, kvs, a, p => by
    simp only [erase.eraseFields, validateFieldsP, erase_validate env sub s, erase_validateFields env sub fs, List.map_append]
    cases lookupKey k kvs with
    | none => simp; split <;> simp [eraseErr]
    | some x => simp; split <;> simp
theorem erase_anyOk (env : Env) (sub : Bool) : ∀ (ss : List Schema) (a : PyVal) (p : Path),
    anyOkP env sub (erase.eraseList ss) a p = anyOkP env sub ss a p
  | [], _, _ => by simp [erase.eraseList, anyOkP]
  | s :: ss, a, p => by
    simp [erase.eraseList, anyOkP, erase_validate env sub s, erase_anyOk env sub ss, map_isEmpty]
end

end D42
