/-
  C07 — umbrella: history / observation stability of the model, and purity from the write sites of the source.
-/
import D42.Props.C07
import D42.Props.C07Effects
