/-
  C17 — umbrella: generation is a function of schemas and answers (model), and the sources of entropy in the source are the listed ones.
-/
import D42.Props.C17
import D42.Props.C17Entropy
