/- C18 (statements are being added) -/
import D42.Model.Rollout
