/-
  C18 — rollout is the inverse of flattening separator-joined keys.
-/
import D42.Model.Rollout

namespace D42

/-- nested mappings with string keys; `optional(...)` may wrap the keys of leaves only -/
inductive Tree where
  | leaf (payload : Nat)
  | node (kids : List (Str × Bool × Tree))       -- (key, wrapped in optional, subtree)
deriving Repr, Inhabited

/-- the mapping as `rollout` returns it -/
def Tree.toRVal : Tree → RVal
  | .leaf p => .leaf p
  | .node kids => .dict (toKVs kids)
where
  toKVs : List (Str × Bool × Tree) → List (RKey × RVal)
    | [] => []
    | (k, o, t) :: r => (.str k o, t.toRVal) :: toKVs r

/-- flattening: every leaf under the separator-joined path of its keys (depth-first, in key order) -/
def flattenKids (sep : Str) : List (Str × Bool × Tree) → List (RKey × RVal)
  | [] => []
  | (k, o, .leaf p) :: r => (.str k o, .leaf p) :: flattenKids sep r
  | (k, _, .node kids) :: r =>
    (flattenKids sep kids).map (fun kv => match kv.1 with
      | .str s o => (RKey.str (k ++ sep ++ s) o, kv.2)
      | other => (other, kv.2)) ++ flattenKids sep r

/-- a key is *separator-safe*: it does not contain the separator, and appending the separator does not
    create an earlier occurrence (always true for single-character separators absent from the key;
    false e.g. for key "x:" with separator "::" — finding K9) -/
def SepSafe (sep k : Str) : Prop := ∀ u : Str, splitFirst sep (k ++ sep ++ u) = some (k, u)

def NoSep (sep k : Str) : Prop := splitFirst sep k = none

mutual
/-- well-formed tree: keys of one node are distinct, separator-free and separator-safe; inner nodes are
    non-empty and their own key is not wrapped in `optional` -/
def WFTree (sep : Str) : Tree → Prop
  | .leaf _ => True
  | .node kids => kids ≠ [] ∧ ((kids.map (·.1)).Nodup) ∧ WFKids sep kids
def WFKids (sep : Str) : List (Str × Bool × Tree) → Prop
  | [] => True
  | (k, o, t) :: r => NoSep sep k ∧ SepSafe sep k ∧ (match t with | .leaf _ => True | .node _ => o = false) ∧
      WFTree sep t ∧ WFKids sep r
end

/-! ### theorems -/

/-- `splitFirst` finds an occurrence: the string is head ++ sep ++ tail -/
theorem splitFirst_some (sep s h t : Str) (hs : sep ≠ []) (h1 : splitFirst sep s = some (h, t)) :
    s = h ++ sep ++ t := by
  induction s generalizing h t with
  | nil => simp [splitFirst, hs] at h1
  | cons c r ih =>
    simp only [splitFirst] at h1
    split at h1
    · rename_i hp
      obtain ⟨u, hu⟩ := List.isPrefixOf_iff_prefix.mp hp
      simp at h1; obtain ⟨rfl, rfl⟩ := h1
      rw [← hu]; simp
    · cases h2 : splitFirst sep r with
      | none => simp [h2] at h1
      | some ht =>
        simp [h2] at h1
        obtain ⟨rfl, rfl⟩ := h1
        have := ih _ _ h2
        simp [this]

theorem splitFirst_none_iff (sep s : Str) (hs : sep ≠ []) : splitFirst sep s = none ↔ ¬ sep <:+: s := by
  induction s with
  | nil => simp [splitFirst, hs]
  | cons c r ih =>
    simp only [splitFirst, List.infix_cons_iff]
    split
    · rename_i hp
      simp [List.isPrefixOf_iff_prefix.mp hp]
    · rename_i hp
      have : ¬ sep <+: c :: r := fun h => hp (List.isPrefixOf_iff_prefix.mpr h)
      simp [this, ih]

/-! ### helper lemmas -/

theorem rlookup_none_iff (k : RKey) (d : List (RKey × RVal)) :
    rlookup k d = none ↔ ∀ kv ∈ d, kv.1 ≠ k := by
  induction d with
  | nil => simp [rlookup]
  | cons kv r ih =>
    obtain ⟨k', v⟩ := kv
    simp only [rlookup]
    split
    · rename_i h; subst h; simp
    · rename_i h; simp [ih]; exact fun _ e => h e.symm

theorem rlookup_append_none (k : RKey) (a b : List (RKey × RVal)) (h : rlookup k a = none) :
    rlookup k (a ++ b) = rlookup k b := by
  induction a with
  | nil => rfl
  | cons kv r ih =>
    obtain ⟨k', v⟩ := kv
    simp only [rlookup, List.cons_append] at h ⊢
    split at h
    · cases h
    · rename_i hne; simp [hne, ih h]

theorem rupsert_fresh (k : RKey) (v : RVal) (d : List (RKey × RVal)) (h : rlookup k d = none) :
    rupsert d k v = d ++ [(k, v)] := by
  simp [rupsert, h]

theorem map_repl_self (k : RKey) (v : RVal) (a : List (RKey × RVal)) (h : rlookup k a = none) :
    a.map (fun kv => if kv.1 = k then (k, v) else kv) = a := by
  induction a with
  | nil => rfl
  | cons kv r ih =>
    obtain ⟨k', v'⟩ := kv
    simp only [rlookup] at h
    split at h
    · cases h
    · rename_i hne
      have : ¬ k' = k := fun e => hne e.symm
      simp [this, ih h]

theorem rupsert_last (k : RKey) (v v' : RVal) (a : List (RKey × RVal)) (h : rlookup k a = none) :
    rupsert (a ++ [(k, v)]) k v' = a ++ [(k, v')] := by
  simp [rupsert, rlookup_append_none k a _ h, rlookup, map_repl_self k v' a h]

theorem pass_append (sep : Str) : ∀ (A B upd u : List (RKey × RVal)),
    rolloutPass sep upd A = .ok u → rolloutPass sep upd (A ++ B) = rolloutPass sep u B := by
  intro A
  induction A with
  | nil => intro B upd u h; simp [rolloutPass] at h; subst h; rfl
  | cons kv r ih =>
    intro B upd u h
    simp only [rolloutPass, List.cons_append] at h ⊢
    cases h1 : rolloutStep sep upd kv with
    | error e => simp [h1, bind, Except.bind] at h
    | ok u1 =>
      simp only [h1, bind, Except.bind] at h ⊢
      exact ih B u1 u h

def pref (sep k : Str) : RKey × RVal → RKey × RVal := fun kv => match kv.1 with
  | .str s o => (RKey.str (k ++ sep ++ s) o, kv.2)
  | other => (other, kv.2)

theorem flattenKids_node (sep k : Str) (o : Bool) (kids : List (Str × Bool × Tree)) (r) :
    flattenKids sep ((k, o, .node kids) :: r) = (flattenKids sep kids).map (pref sep k) ++ flattenKids sep r := by
  rw [flattenKids]; rfl

def headOf (sep s : Str) : Str := match splitFirst sep s with
  | none => s
  | some (h, _) => h

theorem headOf_noSep {sep k : Str} (h : NoSep sep k) : headOf sep k = k := by
  simp [headOf, show splitFirst sep k = none from h]

theorem headOf_sepSafe {sep k : Str} (h : SepSafe sep k) (u : Str) : headOf sep (k ++ sep ++ u) = k := by
  simp only [headOf, h u]

theorem flat_keys (sep : Str) : ∀ kids, WFKids sep kids → ∀ kv ∈ flattenKids sep kids,
    ∃ s o, kv.1 = RKey.str s o ∧ headOf sep s ∈ kids.map (·.1)
  | [], _, kv, h => by simp [flattenKids] at h
  | (k, o, .leaf p) :: r, hw, kv, h => by
    simp only [WFKids] at hw
    simp only [flattenKids, List.mem_cons] at h
    rcases h with rfl | h
    · exact ⟨k, o, rfl, by simp [headOf_noSep hw.1]⟩
    · obtain ⟨s, o', e, hm⟩ := flat_keys sep r hw.2.2.2.2 kv h
      exact ⟨s, o', e, by simp at hm ⊢; exact Or.inr hm⟩
  | (k, o, .node kids') :: r, hw, kv, h => by
    simp only [WFKids, WFTree] at hw
    rw [flattenKids_node, List.mem_append, List.mem_map] at h
    rcases h with ⟨kv0, h0, rfl⟩ | h
    · obtain ⟨s, o', e, _⟩ := flat_keys sep kids' hw.2.2.2.1.2.2 kv0 h0
      refine ⟨k ++ sep ++ s, o', by simp [pref, e], ?_⟩
      rw [headOf_sepSafe hw.2.1]; simp
    · obtain ⟨s, o', e, hm⟩ := flat_keys sep r hw.2.2.2.2 kv h
      exact ⟨s, o', e, by simp at hm ⊢; exact Or.inr hm⟩

def AllStr (L : List (RKey × RVal)) : Prop := ∀ kv ∈ L, ∃ s o, kv.1 = RKey.str s o

theorem flat_allStr (sep : Str) (kids) (hw : WFKids sep kids) : AllStr (flattenKids sep kids) := by
  intro kv h
  obtain ⟨s, o, e, _⟩ := flat_keys sep kids hw kv h
  exact ⟨s, o, e⟩

theorem flat_ne (sep : Str) : ∀ kids, WFKids sep kids → kids ≠ [] → flattenKids sep kids ≠ []
  | [], _, h => by simp at h
  | (k, o, .leaf p) :: r, _, _ => by simp [flattenKids]
  | (k, o, .node kids') :: r, hw, _ => by
    simp only [WFKids, WFTree] at hw
    have := flat_ne sep kids' hw.2.2.2.1.2.2 hw.2.2.2.1.1
    rw [flattenKids_node]
    simp [this]

theorem pref_nodup (sep k : Str) : ∀ L : List (RKey × RVal), AllStr L → (L.map (·.1)).Nodup →
    ((L.map (pref sep k)).map (·.1)).Nodup := by
  intro L
  induction L with
  | nil => simp
  | cons kv r ih =>
    intro ha hn
    simp only [List.map_cons, List.nodup_cons] at hn ⊢
    have har : AllStr r := fun x hx => ha x (List.mem_cons_of_mem _ hx)
    refine ⟨?_, ih har hn.2⟩
    intro hm
    simp only [List.mem_map] at hm
    obtain ⟨_, ⟨kv', hkv', rfl⟩, e⟩ := hm
    obtain ⟨s, o, e1⟩ := ha kv (List.mem_cons_self ..)
    obtain ⟨s', o', e2⟩ := har kv' hkv'
    apply hn.1
    simp only [List.mem_map]
    refine ⟨kv', hkv', ?_⟩
    simp [pref, e1, e2] at e
    rw [e1, e2, e.1, e.2]

theorem flat_nodup (sep : Str) : ∀ kids, WFKids sep kids → (kids.map (·.1)).Nodup →
    ((flattenKids sep kids).map (·.1)).Nodup
  | [], _, _ => by simp [flattenKids]
  | (k, o, .leaf p) :: r, hw, hn => by
    simp only [WFKids] at hw
    simp only [List.map_cons, List.nodup_cons, flattenKids] at hn ⊢
    refine ⟨?_, flat_nodup sep r hw.2.2.2.2 hn.2⟩
    intro hm
    simp only [List.mem_map] at hm
    obtain ⟨kv, hkv, e⟩ := hm
    obtain ⟨s, o', e', hh⟩ := flat_keys sep r hw.2.2.2.2 kv hkv
    rw [e'] at e
    injection e with e1 e2
    subst e1
    rw [headOf_noSep hw.1] at hh
    exact hn.1 hh
  | (k, o, .node kids') :: r, hw, hn => by
    simp only [WFKids, WFTree] at hw
    simp only [List.map_cons, List.nodup_cons] at hn
    rw [flattenKids_node, List.map_append, List.nodup_append]
    refine ⟨pref_nodup sep k _ (flat_allStr sep kids' hw.2.2.2.1.2.2)
        (flat_nodup sep kids' hw.2.2.2.1.2.2 hw.2.2.2.1.2.1), flat_nodup sep r hw.2.2.2.2 hn.2, ?_⟩
    intro a ha b hb e
    subst e
    simp only [List.mem_map] at ha hb
    obtain ⟨_, ⟨kv0, h0, rfl⟩, ea⟩ := ha
    obtain ⟨kv, hkv, eb⟩ := hb
    obtain ⟨s0, o0, e0, _⟩ := flat_keys sep kids' hw.2.2.2.1.2.2 kv0 h0
    obtain ⟨s, o', e', hh⟩ := flat_keys sep r hw.2.2.2.2 kv hkv
    have : (pref sep k kv0).1 = RKey.str (k ++ sep ++ s0) o0 := by simp [pref, e0]
    rw [← ea, e', this] at eb
    injection eb with e1 e2
    subst e1
    rw [headOf_sepSafe hw.2.1] at hh
    exact hn.1 hh

theorem pass_inner (sep k : Str) (hk : SepSafe sep k) : ∀ (L d upd0 : List (RKey × RVal)),
    rlookup (.str k false) upd0 = none → AllStr L → ((d ++ L).map (·.1)).Nodup →
    rolloutPass sep (upd0 ++ [(.str k false, .dict d)]) (L.map (pref sep k))
      = .ok (upd0 ++ [(.str k false, .dict (d ++ L))]) := by
  intro L
  induction L with
  | nil => intro d upd0 _ _ _; simp [rolloutPass]
  | cons kv r ih =>
    intro d upd0 h0 ha hn
    obtain ⟨s, o, e1⟩ := ha kv (List.mem_cons_self ..)
    obtain ⟨k1, v⟩ := kv
    simp only at e1
    subst e1
    have har : AllStr r := fun x hx => ha x (List.mem_cons_of_mem _ hx)
    have hfresh : rlookup (.str s o) d = none := by
      rw [rlookup_none_iff]
      intro kv hkv e
      rw [List.map_append, List.nodup_append] at hn
      exact hn.2.2 kv.1 (List.mem_map_of_mem hkv) (.str s o) (by simp) e
    have hstep : rolloutStep sep (upd0 ++ [(.str k false, .dict d)]) (pref sep k (.str s o, v))
        = .ok (upd0 ++ [(.str k false, .dict (d ++ [(.str s o, v)]))]) := by
      simp only [pref, rolloutStep, hk s, rlookup_append_none _ _ _ h0, rlookup, if_true]
      rw [rupsert_last _ _ _ _ h0, rupsert_fresh _ _ _ hfresh]
    simp only [List.map_cons, rolloutPass, hstep, bind, Except.bind]
    have := ih (d ++ [(RKey.str s o, v)]) upd0 h0 har (by simpa using hn)
    rw [this]; simp

theorem pass_node (sep k : Str) (hk : SepSafe sep k) (L upd : List (RKey × RVal)) (hne : L ≠ [])
    (h0 : rlookup (.str k false) upd = none) (ha : AllStr L) (hn : (L.map (·.1)).Nodup) :
    rolloutPass sep upd (L.map (pref sep k)) = .ok (upd ++ [(.str k false, .dict L)]) := by
  cases L with
  | nil => simp at hne
  | cons kv r =>
    obtain ⟨s, o, e1⟩ := ha kv (List.mem_cons_self ..)
    obtain ⟨k1, v⟩ := kv
    simp only at e1
    subst e1
    have har : AllStr r := fun x hx => ha x (List.mem_cons_of_mem _ hx)
    have hstep : rolloutStep sep upd (pref sep k (.str s o, v))
        = .ok (upd ++ [(.str k false, .dict [(.str s o, v)])]) := by
      simp only [pref, rolloutStep, hk s, h0]
    simp only [List.map_cons, rolloutPass, hstep, bind, Except.bind]
    have := pass_inner sep k hk r [(RKey.str s o, v)] upd h0 har (by simpa using hn)
    rw [this]; simp

def level1 (sep : Str) : List (Str × Bool × Tree) → List (RKey × RVal)
  | [] => []
  | (k, o, .leaf p) :: r => (.str k o, .leaf p) :: level1 sep r
  | (k, _, .node kids) :: r => (.str k false, .dict (flattenKids sep kids)) :: level1 sep r

theorem pass_flat (sep : Str) : ∀ (kids : List (Str × Bool × Tree)) (upd : List (RKey × RVal)),
    WFKids sep kids → (kids.map (·.1)).Nodup →
    (∀ k ∈ kids.map (·.1), ∀ o, rlookup (.str k o) upd = none) →
    rolloutPass sep upd (flattenKids sep kids) = .ok (upd ++ level1 sep kids)
  | [], upd, _, _, _ => by simp [flattenKids, level1, rolloutPass]
  | (k, o, .leaf p) :: r, upd, hw, hn, hf => by
    simp only [WFKids] at hw
    simp only [List.map_cons, List.nodup_cons] at hn
    have hstep : rolloutStep sep upd (.str k o, .leaf p) = .ok (upd ++ [(.str k o, .leaf p)]) := by
      simp only [rolloutStep, show splitFirst sep k = none from hw.1]
      rw [rupsert_fresh _ _ _ (hf k (by simp) o)]
    simp only [flattenKids, level1, rolloutPass, hstep, bind, Except.bind]
    rw [pass_flat sep r _ hw.2.2.2.2 hn.2]
    · simp
    · intro k2 hk2 o2
      rw [rlookup_append_none _ _ _ (hf k2 (List.mem_cons_of_mem _ hk2) o2)]
      have : k2 ≠ k := fun e => hn.1 (e ▸ hk2)
      simp [rlookup, this]
  | (k, o, .node kids') :: r, upd, hw, hn, hf => by
    simp only [WFKids, WFTree] at hw
    simp only [List.map_cons, List.nodup_cons] at hn
    have hwk := hw.2.2.2.1.2.2
    rw [flattenKids_node, pass_append sep _ _ upd _
      (pass_node sep k hw.2.1 _ upd (flat_ne sep kids' hwk hw.2.2.2.1.1) (hf k (by simp) false)
        (flat_allStr sep kids' hwk) (flat_nodup sep kids' hwk hw.2.2.2.1.2.1))]
    rw [pass_flat sep r _ hw.2.2.2.2 hn.2]
    · simp [level1]
    · intro k2 hk2 o2
      rw [rlookup_append_none _ _ _ (hf k2 (List.mem_cons_of_mem _ hk2) o2)]
      have : k2 ≠ k := fun e => hn.1 (e ▸ hk2)
      simp [rlookup, this]

def recF (sep : Str) (f : Nat) : RKey × RVal → Except PyExc (RKey × RVal) := fun kv => match kv.2 with
  | .dict d => do let d' ← rolloutF sep f d; pure (kv.1, RVal.dict d')
  | v => pure (kv.1, v)

theorem rolloutF_succ (sep : Str) (hs : sep ≠ []) (f : Nat) (kvs : List (RKey × RVal)) :
    rolloutF sep (f + 1) kvs = (rolloutPass sep [] kvs >>= fun upd => upd.mapM (recF sep f)) := by
  rw [rolloutF]
  simp only [List.isEmpty_iff, hs, if_false]
  rfl

def tdepthK : List (Str × Bool × Tree) → Nat
  | [] => 0
  | (_, _, .leaf _) :: r => tdepthK r
  | (_, _, .node kids) :: r => max (1 + tdepthK kids) (tdepthK r)

theorem flatF_of (sep : Str) (hs : sep ≠ []) (kids : List (Str × Bool × Tree)) (f : Nat)
    (hw : WFKids sep kids) (hn : (kids.map (·.1)).Nodup)
    (hm : (level1 sep kids).mapM (recF sep f) = .ok (Tree.toRVal.toKVs kids)) :
    rolloutF sep (f + 1) (flattenKids sep kids) = .ok (Tree.toRVal.toKVs kids) := by
  rw [rolloutF_succ sep hs, pass_flat sep kids [] hw hn (by simp [rlookup])]
  simpa [bind, Except.bind] using hm

theorem mapM_level1 (sep : Str) (hs : sep ≠ []) : ∀ (kids : List (Str × Bool × Tree)) (f : Nat),
    WFKids sep kids → tdepthK kids ≤ f →
    (level1 sep kids).mapM (recF sep f) = .ok (Tree.toRVal.toKVs kids)
  | [], f, _, _ => by simp [level1, Tree.toRVal.toKVs, pure, Except.pure]
  | (k, o, .leaf p) :: r, f, hw, hd => by
    simp only [WFKids] at hw
    simp only [tdepthK] at hd
    simp only [level1, List.mapM_cons, Tree.toRVal.toKVs, Tree.toRVal, mapM_level1 sep hs r f hw.2.2.2.2 hd]
    simp [recF, bind, Except.bind, pure, Except.pure]
  | (k, o, .node kids') :: r, f, hw, hd => by
    simp only [WFKids, WFTree] at hw
    simp only [tdepthK] at hd
    cases f with
    | zero => omega
    | succ f' =>
      have h1 := flatF_of sep hs kids' f' hw.2.2.2.1.2.2 hw.2.2.2.1.2.1
        (mapM_level1 sep hs kids' f' hw.2.2.2.1.2.2 (by omega))
      simp only [level1, List.mapM_cons, Tree.toRVal.toKVs, Tree.toRVal,
        mapM_level1 sep hs r (f' + 1) hw.2.2.2.2 (by omega)]
      simp [recF, h1, bind, Except.bind, pure, Except.pure, hw.2.2.1]

theorem rsizeL_append (A B : List (RKey × RVal)) :
    rsize.rsizeL (A ++ B) = rsize.rsizeL A + rsize.rsizeL B := by
  induction A with
  | nil => simp [rsize.rsizeL]
  | cons kv r ih => obtain ⟨k, v⟩ := kv; simp only [List.cons_append, rsize.rsizeL, ih]; omega

theorem rsizeL_pref_le (sep k : Str) (L : List (RKey × RVal)) :
    rsize.rsizeL L ≤ rsize.rsizeL (L.map (pref sep k)) := by
  induction L with
  | nil => simp
  | cons kv r ih =>
    obtain ⟨k1, v⟩ := kv
    cases k1 <;> simp only [List.map_cons, pref, rsize.rsizeL, List.length_append] <;> omega

theorem rsizeL_pref_lt (sep k : Str) (hs : sep ≠ []) (L : List (RKey × RVal)) (hne : L ≠ []) (ha : AllStr L) :
    rsize.rsizeL L + 1 ≤ rsize.rsizeL (L.map (pref sep k)) := by
  cases L with
  | nil => simp at hne
  | cons kv r =>
    obtain ⟨s, o, e1⟩ := ha kv (List.mem_cons_self ..)
    obtain ⟨k1, v⟩ := kv
    simp only at e1
    subst e1
    have := rsizeL_pref_le sep k r
    have : 0 < sep.length := List.length_pos_iff.mpr hs
    simp only [List.map_cons, pref, rsize.rsizeL, List.length_append]
    omega

theorem depth_le_flat (sep : Str) (hs : sep ≠ []) : ∀ kids : List (Str × Bool × Tree), WFKids sep kids →
    tdepthK kids ≤ rsize.rsizeL (flattenKids sep kids)
  | [], _ => by simp [tdepthK]
  | (k, o, .leaf p) :: r, hw => by
    simp only [WFKids] at hw
    have := depth_le_flat sep hs r hw.2.2.2.2
    simp only [tdepthK, flattenKids, rsize.rsizeL]; omega
  | (k, o, .node kids') :: r, hw => by
    simp only [WFKids, WFTree] at hw
    have h1 := depth_le_flat sep hs r hw.2.2.2.2
    have h2 := depth_le_flat sep hs kids' hw.2.2.2.1.2.2
    have h3 := rsizeL_pref_lt sep k hs _ (flat_ne sep kids' hw.2.2.2.1.2.2 hw.2.2.2.1.1)
      (flat_allStr sep kids' hw.2.2.2.1.2.2)
    rw [flattenKids_node, rsizeL_append]
    simp only [tdepthK]; omega

theorem rolloutF_flatten (sep : Str) (hs : sep ≠ []) (kids : List (Str × Bool × Tree))
    (hw : WFTree sep (.node kids)) (f : Nat) (hf : tdepthK kids ≤ f) :
    rolloutF sep (f + 1) (flattenKids sep kids) = .ok (Tree.toRVal.toKVs kids) := by
  simp only [WFTree] at hw
  exact flatF_of sep hs kids f hw.2.2 hw.2.1 (mapM_level1 sep hs kids f hw.2.2 hf)

/-- **C18 (inverse).** flattening a well-formed nested mapping and rolling it out gives the mapping back:
    same nesting, leaf payloads untouched, `optional` on the same leaves -/
theorem rollout_flatten (sep : Str) (hs : sep ≠ []) (kids : List (Str × Bool × Tree))
    (hw : WFTree sep (.node kids)) :
    rollout sep (flattenKids sep kids) = .ok (Tree.toRVal.toKVs kids) := by
  have hd := depth_le_flat sep hs kids (by simp only [WFTree] at hw; exact hw.2.2)
  unfold rollout
  simp only [rsize]
  exact rolloutF_flatten sep hs kids hw _ (by omega)

theorem level1_allStr (sep : Str) : ∀ kids : List (Str × Bool × Tree), AllStr (level1 sep kids)
  | [] => by simp [AllStr, level1]
  | (k, o, .leaf p) :: r => by
    intro kv h
    simp only [level1, List.mem_cons] at h
    rcases h with rfl | h
    · exact ⟨k, o, rfl⟩
    · exact level1_allStr sep r kv h
  | (k, o, .node kids') :: r => by
    intro kv h
    simp only [level1, List.mem_cons] at h
    rcases h with rfl | h
    · exact ⟨k, false, rfl⟩
    · exact level1_allStr sep r kv h

/-- a top-level `...: ...` entry passes through -/
theorem rollout_flatten_ell (sep : Str) (hs : sep ≠ []) (kids : List (Str × Bool × Tree))
    (hw : WFTree sep (.node kids)) :
    rollout sep (flattenKids sep kids ++ [(.ell, .ell)]) = .ok (Tree.toRVal.toKVs kids ++ [(.ell, .ell)]) := by
  have hw' := hw
  simp only [WFTree] at hw'
  have hd := depth_le_flat sep hs kids hw'.2.2
  have hl : rlookup .ell (level1 sep kids) = none := by
    rw [rlookup_none_iff]
    intro kv hkv e
    obtain ⟨s, o, e'⟩ := level1_allStr sep kids kv hkv
    rw [e] at e'; cases e'
  unfold rollout
  simp only [rsize, rsizeL_append]
  have : ∀ f, tdepthK kids ≤ f → rolloutF sep (f + 1) (flattenKids sep kids ++ [(.ell, .ell)])
      = .ok (Tree.toRVal.toKVs kids ++ [(.ell, .ell)]) := by
    intro f hf
    rw [rolloutF_succ sep hs, pass_append sep _ _ [] _
      (pass_flat sep kids [] hw'.2.2 hw'.2.1 (by simp [rlookup]))]
    simp only [List.nil_append, rolloutPass, rolloutStep, rupsert_fresh _ _ _ hl, bind, Except.bind]
    rw [List.mapM_append, mapM_level1 sep hs kids f hw'.2.2 hf]
    simp [recF, bind, Except.bind, pure, Except.pure]
  exact this _ (by omega)

theorem pass_id (sep : Str) : ∀ (kids : List (Str × Bool × Tree)) (upd : List (RKey × RVal)),
    WFKids sep kids → (kids.map (·.1)).Nodup →
    (∀ k ∈ kids.map (·.1), ∀ o, rlookup (.str k o) upd = none) →
    rolloutPass sep upd (Tree.toRVal.toKVs kids) = .ok (upd ++ Tree.toRVal.toKVs kids)
  | [], upd, _, _, _ => by simp [Tree.toRVal.toKVs, rolloutPass]
  | (k, o, t) :: r, upd, hw, hn, hf => by
    simp only [WFKids] at hw
    simp only [List.map_cons, List.nodup_cons] at hn
    have hstep : rolloutStep sep upd (.str k o, t.toRVal) = .ok (upd ++ [(.str k o, t.toRVal)]) := by
      simp only [rolloutStep, show splitFirst sep k = none from hw.1]
      rw [rupsert_fresh _ _ _ (hf k (by simp) o)]
    simp only [Tree.toRVal.toKVs, rolloutPass, hstep, bind, Except.bind]
    rw [pass_id sep r _ hw.2.2.2.2 hn.2]
    · simp
    · intro k2 hk2 o2
      rw [rlookup_append_none _ _ _ (hf k2 (List.mem_cons_of_mem _ hk2) o2)]
      have : k2 ≠ k := fun e => hn.1 (e ▸ hk2)
      simp [rlookup, this]

theorem mapM_id (sep : Str) (hs : sep ≠ []) : ∀ (kids : List (Str × Bool × Tree)) (f : Nat),
    WFKids sep kids → tdepthK kids ≤ f →
    (Tree.toRVal.toKVs kids).mapM (recF sep f) = .ok (Tree.toRVal.toKVs kids)
  | [], f, _, _ => by simp [Tree.toRVal.toKVs, pure, Except.pure]
  | (k, o, .leaf p) :: r, f, hw, hd => by
    simp only [WFKids] at hw
    simp only [tdepthK] at hd
    simp only [List.mapM_cons, Tree.toRVal.toKVs, Tree.toRVal, mapM_id sep hs r f hw.2.2.2.2 hd]
    simp [recF, bind, Except.bind, pure, Except.pure]
  | (k, o, .node kids') :: r, f, hw, hd => by
    simp only [WFKids, WFTree] at hw
    simp only [tdepthK] at hd
    cases f with
    | zero => omega
    | succ f' =>
      have h1 : rolloutF sep (f' + 1) (Tree.toRVal.toKVs kids') = .ok (Tree.toRVal.toKVs kids') := by
        rw [rolloutF_succ sep hs, pass_id sep kids' [] hw.2.2.2.1.2.2 hw.2.2.2.1.2.1 (by simp [rlookup])]
        simpa [bind, Except.bind] using mapM_id sep hs kids' f' hw.2.2.2.1.2.2 (by omega)
      simp only [List.mapM_cons, Tree.toRVal.toKVs, Tree.toRVal,
        mapM_id sep hs r (f' + 1) hw.2.2.2.2 (by omega)]
      simp [recF, h1, bind, Except.bind, pure, Except.pure]

theorem depth_le_id : ∀ kids : List (Str × Bool × Tree),
    tdepthK kids ≤ rsize.rsizeL (Tree.toRVal.toKVs kids)
  | [] => by simp [tdepthK]
  | (k, o, .leaf p) :: r => by
    have := depth_le_id r
    simp only [tdepthK, Tree.toRVal.toKVs, rsize.rsizeL]; omega
  | (k, o, .node kids') :: r => by
    have h1 := depth_le_id r
    have h2 := depth_le_id kids'
    simp only [tdepthK, Tree.toRVal.toKVs, Tree.toRVal, rsize.rsizeL, rsize]; omega

theorem rolloutF_id (sep : Str) (hs : sep ≠ []) (kids : List (Str × Bool × Tree))
    (hw : WFTree sep (.node kids)) (f : Nat) (hf : tdepthK kids ≤ f) :
    rolloutF sep (f + 1) (Tree.toRVal.toKVs kids) = .ok (Tree.toRVal.toKVs kids) := by
  simp only [WFTree] at hw
  rw [rolloutF_succ sep hs, pass_id sep kids [] hw.2.2 hw.2.1 (by simp [rlookup])]
  simpa [bind, Except.bind] using mapM_id sep hs kids f hw.2.2 hf

/-- **C18 (identity).** rollout of an already nested mapping whose keys contain no separator is the identity -/
theorem rollout_id (sep : Str) (hs : sep ≠ []) (kids : List (Str × Bool × Tree))
    (hw : WFTree sep (.node kids)) :
    rollout sep (Tree.toRVal.toKVs kids) = .ok (Tree.toRVal.toKVs kids) := by
  have hd := depth_le_id kids
  unfold rollout
  simp only [rsize]
  exact rolloutF_id sep hs kids hw _ (by omega)

/-- a single-character separator that does not occur in the key is safe (the default "." case) -/
theorem sepSafe_of_single_char (c : Nat) (k : Str) (h : c ∉ k) : SepSafe [c] k ∧ NoSep [c] k := by
  constructor
  · intro u
    induction k with
    | nil => simp [splitFirst, List.isPrefixOf]
    | cons x r ih =>
      simp only [List.mem_cons, not_or] at h
      have := ih h.2
      simp only [List.append_assoc, List.cons_append, List.nil_append] at this ⊢
      simp [splitFirst, List.isPrefixOf, h.1, this]
  · unfold NoSep
    induction k with
    | nil => simp [splitFirst]
    | cons x r ih =>
      simp only [List.mem_cons, not_or] at h
      simp [splitFirst, List.isPrefixOf, h.1, ih h.2]

/-- K9 witness: separator-free but not separator-safe -/
theorem sepSafe_counterexample : NoSep [58, 58] [120, 58] ∧ ¬ SepSafe [58, 58] [120, 58] := by
  constructor
  · simp [NoSep, splitFirst, List.isPrefixOf]
  · intro h
    have := h []
    simp [splitFirst, List.isPrefixOf] at this

/-- non-vacuity: {"a": {"b": 1, optional("c"): 2}, "d": 3} with "." -/
example : rollout [46] (flattenKids [46] [([97], false, .node [([98], false, .leaf 1), ([99], true, .leaf 2)]), ([100], false, .leaf 3)])
    = .ok (Tree.toRVal.toKVs [([97], false, .node [([98], false, .leaf 1), ([99], true, .leaf 2)]), ([100], false, .leaf 3)]) := by
  apply rollout_flatten _ (by simp)
  have h1 := sepSafe_of_single_char 46 [97] (by simp)
  have h2 := sepSafe_of_single_char 46 [98] (by simp)
  have h3 := sepSafe_of_single_char 46 [99] (by simp)
  have h4 := sepSafe_of_single_char 46 [100] (by simp)
  simp [WFTree, WFKids, h1, h2, h3, h4]

end D42
