/-
  C09 — regex generation yields a full match or refuses loudly.

  `MatchesSeq ext r s`: the string `s` is in the language of the pattern tree `r` (textbook semantics;
  an anchor matches the empty string, which is its meaning at the pattern ends — the supported grammar).
  `ext` says which non-ASCII characters `\d` / `\w` accept (CPython's Unicode tables; arbitrary here).
-/
import D42.Model.Gen

namespace D42

def isAsciiDigit (x : Nat) : Prop := 48 ≤ x ∧ x ≤ 57
def isAsciiWord (x : Nat) : Prop := (48 ≤ x ∧ x ≤ 57) ∨ (65 ≤ x ∧ x ≤ 90) ∨ (97 ≤ x ∧ x ≤ 122) ∨ x = 95

/-- which characters a class item accepts -/
def ClsItem.accepts (ext : ClsItem → Nat → Prop) : ClsItem → Nat → Prop
  | .lit c, x => x = c
  | .range lo hi, x => lo ≤ x ∧ x ≤ hi
  | .digit, x => isAsciiDigit x ∨ (128 ≤ x ∧ ext .digit x)
  | .word, x => isAsciiWord x ∨ (128 ≤ x ∧ ext .word x)
  | .unsup n, x => ext (.unsup n) x

/-- `n` consecutive pieces, each satisfying `P` -/
def RepN (P : Str → Prop) : Nat → Str → Prop
  | 0, s => s = []
  | n + 1, s => ∃ a b, s = a ++ b ∧ P a ∧ RepN P n b

mutual
def Matches (ext : ClsItem → Nat → Prop) : Re → Str → Prop
  | .any, s => ∃ c, s = [c] ∧ c ≠ 10
  | .lit c, s => s = [c]
  | .notLit c, s => ∃ x, s = [x] ∧ x ≠ c
  | .cls neg items, s => ∃ x, s = [x] ∧ ((∃ it ∈ items, it.accepts ext x) ↔ neg = false)
  | .group r, s => MatchesSeq ext r s
  | .rep mn mx r, s => ∃ n : Nat, mn ≤ n ∧ (∀ m, mx = some m → n ≤ m) ∧ RepN (MatchesSeq ext r) n s
  | .at_, s => s = []
  | .branch alts, s => MatchesAlt ext alts s
  | .unsup _, _ => False
def MatchesSeq (ext : ClsItem → Nat → Prop) : List Re → Str → Prop
  | [], s => s = []
  | r :: rs, s => ∃ a b, s = a ++ b ∧ Matches ext r a ∧ MatchesSeq ext rs b
def MatchesAlt (ext : ClsItem → Nat → Prop) : List (List Re) → Str → Prop
  | [], _ => False
  | a :: as, s => MatchesSeq ext a s ∨ MatchesAlt ext as s
end

/-! ### helper lemmas -/

theorem G.bind_ok {α β} {m : G α} {f : α → G β} {st st' : GS} {b : β}
    (h : G.bind m f st = .ok (b, st')) : ∃ a st1, m st = .ok (a, st1) ∧ f a st1 = .ok (b, st') := by
  unfold G.bind at h
  cases hm : m st with
  | error e => simp [hm] at h
  | ok p => obtain ⟨a, st1⟩ := p; simp [hm] at h; exact ⟨a, st1, rfl, h⟩

theorem G.bind_error {α β} {m : G α} {f : α → G β} {st : GS} {e : PyExc}
    (h : G.bind m f st = .error e) : m st = .error e ∨ ∃ a st1, m st = .ok (a, st1) ∧ f a st1 = .error e := by
  unfold G.bind at h
  cases hm : m st with
  | error e' => simp [hm] at h; left; rw [h]
  | ok p => obtain ⟨a, st1⟩ := p; simp [hm] at h; right; exact ⟨a, st1, rfl, h⟩

theorem G.pure_ok {α} {a b : α} {st st' : GS} (h : G.pure a st = .ok (b, st')) : b = a ∧ st' = st := by
  simp [G.pure] at h; exact ⟨h.1.symm, h.2.symm⟩

theorem randint_ok {a b n : Int} {st st' : GS} (h : randint a b st = .ok (n, st')) :
    a ≤ n ∧ n ≤ b ∧ st.draws.head? = some (.int n) := by
  unfold randint at h
  split at h
  · simp at h
  · split at h
    · rename_i hd
      split at h
      · simp at h; rw [hd]; obtain ⟨rfl, _⟩ := h; simp_all
      · simp at h
    · simp at h

theorem randint_error {a b : Int} {st : GS} {e : PyExc} (h : randint a b st = .error e) :
    e = .valueError ∨ e = .badDraw := by
  unfold randint at h
  grind

theorem choiceIdx_ok {n i : Nat} {st st' : GS} (h : choiceIdx n st = .ok (i, st')) : i < n := by
  unfold choiceIdx at h
  grind

theorem choiceIdx_error {n : Nat} {st : GS} {e : PyExc} (h : choiceIdx n st = .error e) :
    e = .indexError ∨ e = .badDraw := by
  unfold choiceIdx at h
  grind

theorem choiceChar_ok {cands : List Nat} {c : Nat} {st st' : GS}
    (h : choiceChar cands st = .ok (c, st')) : c ∈ cands := by
  unfold choiceChar at h
  split at h
  · simp at h
  · split at h
    · split at h
      · rename_i hc; simp at h; simp at hc; rw [← h.1]; exact hc
      · simp at h
    · simp at h

theorem choiceChar_error {cands : List Nat} {st : GS} {e : PyExc} (h : choiceChar cands st = .error e) :
    e = .indexError ∨ e = .badDraw := by
  unfold choiceChar at h
  grind

theorem liftE_ok {α} {x : Except PyExc α} {a : α} {st st' : GS} (h : liftE x st = .ok (a, st')) :
    x = .ok a := by
  unfold liftE at h
  cases x <;> simp at h
  simp [h.1]

theorem excluded_error {it : ClsItem} {e : PyExc} (h : excluded it = .error e) : e = .valueError := by
  cases it <;> simp [excluded] at h
  exact h.symm

theorem excludedAll_error : ∀ {items : List ClsItem} {e : PyExc}, excludedAll items = .error e → e = .valueError
  | [], e, h => by simp [excludedAll] at h
  | it :: items, e, h => by
    simp only [excludedAll, bind, Except.bind] at h
    cases h1 : excluded it with
    | error e1 => simp [h1] at h; subst h; exact excluded_error h1
    | ok a =>
      simp [h1] at h
      cases h2 : excludedAll items with
      | error e2 => simp [h2] at h; subst h; exact excludedAll_error h2
      | ok b => simp [h2, pure, Except.pure] at h

theorem mem_rangeChars {lo hi x : Nat} : x ∈ rangeChars lo hi ↔ lo ≤ x ∧ x ≤ hi := by
  simp only [rangeChars, List.mem_map, List.mem_range]
  constructor
  · rintro ⟨a, h1, rfl⟩; omega
  · rintro ⟨h1, h2⟩; exact ⟨x - lo, by omega, by omega⟩

theorem rx_digits_complete : ∀ x, x < 128 → 48 ≤ x ∧ x ≤ 57 → x ∈ Consts.RX_DIGITS := by decide
theorem rx_word_complete : ∀ x, x < 128 →
    ((48 ≤ x ∧ x ≤ 57) ∨ (65 ≤ x ∧ x ≤ 90) ∨ (97 ≤ x ∧ x ≤ 122) ∨ x = 95) → x ∈ Consts.RX_WORD := by decide
theorem rx_letters_ascii : ∀ c ∈ Consts.RX_LETTERS, c < 128 := by decide

theorem excluded_accepts (ext : ClsItem → Nat → Prop) {it : ClsItem} {ex : List Nat} {x : Nat}
    (h : excluded it = .ok ex) (hx : x < 128) (hn : x ∉ ex) : ¬ it.accepts ext x := by
  cases it with
  | lit c => simp [excluded] at h; subst h; simpa [ClsItem.accepts] using hn
  | range lo hi => simp [excluded] at h; subst h; simpa [ClsItem.accepts, mem_rangeChars] using hn
  | digit =>
    simp [excluded] at h; subst h
    simp only [ClsItem.accepts, isAsciiDigit]
    rintro (h | h)
    · exact hn (rx_digits_complete x hx h)
    · omega
  | word =>
    simp [excluded] at h; subst h
    simp only [ClsItem.accepts, isAsciiWord]
    rintro (h | h)
    · exact hn (rx_word_complete x hx h)
    · omega
  | unsup n => simp [excluded] at h

theorem excludedAll_accepts (ext : ClsItem → Nat → Prop) {x : Nat} (hx : x < 128) :
    ∀ {items : List ClsItem} {ex : List Nat}, excludedAll items = .ok ex → x ∉ ex →
      ∀ it ∈ items, ¬ it.accepts ext x
  | [], _, _, _ => by simp
  | i :: is, ex, h, hn => by
    simp only [excludedAll, bind, Except.bind] at h
    cases h1 : excluded i with
    | error e1 => simp [h1] at h
    | ok a =>
      simp [h1] at h
      cases h2 : excludedAll is with
      | error e2 => simp [h2] at h
      | ok b =>
        simp [h2, pure, Except.pure] at h
        subst h
        simp only [List.mem_append, not_or] at hn
        intro it hit
        rcases List.mem_cons.mp hit with rfl | hit
        · exact excluded_accepts ext h1 hx hn.1
        · exact excludedAll_accepts ext hx h2 hn.2 it hit

theorem genNotIn_ok {items : List ClsItem} {x : Nat} {st st' : GS} (h : genNotIn items st = .ok (x, st')) :
    ∃ ex, excludedAll items = .ok ex ∧ x ∈ Consts.RX_LETTERS ∧ x ∉ ex := by
  unfold genNotIn at h
  obtain ⟨ex, st1, h1, h2⟩ := G.bind_ok h
  have hm := choiceChar_ok h2
  simp only [List.mem_filter] at hm
  exact ⟨ex, liftE_ok h1, hm.1, by simpa using hm.2⟩

theorem genNotIn_error {items : List ClsItem} {st : GS} {e : PyExc} (h : genNotIn items st = .error e) :
    e = .valueError ∨ e = .indexError ∨ e = .badDraw := by
  unfold genNotIn at h
  rcases G.bind_error h with h1 | ⟨ex, st1, _, h2⟩
  · left
    unfold liftE at h1
    cases hx : excludedAll items with
    | ok a => simp [hx] at h1
    | error e' => simp [hx] at h1; subst h1; exact excludedAll_error hx
  · right; exact choiceChar_error h2

theorem genNotIn_sound (ext : ClsItem → Nat → Prop) {items : List ClsItem} {x : Nat} {st st' : GS}
    (h : genNotIn items st = .ok (x, st')) : ¬ ∃ it ∈ items, it.accepts ext x := by
  obtain ⟨ex, h1, h2, h3⟩ := genNotIn_ok h
  rintro ⟨it, hit, hacc⟩
  exact excludedAll_accepts ext (rx_letters_ascii x h2) h1 h3 it hit hacc

theorem genClsItem_sound (ext : ClsItem → Nat → Prop) {it : ClsItem} {x : Nat} {st st' : GS}
    (h : genClsItem it st = .ok (x, st')) : it.accepts ext x := by
  cases it with
  | lit c =>
    simp only [genClsItem, pure] at h
    simp [ClsItem.accepts, (G.pure_ok h).1]
  | range lo hi =>
    simp only [genClsItem, bind, pure] at h
    obtain ⟨n, st1, h1, h2⟩ := G.bind_ok h
    obtain ⟨h3, h4, _⟩ := randint_ok h1
    obtain ⟨rfl, _⟩ := G.pure_ok h2
    simp only [ClsItem.accepts]; omega
  | digit =>
    simp only [genClsItem] at h
    exact Or.inl (Consts.rx_digits_are_digits x (choiceChar_ok h))
  | word =>
    simp only [genClsItem] at h
    exact Or.inl (Consts.rx_word_are_word x (choiceChar_ok h))
  | unsup n => simp [genClsItem, G.fail] at h

theorem genClsItem_error {it : ClsItem} {st : GS} {e : PyExc} (h : genClsItem it st = .error e) :
    e = .valueError ∨ e = .indexError ∨ e = .badDraw := by
  cases it with
  | lit c => simp [genClsItem, pure, G.pure] at h
  | range lo hi =>
    simp only [genClsItem, bind, pure] at h
    rcases G.bind_error h with h1 | ⟨n, st1, _, h2⟩
    · rcases randint_error h1 with rfl | rfl <;> simp
    · simp [G.pure] at h2
  | digit => simp only [genClsItem] at h; right; exact choiceChar_error h
  | word => simp only [genClsItem] at h; right; exact choiceChar_error h
  | unsup n => simp [genClsItem, G.fail] at h; simp [← h]

theorem repeatG_sound {m : G Str} {P : Str → Prop} (hm : ∀ st st' s, m st = .ok (s, st') → P s) :
    ∀ (n : Nat) (st st' : GS) (s : Str), repeatG m n st = .ok (s, st') → RepN P n s
  | 0, st, st', s, h => by
    simp only [repeatG, pure] at h
    simp [RepN, (G.pure_ok h).1]
  | n + 1, st, st', s, h => by
    simp only [repeatG, bind, pure] at h
    obtain ⟨a, st1, h1, h2⟩ := G.bind_ok h
    obtain ⟨b, st2, h3, h4⟩ := G.bind_ok h2
    obtain ⟨rfl, _⟩ := G.pure_ok h4
    exact ⟨a, b, rfl, hm _ _ _ h1, repeatG_sound hm n _ _ _ h3⟩

theorem repeatG_error {m : G Str} {Q : PyExc → Prop} (hm : ∀ st e, m st = .error e → Q e) :
    ∀ (n : Nat) (st : GS) (e : PyExc), repeatG m n st = .error e → Q e
  | 0, st, e, h => by simp [repeatG, pure, G.pure] at h
  | n + 1, st, e, h => by
    simp only [repeatG, bind, pure] at h
    rcases G.bind_error h with h1 | ⟨a, st1, _, h2⟩
    · exact hm _ _ h1
    · rcases G.bind_error h2 with h3 | ⟨b, st2, _, h4⟩
      · exact repeatG_error hm n _ _ h3
      · simp [G.pure] at h4

/-! ### theorems to prove -/

mutual
theorem genRe_sound (ext : ClsItem → Nat → Prop) : ∀ (r : Re) (st st' : GS) (s : Str),
    genRe r st = .ok (s, st') → Matches ext r s
  | .any, st, st', s, h => by
    simp only [genRe, bind, pure] at h
    obtain ⟨c, st1, h1, h2⟩ := G.bind_ok h
    obtain ⟨rfl, _⟩ := G.pure_ok h2
    simp only [Matches]
    exact ⟨c, rfl, Consts.rx_letters_no_newline c (choiceChar_ok h1)⟩
  | .lit c, st, st', s, h => by
    simp only [genRe, pure] at h
    simp [Matches, (G.pure_ok h).1]
  | .notLit c, st, st', s, h => by
    simp only [genRe, bind, pure] at h
    obtain ⟨x, st1, h1, h2⟩ := G.bind_ok h
    obtain ⟨rfl, _⟩ := G.pure_ok h2
    simp only [Matches]
    refine ⟨x, rfl, ?_⟩
    have := genNotIn_sound ext h1
    intro hx; apply this
    exact ⟨.lit c, by simp, by simp [ClsItem.accepts, hx]⟩
  | .cls true items, st, st', s, h => by
    simp only [genRe, bind, pure] at h
    obtain ⟨x, st1, h1, h2⟩ := G.bind_ok h
    obtain ⟨rfl, _⟩ := G.pure_ok h2
    simp only [Matches]
    refine ⟨x, rfl, ?_⟩
    have := genNotIn_sound ext h1
    simp [this]
  | .cls false items, st, st', s, h => by
    simp only [genRe, bind, pure] at h
    obtain ⟨i, st1, h1, h2⟩ := G.bind_ok h
    cases hi : items[i]? with
    | none => simp [hi, G.fail] at h2
    | some it =>
      simp only [hi] at h2
      obtain ⟨x, st2, h3, h4⟩ := G.bind_ok h2
      obtain ⟨rfl, _⟩ := G.pure_ok h4
      simp only [Matches]
      refine ⟨x, rfl, ?_⟩
      simp only [iff_true]
      exact ⟨it, List.mem_of_getElem? hi, genClsItem_sound ext h3⟩
  | .group r, st, st', s, h => by
    simp only [genRe] at h
    simp only [Matches]
    exact genSeq_sound ext r st st' s h
  | .rep mn mx r, st, st', s, h => by
    simp only [genRe, bind] at h
    obtain ⟨n, st1, h1, h2⟩ := G.bind_ok h
    obtain ⟨h3, h4, _⟩ := randint_ok h1
    simp only [Matches]
    refine ⟨n.toNat, by omega, ?_, repeatG_sound (fun a b c hh => genSeq_sound ext r a b c hh) _ _ _ _ h2⟩
    intro m hm
    subst hm
    simp at h4
    omega
  | .at_, st, st', s, h => by
    simp only [genRe, pure] at h
    simp [Matches, (G.pure_ok h).1]
  | .branch alts, st, st', s, h => by
    simp only [genRe, bind] at h
    obtain ⟨i, st1, h1, h2⟩ := G.bind_ok h
    simp only [Matches]
    exact genAlt_sound ext alts i st1 st' s h2
  | .unsup n, st, st', s, h => by simp [genRe, G.fail] at h
theorem genSeq_sound (ext : ClsItem → Nat → Prop) : ∀ (r : List Re) (st st' : GS) (s : Str),
    genSeq r st = .ok (s, st') → MatchesSeq ext r s
  | [], st, st', s, h => by
    simp only [genSeq, pure] at h
    simp [MatchesSeq, (G.pure_ok h).1]
  | r :: rs, st, st', s, h => by
    simp only [genSeq, bind, pure] at h
    obtain ⟨a, st1, h1, h2⟩ := G.bind_ok h
    obtain ⟨b, st2, h3, h4⟩ := G.bind_ok h2
    obtain ⟨rfl, _⟩ := G.pure_ok h4
    simp only [MatchesSeq]
    exact ⟨a, b, rfl, genRe_sound ext r _ _ _ h1, genSeq_sound ext rs _ _ _ h3⟩
theorem genAlt_sound (ext : ClsItem → Nat → Prop) : ∀ (alts : List (List Re)) (i : Nat) (st st' : GS) (s : Str),
    genAlt alts i st = .ok (s, st') → MatchesAlt ext alts s
  | [], i, st, st', s, h => by simp [genAlt, G.fail] at h
  | a :: as, 0, st, st', s, h => by
    simp only [genAlt] at h
    simp only [MatchesAlt]
    exact Or.inl (genSeq_sound ext a _ _ _ h)
  | a :: as, i + 1, st, st', s, h => by
    simp only [genAlt] at h
    simp only [MatchesAlt]
    exact Or.inr (genAlt_sound ext as i _ _ _ h)
end

/-- unsupported opcodes on the generation path are refused with ValueError -/
theorem genRe_unsup (n : Nat) (st : GS) : genRe (.unsup n) st = .error .valueError := by
  simp [genRe, G.fail]

/-- a class that contains an unsupported category is refused when that item is drawn / needed -/
theorem genClsItem_unsup (n : Nat) (st : GS) : genClsItem (.unsup n) st = .error .valueError := by
  simp [genClsItem, G.fail]

/-- an open-ended repeat draws its count from `[min, max(cap, min)]`, a bounded one from `[min, max]` -/
theorem rep_request (mn : Nat) (mx : Option Nat) (r : List Re) (st st' : GS) (s : Str)
    (h : genRe (.rep mn mx r) st = .ok (s, st')) :
    ∃ n : Int, st.draws.head? = some (.int n) ∧ (mn : Int) ≤ n ∧
      n ≤ ((match mx with | some m => m | none => max Consts.RX_MAX_REPEAT mn : Nat) : Int) := by
  cases mx <;>
  · simp only [genRe, bind] at h
    obtain ⟨n, st1, h1, h2⟩ := G.bind_ok h
    obtain ⟨h3, h4, h5⟩ := randint_ok h1
    exact ⟨n, h5, h3, h4⟩

def RxErr (e : PyExc) : Prop := e = .valueError ∨ e = .indexError ∨ e = .badDraw

mutual
theorem genRe_error_kind : ∀ (r : Re) (st : GS) (e : PyExc), genRe r st = .error e → RxErr e
  | .any, st, e, h => by
    simp only [genRe, bind, pure] at h
    rcases G.bind_error h with h1 | ⟨c, st1, _, h2⟩
    · exact Or.inr (choiceChar_error h1)
    · simp [G.pure] at h2
  | .lit c, st, e, h => by simp [genRe, pure, G.pure] at h
  | .notLit c, st, e, h => by
    simp only [genRe, bind, pure] at h
    rcases G.bind_error h with h1 | ⟨c, st1, _, h2⟩
    · exact genNotIn_error h1
    · simp [G.pure] at h2
  | .cls true items, st, e, h => by
    simp only [genRe, bind, pure] at h
    rcases G.bind_error h with h1 | ⟨c, st1, _, h2⟩
    · exact genNotIn_error h1
    · simp [G.pure] at h2
  | .cls false items, st, e, h => by
    simp only [genRe, bind, pure] at h
    rcases G.bind_error h with h1 | ⟨i, st1, _, h2⟩
    · exact Or.inr (choiceIdx_error h1)
    · cases hi : items[i]? with
      | none => simp [hi, G.fail] at h2; simp [RxErr, ← h2]
      | some it =>
        simp only [hi] at h2
        rcases G.bind_error h2 with h3 | ⟨x, st2, _, h4⟩
        · exact genClsItem_error h3
        · simp [G.pure] at h4
  | .group r, st, e, h => by
    simp only [genRe] at h
    exact genSeq_error_kind' r st e h
  | .rep mn mx r, st, e, h => by
    simp only [genRe, bind] at h
    rcases G.bind_error h with h1 | ⟨n, st1, _, h2⟩
    · rcases randint_error h1 with rfl | rfl <;> simp [RxErr]
    · exact repeatG_error (Q := RxErr) (fun a b hh => genSeq_error_kind' r a b hh) _ _ _ h2
  | .at_, st, e, h => by simp [genRe, pure, G.pure] at h
  | .branch alts, st, e, h => by
    simp only [genRe, bind] at h
    rcases G.bind_error h with h1 | ⟨i, st1, _, h2⟩
    · exact Or.inr (choiceIdx_error h1)
    · exact genAlt_error_kind alts i st1 e h2
  | .unsup n, st, e, h => by simp [genRe, G.fail] at h; simp [RxErr, ← h]
theorem genSeq_error_kind' : ∀ (r : List Re) (st : GS) (e : PyExc), genSeq r st = .error e → RxErr e
  | [], st, e, h => by simp [genSeq, pure, G.pure] at h
  | r :: rs, st, e, h => by
    simp only [genSeq, bind, pure] at h
    rcases G.bind_error h with h1 | ⟨a, st1, _, h2⟩
    · exact genRe_error_kind r _ _ h1
    · rcases G.bind_error h2 with h3 | ⟨b, st2, _, h4⟩
      · exact genSeq_error_kind' rs _ _ h3
      · simp [G.pure] at h4
theorem genAlt_error_kind : ∀ (alts : List (List Re)) (i : Nat) (st : GS) (e : PyExc),
    genAlt alts i st = .error e → RxErr e
  | [], i, st, e, h => by simp [genAlt, G.fail] at h; simp [RxErr, ← h]
  | a :: as, 0, st, e, h => by
    simp only [genAlt] at h
    exact genSeq_error_kind' a _ _ h
  | a :: as, i + 1, st, e, h => by
    simp only [genAlt] at h
    exact genAlt_error_kind as i _ _ h
end

/-- errors of the regex generator are only: ValueError (unsupported construct, empty randint range),
    IndexError (a negated class that excludes the whole alphabet / empty choice), or a bad draw list -/
theorem genSeq_error_kind (r : List Re) (st : GS) (e : PyExc) :
    genSeq r st = .error e → e = .valueError ∨ e = .indexError ∨ e = .badDraw :=
  genSeq_error_kind' r st e

/-- non-vacuity: `[a-c]{2}x` generates "abx" from the draws (2; choice 0, 'a'; choice 0, 'b') -/
example : ∃ st', genSeq [.rep 2 (some 2) [.cls false [.range 97 99]], .lit 120]
    { draws := [.int 2, .idx 0, .int 97, .idx 0, .int 98] } = .ok ([97, 98, 120], st') := by
  simp [genSeq, genRe, repeatG, genClsItem, randint, choiceIdx, bind, G.bind, pure, G.pure]

end D42
