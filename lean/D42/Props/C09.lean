/- C09 (statements are being added) -/
import D42.Model.Gen
