/- C14 (statements are being added) -/
import D42.Model.Subst
