/-
  C14 — from_native(value) denotes exactly that value.
-/
import D42.Model.Subst
import D42.Model.Gen
import D42.Props.C02

namespace D42

mutual
/-- the values `from_native` supports: None, bool, int, float, str, bytes, version-4 UUID, datetime,
    date, lists and dicts of those (no `...` key) -/
def Plain : PyVal → Prop
  | .none => True
  | .bool _ => True
  | .int _ => True
  | .float _ => True
  | .str _ => True
  | .bytes _ => True
  | .uuid _ ver => ver = 4
  | .datetime _ => True
  | .date _ => True
  | .list xs => PlainL xs
  | .dict kvs => PlainKV kvs
  | .ellipsis => False
  | .other _ => False
def PlainL : List PyVal → Prop
  | [] => True
  | x :: xs => Plain x ∧ PlainL xs
def PlainKV : List (PyKey × PyVal) → Prop
  | [] => True
  | (k, v) :: r => k ≠ PyKey.ellipsis ∧ Plain v ∧ PlainKV r
end

mutual
/-- no NaN anywhere (finding K6: `schema.float(nan)` rejects its own value) -/
def NoNaN : PyVal → Prop
  | .float .nan => False
  | .list xs => NoNaNL xs
  | .dict kvs => NoNaNKV kvs
  | _ => True
def NoNaNL : List PyVal → Prop
  | [] => True
  | x :: xs => NoNaN x ∧ NoNaNL xs
def NoNaNKV : List (PyKey × PyVal) → Prop
  | [] => True
  | (_, v) :: r => NoNaN v ∧ NoNaNKV r
end

mutual
/-- python dicts have distinct keys (the encoder guarantees it; a model `List (PyKey × PyVal)` need not) -/
def DistinctKeys : PyVal → Prop
  | .list xs => DistinctKeysL xs
  | .dict kvs => (kvs.map (·.1)).Nodup ∧ DistinctKeysKV kvs
  | _ => True
def DistinctKeysL : List PyVal → Prop
  | [] => True
  | x :: xs => DistinctKeys x ∧ DistinctKeysL xs
def DistinctKeysKV : List (PyKey × PyVal) → Prop
  | [] => True
  | (_, v) :: r => DistinctKeys v ∧ DistinctKeysKV r
end

/-! ### inversion lemmas -/

theorem fromNativeList_cons_ok (x : PyVal) (xs : List PyVal) (es : List Schema) :
    fromNativeList (x :: xs) = .ok es ↔
      ∃ a b, fromNative x = .ok a ∧ fromNativeList xs = .ok b ∧ es = a :: b := by
  simp only [fromNativeList, bind, Except.bind, pure, Except.pure]
  cases fromNative x with
  | error e => simp
  | ok a =>
    cases fromNativeList xs with
    | error e => simp
    | ok b => simp [eq_comm]

theorem fromNativeKVs_cons_ok (k : PyKey) (v : PyVal) (r : List (PyKey × PyVal)) (fs : List (PyKey × Bool × Schema)) :
    fromNativeKVs ((k, v) :: r) = .ok fs ↔
      ∃ a b, fromNative v = .ok a ∧ fromNativeKVs r = .ok b ∧ fs = (k, false, a) :: b := by
  simp only [fromNativeKVs, bind, Except.bind, pure, Except.pure]
  cases fromNative v with
  | error e => simp
  | ok a =>
    cases fromNativeKVs r with
    | error e => simp
    | ok b => simp [eq_comm]

theorem fromNative_list_ok (xs : List PyVal) (s : Schema) :
    fromNative (.list xs) = .ok s ↔ ∃ es, fromNativeList xs = .ok es ∧ s = .listE false es false {} := by
  simp only [fromNative, bind, Except.bind, pure, Except.pure]
  cases fromNativeList xs with
  | error e => simp
  | ok b => simp [eq_comm]

theorem fromNative_dict_ok (kvs : List (PyKey × PyVal)) (s : Schema) :
    fromNative (.dict kvs) = .ok s ↔
      kvs.any (fun kv => kv.1 == PyKey.ellipsis) = false ∧
      ∃ fs, fromNativeKVs kvs = .ok fs ∧ s = .dict (some fs) none := by
  simp only [fromNative, bind, Except.bind, pure, Except.pure]
  cases h : kvs.any (fun kv => kv.1 == PyKey.ellipsis) with
  | true => simp
  | false =>
    cases fromNativeKVs kvs with
    | error e => simp
    | ok b => simp [eq_comm]


theorem plainKV_noEll : ∀ (kvs : List (PyKey × PyVal)), PlainKV kvs →
    kvs.any (fun kv => kv.1 == PyKey.ellipsis) = false
  | [], _ => rfl
  | (k, v) :: r, h => by
    simp only [PlainKV] at h
    simp [h.1, plainKV_noEll r h.2.2]

/-! ### theorems to prove -/

mutual
theorem fromNative_total' : ∀ (v : PyVal), Plain v → ∃ s, fromNative v = .ok s
  | .none, _ => by simp [fromNative]
  | .bool _, _ => by simp [fromNative]
  | .int _, _ => by simp [fromNative]
  | .float _, _ => by simp [fromNative]
  | .str _, _ => by simp [fromNative]
  | .bytes _, _ => by simp [fromNative]
  | .uuid i ver, h => by simp only [Plain] at h; subst h; simp [fromNative]
  | .datetime _, _ => by simp [fromNative]
  | .date _, _ => by simp [fromNative]
  | .list xs, h => by
    simp only [Plain] at h
    obtain ⟨es, he⟩ := fromNativeList_total xs h
    exact ⟨_, (fromNative_list_ok _ _).2 ⟨es, he, rfl⟩⟩
  | .dict kvs, h => by
    simp only [Plain] at h
    obtain ⟨fs, hf⟩ := fromNativeKVs_total kvs h
    exact ⟨_, (fromNative_dict_ok _ _).2 ⟨plainKV_noEll kvs h, fs, hf, rfl⟩⟩
  | .ellipsis, h => by simp [Plain] at h
  | .other _, h => by simp [Plain] at h
theorem fromNativeList_total : ∀ (xs : List PyVal), PlainL xs → ∃ es, fromNativeList xs = .ok es
  | [], _ => ⟨[], by simp [fromNativeList]⟩
  | x :: xs, h => by
    simp only [PlainL] at h
    obtain ⟨a, ha⟩ := fromNative_total' x h.1
    obtain ⟨b, hb⟩ := fromNativeList_total xs h.2
    exact ⟨_, (fromNativeList_cons_ok _ _ _).2 ⟨a, b, ha, hb, rfl⟩⟩
theorem fromNativeKVs_total : ∀ (r : List (PyKey × PyVal)), PlainKV r → ∃ fs, fromNativeKVs r = .ok fs
  | [], _ => ⟨[], by simp [fromNativeKVs]⟩
  | (k, v) :: r, h => by
    simp only [PlainKV] at h
    obtain ⟨a, ha⟩ := fromNative_total' v h.2.1
    obtain ⟨b, hb⟩ := fromNativeKVs_total r h.2.2
    exact ⟨_, (fromNativeKVs_cons_ok _ _ _ _).2 ⟨a, b, ha, hb, rfl⟩⟩
end

/-- every plain value is converted -/
theorem fromNative_total (v : PyVal) (h : Plain v) : ∃ s, fromNative v = .ok s :=
  fromNative_total' v h


theorem noEll_of_any : ∀ (kvs : List (PyKey × PyVal)),
    kvs.any (fun kv => kv.1 == PyKey.ellipsis) = false → ∀ kv ∈ kvs, kv.1 ≠ PyKey.ellipsis := by
  intro kvs h kv hkv
  simp only [List.any_eq_false] at h
  simpa using h kv hkv

mutual
theorem fromNative_ok_plain : ∀ (v : PyVal) (s : Schema), fromNative v = .ok s → Plain v
  | .none, _, _ => by simp [Plain]
  | .bool _, _, _ => by simp [Plain]
  | .int _, _, _ => by simp [Plain]
  | .float _, _, _ => by simp [Plain]
  | .str _, _, _ => by simp [Plain]
  | .bytes _, _, _ => by simp [Plain]
  | .uuid i ver, s, h => by
    simp only [Plain]
    by_cases hv : ver = 4
    · exact hv
    · simp [fromNative, hv] at h
  | .datetime _, _, _ => by simp [Plain]
  | .date _, _, _ => by simp [Plain]
  | .list xs, s, h => by
    obtain ⟨es, he, _⟩ := (fromNative_list_ok _ _).1 h
    simp only [Plain]
    exact fromNativeList_ok_plain xs es he
  | .dict kvs, s, h => by
    obtain ⟨hne, fs, hf, _⟩ := (fromNative_dict_ok _ _).1 h
    simp only [Plain]
    exact fromNativeKVs_ok_plain kvs fs hf (noEll_of_any kvs hne)
  | .ellipsis, _, h => by simp [fromNative] at h
  | .other _, _, h => by simp [fromNative] at h
theorem fromNativeList_ok_plain : ∀ (xs : List PyVal) (es : List Schema),
    fromNativeList xs = .ok es → PlainL xs
  | [], _, _ => by simp [PlainL]
  | x :: xs, es, h => by
    obtain ⟨a, b, ha, hb, _⟩ := (fromNativeList_cons_ok _ _ _).1 h
    simp only [PlainL]
    exact ⟨fromNative_ok_plain x a ha, fromNativeList_ok_plain xs b hb⟩
theorem fromNativeKVs_ok_plain : ∀ (r : List (PyKey × PyVal)) (fs : List (PyKey × Bool × Schema)),
    fromNativeKVs r = .ok fs → (∀ kv ∈ r, kv.1 ≠ PyKey.ellipsis) → PlainKV r
  | [], _, _, _ => by simp [PlainKV]
  | (k, v) :: r, fs, h, hne => by
    obtain ⟨a, b, ha, hb, _⟩ := (fromNativeKVs_cons_ok _ _ _ _).1 h
    simp only [PlainKV]
    exact ⟨hne (k, v) (by simp), fromNative_ok_plain v a ha,
      fromNativeKVs_ok_plain r b hb (fun kv hkv => hne kv (List.mem_cons_of_mem _ hkv))⟩
end

theorem fromNativeList_cons_err (x : PyVal) (xs : List PyVal) (e : PyExc)
    (h : fromNativeList (x :: xs) = .error e) :
    fromNative x = .error e ∨ fromNativeList xs = .error e := by
  simp only [fromNativeList, bind, Except.bind, pure, Except.pure] at h
  cases hx : fromNative x with
  | error e' => rw [hx] at h; simp at h; exact Or.inl (by rw [h])
  | ok a =>
    rw [hx] at h
    cases hxs : fromNativeList xs with
    | error e' => rw [hxs] at h; simp at h; exact Or.inr (by rw [h])
    | ok b => rw [hxs] at h; simp at h

theorem fromNativeKVs_cons_err (k : PyKey) (v : PyVal) (r : List (PyKey × PyVal)) (e : PyExc)
    (h : fromNativeKVs ((k, v) :: r) = .error e) :
    fromNative v = .error e ∨ fromNativeKVs r = .error e := by
  simp only [fromNativeKVs, bind, Except.bind, pure, Except.pure] at h
  cases hx : fromNative v with
  | error e' => rw [hx] at h; simp at h; exact Or.inl (by rw [h])
  | ok a =>
    rw [hx] at h
    cases hxs : fromNativeKVs r with
    | error e' => rw [hxs] at h; simp at h; exact Or.inr (by rw [h])
    | ok b => rw [hxs] at h; simp at h

mutual
theorem fromNative_error_kind' : ∀ (v : PyVal) (e : PyExc), fromNative v = .error e → e = .valueError
  | .none, _, h => by simp [fromNative] at h
  | .bool _, _, h => by simp [fromNative] at h
  | .int _, _, h => by simp [fromNative] at h
  | .float _, _, h => by simp [fromNative] at h
  | .str _, _, h => by simp [fromNative] at h
  | .bytes _, _, h => by simp [fromNative] at h
  | .uuid i ver, e, h => by
    simp only [fromNative] at h
    split at h
    · simp at h
    · simpa using h.symm
  | .datetime _, _, h => by simp [fromNative] at h
  | .date _, _, h => by simp [fromNative] at h
  | .list xs, e, h => by
    simp only [fromNative, bind, Except.bind, pure, Except.pure] at h
    cases hxs : fromNativeList xs with
    | error e' =>
      rw [hxs] at h
      simp at h
      subst h
      exact fromNativeList_error_kind xs e' hxs
    | ok b => rw [hxs] at h; simp at h
  | .dict kvs, e, h => by
    simp only [fromNative, bind, Except.bind, pure, Except.pure] at h
    split at h
    · simpa using h.symm
    · cases hxs : fromNativeKVs kvs with
      | error e' =>
        rw [hxs] at h
        simp at h
        subst h
        exact fromNativeKVs_error_kind kvs e' hxs
      | ok b => rw [hxs] at h; simp at h
  | .ellipsis, _, h => by simpa [fromNative] using h.symm
  | .other _, _, h => by simpa [fromNative] using h.symm
theorem fromNativeList_error_kind : ∀ (xs : List PyVal) (e : PyExc),
    fromNativeList xs = .error e → e = .valueError
  | [], _, h => by simp [fromNativeList] at h
  | x :: xs, e, h => by
    rcases fromNativeList_cons_err x xs e h with h1 | h2
    · exact fromNative_error_kind' x e h1
    · exact fromNativeList_error_kind xs e h2
theorem fromNativeKVs_error_kind : ∀ (r : List (PyKey × PyVal)) (e : PyExc),
    fromNativeKVs r = .error e → e = .valueError
  | [], _, h => by simp [fromNativeKVs] at h
  | (k, v) :: r, e, h => by
    rcases fromNativeKVs_cons_err k v r e h with h1 | h2
    · exact fromNative_error_kind' v e h1
    · exact fromNativeKVs_error_kind r e h2
end

theorem fromNative_error_kind (v : PyVal) (e : PyExc) (h : fromNative v = .error e) : e = .valueError :=
  fromNative_error_kind' v e h

/-- **refusal.** any other kind of value is refused with ValueError (and only with ValueError) -/
theorem fromNative_refuses (v : PyVal) (h : ¬ Plain v) : fromNative v = .error .valueError := by
  cases hv : fromNative v with
  | ok s => exact absurd (fromNative_ok_plain v s hv) h
  | error e => rw [fromNative_error_kind v e hv]


/-! ### accepts -/

theorem lookupKey_of_nodup : ∀ (kvs : List (PyKey × PyVal)), (kvs.map (·.1)).Nodup →
    ∀ kv ∈ kvs, lookupKey kv.1 kvs = some kv.2
  | [], _, kv, h => by simp at h
  | (k, v) :: r, hn, kv, hkv => by
    simp only [List.map_cons, List.nodup_cons] at hn
    rcases List.mem_cons.1 hkv with rfl | hr
    · simp [lookupKey]
    · have hne : kv.1 ≠ k := by
        intro he
        exact hn.1 (he ▸ List.mem_map_of_mem hr)
      simp only [lookupKey, hne, if_false]
      exact lookupKey_of_nodup r hn.2 kv hr

theorem fromNativeList_length : ∀ (xs : List PyVal) (es : List Schema),
    fromNativeList xs = .ok es → es.length = xs.length
  | [], es, h => by simp [fromNativeList] at h; subst h; rfl
  | x :: xs, es, h => by
    obtain ⟨a, b, _, hb, rfl⟩ := (fromNativeList_cons_ok _ _ _).1 h
    simp [fromNativeList_length xs b hb]

theorem fromNativeKVs_hasField : ∀ (r : List (PyKey × PyVal)) (fs : List (PyKey × Bool × Schema)),
    fromNativeKVs r = .ok fs → ∀ kv ∈ r, hasField kv.1 fs = true
  | [], _, _, kv, h => by simp at h
  | (k, v) :: r, fs, h, kv, hkv => by
    obtain ⟨a, b, _, hb, rfl⟩ := (fromNativeKVs_cons_ok _ _ _ _).1 h
    rcases List.mem_cons.1 hkv with rfl | hr
    · simp [hasField]
    · have := fromNativeKVs_hasField r b hb kv hr
      simp only [hasField] at this ⊢
      simp [this]

theorem isclose_self (env : Env) (f : PyFloat) (h : f ≠ .nan) : isclose env f f = true := by
  cases f <;> simp [isclose, PyFloat.eq] at h ⊢

mutual
theorem fromNative_conforms (env : Env) : ∀ (v : PyVal) (s : Schema),
    fromNative v = .ok s → NoNaN v → DistinctKeys v → Conforms env s v
  | .none, s, h, _, _ => by simp [fromNative] at h; subst h; simp [Conforms, ConformsScalar]
  | .bool _, s, h, _, _ => by simp [fromNative] at h; subst h; simp [Conforms, ConformsScalar]
  | .int _, s, h, _, _ => by simp [fromNative] at h; subst h; simp [Conforms, ConformsScalar, asInt]
  | .float f, s, h, hn, _ => by
    simp [fromNative] at h; subst h
    have hf : f ≠ .nan := by rintro rfl; simp [NoNaN] at hn
    simp [Conforms, ConformsScalar, floatValueOk, isclose_self env f hf]
  | .str _, s, h, _, _ => by
    simp [fromNative] at h; subst h; simp [Conforms, ConformsScalar, LenOK]
  | .bytes _, s, h, _, _ => by simp [fromNative] at h; subst h; simp [Conforms, ConformsScalar]
  | .uuid i ver, s, h, _, _ => by
    have hv : ver = 4 := fromNative_ok_plain _ _ h
    subst hv
    simp [fromNative] at h; subst h; simp [Conforms, ConformsScalar]
  | .datetime _, s, h, _, _ => by simp [fromNative] at h; subst h; simp [Conforms, ConformsScalar]
  | .date _, s, h, _, _ => by simp [fromNative] at h; subst h; simp [Conforms, ConformsScalar]
  | .list xs, s, h, hn, hd => by
    obtain ⟨es, he, rfl⟩ := (fromNative_list_ok _ _).1 h
    simp only [NoNaN] at hn
    simp only [DistinctKeys] at hd
    have hp := fromNativeList_conforms env xs es he hn hd
    have hl := fromNativeList_length xs es he
    simp [Conforms, LenOK, hp, hl]
  | .dict kvs, s, h, hn, hd => by
    obtain ⟨_, fs, hf, rfl⟩ := (fromNative_dict_ok _ _).1 h
    simp only [NoNaN] at hn
    simp only [DistinctKeys] at hd
    have hF := fromNativeKVs_conforms env kvs fs kvs hf hn hd.2 (lookupKey_of_nodup kvs hd.1)
    simp only [Conforms]
    exact ⟨kvs, rfl, hF, fun _ => fromNativeKVs_hasField kvs fs hf⟩
  | .ellipsis, _, h, _, _ => by simp [fromNative] at h
  | .other _, _, h, _, _ => by simp [fromNative] at h
theorem fromNativeList_conforms (env : Env) : ∀ (xs : List PyVal) (es : List Schema),
    fromNativeList xs = .ok es → NoNaNL xs → DistinctKeysL xs → PrefixC env es xs
  | [], es, h, _, _ => by simp [fromNativeList] at h; subst h; simp [PrefixC]
  | x :: xs, es, h, hn, hd => by
    obtain ⟨a, b, ha, hb, rfl⟩ := (fromNativeList_cons_ok _ _ _).1 h
    simp only [NoNaNL] at hn
    simp only [DistinctKeysL] at hd
    simp only [PrefixC]
    exact ⟨fromNative_conforms env x a ha hn.1 hd.1, fromNativeList_conforms env xs b hb hn.2 hd.2⟩
theorem fromNativeKVs_conforms (env : Env) : ∀ (r : List (PyKey × PyVal)) (fs : List (PyKey × Bool × Schema))
    (kvs : List (PyKey × PyVal)),
    fromNativeKVs r = .ok fs → NoNaNKV r → DistinctKeysKV r →
    (∀ kv ∈ r, lookupKey kv.1 kvs = some kv.2) → FieldsC env fs kvs
  | [], fs, _, h, _, _, _ => by simp [fromNativeKVs] at h; subst h; simp [FieldsC]
  | (k, v) :: r, fs, kvs, h, hn, hd, hl => by
    obtain ⟨a, b, ha, hb, rfl⟩ := (fromNativeKVs_cons_ok _ _ _ _).1 h
    simp only [NoNaNKV] at hn
    simp only [DistinctKeysKV] at hd
    simp only [FieldsC]
    have h0 : lookupKey k kvs = some v := hl (k, v) (by simp)
    rw [h0]
    exact ⟨fromNative_conforms env v a ha hn.1 hd.1,
      fromNativeKVs_conforms env r b kvs hb hn.2 hd.2 (fun kv hkv => hl kv (List.mem_cons_of_mem _ hkv))⟩
end

/-- **accepts.** `from_native(v)` accepts `v` (no NaN inside: K6) -/
theorem fromNative_accepts (env : Env) (v : PyVal) (s : Schema) (p : Path)
    (hs : fromNative v = .ok s) (hn : NoNaN v) (hd : DistinctKeys v) :
    validateP env false s v p = [] :=
  (validateP_nil_iff env s v p).2 (fromNative_conforms env v s hs hn hd)


/-! ### generates -/

mutual
theorem fromNative_gen (env : Env) : ∀ (v : PyVal) (s : Schema) (st : GS),
    fromNative v = .ok s → gen env s st = .ok (v, st)
  | .none, s, st, h => by simp [fromNative] at h; subst h; simp [gen, genScalar, pure, G.pure]
  | .bool _, s, st, h => by simp [fromNative] at h; subst h; simp [gen, genScalar, pure, G.pure]
  | .int _, s, st, h => by simp [fromNative] at h; subst h; simp [gen, genScalar, pure, G.pure]
  | .float _, s, st, h => by simp [fromNative] at h; subst h; simp [gen, genScalar, pure, G.pure]
  | .str _, s, st, h => by simp [fromNative] at h; subst h; simp [gen, genScalar, pure, G.pure]
  | .bytes _, s, st, h => by simp [fromNative] at h; subst h; simp [gen, genScalar, pure, G.pure]
  | .uuid i ver, s, st, h => by
    have hv : ver = 4 := fromNative_ok_plain _ _ h
    subst hv
    simp [fromNative] at h; subst h; simp [gen, genScalar, pure, G.pure]
  | .datetime _, s, st, h => by simp [fromNative] at h; subst h; simp [gen, genScalar, pure, G.pure]
  | .date _, s, st, h => by simp [fromNative] at h; subst h; simp [gen, genScalar, pure, G.pure]
  | .list xs, s, st, h => by
    obtain ⟨es, he, rfl⟩ := (fromNative_list_ok _ _).1 h
    simp [gen, bind, G.bind, pure, G.pure, fromNativeList_gen env xs es st he]
  | .dict kvs, s, st, h => by
    obtain ⟨_, fs, hf, rfl⟩ := (fromNative_dict_ok _ _).1 h
    simp [gen, bind, G.bind, pure, G.pure, fromNativeKVs_gen env kvs fs st hf]
  | .ellipsis, _, _, h => by simp [fromNative] at h
  | .other _, _, _, h => by simp [fromNative] at h
theorem fromNativeList_gen (env : Env) : ∀ (xs : List PyVal) (es : List Schema) (st : GS),
    fromNativeList xs = .ok es → genList env es st = .ok (xs, st)
  | [], es, st, h => by simp [fromNativeList] at h; subst h; simp [genList, pure, G.pure]
  | x :: xs, es, st, h => by
    obtain ⟨a, b, ha, hb, rfl⟩ := (fromNativeList_cons_ok _ _ _).1 h
    simp [genList, bind, G.bind, pure, G.pure, fromNative_gen env x a st ha,
      fromNativeList_gen env xs b st hb]
theorem fromNativeKVs_gen (env : Env) : ∀ (r : List (PyKey × PyVal)) (fs : List (PyKey × Bool × Schema)) (st : GS),
    fromNativeKVs r = .ok fs → genFields env fs st = .ok (r, st)
  | [], fs, st, h => by simp [fromNativeKVs] at h; subst h; simp [genFields, pure, G.pure]
  | (k, v) :: r, fs, st, h => by
    obtain ⟨a, b, ha, hb, rfl⟩ := (fromNativeKVs_cons_ok _ _ _ _).1 h
    simp [genFields, bind, G.bind, pure, G.pure, fromNative_gen env v a st ha,
      fromNativeKVs_gen env r b st hb]
end

/-- **generates.** `from_native(v)` generates exactly `v`, from any random source, consuming nothing -/
theorem fromNative_generates (env : Env) (v : PyVal) (s : Schema) (st : GS)
    (hs : fromNative v = .ok s) : gen env s st = .ok (v, st) :=
  fromNative_gen env v s st hs


mutual
/-- "the same value": structural equality up to Python's identification of True/False with 1/0
    (an int schema accepts the bool that equals it) and the float tolerance -/
def Same (env : Env) : PyVal → PyVal → Prop
  | .none, w => w = .none
  | .bool b, w => w = .bool b
  | .int n, w => asInt w = some n
  | .float f, w => ∃ g, w = .float g ∧ isclose env g f = true
  | .str s, w => w = .str s
  | .bytes b, w => w = .bytes b
  | .uuid i _, w => w = .uuid i 4
  | .datetime i, w => w = .datetime i
  | .date i, w => w = .date i
  | .list xs, w => ∃ ys, w = .list ys ∧ SameL env xs ys
  | .dict kvs, w => ∃ kws, w = .dict kws ∧ SameKV env kvs kws ∧ (∀ kw ∈ kws, ∃ kv ∈ kvs, kv.1 = kw.1)
  | .ellipsis, _ => False
  | .other _, _ => False
def SameL (env : Env) : List PyVal → List PyVal → Prop
  | [], ys => ys = []
  | x :: xs, ys => ∃ y ys', ys = y :: ys' ∧ Same env x y ∧ SameL env xs ys'
/-- every key of the original is present in the other dict with the same value -/
def SameKV (env : Env) : List (PyKey × PyVal) → List (PyKey × PyVal) → Prop
  | [], _ => True
  | (k, v) :: r, kws => (∃ w, lookupKey k kws = some w ∧ Same env v w) ∧ SameKV env r kws
end

theorem fromNativeKVs_hasField_inv : ∀ (r : List (PyKey × PyVal)) (fs : List (PyKey × Bool × Schema)) (k : PyKey),
    fromNativeKVs r = .ok fs → hasField k fs = true → ∃ kv ∈ r, kv.1 = k
  | [], fs, k, h, hk => by simp [fromNativeKVs] at h; subst h; simp [hasField] at hk
  | (k', v) :: r, fs, k, h, hk => by
    obtain ⟨a, b, _, hb, rfl⟩ := (fromNativeKVs_cons_ok _ _ _ _).1 h
    simp only [hasField, List.any_cons, Bool.or_eq_true, beq_iff_eq] at hk
    rcases hk with rfl | hk
    · exact ⟨(k', v), by simp, rfl⟩
    · obtain ⟨kv, hkv, he⟩ := fromNativeKVs_hasField_inv r b k hb (by simpa [hasField] using hk)
      exact ⟨kv, List.mem_cons_of_mem _ hkv, he⟩

mutual
theorem fromNative_same (env : Env) : ∀ (v w : PyVal) (s : Schema),
    fromNative v = .ok s → Conforms env s w → Same env v w
  | .none, w, s, h, hc => by
    simp [fromNative] at h; subst h; simpa [Conforms, ConformsScalar, Same] using hc
  | .bool _, w, s, h, hc => by
    simp [fromNative] at h; subst h; simpa [Conforms, ConformsScalar, Same] using hc
  | .int _, w, s, h, hc => by
    simp [fromNative] at h; subst h; simpa [Conforms, ConformsScalar, Same] using hc
  | .float _, w, s, h, hc => by
    simp [fromNative] at h; subst h; simpa [Conforms, ConformsScalar, Same, floatValueOk] using hc
  | .str _, w, s, h, hc => by
    simp [fromNative] at h; subst h
    simp only [Conforms, ConformsScalar] at hc
    obtain ⟨t, rfl, ht, _⟩ := hc
    simp [Same, ht _ rfl]
  | .bytes _, w, s, h, hc => by
    simp [fromNative] at h; subst h; simpa [Conforms, ConformsScalar, Same] using hc
  | .uuid i ver, w, s, h, hc => by
    have hv : ver = 4 := fromNative_ok_plain _ _ h
    subst hv
    simp [fromNative] at h; subst h; simpa [Conforms, ConformsScalar, Same] using hc
  | .datetime _, w, s, h, hc => by
    simp [fromNative] at h; subst h; simpa [Conforms, ConformsScalar, Same] using hc
  | .date _, w, s, h, hc => by
    simp [fromNative] at h; subst h; simpa [Conforms, ConformsScalar, Same, eq_comm] using hc
  | .list xs, w, s, h, hc => by
    obtain ⟨es, he, rfl⟩ := (fromNative_list_ok _ _).1 h
    simp only [Conforms] at hc
    obtain ⟨ys, rfl, _, hc⟩ := hc
    simp at hc
    simp only [Same]
    exact ⟨ys, rfl, fromNativeList_same env xs ys es he hc.1 hc.2⟩
  | .dict kvs, w, s, h, hc => by
    obtain ⟨_, fs, hf, rfl⟩ := (fromNative_dict_ok _ _).1 h
    simp only [Conforms] at hc
    obtain ⟨kws, rfl, hF, hk⟩ := hc
    simp only [Same]
    refine ⟨kws, rfl, fromNativeKVs_same env kvs kws fs hf hF, ?_⟩
    intro kw hkw
    exact fromNativeKVs_hasField_inv kvs fs kw.1 hf (hk trivial kw hkw)
  | .ellipsis, _, _, h, _ => by simp [fromNative] at h
  | .other _, _, _, h, _ => by simp [fromNative] at h
theorem fromNativeList_same (env : Env) : ∀ (xs ys : List PyVal) (es : List Schema),
    fromNativeList xs = .ok es → ys.length = es.length → PrefixC env es ys → SameL env xs ys
  | [], ys, es, h, hl, _ => by
    simp [fromNativeList] at h; subst h
    simpa [SameL] using hl
  | x :: xs, ys, es, h, hl, hp => by
    obtain ⟨a, b, ha, hb, rfl⟩ := (fromNativeList_cons_ok _ _ _).1 h
    cases ys with
    | nil => simp at hl
    | cons y ys' =>
      simp only [PrefixC] at hp
      simp only [SameL]
      exact ⟨y, ys', rfl, fromNative_same env x y a ha hp.1,
        fromNativeList_same env xs ys' b hb (by simpa using hl) hp.2⟩
theorem fromNativeKVs_same (env : Env) : ∀ (r kws : List (PyKey × PyVal)) (fs : List (PyKey × Bool × Schema)),
    fromNativeKVs r = .ok fs → FieldsC env fs kws → SameKV env r kws
  | [], _, _, _, _ => by simp [SameKV]
  | (k, v) :: r, kws, fs, h, hF => by
    obtain ⟨a, b, ha, hb, rfl⟩ := (fromNativeKVs_cons_ok _ _ _ _).1 h
    simp only [FieldsC] at hF
    simp only [SameKV]
    refine ⟨?_, fromNativeKVs_same env r kws b hb hF.2⟩
    have h1 := hF.1
    cases hl : lookupKey k kws with
    | none => rw [hl] at h1; simp at h1
    | some x => rw [hl] at h1; exact ⟨x, rfl, fromNative_same env v x a ha h1⟩
end

/-- **exact.** whatever `from_native(v)` accepts is the same value as `v`: same kind, content,
    length, key set and nested members -/
theorem fromNative_exact (env : Env) (v w : PyVal) (s : Schema)
    (hs : fromNative v = .ok s) (hd : DistinctKeys v) (hc : Conforms env s w) : Same env v w := by
  -- `hd` is not needed: with duplicate keys the field list is either unsatisfiable or still exact
  have _ := hd
  exact fromNative_same env v w s hs hc

/-- non-vacuity -/
example : Plain (.dict [(.str [97], .list [.int 1, .float (.fin 2)]), (.none, .uuid 0 4)]) := by
  simp [Plain, PlainKV, PlainL]

end D42
