/-
  C03 (facts) — the fact stated by every validation error is true of the sub-value it reports.
-/
import D42.Props.C03

namespace D42

/-- does the value have the Python type the error names (isinstance: bools are ints, datetimes are dates) -/
def HasTy : Ty → PyVal → Prop
  | .none, v => v = .none
  | .bool, v => ∃ b, v = .bool b
  | .int, v => (asInt v).isSome
  | .float, v => ∃ f, v = .float f
  | .str, v => ∃ s, v = .str s
  | .list, v => ∃ xs, v = .list xs
  | .dict, v => ∃ kvs, v = .dict kvs
  | .bytes, v => ∃ b, v = .bytes b
  | .uuid, v => ∃ i ver, v = .uuid i ver
  | .datetime, v => ∃ i, v = .datetime i
  | .date, v => (∃ i, v = .date i) ∨ (∃ i, v = .datetime i)

/-- Python `len(value)` for the sized values errors are raised about -/
def pyLen : PyVal → Option Nat
  | .str s => some s.length
  | .list xs => some xs.length
  | _ => none

/-- the fact each error kind states about its `actual` value.
    (`.value`, non-float case: STRENGTHENED w.r.t. the original statement, whose second conjunct was the
    vacuous `asInt a = none ∨ asInt x = none → a ≠ x ∨ True`; it is now `a ≠ x` — the reported value
    differs from the schema's fixed value as a Python value, on top of the int views being different.
    For floats `a ≠ x` would be false: `nan` is reported as unequal to `nan`.) -/
def Fact (env : Env) : Err → Prop
  | .type _ a t => ¬ HasTy t a
  | .value _ a x =>
      (match a, x with
       | .float f, .float y => ∃ prec, floatValueOk env f y prec = false     -- not equal under the schema's tolerance
       | .float _, _ => True
       | a, x => (∀ n m, asInt a = some n → asInt x = some m → n ≠ m) ∧ a ≠ x)
  | .min _ a b =>
      (match a, b with
       | .float f, .float m => PyFloat.ge f m = false
       | a, b => ∃ n m, asInt a = some n ∧ asInt b = some m ∧ n < m)
  | .max _ a b =>
      (match a, b with
       | .float f, .float m => PyFloat.le f m = false
       | a, b => ∃ n m, asInt a = some n ∧ asInt b = some m ∧ n > m)
  | .len _ a n => ∃ k, pyLen a = some k ∧ (k : Int) ≠ n
  | .minLen _ a n => ∃ k, pyLen a = some k ∧ (k : Int) < n
  | .maxLen _ a n => ∃ k, pyLen a = some k ∧ (k : Int) > n
  | .alphabet _ a al => ∃ s, a = .str s ∧ ∃ c ∈ s, c ∉ al
  | .substr _ a sub => ∃ s, a = .str s ∧ ¬ sub <:+: s
  | .regex _ a pat => ∃ s, a = .str s ∧ env.rxSearch pat s = false
  | .missingElem _ a i => ∃ xs, a = .list xs ∧ xs.length ≤ i
  | .extraElem _ a i => ∃ xs, a = .list xs ∧ i < xs.length
  | .missingKey _ a k => ∃ kvs, a = .dict kvs ∧ lookupKey k kvs = none
  | .extraKey _ a k => ∃ kvs, a = .dict kvs ∧ (lookupKey k kvs).isSome
  | .mismatch _ a alts => ∀ alt ∈ alts, ¬ Conforms env alt a
  | .uuidVersion _ a ver => ∃ i, a = .uuid i ver ∧ ver ≠ 4

/-! ### scalar visitor -/

theorem lenErrs_true (env : Env) (L : LenP) (n : Nat) (p : Path) (a : PyVal) (h : pyLen a = some n) :
    ∀ e ∈ lenErrs L n p a, Fact env e := by
  intro e he
  rcases L with ⟨l, mn, mx⟩
  cases l <;> cases mn <;> cases mx <;> simp [lenErrs] at he <;> grind [Fact]

theorem lenErrFirst_true (env : Env) (L : LenP) (n : Nat) (p : Path) (a : PyVal) (h : pyLen a = some n) (e : Err)
    (he : lenErrFirst L n p a = some e) : Fact env e := by
  rcases L with ⟨l, mn, mx⟩
  cases l <;> cases mn <;> cases mx <;> simp [lenErrFirst] at he <;> grind [Fact]

theorem strErrs_true (env : Env) (v : Option Str) (L : LenP) (al sub : Option Str) (pat : Option Pat) (s : Str) (p : Path) :
    ∀ e ∈ strErrs env v L al sub pat s p (.str s), Fact env e := by
  intro e he
  have := lenErrs_true env L s.length p (.str s) rfl
  cases v <;> cases pat <;> cases al <;> cases sub <;>
    simp [strErrs, strRest, strTail, isInfixB] at he <;> grind [Fact, asInt]

theorem fact_min_int (env : Env) (p : Path) (a : PyVal) (n m : Int) (h : asInt a = some n) (hlt : n < m) :
    Fact env (.min p a (.int m)) := by
  cases a <;> simp [asInt] at h <;> simp [Fact, asInt, h] <;> omega

theorem fact_max_int (env : Env) (p : Path) (a : PyVal) (n m : Int) (h : asInt a = some n) (hlt : n > m) :
    Fact env (.max p a (.int m)) := by
  cases a <;> simp [asInt] at h <;> simp [Fact, asInt, h] <;> omega

theorem fact_value_int (env : Env) (p : Path) (a : PyVal) (n m : Int) (h : asInt a = some n) (hne : n ≠ m) :
    Fact env (.value p a (.int m)) := by
  cases a <;> simp [asInt] at h <;> simp [Fact, asInt, h] <;> omega

theorem intBoundErrs_true (env : Env) (mn mx : Option Int) (n : Int) (p : Path) (a : PyVal) (h : asInt a = some n) :
    ∀ e ∈ intBoundErrs mn mx n p a, Fact env e := by
  intro e he
  have h1 := fact_min_int env p a n
  have h2 := fact_max_int env p a n
  cases mn <;> cases mx <;> simp [intBoundErrs] at he <;> grind

theorem validateScalar_true (env : Env) (k : ScalarS) (a : PyVal) (p : Path) :
    ∀ e ∈ validateScalar env k a p, Fact env e := by
  intro e he
  cases k with
  | str v L al sub pat =>
    cases a <;> (first | (simp only [validateScalar] at he; exact strErrs_true _ _ _ _ _ _ _ _ e he) | grind [validateScalar, Fact, HasTy])
  | int v mn mx =>
    simp only [validateScalar] at he
    cases h : asInt a with
    | none => simp [h] at he; subst he; simp [Fact, HasTy, h]
    | some n =>
      have h1 := intBoundErrs_true env mn mx n p a h
      have h2 := fact_value_int env p a n
      cases v <;> simp [h] at he <;> grind
  | float v mn mx prec d1 d2 => cases a <;> cases v <;> cases mn <;> cases mx <;> simp [validateScalar, floatBoundErrs] at he <;> grind [Fact, HasTy]
  | none => cases a <;> grind [validateScalar, Fact, HasTy]
  | bool v => cases v <;> cases a <;> grind [validateScalar, Fact, HasTy, asInt]
  | bytes v => cases v <;> cases a <;> grind [validateScalar, Fact, HasTy, asInt]
  | datetime v => cases v <;> cases a <;> grind [validateScalar, Fact, HasTy, asInt]
  | uuid4 v => rcases v with _ | ⟨i, ver⟩ <;> cases a <;> grind [validateScalar, Fact, HasTy, asInt]
  | date v => rcases v with _ | ⟨b, i⟩ <;> cases a <;> (try cases b) <;> grind [validateScalar, Fact, HasTy, asInt]
/-! ### recursive visitor -/

theorem lookupKey_isSome_of_mem : ∀ (kvs : List (PyKey × PyVal)) (kv : PyKey × PyVal),
    kv ∈ kvs → (lookupKey kv.1 kvs).isSome
  | [], _, h => by simp at h
  | (k', v') :: r, kv, h => by
    simp only [lookupKey]
    split
    · simp
    · rcases List.mem_cons.1 h with rfl | h
      · simp_all
      · exact lookupKey_isSome_of_mem r kv h

theorem AnyC_of_mem (env : Env) (a : PyVal) : ∀ (alts : List Schema) (alt : Schema),
    alt ∈ alts → Conforms env alt a → AnyC env alts a
  | [], _, h, _ => by simp at h
  | s :: ss, alt, h, hc => by
    simp only [AnyC]
    rcases List.mem_cons.1 h with rfl | h
    · exact Or.inl hc
    · exact Or.inr (AnyC_of_mem env a ss alt h hc)

mutual
theorem validateP_true (env : Env) : ∀ (s : Schema) (a : PyVal) (p : Path),
    ∀ e ∈ validateP env false s a p, Fact env e
  | .scalar k, a, p => by
    intro e he
    simp only [validateP] at he
    exact validateScalar_true env k a p e he
  | .listU L, a, p => by
    intro e he
    cases a <;> simp only [validateP, List.mem_singleton] at he <;>
      (try (subst he; simp [Fact, HasTy]))
    case list xs =>
      cases h : lenErrFirst L xs.length p (.list xs) with
      | none => simp [h] at he
      | some e' =>
        simp [h] at he; subst he
        exact lenErrFirst_true env L _ p _ rfl e h
  | .listT t L, a, p => by
    intro e he
    cases a <;> simp only [validateP, List.mem_singleton] at he <;>
      (try (subst he; simp [Fact, HasTy]))
    case list xs =>
      cases h : lenErrFirst L xs.length p (.list xs) with
      | some e' =>
        simp [h] at he; subst he
        exact lenErrFirst_true env L _ p _ rfl e h
      | none =>
        simp only [h] at he
        exact validateAllP_true env t xs 0 xs.length p e he
  | .listE lead es trail L, a, p => by
    intro e he
    cases a <;> simp only [validateP, List.mem_singleton] at he <;>
      (try (subst he; simp [Fact, HasTy]))
    case list xs =>
      cases h : lenErrFirst L xs.length p (.list xs) with
      | some e' =>
        simp [h] at he; subst he
        exact lenErrFirst_true env L _ p _ rfl e h
      | none =>
        simp only [h] at he
        have hE := validateElemsP_true env es
        split at he
        · split at he
          · exact hE xs 0 (.list xs) p xs rfl (by simp) e he
          · cases xs with
            | nil => simp [windowsP, minByLen] at he
            | cons x xs' =>
              have hm := minByLen_mem _ (show windowsP env false es (x :: xs') 0 (x :: xs').length (.list (x :: xs')) p ≠ [] by simp [windowsP])
              exact windowsP_true env es (x :: xs') 0 _ (.list (x :: xs')) p (x :: xs') rfl (by simp) _ hm e he
        · split at he
          · exact hE xs 0 (.list xs) p xs rfl (by simp) e he
          · split at he
            · exact hE _ _ (.list xs) p xs rfl rfl e he
            · rcases List.mem_append.1 he with he | he
              · exact hE xs 0 (.list xs) p xs rfl (by simp) e he
              · simp [extraElems] at he
                obtain ⟨i, hi, rfl⟩ := he
                simp [Fact]; omega
  | .dict none _, a, p => by
    intro e he
    cases a <;> simp [validateP] at he <;> subst he <;> simp [Fact, HasTy]
  | .dict (some fs) ell, a, p => by
    intro e he
    cases a <;> simp only [validateP, List.mem_singleton] at he <;>
      (try (subst he; simp [Fact, HasTy]))
    case dict kvs =>
      rcases List.mem_append.1 he with he | he
      · exact validateFieldsP_true env fs kvs (.dict kvs) p rfl e he
      · split at he
        · simp at he
        · simp at he
          obtain ⟨k, ⟨⟨v, hmem⟩, _⟩, rfl⟩ := he
          simp only [Fact]
          exact ⟨kvs, rfl, lookupKey_isSome_of_mem kvs (k, v) hmem⟩
  | .any none, _, _ => by simp [validateP]
  | .any (some ts), a, p => by
    intro e he
    simp only [validateP] at he
    split at he
    · simp at he
    · rename_i hok
      simp at he; subst he
      simp only [Fact]
      intro alt halt hc
      exact hok ((anyOkP_iff env ts a p).2 (AnyC_of_mem env a ts alt halt hc))
  | .alias _ t, a, p => by
    intro e he; simp only [validateP] at he; exact validateP_true env t a p e he
  | .custom t, a, p => by
    intro e he; simp only [validateP] at he; exact validateP_true env t a p e he
theorem validateAllP_true (env : Env) (t : Schema) : ∀ (xs : List PyVal) (i n : Nat) (p : Path),
    ∀ e ∈ validateAllP env false t xs i n p, Fact env e
  | [], _, _, _ => by simp [validateAllP]
  | x :: xs, i, n, p => by
    intro e he
    simp only [validateAllP] at he
    rcases List.mem_append.1 he with he | he
    · split at he
      · simp at he
      · exact validateP_true env t x _ e he
    · exact validateAllP_true env t xs (i + 1) n p e he
theorem validateElemsP_true (env : Env) : ∀ (ss : List Schema) (xs : List PyVal) (i : Nat) (a : PyVal) (p : Path) (whole : List PyVal),
    a = .list whole → whole.drop i = xs → ∀ e ∈ validateElemsP env false ss xs i a p, Fact env e
  | [], _, _, _, _, _, _, _ => by simp [validateElemsP]
  | _ :: _, [], i, a, p, whole, ha, hd => by
    intro e he
    simp [validateElemsP] at he; subst he; subst ha
    simp only [Fact]
    exact ⟨whole, rfl, List.drop_eq_nil_iff.1 hd⟩
  | s :: ss, x :: xs, i, a, p, whole, ha, hd => by
    intro e he
    have hc := drop_cons_getElem whole i x xs hd
    simp only [validateElemsP] at he
    rcases List.mem_append.1 he with he | he
    · exact validateP_true env s x _ e he
    · exact validateElemsP_true env ss xs (i + 1) a p whole ha hc.2 e he
theorem windowsP_true (env : Env) (elems : List Schema) : ∀ (xs : List PyVal) (i n : Nat) (a : PyVal) (p : Path) (whole : List PyVal),
    a = .list whole → whole.drop i = xs → ∀ w ∈ windowsP env false elems xs i n a p, ∀ e ∈ w, Fact env e
  | [], _, _, _, _, _, _, _ => by simp [windowsP]
  | x :: xs, i, n, a, p, whole, ha, hd => by
    intro w hw e he
    have hc := drop_cons_getElem whole i x xs hd
    simp only [windowsP, List.mem_cons] at hw
    rcases hw with rfl | hw
    · exact validateElemsP_true env elems (x :: xs) i a p whole ha hd e he
    · exact windowsP_true env elems xs (i + 1) n a p whole ha hc.2 w hw e he
theorem validateFieldsP_true (env : Env) : ∀ (fs : List (PyKey × Bool × Schema)) (kvs : List (PyKey × PyVal)) (a : PyVal) (p : Path),
    a = .dict kvs → ∀ e ∈ validateFieldsP env false fs kvs a p, Fact env e
  | [], _, _, _, _ => by simp [validateFieldsP]
  | (k, opt, s) :: fs, kvs, a, p, ha => by
    intro e he
    simp only [validateFieldsP] at he
    rcases List.mem_append.1 he with he | he
    · cases hl : lookupKey k kvs with
      | none =>
        simp only [hl] at he
        split at he
        · simp at he
        · simp at he; subst he; subst ha
          simp only [Fact]
          exact ⟨kvs, rfl, hl⟩
      | some x =>
        simp only [hl] at he
        split at he
        · simp at he
        · exact validateP_true env s x _ e he
    · exact validateFieldsP_true env fs kvs a p ha e he
end

/-- **C03 (truth).** The fact stated by every error the validator returns is true of the sub-value
    the error reports — wrong type, unequal value, below min, above max, wrong length, character outside
    the alphabet, missing substring, regex mismatch, missing/extra key or element at the stated key/index,
    no alternative matched, wrong UUID version. -/
theorem errors_true (env : Env) (s : Schema) (v : PyVal) (p : Path) :
    ∀ e ∈ validateP env false s v p, Fact env e :=
  validateP_true env s v p

/-- errors of sibling elements never leak into each other's paths: an error produced while validating
    element `i` of a list (resp. key `k` of a dict) has `p ++ [idx i]` (resp. `p ++ [key k]`) as a path prefix -/
theorem siblings_disjoint_list (env : Env) (sub : Bool) (s : Schema) (x : PyVal) (p : Path) (i : Nat) :
    ∀ e ∈ validateP env sub s x (p ++ [.idx i]), (p ++ [.idx i]) <+: e.path := by
  intro e he
  obtain ⟨q, h1, _⟩ := validateP_located env sub s x _ e he
  exact ⟨q, h1.symm⟩

theorem siblings_disjoint_dict (env : Env) (sub : Bool) (s : Schema) (x : PyVal) (p : Path) (k : PyKey) :
    ∀ e ∈ validateP env sub s x (p ++ [.key k]), (p ++ [.key k]) <+: e.path := by
  intro e he
  obtain ⟨q, h1, _⟩ := validateP_located env sub s x _ e he
  exact ⟨q, h1.symm⟩

/-- the path a rendered message names: the error's own path, extended by the missing index/key for the
    two "does not exist" errors (this is what `Formatter` prints; wording itself is not modelled) -/
def shownPath : Err → Path
  | .missingElem p _ i => p ++ [.idx i]
  | .missingKey p _ k => p ++ [.key k]
  | e => e.path

theorem shownPath_extends (e : Err) : e.path <+: shownPath e := by
  cases e <;> simp [shownPath, Err.path]

end D42
