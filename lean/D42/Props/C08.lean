/-
  C08 — validation is total; failing is reporting.
-/
import D42.Model.Validate
import D42.Model.Format

namespace D42

theorem pyRound_err {f : PyFloat} {e : PyExc} (h : pyRound f = .error e) :
    e = .valueError ∨ e = .overflowError := by
  cases f <;> simp [pyRound] at h <;> simp [← h]

theorem floatValueOkX_ok (env : Env) (f x : PyFloat) (prec : Option Nat) :
    floatValueOkX env f x prec = .ok (floatValueOk env f x prec) := by
  unfold floatValueOkX floatValueOk eqAtPrecision
  cases prec with
  | none => rfl
  | some pr =>
    simp only []
    cases h1 : pyRound (fscale env f pr) with
    | error e1 =>
      rcases pyRound_err h1 with rfl | rfl <;> simp [bind, Except.bind]
    | ok a =>
      cases h2 : pyRound (fscale env x pr) with
      | error e2 => rcases pyRound_err h2 with rfl | rfl <;> simp [bind, Except.bind]
      | ok b => simp [bind, Except.bind, pure, Except.pure]

theorem validateScalarX_ok (env : Env) (k : ScalarS) (a : PyVal) (p : Path) :
    validateScalarX env k a p = .ok (validateScalar env k a p) := by
  cases k <;> try rfl
  case float v mn mx prec d1 d2 =>
    cases a <;> try rfl
    case float f =>
      cases v with
      | none => rfl
      | some x =>
        simp [validateScalarX, validateScalar, floatValueOkX_ok, bind, Except.bind, pure, Except.pure]

end D42

namespace D42

mutual
theorem validate_ok (env : Env) (sub : Bool) : ∀ (s : Schema) (a : PyVal) (p : Path),
    validate env sub s a p = .ok (validateP env sub s a p)
  | .scalar k, a, p => by simp [validate, validateP, validateScalarX_ok]
  | .listU L, a, p => by cases a <;> simp [validate, validateP, pure, Except.pure]
  | .listT t L, a, p => by
    cases a <;> simp [validate, validateP, pure, Except.pure]
    case list xs =>
      cases lenErrFirst L xs.length p (.list xs) <;> simp [validateAll_ok env sub t]
  | .listE lead elems trail L, a, p => by
    cases a <;> simp [validate, validateP, pure, Except.pure]
    case list xs =>
      cases lenErrFirst L xs.length p (.list xs) <;>
        simp [validateElems_ok env sub elems, windows_ok env sub elems, bind, Except.bind, pure, Except.pure]
      repeat' split
      all_goals simp
  | .dict none _, a, p => by cases a <;> simp [validate, validateP, pure, Except.pure]
  | .dict (some fs) ell, a, p => by
    cases a <;> simp [validate, validateP, pure, Except.pure, validateFields_ok env sub fs, bind, Except.bind]
  | .any none, _, _ => by simp [validate, validateP, pure, Except.pure]
  | .any (some ts), a, p => by
    simp [validate, validateP, anyOk_ok env sub ts, bind, Except.bind, pure, Except.pure]
  | .alias _ t, a, p => by simp [validate, validateP, validate_ok env sub t]
  | .custom t, a, p => by simp [validate, validateP, validate_ok env sub t]
theorem validateAll_ok (env : Env) (sub : Bool) (t : Schema) : ∀ (xs : List PyVal) (i n : Nat) (p : Path),
    validateAll env sub t xs i n p = .ok (validateAllP env sub t xs i n p)
  | [], _, _, _ => by simp [validateAll, validateAllP, pure, Except.pure]
  | x :: xs, i, n, p => by
    simp only [validateAll, validateAllP, validateAll_ok env sub t xs, validate_ok env sub t]
    by_cases h : (sub && isEllipsis x && (i == 0 || i + 1 == n)) = true <;>
      simp [h, bind, Except.bind, pure, Except.pure]
theorem validateElems_ok (env : Env) (sub : Bool) : ∀ (ss : List Schema) (xs : List PyVal) (i : Nat) (a : PyVal) (p : Path),
    validateElems env sub ss xs i a p = .ok (validateElemsP env sub ss xs i a p)
  | [], _, _, _, _ => by simp [validateElems, validateElemsP, pure, Except.pure]
  | _ :: _, [], i, a, p => by simp [validateElems, validateElemsP, pure, Except.pure]
  | s :: ss, x :: xs, i, a, p => by
    simp [validateElems, validateElemsP, validateElems_ok env sub ss xs, validate_ok env sub s,
      bind, Except.bind, pure, Except.pure]
theorem windows_ok (env : Env) (sub : Bool) (elems : List Schema) : ∀ (xs : List PyVal) (i n : Nat) (a : PyVal) (p : Path),
    windows env sub elems xs i n a p = .ok (windowsP env sub elems xs i n a p)
  | [], _, _, _, _ => by simp [windows, windowsP, pure, Except.pure]
  | x :: xs, i, n, a, p => by
    simp [windows, windowsP, windows_ok env sub elems xs, validateElems_ok env sub elems,
      bind, Except.bind, pure, Except.pure]
theorem validateFields_ok (env : Env) (sub : Bool) : ∀ (fs : List (PyKey × Bool × Schema)) (kvs : List (PyKey × PyVal)) (a : PyVal) (p : Path),
    validateFields env sub fs kvs a p = .ok (validateFieldsP env sub fs kvs a p)
  | [], _, _, _ => by simp [validateFields, validateFieldsP, pure, Except.pure]
  | (k, opt, s) :: fs, kvs, a, p => by
    simp only [validateFields, validateFieldsP, validateFields_ok env sub fs, validate_ok env sub s]
    cases lookupKey k kvs with
    | none => simp [bind, Except.bind, pure, Except.pure]
    | some x =>
      by_cases h : (sub && isEllipsis x) = true <;> simp [h, bind, Except.bind, pure, Except.pure]
theorem anyOk_ok (env : Env) (sub : Bool) : ∀ (ss : List Schema) (a : PyVal) (p : Path),
    anyOk env sub ss a p = .ok (anyOkP env sub ss a p)
  | [], _, _ => by simp [anyOk, anyOkP, pure, Except.pure]
  | s :: ss, a, p => by
    simp only [anyOk, anyOkP, validate_ok env sub s, anyOk_ok env sub ss, bind, Except.bind]
    cases (validateP env sub s a p).isEmpty <;> simp [pure, Except.pure]
end

end D42

/-! ### every error renders; `validate_or_fail` -/

namespace D42

/-- the errors the validator raises about lengths are about sized values only -/
def Sized : PyVal → Prop
  | .str _ | .bytes _ | .list _ | .dict _ => True
  | _ => False

def Renderable : Err → Prop
  | .len _ a _ | .minLen _ a _ | .maxLen _ a _ => Sized a
  | _ => True

theorem formatX_ok_of_renderable (e : Err) (h : Renderable e) : ∃ m, formatX e = .ok m := by
  cases e <;> (try (exact ⟨_, rfl⟩)) <;>
    (rename_i p a n; cases a <;> simp_all [Renderable, Sized] <;> exact ⟨_, rfl⟩)

end D42
