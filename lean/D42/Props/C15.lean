/-
  C15 — schema equality is structural; schema == value means the value validates.
-/
import D42.Model.Eq
import D42.Props.C02

namespace D42

mutual
/-- no NaN as a fixed value or bound of a float schema (finding K6: nan != nan) -/
def NoNaNS : Schema → Prop
  | .scalar (.float v mn mx _ _ _) => v ≠ some .nan ∧ mn ≠ some .nan ∧ mx ≠ some .nan
  | .scalar _ => True
  | .listU _ => True
  | .listT t _ => NoNaNS t
  | .listE _ es _ _ => NoNaNSL es
  | .dict none _ => True
  | .dict (some fs) _ => NoNaNSF fs
  | .any none => True
  | .any (some ts) => NoNaNSL ts
  | .alias _ t => NoNaNS t
  | .custom t => NoNaNS t
def NoNaNSL : List Schema → Prop
  | [] => True
  | s :: ss => NoNaNS s ∧ NoNaNSL ss
def NoNaNSF : List (PyKey × Bool × Schema) → Prop
  | [] => True
  | (_, _, s) :: fs => NoNaNS s ∧ NoNaNSF fs
end

mutual
/-- dict schemas have distinct keys at every level (true of every schema Python can build) -/
def KeysNodup : Schema → Prop
  | .scalar _ => True
  | .listU _ => True
  | .listT t _ => KeysNodup t
  | .listE _ es _ _ => KeysNodupL es
  | .dict none _ => True
  | .dict (some fs) _ => (fs.map (·.1)).Nodup ∧ KeysNodupF fs
  | .any none => True
  | .any (some ts) => KeysNodupL ts
  | .alias _ t => KeysNodup t
  | .custom t => KeysNodup t
def KeysNodupL : List Schema → Prop
  | [] => True
  | s :: ss => KeysNodup s ∧ KeysNodupL ss
def KeysNodupF : List (PyKey × Bool × Schema) → Prop
  | [] => True
  | (_, _, s) :: fs => KeysNodup s ∧ KeysNodupF fs
end

/-! ### helper lemmas and the theorems -/


theorem optEq_refl {α} (eq : α → α → Bool) (h : ∀ x, eq x x = true) (a : Option α) : optEq eq a a = true := by
  cases a <;> simp [optEq, h]

theorem optEq_symm {α} (eq : α → α → Bool) (h : ∀ x y, eq x y = eq y x) (a b : Option α) :
    optEq eq a b = optEq eq b a := by
  cases a <;> cases b <;> simp only [optEq]; exact h _ _

theorem optEq_beq_iff {α} [BEq α] [LawfulBEq α] (a b : Option α) : optEq (· == ·) a b = true ↔ a = b := by
  cases a <;> cases b <;> simp [optEq]

theorem optEqB_symm {α} [BEq α] [LawfulBEq α] (a b : Option α) :
    optEq (· == ·) a b = optEq (· == ·) b a :=
  optEq_symm _ (fun _ _ => BEq.comm) a b

theorem optEqB_refl {α} [BEq α] [LawfulBEq α] (a : Option α) : optEq (· == ·) a a = true :=
  optEq_refl _ (fun _ => by simp) a

theorem PyFloat.eq_symm (a b : PyFloat) : PyFloat.eq a b = PyFloat.eq b a := by
  cases a <;> cases b <;> simp [PyFloat.eq, eq_comm]

theorem PyFloat.eq_iff (a b : PyFloat) : PyFloat.eq a b = true ↔ a = b ∧ a ≠ .nan := by
  cases a <;> cases b <;> simp [PyFloat.eq]

theorem lenPEq_symm (L M : LenP) : lenPEq L M = lenPEq M L := by
  unfold lenPEq
  rw [optEqB_symm L.len, optEqB_symm L.minLen, optEqB_symm L.maxLen]

theorem lenPEq_refl (L : LenP) : lenPEq L L = true := by
  simp [lenPEq, optEqB_refl]

theorem lenPEq_iff (L M : LenP) : lenPEq L M = true ↔ L = M := by
  rcases L with ⟨a, b, c⟩; rcases M with ⟨a', b', c'⟩
  simp [lenPEq, optEq_beq_iff, and_assoc]

theorem and_congr2 {a b c d : Bool} (h1 : a = c) (h2 : b = d) : (a && b) = (c && d) := by rw [h1, h2]

theorem scalarEq_symm (a b : ScalarS) : scalarEq a b = scalarEq b a := by
  cases a <;> cases b <;> simp only [scalarEq] <;>
    (repeat' (first
      | exact optEqB_symm _ _
      | exact optEq_symm _ PyFloat.eq_symm _ _
      | exact lenPEq_symm _ _
      | exact optEq_symm _ (fun _ _ => BEq.comm) _ _
      | exact optEq_symm _ (fun x y => by rw [BEq.comm (a := x.1), BEq.comm (a := x.2)]) _ _
      | refine and_congr2 ?_ ?_))

theorem optEq_pf_iff (a b : Option PyFloat) : optEq PyFloat.eq a b = true → a = b := by
  cases a <;> cases b <;> simp [optEq, PyFloat.eq_iff]
  intro h _; exact h

/-- K6 witness: a NaN fixed value makes a schema unequal to itself -/
theorem pyEq_nan_counterexample (env : Env) :
    pyEq env (.scalar (.float (some .nan) none none none none none)) (.scalar (.float (some .nan) none none none none none)) = false := by
  simp [pyEq, scalarEq, optEq, PyFloat.eq]

/-- **schema == value** is true exactly when the value validates -/
theorem pyEqValue_iff (env : Env) (s : Schema) (v : PyVal) : pyEqValue env s v = true ↔ Conforms env s v := by
  unfold pyEqValue
  rw [List.isEmpty_iff]
  exact validate_iff_conforms env s v

/-- scalar equality is equality of the declared props (decimal companions aside), so equal scalars have
    the same meaning -/
theorem scalarEq_same_meaning (env : Env) (a b : ScalarS) (h : scalarEq a b = true) (v : PyVal) :
    ConformsScalar env a v ↔ ConformsScalar env b v := by
  cases a <;> cases b <;> simp only [scalarEq, Bool.and_eq_true, optEq_beq_iff, lenPEq_iff, Bool.false_eq_true] at h
  case none.none => exact Iff.rfl
  case bool.bool => subst h; exact Iff.rfl
  case int.int => obtain ⟨⟨rfl, rfl⟩, rfl⟩ := h; exact Iff.rfl
  case float.float =>
    obtain ⟨⟨⟨h1, h2⟩, h3⟩, rfl⟩ := h
    have := optEq_pf_iff _ _ h1; have := optEq_pf_iff _ _ h2; have := optEq_pf_iff _ _ h3
    subst_vars
    simp only [ConformsScalar]
  case str.str a1 aL a3 a4 a5 b1 bL b3 b4 b5 =>
    obtain ⟨⟨⟨⟨rfl, rfl⟩, rfl⟩, rfl⟩, h5⟩ := h
    simp only [ConformsScalar]
    cases a5 <;> cases b5 <;> simp [optEq] at h5 ⊢
    simp [h5]
  case bytes.bytes => subst h; exact Iff.rfl
  case uuid4.uuid4 a b =>
    simp only [ConformsScalar]
    cases a <;> cases b <;> simp [optEq] at h ⊢
    simp [h]
  case datetime.datetime => subst h; exact Iff.rfl
  case date.date a b =>
    have : a = b := by
      cases a <;> cases b <;> simp [optEq] at h ⊢
      exact Prod.ext h.1 h.2
    subst this; exact Iff.rfl

/-- changing a single declared int bound makes schemas unequal -/
theorem pyEq_discriminates_int (env : Env) (v mn mx v' mn' mx' : Option Int)
    (h : pyEq env (.scalar (.int v mn mx)) (.scalar (.int v' mn' mx')) = true) : v = v' ∧ mn = mn' ∧ mx = mx' := by
  simpa [pyEq, scalarEq, optEq_beq_iff, and_assoc] using h

theorem eqFields_flags (env : Env) (fb : List (PyKey × Bool × Schema)) :
    ∀ (fa : List (PyKey × Bool × Schema)), eqFields env fa fb = true →
      ∀ f ∈ fa, ∃ g ∈ fb, g.1 = f.1 ∧ g.2.1 = f.2.1 ∧ pyEq env f.2.2 g.2.2 = true
  | [], _, f, hf => by simp at hf
  | (k, o, s) :: r, h, f, hf => by
    simp only [eqFields, Bool.and_eq_true] at h
    rcases List.mem_cons.1 hf with rfl | hf'
    · cases hfind : fb.find? (fun f => f.1 == k) with
      | none => simp [hfind] at h
      | some g =>
        simp only [hfind, Bool.and_eq_true, beq_iff_eq] at h
        refine ⟨g, List.mem_of_find?_eq_some hfind, ?_, h.1.1.symm, h.1.2⟩
        simpa using List.find?_some hfind
    · exact eqFields_flags env fb r h.2 f hf'

/-- changing optionality, a key, or relaxedness of a dict makes schemas unequal -/
theorem pyEq_dict_flags (env : Env) (fa fb : List (PyKey × Bool × Schema)) (ea eb : Option Nat)
    (h : pyEq env (.dict (some fa) ea) (.dict (some fb) eb) = true) :
    ea.isSome = eb.isSome ∧ fa.length = fb.length ∧
      ∀ f ∈ fa, ∃ g ∈ fb, g.1 = f.1 ∧ g.2.1 = f.2.1 := by
  simp only [pyEq, Bool.and_eq_true, beq_iff_eq] at h
  refine ⟨h.1.1, h.1.2, fun f hf => ?_⟩
  obtain ⟨g, hg, h1, h2, _⟩ := eqFields_flags env fb fa h.2 f hf
  exact ⟨g, hg, h1, h2⟩

/-- K8 witness: `schema.list([schema.any, ...]) == schema.list([schema.any, schema.any])` although they
    accept different lists -/
theorem pyEq_universal_counterexample (env : Env) :
    let a := Schema.listE false [.any none] true {}
    let b := Schema.listE false [.any none, .any none] false {}
    pyEq env a b = true ∧ Conforms env a (.list [.int 1]) ∧ ¬ Conforms env b (.list [.int 1]) := by
  refine ⟨?_, ?_, ?_⟩
  · simp [pyEq, elemList, eqElems, validateP, lenPEq, optEq]
  · simp [Conforms, LenOK, PrefixC]
  · simp [Conforms]

/-! ### element lists as Python compares them -/

def eqOpt (env : Env) : Option Schema → Option Schema → Bool
  | none, none => true
  | some a, some b => pyEq env a b
  | some a, none => (validateP env false a .ellipsis []).isEmpty
  | none, some b => (validateP env false b .ellipsis []).isEmpty

def eqOL (env : Env) : List (Option Schema) → List (Option Schema) → Bool
  | [], [] => true
  | x :: xs, y :: ys => eqOpt env x y && eqOL env xs ys
  | _, _ => false

theorem eqElems_eq (env : Env) : ∀ (es : List Schema) (tr : Bool) (ys : List (Option Schema)),
    eqElems env es tr ys = eqOL env (es.map some ++ (if tr then [none] else [])) ys
  | [], true, [] => by simp [eqElems, eqOL]
  | [], true, [y] => by cases y <;> simp [eqElems, eqOL, eqOpt]
  | [], true, y :: z :: r => by simp [eqElems, eqOL]
  | [], false, [] => by simp [eqElems, eqOL]
  | [], false, _ :: _ => by simp [eqElems, eqOL]
  | _ :: _, _, [] => by simp [eqElems, eqOL]
  | e :: es, tr, y :: ys => by
    cases y <;> simp [eqElems, eqOL, eqOpt, eqElems_eq env es tr ys]

theorem pyEq_listE (env : Env) (lead : Bool) (es : List Schema) (trail : Bool) (L : LenP)
    (lead2 : Bool) (es2 : List Schema) (trail2 : Bool) (M : LenP) :
    pyEq env (.listE lead es trail L) (.listE lead2 es2 trail2 M) =
      (eqOL env (elemList lead es trail) (elemList lead2 es2 trail2) && lenPEq L M) := by
  simp only [pyEq]
  cases lead
  · simp [elemList, eqElems_eq]
  · simp only [if_true]
    have : elemList true es trail = none :: (es.map some ++ (if trail then [none] else [])) := by
      simp [elemList]
    rw [this]
    cases elemList lead2 es2 trail2 with
    | nil => simp [eqOL]
    | cons y ys => cases y <;> simp [eqOL, eqOpt, eqElems_eq]

theorem mem_elemList (lead : Bool) (es : List Schema) (trail : Bool) (s : Schema) :
    some s ∈ elemList lead es trail ↔ s ∈ es := by
  cases lead <;> cases trail <;> simp [elemList]

theorem eqOL_refl (env : Env) : ∀ (A : List (Option Schema)),
    (∀ s, some s ∈ A → pyEq env s s = true) → eqOL env A A = true
  | [], _ => by simp [eqOL]
  | x :: xs, h => by
    simp only [eqOL, Bool.and_eq_true]
    refine ⟨?_, eqOL_refl env xs (fun s hs => h s (List.mem_cons_of_mem _ hs))⟩
    cases x with
    | none => simp [eqOpt]
    | some s => simpa [eqOpt] using h s (by simp)

theorem eqOL_symm (env : Env) : ∀ (A B : List (Option Schema)),
    (∀ s, some s ∈ A → ∀ t, some t ∈ B → pyEq env s t = pyEq env t s) → eqOL env A B = eqOL env B A
  | [], [], _ => rfl
  | [], _ :: _, _ => by simp [eqOL]
  | _ :: _, [], _ => by simp [eqOL]
  | x :: xs, y :: ys, h => by
    simp only [eqOL]
    refine and_congr2 ?_ (eqOL_symm env xs ys (fun s hs t ht =>
      h s (List.mem_cons_of_mem _ hs) t (List.mem_cons_of_mem _ ht)))
    cases x <;> cases y <;> simp only [eqOpt]
    exact h _ (by simp) _ (by simp)

theorem eqList_refl (env : Env) : ∀ (xs : List Schema), (∀ s ∈ xs, pyEq env s s = true) → eqList env xs xs = true
  | [], _ => by simp [eqList]
  | x :: xs, h => by
    simp only [eqList, Bool.and_eq_true]
    exact ⟨h x (by simp), eqList_refl env xs (fun s hs => h s (List.mem_cons_of_mem _ hs))⟩

theorem eqList_symm (env : Env) : ∀ (xs ys : List Schema),
    (∀ s ∈ xs, ∀ t ∈ ys, pyEq env s t = pyEq env t s) → eqList env xs ys = eqList env ys xs
  | [], [], _ => rfl
  | [], _ :: _, _ => by simp [eqList]
  | _ :: _, [], _ => by simp [eqList]
  | x :: xs, y :: ys, h => by
    simp only [eqList]
    exact and_congr2 (h x (by simp) y (by simp)) (eqList_symm env xs ys (fun s hs t ht =>
      h s (List.mem_cons_of_mem _ hs) t (List.mem_cons_of_mem _ ht)))

/-! ### dict fields -/

theorem find_key {β} : ∀ (fs : List (PyKey × β)), (fs.map (·.1)).Nodup → ∀ f ∈ fs,
    fs.find? (fun g => g.1 == f.1) = some f
  | [], _, f, hf => by simp at hf
  | g :: r, hnd, f, hf => by
    simp only [List.map_cons, List.nodup_cons] at hnd
    rcases List.mem_cons.1 hf with rfl | hf'
    · simp
    · have hne : ¬ g.1 = f.1 := fun he => hnd.1 (he ▸ List.mem_map_of_mem hf')
      have hb' : (g.1 == f.1) = false := by simp [hne]
      rw [List.find?_cons, hb']
      exact find_key r hnd.2 f hf'

theorem eqFields_iff (env : Env) (b : List (PyKey × Bool × Schema)) (hb : (b.map (·.1)).Nodup) :
    ∀ (a : List (PyKey × Bool × Schema)), eqFields env a b = true ↔
      ∀ f ∈ a, ∃ g ∈ b, g.1 = f.1 ∧ g.2.1 = f.2.1 ∧ pyEq env f.2.2 g.2.2 = true := by
  intro a
  refine ⟨eqFields_flags env b a, ?_⟩
  induction a with
  | nil => intro _; simp [eqFields]
  | cons f r ih =>
    intro h
    obtain ⟨k, o, s⟩ := f
    simp only [eqFields, Bool.and_eq_true]
    refine ⟨?_, ih (fun f hf => h f (List.mem_cons_of_mem _ hf))⟩
    obtain ⟨g, hg, h1, h2, h3⟩ := h (k, o, s) (by simp)
    have := find_key b hb g hg
    simp only at h1 h2 h3
    rw [h1] at this
    simp [this, h2, h3]

theorem subset_of_nodup_of_length_le {α} [DecidableEq α] : ∀ (l1 l2 : List α),
    l1.Nodup → l1 ⊆ l2 → l2.length ≤ l1.length → l2 ⊆ l1
  | [], l2, _, _, hl => by
    have : l2 = [] := List.length_eq_zero_iff.1 (Nat.le_zero.1 hl)
    simp [this]
  | x :: t, l2, hnd, hsub, hl => by
    simp only [List.nodup_cons] at hnd
    have hx : x ∈ l2 := hsub (by simp)
    have hlen : (l2.erase x).length ≤ t.length := by
      rw [List.length_erase_of_mem hx]; simp at hl; omega
    have hsub' : t ⊆ l2.erase x := by
      intro y hy
      have hne : y ≠ x := fun he => hnd.1 (he ▸ hy)
      exact (List.mem_erase_of_ne hne).2 (hsub (List.mem_cons_of_mem _ hy))
    have ih := subset_of_nodup_of_length_le t (l2.erase x) hnd.2 hsub' hlen
    intro y hy
    by_cases he : y = x
    · simp [he]
    · exact List.mem_cons_of_mem _ (ih ((List.mem_erase_of_ne he).2 hy))

theorem eqFields_swap (env : Env) (a b : List (PyKey × Bool × Schema))
    (ha : (a.map (·.1)).Nodup) (hb : (b.map (·.1)).Nodup) (hlen : a.length = b.length)
    (hs : ∀ f ∈ a, ∀ g ∈ b, pyEq env f.2.2 g.2.2 = pyEq env g.2.2 f.2.2)
    (h : eqFields env a b = true) : eqFields env b a = true := by
  rw [eqFields_iff env b hb] at h
  rw [eqFields_iff env a ha]
  have hsub : a.map (·.1) ⊆ b.map (·.1) := by
    intro k hk
    obtain ⟨f, hf, rfl⟩ := List.mem_map.1 hk
    obtain ⟨g, hg, h1, _⟩ := h f hf
    exact h1 ▸ List.mem_map_of_mem hg
  have hsub' := subset_of_nodup_of_length_le _ _ ha hsub (by simp [hlen])
  intro g hg
  obtain ⟨f, hf, hfk⟩ := List.mem_map.1 (hsub' (List.mem_map_of_mem (f := (·.1)) hg))
  obtain ⟨g', hg', h1, h2, h3⟩ := h f hf
  have e1 := find_key b hb g hg
  have e2 := find_key b hb g' hg'
  rw [h1, hfk, e1] at e2
  cases Option.some.inj e2
  exact ⟨f, hf, hfk, h2.symm, by rw [← hs f hf g hg]; exact h3⟩

theorem eqFields_symm (env : Env) (a b : List (PyKey × Bool × Schema))
    (ha : (a.map (·.1)).Nodup) (hb : (b.map (·.1)).Nodup) (hlen : a.length = b.length)
    (hs : ∀ f ∈ a, ∀ g ∈ b, pyEq env f.2.2 g.2.2 = pyEq env g.2.2 f.2.2) :
    eqFields env a b = eqFields env b a := by
  rw [Bool.eq_iff_iff]
  exact ⟨eqFields_swap env a b ha hb hlen hs,
    eqFields_swap env b a hb ha hlen.symm (fun g hg f hf => (hs f hf g hg).symm)⟩

theorem optEq_pf_refl (a : Option PyFloat) (h : a ≠ some .nan) : optEq PyFloat.eq a a = true := by
  cases a with
  | none => simp [optEq]
  | some f => cases f <;> simp [optEq, PyFloat.eq] at h ⊢

theorem scalarEq_refl (k : ScalarS) (h : NoNaNS (.scalar k)) : scalarEq k k = true := by
  cases k <;> simp only [scalarEq, Bool.and_eq_true, optEqB_refl, lenPEq_refl, and_self, true_and]
  case float v mn mx pr d1 d2 =>
    simp only [NoNaNS] at h
    exact ⟨⟨⟨optEq_pf_refl _ h.1, optEq_pf_refl _ h.2.1⟩, optEq_pf_refl _ h.2.2⟩, trivial⟩
  case str => exact optEq_refl _ (fun _ => by simp) _
  case uuid4 => exact optEq_refl _ (fun _ => by simp) _
  case date => exact optEq_refl _ (fun _ => by simp) _

mutual
theorem pyEq_refl' (env : Env) : ∀ (s : Schema), NoNaNS s → KeysNodup s → pyEq env s s = true
  | .scalar k, hn, _ => by simp only [pyEq]; exact scalarEq_refl k hn
  | .listU L, _, _ => by simp only [pyEq]; exact lenPEq_refl L
  | .listT t L, hn, hk => by
    simp only [NoNaNS] at hn; simp only [KeysNodup] at hk
    simp only [pyEq, Bool.and_eq_true]; exact ⟨pyEq_refl' env t hn hk, lenPEq_refl L⟩
  | .listE lead es trail L, hn, hk => by
    simp only [NoNaNS] at hn; simp only [KeysNodup] at hk
    rw [pyEq_listE, Bool.and_eq_true]
    refine ⟨eqOL_refl env _ (fun s hs => ?_), lenPEq_refl L⟩
    exact pyEq_reflL env es hn hk s ((mem_elemList _ _ _ _).1 hs)
  | .dict none _, _, _ => by simp [pyEq]
  | .dict (some fs) e, hn, hk => by
    simp only [NoNaNS] at hn; simp only [KeysNodup] at hk
    simp only [pyEq, Bool.and_eq_true, beq_self_eq_true, true_and]
    rw [eqFields_iff env fs hk.1]
    exact fun f hf => ⟨f, hf, rfl, rfl, pyEq_reflF env fs hn hk.2 f hf⟩
  | .any none, _, _ => by simp [pyEq]
  | .any (some ts), hn, hk => by
    simp only [NoNaNS] at hn; simp only [KeysNodup] at hk
    simp only [pyEq]
    exact eqList_refl env ts (pyEq_reflL env ts hn hk)
  | .alias n t, hn, hk => by
    simp only [NoNaNS] at hn; simp only [KeysNodup] at hk
    simp only [pyEq, Bool.and_eq_true]; exact ⟨optEqB_refl n, pyEq_refl' env t hn hk⟩
  | .custom t, hn, hk => by
    simp only [NoNaNS] at hn; simp only [KeysNodup] at hk
    simp only [pyEq]; exact pyEq_refl' env t hn hk
theorem pyEq_reflL (env : Env) : ∀ (es : List Schema), NoNaNSL es → KeysNodupL es →
    ∀ s ∈ es, pyEq env s s = true
  | [], _, _, s, hs => by simp at hs
  | e :: es, hn, hk, s, hs => by
    simp only [NoNaNSL] at hn; simp only [KeysNodupL] at hk
    rcases List.mem_cons.1 hs with h | hs'
    · rw [h]; exact pyEq_refl' env e hn.1 hk.1
    · exact pyEq_reflL env es hn.2 hk.2 s hs'
theorem pyEq_reflF (env : Env) : ∀ (fs : List (PyKey × Bool × Schema)), NoNaNSF fs → KeysNodupF fs →
    ∀ f ∈ fs, pyEq env f.2.2 f.2.2 = true
  | [], _, _, f, hf => by simp at hf
  | (k, o, e) :: fs, hn, hk, f, hf => by
    simp only [NoNaNSF] at hn; simp only [KeysNodupF] at hk
    rcases List.mem_cons.1 hf with h | hf'
    · rw [h]; exact pyEq_refl' env e hn.1 hk.1
    · exact pyEq_reflF env fs hn.2 hk.2 f hf'
end

theorem KeysNodupL_mem : ∀ (es : List Schema), KeysNodupL es → ∀ s ∈ es, KeysNodup s
  | [], _, s, hs => by simp at hs
  | e :: es, hk, s, hs => by
    simp only [KeysNodupL] at hk
    rcases List.mem_cons.1 hs with h | hs'
    · rw [h]; exact hk.1
    · exact KeysNodupL_mem es hk.2 s hs'

theorem KeysNodupF_mem : ∀ (fs : List (PyKey × Bool × Schema)), KeysNodupF fs → ∀ f ∈ fs, KeysNodup f.2.2
  | [], _, f, hf => by simp at hf
  | (k, o, e) :: fs, hk, f, hf => by
    simp only [KeysNodupF] at hk
    rcases List.mem_cons.1 hf with h | hf'
    · rw [h]; exact hk.1
    · exact KeysNodupF_mem fs hk.2 f hf'

theorem beq_comm_bool (a b : Bool) : (a == b) = (b == a) := by cases a <;> cases b <;> rfl

mutual
theorem pyEq_symm' (env : Env) : ∀ (a b : Schema), KeysNodup a → KeysNodup b → pyEq env a b = pyEq env b a
  | .scalar k, b, _, _ => by
    cases b <;> simp only [pyEq]
    exact scalarEq_symm _ _
  | .listU L, b, _, _ => by
    cases b <;> simp only [pyEq]
    · exact lenPEq_symm _ _
    · rw [lenPEq_symm]
  | .listT t L, b, ha, hb => by
    cases b <;> simp only [pyEq]
    · rw [lenPEq_symm]
    · simp only [KeysNodup] at ha hb
      rw [lenPEq_symm, pyEq_symm' env t _ ha hb]
  | .listE lead es trail L, b, ha, hb => by
    cases b <;> try (simp only [pyEq]; done)
    case listE lead2 es2 trail2 M =>
      simp only [KeysNodup] at ha hb
      rw [pyEq_listE, pyEq_listE, lenPEq_symm]
      refine and_congr2 (eqOL_symm env _ _ (fun s hs t ht => ?_)) rfl
      exact pyEq_symmL env es ha s ((mem_elemList _ _ _ _).1 hs) t
        (KeysNodupL_mem es2 hb t ((mem_elemList _ _ _ _).1 ht))
  | .dict fa ea, b, ha, hb => by
    cases b <;> try (simp only [pyEq]; done)
    case dict fb eb =>
      cases fa <;> cases fb <;> simp only [pyEq]
      case some.some fa fb =>
        simp only [KeysNodup] at ha hb
        by_cases hlen : fa.length = fb.length
        · rw [eqFields_symm env fa fb ha.1 hb.1 hlen
            (fun f hf g hg => pyEq_symmF env fa ha.2 f hf g.2.2 (KeysNodupF_mem fb hb.2 g hg)),
            beq_comm_bool, hlen]
        · have h1 : (fa.length == fb.length) = false := by simp [hlen]
          have h2 : (fb.length == fa.length) = false := by simp [Ne.symm hlen]
          simp [h1, h2]
  | .any x, b, ha, hb => by
    cases b <;> try (simp only [pyEq]; done)
    case any y =>
      cases x <;> cases y <;> simp only [pyEq]
      case some.some xs ys =>
        simp only [KeysNodup] at ha hb
        exact eqList_symm env xs ys (fun s hs t ht => pyEq_symmL env xs ha s hs t (KeysNodupL_mem ys hb t ht))
  | .alias n t, b, ha, hb => by
    cases b <;> try (simp only [pyEq]; done)
    case alias m u =>
      simp only [KeysNodup] at ha hb
      simp only [pyEq]
      rw [optEqB_symm, pyEq_symm' env t u ha hb]
  | .custom t, b, ha, hb => by
    cases b <;> try (simp only [pyEq]; done)
    case custom u =>
      simp only [KeysNodup] at ha hb
      simp only [pyEq]
      exact pyEq_symm' env t u ha hb
theorem pyEq_symmL (env : Env) : ∀ (es : List Schema), KeysNodupL es →
    ∀ s ∈ es, ∀ t, KeysNodup t → pyEq env s t = pyEq env t s
  | [], _, s, hs, _, _ => by simp at hs
  | e :: es, hk, s, hs, t, ht => by
    simp only [KeysNodupL] at hk
    rcases List.mem_cons.1 hs with h | hs'
    · rw [h]; exact pyEq_symm' env e t hk.1 ht
    · exact pyEq_symmL env es hk.2 s hs' t ht
theorem pyEq_symmF (env : Env) : ∀ (fs : List (PyKey × Bool × Schema)), KeysNodupF fs →
    ∀ f ∈ fs, ∀ t, KeysNodup t → pyEq env f.2.2 t = pyEq env t f.2.2
  | [], _, f, hf, _, _ => by simp at hf
  | (k, o, e) :: fs, hk, f, hf, t, ht => by
    simp only [KeysNodupF] at hk
    rcases List.mem_cons.1 hf with h | hf'
    · rw [h]; exact pyEq_symm' env e t hk.1 ht
    · exact pyEq_symmF env fs hk.2 f hf' t ht
end

/-! ### the main theorems -/

/-- **reflexive** (and hence: independent builds of the same declaration are equal) -/
theorem pyEq_refl (env : Env) (s : Schema) (hn : NoNaNS s) (hk : KeysNodup s) : pyEq env s s = true :=
  pyEq_refl' env s hn hk

/-- **symmetric** -/
theorem pyEq_symm (env : Env) (a b : Schema) (ha : KeysNodup a) (hb : KeysNodup b) :
    pyEq env a b = pyEq env b a :=
  pyEq_symm' env a b ha hb

end D42
