/- C15 (statements are being added) -/
import D42.Model.Eq
