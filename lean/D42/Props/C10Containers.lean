/-
  C10 (containers) — "whenever a returned schema carries a fixed value (or a fully fixed element list),
  that value conforms to the schema itself": lifted from scalars (`decl_preserves_selfConsistent`) to
  element lists and key tables built by declaration, at any nesting depth.
-/
import D42.Props.C10
import D42.Props.C06
import D42.Props.C08

namespace D42

mutual
/-- the value a schema pins completely: a scalar's fixed value; an element list without `...` all of whose
    elements are pinned; a key table without `...: ...` and without optional keys all of whose values are pinned -/
def Schema.fixed : Schema → Option PyVal
  | .scalar k => k.fixed
  | .listE false es false _ => (fixedL es).map PyVal.list
  | .dict (some fs) none => (fixedF fs).map PyVal.dict
  | _ => none
def fixedL : List Schema → Option (List PyVal)
  | [] => some []
  | s :: ss => match Schema.fixed s, fixedL ss with
    | some v, some vs => some (v :: vs)
    | _, _ => none
def fixedF : List (PyKey × Bool × Schema) → Option (List (PyKey × PyVal))
  | [] => some []
  | (k, o, s) :: fs => match o, Schema.fixed s, fixedF fs with
    | false, some v, some kvs => some ((k, v) :: kvs)
    | _, _, _ => none
end

mutual
/-- built by declaration: every scalar node is self-consistent (what `fresh_selfConsistent` and
    `decl_preserves_selfConsistent` give for any accepted chain), every container node is the result of
    some accepted chain of declaration calls on the fresh container type -/
def Built (env : Env) : Schema → Prop
  | .scalar k => SelfConsistent env k
  | .listU _ => True
  | .listT t _ => Built env t
  | .listE lead es trail L => BuiltL env es ∧ ∃ ops, Decl.run (.listU {}) ops = .ok (.listE lead es trail L)
  | .dict none _ => True
  | .dict (some fs) ell => BuiltF env fs ∧ ∃ ops, Decl.run (.dict none none) ops = .ok (.dict (some fs) ell)
  | .any none => True
  | .any (some ts) => BuiltL env ts
  | .alias _ t => Built env t
  | .custom t => Built env t
def BuiltL (env : Env) : List Schema → Prop
  | [] => True
  | s :: ss => Built env s ∧ BuiltL env ss
def BuiltF (env : Env) : List (PyKey × Bool × Schema) → Prop
  | [] => True
  | (_, _, s) :: fs => Built env s ∧ BuiltF env fs
end

/-! ### helpers -/

theorem hC10C_listDeclLen_ok (c : Nat) (L : LenP) (a : Arg) (L' : LenP) (h : listDeclLen (some (c, false)) L a = .ok L') :
    L'.minLen = L.minLen ∧ L'.maxLen = L.maxLen ∧ ∃ n, L'.len = some n ∧ (c : Int) = n := by
  unfold listDeclLen at h; grind
theorem hC10C_listDeclMin_ok (c : Nat) (L : LenP) (a : Arg) (L' : LenP) (h : listDeclMin (some (c, false)) L a = .ok L') :
    L'.len = L.len ∧ L'.maxLen = L.maxLen ∧ ∃ n, L'.minLen = some n ∧ n ≤ (c : Int) := by
  unfold listDeclMin at h; grind
theorem hC10C_listDeclMax_ok (c : Nat) (L : LenP) (a : Arg) (L' : LenP) (h : listDeclMax (some (c, false)) L a = .ok L') :
    L'.len = L.len ∧ L'.minLen = L.minLen ∧ ∃ n, L'.maxLen = some n ∧ (c : Int) ≤ n := by
  unfold listDeclMax at h; grind

theorem hC10C_listLenDispatch_ok (c : Nat) (L : LenP) (a b : Arg) (L' : LenP) (hL : L.anySet = false)
    (h : declLenDispatch (listDeclLen (some (c, false))) (listDeclMin (some (c, false))) (listDeclMax (some (c, false))) L a b = .ok L') :
    LenOK L' c := by
  have hL' : L.len = none ∧ L.minLen = none ∧ L.maxLen = none := by
    simp [LenP.anySet] at hL; exact ⟨hL.1.1, hL.1.2, hL.2⟩
  unfold declLenDispatch at h
  split at h
  · have := hC10C_listDeclMax_ok _ _ _ _ h; grind [LenOK]
  · split at h
    · have := hC10C_listDeclLen_ok _ _ _ _ h; grind [LenOK]
    · split at h
      · have := hC10C_listDeclMin_ok _ _ _ _ h; grind [LenOK]
      · obtain ⟨L1, h1, h2⟩ := bind_ok _ _ _ h
        have := hC10C_listDeclMin_ok _ _ _ _ h1
        have := hC10C_listDeclMax_ok _ _ _ _ h2
        grind [LenOK]

/-- invariant of every schema reachable by declaration calls from a fresh container:
    an element list without `...` has length props consistent with its number of elements;
    a key table has pairwise different keys -/
def hC10C_Inv : Schema → Prop
  | .listE lead es trail L => (lead || trail) = false → LenOK L es.length
  | .dict (some fs) _ => (fs.map (·.1)).Nodup
  | _ => True

theorem hC10C_keys_upsert (fs : List (PyKey × Bool × Schema)) (k : PyKey) (o : Bool) (s : Schema) :
    (upsertField fs k o s).map (·.1) = if k ∈ fs.map (·.1) then fs.map (·.1) else fs.map (·.1) ++ [k] := by
  unfold upsertField
  have hh : hasField k fs = true ↔ k ∈ fs.map (·.1) := by
    simp [hasField]
  by_cases h : k ∈ fs.map (·.1)
  · rw [if_pos (hh.2 h), if_pos h]
    rw [List.map_map]
    apply List.map_congr_left
    intro f _
    simp only [Function.comp]
    split
    · rename_i hk; simp at hk; exact hk.symm
    · rfl
  · have : ¬ hasField k fs = true := fun h' => h (hh.1 h')
    rw [if_neg this, if_neg h]; simp

theorem hC10C_nodup_upsert (fs : List (PyKey × Bool × Schema)) (k : PyKey) (o : Bool) (s : Schema)
    (h : (fs.map (·.1)).Nodup) : ((upsertField fs k o s).map (·.1)).Nodup := by
  rw [hC10C_keys_upsert]
  split
  · exact h
  · rename_i hk
    rw [List.nodup_append]
    refine ⟨h, by simp, ?_⟩
    intro a ha b hb
    simp at hb; subst hb
    intro hab; subst hab; exact hk ha

theorem hC10C_buildKeys_nodup : ∀ (kvs : List (KeyArg × ElemArg)) (fs : List (PyKey × Bool × Schema)) (ell : Option Nat) (n : Nat)
    (fs' : List (PyKey × Bool × Schema)) (ell' : Option Nat),
    (fs.map (·.1)).Nodup → buildKeys kvs fs ell n = .ok (fs', ell') → (fs'.map (·.1)).Nodup
  | [], fs, ell, n, fs', ell', hn, h => by
    simp [buildKeys] at h; rw [← h.1]; exact hn
  | (.ell, .ell) :: r, fs, ell, n, fs', ell', hn, h => by
    simp only [buildKeys] at h; exact hC10C_buildKeys_nodup _ _ _ _ _ _ hn h
  | (.ell, .sch _) :: _, _, _, _, _, _, _, h => by simp [buildKeys] at h
  | (.ell, .bad) :: _, _, _, _, _, _, _, h => by simp [buildKeys] at h
  | (.key _ _, .ell) :: _, _, _, _, _, _, _, h => by simp [buildKeys] at h
  | (.key _ _, .bad) :: _, _, _, _, _, _, _, h => by simp [buildKeys] at h
  | (.key k o, .sch s) :: r, fs, ell, n, fs', ell', hn, h => by
    simp only [buildKeys] at h
    exact hC10C_buildKeys_nodup _ _ _ _ _ _ (hC10C_nodup_upsert fs k o s hn) h

theorem hC10C_inv_apply (s s' : Schema) (op : Op) (hi : hC10C_Inv s) (h : Decl.apply s op = .ok s') : hC10C_Inv s' := by
  cases hm : methodExists s op with
  | false => obtain ⟨e, he⟩ := apply_noMethod s op hm; rw [he] at h; cases h
  | true =>
    cases s with
    | scalar k =>
      rw [apply_scalar] at h
      obtain ⟨k', _, h2⟩ := bind_ok _ _ _ h
      simp [pure, Except.pure] at h2; subst h2; simp [hC10C_Inv]
    | listU L =>
      cases op <;> simp [methodExists] at hm
      case call a =>
        rw [apply_listU_call] at h
        cases a <;> simp only [] at h <;> try (cases h; done)
        case sch t =>
          split at h
          · cases h
          · cases h; simp [hC10C_Inv]
        case elems xs =>
          split at h
          · cases h
          · rename_i hL
            split at h
            · cases h
              simp only [mkListE, hC10C_Inv]
              intro _
              simp [LenP.anySet] at hL
              simp [LenOK, hL]
            · cases h
      case len a b =>
        rw [apply_listU_len] at h; split at h
        · cases h
        · obtain ⟨L', _, h2⟩ := bind_ok _ _ _ h
          simp [pure, Except.pure] at h2; subst h2; simp [hC10C_Inv]
    | listT t L =>
      cases op <;> simp [methodExists] at hm
      case call a => rw [apply_listT_call] at h; cases h
      case len a b =>
        rw [apply_listT_len] at h; split at h
        · cases h
        · obtain ⟨L', _, h2⟩ := bind_ok _ _ _ h
          simp [pure, Except.pure] at h2; subst h2; simp [hC10C_Inv]
    | listE lead es trail L =>
      cases op <;> simp [methodExists] at hm
      case call a => rw [apply_listE_call] at h; cases h
      case len a b =>
        rw [apply_listE_len] at h; split at h
        · cases h
        · rename_i hg
          obtain ⟨L', h1, h2⟩ := bind_ok _ _ _ h
          simp [pure, Except.pure] at h2; subst h2
          simp only [hC10C_Inv]
          intro hlt
          rw [hlt] at h1
          exact hC10C_listLenDispatch_ok _ _ _ _ _ (by simpa using hg) h1
    | dict fs ell =>
      cases op <;> simp [methodExists] at hm
      case call a =>
        cases fs with
        | some fs => rw [apply_dict_some_call] at h; cases h
        | none =>
          cases a <;> simp [Decl.apply] at h
          case keys kvs =>
            obtain ⟨r, h1, h2⟩ := bind_ok _ _ _ h
            obtain ⟨fs', ell'⟩ := r
            simp at h2; subst h2
            simp only [hC10C_Inv]
            exact hC10C_buildKeys_nodup kvs [] none 0 fs' ell' (by simp) h1
    | any ts =>
      cases op <;> simp [methodExists] at hm
      case anyCall as =>
        simp only [Decl.apply] at h
        split at h
        · cases h
        · split at h
          · cases h
          · split at h
            · cases h
            · cases h; simp [hC10C_Inv]
    | alias nm t => simp [methodExists] at hm
    | custom t => simp [methodExists] at hm

theorem hC10C_inv_run : ∀ (ops : List Op) (s s' : Schema), hC10C_Inv s → Decl.run s ops = .ok s' → hC10C_Inv s'
  | [], s, s', hi, h => by simp [Decl.run] at h; subst h; exact hi
  | op :: ops, s, s', hi, h => by
    simp only [Decl.run] at h
    obtain ⟨s1, h1, h2⟩ := bind_ok _ _ _ h
    exact hC10C_inv_run ops s1 s' (hC10C_inv_apply s s1 op hi h1) h2

theorem hC10C_fixedL_length : ∀ (es : List Schema) (vs : List PyVal), fixedL es = some vs → vs.length = es.length
  | [], vs, h => by simp [fixedL] at h; subst h; rfl
  | s :: ss, vs, h => by
    simp only [fixedL] at h
    split at h
    · rename_i v vs' h1 h2
      cases h
      simp [hC10C_fixedL_length ss vs' h2]
    · cases h

/-- with pairwise different keys, every field finds its own pinned value -/
theorem hC10C_fixedF_lookup : ∀ (fs : List (PyKey × Bool × Schema)) (kvs : List (PyKey × PyVal)),
    fixedF fs = some kvs → (fs.map (·.1)).Nodup →
    kvs.map (·.1) = fs.map (·.1) ∧
    ∀ k o s, (k, o, s) ∈ fs → ∃ x, lookupKey k kvs = some x ∧ Schema.fixed s = some x
  | [], kvs, h, _ => by simp [fixedF] at h; subst h; simp
  | (k, o, s) :: fs, kvs, h, hn => by
    simp only [fixedF] at h
    split at h
    · rename_i _ _ v kvs' h1 h2
      cases h
      simp only [List.map_cons, List.nodup_cons] at hn
      obtain ⟨ih1, ih2⟩ := hC10C_fixedF_lookup fs kvs' h2 hn.2
      refine ⟨by simp [ih1], ?_⟩
      intro k' o' s' hmem
      simp only [List.mem_cons] at hmem
      rcases hmem with heq | hmem
      · cases heq
        exact ⟨v, by simp [lookupKey], h1⟩
      · obtain ⟨x, hx1, hx2⟩ := ih2 k' o' s' hmem
        refine ⟨x, ?_, hx2⟩
        have hne : k' ≠ k := by
          intro hk; subst hk
          exact hn.1 (List.mem_map.2 ⟨(k', o', s'), hmem, rfl⟩)
        simp [lookupKey, hne, hx1]
    · cases h

mutual
theorem hC10C_fixed_conforms (env : Env) : ∀ (s : Schema) (v : PyVal) (p : Path),
    Built env s → s.fixed = some v → validateP env false s v p = []
  | .scalar k, v, p, hb, hf => by
    simp only [Built] at hb
    simp only [Schema.fixed] at hf
    simp only [validateP]
    rw [validateScalar_nil_iff]
    exact (validateScalar_nil_iff env k v []).1 (hb v hf)
  | .listU _, v, p, hb, hf => by simp [Schema.fixed] at hf
  | .listT _ _, v, p, hb, hf => by simp [Schema.fixed] at hf
  | .listE true es trail L, v, p, hb, hf => by simp [Schema.fixed] at hf
  | .listE false es true L, v, p, hb, hf => by simp [Schema.fixed] at hf
  | .listE false es false L, v, p, hb, hf => by
    simp only [Built] at hb
    obtain ⟨hbl, ops, hops⟩ := hb
    simp only [Schema.fixed] at hf
    cases hfl : fixedL es with
    | none => simp [hfl] at hf
    | some vs =>
      simp [hfl] at hf; subst hf
      have hinv := hC10C_inv_run ops _ _ (by simp [hC10C_Inv]) hops
      simp only [hC10C_Inv] at hinv
      have hlen := hC10C_fixedL_length es vs hfl
      have hL : lenErrFirst L vs.length p (.list vs) = none := by
        rw [lenErrFirst_none_iff, hlen]; exact hinv rfl
      simp only [validateP, hL]
      simp [hC10C_fixedL_conforms env es vs 0 (.list vs) p hbl hfl, extraElems, hlen]
  | .dict none _, v, p, hb, hf => by simp [Schema.fixed] at hf
  | .dict (some fs) (some _), v, p, hb, hf => by simp [Schema.fixed] at hf
  | .dict (some fs) none, v, p, hb, hf => by
    simp only [Built] at hb
    obtain ⟨hbf, ops, hops⟩ := hb
    simp only [Schema.fixed] at hf
    cases hff : fixedF fs with
    | none => simp [hff] at hf
    | some kvs =>
      simp [hff] at hf; subst hf
      have hinv := hC10C_inv_run ops _ _ (by simp [hC10C_Inv]) hops
      simp only [hC10C_Inv] at hinv
      obtain ⟨hk, hlook⟩ := hC10C_fixedF_lookup fs kvs hff hinv
      simp only [validateP]
      rw [hC10C_fixedF_conforms env fs kvs (.dict kvs) p hbf hlook]
      simp
      intro a b hab
      have : a ∈ fs.map (·.1) := by rw [← hk]; exact List.mem_map.2 ⟨(a, b), hab, rfl⟩
      simpa [hasField] using this
  | .any _, v, p, hb, hf => by simp [Schema.fixed] at hf
  | .alias _ _, v, p, hb, hf => by simp [Schema.fixed] at hf
  | .custom _, v, p, hb, hf => by simp [Schema.fixed] at hf
theorem hC10C_fixedL_conforms (env : Env) : ∀ (es : List Schema) (vs : List PyVal) (i : Nat) (a : PyVal) (p : Path),
    BuiltL env es → fixedL es = some vs → validateElemsP env false es vs i a p = []
  | [], vs, i, a, p, _, _ => by simp [validateElemsP]
  | s :: ss, vs, i, a, p, hb, hf => by
    simp only [BuiltL] at hb
    simp only [fixedL] at hf
    split at hf
    · rename_i v vs' h1 h2
      cases hf
      simp only [validateElemsP]
      rw [hC10C_fixed_conforms env s v _ hb.1 h1, hC10C_fixedL_conforms env ss vs' _ a p hb.2 h2]
      rfl
    · cases hf
theorem hC10C_fixedF_conforms (env : Env) : ∀ (fs : List (PyKey × Bool × Schema)) (kvs : List (PyKey × PyVal)) (a : PyVal) (p : Path),
    BuiltF env fs → (∀ k o s, (k, o, s) ∈ fs → ∃ x, lookupKey k kvs = some x ∧ Schema.fixed s = some x) →
    validateFieldsP env false fs kvs a p = []
  | [], kvs, a, p, _, _ => by simp [validateFieldsP]
  | (k, o, s) :: fs, kvs, a, p, hb, hl => by
    simp only [BuiltF] at hb
    obtain ⟨x, hx1, hx2⟩ := hl k o s (by simp)
    simp only [validateFieldsP, hx1]
    rw [hC10C_fixedF_conforms env fs kvs a p hb.2 (fun k' o' s' hm => hl k' o' s' (by simp [hm]))]
    simp [isEllipsis, hC10C_fixed_conforms env s x _ hb.1 hx2]
end

/-! ### theorems to prove -/

/-- a chain of accepted scalar calls from the fresh type yields a self-consistent scalar -/
theorem runScalar_selfConsistent (env : Env) : ∀ (ops : List Op) (k k' : ScalarS),
    SelfConsistent env k → (∀ op ∈ ops, OpNoNaN op) →
    (∀ (pre : List Op) (op : Op) (post : List Op) (km : ScalarS), ops = pre ++ op :: post →
        runScalar k pre = .ok km → RegexFactOK env km op) →
    runScalar k ops = .ok k' → SelfConsistent env k' := by
  intro ops
  induction ops with
  | nil => intro k k' hc _ _ h; simp only [runScalar] at h; cases h; exact hc
  | cons op ops ih =>
    intro k k' hc hn hr h
    rw [runScalar_cons] at h
    obtain ⟨k1, h1, h2⟩ := bindE_eq_ok h
    have hr0 : RegexFactOK env k op := hr [] op ops k rfl rfl
    have hc1 := decl_preserves_selfConsistent env k k1 op hc hr0 (hn op (by simp)) h1
    refine ih k1 k' hc1 (fun o ho => hn o (by simp [ho])) ?_ h2
    intro pre o post km he hrun
    refine hr (op :: pre) o post km (by rw [he]; rfl) ?_
    rw [runScalar_cons, h1]; exact hrun

/-- **C10 (containers).** The completely pinned value of a schema built by declaration conforms to
    the schema itself: declaration of `len` after (or before) the element list rejected every length that
    contradicts the number of elements; the key table has no duplicate keys, so every pinned entry is found. -/
theorem pinned_conforms (env : Env) (s : Schema) (v : PyVal) (p : Path)
    (hb : Built env s) (hf : s.fixed = some v) : validateP env false s v p = [] :=
  hC10C_fixed_conforms env s v p hb hf

/-- and so `validate` (the raising validator) returns no errors on it -/
theorem pinned_validates (env : Env) (s : Schema) (v : PyVal) (p : Path)
    (hb : Built env s) (hf : s.fixed = some v) : validate env false s v p = .ok [] := by
  rw [validate_ok, pinned_conforms env s v p hb hf]

/-- non-vacuity: `schema.list([schema.int(1), schema.dict({"a": schema.str("x")})]).len(2)` -/
theorem built_example (env : Env) :
    let s : Schema := .listE false [.scalar (.int (some 1) none none),
                .dict (some [(.str [97], false, .scalar (.str (some [120]) {} none none none))]) none] false { len := some 2 }
    Built env s ∧ s.fixed = some (.list [.int 1, .dict [(.str [97], .str [120])]]) := by
  intro s
  refine ⟨?_, ?_⟩
  · simp only [s, Built, BuiltL, BuiltF, and_true]
    refine ⟨⟨?_, ?_, ?_⟩, ?_⟩
    · intro v hv
      simp [ScalarS.fixed] at hv; subst hv
      simp [validateScalar, asInt, intBoundErrs]
    · intro v hv
      simp [ScalarS.fixed] at hv; subst hv
      simp [validateScalar, strErrs, strRest, strTail, lenErrs]
    · refine ⟨[.call (.keys [(.key (.str [97]) false, .sch (.scalar (.str (some [120]) {} none none none)))])], ?_⟩
      simp [Decl.run, Decl.apply, buildKeys, upsertField, hasField, bind, Except.bind, pure, Except.pure]
    · refine ⟨[.call (.elems [.sch (.scalar (.int (some 1) none none)),
          .sch (.dict (some [(.str [97], false, .scalar (.str (some [120]) {} none none none))]) none)]),
          .len (.v (.int 2)) .nil], ?_⟩
      have he : elemsOk [.sch (.scalar (.int (some 1) none none)),
          .sch (.dict (some [(.str [97], false, .scalar (.str (some [120]) {} none none none))]) none)] = true := by
        simp [elemsOk, List.range, List.range.loop]
      simp [Decl.run, Decl.apply, he, mkListE, elemSchemas, LenP.anySet, declLenDispatch, argIsEllipsis,
        listDeclLen, argInt, asInt, bind, Except.bind, pure, Except.pure]
  · simp [s, Schema.fixed, fixedL, fixedF, ScalarS.fixed]

end D42
