/-
  C04 (carries, at every depth) — "every value the result generates or accepts carries the substituted data at the
  substituted positions (scalars equal, lists element-wise, dicts on every key given)".
-/
import D42.Props.C05
import D42.Props.C01

namespace D42

/-- a scalar position carries the substituted scalar: equal as Python values (`True == 1`), floats within the
    tolerance the float schema checks with (`isclose`, or equality at a declared precision) -/
def Pinned (env : Env) : PyVal → PyVal → Prop
  | .none, w => w = .none
  | .bool b, w => asInt w = some (if b then 1 else 0)
  | .int n, w => asInt w = some n
  | .float f, w => ∃ g, w = .float g ∧ (isclose env g f = true ∨ ∃ pr, eqAtPrecision env g f pr = true)
  | .str s, w => w = .str s
  | .bytes b, w => w = .bytes b
  | .uuid i ver, w => w = .uuid i ver
  | .datetime i, w => w = .datetime i
  | .date i, w => w = .date i ∨ w = .datetime i
  | _, _ => False

mutual
/-- `w` carries the substituted data `v`: scalars pinned, lists element-wise (same length), dicts on every key given
    (other keys of `w` are not constrained by `v`) -/
def Carries (env : Env) : PyVal → PyVal → Prop
  | .list xs, w => ∃ ys, w = .list ys ∧ CarriesL env xs ys
  | .dict kvs, w => ∃ kws, w = .dict kws ∧ CarriesKV env kvs kws
  | v, w => Pinned env v w
def CarriesL (env : Env) : List PyVal → List PyVal → Prop
  | [], ys => ys = []
  | x :: xs, ys => ∃ y ys', ys = y :: ys' ∧ Carries env x y ∧ CarriesL env xs ys'
def CarriesKV (env : Env) : List (PyKey × PyVal) → List (PyKey × PyVal) → Prop
  | [], _ => True
  | (k, v) :: r, kws => (∃ w, lookupKey k kws = some w ∧ Carries env v w) ∧ CarriesKV env r kws
end

/-! ### helpers -/

theorem hC04C_carries_scalar (env : Env) (v w : PyVal) (h1 : ∀ xs, v ≠ .list xs) (h2 : ∀ kvs, v ≠ .dict kvs) :
    Carries env v w = Pinned env v w :=
  Carries.eq_3 env v w (fun xs h => h1 xs h) (fun kvs h => h2 kvs h)

/-! #### the bridge `Same → Carries` (on plain values: `Same` forgets the uuid version) -/

mutual
theorem hC04C_same_carries (env : Env) : ∀ (v w : PyVal), Plain v → Same env v w → Carries env v w
  | .none, w, _, h => by simpa [Carries, Pinned, Same] using h
  | .bool b, w, _, h => by
    simp only [Same] at h; subst h
    simp [Carries, Pinned, asInt]
  | .int n, w, _, h => by simpa [Carries, Pinned, Same] using h
  | .float f, w, _, h => by
    simp only [Same] at h
    obtain ⟨g, rfl, hg⟩ := h
    rw [hC04C_carries_scalar env (.float f) _ (by simp) (by simp)]
    simp only [Pinned]
    exact ⟨g, rfl, Or.inl hg⟩
  | .str s, w, _, h => by simpa [Carries, Pinned, Same] using h
  | .bytes b, w, _, h => by simpa [Carries, Pinned, Same] using h
  | .uuid i ver, w, hp, h => by
    simp only [Plain] at hp; subst hp
    simpa [Carries, Pinned, Same] using h
  | .datetime i, w, _, h => by simpa [Carries, Pinned, Same] using h
  | .date i, w, _, h => by
    simp only [Same] at h; subst h
    simp [Carries, Pinned]
  | .list xs, w, hp, h => by
    simp only [Same] at h
    simp only [Plain] at hp
    obtain ⟨ys, rfl, hl⟩ := h
    simp only [Carries]
    exact ⟨ys, rfl, hC04C_sameL_carries env xs ys hp hl⟩
  | .dict kvs, w, hp, h => by
    simp only [Same] at h
    simp only [Plain] at hp
    obtain ⟨kws, rfl, hl, _⟩ := h
    simp only [Carries]
    exact ⟨kws, rfl, hC04C_sameKV_carries env kvs kws hp hl⟩
  | .ellipsis, _, hp, _ => by simp [Plain] at hp
  | .other _, _, hp, _ => by simp [Plain] at hp
theorem hC04C_sameL_carries (env : Env) : ∀ (xs ys : List PyVal), PlainL xs → SameL env xs ys → CarriesL env xs ys
  | [], ys, _, h => by simpa [SameL, CarriesL] using h
  | x :: xs, ys, hp, h => by
    simp only [SameL] at h
    simp only [PlainL] at hp
    obtain ⟨y, ys', rfl, h1, h2⟩ := h
    simp only [CarriesL]
    exact ⟨y, ys', rfl, hC04C_same_carries env x y hp.1 h1, hC04C_sameL_carries env xs ys' hp.2 h2⟩
theorem hC04C_sameKV_carries (env : Env) : ∀ (kvs kws : List (PyKey × PyVal)), PlainKV kvs → SameKV env kvs kws →
    CarriesKV env kvs kws
  | [], _, _, _ => by simp [CarriesKV]
  | (k, v) :: r, kws, hp, h => by
    simp only [SameKV] at h
    simp only [PlainKV] at hp
    obtain ⟨⟨w, hw, hs⟩, hr⟩ := h
    simp only [CarriesKV]
    exact ⟨⟨w, hw, hC04C_same_carries env v w hp.2.1 hs⟩, hC04C_sameKV_carries env r kws hp.2.2 hr⟩
end

/-! #### scalars -/

theorem hC04C_scalar (env : Env) (k : ScalarS) (v w : PyVal) (s' : Schema)
    (hs : subst env (.scalar k) v = .ok s') (hp : Plain v) (hc : Conforms env s' w) : Carries env v w := by
  rw [subst] at hs
  split at hs
  · rename_i hv
    cases hs
    have hcv := (validateScalar_nil_iff env k v []).1 (by simpa using hv)
    simp only [Conforms] at hc
    cases k with
    | none =>
      cases v <;> simp_all [ConformsScalar, ScalarS.withValue, Carries, Pinned]
    | bool x =>
      cases v <;> simp_all [ConformsScalar, ScalarS.withValue, Carries, Pinned, asInt]
    | int x mn mx =>
      cases v with
      | bool b =>
        simp only [ScalarS.withValue, asInt, ConformsScalar] at hc
        obtain ⟨m, hm, hmx, _⟩ := hc
        have hm' : asInt w = some m := hm
        simp only [Carries, Pinned]
        rw [hm', hmx _ rfl]
      | int n =>
        simp only [ScalarS.withValue, asInt, ConformsScalar] at hc
        obtain ⟨m, hm, hmx, _⟩ := hc
        have hm' : asInt w = some m := hm
        simp only [Carries, Pinned]
        rw [hm', hmx _ rfl]
      | _ => simp [ConformsScalar, asInt] at hcv
    | float x mn mx pr d1 d2 =>
      cases v with
      | float f =>
        simp only [ScalarS.withValue, ConformsScalar] at hc
        obtain ⟨g, rfl, hg, _⟩ := hc
        have hg' := hg f rfl
        rw [hC04C_carries_scalar env (.float f) _ (by simp) (by simp)]
        simp only [Pinned]
        refine ⟨g, rfl, ?_⟩
        cases pr with
        | none => exact Or.inl (by simpa [floatValueOk] using hg')
        | some p => exact Or.inr ⟨p, by simpa [floatValueOk] using hg'⟩
      | _ => simp [ConformsScalar] at hcv
    | str x L al sub pat =>
      cases v <;> simp_all [ConformsScalar, ScalarS.withValue, Carries, Pinned]
      obtain ⟨s, rfl, rfl, _⟩ := hc
      rfl
    | bytes x => cases v <;> simp_all [ConformsScalar, ScalarS.withValue, Carries, Pinned]
    | uuid4 x => cases v <;> simp_all [ConformsScalar, ScalarS.withValue, Carries, Pinned, Plain]
    | datetime x => cases v <;> simp_all [ConformsScalar, ScalarS.withValue, Carries, Pinned]
    | date x => cases v <;> simp_all [ConformsScalar, ScalarS.withValue, Carries, Pinned]
  · cases hs

/-! #### lists -/

/-- "whatever the result of substituting a plain value (with python dicts: distinct keys) into `s` accepts
    carries the value" -/
def hC04C_CarriesP (env : Env) (s : Schema) : Prop :=
  ∀ (s' : Schema) (v w : PyVal), subst env s v = .ok s' → Plain v → DistinctKeys v →
    Conforms env s' w → Carries env v w

theorem hC04C_carriesL_append (env : Env) : ∀ (xs1 ys1 xs2 ys2 : List PyVal),
    CarriesL env xs1 ys1 → CarriesL env xs2 ys2 → CarriesL env (xs1 ++ xs2) (ys1 ++ ys2)
  | [], ys1, xs2, ys2, h1, h2 => by
    simp only [CarriesL] at h1; subst h1; simpa using h2
  | x :: xs1, ys1, xs2, ys2, h1, h2 => by
    simp only [CarriesL] at h1
    obtain ⟨y, ys', rfl, hy, hr⟩ := h1
    simp only [List.cons_append, CarriesL]
    exact ⟨y, ys' ++ ys2, rfl, hy, hC04C_carriesL_append env xs1 ys' xs2 ys2 hr h2⟩

theorem hC04C_fromNativeListS_carries (env : Env) : ∀ (xs : List PyVal) (es : List Schema) (ys : List PyVal),
    fromNativeListS xs = .ok es → (∀ x ∈ xs, Plain x) → PrefixC env es ys → CarriesL env xs (ys.take xs.length)
  | [], es, ys, _, _, _ => by simp [CarriesL]
  | x :: xs, es, ys, h, hp, hc => by
    obtain ⟨a, b, ha, hb, rfl⟩ := (fromNativeListS_cons_ok _ _ _).1 h
    cases ys with
    | nil => simp [PrefixC] at hc
    | cons y ys' =>
      simp only [PrefixC] at hc
      simp only [List.length_cons, List.take_succ_cons, CarriesL]
      exact ⟨y, _, rfl, hC04C_same_carries env x y (hp x (by simp)) (fromNative_same env x y a ha hc.1),
        hC04C_fromNativeListS_carries env xs b ys' hb (fun z hz => hp z (by simp [hz])) hc.2⟩

theorem hC04C_substAll_carries (env : Env) (t : Schema) (ih : hC04C_CarriesP env t) :
    ∀ (xs : List PyVal) (es : List Schema) (ys : List PyVal), substAll env t xs = .ok es →
      (∀ x ∈ xs, Plain x) → (∀ x ∈ xs, DistinctKeys x) → PrefixC env es ys → CarriesL env xs (ys.take xs.length)
  | [], es, ys, _, _, _, _ => by simp [CarriesL]
  | x :: xs, es, ys, h, hp, hd, hc => by
    obtain ⟨a, b, ha, hb, rfl⟩ := (substAll_cons_ok _ _ _ _ _).1 h
    cases ys with
    | nil => simp [PrefixC] at hc
    | cons y ys' =>
      simp only [PrefixC] at hc
      simp only [List.length_cons, List.take_succ_cons, CarriesL]
      exact ⟨y, _, rfl, ih a x y ha (hp x (by simp)) (hd x (by simp)) hc.1,
        hC04C_substAll_carries env t ih xs b ys' hb (fun z hz => hp z (by simp [hz]))
          (fun z hz => hd z (by simp [hz])) hc.2⟩

theorem hC04C_substZip_carries (env : Env) : ∀ (ss : List Schema) (_ : ∀ s ∈ ss, hC04C_CarriesP env s)
    (xs : List PyVal) (es : List Schema) (ys : List PyVal), substZip env ss xs = .ok es →
      (∀ x ∈ xs, Plain x) → (∀ x ∈ xs, DistinctKeys x) → PrefixC env es ys →
      CarriesL env (xs.take ss.length) (ys.take ss.length)
  | [], _, _, _, _, _, _, _, _ => by simp [CarriesL]
  | _ :: _, _, [], _, _, h, _, _, _ => by simp [substZip] at h
  | s :: ss, ih, x :: xs, es, ys, h, hp, hd, hc => by
    obtain ⟨a, b, ha, hb, rfl⟩ := (substZip_cons_ok _ _ _ _ _ _).1 h
    cases ys with
    | nil => simp [PrefixC] at hc
    | cons y ys' =>
      simp only [PrefixC] at hc
      simp only [List.length_cons, List.take_succ_cons, CarriesL]
      exact ⟨y, _, rfl, ih s (by simp) a x y ha (hp x (by simp)) (hd x (by simp)) hc.1,
        hC04C_substZip_carries env ss (fun s hs => ih s (by simp [hs])) xs b ys' hb
          (fun z hz => hp z (by simp [hz])) (fun z hz => hd z (by simp [hz])) hc.2⟩

/-- what `_substitute_elements` produces — for *any* window start — pins the whole list -/
theorem hC04C_substElems_carries (env : Env) (elems : List Schema) (ih : ∀ s ∈ elems, hC04C_CarriesP env s)
    (xs : List PyVal) (start : Nat) (es : List Schema) (ys : List PyVal)
    (h : substElems env elems xs start = .ok es) (hp : ∀ x ∈ xs, Plain x) (hd : ∀ x ∈ xs, DistinctKeys x)
    (hstart : start ≤ xs.length) (hlen : ys.length = es.length) (hc : PrefixC env es ys) : CarriesL env xs ys := by
  obtain ⟨mid, suf, pre, hmid, hsuf, hpre, rfl⟩ := (substElems_ok _ _ _ _ _).1 h
  have hl1 := fromNativeListS_length _ _ hpre
  have hl2 := fromNativeListS_length _ _ hsuf
  have hl3 := substZip_length env _ _ _ hmid
  simp only [List.length_take, List.length_drop] at hl1 hl2 hl3
  simp only [List.length_append] at hlen
  have hpl : pre.length = start := by omega
  have hc1 := PrefixC_append_left env _ _ _ hc
  have hcpre := PrefixC_append_left env _ _ _ hc1
  have hcmid := PrefixC_append_right env _ _ _ hc1
  have hcsuf := PrefixC_append_right env _ _ _ hc
  rw [hpl] at hcmid
  rw [List.length_append, hpl, hl3.1, ← List.drop_drop] at hcsuf
  have c1 := hC04C_fromNativeListS_carries env _ pre ys hpre (fun z hz => hp z (List.mem_of_mem_take hz)) hcpre
  have c2 := hC04C_substZip_carries env elems ih _ mid _ hmid (fun z hz => hp z (List.mem_of_mem_drop hz))
    (fun z hz => hd z (List.mem_of_mem_drop hz)) hcmid
  have hsuf' : fromNativeListS ((xs.drop start).drop elems.length) = .ok suf := by
    rw [List.drop_drop]; exact hsuf
  have c3 := hC04C_fromNativeListS_carries env _ suf _ hsuf'
    (fun z hz => hp z (List.mem_of_mem_drop (List.mem_of_mem_drop hz))) hcsuf
  have e1 : (xs.take start).length = start := by simp only [List.length_take]; omega
  rw [e1] at c1
  have e3 : ((ys.drop start).drop elems.length).take ((xs.drop start).drop elems.length).length
      = (ys.drop start).drop elems.length := by
    apply List.take_of_length_le
    simp only [List.length_drop]; omega
  rw [e3] at c3
  have := hC04C_carriesL_append env _ _ _ _ c1 (hC04C_carriesL_append env _ _ _ _ c2 c3)
  rwa [List.take_append_drop, List.take_append_drop, List.take_append_drop, List.take_append_drop] at this

theorem hC04C_take_all (env : Env) (xs ys : List PyVal) (hl : ys.length = xs.length)
    (h : CarriesL env xs (ys.take xs.length)) : CarriesL env xs ys := by
  rwa [List.take_of_length_le (by omega)] at h

theorem hC04C_listU (env : Env) (L : LenP) : hC04C_CarriesP env (.listU L) := by
  intro s' v w hs hp hd hc
  cases v
  case list xs =>
    simp only [Plain] at hp
    have hp' := (plainL_iff xs).1 hp
    obtain ⟨_, es, hes, rfl⟩ := subst_listU_ok env L xs s' hp' hs
    obtain ⟨ys, rfl, _, hlen, hpc⟩ := (conforms_exact_list _ _ _ _).1 hc
    simp only [Carries]
    have := fromNativeListS_length xs es hes
    exact ⟨ys, rfl, hC04C_take_all env xs ys (by omega) (hC04C_fromNativeListS_carries env xs es ys hes hp' hpc)⟩
  all_goals (simp [subst, validateP] at hs)

theorem hC04C_substAll_length (env : Env) (t : Schema) : ∀ (xs : List PyVal) (es : List Schema),
    substAll env t xs = .ok es → es.length = xs.length
  | [], es, h => by
    have : es = [] := by simpa [substAll, eq_comm] using h
    subst this; rfl
  | x :: xs, es, h => by
    obtain ⟨a, b, _, hb, rfl⟩ := (substAll_cons_ok _ _ _ _ _).1 h
    simp [hC04C_substAll_length env t xs b hb]

theorem hC04C_listT (env : Env) (t : Schema) (L : LenP) (ih : hC04C_CarriesP env t) :
    hC04C_CarriesP env (.listT t L) := by
  intro s' v w hs hp hd hc
  cases v
  case list xs =>
    simp only [Plain] at hp
    simp only [DistinctKeys] at hd
    have hp' := (plainL_iff xs).1 hp
    have hd' := (distinctL_iff xs).1 hd
    obtain ⟨_, es, hes, rfl⟩ := subst_listT_ok env t L xs s' hp' hs
    obtain ⟨ys, rfl, _, hlen, hpc⟩ := (conforms_exact_list _ _ _ _).1 hc
    simp only [Carries]
    have := hC04C_substAll_length env t xs es hes
    exact ⟨ys, rfl, hC04C_take_all env xs ys (by omega) (hC04C_substAll_carries env t ih xs es ys hes hp' hd' hpc)⟩
  all_goals (simp [subst, validateP] at hs)

theorem hC04C_listE (env : Env) (lead : Bool) (elems : List Schema) (trail : Bool) (L : LenP)
    (ih : ∀ s ∈ elems, hC04C_CarriesP env s) : hC04C_CarriesP env (.listE lead elems trail L) := by
  intro s' v w hs hp hd hc
  cases v
  case list xs =>
    simp only [Plain] at hp
    simp only [DistinctKeys] at hd
    have hp' := (plainL_iff xs).1 hp
    have hd' := (distinctL_iff xs).1 hd
    obtain ⟨_, es, rfl, hcase⟩ := subst_listE_ok env lead elems trail L xs s' hs
    obtain ⟨ys, rfl, _, hlen, hpc⟩ := (conforms_exact_list _ _ _ _).1 hc
    simp only [Carries]
    refine ⟨ys, rfl, ?_⟩
    rcases hcase with ⟨_, _, _, i, hi, hok⟩ | ⟨_, hok⟩
    · exact hC04C_substElems_carries env elems ih xs i es ys hok hp' hd' (Nat.le_of_lt hi) hlen hpc
    · refine hC04C_substElems_carries env elems ih xs _ es ys hok hp' hd' ?_ hlen hpc
      split
      · exact Nat.zero_le _
      · split
        · exact Nat.sub_le _ _
        · exact Nat.zero_le _
  all_goals (simp [subst, validateP] at hs)

/-! #### dicts -/

theorem hC04C_carriesKV_of_forall (env : Env) (kws : List (PyKey × PyVal)) : ∀ (kvs : List (PyKey × PyVal)),
    (∀ kv ∈ kvs, ∃ w, lookupKey kv.1 kws = some w ∧ Carries env kv.2 w) → CarriesKV env kvs kws
  | [], _ => by simp [CarriesKV]
  | (k, v) :: r, h => by
    simp only [CarriesKV]
    exact ⟨h (k, v) (by simp), hC04C_carriesKV_of_forall env kws r (fun kv hkv => h kv (by simp [hkv]))⟩

theorem hC04C_fresh (env : Env) (kvs : List (PyKey × PyVal)) (relaxed : Bool) (s' : Schema) (w : PyVal)
    (hp : PlainKV kvs) (hs : substFresh kvs relaxed = .ok s') (hc : Conforms env s' w) :
    Carries env (.dict kvs) w := by
  obtain ⟨fs, hfs, rfl⟩ := substFresh_ok kvs relaxed s' hp hs
  simp only [Conforms] at hc
  obtain ⟨kws, rfl, hF, _⟩ := hc
  simp only [Carries]
  exact ⟨kws, rfl, hC04C_sameKV_carries env kvs kws hp (fromNativeKVs_same env kvs kws fs hfs hF)⟩

theorem hC04C_dict_none (env : Env) (ell : Option Nat) : hC04C_CarriesP env (.dict none ell) := by
  intro s' v w hs hp hd hc
  cases v
  case dict kvs =>
    simp only [Plain] at hp
    simp only [subst] at hs
    split at hs
    · cases hs
    exact hC04C_fresh env kvs false s' w hp hs hc
  all_goals (simp [subst, validateP] at hs)

theorem hC04C_dict_open (env : Env) (pos : Nat) : hC04C_CarriesP env (.dict (some []) (some pos)) := by
  intro s' v w hs hp hd hc
  cases v
  case dict kvs =>
    simp only [Plain] at hp
    simp only [subst] at hs
    split at hs
    · cases hs
    exact hC04C_fresh env kvs true s' w hp hs hc
  all_goals (simp [subst, validateP] at hs)

/-- every declared key that is given is pinned in whatever the substituted field list accepts -/
theorem hC04C_fields_lookup (env : Env) (kvs kws : List (PyKey × PyVal)) (hp : PlainKV kvs) (hd : DistinctKeysKV kvs) :
    ∀ (fs : List (PyKey × Bool × Schema)) (_ : ∀ f ∈ fs, hC04C_CarriesP env f.2.2)
    (fs' : List (PyKey × Bool × Schema)), substFields env fs kvs = .ok fs' → FieldsC env fs' kws →
    ∀ (k : PyKey) (x : PyVal), hasField k fs = true → lookupKey k kvs = some x →
      ∃ w, lookupKey k kws = some w ∧ Carries env x w
  | [], _, _, _, _, k, x, hk, _ => by simp [hasField] at hk
  | (k0, opt, s) :: fs, ih, fs', h, hF, k, x, hk, hl => by
    obtain ⟨⟨fk, fo, fsch⟩, r', rfl, hr', hcase⟩ := substFields_cons_ok env k0 opt s fs kvs fs' h
    simp only [FieldsC] at hF
    by_cases hk0 : k0 = k
    · subst hk0
      rcases hcase with ⟨hl', _⟩ | ⟨x', s', hl', hs', heq⟩ | ⟨hl', _⟩
      · exact absurd (lookupKey_plain kvs k0 _ hp hl') (by simp [Plain])
      · rw [hl] at hl'; cases hl'
        cases heq
        have h1 := hF.1
        cases hw : lookupKey k0 kws with
        | none => rw [hw] at h1; simp at h1
        | some y =>
          rw [hw] at h1
          exact ⟨y, rfl, ih (k0, opt, s) (by simp) _ x y hs' (lookupKey_plain kvs k0 x hp hl)
            (lookupKey_distinct kvs k0 x hd hl) h1⟩
      · rw [hl] at hl'; cases hl'
    · have hk' : hasField k fs = true := by
        simp only [hasField, List.any_cons, Bool.or_eq_true, beq_iff_eq] at hk
        rcases hk with hk | hk
        · exact absurd hk hk0
        · simpa [hasField] using hk
      exact hC04C_fields_lookup env kvs kws hp hd fs (fun f hf => ih f (by simp [hf])) r' hr' hF.2 k x hk' hl

theorem hC04C_dict (env : Env) (fs : List (PyKey × Bool × Schema)) (ell : Option Nat)
    (hne : ¬ (fs = [] ∧ ell.isSome)) (ih : ∀ f ∈ fs, hC04C_CarriesP env f.2.2) :
    hC04C_CarriesP env (.dict (some fs) ell) := by
  intro s' v w hs hp hd hc
  obtain ⟨kvs, rfl⟩ := subst_dict_nondict env fs ell v s' hs
  simp only [Plain] at hp
  simp only [DistinctKeys] at hd
  obtain ⟨_, _, fs', hfs, hall, rfl⟩ := subst_dict_ok env fs ell kvs s' hne hs
  simp only [Conforms] at hc
  obtain ⟨kws, rfl, hF, _⟩ := hc
  simp only [Carries]
  refine ⟨kws, rfl, hC04C_carriesKV_of_forall env kws kvs ?_⟩
  intro kv hkv
  have hk : hasField kv.1 fs = true := by
    have := List.any_eq_false.1 hall kv hkv
    simpa using this
  exact hC04C_fields_lookup env kvs kws hp hd.2 fs ih fs' hfs hF kv.1 kv.2 hk (lookupKey_of_nodup kvs hd.1 kv hkv)

/-! #### any -/

theorem hC04C_any_none (env : Env) : hC04C_CarriesP env (.any none) := by
  intro s' v w hs hp _ hc
  simp only [subst] at hs
  obtain ⟨s0, h0, rfl⟩ := bind_pure_ok _ _ _ hs
  simp only [Conforms, AnyC, or_false] at hc
  exact hC04C_same_carries env v w hp (fromNative_same env v w s0 ((fromNativeS_ok _ _).1 h0) hc)

theorem hC04C_substAlts (env : Env) : ∀ (ts : List Schema) (_ : ∀ t ∈ ts, hC04C_CarriesP env t) (v w : PyVal),
    Plain v → DistinctKeys v → AnyC env (substAlts env ts v) w → Carries env v w
  | [], _, _, _, _, _, h => by simp [substAlts, AnyC] at h
  | t :: ts, ih, v, w, hp, hd, h => by
    have hrest := hC04C_substAlts env ts (fun s hs => ih s (by simp [hs])) v w hp hd
    simp only [substAlts] at h
    cases ho : subst env t v with
    | error e =>
      simp only [ho, ok?] at h
      exact hrest h
    | ok r =>
      simp only [ho, ok?, AnyC] at h
      rcases h with h | h
      · exact ih t (by simp) r v w ho hp hd h
      · exact hrest h

theorem hC04C_any (env : Env) (ts : List Schema) (ih : ∀ t ∈ ts, hC04C_CarriesP env t) :
    hC04C_CarriesP env (.any (some ts)) := by
  intro s' v w hs hp hd hc
  obtain ⟨rfl, _⟩ := subst_any_ok env ts v s' hs
  simp only [Conforms] at hc
  exact hC04C_substAlts env ts ih v w hp hd hc

/-! #### the induction -/

mutual
theorem hC04C_subst (env : Env) : ∀ (s : Schema), hC04C_CarriesP env s
  | .scalar k => fun s' v w hs hp _ hc => hC04C_scalar env k v w s' hs hp hc
  | .listU L => hC04C_listU env L
  | .listT t L => hC04C_listT env t L (hC04C_subst env t)
  | .listE lead es trail L => hC04C_listE env lead es trail L (hC04C_subst_list env es)
  | .dict none ell => hC04C_dict_none env ell
  | .dict (some []) (some pos) => hC04C_dict_open env pos
  | .dict (some []) none => hC04C_dict env [] none (by simp) (by simp)
  | .dict (some (f :: fs)) ell => hC04C_dict env (f :: fs) ell (by simp) (hC04C_subst_fields env (f :: fs))
  | .any none => hC04C_any_none env
  | .any (some ts) => hC04C_any env ts (hC04C_subst_list env ts)
  | .alias n t => by
    intro s' v w hs hp hd hc
    simp only [subst] at hs
    obtain ⟨t', ht', rfl⟩ := bind_pure_ok _ _ _ hs
    simp only [Conforms] at hc
    exact hC04C_subst env t t' v w ht' hp hd hc
  | .custom t => by
    intro s' v w hs hp hd hc
    simp only [subst] at hs
    obtain ⟨t', ht', rfl⟩ := bind_pure_ok _ _ _ hs
    simp only [Conforms] at hc
    exact hC04C_subst env t t' v w ht' hp hd hc
theorem hC04C_subst_list (env : Env) : ∀ (ss : List Schema), ∀ s ∈ ss, hC04C_CarriesP env s
  | [] => by simp
  | s :: ss => by
    intro s' hs'
    rcases List.mem_cons.1 hs' with h | h
    · rw [h]; exact hC04C_subst env s
    · exact hC04C_subst_list env ss s' h
theorem hC04C_subst_fields (env : Env) : ∀ (fs : List (PyKey × Bool × Schema)), ∀ f ∈ fs, hC04C_CarriesP env f.2.2
  | [] => by simp
  | (k, o, s) :: fs => by
    intro f hf
    rcases List.mem_cons.1 hf with h | h
    · rw [h]; exact hC04C_subst env s
    · exact hC04C_subst_fields env fs f h
end

/-! ### theorems -/

/-! #### the statement as originally given (with `Plain v` only) is false

  `Plain` does not say that the keys of a dict value are distinct (every Python dict has distinct keys — the
  encoder guarantees it — but a model `List (PyKey × PyVal)` need not, see `DistinctKeys` in D42/Props/C14.lean).
  Substitution into a *declared* dict looks every declared key up once (`lookupKey`: the first entry wins), so a
  second entry with the same key is silently ignored, while `Carries` asks for every entry given:
  `schema.dict({"a": schema.int}) % [("a", 1), ("a", 2)]` is `{"a": int(1)}`, which accepts `{"a": 1}`. -/

theorem subst_accepted_carries_counterexample :
    let env : Env := { rxSearch := fun _ _ => false, fl := PyFloat.fin }
    let s := Schema.dict (some [(.str [97], false, .scalar (.int none none none))]) none
    let s' := Schema.dict (some [(.str [97], false, .scalar (.int (some 1) none none))]) none
    let v := PyVal.dict [(.str [97], .int 1), (.str [97], .int 2)]
    let w := PyVal.dict [(.str [97], .int 1)]
    Plain v ∧ subst env s v = .ok s' ∧ Conforms env s' w ∧ ¬ Carries env v w ∧ ¬ DistinctKeys v := by
  intro env s s' v w
  refine ⟨by simp [v, Plain, PlainKV], ?_, ?_, ?_, by simp [v, DistinctKeys]⟩
  · simp [s, s', v, subst, validateP, validateFieldsP, lookupKey, validateScalar,
      asInt, intBoundErrs, hasField, substFields, ScalarS.withValue, bind, Except.bind, pure,
      Except.pure, isEllipsis]
  · simp [s', w, Conforms, FieldsC, lookupKey, ConformsScalar, asInt, hasField]
  · simp [v, w, Carries, CarriesKV, Pinned, lookupKey, asInt]

/-- the environment of the generated counterexample: rounding is constant, so `EnvOK` holds trivially -/
def hC04C_env0 : Env := { rxSearch := fun _ _ => false, fl := fun _ => .fin 0 }

theorem hC04C_env0_ok : EnvOK hC04C_env0 where
  fl_mono := by intro a b _; simp [hC04C_env0, PyFloat.le]
  round_stable := by intro k p; simp [hC04C_env0, roundP]

/-- ... and so is the generated form: the same substitution result generates `{"a": 1}` -/
theorem subst_generated_carries_counterexample :
    let env : Env := hC04C_env0
    let s := Schema.dict (some [(.str [97], false, .scalar (.int none none none))]) none
    let s' := Schema.dict (some [(.str [97], false, .scalar (.int (some 1) none none))]) none
    let v := PyVal.dict [(.str [97], .int 1), (.str [97], .int 2)]
    let g := PyVal.dict [(.str [97], .int 1)]
    EnvOK env ∧ Plain v ∧ subst env s v = .ok s' ∧ (∀ ext, GenHyp env ext s') ∧
      (∀ st, gen env s' st = .ok (g, st)) ∧ ¬ Carries env v g := by
  intro env s s' v g
  refine ⟨hC04C_env0_ok, by simp [v, Plain, PlainKV], ?_, ?_, ?_, ?_⟩
  · simp [s, s', v, subst, validateP, validateFieldsP, lookupKey, validateScalar,
      asInt, intBoundErrs, hasField, substFields, ScalarS.withValue, bind, Except.bind, pure,
      Except.pure, isEllipsis]
  · intro ext
    simp [s', GenHyp, GenHypF, ScalarGenHyp, ScalarS.fixedV, validateScalar, asInt, intBoundErrs]
  · intro st
    simp [s', g, gen, genFields, genScalar, bind, G.bind, pure, G.pure]
  · simp [v, g, Carries, CarriesKV, Pinned, lookupKey, asInt]

/-- **C04 (accepts ⇒ carries), corrected.** Whatever the result of substituting a plain value accepts carries that
    value at every substituted position, at every nesting depth — for every schema (typed / element lists in all
    forms *including the contains form*, dicts strict and relaxed, unions, aliases, custom types, untyped
    containers). `Plain` = no `...` placeholders and only the value kinds substitution converts;
    `DistinctKeys` = the dicts in the value have distinct keys, as every Python dict has (without it the
    statement fails: `subst_accepted_carries_counterexample`). -/
theorem subst_accepted_carries (env : Env) (s s' : Schema) (v w : PyVal)
    (hp : Plain v) (hd : DistinctKeys v) (hs : subst env s v = .ok s') (hc : Conforms env s' w) : Carries env v w :=
  hC04C_subst env s s' v w hs hp hd hc

/-- **C04 (generates ⇒ carries), corrected.** and so does whatever the result generates -/
theorem subst_generated_carries (env : Env) (he : EnvOK env) (ext : ClsItem → Nat → Prop) (s s' : Schema) (v g : PyVal)
    (st st' : GS) (hp : Plain v) (hd : DistinctKeys v) (hs : subst env s v = .ok s') (hg : GenHyp env ext s')
    (h : gen env s' st = .ok (g, st')) : Carries env v g :=
  subst_accepted_carries env s s' v g hp hd hs (gen_conforms env he ext s' hg st st' g h)

/-- non-vacuity: `schema.dict({"a": schema.list(schema.int), optional("b"): schema.str, ...: ...}) % {"a": [1, 2]}` pins the
    list element-wise and says nothing about "b" -/
theorem carries_example (env : Env) :
    Carries env (.dict [(.str [97], .list [.int 1, .int 2])]) (.dict [(.str [98], .str [120]), (.str [97], .list [.bool true, .int 2])]) ∧
    ¬ Carries env (.dict [(.str [97], .list [.int 1, .int 2])]) (.dict [(.str [97], .list [.int 1])]) := by
  constructor
  · simp only [Carries, CarriesKV]
    refine ⟨_, rfl, ⟨⟨_, by simp [lookupKey]; rfl, _, rfl, ?_⟩, trivial⟩⟩
    simp only [CarriesL]
    exact ⟨_, _, rfl, by simp [Carries, Pinned, asInt], _, _, rfl, by simp [Carries, Pinned, asInt], rfl⟩
  · simp [Carries, CarriesKV, CarriesL, Pinned, lookupKey, asInt]

end D42
