/-
  D42.Props.C07Effects — purity from the write sites of the source.

  `Gen/Effects.lean` lists every syntactic write of the library (regenerated from the source on every run) with the owner
  of the written object classified as `fresh` (built in the same activation), `selfInit` (the object under
  construction) or `other`. `writes_are_local` decides that every write is fresh / selfInit or one of four listed
  exceptions; `frame` is the reason that matters: an activation whose writes all go to cells it allocated itself leaves
  every cell that existed before unchanged — whatever it reads, in whatever order, however often it is repeated.
-/
import D42.Gen.Effects

namespace D42
open Gen.Effects

/-- the writes that are not local, each by design:
    * `Random.set_seed` / `Random.shuffle_list` write the process-wide generator resp. the list they are given — that IS
      their contract (C17 is about the first; nothing built in calls the second);
    * `ValidationResult.add_error(s)` write the accumulator they are methods of; every visitor builds its accumulator
      fresh (those call sites are rows classified `fresh`). -/
def allowed (r : Row) : Bool :=
  (r.file == "d42/generation/_random.py" && r.func == "Random.set_seed" && r.kind == "call:seed" && r.target == "random") ||
  (r.file == "d42/generation/_random.py" && r.func == "Random.shuffle_list" && r.kind == "call:shuffle" && r.target == "random") ||
  (r.file == "d42/validation/_validation_result.py" && r.func == "ValidationResult.add_error" && r.kind == "call:append"
     && r.target == "self._errors") ||
  (r.file == "d42/validation/_validation_result.py" && r.func == "ValidationResult.add_errors" && r.kind == "call:append"
     && r.target == "self._errors")

/-- every write in the source goes to an object built in the same activation, to the object under construction, or is
    one of the listed exceptions -/
theorem writes_are_local : ∀ r ∈ table, r.cls = .fresh ∨ r.cls = .selfInit ∨ allowed r = true := by
  decide +kernel

/-- nothing is stored into a schema's props that the caller still owns: every bare name stored by `props.update(k=name)` /
    `props.set(k, name)` is bound to a fresh object -/
theorem stores_are_fresh : ∀ r ∈ table, r.kind.startsWith "store:" = true → r.cls = .fresh := by
  decide +kernel

/-! ### why local writes mean purity: the frame property -/

namespace Frame

/-- one memory cell per object; an activation allocates new cells and writes cells -/
inductive Op (α : Type) where
  | alloc (v : α)
  | write (a : Nat) (v : α)

def stepOp {α} (h : List α) : Op α → List α
  | .alloc v => h ++ [v]
  | .write a v => h.set a v

def runOps {α} (h : List α) : List (Op α) → List α
  | [] => h
  | o :: os => runOps (stepOp h o) os

/-- every write goes to a cell that did not exist when the activation started (`n0` cells existed) -/
def WritesFresh {α} (n0 : Nat) : List (Op α) → Prop
  | [] => True
  | .alloc _ :: os => WritesFresh n0 os
  | .write a _ :: os => n0 ≤ a ∧ WritesFresh n0 os

theorem runOps_length_ge {α} (h : List α) (ops : List (Op α)) : h.length ≤ (runOps h ops).length := by
  induction ops generalizing h with
  | nil => exact Nat.le_refl _
  | cons o os ih =>
    cases o with
    | alloc v => exact Nat.le_trans (by simp [stepOp]) (ih _)
    | write a v => exact Nat.le_trans (by simp [stepOp]) (ih _)

/-- the frame property: cells that existed before the activation are unchanged after it, for every sequence of
    allocations and fresh writes -/
theorem frame {α} (n0 : Nat) (h : List α) (ops : List (Op α)) (hn : n0 ≤ h.length) (hw : WritesFresh n0 ops) :
    ∀ a, a < n0 → (runOps h ops)[a]? = h[a]? := by
  induction ops generalizing h with
  | nil => intro a _; rfl
  | cons o os ih =>
    intro a ha
    cases o with
    | alloc v =>
      have := ih (h ++ [v]) (by simp; omega) hw a ha
      simp only [runOps, stepOp]
      rw [this, List.getElem?_append_left (by omega)]
    | write b v =>
      obtain ⟨hb, hw'⟩ := hw
      have := ih (h.set b v) (by simp; omega) hw' a ha
      simp only [runOps, stepOp]
      rw [this, List.getElem?_set_ne (by omega)]

/-- so is any NUMBER of activations, in any order: repeating or interleaving operations cannot change what an earlier
    one left behind -/
theorem frame_many {α} (n0 : Nat) (h : List α) (acts : List (List (Op α))) (hn : n0 ≤ h.length)
    (hw : ∀ ops ∈ acts, WritesFresh n0 ops) :
    ∀ a, a < n0 → (acts.foldl runOps h)[a]? = h[a]? := by
  induction acts generalizing h with
  | nil => intro a _; rfl
  | cons ops rest ih =>
    intro a ha
    have h1 := frame n0 h ops hn (hw ops (by simp)) a ha
    have hlen : n0 ≤ (runOps h ops).length := Nat.le_trans hn (runOps_length_ge h ops)
    have h2 := ih (runOps h ops) hlen (fun o ho => hw o (by simp [ho])) a ha
    simp only [List.foldl]
    rw [h2, h1]

/-- non-vacuity: an activation that allocates and fills its own cell leaves an existing one alone; one that writes an
    existing cell is not `WritesFresh` -/
example : (runOps [10, 20] [.alloc 0, .write 2 7])[1]? = some 20 ∧ WritesFresh 2 ([.alloc 0, .write 2 7] : List (Op Nat)) := by
  simp [runOps, stepOp, WritesFresh]
example : ¬ WritesFresh 2 ([.write 1 7] : List (Op Nat)) := by simp [WritesFresh]

end Frame

end D42
