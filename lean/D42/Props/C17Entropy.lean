/-
  D42.Props.C17Entropy — where the source could take a value from anything but the seeded generator and its arguments.

  `Gen/Entropy.lean` (regenerated from the source on every run) lists every call of the `random` module, every other
  generator constructed, every read of the clock or of uuid, every `hash` / `id`, and every set that is iterated, joined or
  turned into a sequence. `entropy_sources_listed` decides that each one is one of the following, justified ones — so a
  new draw outside class Random, a private generator, a `hash()`-derived seed, a set whose iteration order reaches a
  value (the ways reproducibility was broken by the seeded changes) make the decision fail.
-/
import D42.Gen.Entropy

namespace D42
open Gen.Entropy

def allowedSource (r : Row) : Bool :=
  -- the six primitives of class Random: the only readers of the process-wide generator (seeded by set_seed)
  (r.file == "d42/generation/_random.py" && r.kind == "random" &&
     ((r.func == "Random.set_seed" && r.what == "random.seed") || (r.func == "Random.random_int" && r.what == "random.randint") ||
      (r.func == "Random.random_float" && r.what == "random.uniform") || (r.func == "Random.random_str" && r.what == "random.choice") ||
      (r.func == "Random.random_choice" && r.what == "random.choice") || (r.func == "Random.shuffle_list" && r.what == "random.shuffle"))) ||
  -- `_random = Random()` in generation/__init__.py constructs the library's own stateless facade, not a generator
  (r.file == "d42/generation/__init__.py" && r.func == "<module>" && r.kind == "rng" && r.what == "Random") ||
  -- the clock and the OS: unfixed date / datetime / uuid4 schemas, which the property excludes
  (r.file == "d42/generation/_generator.py" && r.func == "Generator.visit_date" && r.kind == "clock" && r.what == "date.today") ||
  (r.file == "d42/generation/_generator.py" && r.func == "Generator.visit_datetime" && r.kind == "clock" && r.what == "datetime.utcnow") ||
  (r.file == "d42/generation/_generator.py" && r.func == "Generator.visit_uuid4" && r.kind == "uuid" && r.what == "uuid4") ||
  -- `optional.__hash__` hashes its key for the dict protocol; no value is derived from it
  (r.file == "d42/declaration/types/_optional.py" && r.func == "optional.__hash__" && r.kind == "hash") ||
  -- make_required iterates its key SET only to refuse unknown keys; the result is built in the schema's own key order
  (r.file == "d42/utils/_make_required.py" && r.func == "make_required" && r.kind == "setOrder") ||
  -- recorded finding K1: the candidates of a negated character class are joined from a set difference
  (r.file == "d42/generation/_regex_generator.py" && r.func == "RegexGenerator._generate_not_in" && r.kind == "setOrder")

/-- every place where the source could take a value from anything but the seeded generator and its arguments is one of
    the listed ones -/
theorem entropy_sources_listed : ∀ r ∈ table, allowedSource r = true := by
  decide +kernel

/-- and the recorded finding K1 is really there (the list is not vacuous about it) -/
theorem k1_site_present : ∃ r ∈ table, r.func = "RegexGenerator._generate_not_in" ∧ r.kind = "setOrder" := by
  decide +kernel

end D42
