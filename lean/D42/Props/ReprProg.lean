/-
  D42.Props.ReprProg — code → extracted print programs → hand model `reprScalar`, for every scalar schema.
-/
import D42.Model.ReprProg
import D42.Gen.ReprProg

namespace D42
open CP RP Gen.ReprProg

def reprProgOf : ScalarS → List RStmt
  | .none => noneRepr
  | .bool _ => boolRepr
  | .int .. => intRepr
  | .float .. => floatRepr
  | .str .. => strRepr
  | .bytes _ => bytesRepr
  | .uuid4 _ => uuid4Repr
  | .datetime _ => datetimeRepr
  | .date _ => dateRepr

theorem lenToks_eq (pv : PV) (L : LenP) (h1 : pv.get .len = L.len.map PyVal.int)
    (h2 : pv.get .minLen = L.minLen.map PyVal.int) (h3 : pv.get .maxLen = L.maxLen.map PyVal.int) :
    lenToks pv = reprLen L := by
  obtain ⟨l, a, b⟩ := L
  cases l <;> cases a <;> cases b <;> simp_all [lenToks, reprLen, reprInt]

/-- every scalar schema prints as the program extracted from its `visit_*` method says -/
theorem reprScalar_eq_extracted (k : ScalarS) : reprScalar k = runRepr (viewScalar k) (reprProgOf k) := by
  cases k with
  | none => rfl
  | bool v => cases v <;> rfl
  | int v mn mx => cases v <;> cases mn <;> cases mx <;> rfl
  | float v mn mx p d1 d2 => cases v <;> cases mn <;> cases mx <;> cases p <;> rfl
  | str v L al sub pat =>
    have hl := lenToks_eq (viewScalar (.str v L al sub pat)) L rfl rfl rfl
    have h1 : (viewScalar (.str v L al sub pat)).get .value = v.map PyVal.str := rfl
    have h2 : (viewScalar (.str v L al sub pat)).get .alphabet = al.map PyVal.str := rfl
    have h3 : (viewScalar (.str v L al sub pat)).get .substr = sub.map PyVal.str := rfl
    have h4 : (viewScalar (.str v L al sub pat)).pat = pat.map (·.id) := rfl
    show reprScalar _ = runRepr _ strRepr
    simp only [strRepr, runRepr, tokOf, h1, h2, h3, h4, hl, reprScalar]
    cases v <;> cases al <;> cases sub <;> cases pat <;> simp [callTok]
  | bytes v => cases v <;> rfl
  | uuid4 v => rcases v with _ | ⟨i, ver⟩ <;> rfl
  | datetime v => cases v <;> rfl
  | date v => rcases v with _ | ⟨_ | _, i⟩ <;> rfl

/-- non-vacuity: a schema with several declared props prints several calls, in the extracted order -/
example : runRepr (viewScalar (.int (some 3) (some 1) none)) intRepr
    = [.t "schema.int", .t "(", .val (.int 3), .t ")", .t ".min(", .val (.int 1), .t ")"] := by rfl

end D42
