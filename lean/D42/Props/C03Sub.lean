/-
  C03 (substitution validator) — the facts stated by the errors of `SubstitutorValidator`
  (d42/substitution/_validator.py, `sub = true`) are true as well, and it never reports more than the
  plain validator would.
-/
import D42.Props.C03Facts

namespace D42

/-! ### the substitution validator accepts whatever the plain one accepts -/

theorem hC03S_windows_exists (env : Env) (elems : List Schema)
    (h : ∀ xs i a p, validateElemsP env false elems xs i a p = [] → validateElemsP env true elems xs i a p = []) :
    ∀ (xs : List PyVal) (i n : Nat) (a : PyVal) (p : Path),
      (∃ w ∈ windowsP env false elems xs i n a p, w = []) → ∃ w ∈ windowsP env true elems xs i n a p, w = []
  | [], i, n, a, p => by simp [windowsP]
  | x :: xs, i, n, a, p => by
    have ih := hC03S_windows_exists env elems h xs (i + 1) n a p
    simp only [windowsP, List.mem_cons, exists_eq_or_imp]
    rintro (h0 | hw)
    · exact Or.inl (h _ _ _ _ h0)
    · exact Or.inr (ih hw)

mutual
theorem hC03S_P (env : Env) : ∀ (s : Schema) (a : PyVal) (p : Path),
    validateP env false s a p = [] → validateP env true s a p = []
  | .scalar k, a, p => by simp [validateP]
  | .listU L, a, p => by
    cases a <;> simp [validateP]
  | .listT t L, a, p => by
    cases a <;> simp only [validateP] <;> try (intro h; exact h)
    case list xs =>
      cases lenErrFirst L xs.length p (.list xs) with
      | some e => simp
      | none => exact hC03S_All env t xs 0 xs.length p
  | .listE lead es trail L, a, p => by
    cases a <;> simp only [validateP] <;> try (intro h; exact h)
    case list xs =>
      cases lenErrFirst L xs.length p (.list xs) with
      | some e => simp
      | none =>
        have hE := hC03S_Elems env es
        simp only []
        split
        · split
          · exact hE _ _ _ _
          · cases xs with
            | nil => simp [windowsP, minByLen]
            | cons x xs' =>
              rw [minByLen_nil_iff _ (windowsP_ne_nil env false es x xs' 0 _ _ p),
                  minByLen_nil_iff _ (windowsP_ne_nil env true es x xs' 0 _ _ p)]
              exact hC03S_windows_exists env es hE (x :: xs') 0 _ _ p
        · split
          · exact hE _ _ _ _
          · split
            · exact hE _ _ _ _
            · simp only [List.append_eq_nil_iff]
              rintro ⟨h1, h2⟩
              exact ⟨hE _ _ _ _ h1, h2⟩
  | .dict none _, a, p => by cases a <;> simp [validateP]
  | .dict (some fs) ell, a, p => by
    cases a <;> simp only [validateP] <;> try (intro h; exact h)
    case dict kvs =>
      simp only [List.append_eq_nil_iff]
      rintro ⟨h1, h2⟩
      exact ⟨hC03S_Fields env fs kvs _ p h1, h2⟩
  | .any none, _, _ => by simp [validateP]
  | .any (some ts), a, p => by
    simp only [validateP]
    have := hC03S_Any env ts a p
    cases h1 : anyOkP env false ts a p <;> simp
    simp [this h1]
  | .alias _ t, a, p => by simp only [validateP]; exact hC03S_P env t a p
  | .custom t, a, p => by simp only [validateP]; exact hC03S_P env t a p
theorem hC03S_All (env : Env) (t : Schema) : ∀ (xs : List PyVal) (i n : Nat) (p : Path),
    validateAllP env false t xs i n p = [] → validateAllP env true t xs i n p = []
  | [], _, _, _ => by simp [validateAllP]
  | x :: xs, i, n, p => by
    simp only [validateAllP, List.append_eq_nil_iff]
    rintro ⟨h1, h2⟩
    refine ⟨?_, hC03S_All env t xs (i + 1) n p h2⟩
    split
    · rfl
    · exact hC03S_P env t x _ (by simpa using h1)
theorem hC03S_Elems (env : Env) : ∀ (ss : List Schema) (xs : List PyVal) (i : Nat) (a : PyVal) (p : Path),
    validateElemsP env false ss xs i a p = [] → validateElemsP env true ss xs i a p = []
  | [], _, _, _, _ => by simp [validateElemsP]
  | _ :: _, [], _, _, _ => by simp [validateElemsP]
  | s :: ss, x :: xs, i, a, p => by
    simp only [validateElemsP, List.append_eq_nil_iff]
    rintro ⟨h1, h2⟩
    exact ⟨hC03S_P env s x _ h1, hC03S_Elems env ss xs (i + 1) a p h2⟩
theorem hC03S_Fields (env : Env) : ∀ (fs : List (PyKey × Bool × Schema)) (kvs : List (PyKey × PyVal)) (a : PyVal) (p : Path),
    validateFieldsP env false fs kvs a p = [] → validateFieldsP env true fs kvs a p = []
  | [], _, _, _ => by simp [validateFieldsP]
  | (k, opt, s) :: fs, kvs, a, p => by
    simp only [validateFieldsP, List.append_eq_nil_iff]
    rintro ⟨h1, h2⟩
    refine ⟨?_, hC03S_Fields env fs kvs a p h2⟩
    cases hl : lookupKey k kvs with
    | none => simp
    | some x =>
      simp only [hl] at h1
      simp only []
      split
      · rfl
      · exact hC03S_P env s x _ (by simpa using h1)
theorem hC03S_Any (env : Env) : ∀ (ss : List Schema) (a : PyVal) (p : Path),
    anyOkP env false ss a p = true → anyOkP env true ss a p = true
  | [], _, _ => by simp [anyOkP]
  | s :: ss, a, p => by
    simp only [anyOkP, Bool.or_eq_true, List.isEmpty_iff]
    rintro (h | h)
    · exact Or.inl (hC03S_P env s a p h)
    · exact Or.inr (hC03S_Any env ss a p h)
end

/-! ### truth of the stated facts, for both validators -/

theorem hC03S_Any_sub (env : Env) (sub : Bool) (ss : List Schema) (a : PyVal) (p : Path)
    (h : anyOkP env false ss a p = true) : anyOkP env sub ss a p = true := by
  cases sub
  · exact h
  · exact hC03S_Any env ss a p h

mutual
theorem hC03S_validateP_true (env : Env) (sub : Bool) : ∀ (s : Schema) (a : PyVal) (p : Path),
    ∀ e ∈ validateP env sub s a p, Fact env e
  | .scalar k, a, p => by
    intro e he
    simp only [validateP] at he
    exact validateScalar_true env k a p e he
  | .listU L, a, p => by
    intro e he
    cases a <;> simp only [validateP, List.mem_singleton] at he <;>
      (try (subst he; simp [Fact, HasTy]))
    case list xs =>
      cases h : lenErrFirst L xs.length p (.list xs) with
      | none => simp [h] at he
      | some e' =>
        simp [h] at he; subst he
        exact lenErrFirst_true env L _ p _ rfl e h
  | .listT t L, a, p => by
    intro e he
    cases a <;> simp only [validateP, List.mem_singleton] at he <;>
      (try (subst he; simp [Fact, HasTy]))
    case list xs =>
      cases h : lenErrFirst L xs.length p (.list xs) with
      | some e' =>
        simp [h] at he; subst he
        exact lenErrFirst_true env L _ p _ rfl e h
      | none =>
        simp only [h] at he
        exact hC03S_validateAllP_true env sub t xs 0 xs.length p e he
  | .listE lead es trail L, a, p => by
    intro e he
    cases a <;> simp only [validateP, List.mem_singleton] at he <;>
      (try (subst he; simp [Fact, HasTy]))
    case list xs =>
      cases h : lenErrFirst L xs.length p (.list xs) with
      | some e' =>
        simp [h] at he; subst he
        exact lenErrFirst_true env L _ p _ rfl e h
      | none =>
        simp only [h] at he
        have hE := hC03S_validateElemsP_true env sub es
        split at he
        · split at he
          · exact hE xs 0 (.list xs) p xs rfl (by simp) e he
          · cases xs with
            | nil => simp [windowsP, minByLen] at he
            | cons x xs' =>
              have hm := minByLen_mem _ (show windowsP env sub es (x :: xs') 0 (x :: xs').length (.list (x :: xs')) p ≠ [] by simp [windowsP])
              exact hC03S_windowsP_true env sub es (x :: xs') 0 _ (.list (x :: xs')) p (x :: xs') rfl (by simp) _ hm e he
        · split at he
          · exact hE xs 0 (.list xs) p xs rfl (by simp) e he
          · split at he
            · exact hE _ _ (.list xs) p xs rfl rfl e he
            · rcases List.mem_append.1 he with he | he
              · exact hE xs 0 (.list xs) p xs rfl (by simp) e he
              · simp [extraElems] at he
                obtain ⟨i, hi, rfl⟩ := he
                simp [Fact]; omega
  | .dict none _, a, p => by
    intro e he
    cases a <;> simp [validateP] at he <;> subst he <;> simp [Fact, HasTy]
  | .dict (some fs) ell, a, p => by
    intro e he
    cases a <;> simp only [validateP, List.mem_singleton] at he <;>
      (try (subst he; simp [Fact, HasTy]))
    case dict kvs =>
      rcases List.mem_append.1 he with he | he
      · exact hC03S_validateFieldsP_true env sub fs kvs (.dict kvs) p rfl e he
      · split at he
        · simp at he
        · simp at he
          obtain ⟨k, ⟨⟨v, hmem⟩, _⟩, rfl⟩ := he
          simp only [Fact]
          exact ⟨kvs, rfl, lookupKey_isSome_of_mem kvs (k, v) hmem⟩
  | .any none, _, _ => by simp [validateP]
  | .any (some ts), a, p => by
    intro e he
    simp only [validateP] at he
    split at he
    · simp at he
    · rename_i hok
      simp at he; subst he
      simp only [Fact]
      intro alt halt hc
      exact hok (hC03S_Any_sub env sub ts a p ((anyOkP_iff env ts a p).2 (AnyC_of_mem env a ts alt halt hc)))
  | .alias _ t, a, p => by
    intro e he; simp only [validateP] at he; exact hC03S_validateP_true env sub t a p e he
  | .custom t, a, p => by
    intro e he; simp only [validateP] at he; exact hC03S_validateP_true env sub t a p e he
theorem hC03S_validateAllP_true (env : Env) (sub : Bool) (t : Schema) : ∀ (xs : List PyVal) (i n : Nat) (p : Path),
    ∀ e ∈ validateAllP env sub t xs i n p, Fact env e
  | [], _, _, _ => by simp [validateAllP]
  | x :: xs, i, n, p => by
    intro e he
    simp only [validateAllP] at he
    rcases List.mem_append.1 he with he | he
    · split at he
      · simp at he
      · exact hC03S_validateP_true env sub t x _ e he
    · exact hC03S_validateAllP_true env sub t xs (i + 1) n p e he
theorem hC03S_validateElemsP_true (env : Env) (sub : Bool) : ∀ (ss : List Schema) (xs : List PyVal) (i : Nat) (a : PyVal) (p : Path) (whole : List PyVal),
    a = .list whole → whole.drop i = xs → ∀ e ∈ validateElemsP env sub ss xs i a p, Fact env e
  | [], _, _, _, _, _, _, _ => by simp [validateElemsP]
  | _ :: _, [], i, a, p, whole, ha, hd => by
    intro e he
    simp [validateElemsP] at he; subst he; subst ha
    simp only [Fact]
    exact ⟨whole, rfl, List.drop_eq_nil_iff.1 hd⟩
  | s :: ss, x :: xs, i, a, p, whole, ha, hd => by
    intro e he
    have hc := drop_cons_getElem whole i x xs hd
    simp only [validateElemsP] at he
    rcases List.mem_append.1 he with he | he
    · exact hC03S_validateP_true env sub s x _ e he
    · exact hC03S_validateElemsP_true env sub ss xs (i + 1) a p whole ha hc.2 e he
theorem hC03S_windowsP_true (env : Env) (sub : Bool) (elems : List Schema) : ∀ (xs : List PyVal) (i n : Nat) (a : PyVal) (p : Path) (whole : List PyVal),
    a = .list whole → whole.drop i = xs → ∀ w ∈ windowsP env sub elems xs i n a p, ∀ e ∈ w, Fact env e
  | [], _, _, _, _, _, _, _ => by simp [windowsP]
  | x :: xs, i, n, a, p, whole, ha, hd => by
    intro w hw e he
    have hc := drop_cons_getElem whole i x xs hd
    simp only [windowsP, List.mem_cons] at hw
    rcases hw with rfl | hw
    · exact hC03S_validateElemsP_true env sub elems (x :: xs) i a p whole ha hd e he
    · exact hC03S_windowsP_true env sub elems xs (i + 1) n a p whole ha hc.2 w hw e he
theorem hC03S_validateFieldsP_true (env : Env) (sub : Bool) : ∀ (fs : List (PyKey × Bool × Schema)) (kvs : List (PyKey × PyVal)) (a : PyVal) (p : Path),
    a = .dict kvs → ∀ e ∈ validateFieldsP env sub fs kvs a p, Fact env e
  | [], _, _, _, _ => by simp [validateFieldsP]
  | (k, opt, s) :: fs, kvs, a, p, ha => by
    intro e he
    simp only [validateFieldsP] at he
    rcases List.mem_append.1 he with he | he
    · cases hl : lookupKey k kvs with
      | none =>
        simp only [hl] at he
        split at he
        · simp at he
        · simp at he; subst he; subst ha
          simp only [Fact]
          exact ⟨kvs, rfl, hl⟩
      | some x =>
        simp only [hl] at he
        split at he
        · simp at he
        · exact hC03S_validateP_true env sub s x _ e he
    · exact hC03S_validateFieldsP_true env sub fs kvs a p ha e he
end

/-! ### theorems to prove -/

/-- the substitution validator is the laxer one: what the plain validator accepts it accepts
    (it only *skips* checks: `...` members at the edges, absent keys) -/
theorem sub_accepts_of_plain (env : Env) (s : Schema) (a : PyVal) (p : Path)
    (h : validateP env false s a p = []) : validateP env true s a p = [] :=
  hC03S_P env s a p h

/-- **C03 for both validators.** every error's stated fact is true of the sub-value it reports -/
theorem errors_true_sub (env : Env) (sub : Bool) (s : Schema) (v : PyVal) (p : Path) :
    ∀ e ∈ validateP env sub s v p, Fact env e :=
  hC03S_validateP_true env sub s v p

/-- non-vacuity: the substitution validator does report errors — `{"a": "x"}` against
    `schema.dict({"a": schema.int, "b": schema.int})` reports the type error at `["a"]` and no missing key -/
theorem errors_true_sub_example (env : Env) :
    validateP env true (.dict (some [(.str [97], false, .scalar (.int none none none)),
                                     (.str [98], false, .scalar (.int none none none))]) none)
      (.dict [(.str [97], .str [120])]) [] = [Err.type [.key (.str [97])] (.str [120]) .int] := by
  simp [validateP, validateFieldsP, lookupKey, isEllipsis, validateScalar, asInt, hasField]

end D42
