/-
  C04 / C12 — the "contains" scan `[..., a, b, ...] % value` tries the window starts in order and takes the FIRST one
  at which the body substitutes: every earlier start was refused (this is what makes the nested validation inside
  `_substitute_elements` load-bearing: a scan whose nested substitutions never refuse pins the body onto offset 0).
-/
import D42.Props.C05
import D42.Props.C02
namespace D42

/-- the scan's result is the substitution at some start `j`, and every start before `j` was refused -/
theorem substWindows_first (env : Env) (elems : List Schema) (xs : List PyVal) (n : Nat) (es : List Schema) :
    ∀ (k i : Nat), n - i = k → substWindows env elems xs i n = some es →
      ∃ j, i ≤ j ∧ j < n ∧ substElems env elems xs j = .ok es ∧
        ∀ j', i ≤ j' → j' < j → ok? (substElems env elems xs j') = none
  | 0, i, hk, h => by
    rw [substWindows] at h
    have : ¬ i < n := by omega
    simp [this] at h
  | k + 1, i, hk, h => by
    rw [substWindows] at h
    by_cases hi : i < n
    · simp only [hi, if_true] at h
      cases ho : substElems env elems xs i with
      | ok r =>
        simp only [ho, ok?] at h
        cases h
        exact ⟨i, Nat.le_refl _, hi, ho, fun j' h1 h2 => by omega⟩
      | error e =>
        simp only [ho, ok?] at h
        obtain ⟨j, hj1, hj2, hj3, hj4⟩ := substWindows_first env elems xs n es k (i + 1) (by omega) h
        refine ⟨j, by omega, hj2, hj3, fun j' h1 h2 => ?_⟩
        by_cases hji : j' = i
        · subst hji; simp [ho, ok?]
        · exact hj4 j' (by omega) h2
    · simp [hi] at h

/-- the scan gives up only when EVERY start is refused -/
theorem substWindows_none (env : Env) (elems : List Schema) (xs : List PyVal) (n : Nat) :
    ∀ (k i : Nat), n - i = k → substWindows env elems xs i n = none →
      ∀ j, i ≤ j → j < n → ok? (substElems env elems xs j) = none
  | 0, i, hk, _ => fun j h1 h2 => by omega
  | k + 1, i, hk, h => fun j h1 h2 => by
    rw [substWindows] at h
    have hi : i < n := by omega
    simp only [hi, if_true] at h
    cases ho : substElems env elems xs i with
    | ok r => simp [ho, ok?] at h
    | error e =>
      simp only [ho, ok?] at h
      by_cases hji : j = i
      · subst hji; simp [ho, ok?]
      · exact substWindows_none env elems xs n k (i + 1) (by omega) h j (by omega) h2

/-- a start is refused as soon as ONE body element refuses its value (so a value that does not fit the body's first element
    at start 0 cannot be pinned there) -/
theorem substElems_refused_of_zip (env : Env) (elems : List Schema) (xs : List PyVal) (j : Nat) (e : PyExc)
    (h : substZip env elems (xs.drop j) = .error e) : ok? (substElems env elems xs j) = none := by
  simp [substElems, h, ok?, bind, Except.bind]

/-! non-vacuity: `[..., int.min(100), ...] % [7, 200]` — start 0 is refused, the scan succeeds (at start 1) -/
def scanBody : List Schema := [.scalar (.int none (some 100) none)]
def scanVal : List PyVal := [.int 7, .int 200]
example : ok? (substElems exEnv scanBody scanVal 0) = none := by
  simp [scanBody, scanVal, substElems, substZip, subst, ok?, bind, Except.bind, validateScalar, asInt, intBoundErrs]
example : (substWindows exEnv scanBody scanVal 0 2).isSome = true := by
  simp [scanBody, scanVal, substWindows, substElems, substZip, subst, ok?, bind, Except.bind, validateScalar, asInt, intBoundErrs,
    fromNativeListS, fromNativeS, fromNative, pure, Except.pure]

end D42
