/-
  D42.Props.SubstProg — code → extracted ladder / idioms → hand model, for every input.
-/
import D42.Model.SubstProg
import D42.Gen.SubstProg

namespace D42
open CP SP Gen.SubstProg

/-- `from_native` of the model is the extracted `isinstance` ladder: which rung catches a value (bool before int, datetime
    before date, version-4 UUIDs only, marker keys refused) and what that rung builds -/
theorem fromNative_eq_extracted (v : PyVal) : fromNative v = build (classify ladder v) v := by
  cases v with
  | uuid i ver =>
    by_cases h : ver = 4 <;> simp [fromNative, ladder, classify, isInstance, build, h]
  | dict kvs =>
    simp only [fromNative, ladder, classify, isInstance, build, Bool.true_and]
    rfl
  | _ => simp [fromNative, ladder, classify, isInstance, build, asInt]

def substFormOf : ScalarS → ScalarSubst
  | .none => noneSubst
  | .bool _ => boolSubst
  | .int .. => intSubst
  | .float .. => floatSubst
  | .str .. => strSubst
  | .bytes _ => bytesSubst
  | .uuid4 _ => uuid4Subst
  | .datetime _ => datetimeSubst
  | .date _ => dateSubst

/-- the scalar clause of the substitution model is the extracted three-statement idiom of each `visit_*` -/
theorem subst_scalar_eq_extracted (env : Env) (k : ScalarS) (v : PyVal) :
    subst env (.scalar k) v = runScalarSubst env (substFormOf k) k v := by
  cases k <;>
    simp [subst, runScalarSubst, substFormOf, noneSubst, boolSubst, intSubst, floatSubst, strSubst, bytesSubst, uuid4Subst,
      datetimeSubst, dateSubst, ScalarS.withValue] <;>
    split <;> simp_all

/-- non-vacuity: the ladder decides in the order the source lists its rungs -/
example : classify ladder (.bool true) = .scalar .bool ∧ classify ladder (.datetime 3) = .scalar .datetime ∧
    classify ladder (.uuid 1 1) = .refuse ∧ classify ladder (.other 0) = .refuse := by decide

end D42
