/- C07 (statements are being added) -/
import D42.Model.History
