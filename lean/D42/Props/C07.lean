/-
  C07 — schemas are immutable values and all operations on them are pure: the abstract spec.

  `runHistory` folds public operations over an append-only pool. The theorems say what "immutable"
  and "pure" mean for the spec; the harness checks that the implementation refines it (pool equality
  after every generated history, and re-observation of every entry after every step on the real code).
-/
import D42.Model.History

namespace D42

/-- the observation a caller can make of pool entry `i` (printed form; verdict on any value; equality with any entry) -/
def observeRepr (pool : Pool) (i : Nat) : Option (List Tok) := (pool[i]?).map (fun s => represent s 0)
def observeVerdict (env : Env) (pool : Pool) (i : Nat) (v : PyVal) : Option Nat :=
  (pool[i]?).map (fun s => (validateP env false s v []).length)

/-! ### theorems to prove -/

theorem store_appends (pool : Pool) (r : Except PyExc Schema) :
    ∃ new, (store pool r).1 = pool ++ new ∧ new.length ≤ 1 := by
  cases r with
  | ok s => exact ⟨[s], by simp [store]⟩
  | error e => exact ⟨[], by simp [store]⟩

theorem store_raise_unchanged (pool : Pool) (r : Except PyExc Schema) (e : PyExc)
    (h : (store pool r).2 = .raised e) : (store pool r).1 = pool := by
  cases r with
  | ok s => simp [store] at h
  | error e => simp [store]

/-- one step only appends (at most one entry): nothing that exists is changed or removed -/
theorem hstep_appends (env : Env) (pool : Pool) (op : HOp) :
    ∃ new, (hstep env pool op).1 = pool ++ new ∧ new.length ≤ 1 := by
  cases op <;> simp only [hstep] <;>
    first
      | exact store_appends _ _
      | (split <;> first | exact store_appends _ _ | exact ⟨[], by simp⟩)

/-- a failing operation (one that raises) leaves the pool exactly as it was -/
theorem hstep_raise_unchanged (env : Env) (pool : Pool) (op : HOp) (e : PyExc)
    (h : (hstep env pool op).2 = .raised e) : (hstep env pool op).1 = pool := by
  cases op <;> simp only [hstep] at h ⊢ <;>
    first
      | exact store_raise_unchanged _ _ _ h
      | (split at h <;> first | exact store_raise_unchanged _ _ _ h | simp at h)

/-- observers (validate, represent, ==) never change the pool -/
theorem hstep_observers_pure (env : Env) (pool : Pool) (i j : Nat) (v : PyVal) :
    (hstep env pool (.validate i v)).1 = pool ∧ (hstep env pool (.represent i)).1 = pool ∧
    (hstep env pool (.eq i j)).1 = pool := by
  refine ⟨?_, ?_, ?_⟩ <;> simp only [hstep] <;> split <;> rfl

/-- **immutability.** after any history every entry that existed is still there, unchanged -/
theorem history_appends (env : Env) : ∀ (ops : List HOp) (pool : Pool),
    ∃ new, (runHistory env pool ops).1 = pool ++ new := by
  intro ops
  induction ops with
  | nil => intro pool; exact ⟨[], by simp [runHistory]⟩
  | cons op ops ih =>
    intro pool
    obtain ⟨n1, h1, _⟩ := hstep_appends env pool op
    obtain ⟨n2, h2⟩ := ih (hstep env pool op).1
    refine ⟨n1 ++ n2, ?_⟩
    simp only [runHistory]
    rw [h2, h1, List.append_assoc]

theorem entries_stable (env : Env) (ops : List HOp) (pool : Pool) (i : Nat) (h : i < pool.length) :
    (runHistory env pool ops).1[i]? = pool[i]? := by
  obtain ⟨new, hn⟩ := history_appends env ops pool
  rw [hn, List.getElem?_append_left h]

/-- … hence every observation of an existing entry is the same after any history -/
theorem observations_stable (env : Env) (ops : List HOp) (pool : Pool) (i : Nat) (v : PyVal) (h : i < pool.length) :
    observeRepr (runHistory env pool ops).1 i = observeRepr pool i ∧
    observeVerdict env (runHistory env pool ops).1 i v = observeVerdict env pool i v := by
  simp only [observeRepr, observeVerdict, entries_stable env ops pool i h, and_self]

/-- the schema an operation would store / the exception it raises, as a function of the entries it names -/
def resultOf (env : Env) (pool : Pool) : HOp → Option (Except PyExc Schema)
  | .decl i op => (pool[i]?).map (fun s => Decl.apply s op)
  | .subst i v => (pool[i]?).map (fun s => subst env s v)
  | .union i j => (match pool[i]?, pool[j]? with | some a, some b => some (.ok (a.union b)) | _, _ => none)
  | .add i j => (match pool[i]?, pool[j]? with
      | some a, some b => some (match a.add b with | some r => .ok r | none => .error .typeError) | _, _ => none)
  | .makeRequired i ks => (pool[i]?).map (fun s => makeRequired s ks)
  | .fromNative v => some (fromNative v)
  | .getItem i k => (pool[i]?).map (fun s => getItem s k)
  | _ => none

/-- **purity.** repeating an operation on the same entries gives the same result whatever was executed
    in between (the entries it names are below the old pool length) -/
theorem result_stable (env : Env) (ops : List HOp) (pool : Pool) (op : HOp)
    (hnamed : match op with
      | .decl i _ | .subst i _ | .makeRequired i _ | .getItem i _ | .validate i _ | .represent i => i < pool.length
      | .union i j | .add i j | .eq i j => i < pool.length ∧ j < pool.length
      | .fromNative _ => True) :
    resultOf env (runHistory env pool ops).1 op = resultOf env pool op := by
  cases op <;> simp only [resultOf] <;>
    first
      | rw [entries_stable env ops pool _ hnamed]
      | rw [entries_stable env ops pool _ hnamed.1, entries_stable env ops pool _ hnamed.2]
      | rfl

/-- non-vacuity: a three-step history on a one-entry pool grows it to three entries, the first unchanged -/
example : let env : Env := { rxSearch := fun _ _ => false, fl := PyFloat.fin }
    let p0 : Pool := [.scalar (.int none none none)]
    let r := runHistory env p0 [.decl 0 (.min (.v (.int 1))), .decl 0 (.call (.v (.str []))), .union 0 1]
    r.1.length = 3 ∧ r.1[0]? = p0[0]? := by
  simp [runHistory, hstep, store, Decl.apply, declScalar, argInt, asInt, bind, Except.bind, pure, Except.pure,
    Schema.union, flattenAny]

end D42
