/-
  C04 — umbrella: substitution pins / carries, and the generator's fixed-value short-circuit = what the source says.
-/
import D42.Props.C04Carries
import D42.Props.GenProg
import D42.Props.C04Scan
