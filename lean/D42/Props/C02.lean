/-
  C02 — the validation verdict equals the declared constraints, no more, no less.
-/
import D42.Spec.Conforms

namespace D42

theorem lenErrs_nil_iff (L : LenP) (n : Nat) (p : Path) (v : PyVal) :
    lenErrs L n p v = [] ↔ LenOK L n := by
  unfold lenErrs LenOK
  rcases L with ⟨l, mn, mx⟩
  cases l <;> cases mn <;> cases mx <;> simp <;> omega

theorem lenErrFirst_none_iff (L : LenP) (n : Nat) (p : Path) (v : PyVal) :
    lenErrFirst L n p v = none ↔ LenOK L n := by
  unfold lenErrFirst LenOK
  rcases L with ⟨l, mn, mx⟩
  cases l <;> cases mn <;> cases mx <;> simp <;> (try split) <;> (try split) <;> (try split) <;> simp_all <;> omega

theorem intBoundErrs_nil_iff (mn mx : Option Int) (n : Int) (p : Path) (v : PyVal) :
    intBoundErrs mn mx n p v = [] ↔ (∀ m, mn = some m → m ≤ n) ∧ (∀ m, mx = some m → n ≤ m) := by
  unfold intBoundErrs
  cases mn <;> cases mx <;> simp <;> omega

theorem floatBoundErrs_nil_iff (mn mx : Option PyFloat) (f : PyFloat) (p : Path) (v : PyVal) :
    floatBoundErrs mn mx f p v = [] ↔
      (∀ m, mn = some m → PyFloat.le m f = true) ∧ (∀ m, mx = some m → PyFloat.le f m = true) := by
  unfold floatBoundErrs PyFloat.ge
  cases mn <;> cases mx <;> simp

theorem strTail_nil_iff (L : LenP) (al sub : Option Str) (s : Str) (p : Path) (a : PyVal) :
    strTail L al sub s p a = [] ↔
      (LenOK L s.length ∧ (∀ a', al = some a' → ∀ c ∈ s, c ∈ a') ∧ (∀ sb, sub = some sb → sb <:+: s)) := by
  unfold strTail
  cases al <;> cases sub <;> simp [lenErrs_nil_iff, isInfixB] <;> intro _ <;> exact And.comm

theorem strRest_nil_iff (env : Env) (L : LenP) (al sub : Option Str) (pat : Option Pat) (s : Str) (p : Path) (a : PyVal) :
    strRest env L al sub pat s p a = [] ↔
      (LenOK L s.length ∧ (∀ a', al = some a' → ∀ c ∈ s, c ∈ a') ∧ (∀ sb, sub = some sb → sb <:+: s) ∧
       (∀ pt, pat = some pt → env.rxSearch pt.id s = true)) := by
  unfold strRest
  cases pat with
  | none => simp [strTail_nil_iff]
  | some pt =>
    by_cases h : env.rxSearch pt.id s = true
    · simp [h, strTail_nil_iff]
    · simp [h]

theorem strErrs_nil_iff (env : Env) (x : Option Str) (L : LenP) (al sub : Option Str) (pat : Option Pat)
    (s : Str) (p : Path) (a : PyVal) :
    strErrs env x L al sub pat s p a = [] ↔
      ((∀ y, x = some y → s = y) ∧ LenOK L s.length ∧ (∀ a', al = some a' → ∀ c ∈ s, c ∈ a') ∧
       (∀ sb, sub = some sb → sb <:+: s) ∧ (∀ pt, pat = some pt → env.rxSearch pt.id s = true)) := by
  unfold strErrs
  cases x with
  | none => simp [strRest_nil_iff]
  | some y =>
    by_cases h : s = y
    · simp [h, strRest_nil_iff]
    · simp [h]

theorem validateScalar_nil_iff (env : Env) (k : ScalarS) (a : PyVal) (p : Path) :
    validateScalar env k a p = [] ↔ ConformsScalar env k a := by
  cases k with
  | none => cases a <;> simp [validateScalar, ConformsScalar]
  | bool v => cases a <;> cases v <;> simp [validateScalar, ConformsScalar]
  | int v mn mx =>
    unfold validateScalar ConformsScalar
    cases h : asInt a with
    | none => simp [h]
    | some n =>
      cases v with
      | none => simp [h, intBoundErrs_nil_iff]
      | some x =>
        by_cases hx : n = x
        · simp [h, hx, intBoundErrs_nil_iff]
        · simp [h, hx]
  | float v mn mx prec d1 d2 =>
    cases a <;> simp [validateScalar, ConformsScalar]
    case float f =>
      cases v with
      | none => simp [floatBoundErrs_nil_iff]
      | some x =>
        by_cases hx : floatValueOk env f x prec = true
        · simp [hx, floatBoundErrs_nil_iff]
        · simp [hx]
  | str v L al sub pat => cases a <;> simp [validateScalar, ConformsScalar, strErrs_nil_iff]
  | bytes v => cases a <;> cases v <;> simp [validateScalar, ConformsScalar]
  | uuid4 v =>
    cases a <;> simp [validateScalar, ConformsScalar]
    case uuid i ver =>
      by_cases hv : ver = 4
      · subst hv
        cases v with
        | none => simp
        | some y => obtain ⟨yi, yv⟩ := y; simp
      · simp [hv]
  | datetime v => cases a <;> cases v <;> simp [validateScalar, ConformsScalar]
  | date v =>
    cases a <;> simp [validateScalar, ConformsScalar]
    case date i =>
      cases v with
      | none => simp
      | some y => obtain ⟨b, x⟩ := y; cases b <;> simp; exact eq_comm
    case datetime i =>
      cases v with
      | none => simp
      | some y => obtain ⟨b, x⟩ := y; cases b <;> simp; exact eq_comm

/-! ### list-form helpers -/

theorem minByLen_nil_iff {α} : ∀ (ws : List (List α)), ws ≠ [] → (minByLen ws = [] ↔ ∃ w ∈ ws, w = [])
  | [], h => absurd rfl h
  | [x], _ => by simp [minByLen]
  | x :: y :: r, _ => by
    have ih := minByLen_nil_iff (y :: r) (by simp)
    simp only [minByLen]
    by_cases hx : x.length ≤ (minByLen (y :: r)).length
    · simp only [hx, if_true]
      constructor
      · intro h; exact ⟨x, by simp, h⟩
      · rintro ⟨w, hw, rfl⟩
        rcases List.mem_cons.1 hw with rfl | hw'
        · rfl
        · have : minByLen (y :: r) = [] := ih.2 ⟨[], hw', rfl⟩
          rw [this] at hx
          exact List.length_eq_zero_iff.1 (Nat.le_zero.1 hx)
    · simp only [hx, if_false]
      rw [ih]
      constructor
      · rintro ⟨w, hw, rfl⟩; exact ⟨[], List.mem_cons_of_mem _ hw, rfl⟩
      · rintro ⟨w, hw, rfl⟩
        rcases List.mem_cons.1 hw with h0 | hw'
        · exfalso; apply hx; rw [← h0]; simp
        · exact ⟨[], hw', rfl⟩

theorem extraElems_nil_iff (p : Path) (a : PyVal) (m n : Nat) : extraElems p a m n = [] ↔ n ≤ m := by
  unfold extraElems
  simp [List.range'_eq_nil_iff]
  omega

theorem PrefixC_length (env : Env) : ∀ (ss : List Schema) (xs : List PyVal), PrefixC env ss xs → ss.length ≤ xs.length
  | [], _, _ => by simp
  | _ :: _, [], h => by simp [PrefixC] at h
  | s :: ss, x :: xs, h => by
    simp only [PrefixC] at h
    have := PrefixC_length env ss xs h.2
    simp; omega

/-- the windows of the contains form, given the element-wise characterisation -/
theorem windowsP_exists_nil (env : Env) (elems : List Schema)
    (h : ∀ xs i a p, validateElemsP env false elems xs i a p = [] ↔ PrefixC env elems xs) :
    ∀ (xs : List PyVal) (i n : Nat) (a : PyVal) (p : Path),
      (∃ w ∈ windowsP env false elems xs i n a p, w = []) ↔ ∃ j, j < xs.length ∧ PrefixC env elems (xs.drop j)
  | [], i, n, a, p => by simp [windowsP]
  | x :: xs, i, n, a, p => by
    have ih := windowsP_exists_nil env elems h xs (i + 1) n a p
    simp only [windowsP, List.mem_cons, exists_eq_or_imp]
    constructor
    · rintro (h0 | hw)
      · exact ⟨0, by simp, by simpa using (h (x :: xs) i a p).1 h0⟩
      · obtain ⟨j, hj, hp⟩ := ih.1 hw
        exact ⟨j + 1, by simp; omega, by simpa using hp⟩
    · rintro ⟨j, hj, hp⟩
      cases j with
      | zero => exact Or.inl ((h (x :: xs) i a p).2 (by simpa using hp))
      | succ j => exact Or.inr (ih.2 ⟨j, by simp at hj; omega, by simpa using hp⟩)

theorem windowsP_ne_nil (env : Env) (sub : Bool) (elems : List Schema) (x : PyVal) (xs : List PyVal) (i n : Nat) (a : PyVal) (p : Path) :
    windowsP env sub elems (x :: xs) i n a p ≠ [] := by simp [windowsP]

theorem extraKeys_nil_iff (fs : List (PyKey × Bool × Schema)) (kvs : List (PyKey × PyVal)) (p : Path) (a : PyVal) :
    ((kvs.filter (fun kv => !(hasField kv.1 fs))).map (fun kv => Err.extraKey p a kv.1)) = [] ↔
      ∀ kv ∈ kvs, hasField kv.1 fs = true := by
  simp [List.filter_eq_nil_iff]

/-! ### the theorem -/

mutual
theorem validateP_nil_iff (env : Env) : ∀ (s : Schema) (a : PyVal) (p : Path),
    validateP env false s a p = [] ↔ Conforms env s a
  | .scalar k, a, p => by simp [validateP, Conforms, validateScalar_nil_iff]
  | .listU L, a, p => by
    cases a <;> simp [validateP, Conforms]
    case list xs =>
      rw [← lenErrFirst_none_iff L xs.length p (.list xs)]
      cases lenErrFirst L xs.length p (.list xs) <;> simp
  | .listT t L, a, p => by
    cases a <;> simp [validateP, Conforms]
    case list xs =>
      rw [← lenErrFirst_none_iff L xs.length p (.list xs)]
      cases lenErrFirst L xs.length p (.list xs) <;> simp [validateAllP_nil_iff env t]
  | .listE lead es trail L, a, p => by
    cases a <;> simp [validateP, Conforms]
    case list xs =>
      rw [← lenErrFirst_none_iff L xs.length p (.list xs)]
      cases hl : lenErrFirst L xs.length p (.list xs) with
      | some e => simp
      | none =>
        have hE := validateElemsP_nil_iff env es
        cases lead <;> cases trail <;> simp
        · rw [hE, extraElems_nil_iff]
          constructor
          · rintro ⟨hp, hle⟩
            exact ⟨Nat.le_antisymm hle (PrefixC_length env _ _ hp), hp⟩
          · rintro ⟨hlen, hp⟩
            exact ⟨hp, Nat.le_of_eq hlen⟩
        · exact hE _ _ _ _
        · exact hE _ _ _ _
        · by_cases he : es = []
          · simp only [he, if_true]; subst he; simp [validateElemsP, PrefixC]
          · simp only [he, if_false]
            cases xs with
            | nil =>
              simp only [if_true, List.length_nil, Nat.not_lt_zero, false_and, exists_false, iff_false]
              rw [hE]
              cases es with
              | nil => exact absurd rfl he
              | cons e es' => simp [PrefixC]
            | cons x xs' =>
              simp only [List.cons_ne_nil, if_false]
              rw [minByLen_nil_iff _ (windowsP_ne_nil env false es x xs' 0 _ _ p)]
              exact windowsP_exists_nil env es (fun xs i a p => hE xs i a p) (x :: xs') 0 _ _ p
  | .dict none _, a, p => by cases a <;> simp [validateP, Conforms]
  | .dict (some fs) ell, a, p => by
    cases a <;> simp only [validateP, Conforms, reduceCtorEq, false_and, exists_false, PyVal.dict.injEq, exists_eq_left', List.cons_ne_nil]
    case dict kvs =>
      rw [List.append_eq_nil_iff, validateFieldsP_nil_iff env fs]
      cases ell with
      | none => simp [List.filter_eq_nil_iff]
      | some n => simp
  | .any none, _, _ => by simp [validateP, Conforms]
  | .any (some ts), a, p => by
    simp only [validateP, Conforms]
    rw [← anyOkP_iff env ts a p]
    cases anyOkP env false ts a p <;> simp
  | .alias _ t, a, p => by simp [validateP, Conforms, validateP_nil_iff env t]
  | .custom t, a, p => by simp [validateP, Conforms, validateP_nil_iff env t]
theorem validateAllP_nil_iff (env : Env) (t : Schema) : ∀ (xs : List PyVal) (i n : Nat) (p : Path),
    validateAllP env false t xs i n p = [] ↔ AllC env t xs
  | [], _, _, _ => by simp [validateAllP, AllC]
  | x :: xs, i, n, p => by
    simp [validateAllP, AllC, validateP_nil_iff env t, validateAllP_nil_iff env t xs]
theorem validateElemsP_nil_iff (env : Env) : ∀ (ss : List Schema) (xs : List PyVal) (i : Nat) (a : PyVal) (p : Path),
    validateElemsP env false ss xs i a p = [] ↔ PrefixC env ss xs
  | [], _, _, _, _ => by simp [validateElemsP, PrefixC]
  | _ :: _, [], _, _, _ => by simp [validateElemsP, PrefixC]
  | s :: ss, x :: xs, i, a, p => by
    simp [validateElemsP, PrefixC, validateP_nil_iff env s, validateElemsP_nil_iff env ss xs]
theorem validateFieldsP_nil_iff (env : Env) : ∀ (fs : List (PyKey × Bool × Schema)) (kvs : List (PyKey × PyVal)) (a : PyVal) (p : Path),
    validateFieldsP env false fs kvs a p = [] ↔ FieldsC env fs kvs
  | [], _, _, _ => by simp [validateFieldsP, FieldsC]
  | (k, opt, s) :: fs, kvs, a, p => by
    simp only [validateFieldsP, FieldsC, List.append_eq_nil_iff, validateFieldsP_nil_iff env fs kvs a p]
    cases lookupKey k kvs with
    | none => cases opt <;> simp
    | some x => simp [validateP_nil_iff env s]
theorem anyOkP_iff (env : Env) : ∀ (ss : List Schema) (a : PyVal) (p : Path),
    anyOkP env false ss a p = true ↔ AnyC env ss a
  | [], _, _ => by simp [anyOkP, AnyC]
  | s :: ss, a, p => by
    simp [anyOkP, AnyC, anyOkP_iff env ss a p, ← validateP_nil_iff env s a p]
end

/-- **C02.** The validator reports no errors exactly when the value conforms to the declared
    meaning of the schema — for every schema, every value and every path prefix. -/
theorem validate_iff_conforms (env : Env) (s : Schema) (v : PyVal) :
    validateP env false s v [] = [] ↔ Conforms env s v :=
  validateP_nil_iff env s v []

/-! ### non-vacuity: concrete instances on both sides of the equivalence -/

def exEnv : Env := { rxSearch := fun _ _ => true, fl := flExec }

/-- `schema.dict({"a": schema.int.min(1), optional("b"): schema.list([..., schema.none, ...])})` -/
def exSchema : Schema :=
  .dict (some [(.str [97], false, .scalar (.int none (some 1) none)),
               (.str [98], true, .listE true [.scalar .none] true {})]) none

example : Conforms exEnv exSchema (.dict [(.str [97], .int 3), (.str [98], .list [.int 0, .none])]) := by
  simp [exSchema, Conforms, FieldsC, lookupKey, ConformsScalar, asInt, LenOK, PrefixC, hasField]
  refine ⟨⟨1, by omega, by simp [PrefixC, Conforms, ConformsScalar]⟩, ?_⟩
  rintro a b (⟨rfl, _⟩ | ⟨rfl, _⟩) <;> simp

example : ¬ Conforms exEnv exSchema (.dict [(.str [97], .int 0)]) := by
  simp [exSchema, Conforms, FieldsC, lookupKey, ConformsScalar, asInt]

end D42
