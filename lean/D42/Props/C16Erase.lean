/-
  C16 (all visitors) — erasing every forwarding custom wrapper, at any set of positions, changes nothing
  observable: generation (same draws, same value, same requests), printed form (same tokens at every
  indent), substitution (same success / failure; results equal after erasing), equality.
-/
import D42.Props.C16
import D42.Props.C15

namespace D42

/-! ### generation -/

mutual
theorem c16e_gen (env : Env) : ∀ (s : Schema), gen env (erase s) = gen env s
  | .scalar k => by simp [erase]
  | .listU L => by simp [erase]
  | .listT t L => by simp [erase, gen, c16e_gen env t]
  | .listE lead es trail L => by simp [erase, gen, c16e_genList env es]
  | .dict none e => by simp [erase]
  | .dict (some fs) e => by simp [erase, gen, c16e_genFields env fs]
  | .any none => by simp [erase]
  | .any (some ts) => by simp [erase, gen, eraseList_length, c16e_genNth env ts]
  | .alias n t => by simp [erase, gen, c16e_gen env t]
  | .custom t => by simp [erase, gen, c16e_gen env t]
theorem c16e_genList (env : Env) : ∀ (ss : List Schema), genList env (erase.eraseList ss) = genList env ss
  | [] => by simp [erase.eraseList]
  | s :: ss => by simp [erase.eraseList, genList, c16e_gen env s, c16e_genList env ss]
theorem c16e_genFields (env : Env) : ∀ (fs : List (PyKey × Bool × Schema)),
    genFields env (erase.eraseFields fs) = genFields env fs
  | [] => by simp [erase.eraseFields]
  | (k, o, s) :: fs => by simp [erase.eraseFields, genFields, c16e_gen env s, c16e_genFields env fs]
theorem c16e_genNth (env : Env) : ∀ (ss : List Schema) (i : Nat),
    genNth env (erase.eraseList ss) i = genNth env ss i
  | [], _ => by simp [erase.eraseList]
  | s :: _, 0 => by simp [erase.eraseList, genNth, c16e_gen env s]
  | _ :: ss, i + 1 => by simp [erase.eraseList, genNth, c16e_genNth env ss i]
end

/-- **generation**: the wrapped tree and the plain tree are the same generator — same value, same draws
    consumed, same requests issued, same failures -/
theorem erase_gen (env : Env) (s : Schema) : gen env (erase s) = gen env s := c16e_gen env s

/-! ### printed form -/

theorem c16e_eraseFields_eq_nil (fs : List (PyKey × Bool × Schema)) : erase.eraseFields fs = [] ↔ fs = [] := by
  rcases fs with _ | ⟨⟨k, o, s⟩, r⟩ <;> simp [erase.eraseFields]

mutual
theorem c16e_represent : ∀ (s : Schema) (ind : Nat), represent (erase s) ind = represent s ind
  | .scalar k, _ => by simp [erase]
  | .listU L, _ => by simp [erase]
  | .listT t L, ind => by simp [erase, represent, c16e_represent t ind]
  | .listE lead es trail L, ind => by simp [erase, represent, c16e_reprElems es]
  | .dict none e, _ => by simp [erase]
  | .dict (some fs) e, ind => by
    rcases fs with _ | ⟨⟨k, o, s⟩, r⟩
    · simp [erase, erase.eraseFields]
    · have h := c16e_reprFields ((k, o, s) :: r) (ind + 4)
      simp only [erase.eraseFields] at h
      simp only [erase, erase.eraseFields, represent, h]
  | .any none, _ => by simp [erase]
  | .any (some ts), ind => by simp [erase, represent, c16e_reprAlts ts ind]
  | .alias n t, ind => by simp [erase, represent, c16e_represent t ind]
  | .custom t, ind => by simp [erase, represent, c16e_represent t ind]
theorem c16e_reprElems : ∀ (ss : List Schema) (ind : Nat), reprElems (erase.eraseList ss) ind = reprElems ss ind
  | [], _ => by simp [erase.eraseList]
  | s :: ss, ind => by simp [erase.eraseList, reprElems, c16e_represent s ind, c16e_reprElems ss ind]
theorem c16e_reprFields : ∀ (fs : List (PyKey × Bool × Schema)) (ind : Nat),
    reprFields (erase.eraseFields fs) ind = reprFields fs ind
  | [], _ => by simp [erase.eraseFields]
  | (k, o, s) :: fs, ind => by simp [erase.eraseFields, reprFields, c16e_represent s ind, c16e_reprFields fs ind]
theorem c16e_reprAlts : ∀ (ss : List Schema) (ind : Nat), reprAlts (erase.eraseList ss) ind = reprAlts ss ind
  | [], _ => by simp [erase.eraseList]
  | s :: ss, ind => by simp [erase.eraseList, reprAlts, c16e_represent s ind, c16e_reprAlts ss ind]
end

/-- **printed form**: identical tokens at every indent -/
theorem erase_represent (s : Schema) (ind : Nat) : represent (erase s) ind = represent s ind :=
  c16e_represent s ind

/-! ### idempotence -/

mutual
theorem c16e_idem : ∀ (s : Schema), erase (erase s) = erase s
  | .scalar k => by simp [erase]
  | .listU L => by simp [erase]
  | .listT t L => by simp [erase, c16e_idem t]
  | .listE lead es trail L => by simp [erase, c16e_idemList es]
  | .dict none e => by simp [erase]
  | .dict (some fs) e => by simp [erase, c16e_idemFields fs]
  | .any none => by simp [erase]
  | .any (some ts) => by simp [erase, c16e_idemList ts]
  | .alias n t => by simp [erase, c16e_idem t]
  | .custom t => by simp [erase, c16e_idem t]
theorem c16e_idemList : ∀ (ss : List Schema), erase.eraseList (erase.eraseList ss) = erase.eraseList ss
  | [] => by simp [erase.eraseList]
  | s :: ss => by simp [erase.eraseList, c16e_idem s, c16e_idemList ss]
theorem c16e_idemFields : ∀ (fs : List (PyKey × Bool × Schema)),
    erase.eraseFields (erase.eraseFields fs) = erase.eraseFields fs
  | [] => by simp [erase.eraseFields]
  | (k, o, s) :: fs => by simp [erase.eraseFields, c16e_idem s, c16e_idemFields fs]
end

/-- `erase` is idempotent and removes every wrapper -/
theorem erase_idem (s : Schema) : erase (erase s) = erase s := c16e_idem s

/-! ### from_native -/

mutual
theorem c16e_fromNative : ∀ (v : PyVal) (s : Schema), fromNative v = .ok s → erase s = s
  | .none, s, h => by simp [fromNative] at h; subst h; simp [erase]
  | .bool b, s, h => by simp [fromNative] at h; subst h; simp [erase]
  | .int n, s, h => by simp [fromNative] at h; subst h; simp [erase]
  | .float f, s, h => by simp [fromNative] at h; subst h; simp [erase]
  | .str _, s, h => by simp [fromNative] at h; subst h; simp [erase]
  | .bytes b, s, h => by simp [fromNative] at h; subst h; simp [erase]
  | .uuid i ver, s, h => by
    simp only [fromNative] at h
    split at h
    · injection h with h; subst h; simp [erase]
    · cases h
  | .datetime i, s, h => by simp [fromNative] at h; subst h; simp [erase]
  | .date i, s, h => by simp [fromNative] at h; subst h; simp [erase]
  | .list xs, s, h => by
    simp only [fromNative] at h
    cases hx : fromNativeList xs with
    | error e => simp [hx, bind, Except.bind] at h
    | ok es =>
      simp [hx, bind, Except.bind, pure, Except.pure] at h
      subst h
      simp [erase, c16e_fromNativeList xs es hx]
  | .dict kvs, s, h => by
    simp only [fromNative] at h
    split at h
    · cases h
    · cases hx : fromNativeKVs kvs with
      | error e => simp [hx, bind, Except.bind] at h
      | ok fs =>
        simp [hx, bind, Except.bind, pure, Except.pure] at h
        subst h
        simp [erase, c16e_fromNativeKVs kvs fs hx]
  | .ellipsis, s, h => by simp [fromNative] at h
  | .other _, s, h => by simp [fromNative] at h
theorem c16e_fromNativeList : ∀ (xs : List PyVal) (es : List Schema), fromNativeList xs = .ok es →
    erase.eraseList es = es
  | [], es, h => by simp [fromNativeList] at h; subst h; simp [erase.eraseList]
  | x :: xs, es, h => by
    simp only [fromNativeList] at h
    cases hx : fromNative x with
    | error e => simp [hx, bind, Except.bind] at h
    | ok a =>
      cases hy : fromNativeList xs with
      | error e => simp [hx, hy, bind, Except.bind] at h
      | ok b =>
        simp [hx, hy, bind, Except.bind, pure, Except.pure] at h
        subst h
        simp [erase.eraseList, c16e_fromNative x a hx, c16e_fromNativeList xs b hy]
theorem c16e_fromNativeKVs : ∀ (kvs : List (PyKey × PyVal)) (fs : List (PyKey × Bool × Schema)),
    fromNativeKVs kvs = .ok fs → erase.eraseFields fs = fs
  | [], fs, h => by simp [fromNativeKVs] at h; subst h; simp [erase.eraseFields]
  | (k, v) :: r, fs, h => by
    simp only [fromNativeKVs] at h
    cases hx : fromNative v with
    | error e => simp [hx, bind, Except.bind] at h
    | ok a =>
      cases hy : fromNativeKVs r with
      | error e => simp [hx, hy, bind, Except.bind] at h
      | ok b =>
        simp [hx, hy, bind, Except.bind, pure, Except.pure] at h
        subst h
        simp [erase.eraseFields, c16e_fromNative v a hx, c16e_fromNativeKVs r b hy]
end

/-- from_native never produces wrappers -/
theorem erase_fromNative (v : PyVal) (s : Schema) (h : fromNative v = .ok s) : erase s = s :=
  c16e_fromNative v s h


/-! ### substitution -/

theorem c16e_validate_isEmpty (env : Env) (sub : Bool) (s : Schema) (a : PyVal) (p : Path) :
    (validateP env sub (erase s) a p).isEmpty = (validateP env sub s a p).isEmpty := by
  rw [erase_validate, map_isEmpty]

theorem c16e_map_fix {α} (f : α → α) (x : Except PyExc α) (h : ∀ a, x = .ok a → f a = a) : x.map f = x := by
  cases x with
  | error e => rfl
  | ok a => simp [Except.map, h a rfl]

theorem c16e_ite_map {α β} (f : α → β) (c : Prop) [Decidable c] (e : PyExc) (x : Except PyExc α)
    (y : Except PyExc β) (h : y = x.map f) :
    (if c then Except.error e else y) = Except.map f (if c then Except.error e else x) := by
  split <;> simp [Except.map, h]

theorem c16e_ite_map2 {α β} (f : α → β) (c : Prop) [Decidable c] (a b : Except PyExc α)
    (a' b' : Except PyExc β) (ha : a' = a.map f) (hb : b' = b.map f) :
    (if c then a' else b') = Except.map f (if c then a else b) := by
  split <;> simp [ha, hb]

theorem c16e_fromNativeS (v : PyVal) (s : Schema) (h : fromNativeS v = .ok s) : erase s = s := by
  unfold fromNativeS at h
  cases hx : fromNative v with
  | ok a => simp [hx] at h; subst h; exact c16e_fromNative v a hx
  | error e => simp [hx] at h

theorem c16e_fromNativeListS : ∀ (xs : List PyVal) (es : List Schema), fromNativeListS xs = .ok es →
    erase.eraseList es = es
  | [], es, h => by simp [fromNativeListS] at h; subst h; simp [erase.eraseList]
  | x :: xs, es, h => by
    simp only [fromNativeListS] at h
    cases hx : fromNativeS x with
    | error e => simp [hx, bind, Except.bind] at h
    | ok a =>
      cases hy : fromNativeListS xs with
      | error e => simp [hx, hy, bind, Except.bind] at h
      | ok b =>
        simp [hx, hy, bind, Except.bind, pure, Except.pure] at h
        subst h
        simp [erase.eraseList, c16e_fromNativeS x a hx, c16e_fromNativeListS xs b hy]

theorem c16e_mapM_fresh : ∀ (l : List (PyKey × PyVal)) (fs : List (PyKey × Bool × Schema)),
    l.mapM (fun kv => do let s ← fromNativeS kv.2; pure (kv.1, false, s)) = Except.ok fs →
    erase.eraseFields fs = fs
  | [], fs, h => by simp [pure, Except.pure] at h; subst h; simp [erase.eraseFields]
  | kv :: l, fs, h => by
    rw [List.mapM_cons] at h
    cases hx : fromNativeS kv.2 with
    | error e => simp [hx, bind, Except.bind] at h
    | ok a =>
      cases hy : l.mapM (fun kv => do let s ← fromNativeS kv.2; pure (kv.1, false, s)) with
      | error e => rw [hy] at h; simp [hx, bind, Except.bind, pure, Except.pure] at h
      | ok b =>
        rw [hy] at h
        simp [hx, bind, Except.bind, pure, Except.pure] at h
        subst h
        simp [erase.eraseFields, c16e_fromNativeS _ a hx, c16e_mapM_fresh l b hy]

theorem c16e_substFresh (kvs : List (PyKey × PyVal)) (r : Bool) (s : Schema)
    (h : substFresh kvs r = .ok s) : erase s = s := by
  unfold substFresh at h
  split at h
  · cases h
  · dsimp only at h
    cases hm : (kvs.filter (fun kv => !(kv.1 == PyKey.ellipsis))).mapM
        (fun kv => do let s ← fromNativeS kv.2; pure (kv.1, false, s)) with
    | error e => rw [hm] at h; simp [bind, Except.bind] at h
    | ok fs =>
      rw [hm] at h
      simp [bind, Except.bind, pure, Except.pure] at h
      subst h
      simp [erase, c16e_mapM_fresh _ fs hm]


theorem c16e_eraseList_eq_map : ∀ (ss : List Schema), erase.eraseList ss = ss.map erase
  | [] => rfl
  | s :: ss => by simp [erase.eraseList, c16e_eraseList_eq_map ss]

theorem c16e_eraseList_append (a b : List Schema) :
    erase.eraseList (a ++ b) = erase.eraseList a ++ erase.eraseList b := by
  simp [c16e_eraseList_eq_map]

theorem c16e_substElems (env : Env) (ss : List Schema) (xs : List PyVal) (start : Nat)
    (hz : ∀ ys, substZip env (erase.eraseList ss) ys = (substZip env ss ys).map erase.eraseList) :
    substElems env (erase.eraseList ss) xs start = (substElems env ss xs start).map erase.eraseList := by
  unfold substElems
  rw [hz, eraseList_length]
  cases h1 : substZip env ss (xs.drop start) with
  | error e => simp [bind, Except.bind, Except.map]
  | ok mid =>
    cases h2 : fromNativeListS (xs.drop (start + ss.length)) with
    | error e => simp [bind, Except.bind, Except.map]
    | ok suffix =>
      cases h3 : fromNativeListS (xs.take start) with
      | error e => simp [bind, Except.bind, Except.map]
      | ok pre =>
        simp [bind, Except.bind, Except.map, pure, Except.pure, c16e_eraseList_append,
          c16e_fromNativeListS _ _ h2, c16e_fromNativeListS _ _ h3]

theorem c16e_substWindows (env : Env) (ss : List Schema) (xs : List PyVal)
    (hz : ∀ ys, substZip env (erase.eraseList ss) ys = (substZip env ss ys).map erase.eraseList) :
    ∀ (k i n : Nat), n - i = k →
      substWindows env (erase.eraseList ss) xs i n = (substWindows env ss xs i n).map erase.eraseList := by
  intro k
  induction k with
  | zero =>
    intro i n h
    unfold substWindows
    have : ¬ i < n := by omega
    simp [this]
  | succ k ih =>
    intro i n h
    unfold substWindows
    have hlt : i < n := by omega
    simp only [hlt, if_true, c16e_substElems env ss xs i hz]
    cases substElems env ss xs i with
    | error e => simp [Except.map, ok?, ih (i + 1) n (by omega)]
    | ok r => simp [Except.map, ok?]


mutual
theorem c16e_subst (env : Env) : ∀ (s : Schema) (v : PyVal),
    subst env (erase s) v = (subst env s v).map erase
  | .scalar k, v => by
    simp only [erase, subst]
    split <;> simp [Except.map, erase]
  | .listU L, v => by
    simp only [erase]
    cases v
    case list xs =>
      simp only [subst]
      refine c16e_ite_map _ _ _ _ _ ?_
      refine c16e_ite_map _ _ _ _ _ ?_
      refine c16e_ite_map _ _ _ _ _ ?_
      cases h : fromNativeListS (stripEll xs).2.fst with
      | error e => simp [bind, Except.bind, Except.map]
      | ok es => simp [bind, Except.bind, Except.map, pure, Except.pure, erase, c16e_fromNativeListS _ _ h]
    all_goals simp [subst, validateP, Except.map]
  | .listT t L, v => by
    cases v
    case list xs =>
      have hv := c16e_validate_isEmpty env true (.listT t L) (.list xs) []
      simp only [erase] at hv
      simp only [erase, subst, hv]
      refine c16e_ite_map _ _ _ _ _ ?_
      refine c16e_ite_map _ _ _ _ _ ?_
      refine c16e_ite_map _ _ _ _ _ ?_
      rw [c16e_substAll env t]
      cases substAll env t (stripEll xs).2.fst <;>
        simp [bind, Except.bind, Except.map, pure, Except.pure, erase]
    all_goals simp [erase, subst, validateP, Except.map]
  | .listE lead es trail L, v => by
    cases v
    case list xs =>
      have hv := c16e_validate_isEmpty env true (.listE lead es trail L) (.list xs) []
      simp only [erase] at hv
      simp only [erase, subst, hv]
      refine c16e_ite_map _ _ _ _ _ ?_
      refine c16e_ite_map _ _ _ _ _ ?_
      refine c16e_ite_map _ _ _ _ _ ?_
      have hz := c16e_substZip env es
      simp only [eraseList_isEmpty, eraseList_length, c16e_substElems env es xs _ hz,
        c16e_substWindows env es xs hz _ 0 xs.length rfl]
      refine c16e_ite_map2 _ _ _ _ _ _ ?_ ?_
      · cases substWindows env es xs 0 xs.length <;> simp [Except.map, erase]
      refine c16e_ite_map2 _ _ _ _ _ _ ?_ ?_
      · cases substElems env es xs 0 <;> simp [bind, Except.bind, Except.map, pure, Except.pure, erase]
      refine c16e_ite_map2 _ _ _ _ _ _ ?_ ?_
      · cases substElems env es xs (xs.length - es.length) <;>
          simp [bind, Except.bind, Except.map, pure, Except.pure, erase]
      · cases substElems env es xs 0 <;> simp [bind, Except.bind, Except.map, pure, Except.pure, erase]
    all_goals simp [erase, subst, validateP, Except.map]
  | .dict none e, v => by
    cases v
    case dict kvs =>
      simp only [erase, subst]
      refine c16e_ite_map _ _ _ _ _ ?_
      exact (c16e_map_fix _ _ (c16e_substFresh kvs false)).symm
    all_goals simp [erase, subst, validateP, Except.map]
  | .dict (some []) (some pos), v => by
    cases v
    case dict kvs =>
      simp only [erase, erase.eraseFields, subst]
      refine c16e_ite_map _ _ _ _ _ ?_
      exact (c16e_map_fix _ _ (c16e_substFresh kvs true)).symm
    all_goals simp [erase, erase.eraseFields, subst, validateP, Except.map]
  | .dict (some []) none, v => by
    cases v
    case dict kvs =>
      simp only [erase, erase.eraseFields, subst]
      refine c16e_ite_map _ _ _ _ _ ?_
      refine c16e_ite_map _ _ _ _ _ ?_
      simp only [substFields, bind, Except.bind]
      split <;> simp [Except.map, erase, erase.eraseFields, pure, Except.pure]
    all_goals simp [erase, erase.eraseFields, subst, validateP, Except.map]
  | .dict (some (f :: fs)) e, v => by
    cases v
    case dict kvs =>
      have hv := c16e_validate_isEmpty env true (.dict (some (f :: fs)) e) (.dict kvs) []
      have hf := c16e_substFields env (f :: fs) kvs
      obtain ⟨k, o, s⟩ := f
      simp only [erase, erase.eraseFields] at hv hf
      have hh : ∀ k', hasField k' ((k, o, erase s) :: erase.eraseFields fs) = hasField k' ((k, o, s) :: fs) := by
        intro k'
        have := hasField_eraseFields k' ((k, o, s) :: fs)
        simpa only [erase.eraseFields] using this
      simp only [erase, erase.eraseFields, subst, hv, hf, hh]
      refine c16e_ite_map _ _ _ _ _ ?_
      refine c16e_ite_map _ _ _ _ _ ?_
      cases substFields env ((k, o, s) :: fs) kvs with
      | error e => simp [bind, Except.bind, Except.map]
      | ok r =>
        simp only [bind, Except.bind, Except.map]
        split <;> simp [erase, pure, Except.pure]
    all_goals (obtain ⟨k, o, s⟩ := f; simp [erase, erase.eraseFields, subst, validateP, Except.map])
  | .any none, v => by
    simp only [erase, subst]
    cases h : fromNativeS v with
    | error e => simp [bind, Except.bind, Except.map]
    | ok s => simp [bind, Except.bind, Except.map, pure, Except.pure, erase, erase.eraseList, c16e_fromNativeS _ _ h]
  | .any (some ts), v => by
    have hv := c16e_validate_isEmpty env true (.any (some ts)) v []
    simp only [erase] at hv
    simp only [erase, subst, hv, c16e_substAlts env ts v]
    refine c16e_ite_map _ _ _ _ _ ?_
    cases substAlts env ts v <;> simp [Except.map, erase.eraseList, erase]
  | .alias n t, v => by
    simp only [erase, subst, c16e_subst env t v]
    cases subst env t v <;> simp [bind, Except.bind, Except.map, pure, Except.pure, erase]
  | .custom t, v => by
    simp only [erase, subst, c16e_subst env t v]
    cases subst env t v <;> simp [bind, Except.bind, Except.map, pure, Except.pure, erase]
theorem c16e_substAll (env : Env) (t : Schema) : ∀ (xs : List PyVal),
    substAll env (erase t) xs = (substAll env t xs).map erase.eraseList
  | [] => by simp [substAll, Except.map, erase.eraseList]
  | x :: xs => by
    simp only [substAll, c16e_subst env t x, c16e_substAll env t xs]
    cases subst env t x <;> cases substAll env t xs <;>
      simp [bind, Except.bind, Except.map, pure, Except.pure, erase.eraseList]
theorem c16e_substZip (env : Env) : ∀ (ss : List Schema) (xs : List PyVal),
    substZip env (erase.eraseList ss) xs = (substZip env ss xs).map erase.eraseList
  | [], _ => by simp [substZip, Except.map, erase.eraseList]
  | _ :: _, [] => by simp [substZip, Except.map, erase.eraseList]
  | s :: ss, x :: xs => by
    simp only [erase.eraseList, substZip, c16e_subst env s x, c16e_substZip env ss xs]
    cases subst env s x <;> cases substZip env ss xs <;>
      simp [bind, Except.bind, Except.map, pure, Except.pure, erase.eraseList]
theorem c16e_substFields (env : Env) : ∀ (fs : List (PyKey × Bool × Schema)) (kvs : List (PyKey × PyVal)),
    substFields env (erase.eraseFields fs) kvs = (substFields env fs kvs).map erase.eraseFields
  | [], _ => by simp [substFields, Except.map, erase.eraseFields]
  | (k, o, s) :: fs, kvs => by
    simp only [erase.eraseFields, substFields, c16e_substFields env fs kvs]
    cases hl : lookupKey k kvs with
    | none =>
      cases substFields env fs kvs <;>
        simp [bind, Except.bind, Except.map, pure, Except.pure, erase.eraseFields]
    | some x =>
      have hx := c16e_subst env s x
      generalize hr : subst env s x = r at hx
      cases x <;> simp only [hx, hr] <;> cases r <;> cases substFields env fs kvs <;>
        simp [bind, Except.bind, Except.map, pure, Except.pure, erase.eraseFields]
theorem c16e_substAlts (env : Env) : ∀ (ss : List Schema) (v : PyVal),
    substAlts env (erase.eraseList ss) v = erase.eraseList (substAlts env ss v)
  | [], _ => by simp [substAlts, erase.eraseList]
  | s :: ss, v => by
    simp only [erase.eraseList, substAlts, c16e_subst env s v, c16e_substAlts env ss v]
    cases subst env s v <;> simp [Except.map, ok?, erase.eraseList]
end


/-- **substitution**: succeeds or fails identically, and the results are equal after erasing -/
theorem erase_subst (env : Env) (s : Schema) (v : PyVal) :
    subst env (erase s) v = (subst env s v).map erase := c16e_subst env s v

/-! ### equality -/

/-- `erase_pyEq_self` as first stated (without a hypothesis) is false: a dict declaration that lists the
    same key twice, once wrapped and once not, is not equal to itself (the second field is compared with
    the first one found under that key: plain against wrapped), while its erasure is. -/
theorem erase_pyEq_self_counterexample (env : Env) :
    ¬ ∀ s : Schema, pyEq env s s = pyEq env (erase s) (erase s) := by
  intro h
  have := h (.dict (some [(.none, false, .custom (.scalar .none)), (.none, false, .scalar .none)]) none)
  simp [pyEq, eqFields, erase, erase.eraseFields, scalarEq] at this

def c16e_notCustom : Schema → Prop
  | .custom _ => False
  | _ => True

mutual
/-- `a` and `b` carry their custom wrappers at the same positions: along every pair of sub-schemas that
    `pyEq` compares, one is a wrapper iff the other is -/
def c16e_Aligned : Schema → Schema → Prop
  | .scalar _, b => c16e_notCustom b
  | .listU _, b => c16e_notCustom b
  | .listT t _, b => (match b with | .listT u _ => c16e_Aligned t u | .custom _ => False | _ => True)
  | .listE lead es _ _, b =>
    (match b with
     | .listE lead2 es2 trail2 _ =>
       c16e_AlignedE es (if lead then (elemList lead2 es2 trail2).tail else elemList lead2 es2 trail2)
     | .custom _ => False
     | _ => True)
  | .dict none _, b => c16e_notCustom b
  | .dict (some x) _, b =>
    (match b with | .dict (some y) _ => c16e_AlignedF x y | .custom _ => False | _ => True)
  | .any none, b => c16e_notCustom b
  | .any (some xs), b =>
    (match b with | .any (some ys) => c16e_AlignedL xs ys | .custom _ => False | _ => True)
  | .alias _ t, b => (match b with | .alias _ u => c16e_Aligned t u | .custom _ => False | _ => True)
  | .custom t, b => (match b with | .custom u => c16e_Aligned t u | _ => False)
def c16e_AlignedE : List Schema → List (Option Schema) → Prop
  | [], _ => True
  | _ :: _, [] => True
  | e :: es, y :: ys => (match y with | some b => c16e_Aligned e b | none => True) ∧ c16e_AlignedE es ys
def c16e_AlignedL : List Schema → List Schema → Prop
  | [], _ => True
  | _ :: _, [] => True
  | x :: xs, y :: ys => c16e_Aligned x y ∧ c16e_AlignedL xs ys
def c16e_AlignedF : List (PyKey × Bool × Schema) → List (PyKey × Bool × Schema) → Prop
  | [], _ => True
  | (k, _, s) :: r, b =>
    (match b.find? (fun f => f.1 == k) with | some f => c16e_Aligned s f.2.2 | none => True) ∧
    c16e_AlignedF r b
end

theorem c16e_elemList_erase (l : Bool) (es : List Schema) (t : Bool) :
    elemList l (erase.eraseList es) t = (elemList l es t).map (Option.map erase) := by
  cases l <;> cases t <;> simp [elemList, c16e_eraseList_eq_map]

theorem c16e_find_eraseFields (k : PyKey) : ∀ (b : List (PyKey × Bool × Schema)),
    (erase.eraseFields b).find? (fun f => f.1 == k) =
      (b.find? (fun f => f.1 == k)).map (fun f => (f.1, f.2.1, erase f.2.2))
  | [] => by simp [erase.eraseFields]
  | (k', o, s) :: b => by
    simp only [erase.eraseFields, List.find?_cons, c16e_find_eraseFields k b]
    split <;> simp

theorem c16e_eraseFields_length : ∀ (fs : List (PyKey × Bool × Schema)),
    (erase.eraseFields fs).length = fs.length
  | [] => rfl
  | (_, _, _) :: fs => by simp [erase.eraseFields, c16e_eraseFields_length fs]

theorem c16e_erase_dict (fs : Option (List (PyKey × Bool × Schema))) (e : Option Nat) :
    erase (.dict fs e) = .dict (fs.map erase.eraseFields) e := by
  cases fs <;> simp [erase]

theorem c16e_erase_any (ts : Option (List Schema)) : erase (.any ts) = .any (ts.map erase.eraseList) := by
  cases ts <;> simp [erase]


mutual
theorem c16e_pyEq (env : Env) : ∀ (a b : Schema), c16e_Aligned a b →
    pyEq env (erase a) (erase b) = pyEq env a b
  | .scalar k, b, h => by
    cases b
    case dict fb eb => cases fb <;> simp [erase, pyEq]
    case any y => cases y <;> simp [erase, pyEq]
    case custom u => simp [c16e_Aligned, c16e_notCustom] at h
    all_goals simp [erase, pyEq]
  | .listU L, b, h => by
    cases b
    case dict fb eb => cases fb <;> simp [erase, pyEq]
    case any y => cases y <;> simp [erase, pyEq]
    case custom u => simp [c16e_Aligned, c16e_notCustom] at h
    all_goals simp [erase, pyEq, c16e_validate_isEmpty]
  | .listT t L, b, h => by
    cases b
    case dict fb eb => cases fb <;> simp [erase, pyEq]
    case any y => cases y <;> simp [erase, pyEq]
    case custom u => simp [c16e_Aligned] at h
    case listT u M =>
      simp only [c16e_Aligned] at h
      simp [erase, pyEq, c16e_pyEq env t u h]
    all_goals simp [erase, pyEq, c16e_validate_isEmpty]
  | .listE lead es trail L, b, h => by
    cases b
    case dict fb eb => cases fb <;> simp [erase, pyEq]
    case any y => cases y <;> simp [erase, pyEq]
    case custom u => simp [c16e_Aligned] at h
    case listE lead2 es2 trail2 M =>
      simp only [c16e_Aligned] at h
      simp only [erase, pyEq, c16e_elemList_erase]
      cases lead with
      | false =>
        simp only [Bool.false_eq_true, if_false] at h ⊢
        rw [c16e_eqElems env es trail _ h]
      | true =>
        simp only [if_true] at h ⊢
        cases hl : elemList lead2 es2 trail2 with
        | nil => simp
        | cons y ys =>
          rw [hl] at h
          simp only [List.map_cons, List.tail_cons] at h ⊢
          rw [c16e_eqElems env es trail ys h]
          cases y <;> simp [c16e_validate_isEmpty]
    all_goals simp [erase, pyEq]
  | .dict none e, b, h => by
    cases b
    case dict fb eb => cases fb <;> simp [erase, pyEq]
    case any y => cases y <;> simp [erase, pyEq]
    case custom u => simp [c16e_Aligned, c16e_notCustom] at h
    all_goals simp [erase, pyEq]
  | .dict (some x) e, b, h => by
    cases b
    case dict fb eb =>
      cases fb with
      | none => simp [erase, pyEq]
      | some y =>
        simp only [c16e_Aligned] at h
        simp [erase, pyEq, c16e_eraseFields_length, c16e_eqFields env x y h]
    case any y => cases y <;> simp [erase, pyEq]
    case custom u => simp [c16e_Aligned] at h
    all_goals simp [erase, pyEq]
  | .any none, b, h => by
    cases b
    case dict fb eb => cases fb <;> simp [erase, pyEq]
    case any y => cases y <;> simp [erase, pyEq]
    case custom u => simp [c16e_Aligned, c16e_notCustom] at h
    all_goals simp [erase, pyEq]
  | .any (some xs), b, h => by
    cases b
    case dict fb eb => cases fb <;> simp [erase, pyEq]
    case any y =>
      cases y with
      | none => simp [erase, pyEq]
      | some ys =>
        simp only [c16e_Aligned] at h
        simp [erase, pyEq, c16e_eqList env xs ys h]
    case custom u => simp [c16e_Aligned] at h
    all_goals simp [erase, pyEq]
  | .alias n t, b, h => by
    cases b
    case dict fb eb => cases fb <;> simp [erase, pyEq]
    case any y => cases y <;> simp [erase, pyEq]
    case custom u => simp [c16e_Aligned] at h
    case alias m u =>
      simp only [c16e_Aligned] at h
      simp [erase, pyEq, c16e_pyEq env t u h]
    all_goals simp [erase, pyEq]
  | .custom t, b, h => by
    cases b <;> simp only [c16e_Aligned] at h
    case custom u => simp only [erase, pyEq]; exact c16e_pyEq env t u h
theorem c16e_eqElems (env : Env) : ∀ (es : List Schema) (tr : Bool) (ys : List (Option Schema)),
    c16e_AlignedE es ys →
    eqElems env (erase.eraseList es) tr (ys.map (Option.map erase)) = eqElems env es tr ys
  | [], true, [], _ => by simp [erase.eraseList, eqElems]
  | [], true, [y], _ => by cases y <;> simp [erase.eraseList, eqElems, c16e_validate_isEmpty]
  | [], true, _ :: _ :: _, _ => by simp [erase.eraseList, eqElems]
  | [], false, [], _ => by simp [erase.eraseList, eqElems]
  | [], false, _ :: _, _ => by simp [erase.eraseList, eqElems]
  | _ :: _, _, [], _ => by simp [erase.eraseList, eqElems]
  | e :: es, tr, y :: ys, h => by
    simp only [c16e_AlignedE] at h
    cases y with
    | none => simp [erase.eraseList, eqElems, c16e_validate_isEmpty, c16e_eqElems env es tr ys h.2]
    | some b => simp [erase.eraseList, eqElems, c16e_pyEq env e b h.1, c16e_eqElems env es tr ys h.2]
theorem c16e_eqList (env : Env) : ∀ (xs ys : List Schema), c16e_AlignedL xs ys →
    eqList env (erase.eraseList xs) (erase.eraseList ys) = eqList env xs ys
  | [], [], _ => by simp [erase.eraseList, eqList]
  | [], _ :: _, _ => by simp [erase.eraseList, eqList]
  | _ :: _, [], _ => by simp [erase.eraseList, eqList]
  | x :: xs, y :: ys, h => by
    simp only [c16e_AlignedL] at h
    simp [erase.eraseList, eqList, c16e_pyEq env x y h.1, c16e_eqList env xs ys h.2]
theorem c16e_eqFields (env : Env) : ∀ (r b : List (PyKey × Bool × Schema)), c16e_AlignedF r b →
    eqFields env (erase.eraseFields r) (erase.eraseFields b) = eqFields env r b
  | [], _, _ => by simp [erase.eraseFields, eqFields]
  | (k, o, s) :: r, b, h => by
    simp only [c16e_AlignedF] at h
    simp only [erase.eraseFields, eqFields, c16e_find_eraseFields, c16e_eqFields env r b h.2]
    cases hf : b.find? (fun f => f.1 == k) with
    | none => simp
    | some f =>
      rw [hf] at h
      simp [c16e_pyEq env s f.2.2 h.1]
end


/-- **equality** of wrapped trees is equality of the plain trees when both sides are wrapped at the same
    positions (the comparisons of a sub-schema with a `...` marker, which fall through to validation, are
    covered by `erase_validate`) -/
theorem erase_pyEq (env : Env) (a b : Schema) (h : c16e_Aligned a b) :
    pyEq env (erase a) (erase b) = pyEq env a b := c16e_pyEq env a b h

mutual
theorem c16e_Aligned_self : ∀ (s : Schema), KeysNodup s → c16e_Aligned s s
  | .scalar k, _ => by simp [c16e_Aligned, c16e_notCustom]
  | .listU L, _ => by simp [c16e_Aligned, c16e_notCustom]
  | .listT t L, hk => by
    simp only [KeysNodup] at hk
    simp only [c16e_Aligned]; exact c16e_Aligned_self t hk
  | .listE lead es trail L, hk => by
    simp only [KeysNodup] at hk
    simp only [c16e_Aligned]
    cases lead
    · simpa [elemList] using c16e_AlignedE_self es (if trail then [none] else []) hk
    · simpa [elemList] using c16e_AlignedE_self es (if trail then [none] else []) hk
  | .dict none e, _ => by simp [c16e_Aligned, c16e_notCustom]
  | .dict (some fs) e, hk => by
    simp only [KeysNodup] at hk
    simp only [c16e_Aligned]
    exact c16e_AlignedF_self fs fs hk.2 (find_key fs hk.1)
  | .any none, _ => by simp [c16e_Aligned, c16e_notCustom]
  | .any (some ts), hk => by
    simp only [KeysNodup] at hk
    simp only [c16e_Aligned]; exact c16e_AlignedL_self ts hk
  | .alias n t, hk => by
    simp only [KeysNodup] at hk
    simp only [c16e_Aligned]; exact c16e_Aligned_self t hk
  | .custom t, hk => by
    simp only [KeysNodup] at hk
    simp only [c16e_Aligned]; exact c16e_Aligned_self t hk
theorem c16e_AlignedE_self : ∀ (es : List Schema) (rest : List (Option Schema)), KeysNodupL es →
    c16e_AlignedE es (es.map some ++ rest)
  | [], _, _ => by simp [c16e_AlignedE]
  | e :: es, rest, hk => by
    simp only [KeysNodupL] at hk
    simp only [List.map_cons, List.cons_append, c16e_AlignedE]
    exact ⟨c16e_Aligned_self e hk.1, c16e_AlignedE_self es rest hk.2⟩
theorem c16e_AlignedL_self : ∀ (xs : List Schema), KeysNodupL xs → c16e_AlignedL xs xs
  | [], _ => by simp [c16e_AlignedL]
  | x :: xs, hk => by
    simp only [KeysNodupL] at hk
    simp only [c16e_AlignedL]
    exact ⟨c16e_Aligned_self x hk.1, c16e_AlignedL_self xs hk.2⟩
theorem c16e_AlignedF_self : ∀ (r b : List (PyKey × Bool × Schema)), KeysNodupF r →
    (∀ f ∈ r, b.find? (fun g => g.1 == f.1) = some f) → c16e_AlignedF r b
  | [], _, _, _ => by simp [c16e_AlignedF]
  | (k, o, s) :: r, b, hk, hfind => by
    simp only [KeysNodupF] at hk
    simp only [c16e_AlignedF]
    have h1 := hfind (k, o, s) (by simp)
    simp only at h1
    rw [h1]
    exact ⟨c16e_Aligned_self s hk.1, c16e_AlignedF_self r b hk.2
      (fun f hf => hfind f (List.mem_cons_of_mem _ hf))⟩
end

/-- a tree compared with itself, under the weakest hypothesis the proof needs: the tree is aligned with
    itself (the only way it can fail to be is a dict that lists one key twice) -/
theorem erase_pyEq_self_of_aligned (env : Env) (s : Schema) (h : c16e_Aligned s s) :
    pyEq env s s = pyEq env (erase s) (erase s) := (c16e_pyEq env s s h).symm

/-- **equality**, corrected statement: a tree whose dicts have distinct keys (true of every schema Python
    can build) equals itself exactly when its erasure does -/
theorem erase_pyEq_self (env : Env) (s : Schema) (hk : KeysNodup s) :
    pyEq env s s = pyEq env (erase s) (erase s) :=
  erase_pyEq_self_of_aligned env s (c16e_Aligned_self s hk)


/-! ### one direction needs no hypothesis: erasing never breaks an equality -/

mutual
theorem c16e_pyEq_mono (env : Env) : ∀ (a b : Schema), pyEq env a b = true →
    pyEq env (erase a) (erase b) = true
  | .scalar k, b, h => by
    cases b
    case dict fb eb => cases fb <;> simp [pyEq] at h
    case any y => cases y <;> simp [pyEq] at h
    all_goals (simp only [pyEq] at h; try (cases h)); try (simpa [erase, pyEq] using h)
  | .listU L, b, h => by
    cases b
    case dict fb eb => cases fb <;> simp [pyEq] at h
    case any y => cases y <;> simp [pyEq] at h
    all_goals (simp only [pyEq] at h; try (cases h)); try (simpa [erase, pyEq, c16e_validate_isEmpty] using h)
  | .listT t L, b, h => by
    cases b
    case dict fb eb => cases fb <;> simp [pyEq] at h
    case any y => cases y <;> simp [pyEq] at h
    case listT u M =>
      simp only [pyEq, Bool.and_eq_true] at h
      simp [erase, pyEq, c16e_pyEq_mono env t u h.1, h.2]
    all_goals (simp only [pyEq] at h; try (cases h)); try (simpa [erase, pyEq, c16e_validate_isEmpty] using h)
  | .listE lead es trail L, b, h => by
    cases b
    case dict fb eb => cases fb <;> simp [pyEq] at h
    case any y => cases y <;> simp [pyEq] at h
    case listE lead2 es2 trail2 M =>
      simp only [pyEq, Bool.and_eq_true] at h
      simp only [erase, pyEq, c16e_elemList_erase, Bool.and_eq_true]
      refine ⟨?_, h.2⟩
      have h1 := h.1
      cases lead with
      | false =>
        simp only [Bool.false_eq_true, if_false] at h1 ⊢
        exact c16e_eqElems_mono env es trail _ h1
      | true =>
        simp only [if_true] at h1 ⊢
        cases hl : elemList lead2 es2 trail2 with
        | nil => rw [hl] at h1; simp at h1
        | cons y ys =>
          rw [hl] at h1
          simp only [Bool.and_eq_true] at h1
          simp only [List.map_cons, Bool.and_eq_true]
          refine ⟨?_, c16e_eqElems_mono env es trail ys h1.2⟩
          have h2 := h1.1
          cases y <;> simp_all [c16e_validate_isEmpty]
    all_goals (simp only [pyEq] at h; try (cases h))
  | .dict none e, b, h => by
    cases b
    case dict fb eb => cases fb <;> simp [pyEq] at h <;> simp [erase, pyEq]
    case any y => cases y <;> simp [pyEq] at h
    all_goals (simp only [pyEq] at h; try (cases h))
  | .dict (some x) e, b, h => by
    cases b
    case dict fb eb =>
      cases fb with
      | none => simp [pyEq] at h
      | some y =>
        simp only [pyEq, Bool.and_eq_true] at h
        simp only [erase, pyEq, Bool.and_eq_true, c16e_eraseFields_length]
        exact ⟨h.1, c16e_eqFields_mono env x y h.2⟩
    case any y => cases y <;> simp [pyEq] at h
    all_goals (simp only [pyEq] at h; try (cases h))
  | .any none, b, h => by
    cases b
    case dict fb eb => cases fb <;> simp [pyEq] at h
    case any y => cases y <;> simp [pyEq] at h <;> simp [erase, pyEq]
    all_goals (simp only [pyEq] at h; try (cases h))
  | .any (some xs), b, h => by
    cases b
    case dict fb eb => cases fb <;> simp [pyEq] at h
    case any y =>
      cases y with
      | none => simp [pyEq] at h
      | some ys =>
        simp only [pyEq] at h
        simp only [erase, pyEq]
        exact c16e_eqList_mono env xs ys h
    all_goals (simp only [pyEq] at h; try (cases h))
  | .alias n t, b, h => by
    cases b
    case dict fb eb => cases fb <;> simp [pyEq] at h
    case any y => cases y <;> simp [pyEq] at h
    case alias m u =>
      simp only [pyEq, Bool.and_eq_true] at h
      simp [erase, pyEq, c16e_pyEq_mono env t u h.2, h.1]
    all_goals (simp only [pyEq] at h; try (cases h))
  | .custom t, b, h => by
    cases b
    case dict fb eb => cases fb <;> simp [pyEq] at h
    case any y => cases y <;> simp [pyEq] at h
    case custom u =>
      simp only [pyEq] at h
      simp only [erase]; exact c16e_pyEq_mono env t u h
    all_goals (simp only [pyEq] at h; try (cases h))
theorem c16e_eqElems_mono (env : Env) : ∀ (es : List Schema) (tr : Bool) (ys : List (Option Schema)),
    eqElems env es tr ys = true →
    eqElems env (erase.eraseList es) tr (ys.map (Option.map erase)) = true
  | [], true, [], h => by simp [eqElems] at h
  | [], true, [y], h => by
    cases y <;> simp [eqElems] at h <;> simp [erase.eraseList, eqElems, c16e_validate_isEmpty, h]
  | [], true, _ :: _ :: _, h => by simp [eqElems] at h
  | [], false, [], _ => by simp [erase.eraseList, eqElems]
  | [], false, _ :: _, h => by simp [eqElems] at h
  | _ :: _, _, [], h => by simp [eqElems] at h
  | e :: es, tr, y :: ys, h => by
    simp only [eqElems, Bool.and_eq_true] at h
    cases y with
    | none =>
      simp only [erase.eraseList, List.map_cons, Option.map_none, eqElems, Bool.and_eq_true,
        c16e_validate_isEmpty]
      exact ⟨h.1, c16e_eqElems_mono env es tr ys h.2⟩
    | some b =>
      simp only [erase.eraseList, List.map_cons, Option.map_some, eqElems, Bool.and_eq_true]
      exact ⟨c16e_pyEq_mono env e b h.1, c16e_eqElems_mono env es tr ys h.2⟩
theorem c16e_eqList_mono (env : Env) : ∀ (xs ys : List Schema), eqList env xs ys = true →
    eqList env (erase.eraseList xs) (erase.eraseList ys) = true
  | [], [], _ => by simp [erase.eraseList, eqList]
  | [], _ :: _, h => by simp [eqList] at h
  | _ :: _, [], h => by simp [eqList] at h
  | x :: xs, y :: ys, h => by
    simp only [eqList, Bool.and_eq_true] at h
    simp only [erase.eraseList, eqList, Bool.and_eq_true]
    exact ⟨c16e_pyEq_mono env x y h.1, c16e_eqList_mono env xs ys h.2⟩
theorem c16e_eqFields_mono (env : Env) : ∀ (r b : List (PyKey × Bool × Schema)), eqFields env r b = true →
    eqFields env (erase.eraseFields r) (erase.eraseFields b) = true
  | [], _, _ => by simp [erase.eraseFields, eqFields]
  | (k, o, s) :: r, b, h => by
    simp only [eqFields, Bool.and_eq_true] at h
    simp only [erase.eraseFields, eqFields, c16e_find_eraseFields, Bool.and_eq_true]
    refine ⟨?_, c16e_eqFields_mono env r b h.2⟩
    have h1 := h.1
    cases hf : b.find? (fun f => f.1 == k) with
    | none => rw [hf] at h1; simp at h1
    | some f =>
      rw [hf] at h1
      simp only [Bool.and_eq_true] at h1
      simp [h1.1, c16e_pyEq_mono env s f.2.2 h1.2]
end

/-- erasing the wrappers never breaks an equality (no hypothesis); the converse is `erase_pyEq` -/
theorem erase_pyEq_of_pyEq (env : Env) (a b : Schema) (h : pyEq env a b = true) :
    pyEq env (erase a) (erase b) = true := c16e_pyEq_mono env a b h

end D42
