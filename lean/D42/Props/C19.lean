/- C19 (statements are being added) -/
import D42.Model.Migrate
import D42.Gen.Migration
