/-
  C19 — the v1→v2 migration rewrites imports and nothing else.

  Part 1 (finite table, proved by `decide +kernel` in the GENERATED file D42/Gen/Migration.lean):
  every target of the mapping is importable from this package and keeps its name.
  Part 2 (here): facts about the rewrite model `D42.Migrate` (statement spans come from Python's parser).
-/
import D42.Model.Migrate
import D42.Gen.Migration

namespace D42.Migrate

/-! ### what one rewritten import binds -/

/-- the structured content of the replacement of one `from module import names`:
    `(module to import from, name, asname)` for every alias, mapped ones first grouped by new module -/
def replacementBindings (m : Mapping) (module : Option Bytes) (names : List Alias) : List (Bytes × Bytes × Option Bytes) :=
  names.map (fun a => match (match module with | some md => m.find md a.name | none => none) with
    | some (newMod, newName) => (newMod, newName, a.asname)
    | none => (module.getD (bs "None"), a.name, a.asname))

/-- the local name an alias binds -/
def localName (name : Bytes) (asname : Option Bytes) : Bytes := asname.getD name

/-! ### helper lemmas -/

theorem bs_nl : bs "\n" = [10] := by decide +kernel
theorem bs_from : bs "from " = [102, 114, 111, 109, 32] := by decide +kernel

theorem foldl_append_acc (l : List Bytes) (acc : Bytes) :
    l.foldl (· ++ ·) acc = acc ++ l.foldl (· ++ ·) [] := by
  induction l generalizing acc with
  | nil => simp
  | cons x r ih => simp only [List.foldl_cons]; rw [ih (acc ++ x), ih ([] ++ x)]; simp

theorem go_flatten (src cur : Bytes) :
    (splitLines.go src cur).foldl (· ++ ·) [] = cur.reverse ++ src := by
  fun_induction splitLines.go src cur with
  | case1 cur h => simp_all
  | case2 cur h => simp
  | case3 r cur ih => simp only [List.foldl_cons]; rw [foldl_append_acc, ih]; simp
  | case4 r cur _ ih => simp only [List.foldl_cons]; rw [foldl_append_acc, ih]; simp
  | case5 r cur ih => simp only [List.foldl_cons]; rw [foldl_append_acc, ih]; simp
  | case6 c r cur _ _ _ ih => rw [ih]; simp

/-- invariant of the line splitter: a line end `\n` can only be the last byte of a line -/
theorem go_no_inner_newline (src cur : Bytes) (hcur : ∀ x ∈ cur, x ≠ 10) :
    ∀ ln ∈ splitLines.go src cur, 10 ∉ ln.dropLast := by
  fun_induction splitLines.go src cur with
  | case1 cur h => simp
  | case2 cur h =>
    intro ln hln
    simp only [List.mem_singleton] at hln
    subst hln
    intro hmem
    have := List.dropLast_subset _ hmem
    exact hcur 10 (by simpa using this) rfl
  | case3 r cur ih =>
    intro ln hln
    rcases List.mem_cons.1 hln with h | h
    · subst h
      intro hmem
      simp only [List.reverse_cons, List.append_assoc, List.singleton_append] at hmem
      rw [show cur.reverse ++ [13, 10] = (cur.reverse ++ [13]) ++ [10] by simp,
        List.dropLast_concat] at hmem
      simp only [List.mem_append, List.mem_reverse, List.mem_singleton] at hmem
      rcases hmem with h | h
      · exact hcur 10 h rfl
      · omega
    · exact ih (by simp) ln h
  | case4 r cur _ ih =>
    intro ln hln
    rcases List.mem_cons.1 hln with h | h
    · subst h
      intro hmem
      simp only [List.reverse_cons, List.dropLast_concat, List.mem_reverse] at hmem
      exact hcur 10 hmem rfl
    · exact ih (by simp) ln h
  | case5 r cur ih =>
    intro ln hln
    rcases List.mem_cons.1 hln with h | h
    · subst h
      intro hmem
      simp only [List.reverse_cons, List.dropLast_concat, List.mem_reverse] at hmem
      exact hcur 10 hmem rfl
    · exact ih (by simp) ln h
  | case6 c r cur _ _ h10 ih =>
    apply ih
    intro x hx
    rcases List.mem_cons.1 hx with h | h
    · subst h; exact fun h => h10 h
    · exact hcur x h

/-! ### theorems to prove -/

/-- the replacements collected by `rewriteLines` -/
def reps (m : Mapping) (stmts : List Stmt) : List (Stmt × List Bytes) :=
  stmts.filterMap (fun st => match st.kind with
    | .importFrom module level names => if level > 0 then none else some (st, replacementLines m module names)
    | .other => none)

theorem rewriteLines_eq (m : Mapping) (lines : List Bytes) (stmts : List Stmt) :
    rewriteLines m lines stmts =
      if (reps m stmts).isEmpty then none
      else some (((reps m stmts).reverse.foldl (fun ls r => applyOne ls r.1 r.2) lines).foldl (· ++ ·) []) := rfl

/-- **nothing to do.** Without a top-level absolute from-import the rewriter reports `none` -/
theorem rewrite_none (m : Mapping) (src : Bytes) (stmts : List Stmt)
    (h : ∀ st ∈ stmts, match st.kind with | .importFrom _ level _ => level > 0 | .other => True) :
    rewriteImports m src stmts = none := by
  have hreps : reps m stmts = [] := by
    unfold reps
    rw [List.filterMap_eq_nil_iff]
    intro st hst
    have := h st hst
    split
    · next md lv nm hk => rw [hk] at this; simp only at this; simp [this]
    · rfl
  rw [rewriteImports, rewriteLines_eq, hreps]
  rfl

/-- and conversely it rewrites as soon as there is one (even if none of its names is mapped) -/
theorem rewrite_some (m : Mapping) (src : Bytes) (stmts : List Stmt) (st : Stmt) (md : Option Bytes) (names : List Alias)
    (hst : st ∈ stmts) (hk : st.kind = .importFrom md 0 names) : (rewriteImports m src stmts).isSome = true := by
  have hmem : (st, replacementLines m md names) ∈ reps m stmts := by
    unfold reps
    rw [List.mem_filterMap]
    exact ⟨st, hst, by rw [hk]; simp⟩
  have hne : (reps m stmts).isEmpty = false := by
    cases hr : reps m stmts with
    | nil => rw [hr] at hmem; cases hmem
    | cons _ _ => rfl
  rw [rewriteImports, rewriteLines_eq, hne]
  rfl

/-- splitting into physical lines loses nothing -/
theorem splitLines_flatten (src : Bytes) : (splitLines src).foldl (· ++ ·) [] = src := by
  cases src with
  | nil => simp [splitLines]
  | cons c r => simp only [splitLines]; rw [go_flatten]; simp

/-- every line produced by `splitLines` except possibly the last ends in a line end, and no line contains
    one before its end: lines are numbered exactly as the parser numbers them -/
theorem splitLines_no_inner_newline (src : Bytes) :
    ∀ ln ∈ splitLines src, ∀ i, i + 1 < ln.length → ln[i]? = some 10 → False := by
  intro ln hln i hi hget
  have hmem : ln ∈ splitLines.go src [] := by
    cases src with
    | nil => simp [splitLines] at hln
    | cons c r => simpa only [splitLines] using hln
  have hno := go_no_inner_newline src [] (by simp) ln hmem
  apply hno
  have hlt : i < ln.dropLast.length := by simp; omega
  have : ln.dropLast[i]? = some 10 := by
    rw [List.getElem?_dropLast]; simp [show i < ln.length - 1 by omega, hget]
  exact List.mem_of_getElem? this

/-- **same local names.** the replacement binds, for every alias of the original import, the same
    local name — to the v2 target if the name is mapped (names are preserved by the mapping, see
    `Gen.Migration.mapping_keeps_names`), to the original module otherwise -/
theorem replacement_binds_same_locals (m : Mapping) (module : Option Bytes) (names : List Alias)
    (hkeep : ∀ md n t, m.find md n = some t → t.2 = n) :
    (replacementBindings m module names).map (fun b => localName b.2.1 b.2.2) =
      names.map (fun a => localName a.name a.asname) := by
  simp only [replacementBindings, List.map_map]
  apply List.map_congr_left
  intro a _
  simp only [Function.comp]
  split
  · next newMod newName heq =>
    cases module with
    | none => simp at heq
    | some md =>
      have := hkeep md a.name _ heq
      simp only at this
      rw [this]
  · rfl

/-- the text of the replacement lines is exactly the rendering of those bindings grouped by module:
    every line is `from <module> import <name>[ as <asname>], ...\n` -/
theorem replacementLines_shape (m : Mapping) (module : Option Bytes) (names : List Alias) :
    ∀ ln ∈ replacementLines m module names,
      (bs "from ").isPrefixOf ln = true ∧ ln.getLast? = some 10 := by
  intro ln hln
  have key : ∀ x : Bytes, (bs "from ").isPrefixOf (bs "from " ++ x ++ bs "\n") = true ∧
      (bs "from " ++ x ++ bs "\n").getLast? = some 10 := by
    intro x
    constructor
    · rw [List.isPrefixOf_iff_prefix, List.append_assoc]; exact List.prefix_append _ _
    · rw [bs_nl]; simp
  simp only [replacementLines] at hln
  generalize List.foldl _ _ names = acc at hln
  rcases List.mem_append.1 hln with h | h
  · rcases List.mem_map.1 h with ⟨e, _, rfl⟩
    have := key (e.1 ++ bs " import " ++ joinBytes (bs ", ") e.2)
    simpa only [List.append_assoc] using this
  · by_cases hemp : acc.2.isEmpty = true
    · rw [if_pos hemp] at h; cases h
    · rw [if_neg hemp, List.mem_singleton] at h
      subst h
      have := key (module.getD (bs "None") ++ bs " import " ++ joinBytes (bs ", ") acc.2)
      simpa only [List.append_assoc] using this

/-- **splice, one statement that owns its lines.** Replacing a statement that has nothing else on its
    physical lines keeps every line before it and every line after it, unchanged and in order -/
theorem applyOne_whole_lines (lines : List Bytes) (st : Stmt) (repl : List Bytes)
    (h1 : 1 ≤ st.lineno) (h2 : st.lineno ≤ st.endLineno) (h3 : st.endLineno ≤ lines.length)
    (hhead : stripBoth ((lines.getD (st.lineno - 1) []).take st.col) = [])
    (htail : (((lines.getD (st.endLineno - 1) []).drop st.endCol).dropWhile isSpace).head? ≠ some 59) :
    applyOne lines st repl = lines.take (st.lineno - 1) ++ repl ++ lines.drop st.endLineno := by
  have he : st.endLineno - 1 + 1 = st.endLineno := by omega
  have ht : ((((lines.getD (st.endLineno - 1) []).drop st.endCol).dropWhile isSpace).head? == some 59)
      = false := by simpa using htail
  simp only [applyOne, hhead, ht, he]
  simp

/-- **reverse order keeps earlier coordinates valid.** Applying a replacement to a later statement
    does not touch any line before that statement's first line — whether or not it shares its lines -/
theorem applyOne_preserves_prefix (lines : List Bytes) (st : Stmt) (repl : List Bytes)
    (h : st.lineno - 1 ≤ lines.length) :
    (applyOne lines st repl).take (st.lineno - 1) = lines.take (st.lineno - 1) := by
  simp only [applyOne, List.append_assoc]
  exact List.take_left' (by rw [List.length_take]; omega)

/-- The statement of `applyOne_preserves_suffix` as first written (no hypothesis on `endLineno`) is
    false: with `endLineno = 0` the model drops `lines.drop 1`, not `lines.drop 0`. -/
theorem applyOne_preserves_suffix_counterexample :
    ¬ (∀ (lines : List Bytes) (st : Stmt) (repl : List Bytes),
      ∃ mid, applyOne lines st repl = lines.take (st.lineno - 1) ++ mid ++ lines.drop st.endLineno ∧
        (mid = repl ∨ mid.length = 1)) := by
  intro hall
  obtain ⟨mid, heq, _⟩ := hall [[1], [2]] ⟨1, 0, 0, 0, .other⟩ []
  have hlen := congrArg List.length heq
  simp [applyOne, stripBoth, isSpace] at hlen

/-- and the lines after its last line follow the replacement unchanged
    (corrected: needs `1 ≤ st.endLineno`, which always holds for parser output — lines are 1-based) -/
theorem applyOne_preserves_suffix (lines : List Bytes) (st : Stmt) (repl : List Bytes)
    (hend : 1 ≤ st.endLineno) :
    ∃ mid, applyOne lines st repl = lines.take (st.lineno - 1) ++ mid ++ lines.drop st.endLineno ∧
      (mid = repl ∨ mid.length = 1) := by
  have he : st.endLineno - 1 + 1 = st.endLineno := by omega
  simp only [applyOne, he]
  split
  · exact ⟨_, rfl, Or.inr rfl⟩
  · exact ⟨_, rfl, Or.inl rfl⟩

end D42.Migrate
