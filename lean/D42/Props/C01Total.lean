/-
  C01 (totality) — `fake` returns without raising: under the hypotheses below the generator model fails
  only because of the draw list (`badDraw`: an answer of the wrong kind / outside the requested range /
  missing), never with a Python exception of its own (`ValueError` from an empty range, `IndexError` from
  an empty choice, …) and never through the un-modelled escape.
-/
import D42.Props.C01

namespace D42

mutual
/-- a pattern tree the generator can always serve: no unsupported opcode, class ranges and repeat bounds in
    order, and no negated class / not-literal that excludes the whole alphabet -/
def ReTotal : Re → Prop
  | .any => True
  | .lit _ => True
  | .notLit c => (Consts.RX_LETTERS.filter (fun x => !([c].contains x))) ≠ []
  | .cls true items => (∀ it ∈ items, ∀ n, it ≠ .unsup n) ∧
      ∀ ex, excludedAll items = .ok ex → (Consts.RX_LETTERS.filter (fun x => !(ex.contains x))) ≠ []
  | .cls false items => items ≠ [] ∧ ∀ it ∈ items, (match it with
      | .range lo hi => lo ≤ hi
      | .unsup _ => False
      | _ => True)
  | .group r => ReTotalL r
  | .rep mn mx r => (∀ m, mx = some m → mn ≤ m) ∧ ReTotalL r
  | .at_ => True
  | .branch alts => alts ≠ [] ∧ ReTotalA alts
  | .unsup _ => False
def ReTotalL : List Re → Prop
  | [] => True
  | r :: rs => ReTotal r ∧ ReTotalL rs
def ReTotalA : List (List Re) → Prop
  | [] => True
  | a :: as => ReTotalL a ∧ ReTotalA as
end

/-- scalar schemas whose generation cannot raise -/
def ScalarTotalHyp (env : Env) : ScalarS → Prop
  | .int none (some a) (some b) => a ≤ b
  | .float none mn mx prec mnDec mxDec =>
      let r := floatRange mn mx mnDec mxDec
      -- the effective bounds are finite numbers in order
      ∃ x y, r.1.1 = .fin x ∧ r.2.1 = .fin y ∧ x ≤ y ∧
      (match prec with
       | none => ∃ q, env.fl (y - x) = .fin q                       -- K5: the span does not overflow inside random.uniform
       | some p => ∃ dl dr, r.1.2 = some dl ∧ r.2.2 = some dr ∧       -- decimal companions present, and
           (dl * ((10 ^ p : Nat) : Rat)).ceil ≤ (dr * ((10 ^ p : Nat) : Rat)).floor)   -- K11: a grid point lies within the bounds
  | .str none _ _ _ (some pat) => ReTotalL pat.tree
  | .str none L alphabet substr none =>
      -- the length range is non-empty, and a character is never drawn from an empty alphabet (K3)
      (L.len = none →
        let mn0 := match L.minLen with | some m => m | none => Consts.STR_LEN_MIN
        let mx0 := match L.maxLen with | some m => m | none => pyMaxI Consts.STR_LEN_MAX mn0
        (match substr with
         | some sub => pyMaxI mn0 sub.length ≤ pyMaxI mx0 sub.length
         | none => mn0 ≤ mx0)) ∧
      (alphabet = some [] →
        (∀ n, L.len = some n → n ≤ (match substr with | some sub => (sub.length : Int) | none => 0)) ∧
        (L.len = none → ∀ m, L.maxLen = some m → True) ∧
        (L.len = none → (match L.maxLen with | some m => m | none => pyMaxI Consts.STR_LEN_MAX (match L.minLen with | some m => m | none => Consts.STR_LEN_MIN)) ≤
            (match substr with | some sub => (sub.length : Int) | none => 0)))
  | _ => True

def LenTotalHyp (L : LenP) : Prop :=
  L.len = none → (match L.minLen with | some m => m | none => Consts.LIST_LEN_MIN) ≤
    (match L.maxLen with | some m => m | none => pyMaxI Consts.LIST_LEN_MAX (match L.minLen with | some m => m | none => Consts.LIST_LEN_MIN))

mutual
def GenTotalHyp (env : Env) : Schema → Prop
  | .scalar k => ScalarTotalHyp env k
  | .listU L => LenTotalHyp L
  | .listT t L => LenTotalHyp L ∧ GenTotalHyp env t
  | .listE _ es _ _ => GenTotalHypL env es
  | .dict none _ => True
  | .dict (some fs) _ => GenTotalHypF env fs
  | .any none => True
  | .any (some ts) => ts ≠ [] ∧ GenTotalHypL env ts
  | .alias _ t => GenTotalHyp env t
  | .custom t => GenTotalHyp env t
def GenTotalHypL (env : Env) : List Schema → Prop
  | [] => True
  | s :: ss => GenTotalHyp env s ∧ GenTotalHypL env ss
def GenTotalHypF (env : Env) : List (PyKey × Bool × Schema) → Prop
  | [] => True
  | (_, opt, s) :: fs => (opt = false → GenTotalHyp env s) ∧ GenTotalHypF env fs
end

/-! ### helper lemmas -/

theorem choiceChar_total {cands : List Nat} (hc : cands ≠ []) {st : GS} {e : PyExc}
    (h : choiceChar cands st = .error e) : e = .badDraw := by
  unfold choiceChar at h
  grind

theorem choiceIdx_total {n : Nat} (hn : n ≠ 0) {st : GS} {e : PyExc}
    (h : choiceIdx n st = .error e) : e = .badDraw := by
  unfold choiceIdx at h
  grind

theorem randint_total {a b : Int} (hab : a ≤ b) {st : GS} {e : PyExc}
    (h : randint a b st = .error e) : e = .badDraw := by
  unfold randint at h
  grind

theorem extDraw_total {kind : Nat} {st : GS} {e : PyExc} (h : extDraw kind st = .error e) : e = .badDraw := by
  unfold extDraw at h
  grind

theorem pure_not_error {α} {a : α} {st : GS} {e : PyExc} (h : G.pure a st = .error e) : False := by
  simp [G.pure] at h

theorem excludedAll_ok_of_no_unsup : ∀ (items : List ClsItem), (∀ it ∈ items, ∀ n, it ≠ .unsup n) →
    ∃ ex, excludedAll items = .ok ex
  | [], _ => ⟨[], by simp [excludedAll]⟩
  | it :: items, h => by
    obtain ⟨b, hb⟩ := excludedAll_ok_of_no_unsup items (fun i hi => h i (by simp [hi]))
    have h1 : ∃ a, excluded it = .ok a := by
      cases it with
      | unsup n => exact absurd rfl (h (.unsup n) (by simp) n)
      | _ => simp [excluded]
    obtain ⟨a, ha⟩ := h1
    exact ⟨a ++ b, by simp [excludedAll, bind, Except.bind, ha, hb, pure, Except.pure]⟩

theorem genNotIn_total {items : List ClsItem} (h1 : ∀ it ∈ items, ∀ n, it ≠ .unsup n)
    (h2 : ∀ ex, excludedAll items = .ok ex → (Consts.RX_LETTERS.filter (fun x => !(ex.contains x))) ≠ [])
    {st : GS} {e : PyExc} (h : genNotIn items st = .error e) : e = .badDraw := by
  obtain ⟨ex, hex⟩ := excludedAll_ok_of_no_unsup items h1
  unfold genNotIn at h
  rcases G.bind_error h with h3 | ⟨ex', st1, h3, h4⟩
  · simp [liftE, hex] at h3
  · have := liftE_ok h3
    rw [hex] at this
    cases this
    exact choiceChar_total (h2 ex hex) h4

theorem genClsItem_total {it : ClsItem}
    (hit : match it with | .range lo hi => lo ≤ hi | .unsup _ => False | _ => True)
    {st : GS} {e : PyExc} (h : genClsItem it st = .error e) : e = .badDraw := by
  cases it with
  | lit c => simp [genClsItem, pure, G.pure] at h
  | range lo hi =>
    simp only [genClsItem, bind, pure] at h
    rcases G.bind_error h with h1 | ⟨n, st1, _, h2⟩
    · exact randint_total (by simp at hit; omega) h1
    · exact (pure_not_error h2).elim
  | digit => simp only [genClsItem] at h; exact choiceChar_total Consts.rx_digits_nonempty h
  | word => simp only [genClsItem] at h; exact choiceChar_total Consts.rx_word_nonempty h
  | unsup n => exact hit.elim

/-! ### theorems to prove -/

mutual
theorem genRe_total : ∀ (r : Re) (_ : ReTotal r) (st : GS) (e : PyExc), genRe r st = .error e → e = .badDraw
  | .any, _, st, e, h => by
    simp only [genRe, bind, pure] at h
    rcases G.bind_error h with h1 | ⟨c, st1, _, h2⟩
    · exact choiceChar_total Consts.rx_letters_nonempty h1
    · exact (pure_not_error h2).elim
  | .lit c, _, st, e, h => by simp [genRe, pure, G.pure] at h
  | .notLit c, hr, st, e, h => by
    simp only [ReTotal] at hr
    simp only [genRe, bind, pure] at h
    rcases G.bind_error h with h1 | ⟨c, st1, _, h2⟩
    · refine genNotIn_total (by simp) ?_ h1
      intro ex hex
      simp [excludedAll, excluded, bind, Except.bind, pure, Except.pure] at hex
      subst hex
      exact hr
    · exact (pure_not_error h2).elim
  | .cls true items, hr, st, e, h => by
    simp only [ReTotal] at hr
    simp only [genRe, bind, pure] at h
    rcases G.bind_error h with h1 | ⟨c, st1, _, h2⟩
    · exact genNotIn_total hr.1 hr.2 h1
    · exact (pure_not_error h2).elim
  | .cls false items, hr, st, e, h => by
    simp only [ReTotal] at hr
    simp only [genRe, bind, pure] at h
    rcases G.bind_error h with h1 | ⟨i, st1, _, h2⟩
    · exact choiceIdx_total (by simpa using hr.1) h1
    · cases hi : items[i]? with
      | none => simp [hi, G.fail] at h2; exact h2.symm
      | some it =>
        simp only [hi] at h2
        rcases G.bind_error h2 with h3 | ⟨x, st2, _, h4⟩
        · exact genClsItem_total (hr.2 it (List.mem_of_getElem? hi)) h3
        · exact (pure_not_error h4).elim
  | .group r, hr, st, e, h => by
    simp only [ReTotal] at hr
    simp only [genRe] at h
    exact genSeq_total' r hr st e h
  | .rep mn mx r, hr, st, e, h => by
    simp only [ReTotal] at hr
    simp only [genRe, bind] at h
    rcases G.bind_error h with h1 | ⟨n, st1, _, h2⟩
    · refine randint_total ?_ h1
      cases mx with
      | none => simp only; omega
      | some m => have := hr.1 m rfl; simp only; omega
    · exact repeatG_error (Q := fun e => e = .badDraw) (fun a b hh => genSeq_total' r hr.2 a b hh) _ _ _ h2
  | .at_, _, st, e, h => by simp [genRe, pure, G.pure] at h
  | .branch alts, hr, st, e, h => by
    simp only [ReTotal] at hr
    simp only [genRe, bind] at h
    rcases G.bind_error h with h1 | ⟨i, st1, _, h2⟩
    · exact choiceIdx_total (by simpa using hr.1) h1
    · exact genAlt_total alts i hr.2 st1 e h2
  | .unsup n, hr, st, e, h => by simp [ReTotal] at hr
theorem genSeq_total' : ∀ (r : List Re) (_ : ReTotalL r) (st : GS) (e : PyExc), genSeq r st = .error e → e = .badDraw
  | [], _, st, e, h => by simp [genSeq, pure, G.pure] at h
  | r :: rs, hr, st, e, h => by
    simp only [ReTotalL] at hr
    simp only [genSeq, bind, pure] at h
    rcases G.bind_error h with h1 | ⟨a, st1, _, h2⟩
    · exact genRe_total r hr.1 _ _ h1
    · rcases G.bind_error h2 with h3 | ⟨b, st2, _, h4⟩
      · exact genSeq_total' rs hr.2 _ _ h3
      · exact (pure_not_error h4).elim
theorem genAlt_total : ∀ (alts : List (List Re)) (i : Nat) (_ : ReTotalA alts) (st : GS) (e : PyExc),
    genAlt alts i st = .error e → e = .badDraw
  | [], i, _, st, e, h => by simp [genAlt, G.fail] at h; exact h.symm
  | a :: as, 0, hr, st, e, h => by
    simp only [ReTotalA] at hr
    simp only [genAlt] at h
    exact genSeq_total' a hr.1 _ _ h
  | a :: as, i + 1, hr, st, e, h => by
    simp only [ReTotalA] at hr
    simp only [genAlt] at h
    exact genAlt_total as i hr.2 _ _ h
end

/-- the regex generator on a total pattern fails only on a bad draw list -/
theorem genSeq_total (r : List Re) (h : ReTotalL r) (st : GS) (e : PyExc) :
    genSeq r st = .error e → e = .badDraw :=
  genSeq_total' r h st e

/-! ### scalars -/

theorem randomStr_total (n : Nat) (al : List Nat) (h0 : al = [] → n = 0) (st : GS) (e : PyExc)
    (h : randomStr n al st = .error e) : e = .badDraw := by
  induction n generalizing st with
  | zero => simp [randomStr, pure, G.pure] at h
  | succ n ih =>
    have hal : al ≠ [] := fun ha => by have := h0 ha; omega
    simp only [randomStr, bind, pure] at h
    rcases G.bind_error h with h1 | ⟨c, st1, _, h2⟩
    · exact choiceChar_total hal h1
    · rcases G.bind_error h2 with h3 | ⟨r, st2, _, h4⟩
      · exact ih (fun ha => absurd ha hal) _ h3
      · exact (pure_not_error h4).elim

theorem uniform_total {env : Env} {x y q : Rat} (hq : env.fl (y - x) = .fin q) {st : GS} {e : PyExc}
    (h : uniform env (.fin x) (.fin y) st = .error e) : e = .badDraw := by
  unfold uniform at h
  simp only [hq] at h
  grind

theorem randomFloat_total (env : Env) (x y : Rat) (loDec hiDec : Option Rat) (prec : Option Nat) (hxy : x ≤ y)
    (hp : match prec with
       | none => ∃ q, env.fl (y - x) = .fin q
       | some p => ∃ dl dr, loDec = some dl ∧ hiDec = some dr ∧
           (dl * ((10 ^ p : Nat) : Rat)).ceil ≤ (dr * ((10 ^ p : Nat) : Rat)).floor)
    (st : GS) (e : PyExc)
    (h : randomFloat env (.fin x) (.fin y) loDec hiDec prec st = .error e) : e = .badDraw := by
  unfold randomFloat at h
  have hlt : PyFloat.lt (.fin y) (.fin x) = false := by
    simp only [PyFloat.lt, decide_eq_false_iff_not, Rat.not_lt]; exact hxy
  simp only [hlt, Bool.false_eq_true, if_false] at h
  split at h
  · exact (pure_not_error h).elim
  cases prec with
  | none =>
    obtain ⟨q, hq⟩ := hp
    exact uniform_total hq h
  | some p =>
    obtain ⟨dl, dr, rfl, rfl, hlr⟩ := hp
    simp only [bind, pure] at h
    rcases G.bind_error h with h1 | ⟨l, st1, h1, h2⟩
    · simp [liftE, decCeil] at h1
    · have hl := liftE_ok h1
      simp only [decCeil, Except.ok.injEq] at hl
      rcases G.bind_error h2 with h3 | ⟨r, st2, h3, h4⟩
      · simp [liftE, decFloor] at h3
      · have hr := liftE_ok h3
        simp only [decFloor, Except.ok.injEq] at hr
        rcases G.bind_error h4 with h5 | ⟨k, st3, _, h6⟩
        · exact randint_total (by rw [← hl, ← hr]; exact hlr) h5
        · exact (pure_not_error h6).elim

theorem alphabet_empty {alphabet : Option Str}
    (h : (match alphabet with | some a => a | none => Consts.STR_ALPHABET) = []) : alphabet = some [] := by
  cases alphabet with
  | none => exact absurd h Consts.str_alphabet_nonempty
  | some a => simp only at h; rw [h]

theorem genScalar_float_eq (env : Env) (mn mx : Option PyFloat) (prec : Option Nat) (mnDec mxDec : Option Rat) :
    genScalar env (.float none mn mx prec mnDec mxDec) =
      G.bind (randomFloat env (floatRange mn mx mnDec mxDec).1.1 (floatRange mn mx mnDec mxDec).2.1
                (floatRange mn mx mnDec mxDec).1.2 (floatRange mn mx mnDec mxDec).2.2 prec)
        (fun f => G.pure (.float f)) := rfl

/-- scalars -/
theorem genScalar_total (env : Env) (k : ScalarS) (h : ScalarTotalHyp env k) (st : GS) (e : PyExc) :
    genScalar env k st = .error e → e = .badDraw := by
  intro hg
  cases k with
  | none => simp [genScalar, pure, G.pure] at hg
  | bool b =>
    cases b with
    | none =>
      simp only [genScalar, bind, pure] at hg
      rcases G.bind_error hg with h1 | ⟨i, st1, _, h2⟩
      · exact choiceIdx_total (by decide) h1
      · exact (pure_not_error h2).elim
    | some b => simp [genScalar, pure, G.pure] at hg
  | int x mn mx =>
    cases x with
    | some x => simp [genScalar, pure, G.pure] at hg
    | none =>
      simp only [genScalar, bind, pure] at hg
      rcases G.bind_error hg with h1 | ⟨i, st1, _, h2⟩
      · refine randint_total ?_ h1
        have := Consts.int_min_le_max
        cases mn <;> cases mx <;> simp [ScalarTotalHyp] at h ⊢ <;> grind [pyMinI, pyMaxI]
      · exact (pure_not_error h2).elim
  | float x mn mx prec mnDec mxDec =>
    cases x with
    | some x => simp [genScalar, pure, G.pure] at hg
    | none =>
      rw [genScalar_float_eq] at hg
      simp only [ScalarTotalHyp] at h
      obtain ⟨x, y, hx, hy, hxy, hp⟩ := h
      rw [hx, hy] at hg
      rcases G.bind_error hg with h1 | ⟨f, st1, _, h2⟩
      · exact randomFloat_total env x y _ _ prec hxy hp _ _ h1
      · exact (pure_not_error h2).elim
  | str x L al sub pat =>
    cases x with
    | some x => simp [genScalar, pure, G.pure] at hg
    | none =>
      cases pat with
      | some pt =>
        simp only [ScalarTotalHyp] at h
        simp only [genScalar, bind, pure] at hg
        rcases G.bind_error hg with h1 | ⟨s, st1, _, h2⟩
        · exact genSeq_total _ h _ _ h1
        · exact (pure_not_error h2).elim
      | none =>
        simp only [ScalarTotalHyp] at h
        obtain ⟨hA, hB⟩ := h
        simp only [genScalar, bind, pure] at hg
        rcases L with ⟨l, mnl, mxl⟩
        simp only at hA hB hg
        rcases G.bind_error hg with h1 | ⟨len, st1, h1, h2⟩
        · -- the length draw
          cases l with
          | some n => exact (pure_not_error h1).elim
          | none =>
            cases sub with
            | none => exact randint_total (hA rfl) h1
            | some sb => exact randint_total (hA rfl) h1
        · -- the characters: with an empty alphabet none is drawn
          cases sub with
          | none =>
            simp only at h2 hB
            rcases G.bind_error h2 with h3 | ⟨g, st2, _, h4⟩
            · refine randomStr_total _ _ ?_ _ _ h3
              intro ha
              obtain ⟨hB1, _, hB3⟩ := hB (alphabet_empty ha)
              cases l with
              | some n =>
                obtain ⟨rfl, _⟩ := G.pure_ok h1
                have := hB1 _ rfl
                omega
              | none =>
                obtain ⟨_, h6, _⟩ := randint_ok h1
                have hmx := hB3 rfl
                cases mnl <;> cases mxl <;> simp only at hmx h6 <;> omega
            · exact (pure_not_error h4).elim
          | some sb =>
            simp only at h2 hB
            rcases G.bind_error h2 with h3 | ⟨g, st2, _, h4⟩
            · refine randomStr_total _ _ ?_ _ _ h3
              intro ha
              obtain ⟨hB1, _, hB3⟩ := hB (alphabet_empty ha)
              cases l with
              | some n =>
                obtain ⟨rfl, _⟩ := G.pure_ok h1
                have := hB1 _ rfl
                omega
              | none =>
                obtain ⟨_, h6, _⟩ := randint_ok h1
                have hmx := hB3 rfl
                cases mnl <;> cases mxl <;> simp only at hmx h6 <;> grind [pyMaxI]
            · rcases G.bind_error h4 with h5 | ⟨off, st3, _, h6⟩
              · exact randint_total (by omega) h5
              · exact (pure_not_error h6).elim
  | bytes x =>
    cases x with
    | some x => simp [genScalar, pure, G.pure] at hg
    | none =>
      simp only [genScalar, bind, pure] at hg
      rcases G.bind_error hg with h1 | ⟨n, st1, _, h2⟩
      · exact randint_total Consts.bytes_len_min_le_max h1
      · rcases G.bind_error h2 with h3 | ⟨g, st2, _, h4⟩
        · exact randomStr_total _ _ (fun ha => absurd ha Consts.str_alphabet_nonempty) _ _ h3
        · exact (pure_not_error h4).elim
  | uuid4 x =>
    cases x with
    | some x => obtain ⟨i, ver⟩ := x; simp [genScalar, pure, G.pure] at hg
    | none => simp only [genScalar] at hg; exact extDraw_total hg
  | datetime x =>
    cases x with
    | some x => simp [genScalar, pure, G.pure] at hg
    | none => simp only [genScalar] at hg; exact extDraw_total hg
  | date x =>
    cases x with
    | some x =>
      obtain ⟨b, i⟩ := x
      cases b <;> simp [genScalar, pure, G.pure] at hg
    | none =>
      simp only [genScalar, bind] at hg
      rcases G.bind_error hg with h1 | ⟨n, st1, _, h2⟩
      · exact randint_total (by decide) h1
      · exact extDraw_total h2

/-! ### containers -/

theorem genLength_total {L : LenP} (hL : LenTotalHyp L) {st : GS} {e : PyExc}
    (h : genLength L Consts.LIST_LEN_MIN Consts.LIST_LEN_MAX st = .error e) : e = .badDraw := by
  rcases L with ⟨l, mn, mx⟩
  unfold genLength at h
  unfold LenTotalHyp at hL
  cases l with
  | some n => exact (pure_not_error h).elim
  | none =>
    have := hL rfl
    simp only at h
    refine randint_total ?_ h
    cases mn <;> cases mx <;> simp only at this ⊢ <;> exact this

theorem replicateG_error {m : G PyVal} {Q : PyExc → Prop} (hm : ∀ st e, m st = .error e → Q e) :
    ∀ (n : Nat) (st : GS) (e : PyExc), replicateG m n st = .error e → Q e
  | 0, st, e, h => by simp [replicateG, pure, G.pure] at h
  | n + 1, st, e, h => by
    simp only [replicateG, bind, pure] at h
    rcases G.bind_error h with h1 | ⟨a, st1, _, h2⟩
    · exact hm _ _ h1
    · rcases G.bind_error h2 with h3 | ⟨b, st2, _, h4⟩
      · exact replicateG_error hm n _ _ h3
      · exact (pure_not_error h4).elim

mutual
theorem gen_total' (env : Env) : ∀ (s : Schema) (_ : GenTotalHyp env s) (st : GS) (e : PyExc),
    gen env s st = .error e → e = .badDraw
  | .scalar k, hs, st, e, h => by
    simp only [GenTotalHyp] at hs
    simp only [gen] at h
    exact genScalar_total env k hs st e h
  | .listU L, hs, st, e, h => by
    simp only [GenTotalHyp] at hs
    simp only [gen] at h
    cases hl : L.len with
    | some k => simp [hl, pure, G.pure] at h
    | none =>
      simp only [hl, bind] at h
      rcases G.bind_error h with h1 | ⟨n, st1, _, h2⟩
      · exact genLength_total hs h1
      · split at h2 <;> exact (pure_not_error h2).elim
  | .listT t L, hs, st, e, h => by
    simp only [GenTotalHyp] at hs
    simp only [gen, bind, pure] at h
    rcases G.bind_error h with h1 | ⟨n, st1, _, h2⟩
    · exact genLength_total hs.1 h1
    · rcases G.bind_error h2 with h3 | ⟨xs, st2, _, h4⟩
      · exact replicateG_error (Q := fun e => e = .badDraw)
          (fun a b hh => gen_total' env t hs.2 a b hh) _ _ _ h3
      · exact (pure_not_error h4).elim
  | .listE lead es trail L, hs, st, e, h => by
    simp only [GenTotalHyp] at hs
    simp only [gen, bind, pure] at h
    rcases G.bind_error h with h1 | ⟨xs, st1, _, h2⟩
    · exact genList_total env es hs _ _ h1
    · exact (pure_not_error h2).elim
  | .dict none _, hs, st, e, h => by simp [gen, pure, G.pure] at h
  | .dict (some fs) ell, hs, st, e, h => by
    simp only [GenTotalHyp] at hs
    simp only [gen, bind, pure] at h
    rcases G.bind_error h with h1 | ⟨kvs, st1, _, h2⟩
    · exact genFields_total env fs hs _ _ h1
    · exact (pure_not_error h2).elim
  | .any none, hs, st, e, h => by simp [gen, pure, G.pure] at h
  | .any (some ts), hs, st, e, h => by
    simp only [GenTotalHyp] at hs
    simp only [gen, bind] at h
    rcases G.bind_error h with h1 | ⟨i, st1, _, h2⟩
    · exact choiceIdx_total (by simpa using hs.1) h1
    · exact genNth_total env ts i hs.2 _ _ h2
  | .alias _ t, hs, st, e, h => by
    simp only [GenTotalHyp] at hs
    simp only [gen] at h
    exact gen_total' env t hs _ _ h
  | .custom t, hs, st, e, h => by
    simp only [GenTotalHyp] at hs
    simp only [gen] at h
    exact gen_total' env t hs _ _ h
theorem genList_total (env : Env) : ∀ (ss : List Schema) (_ : GenTotalHypL env ss) (st : GS) (e : PyExc),
    genList env ss st = .error e → e = .badDraw
  | [], _, st, e, h => by simp [genList, pure, G.pure] at h
  | s :: ss, hs, st, e, h => by
    simp only [GenTotalHypL] at hs
    simp only [genList, bind, pure] at h
    rcases G.bind_error h with h1 | ⟨a, st1, _, h2⟩
    · exact gen_total' env s hs.1 _ _ h1
    · rcases G.bind_error h2 with h3 | ⟨b, st2, _, h4⟩
      · exact genList_total env ss hs.2 _ _ h3
      · exact (pure_not_error h4).elim
theorem genFields_total (env : Env) : ∀ (fs : List (PyKey × Bool × Schema)) (_ : GenTotalHypF env fs)
    (st : GS) (e : PyExc), genFields env fs st = .error e → e = .badDraw
  | [], _, st, e, h => by simp [genFields, pure, G.pure] at h
  | (k, true, s) :: fs, hs, st, e, h => by
    simp only [GenTotalHypF] at hs
    simp only [genFields, if_true] at h
    exact genFields_total env fs hs.2 _ _ h
  | (k, false, s) :: fs, hs, st, e, h => by
    simp only [GenTotalHypF] at hs
    simp only [genFields, Bool.false_eq_true, if_false, bind, pure] at h
    rcases G.bind_error h with h1 | ⟨a, st1, _, h2⟩
    · exact gen_total' env s (hs.1 (by simp)) _ _ h1
    · rcases G.bind_error h2 with h3 | ⟨b, st2, _, h4⟩
      · exact genFields_total env fs hs.2 _ _ h3
      · exact (pure_not_error h4).elim
theorem genNth_total (env : Env) : ∀ (ss : List Schema) (i : Nat) (_ : GenTotalHypL env ss) (st : GS) (e : PyExc),
    genNth env ss i st = .error e → e = .badDraw
  | [], i, _, st, e, h => by simp [genNth, G.fail] at h; exact h.symm
  | s :: ss, 0, hs, st, e, h => by
    simp only [GenTotalHypL] at hs
    simp only [genNth] at h
    exact gen_total' env s hs.1 _ _ h
  | s :: ss, i + 1, hs, st, e, h => by
    simp only [GenTotalHypL] at hs
    simp only [genNth] at h
    exact genNth_total env ss i hs.2 _ _ h
end

/-- **C01 (totality).** `fake(schema)` returns without raising: the only way the generator model fails on a
    schema satisfying `GenTotalHyp` is a defective draw list. -/
theorem gen_total (env : Env) (s : Schema) (h : GenTotalHyp env s) (st : GS) (e : PyExc) :
    gen env s st = .error e → e = .badDraw :=
  gen_total' env s h st e

/-! ### a clean reading of the empty-alphabet clause of `ScalarTotalHyp` -/

/-- the lengths `Generator.visit_str` can hand to `random_str` (before the substring is subtracted) -/
def StrLenAllowed (L : LenP) (substr : Option Str) (n : Int) : Prop :=
  match L.len with
  | some k => n = k
  | none =>
    let mn0 := match L.minLen with | some m => m | none => Consts.STR_LEN_MIN
    let mx0 := match L.maxLen with | some m => m | none => pyMaxI Consts.STR_LEN_MAX mn0
    match substr with
    | some sub => pyMaxI mn0 sub.length ≤ n ∧ n ≤ pyMaxI mx0 sub.length
    | none => mn0 ≤ n ∧ n ≤ mx0

/-- for a schema satisfying `ScalarTotalHyp`, the empty-alphabet clause says exactly: every length the
    generator may pick leaves no character to draw (`(length - |substr|).toNat = 0`) -/
theorem str_empty_alphabet_clause_spec (env : Env) (L : LenP) (substr : Option Str)
    (h : ScalarTotalHyp env (.str none L (some []) substr none)) :
    ∀ n, StrLenAllowed L substr n →
      (n - (match substr with | some sub => (sub.length : Int) | none => 0)).toNat = 0 := by
  simp only [ScalarTotalHyp] at h
  obtain ⟨_, hB⟩ := h
  obtain ⟨hB1, _, hB3⟩ := hB trivial
  rcases L with ⟨l, mnl, mxl⟩
  intro n hn
  unfold StrLenAllowed at hn
  cases l with
  | some k =>
    simp only at hn hB1
    have := hB1 k rfl
    subst hn
    cases substr <;> simp only at this ⊢ <;> omega
  | none =>
    have hmx := hB3 rfl
    cases substr <;> cases mnl <;> cases mxl <;> simp only at hn hmx ⊢ <;> grind [pyMaxI]

/-- and conversely: if every allowed length leaves no character to draw (and the length range is not
    empty), the empty-alphabet clause of `ScalarTotalHyp` holds — the clause is the weakest that works -/
theorem str_empty_alphabet_clause_of (env : Env) (L : LenP) (substr : Option Str)
    (hne : ∃ n, StrLenAllowed L substr n)
    (h0 : ∀ n, StrLenAllowed L substr n →
      (n - (match substr with | some sub => (sub.length : Int) | none => 0)).toNat = 0) :
    ScalarTotalHyp env (.str none L (some []) substr none) := by
  simp only [ScalarTotalHyp]
  rcases L with ⟨l, mnl, mxl⟩
  obtain ⟨n0, hn0⟩ := hne
  unfold StrLenAllowed at hn0 h0
  cases l with
  | some k =>
    refine ⟨by simp, fun _ => ⟨?_, by simp, by simp⟩⟩
    intro n hn
    simp only at hn
    cases hn
    have := h0 k (by simp)
    cases substr <;> simp only at this ⊢ <;> omega
  | none =>
    simp only at hn0 h0
    refine ⟨fun _ => ?_, fun _ => ⟨by simp, by simp, fun _ => ?_⟩⟩
    · cases substr <;> simp only at hn0 ⊢ <;> omega
    · cases substr with
      | none =>
        simp only at hn0 h0 ⊢
        have := h0 _ ⟨by omega, Int.le_refl _⟩
        cases mnl <;> cases mxl <;> simp only at this hn0 ⊢ <;> omega
      | some sb =>
        simp only at hn0 h0 ⊢
        have := h0 _ ⟨by omega, Int.le_refl _⟩
        cases mnl <;> cases mxl <;> simp only at this hn0 ⊢ <;> grind [pyMaxI]

/-- and a long enough list of in-range answers exists for the simplest policy: if every request is
    answered with its lower end the generator succeeds (so `.ok` is reachable — non-vacuity of C01) -/
theorem gen_total_example :
    let env : Env := { rxSearch := fun _ _ => true, fl := PyFloat.fin }
    let s := Schema.dict (some [(.str [97], false, .scalar (.int none (some 1) (some 5))),
                                (.str [98], false, .listT (.scalar (.bool none)) { len := some 2 })]) none
    GenTotalHyp env s ∧ ∃ v st', gen env s { draws := [.int 1, .idx 0, .idx 1] } = .ok (v, st') := by
  intro env s
  constructor
  · simp [s, GenTotalHyp, GenTotalHypF, ScalarTotalHyp, LenTotalHyp]
  · simp [s, gen, genFields, genScalar, genLength, replicateG, randint, choiceIdx, bind, G.bind, pure, G.pure]

/-- K3 witness: an empty alphabet with a positive length raises IndexError -/
theorem gen_empty_alphabet_counterexample (env : Env) :
    gen env (.scalar (.str none { len := some 2 } (some []) none none)) { draws := [] } = .error .indexError := by
  simp [gen, genScalar, randomStr, choiceChar, bind, G.bind, pure, G.pure]

/-- K11 witness: bounds without a grid point raise ValueError (`randint` on an empty range) -/
theorem gen_no_grid_point_counterexample :
    let env : Env := { rxSearch := fun _ _ => true, fl := PyFloat.fin }
    gen env (.scalar (.float none (some (.fin (11/100))) (some (.fin (19/100))) (some 1) (some (11/100)) (some (19/100))))
      { draws := [.int 1] } = .error .valueError := by
  intro env
  have h1 : ((11/100 : Rat) * 10).ceil = 2 := by decide +kernel
  have h2 : ((19/100 : Rat) * 10).floor = 1 := by decide +kernel
  have h3 : PyFloat.lt (.fin (19/100)) (.fin (11/100)) = false := by decide +kernel
  have h4 : PyFloat.eq (.fin (11/100)) (.fin (19/100)) = false := by decide +kernel
  simp [gen, genScalar, floatRange, randomFloat, h3, h4, decCeil, decFloor, liftE, h1, h2, randint, bind, G.bind, pure]

end D42
