/-
  C03 — umbrella: located / true (both validators) / siblings / the path a message names.
-/
import D42.Props.C03Sub
import D42.Props.C08Format
import D42.Props.ValidatorProg
