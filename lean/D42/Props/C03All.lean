/-
  C03 — umbrella: located / true (both validators) / siblings / the path a message names.
-/
import D42.Props.C03Sub
import D42.Props.C08Format
import D42.Props.ValidatorProg

namespace D42
open CP

/-- every error the statement sequences AS EXTRACTED FROM THE SOURCE produce carries the path it was given and the value it
    was given, and states a true fact about that value (`validateScalar_eq_extracted` composed with `validateScalar_here`
    and `validateScalar_true`) -/
theorem extracted_errors_located_and_true (env : Env) (k : ScalarS) (a : PyVal) (p : Path) :
    ∀ e ∈ (run env (viewScalar k) a p (progOf k) []).1, e.path = p ∧ e.actual = a ∧ Fact env e := by
  rw [← validateScalar_eq_extracted]
  intro e he
  exact ⟨(validateScalar_here env k a p e he).1, (validateScalar_here env k a p e he).2, validateScalar_true env k a p e he⟩

end D42
