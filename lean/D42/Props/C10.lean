/-
  C10 — a declaration either fails cleanly or yields a self-consistent schema.
-/
import D42.Model.Decl
import D42.Gen.Guards
import D42.Props.C02

namespace D42
open Gen.Guards

/-- the refinement methods each schema type has (a call to anything else is Python's AttributeError /
    TypeError for a missing method — not a declaration call) -/
def methodExists : Schema → Op → Bool
  | .scalar (.bool _), .call _ => true
  | .scalar (.int ..), .call _ => true
  | .scalar (.int ..), .min _ => true
  | .scalar (.int ..), .max _ => true
  | .scalar (.float ..), .call _ => true
  | .scalar (.float ..), .min _ => true
  | .scalar (.float ..), .max _ => true
  | .scalar (.float ..), .precision _ => true
  | .scalar (.str ..), .call _ => true
  | .scalar (.str ..), .len _ _ => true
  | .scalar (.str ..), .alphabet _ => true
  | .scalar (.str ..), .contains _ => true
  | .scalar (.str ..), .regex _ => true
  | .scalar (.bytes _), .call _ => true
  | .scalar (.uuid4 _), .call _ => true
  | .scalar (.datetime _), .call _ => true
  | .scalar (.date _), .call _ => true
  | .listU _, .call _ => true
  | .listT .., .call _ => true
  | .listE .., .call _ => true
  | .listU _, .len _ _ => true
  | .listT .., .len _ _ => true
  | .listE .., .len _ _ => true
  | .dict _ _, .call _ => true
  | .any _, .anyCall (_ :: _) => true       -- at least the one required positional argument
  | _, _ => false

/-! ### clean equations for `declScalar` / `Decl.apply`, one per (type, method) -/

theorem declScalar_bool_call (v a) : declScalar (.bool v) (.call a) =
    (match a with
     | .v (.bool b) => if v.isSome then DErr else .ok (.bool (some b))
     | _ => DErr) := by
  cases a with
  | v x => cases x <;> rfl
  | _ => rfl

theorem declScalar_int_call (v mn mx a) : declScalar (.int v mn mx) (.call a) =
    (match argInt a with
     | none => DErr
     | some n => if v.isSome then DErr else if mn.isSome || mx.isSome then DErr else .ok (.int (some n) mn mx)) := rfl

theorem declScalar_int_min (v mn mx a) : declScalar (.int v mn mx) (.min a) =
    (match argInt a with
     | none => DErr
     | some n => if mn.isSome then DErr else
        (match v with | some x => if n > x then DErr else .ok (.int v (some n) mx) | none => .ok (.int v (some n) mx))) := rfl

theorem declScalar_int_max (v mn mx a) : declScalar (.int v mn mx) (.max a) =
    (match argInt a with
     | none => DErr
     | some n => if mx.isSome then DErr else
        (match v with | some x => if n < x then DErr else .ok (.int v mn (some n)) | none => .ok (.int v mn (some n)))) := rfl

theorem declScalar_float_call (v mn mx p d1 d2 a) : declScalar (.float v mn mx p d1 d2) (.call a) =
    (match argFloat a with
     | none => DErr
     | some f => if v.isSome then DErr else if mn.isSome || mx.isSome then DErr else .ok (.float (some f) mn mx p d1 d2)) := rfl

theorem declScalar_float_min (v mn mx p d1 d2 a) : declScalar (.float v mn mx p d1 d2) (.min a) =
    (match argFloat a with
     | none => DErr
     | some f => if mn.isSome then DErr else
        (match v with
         | some x => if !(PyFloat.le f x) then DErr else .ok (.float v (some f) mx p none d2)
         | none => .ok (.float v (some f) mx p none d2))) := rfl

theorem declScalar_float_max (v mn mx p d1 d2 a) : declScalar (.float v mn mx p d1 d2) (.max a) =
    (match argFloat a with
     | none => DErr
     | some f => if mx.isSome then DErr else
        (match v with
         | some x => if !(PyFloat.ge f x) then DErr else .ok (.float v mn (some f) p d1 none)
         | none => .ok (.float v mn (some f) p d1 none))) := rfl

theorem declScalar_float_precision (v mn mx p d1 d2 a) : declScalar (.float v mn mx p d1 d2) (.precision a) =
    (match argInt a with
     | none => DErr
     | some n => if !(1 ≤ n && n ≤ (Consts.FLOAT_DIG : Int)) then DErr
        else if p.isSome then DErr else .ok (.float v mn mx (some n.toNat) d1 d2)) := rfl

theorem declScalar_str_call (v L al sub pat a) : declScalar (.str v L al sub pat) (.call a) =
    (match argStr a with
     | none => DErr
     | some s => if v.isSome || L.anySet || al.isSome || sub.isSome || pat.isSome then DErr
        else .ok (.str (some s) L al sub pat)) := rfl

theorem declScalar_str_len (v L al sub pat a b) : declScalar (.str v L al sub pat) (.len a b) =
    (if L.anySet || pat.isSome then DErr else
     do let L' ← declLenDispatch (strDeclLen v) (strDeclMin v) (strDeclMax v) L a b
        pure (.str v L' al sub pat)) := rfl

theorem declScalar_str_alphabet (v L al sub pat a) : declScalar (.str v L al sub pat) (.alphabet a) =
    (match argStr a with
     | none => DErr
     | some letters => if al.isSome then DErr else if pat.isSome then DErr else
        (match v with
         | some s => if s.all (fun c => letters.contains c) then .ok (.str v L (some letters) sub pat) else DErr
         | none => .ok (.str v L (some letters) sub pat))) := rfl

theorem declScalar_str_contains (v L al sub pat a) : declScalar (.str v L al sub pat) (.contains a) =
    (match argStr a with
     | none => DErr
     | some x => if sub.isSome then DErr else if pat.isSome then DErr else
        (match v with
         | some s => if isInfixB x s then .ok (.str v L al (some x) pat) else DErr
         | none => .ok (.str v L al (some x) pat))) := rfl

theorem declScalar_str_regex (v L al sub pat a) : declScalar (.str v L al sub pat) (.regex a) =
    (match a with
     | .pat compiles p m =>
        if pat.isSome || al.isSome || L.anySet || sub.isSome then DErr
        else if !compiles then DErr
        else (match v with
          | some _ => if m then .ok (.str v L al sub (some p)) else DErr
          | none => .ok (.str v L al sub (some p)))
     | _ => DErr) := by
  cases a <;> rfl

theorem declScalar_bytes_call (v a) : declScalar (.bytes v) (.call a) =
    (match a with
     | .v (.bytes b) => if v.isSome then DErr else .ok (.bytes (some b))
     | _ => DErr) := by
  cases a with
  | v x => cases x <;> rfl
  | _ => rfl

theorem declScalar_uuid4_call (v a) : declScalar (.uuid4 v) (.call a) =
    (match a with
     | .v (.uuid i ver) => if ver ≠ 4 then DErr else if v.isSome then DErr else .ok (.uuid4 (some (i, ver)))
     | _ => DErr) := by
  cases a with
  | v x => cases x <;> rfl
  | _ => rfl

theorem declScalar_datetime_call (v a) : declScalar (.datetime v) (.call a) =
    (match a with
     | .v (.datetime i) => if v.isSome then DErr else .ok (.datetime (some i))
     | _ => DErr) := by
  cases a with
  | v x => cases x <;> rfl
  | _ => rfl

theorem declScalar_date_call (v a) : declScalar (.date v) (.call a) =
    (match a with
     | .v (.date i) => if v.isSome then DErr else .ok (.date (some (false, i)))
     | .v (.datetime i) => if v.isSome then DErr else .ok (.date (some (true, i)))
     | _ => DErr) := by
  cases a with
  | v x => cases x <;> rfl
  | _ => rfl

theorem declScalar_noMethod (k op) (h : methodExists (.scalar k) op = false) :
    declScalar k op = .error .attributeError := by
  cases k <;> cases op <;> first | rfl | (simp [methodExists] at h)


/-! ### error kind -/

/-! helper lemmas: every raise point of the `len(...)` helpers, `buildKeys` and `declScalar` is a DeclarationError -/

theorem strDeclLen_err (v L a e) (h : strDeclLen v L a = .error e) : e = .declarationError := by
  unfold strDeclLen at h; grind
theorem strDeclMin_err (v L a e) (h : strDeclMin v L a = .error e) : e = .declarationError := by
  unfold strDeclMin at h; grind
theorem strDeclMax_err (v L a e) (h : strDeclMax v L a = .error e) : e = .declarationError := by
  unfold strDeclMax at h; grind
theorem listDeclLen_err (v L a e) (h : listDeclLen v L a = .error e) : e = .declarationError := by
  unfold listDeclLen at h; grind
theorem listDeclMin_err (v L a e) (h : listDeclMin v L a = .error e) : e = .declarationError := by
  unfold listDeclMin at h; grind
theorem listDeclMax_err (v L a e) (h : listDeclMax v L a = .error e) : e = .declarationError := by
  unfold listDeclMax at h; grind

theorem declLenDispatch_err (dl dmin dmax : LenP → Arg → Except PyExc LenP)
    (h1 : ∀ L a e, dl L a = .error e → e = .declarationError)
    (h2 : ∀ L a e, dmin L a = .error e → e = .declarationError)
    (h3 : ∀ L a e, dmax L a = .error e → e = .declarationError)
    (L a b e) (h : declLenDispatch dl dmin dmax L a b = .error e) : e = .declarationError := by
  unfold declLenDispatch at h
  split at h
  · exact h3 _ _ _ h
  · split at h
    · exact h1 _ _ _ h
    · split at h
      · exact h2 _ _ _ h
      · cases h' : dmin L a with
        | error e' =>
          simp [h', bind, Except.bind] at h
          subst h; exact h2 _ _ _ h'
        | ok L' =>
          simp [h', bind, Except.bind] at h
          exact h3 _ _ _ h

theorem strLen_err (v L a b e) (h : declLenDispatch (strDeclLen v) (strDeclMin v) (strDeclMax v) L a b = .error e) :
    e = .declarationError :=
  declLenDispatch_err _ _ _ (strDeclLen_err v) (strDeclMin_err v) (strDeclMax_err v) L a b e h

theorem listLen_err (v L a b e) (h : declLenDispatch (listDeclLen v) (listDeclMin v) (listDeclMax v) L a b = .error e) :
    e = .declarationError :=
  declLenDispatch_err _ _ _ (listDeclLen_err v) (listDeclMin_err v) (listDeclMax_err v) L a b e h

theorem buildKeys_err : ∀ (kvs fs ell n e), buildKeys kvs fs ell n = .error e → e = .declarationError
  | [], fs, ell, n, e, h => by simp [buildKeys] at h
  | (.ell, .ell) :: r, fs, ell, n, e, h => by
    simp only [buildKeys] at h; exact buildKeys_err _ _ _ _ _ h
  | (.ell, .sch _) :: _, _, _, _, e, h => by simp [buildKeys] at h; exact h.symm
  | (.ell, .bad) :: _, _, _, _, e, h => by simp [buildKeys] at h; exact h.symm
  | (.key _ _, .ell) :: _, _, _, _, e, h => by simp [buildKeys] at h; exact h.symm
  | (.key _ _, .bad) :: _, _, _, _, e, h => by simp [buildKeys] at h; exact h.symm
  | (.key k o, .sch s) :: r, fs, ell, n, e, h => by
    simp only [buildKeys] at h; exact buildKeys_err _ _ _ _ _ h

theorem bind_err {α β} (x : Except PyExc α) (f : α → Except PyExc β) (e)
    (h : (x >>= f) = .error e) : x = .error e ∨ ∃ a, x = .ok a ∧ f a = .error e := by
  cases x with
  | error e' => left; simpa [bind, Except.bind] using h
  | ok a => right; exact ⟨a, rfl, by simpa [bind, Except.bind] using h⟩



theorem declScalar_err (k : ScalarS) (op : Op) (e : PyExc)
    (hm : methodExists (.scalar k) op = true) (h : declScalar k op = .error e) : e = .declarationError := by
  cases k <;> cases op <;> simp [methodExists] at hm
  all_goals (simp only [declScalar_bool_call, declScalar_int_call, declScalar_int_min, declScalar_int_max,
    declScalar_float_call, declScalar_float_min, declScalar_float_max, declScalar_float_precision,
    declScalar_str_call, declScalar_str_len, declScalar_str_alphabet, declScalar_str_contains,
    declScalar_str_regex, declScalar_bytes_call, declScalar_uuid4_call, declScalar_datetime_call,
    declScalar_date_call] at h)
  all_goals first
    | grind
    | (split at h
       · cases h; rfl
       · rcases bind_err _ _ _ h with h' | ⟨L', _, h'⟩
         · exact strLen_err _ _ _ _ _ h'
         · simp [pure, Except.pure] at h')


/-- **C10 (error kind).** A declaration call with arguments of *any* type (wrong types, `...`, `Nil`,
    bool-as-int, negative lengths, NaN, junk element lists and key tables) fails only with DeclarationError. -/
theorem decl_error_kind (s : Schema) (op : Op) (e : PyExc)
    (hm : methodExists s op = true) (h : Decl.apply s op = .error e) : e = .declarationError := by
  cases s with
  | scalar k =>
    simp only [Decl.apply] at h
    rcases bind_err _ _ _ h with h' | ⟨k', _, h'⟩
    · exact declScalar_err k op e hm h'
    · simp [pure, Except.pure] at h'
  | listU L =>
    cases op <;> simp [methodExists] at hm
    case call a =>
      unfold Decl.apply at h
      split at h <;> first | (simp at h; done) | grind
    case len a b =>
      simp only [Decl.apply] at h
      split at h
      · cases h; rfl
      · rcases bind_err _ _ _ h with h' | ⟨L', _, h'⟩
        · exact listLen_err _ _ _ _ _ h'
        · simp [pure, Except.pure] at h'
  | listT t L =>
    cases op <;> simp [methodExists] at hm
    case call a =>
      unfold Decl.apply at h
      split at h <;> first | (simp at h; done) | grind
    case len a b =>
      simp only [Decl.apply] at h
      split at h
      · cases h; rfl
      · rcases bind_err _ _ _ h with h' | ⟨L', _, h'⟩
        · exact listLen_err _ _ _ _ _ h'
        · simp [pure, Except.pure] at h'
  | listE lead es trail L =>
    cases op <;> simp [methodExists] at hm
    case call a =>
      unfold Decl.apply at h
      split at h <;> first | (simp at h; done) | grind
    case len a b =>
      simp only [Decl.apply] at h
      split at h
      · cases h; rfl
      · rcases bind_err _ _ _ h with h' | ⟨L', _, h'⟩
        · exact listLen_err _ _ _ _ _ h'
        · simp [pure, Except.pure] at h'
  | dict fs ell =>
    cases op <;> simp [methodExists] at hm
    case call a =>
      cases fs <;> cases a <;> simp [Decl.apply] at h <;> try (exact h.symm)
      rename_i kvs
      cases hb : buildKeys kvs [] none 0 with
      | error e' => rw [hb] at h; cases h; exact buildKeys_err _ _ _ _ _ hb
      | ok r => rw [hb] at h; cases h
  | any ts =>
    cases op <;> simp [methodExists] at hm
    case anyCall as =>
      cases as with
      | nil => simp at hm
      | cons a as' =>
        simp only [Decl.apply] at h
        split at h
        · cases h; rfl
        · simp at h; split at h <;> cases h; rfl
  | alias n t => simp [methodExists] at hm
  | custom t => simp [methodExists] at hm

/-- every op of a chain is a method of the schema it is applied to -/
def ChainValid : Schema → List Op → Prop
  | _, [] => True
  | s, op :: ops => methodExists s op = true ∧ ∀ s', Decl.apply s op = .ok s' → ChainValid s' ops

/-- the same for chains of any length (the property's bound of 4 is not needed) -/
theorem decl_run_error_kind : ∀ (ops : List Op) (s : Schema) (e : PyExc),
    ChainValid s ops → Decl.run s ops = .error e → e = .declarationError
  | [], s, e, _, h => by simp [Decl.run] at h
  | op :: ops, s, e, hc, h => by
    simp only [Decl.run] at h
    simp only [ChainValid] at hc
    obtain ⟨hm, hrest⟩ := hc
    rcases bind_err _ _ _ h with h' | ⟨s', hs', h'⟩
    · exact decl_error_kind _ _ _ hm h'
    · exact decl_run_error_kind ops s' e (hrest s' hs') h'


/-! ### re-declaration (tie to the guard table extracted from the source) -/

/-- which props a schema has declared, in the vocabulary of the generated guard table -/
def declaredProps : Schema → List Prop_
  | .scalar (.bool v) => if v.isSome then [.p_value] else []
  | .scalar (.int v mn mx) => (if v.isSome then [.p_value] else []) ++ (if mn.isSome then [.p_min] else []) ++ (if mx.isSome then [.p_max] else [])
  | .scalar (.float v mn mx p _ _) => (if v.isSome then [.p_value] else []) ++ (if mn.isSome then [.p_min] else []) ++
      (if mx.isSome then [.p_max] else []) ++ (if p.isSome then [.p_precision] else [])
  | .scalar (.str v L al sub pat) => (if v.isSome then [.p_value] else []) ++ (if L.len.isSome then [.p_len] else []) ++
      (if L.minLen.isSome then [.p_min_len] else []) ++ (if L.maxLen.isSome then [.p_max_len] else []) ++
      (if al.isSome then [.p_alphabet] else []) ++ (if sub.isSome then [.p_substr] else []) ++ (if pat.isSome then [.p_pattern] else [])
  | .scalar (.bytes v) => if v.isSome then [.p_value] else []
  | .scalar (.uuid4 v) => if v.isSome then [.p_value] else []
  | .scalar (.datetime v) => if v.isSome then [.p_value] else []
  | .scalar (.date v) => if v.isSome then [.p_value] else []
  | .scalar .none => []
  | .listU L => (if L.len.isSome then [.p_len] else []) ++ (if L.minLen.isSome then [.p_min_len] else []) ++ (if L.maxLen.isSome then [.p_max_len] else [])
  | .listT _ L => [.p_type] ++ (if L.len.isSome then [.p_len] else []) ++ (if L.minLen.isSome then [.p_min_len] else []) ++ (if L.maxLen.isSome then [.p_max_len] else [])
  | .listE _ _ _ L => [.p_elements] ++ (if L.len.isSome then [.p_len] else []) ++ (if L.minLen.isSome then [.p_min_len] else []) ++ (if L.maxLen.isSome then [.p_max_len] else [])
  | .dict none _ => []
  | .dict (some _) _ => [.p_keys]
  | .any none => []
  | .any (some _) => [.p_types]
  | .alias .. => []
  | .custom _ => []

def tyName : Schema → String
  | .scalar (.bool _) => "bool" | .scalar (.int ..) => "int" | .scalar (.float ..) => "float"
  | .scalar (.str ..) => "str" | .scalar (.bytes _) => "bytes" | .scalar (.uuid4 _) => "uuid4"
  | .scalar (.datetime _) => "datetime" | .scalar (.date _) => "date" | .scalar .none => "none"
  | .listU _ => "list" | .listT .. => "list" | .listE .. => "list"
  | .dict .. => "dict" | .any _ => "any" | .alias .. => "alias" | .custom _ => "custom"

/-- the method names of the table rows an op can correspond to (the `len(...)` forms share their U) -/
def methodNames : Op → List String
  | .call _ => ["call"]
  | .anyCall _ => ["call"]
  | .min _ => ["min"]
  | .max _ => ["max"]
  | .precision _ => ["precision"]
  | .len _ _ => ["len[len]", "len[min_len]", "len[max_len]", "len[min_len+max_len]"]
  | .alphabet _ => ["alphabet"]
  | .contains _ => ["contains"]
  | .regex _ => ["regex"]


/-! ### re-declaration: the guard sets of the table rows matching a call -/

def guardOf (ty : String) (ms : List String) : List Prop_ :=
  (table.filter (fun r => r.ty == ty && ms.contains r.method)).flatMap (·.U)

theorem mem_guardOf (r : Row) (hr : r ∈ table) (ty : String) (ms : List String) (hty : r.ty = ty)
    (hm : r.method ∈ ms) (n : Prop_) (hn : n ∈ r.U) : n ∈ guardOf ty ms := by
  simp only [guardOf, List.mem_flatMap, List.mem_filter]
  exact ⟨r, ⟨hr, by simp [hty, hm]⟩, hn⟩

theorem bind_ok {α β} (x : Except PyExc α) (f : α → Except PyExc β) (b)
    (h : (x >>= f) = .ok b) : ∃ a, x = .ok a ∧ f a = .ok b := by
  cases x with
  | error e' => simp [bind, Except.bind] at h
  | ok a => exact ⟨a, rfl, by simpa [bind, Except.bind] using h⟩

local macro "guard_tac" : tactic =>
  `(tactic| (simp [guardOf, table, tyName, methodNames, declaredProps]
             grind [Option.isSome_iff_ne_none, LenP.anySet]))

theorem ok_scalar_unguarded (k : ScalarS) (k' : ScalarS) (op : Op)
    (h : declScalar k op = .ok k') :
    ∀ n ∈ guardOf (tyName (.scalar k)) (methodNames op), n ∉ declaredProps (.scalar k) := by
  cases hm : methodExists (.scalar k) op with
  | false => rw [declScalar_noMethod k op hm] at h; cases h
  | true =>
    cases k <;> cases op <;> simp [methodExists] at hm
    case bool.call v a => rw [declScalar_bool_call] at h; guard_tac
    case int.call v mn mx a => rw [declScalar_int_call] at h; guard_tac
    case int.min v mn mx a => rw [declScalar_int_min] at h; guard_tac
    case int.max v mn mx a => rw [declScalar_int_max] at h; guard_tac
    case float.call v mn mx p d1 d2 a => rw [declScalar_float_call] at h; guard_tac
    case float.min v mn mx p d1 d2 a => rw [declScalar_float_min] at h; guard_tac
    case float.max v mn mx p d1 d2 a => rw [declScalar_float_max] at h; guard_tac
    case float.precision v mn mx p d1 d2 a => rw [declScalar_float_precision] at h; guard_tac
    case str.call v L al sub pat a => rw [declScalar_str_call] at h; guard_tac
    case str.len v L al sub pat a b =>
      rw [declScalar_str_len] at h
      split at h
      · cases h
      · guard_tac
    case str.alphabet v L al sub pat a => rw [declScalar_str_alphabet] at h; guard_tac
    case str.contains v L al sub pat a => rw [declScalar_str_contains] at h; guard_tac
    case str.regex v L al sub pat a => rw [declScalar_str_regex] at h; guard_tac
    case bytes.call v a => rw [declScalar_bytes_call] at h; guard_tac
    case uuid4.call v a => rw [declScalar_uuid4_call] at h; guard_tac
    case datetime.call v a => rw [declScalar_datetime_call] at h; guard_tac
    case date.call v a => rw [declScalar_date_call] at h; guard_tac

theorem apply_scalar (k op) : Decl.apply (.scalar k) op = (do let k' ← declScalar k op; pure (.scalar k')) := rfl

theorem apply_listU_call (L a) : Decl.apply (.listU L) (.call a) =
    (match a with
     | .sch t => if L.anySet then DErr else .ok (.listT t L)
     | .elems xs => if L.anySet then DErr else if elemsOk xs then .ok (mkListE xs L) else DErr
     | _ => DErr) := by
  cases a <;> rfl

theorem apply_listT_call (t L a) : Decl.apply (.listT t L) (.call a) = DErr := by
  cases a <;> rfl

theorem apply_listE_call (lead es trail L a) : Decl.apply (.listE lead es trail L) (.call a) = DErr := rfl

theorem apply_listU_len (L a b) : Decl.apply (.listU L) (.len a b) =
    (if L.anySet then DErr else
     do let L' ← declLenDispatch (listDeclLen none) (listDeclMin none) (listDeclMax none) L a b; pure (.listU L')) := rfl

theorem apply_listT_len (t L a b) : Decl.apply (.listT t L) (.len a b) =
    (if L.anySet then DErr else
     do let L' ← declLenDispatch (listDeclLen none) (listDeclMin none) (listDeclMax none) L a b; pure (.listT t L')) := rfl

theorem apply_listE_len (lead es trail L a b) : Decl.apply (.listE lead es trail L) (.len a b) =
    (if L.anySet then DErr else
     do let L' ← declLenDispatch (listDeclLen (some (es.length, lead || trail))) (listDeclMin (some (es.length, lead || trail)))
                  (listDeclMax (some (es.length, lead || trail))) L a b
        pure (.listE lead es trail L')) := rfl

theorem apply_dict_some_call (fs ell a) : Decl.apply (.dict (some fs) ell) (.call a) = DErr := by
  cases a <;> rfl

theorem apply_any_some (ts as) : ∃ e, Decl.apply (.any (some ts)) (.anyCall as) = .error e := by
  simp only [Decl.apply]
  split
  · exact ⟨_, rfl⟩
  · split
    · exact ⟨_, rfl⟩
    · exact ⟨_, rfl⟩

theorem apply_noMethod (s op) (h : methodExists s op = false) : ∃ e, Decl.apply s op = .error e := by
  cases s with
  | scalar k => exact ⟨_, by rw [apply_scalar, declScalar_noMethod k op h]; rfl⟩
  | any ts =>
    cases op
    case anyCall as =>
      cases as with
      | nil => exact ⟨.typeError, by simp [Decl.apply, allSch]⟩
      | cons a as => simp [methodExists] at h
    all_goals exact ⟨_, rfl⟩
  | dict fs ell => cases fs <;> cases op <;> first | exact ⟨_, rfl⟩ | (simp [methodExists] at h; done)
  | _ => cases op <;> first | exact ⟨_, rfl⟩ | (simp [methodExists] at h; done)

/-- a successful call: nothing in the guard sets of the matching rows was declared -/
theorem ok_unguarded (s s' : Schema) (op : Op) (h : Decl.apply s op = .ok s') :
    ∀ n ∈ guardOf (tyName s) (methodNames op), n ∉ declaredProps s := by
  cases hm : methodExists s op with
  | false => obtain ⟨e, he⟩ := apply_noMethod s op hm; rw [he] at h; cases h
  | true =>
    cases s with
    | scalar k =>
      rw [apply_scalar] at h
      obtain ⟨k', hk, _⟩ := bind_ok _ _ _ h
      exact ok_scalar_unguarded k k' op hk
    | listU L =>
      cases op <;> simp [methodExists] at hm
      case call a => rw [apply_listU_call] at h; guard_tac
      case len a b => rw [apply_listU_len] at h; split at h; · cases h
                      · guard_tac
    | listT t L =>
      cases op <;> simp [methodExists] at hm
      case call a => rw [apply_listT_call] at h; cases h
      case len a b => rw [apply_listT_len] at h; split at h; · cases h
                      · guard_tac
    | listE lead es trail L =>
      cases op <;> simp [methodExists] at hm
      case call a => rw [apply_listE_call] at h; cases h
      case len a b => rw [apply_listE_len] at h; split at h; · cases h
                      · guard_tac
    | dict fs ell =>
      cases op <;> simp [methodExists] at hm
      case call a =>
        cases fs with
        | none => simp [declaredProps]
        | some fs => rw [apply_dict_some_call] at h; cases h
    | any ts =>
      cases ts with
      | none => simp [declaredProps]
      | some ts =>
        cases op <;> simp [methodExists] at hm
        case anyCall as => obtain ⟨e, he⟩ := apply_any_some ts as; rw [he] at h; cases h
    | alias nm t => simp [methodExists] at hm
    | custom t => simp [methodExists] at hm

/-- **C10 (re-declaration).** If a prop listed in the *extracted* already-declared set `U` of the
    method's row is declared on the receiver, the model rejects the call — i.e. the model follows the
    guard table generated from the current source. -/
theorem redeclare_rejected (s : Schema) (op : Op) (r : Row)
    (hr : r ∈ table) (hty : r.ty = tyName s) (hm : r.method ∈ methodNames op)
    (hmeth : methodExists s op = true)
    (hdecl : ∃ n ∈ r.U, n ∈ declaredProps s) :
    Decl.apply s op = .error .declarationError := by
  obtain ⟨n, hnU, hnd⟩ := hdecl
  cases h : Decl.apply s op with
  | error e => rw [decl_error_kind s op e hmeth h]
  | ok s' => exact absurd hnd (ok_unguarded s s' op h n (mem_guardOf r hr _ _ hty hm n hnU))

/-- conversely the model raises "already declared"-style errors for nothing outside the table: a
    successful call means no guarded prop was declared -/
theorem ok_means_unguarded (s s' : Schema) (op : Op) (r : Row)
    (hr : r ∈ table) (hty : r.ty = tyName s) (hm : r.method ∈ methodNames op)
    (h : Decl.apply s op = .ok s') : ∀ n ∈ r.U, n ∉ declaredProps s :=
  fun n hn => ok_unguarded s s' op h n (mem_guardOf r hr _ _ hty hm n hn)

/-! ### self-consistency of a fixed value (scalars) -/

/-- the fixed value of a scalar schema, as a Python value -/
def ScalarS.fixed : ScalarS → Option PyVal
  | .none => Option.none
  | .bool v => v.map PyVal.bool
  | .int v _ _ => v.map PyVal.int
  | .float v _ _ _ _ _ => v.map PyVal.float
  | .str v _ _ _ _ => v.map PyVal.str
  | .bytes v => v.map PyVal.bytes
  | .uuid4 v => v.map (fun iv => PyVal.uuid iv.1 iv.2)
  | .datetime v => v.map PyVal.datetime
  | .date v => v.map (fun bi => if bi.1 then PyVal.datetime bi.2 else PyVal.date bi.2)

/-- "whenever the schema carries a fixed value, that value conforms to the schema itself" -/
def SelfConsistent (env : Env) (k : ScalarS) : Prop :=
  ∀ v, k.fixed = some v → validateScalar env k v [] = []

/-- the external fact `regex()` consults must be what the validator will see -/
def RegexFactOK (env : Env) (k : ScalarS) : Op → Prop
  | .regex (.pat _ p m) => ∀ s, k.fixed = some (.str s) → m = env.rxSearch p.id s
  | _ => True

/-- no NaN as a fixed value or bound (finding K6) -/
def OpNoNaN : Op → Prop
  | .call (.v (.float .nan)) => False
  | .min (.v (.float .nan)) => False
  | .max (.v (.float .nan)) => False
  | _ => True


/-! ### self-consistency -/

theorem PyFloat.eq_self_c10 (f : PyFloat) (h : f ≠ .nan) : PyFloat.eq f f = true := by
  cases f <;> simp [PyFloat.eq] at *

theorem floatValueOk_self_c10 (env : Env) (f : PyFloat) (p : Option Nat) (h : f ≠ .nan) :
    floatValueOk env f f p = true := by
  cases p with
  | none => simp [floatValueOk, isclose, PyFloat.eq_self_c10 f h]
  | some pr =>
    simp only [floatValueOk, eqAtPrecision]
    split
    · rename_i a b h1 h2
      rw [h1] at h2; cases h2; simp
    · exact PyFloat.eq_self_c10 f h

theorem floatValueOk_nan (env : Env) (p : Option Nat) : floatValueOk env .nan .nan p = false := by
  cases p with
  | none => simp [floatValueOk, isclose, PyFloat.eq]
  | some pr => simp [floatValueOk, eqAtPrecision, fscale, pyRound, PyFloat.eq]

theorem floatValueOk_self_ne_nan (env : Env) (f : PyFloat) (p : Option Nat)
    (h : floatValueOk env f f p = true) : f ≠ .nan := by
  intro hf; subst hf; rw [floatValueOk_nan] at h; cases h

theorem argFloat_eq (a f) (h : argFloat a = some f) : a = .v (.float f) := by
  cases a with
  | v x => cases x <;> simp [argFloat] at h; rw [h]
  | _ => simp [argFloat] at h


theorem strDeclLen_ok_c10 (v L a L') (h : strDeclLen v L a = .ok L') :
    L'.minLen = L.minLen ∧ L'.maxLen = L.maxLen ∧ ∃ n, L'.len = some n ∧ ∀ s, v = some s → (s.length : Int) = n := by
  unfold strDeclLen at h; grind
theorem strDeclMin_ok_c10 (v L a L') (h : strDeclMin v L a = .ok L') :
    L'.len = L.len ∧ L'.maxLen = L.maxLen ∧ ∃ n, L'.minLen = some n ∧ ∀ s, v = some s → n ≤ (s.length : Int) := by
  unfold strDeclMin at h; grind
theorem strDeclMax_ok_c10 (v L a L') (h : strDeclMax v L a = .ok L') :
    L'.len = L.len ∧ L'.minLen = L.minLen ∧ ∃ n, L'.maxLen = some n ∧ ∀ s, v = some s → (s.length : Int) ≤ n := by
  unfold strDeclMax at h; grind

theorem strLenDispatch_ok (v : Option Str) (L : LenP) (a b : Arg) (L' : LenP) (hL : L.anySet = false)
    (h : declLenDispatch (strDeclLen v) (strDeclMin v) (strDeclMax v) L a b = .ok L') :
    ∀ s, v = some s → LenOK L' s.length := by
  have hL' : L.len = none ∧ L.minLen = none ∧ L.maxLen = none := by
    simp [LenP.anySet] at hL; exact ⟨hL.1.1, hL.1.2, hL.2⟩
  unfold declLenDispatch at h
  intro s hs
  split at h
  · have := strDeclMax_ok_c10 _ _ _ _ h; grind [LenOK]
  · split at h
    · have := strDeclLen_ok_c10 _ _ _ _ h; grind [LenOK]
    · split at h
      · have := strDeclMin_ok_c10 _ _ _ _ h; grind [LenOK]
      · obtain ⟨L1, h1, h2⟩ := bind_ok _ _ _ h
        have := strDeclMin_ok_c10 _ _ _ _ h1
        have := strDeclMax_ok_c10 _ _ _ _ h2
        grind [LenOK]


/-- a fresh scalar of every type is self-consistent -/
theorem fresh_selfConsistent (env : Env) :
    SelfConsistent env .none ∧ SelfConsistent env (.bool none) ∧ SelfConsistent env (.int none none none) ∧
    SelfConsistent env (.float none none none none none none) ∧ SelfConsistent env (.str none {} none none none) ∧
    SelfConsistent env (.bytes none) ∧ SelfConsistent env (.uuid4 none) ∧ SelfConsistent env (.datetime none) ∧
    SelfConsistent env (.date none) := by
  refine ⟨?_, ?_, ?_, ?_, ?_, ?_, ?_, ?_, ?_⟩ <;> intro v hv <;> simp [ScalarS.fixed] at hv

/-- **C10 (self-consistency).** Every successful refinement of a self-consistent scalar schema is
    self-consistent: declaration rejects every constraint that contradicts an already fixed value. -/
theorem decl_preserves_selfConsistent (env : Env) (k k' : ScalarS) (op : Op)
    (hc : SelfConsistent env k) (hr : RegexFactOK env k op) (hn : OpNoNaN op)
    (h : declScalar k op = .ok k') : SelfConsistent env k' := by
  cases hm : methodExists (.scalar k) op with
  | false => rw [declScalar_noMethod k op hm] at h; cases h
  | true =>
    cases k <;> cases op <;> simp [methodExists] at hm
    case bool.call v a =>
      rw [declScalar_bool_call] at h
      simp only [SelfConsistent, validateScalar_nil_iff] at hc ⊢
      intro w hw
      grind [ScalarS.fixed, ConformsScalar]
    case int.call v mn mx a =>
      rw [declScalar_int_call] at h
      simp only [SelfConsistent, validateScalar_nil_iff] at hc ⊢
      intro w hw
      grind [ScalarS.fixed, ConformsScalar, asInt]
    case int.min v mn mx a =>
      rw [declScalar_int_min] at h
      simp only [SelfConsistent, validateScalar_nil_iff] at hc ⊢
      intro w hw
      grind [ScalarS.fixed, ConformsScalar, asInt]
    case int.max v mn mx a =>
      rw [declScalar_int_max] at h
      simp only [SelfConsistent, validateScalar_nil_iff] at hc ⊢
      intro w hw
      grind [ScalarS.fixed, ConformsScalar, asInt]
    case bytes.call v a =>
      rw [declScalar_bytes_call] at h
      simp only [SelfConsistent, validateScalar_nil_iff] at hc ⊢
      intro w hw
      grind [ScalarS.fixed, ConformsScalar]
    case uuid4.call v a =>
      rw [declScalar_uuid4_call] at h
      simp only [SelfConsistent, validateScalar_nil_iff] at hc ⊢
      intro w hw
      grind [ScalarS.fixed, ConformsScalar]
    case datetime.call v a =>
      rw [declScalar_datetime_call] at h
      simp only [SelfConsistent, validateScalar_nil_iff] at hc ⊢
      intro w hw
      grind [ScalarS.fixed, ConformsScalar]
    case date.call v a =>
      rw [declScalar_date_call] at h
      simp only [SelfConsistent, validateScalar_nil_iff] at hc ⊢
      intro w hw
      grind [ScalarS.fixed, ConformsScalar]
    case float.call v mn mx p d1 d2 a =>
      rw [declScalar_float_call] at h
      simp only [SelfConsistent, validateScalar_nil_iff] at hc ⊢
      intro w hw
      cases ha : argFloat a with
      | none => simp [ha] at h
      | some f =>
        have := argFloat_eq a f ha
        subst this
        have hf : f ≠ .nan := by intro hf; subst hf; exact hn
        have := floatValueOk_self_c10 env f p hf
        grind [ScalarS.fixed, ConformsScalar]
    case float.min v mn mx p d1 d2 a =>
      rw [declScalar_float_min] at h
      simp only [SelfConsistent, validateScalar_nil_iff] at hc ⊢
      intro w hw
      grind [ScalarS.fixed, ConformsScalar]
    case float.max v mn mx p d1 d2 a =>
      rw [declScalar_float_max] at h
      simp only [SelfConsistent, validateScalar_nil_iff] at hc ⊢
      intro w hw
      grind [ScalarS.fixed, ConformsScalar, PyFloat.ge]
    case float.precision v mn mx p d1 d2 a =>
      rw [declScalar_float_precision] at h
      simp only [SelfConsistent, validateScalar_nil_iff] at hc ⊢
      intro w hw
      have := floatValueOk_self_ne_nan env
      have := floatValueOk_self_c10 env
      grind [ScalarS.fixed, ConformsScalar]
    case str.call v L al sub pat a =>
      rw [declScalar_str_call] at h
      simp only [SelfConsistent, validateScalar_nil_iff] at hc ⊢
      intro w hw
      grind [ScalarS.fixed, ConformsScalar, LenOK, LenP.anySet]
    case str.alphabet v L al sub pat a =>
      rw [declScalar_str_alphabet] at h
      simp only [SelfConsistent, validateScalar_nil_iff] at hc ⊢
      intro w hw
      grind [ScalarS.fixed, ConformsScalar]
    case str.contains v L al sub pat a =>
      rw [declScalar_str_contains] at h
      simp only [SelfConsistent, validateScalar_nil_iff] at hc ⊢
      intro w hw
      grind [ScalarS.fixed, ConformsScalar, isInfixB]
    case str.regex v L al sub pat a =>
      rw [declScalar_str_regex] at h
      simp only [SelfConsistent, validateScalar_nil_iff] at hc ⊢
      intro w hw
      grind [ScalarS.fixed, ConformsScalar, RegexFactOK]
    case str.len v L al sub pat a b =>
      rw [declScalar_str_len] at h
      split at h
      · cases h
      · rename_i hg
        simp at hg
        obtain ⟨L', h1, h2⟩ := bind_ok _ _ _ h
        have hlen := strLenDispatch_ok v L a b L' hg.1 h1
        simp [pure, Except.pure] at h2
        subst h2
        simp only [SelfConsistent, validateScalar_nil_iff] at hc ⊢
        intro w hw
        cases v with
        | none => simp [ScalarS.fixed] at hw
        | some s =>
          simp [ScalarS.fixed] at hw
          subst hw
          have hc' := hc (.str s) (by simp [ScalarS.fixed])
          have hl := hlen s rfl
          simp only [ConformsScalar] at hc' ⊢
          obtain ⟨s', hs', h1', _, h3', h4', h5'⟩ := hc'
          cases hs'
          exact ⟨s, rfl, h1', hl, h3', h4', h5'⟩

/-- K6 witness: without `OpNoNaN` the statement is false -/
theorem selfConsistent_nan_counterexample (env : Env) :
    ∃ k', declScalar (.float none none none none none none) (.call (.v (.float .nan))) = .ok k' ∧ ¬ SelfConsistent env k' := by
  refine ⟨.float (some .nan) none none none none none, rfl, ?_⟩
  intro hc
  have := hc (.float .nan) rfl
  simp [validateScalar, floatValueOk, isclose, PyFloat.eq] at this

end D42
