/-
  C06 (containers) — replaying, bottom-up, the calls that `repr` prints rebuilds exactly the schema:
  `schema.list(<type>)`, `schema.list([<elements with ... markers>])`, `.len(...)`, `schema.dict({...})`
  with `optional(key)` and the `...: ...` entry at its position, `schema.any(<alternatives>)`.
-/
import D42.Props.C06

namespace D42

/-- the element-list argument printed for `lead / elems / trail` -/
def elemArgs (lead : Bool) (es : List Schema) (trail : Bool) : List ElemArg :=
  (if lead then [ElemArg.ell] else []) ++ es.map ElemArg.sch ++ (if trail then [ElemArg.ell] else [])

/-- the key table printed for a dict: declared keys in order, `...: ...` at its recorded position -/
def keyArgs (fs : List (PyKey × Bool × Schema)) (ell : Option Nat) : List (KeyArg × ElemArg) :=
  let pairs := fs.map (fun f => (KeyArg.key f.1 f.2.1, ElemArg.sch f.2.2))
  match ell with
  | some p => insertAt pairs p (KeyArg.ell, ElemArg.ell)
  | none => pairs

mutual
/-- evaluate, bottom-up, the calls `repr` prints for a schema (aliases and custom types are outside the
    property and are returned as they are) -/
def rebuild : Schema → Except PyExc Schema
  | .scalar k => (runScalar (freshOf k) (scalarCalls k)).map Schema.scalar
  | .listU L => Decl.run (.listU {}) (lenCall L)
  | .listT t L => do let t' ← rebuild t; Decl.run (.listU {}) (.call (.sch t') :: lenCall L)
  | .listE lead es trail L => do
      let es' ← rebuildL es
      Decl.run (.listU {}) (.call (.elems (elemArgs lead es' trail)) :: lenCall L)
  | .dict none e => .ok (.dict none e)
  | .dict (some fs) ell => do
      let fs' ← rebuildF fs
      Decl.apply (.dict none none) (.call (.keys (keyArgs fs' ell)))
  | .any none => .ok (.any none)
  | .any (some ts) => do
      let ts' ← rebuildL ts
      Decl.apply (.any none) (.anyCall (ts'.map Arg.sch))
  | .alias n t => .ok (.alias n t)
  | .custom t => .ok (.custom t)
def rebuildL : List Schema → Except PyExc (List Schema)
  | [] => .ok []
  | s :: ss => do let a ← rebuild s; let b ← rebuildL ss; pure (a :: b)
def rebuildF : List (PyKey × Bool × Schema) → Except PyExc (List (PyKey × Bool × Schema))
  | [] => .ok []
  | (k, o, s) :: fs => do let a ← rebuild s; let b ← rebuildF fs; pure ((k, o, a) :: b)
end

mutual
/-- schemas the declaration DSL builds: each node is the result of SOME sequence of declaration calls on
    its fresh type (`schema.list`, `schema.dict`, `schema.any`, a scalar type), and so, recursively, are the
    schemas nested in it.  Aliases and custom types are outside the property. -/
def Declarable : Schema → Prop
  | .scalar k => ∃ ops, runScalar (freshOf k) ops = .ok k
  | .listU L => ∃ ops, Decl.run (.listU {}) ops = .ok (.listU L)
  | .listT t L => Declarable t ∧ ∃ ops, Decl.run (.listU {}) ops = .ok (.listT t L)
  | .listE lead es trail L => DeclarableL es ∧ ∃ ops, Decl.run (.listU {}) ops = .ok (.listE lead es trail L)
  | .dict none e => ∃ ops, Decl.run (.dict none none) ops = .ok (.dict none e)
  | .dict (some fs) ell => DeclarableF fs ∧ ∃ ops, Decl.run (.dict none none) ops = .ok (.dict (some fs) ell)
  | .any none => True
  | .any (some ts) => DeclarableL ts ∧ ∃ ops, Decl.run (.any none) ops = .ok (.any (some ts))
  | .alias _ _ => False
  | .custom _ => False
def DeclarableL : List Schema → Prop
  | [] => True
  | s :: ss => Declarable s ∧ DeclarableL ss
def DeclarableF : List (PyKey × Bool × Schema) → Prop
  | [] => True
  | (_, _, s) :: fs => Declarable s ∧ DeclarableF fs
end

/-! ### helper lemmas: `len` -/


abbrev hC06C_disp (el : Option (Nat × Bool)) (L : LenP) (a b : Arg) : Except PyExc LenP :=
  declLenDispatch (listDeclLen el) (listDeclMin el) (listDeclMax el) L a b

theorem hC06C_dl_ok (el : Option (Nat × Bool)) (L L' : LenP) (a : Arg) (h : listDeclLen el L a = .ok L') :
    ∃ n, L' = { L with len := some n } ∧ listDeclLen el L (.v (.int n)) = .ok L' := by
  cases ha : argInt a with
  | none => simp [listDeclLen, ha] at h
  | some n =>
    refine ⟨n, ?_, ?_⟩
    · unfold listDeclLen at h
      simp only [ha] at h
      repeat' split at h
      all_goals (try (simp at h; done))
      all_goals (simp at h; exact h.symm)
    · have h0 : argInt (.v (.int n)) = some n := rfl
      rw [← h]; unfold listDeclLen; rw [ha, h0]

theorem hC06C_dmin_ok (el : Option (Nat × Bool)) (L L' : LenP) (a : Arg) (h : listDeclMin el L a = .ok L') :
    ∃ n, L' = { L with minLen := some n } ∧ listDeclMin el L (.v (.int n)) = .ok L' := by
  cases ha : argInt a with
  | none => simp [listDeclMin, ha] at h
  | some n =>
    refine ⟨n, ?_, ?_⟩
    · unfold listDeclMin at h
      simp only [ha] at h
      repeat' split at h
      all_goals (try (simp at h; done))
      all_goals (simp at h; exact h.symm)
    · have h0 : argInt (.v (.int n)) = some n := rfl
      rw [← h]; unfold listDeclMin; rw [ha, h0]

theorem hC06C_dmax_ok (el : Option (Nat × Bool)) (L L' : LenP) (a : Arg) (h : listDeclMax el L a = .ok L') :
    ∃ n, L' = { L with maxLen := some n } ∧ listDeclMax el L (.v (.int n)) = .ok L' := by
  cases ha : argInt a with
  | none => simp [listDeclMax, ha] at h
  | some n =>
    refine ⟨n, ?_, ?_⟩
    · unfold listDeclMax at h
      simp only [ha] at h
      repeat' split at h
      all_goals (try (simp at h; done))
      all_goals (simp at h; exact h.symm)
    · have h0 : argInt (.v (.int n)) = some n := rfl
      rw [← h]; unfold listDeclMax; rw [ha, h0]

/-- the length props a list schema can carry: none, or what one `len` call on the bare list accepted -/
def hC06C_LenFrom (el : Option (Nat × Bool)) (L : LenP) : Prop :=
  L = {} ∨ ∃ a b, hC06C_disp el {} a b = .ok L

/-- inversion + replay for `len`: the printed `len` call is accepted and sets the same props -/
theorem hC06C_len_replay (el : Option (Nat × Bool)) (L : LenP) (a b : Arg)
    (h : hC06C_disp el {} a b = .ok L) :
    ∃ a' b', lenCall L = [.len a' b'] ∧ hC06C_disp el {} a' b' = .ok L := by
  unfold hC06C_disp declLenDispatch at h
  split at h
  · obtain ⟨n, rfl, h2⟩ := hC06C_dmax_ok _ _ _ _ h
    refine ⟨.v .ellipsis, .v (.int n), by simp [lenCall], ?_⟩
    simpa [hC06C_disp, declLenDispatch, argIsEllipsis] using h2
  · split at h
    · obtain ⟨n, rfl, h2⟩ := hC06C_dl_ok _ _ _ _ h
      refine ⟨.v (.int n), .nil, by simp [lenCall], ?_⟩
      simpa [hC06C_disp, declLenDispatch, argIsEllipsis] using h2
    · split at h
      · obtain ⟨n, rfl, h2⟩ := hC06C_dmin_ok _ _ _ _ h
        refine ⟨.v (.int n), .v .ellipsis, by simp [lenCall], ?_⟩
        simpa [hC06C_disp, declLenDispatch, argIsEllipsis] using h2
      · cases h1 : listDeclMin el {} a with
        | error e => simp [h1, bind, Except.bind] at h
        | ok L1 =>
          simp only [h1, bind, Except.bind] at h
          obtain ⟨n, rfl, h2⟩ := hC06C_dmin_ok _ _ _ _ h1
          obtain ⟨m, rfl, h3⟩ := hC06C_dmax_ok _ _ _ _ h
          refine ⟨.v (.int n), .v (.int m), by simp [lenCall], ?_⟩
          simp [hC06C_disp, declLenDispatch, argIsEllipsis, h2, bind, Except.bind, h3]

theorem hC06C_run_nil (s : Schema) : Decl.run s [] = .ok s := by simp [Decl.run]

theorem hC06C_run_cons (s : Schema) (op : Op) (ops : List Op) :
    Decl.run s (op :: ops) = (Decl.apply s op >>= fun s' => Decl.run s' ops) := by
  simp [Decl.run]

theorem hC06C_run_cons_ok {s s' : Schema} {op : Op} {ops : List Op} (h : Decl.run s (op :: ops) = .ok s') :
    ∃ s1, Decl.apply s op = .ok s1 ∧ Decl.run s1 ops = .ok s' := by
  rw [hC06C_run_cons] at h
  cases h1 : Decl.apply s op with
  | error e => simp [h1, bind, Except.bind] at h
  | ok s1 => exact ⟨s1, rfl, by simpa [h1, bind, Except.bind] using h⟩

/-- once a length prop is set, a list schema accepts no further call -/
theorem hC06C_listU_final (L : LenP) (hL : L.anySet = true) (ops : List Op) (s : Schema)
    (h : Decl.run (.listU L) ops = .ok s) : s = .listU L := by
  cases ops with
  | nil => simp [Decl.run] at h; exact h.symm
  | cons op ops =>
    obtain ⟨s1, h1, _⟩ := hC06C_run_cons_ok h
    exfalso
    cases op <;> (try (simp [Decl.apply] at h1; done))
    case call a => cases a <;> simp [Decl.apply, hL] at h1
    case len a b => simp [Decl.apply, hL] at h1

theorem hC06C_listT_final (t : Schema) (L : LenP) (hL : L.anySet = true) (ops : List Op) (s : Schema)
    (h : Decl.run (.listT t L) ops = .ok s) : s = .listT t L := by
  cases ops with
  | nil => simp [Decl.run] at h; exact h.symm
  | cons op ops =>
    obtain ⟨s1, h1, _⟩ := hC06C_run_cons_ok h
    exfalso
    cases op <;> (try (simp [Decl.apply] at h1; done))
    case call a => cases a <;> simp [Decl.apply] at h1
    case len a b => simp [Decl.apply, hL] at h1

theorem hC06C_listE_final (lead : Bool) (es : List Schema) (trail : Bool) (L : LenP) (hL : L.anySet = true)
    (ops : List Op) (s : Schema)
    (h : Decl.run (.listE lead es trail L) ops = .ok s) : s = .listE lead es trail L := by
  cases ops with
  | nil => simp [Decl.run] at h; exact h.symm
  | cons op ops =>
    obtain ⟨s1, h1, _⟩ := hC06C_run_cons_ok h
    exfalso
    cases op <;> (try (simp [Decl.apply] at h1; done))
    case len a b => simp [Decl.apply, hL] at h1

theorem hC06C_listT_inv (t : Schema) (ops : List Op) (s : Schema)
    (h : Decl.run (.listT t {}) ops = .ok s) : ∃ L, s = .listT t L ∧ hC06C_LenFrom none L := by
  cases ops with
  | nil => simp [Decl.run] at h; exact ⟨{}, h.symm, .inl rfl⟩
  | cons op ops =>
    obtain ⟨s1, h1, h2⟩ := hC06C_run_cons_ok h
    cases op <;> (try (simp [Decl.apply] at h1; done))
    case call a => cases a <;> simp [Decl.apply] at h1
    case len a b =>
      simp only [Decl.apply] at h1
      split at h1
      · cases h1
      · cases hd : declLenDispatch (listDeclLen none) (listDeclMin none) (listDeclMax none) {} a b with
        | error e => simp [hd, bind, Except.bind] at h1
        | ok L1 =>
          simp [hd, bind, Except.bind, pure, Except.pure] at h1
          subst h1
          have := hC06C_listT_final t L1 (listLen_anySet _ _ _ _ _ hd) ops s h2
          exact ⟨L1, this, .inr ⟨a, b, hd⟩⟩

theorem hC06C_listE_inv (lead : Bool) (es : List Schema) (trail : Bool) (ops : List Op) (s : Schema)
    (h : Decl.run (.listE lead es trail {}) ops = .ok s) :
    ∃ L, s = .listE lead es trail L ∧ hC06C_LenFrom (some (es.length, lead || trail)) L := by
  cases ops with
  | nil => simp [Decl.run] at h; exact ⟨{}, h.symm, .inl rfl⟩
  | cons op ops =>
    obtain ⟨s1, h1, h2⟩ := hC06C_run_cons_ok h
    cases op <;> (try (simp [Decl.apply] at h1; done))
    case len a b =>
      simp only [Decl.apply] at h1
      split at h1
      · cases h1
      · cases hd : declLenDispatch (listDeclLen (some (es.length, lead || trail)))
            (listDeclMin (some (es.length, lead || trail))) (listDeclMax (some (es.length, lead || trail))) {} a b with
        | error e => simp [hd, bind, Except.bind] at h1
        | ok L1 =>
          simp [hd, bind, Except.bind, pure, Except.pure] at h1
          subst h1
          have := hC06C_listE_final lead es trail L1 (listLen_anySet _ _ _ _ _ hd) ops s h2
          exact ⟨L1, this, .inr ⟨a, b, hd⟩⟩

def hC06C_lead (xs : List ElemArg) : Bool := match xs.head? with | some .ell => true | _ => false
def hC06C_trail (xs : List ElemArg) : Bool :=
  decide (xs.length ≥ 2) && (match xs.getLast? with | some .ell => true | _ => false)

theorem hC06C_mkListE_eq (xs : List ElemArg) (L : LenP) :
    mkListE xs L = .listE (hC06C_lead xs) (elemSchemas xs) (hC06C_trail xs) L := rfl

/-- inversion for `schema.list`: every list schema the DSL builds -/
theorem hC06C_listU_inv (ops : List Op) (s : Schema) (h : Decl.run (.listU {}) ops = .ok s) :
    (∃ L, s = .listU L ∧ hC06C_LenFrom none L) ∨
    (∃ t L, s = .listT t L ∧ hC06C_LenFrom none L) ∨
    (∃ xs L, elemsOk xs = true ∧ s = .listE (hC06C_lead xs) (elemSchemas xs) (hC06C_trail xs) L ∧
      hC06C_LenFrom (some ((elemSchemas xs).length, hC06C_lead xs || hC06C_trail xs)) L) := by
  cases ops with
  | nil => simp [Decl.run] at h; exact .inl ⟨{}, h.symm, .inl rfl⟩
  | cons op ops =>
    obtain ⟨s1, h1, h2⟩ := hC06C_run_cons_ok h
    cases op <;> (try (simp [Decl.apply] at h1; done))
    case call a =>
      cases a <;> (try (simp [Decl.apply] at h1; done))
      case sch t =>
        simp [Decl.apply, LenP.anySet] at h1
        subst h1
        obtain ⟨L, hs, hL⟩ := hC06C_listT_inv t ops s h2
        exact .inr (.inl ⟨t, L, hs, hL⟩)
      case elems xs =>
        simp only [Decl.apply] at h1
        split at h1
        · cases h1
        · split at h1
          · rename_i hok
            simp at h1
            subst h1
            rw [hC06C_mkListE_eq] at h2
            obtain ⟨L, hs, hL⟩ := hC06C_listE_inv _ _ _ ops s h2
            exact .inr (.inr ⟨xs, L, hok, hs, hL⟩)
          · cases h1
    case len a b =>
      simp only [Decl.apply] at h1
      split at h1
      · cases h1
      · cases hd : declLenDispatch (listDeclLen none) (listDeclMin none) (listDeclMax none) {} a b with
        | error e => simp [hd, bind, Except.bind] at h1
        | ok L1 =>
          simp [hd, bind, Except.bind, pure, Except.pure] at h1
          subst h1
          have := hC06C_listU_final L1 (listLen_anySet _ _ _ _ _ hd) ops s h2
          exact .inl ⟨L1, this, .inr ⟨a, b, hd⟩⟩


theorem hC06C_lenCall_empty : lenCall {} = [] := rfl

theorem hC06C_listU_replay (L : LenP) (h : hC06C_LenFrom none L) :
    Decl.run (.listU {}) (lenCall L) = .ok (.listU L) := by
  rcases h with rfl | ⟨a, b, h⟩
  · simp [hC06C_lenCall_empty, Decl.run]
  · obtain ⟨a', b', hc, hd⟩ := hC06C_len_replay _ _ _ _ h
    unfold hC06C_disp at hd
    simp [hc, Decl.run, Decl.apply, LenP.anySet, hd, bind, Except.bind, pure, Except.pure]

theorem hC06C_listT_replay (t : Schema) (L : LenP) (h : hC06C_LenFrom none L) :
    Decl.run (.listT t {}) (lenCall L) = .ok (.listT t L) := by
  rcases h with rfl | ⟨a, b, h⟩
  · simp [hC06C_lenCall_empty, Decl.run]
  · obtain ⟨a', b', hc, hd⟩ := hC06C_len_replay _ _ _ _ h
    unfold hC06C_disp at hd
    simp [hc, Decl.run, Decl.apply, LenP.anySet, hd, bind, Except.bind, pure, Except.pure]

theorem hC06C_listE_replay (lead : Bool) (es : List Schema) (trail : Bool) (L : LenP)
    (h : hC06C_LenFrom (some (es.length, lead || trail)) L) :
    Decl.run (.listE lead es trail {}) (lenCall L) = .ok (.listE lead es trail L) := by
  rcases h with rfl | ⟨a, b, h⟩
  · simp [hC06C_lenCall_empty, Decl.run]
  · obtain ⟨a', b', hc, hd⟩ := hC06C_len_replay _ _ _ _ h
    unfold hC06C_disp at hd
    simp [hc, Decl.run, Decl.apply, LenP.anySet, hd, bind, Except.bind, pure, Except.pure]


/-! ### helper lemmas: element lists -/

theorem hC06C_elemsOk_iff (xs : List ElemArg) : elemsOk xs = true ↔
    (∀ x ∈ xs, x ≠ .bad) ∧ (∀ i, xs[i]? = some .ell → i = 0 ∨ i + 1 = xs.length) ∧ xs ≠ [.ell, .ell] := by
  unfold elemsOk
  simp only [Bool.and_eq_true, Bool.not_eq_true', List.any_eq_false, List.all_eq_true, List.mem_range]
  constructor
  · rintro ⟨⟨h1, h2⟩, h3⟩
    refine ⟨?_, ?_, ?_⟩
    · intro x hx hb; subst hb; exact h1 _ hx rfl
    · intro i hi
      have hlt : i < xs.length := by
        rcases Nat.lt_or_ge i xs.length with h | h
        · exact h
        · rw [List.getElem?_eq_none h] at hi; cases hi
      have := h2 i hlt
      rw [hi] at this
      simpa using this
    · rintro rfl; simp at h3
  · rintro ⟨h1, h2, h3⟩
    refine ⟨⟨?_, ?_⟩, ?_⟩
    · intro x hx; cases x <;> simp
      exact h1 _ hx rfl
    · intro i hi
      split
      · rename_i he; simpa using h2 i he
      · rfl
    · match xs, h3 with
      | [], _ => simp
      | [_], _ => simp
      | [.ell, .ell], h3 => exact absurd rfl h3
      | [.sch _, _], _ => simp
      | [.bad, _], _ => simp
      | [.ell, .sch _], _ => simp
      | [.ell, .bad], _ => simp
      | _ :: _ :: _ :: _, _ => simp

theorem hC06C_all_ell : ∀ (xs : List ElemArg), (∀ x ∈ xs, x ≠ .bad) → elemSchemas xs = [] → ∀ x ∈ xs, x = .ell
  | [], _, _ => by simp
  | .ell :: r, h1, h2 => by
    have ih := hC06C_all_ell r (fun x hx => h1 x (List.mem_cons_of_mem _ hx)) (by simpa [elemSchemas] using h2)
    intro x hx
    rcases List.mem_cons.1 hx with rfl | hx
    · rfl
    · exact ih x hx
  | .sch s :: r, _, h2 => by simp [elemSchemas] at h2
  | .bad :: r, h1, _ => absurd rfl (h1 .bad (List.mem_cons_self))

/-- inversion for the element list: a trailing `...` is only recorded after at least one element -/
theorem hC06C_elems_inv (xs : List ElemArg) (hok : elemsOk xs = true) (ht : hC06C_trail xs = true) :
    elemSchemas xs ≠ [] := by
  obtain ⟨h1, h2, h3⟩ := (hC06C_elemsOk_iff xs).1 hok
  intro he
  have hall := hC06C_all_ell xs h1 he
  match xs, h2, h3, hall, ht with
  | [], _, _, _, ht => simp [hC06C_trail] at ht
  | [_], _, _, _, ht => simp [hC06C_trail] at ht
  | [x, y], _, h3, hall, _ =>
    have hx := hall x (by simp)
    have hy := hall y (by simp)
    subst hx hy
    exact h3 rfl
  | x :: y :: z :: r, h2, _, hall, _ =>
    have hy := hall y (by simp)
    subst hy
    have := h2 1 (by simp)
    simp at this

theorem hC06C_elemSchemas_append : ∀ (a b : List ElemArg), elemSchemas (a ++ b) = elemSchemas a ++ elemSchemas b
  | [], b => by simp [elemSchemas]
  | .ell :: a, b => by simp [elemSchemas, hC06C_elemSchemas_append a b]
  | .sch s :: a, b => by simp [elemSchemas, hC06C_elemSchemas_append a b]
  | .bad :: a, b => by simp [elemSchemas, hC06C_elemSchemas_append a b]

theorem hC06C_elemSchemas_map : ∀ (es : List Schema), elemSchemas (es.map ElemArg.sch) = es
  | [] => by simp [elemSchemas]
  | s :: es => by simp [elemSchemas, hC06C_elemSchemas_map es]

theorem hC06C_elemArgs_schemas (lead : Bool) (es : List Schema) (trail : Bool) :
    elemSchemas (elemArgs lead es trail) = es := by
  cases lead <;> cases trail <;>
    simp [elemArgs, hC06C_elemSchemas_append, hC06C_elemSchemas_map, elemSchemas]

theorem hC06C_elemArgs_lead (lead : Bool) (es : List Schema) (trail : Bool) (h : trail = true → es ≠ []) :
    hC06C_lead (elemArgs lead es trail) = lead := by
  cases lead
  · cases es with
    | nil =>
      cases trail
      · simp [elemArgs, hC06C_lead]
      · exact absurd rfl (h rfl)
    | cons e es => simp [elemArgs, hC06C_lead]
  · simp [elemArgs, hC06C_lead]

theorem hC06C_getLast_ell (a : List ElemArg) : (a ++ [ElemArg.ell]).getLast? = some .ell := by simp

theorem hC06C_getLast_sch (a : List ElemArg) (e : Schema) : (a ++ [ElemArg.sch e]).getLast? = some (.sch e) := by simp

theorem hC06C_elemArgs_trail (lead : Bool) (es : List Schema) (trail : Bool) (h : trail = true → es ≠ []) :
    hC06C_trail (elemArgs lead es trail) = trail := by
  cases trail
  · rcases List.eq_nil_or_concat es with rfl | ⟨es', e, rfl⟩
    · cases lead <;> simp [elemArgs, hC06C_trail]
    · have : elemArgs lead (es'.concat e) false = ((if lead then [ElemArg.ell] else []) ++ es'.map ElemArg.sch) ++ [ElemArg.sch e] := by
        simp [elemArgs]
      rw [hC06C_trail, this, hC06C_getLast_sch]; simp
  · have hne := h rfl
    have hlen : 0 < es.length := List.length_pos_iff.2 hne
    have : elemArgs lead es true = ((if lead then [ElemArg.ell] else []) ++ es.map ElemArg.sch) ++ [ElemArg.ell] := by
      simp [elemArgs]
    rw [hC06C_trail, this, hC06C_getLast_ell]
    simp; omega

theorem hC06C_elemArgs_ok (lead : Bool) (es : List Schema) (trail : Bool) (h : trail = true → es ≠ []) :
    elemsOk (elemArgs lead es trail) = true := by
  rw [hC06C_elemsOk_iff]
  refine ⟨?_, ?_, ?_⟩
  · intro x hx
    cases lead <;> cases trail <;> simp [elemArgs] at hx <;> grind
  · intro i hi
    cases lead <;> cases trail <;> simp [elemArgs] at hi ⊢ <;> grind
  · intro he
    have := congrArg elemSchemas he
    rw [hC06C_elemArgs_schemas] at this
    simp [elemSchemas] at this
    subst this
    cases lead <;> cases trail <;> simp [elemArgs] at he
    exact h rfl rfl


/-! ### helper lemmas: dict keys -/

abbrev hC06C_keys (fs : List (PyKey × Bool × Schema)) : List PyKey := fs.map (·.1)

theorem hC06C_hasField_iff (k : PyKey) (fs : List (PyKey × Bool × Schema)) :
    hasField k fs = true ↔ k ∈ hC06C_keys fs := by
  simp [hasField, hC06C_keys]

theorem hC06C_upsert_keys_has (fs : List (PyKey × Bool × Schema)) (k : PyKey) (o : Bool) (s : Schema)
    (h : hasField k fs = true) : hC06C_keys (upsertField fs k o s) = hC06C_keys fs := by
  simp only [upsertField, h, if_true, hC06C_keys, List.map_map]
  apply List.map_congr_left
  intro f _
  simp only [Function.comp]
  split
  · rename_i he; have he' : f.1 = k := by simpa using he
    exact he'.symm
  · rfl

theorem hC06C_upsert_keys_new (fs : List (PyKey × Bool × Schema)) (k : PyKey) (o : Bool) (s : Schema)
    (h : hasField k fs = false) : upsertField fs k o s = fs ++ [(k, o, s)] := by
  simp [upsertField, h]

/-- invariant of `buildKeys`' accumulator -/
def hC06C_KInv (fs : List (PyKey × Bool × Schema)) (ell : Option Nat) (n : Nat) : Prop :=
  (hC06C_keys fs).Nodup ∧ n = fs.length + (if ell.isSome then 1 else 0) ∧ ∀ p, ell = some p → p ≤ fs.length

theorem hC06C_buildKeys_inv : ∀ (kvs : List (KeyArg × ElemArg)) (fs : List (PyKey × Bool × Schema)) (ell : Option Nat) (n : Nat)
    (fs' : List (PyKey × Bool × Schema)) (ell' : Option Nat),
    hC06C_KInv fs ell n → buildKeys kvs fs ell n = .ok (fs', ell') →
    (hC06C_keys fs').Nodup ∧ ∀ p, ell' = some p → p ≤ fs'.length
  | [], fs, ell, n, fs', ell', hi, h => by
    simp [buildKeys] at h
    obtain ⟨rfl, rfl⟩ := h
    exact ⟨hi.1, hi.2.2⟩
  | (.ell, .ell) :: r, fs, ell, n, fs', ell', hi, h => by
    simp only [buildKeys] at h
    refine hC06C_buildKeys_inv r fs _ _ fs' ell' ?_ h
    obtain ⟨h1, h2, h3⟩ := hi
    cases ell with
    | none => exact ⟨h1, by simp at h2; simp [h2], by intro p hp; simp at h2 hp; omega⟩
    | some q => exact ⟨h1, by simpa using h2, h3⟩
  | (.ell, .sch _) :: _, _, _, _, _, _, _, h => by simp [buildKeys] at h
  | (.ell, .bad) :: _, _, _, _, _, _, _, h => by simp [buildKeys] at h
  | (.key _ _, .ell) :: _, _, _, _, _, _, _, h => by simp [buildKeys] at h
  | (.key _ _, .bad) :: _, _, _, _, _, _, _, h => by simp [buildKeys] at h
  | (.key k o, .sch s) :: r, fs, ell, n, fs', ell', hi, h => by
    simp only [buildKeys] at h
    refine hC06C_buildKeys_inv r _ _ _ fs' ell' ?_ h
    obtain ⟨h1, h2, h3⟩ := hi
    cases hf : hasField k fs with
    | true =>
      refine ⟨by rw [hC06C_upsert_keys_has _ _ _ _ hf]; exact h1, ?_, ?_⟩
      · have : (upsertField fs k o s).length = fs.length := by
          have := congrArg List.length (hC06C_upsert_keys_has fs k o s hf)
          simpa [hC06C_keys] using this
        simp [this, h2]
      · have : (upsertField fs k o s).length = fs.length := by
          have := congrArg List.length (hC06C_upsert_keys_has fs k o s hf)
          simpa [hC06C_keys] using this
        rw [this]; exact h3
    | false =>
      rw [hC06C_upsert_keys_new _ _ _ _ hf]
      have hk : k ∉ hC06C_keys fs := by
        intro hm; rw [← hC06C_hasField_iff] at hm; rw [hm] at hf; cases hf
      refine ⟨?_, ?_, ?_⟩
      · simp only [hC06C_keys, List.map_append, List.map_cons, List.map_nil]
        rw [List.nodup_append]
        refine ⟨h1, by simp, ?_⟩
        intro a ha b hb
        simp at hb; subst hb
        intro hab; subst hab; exact hk ha
      · simp [h2]; omega
      · intro p hp; have := h3 p hp; simp; omega

abbrev hC06C_pair (f : PyKey × Bool × Schema) : KeyArg × ElemArg := (KeyArg.key f.1 f.2.1, ElemArg.sch f.2.2)

theorem hC06C_buildKeys_map : ∀ (fs : List (PyKey × Bool × Schema)) (rest : List (KeyArg × ElemArg))
    (acc : List (PyKey × Bool × Schema)) (ell : Option Nat) (n : Nat),
    (hC06C_keys (acc ++ fs)).Nodup →
    buildKeys (fs.map hC06C_pair ++ rest) acc ell n = buildKeys rest (acc ++ fs) ell (n + fs.length)
  | [], rest, acc, ell, n, _ => by simp
  | (k, o, s) :: fs, rest, acc, ell, n, hnd => by
    have hf : hasField k acc = false := by
      cases hf : hasField k acc with
      | false => rfl
      | true =>
        exfalso
        rw [hC06C_hasField_iff] at hf
        simp only [hC06C_keys, List.map_append, List.map_cons] at hnd hf
        rw [List.nodup_append] at hnd
        exact hnd.2.2 k hf k (by simp) rfl
    have hnd' : (hC06C_keys ((acc ++ [(k, o, s)]) ++ fs)).Nodup := by simpa using hnd
    have ih := hC06C_buildKeys_map fs rest (acc ++ [(k, o, s)]) ell (n + 1) hnd'
    simp only [List.map_cons, List.cons_append, hC06C_pair, buildKeys, hf, hC06C_upsert_keys_new _ _ _ _ hf]
    rw [show (if false = true then n else n + 1) = n + 1 from rfl, ih]
    simp only [List.append_assoc, List.singleton_append, List.length_cons]
    congr 1; omega

theorem hC06C_keys_replay (fs : List (PyKey × Bool × Schema)) (ell : Option Nat)
    (hnd : (hC06C_keys fs).Nodup) (hp : ∀ p, ell = some p → p ≤ fs.length) :
    buildKeys (keyArgs fs ell) [] none 0 = .ok (fs, ell) := by
  cases ell with
  | none =>
    have := hC06C_buildKeys_map fs [] [] none 0 (by simpa using hnd)
    simp only [List.append_nil, List.nil_append] at this
    simp only [keyArgs]
    rw [show (fs.map fun f => (KeyArg.key f.1 f.2.1, ElemArg.sch f.2.2)) = fs.map hC06C_pair from rfl, this]
    simp [buildKeys]
  | some p =>
    have hp := hp p rfl
    have h1 : keyArgs fs (some p) = (fs.take p).map hC06C_pair ++ ((KeyArg.ell, ElemArg.ell) :: (fs.drop p).map hC06C_pair ++ []) := by
      simp [keyArgs, insertAt, List.map_take, List.map_drop]
    have hnd1 : (hC06C_keys ([] ++ fs.take p)).Nodup := by
      simp only [List.nil_append, hC06C_keys]
      exact hnd.sublist ((List.take_sublist p fs).map _)
    have hnd2 : (hC06C_keys (fs.take p ++ fs.drop p)).Nodup := by simpa using hnd
    rw [h1, hC06C_buildKeys_map _ _ _ _ _ hnd1]
    simp only [List.nil_append, List.cons_append, buildKeys]
    rw [hC06C_buildKeys_map _ _ _ _ _ hnd2]
    simp [buildKeys, List.length_take, Nat.min_eq_left hp]


/-! ### helper lemmas: dict / any inversion -/

theorem hC06C_dictSome_final (fs : List (PyKey × Bool × Schema)) (e : Option Nat) (ops : List Op) (s : Schema)
    (h : Decl.run (.dict (some fs) e) ops = .ok s) : s = .dict (some fs) e := by
  cases ops with
  | nil => simp [Decl.run] at h; exact h.symm
  | cons op ops =>
    obtain ⟨s1, h1, _⟩ := hC06C_run_cons_ok h
    exfalso
    cases op <;> simp [Decl.apply] at h1

theorem hC06C_dict_inv (ops : List Op) (s : Schema) (h : Decl.run (.dict none none) ops = .ok s) :
    s = .dict none none ∨ ∃ kvs fs ell, buildKeys kvs [] none 0 = .ok (fs, ell) ∧ s = .dict (some fs) ell := by
  cases ops with
  | nil => simp [Decl.run] at h; exact .inl h.symm
  | cons op ops =>
    obtain ⟨s1, h1, h2⟩ := hC06C_run_cons_ok h
    cases op <;> (try (simp [Decl.apply] at h1; done))
    case call a =>
      cases a <;> (try (simp [Decl.apply] at h1; done))
      case keys kvs =>
        simp only [Decl.apply] at h1
        cases hb : buildKeys kvs [] none 0 with
        | error e => simp [hb, bind, Except.bind] at h1
        | ok r =>
          obtain ⟨fs, ell⟩ := r
          simp [hb, bind, Except.bind, pure, Except.pure] at h1
          subst h1
          exact .inr ⟨kvs, fs, ell, hb, hC06C_dictSome_final _ _ _ _ h2⟩

theorem hC06C_flatten_append : ∀ (a b : List Schema), flattenAny (a ++ b) = flattenAny a ++ flattenAny b := by
  intro a b
  induction a with
  | nil => simp [flattenAny]
  | cons x a ih =>
    cases x with
    | any ts => cases ts <;> simp [flattenAny, ih]
    | _ => simp [flattenAny, ih]

theorem hC06C_flatten_idem (l : List Schema) : flattenAny (flattenAny l) = flattenAny l := by
  induction l using flattenAny.induct with
  | case1 => simp [flattenAny]
  | case2 ts r ih1 ih2 => simp [flattenAny, hC06C_flatten_append, ih1, ih2]
  | case3 s r hne ih =>
    rw [flattenAny]
    · cases s with
      | any ts =>
        cases ts with
        | none => simp [flattenAny, ih]
        | some ts => exact absurd rfl (hne ts)
      | _ => simp [flattenAny, ih]
    · exact hne

theorem hC06C_anySome_final (ts : List Schema) (ops : List Op) (s : Schema)
    (h : Decl.run (.any (some ts)) ops = .ok s) : s = .any (some ts) := by
  cases ops with
  | nil => simp [Decl.run] at h; exact h.symm
  | cons op ops =>
    obtain ⟨s1, h1, _⟩ := hC06C_run_cons_ok h
    exfalso
    cases op <;> (try (simp [Decl.apply] at h1; done))
    case anyCall as =>
      simp only [Decl.apply] at h1
      split at h1
      · cases h1
      · split at h1
        · cases h1
        · simp at h1

theorem hC06C_any_inv (ops : List Op) (s : Schema) (h : Decl.run (.any none) ops = .ok s) :
    s = .any none ∨ ∃ ss, s = .any (some (flattenAny ss)) := by
  cases ops with
  | nil => simp [Decl.run] at h; exact .inl h.symm
  | cons op ops =>
    obtain ⟨s1, h1, h2⟩ := hC06C_run_cons_ok h
    cases op <;> (try (simp [Decl.apply] at h1; done))
    case anyCall as =>
      simp only [Decl.apply] at h1
      split at h1
      · cases h1
      · split at h1
        · cases h1
        · simp at h1
          subst h1
          exact .inr ⟨_, hC06C_anySome_final _ _ _ h2⟩

theorem hC06C_allSch_map : ∀ (ts : List Schema), allSch (ts.map Arg.sch) = some ts
  | [] => rfl
  | t :: ts => by simp [allSch, hC06C_allSch_map ts]

theorem hC06C_any_replay (ts : List Schema) (hne : ts ≠ []) (hfl : flattenAny ts = ts) :
    Decl.apply (.any none) (.anyCall (ts.map Arg.sch)) = .ok (.any (some ts)) := by
  simp [Decl.apply, hC06C_allSch_map, hne, hfl]

/-! ### main theorems -/

mutual
/-- no union with an EMPTY list of alternatives occurs in the schema (such a node cannot be printed as a
    call `schema.any(...)` that Python accepts: `schema.any()` is a TypeError) -/
def hC06C_NoEmptyAny : Schema → Prop
  | .scalar _ => True
  | .listU _ => True
  | .listT t _ => hC06C_NoEmptyAny t
  | .listE _ es _ _ => hC06C_NoEmptyAnyL es
  | .dict none _ => True
  | .dict (some fs) _ => hC06C_NoEmptyAnyF fs
  | .any none => True
  | .any (some ts) => ts ≠ [] ∧ hC06C_NoEmptyAnyL ts
  | .alias _ _ => True
  | .custom _ => True
def hC06C_NoEmptyAnyL : List Schema → Prop
  | [] => True
  | s :: ss => hC06C_NoEmptyAny s ∧ hC06C_NoEmptyAnyL ss
def hC06C_NoEmptyAnyF : List (PyKey × Bool × Schema) → Prop
  | [] => True
  | (_, _, s) :: fs => hC06C_NoEmptyAny s ∧ hC06C_NoEmptyAnyF fs
end

theorem hC06C_bind_ok {α β} (a : α) (f : α → Except PyExc β) : ((Except.ok a : Except PyExc α) >>= f) = f a := rfl

theorem hC06C_bind_eq_ok {α β} {x : Except PyExc α} {f : α → Except PyExc β} {b : β}
    (h : (x >>= f) = .ok b) : ∃ a, x = .ok a ∧ f a = .ok b := by
  cases x with
  | error e => simp [bind, Except.bind] at h
  | ok a => exact ⟨a, rfl, h⟩

mutual
theorem hC06C_rt : ∀ (s : Schema), Declarable s → hC06C_NoEmptyAny s → rebuild s = .ok s
  | .scalar k, h, _ => by
    simp only [Declarable] at h
    obtain ⟨ops, h⟩ := h
    simp [rebuild, repr_scalar_roundtrip k ops h, Except.map]
  | .listU L, h, _ => by
    simp only [Declarable] at h
    obtain ⟨ops, h⟩ := h
    rcases hC06C_listU_inv ops _ h with ⟨L', hs, hL⟩ | ⟨t, L', hs, _⟩ | ⟨xs, L', _, hs, _⟩
    · cases hs; simp only [rebuild]; exact hC06C_listU_replay L hL
    · cases hs
    · cases hs
  | .listT t L, h, hn => by
    simp only [Declarable] at h
    obtain ⟨ht, ops, h⟩ := h
    simp only [hC06C_NoEmptyAny] at hn
    have iht := hC06C_rt t ht hn
    rcases hC06C_listU_inv ops _ h with ⟨L', hs, hL⟩ | ⟨t', L', hs, hL⟩ | ⟨xs, L', _, hs, _⟩
    · cases hs
    · cases hs
      simp only [rebuild, iht, hC06C_bind_ok, Decl.run]
      have : Decl.apply (.listU {}) (.call (.sch t)) = .ok (.listT t {}) := by simp [Decl.apply, LenP.anySet]
      rw [this, hC06C_bind_ok]
      exact hC06C_listT_replay t L hL
    · cases hs
  | .listE lead es trail L, h, hn => by
    simp only [Declarable] at h
    obtain ⟨hes, ops, h⟩ := h
    simp only [hC06C_NoEmptyAny] at hn
    have ihes := hC06C_rtL es hes hn
    rcases hC06C_listU_inv ops _ h with ⟨L', hs, hL⟩ | ⟨t', L', hs, hL⟩ | ⟨xs, L', hok, hs, hL⟩
    · cases hs
    · cases hs
    · cases hs
      have htr := hC06C_elems_inv xs hok
      generalize hC06C_lead xs = lead at *
      generalize hC06C_trail xs = trail at *
      generalize elemSchemas xs = es at *
      simp only [rebuild, ihes, hC06C_bind_ok, Decl.run]
      have : Decl.apply (.listU {}) (.call (.elems (elemArgs lead es trail))) = .ok (.listE lead es trail {}) := by
        simp only [Decl.apply, LenP.anySet, hC06C_elemArgs_ok lead es trail htr, hC06C_mkListE_eq,
          hC06C_elemArgs_lead lead es trail htr, hC06C_elemArgs_trail lead es trail htr, hC06C_elemArgs_schemas]
        simp
      rw [this, hC06C_bind_ok]
      exact hC06C_listE_replay lead es trail _ hL
  | .dict none e, h, _ => by simp [rebuild]
  | .dict (some fs) ell, h, hn => by
    simp only [Declarable] at h
    obtain ⟨hfs, ops, h⟩ := h
    simp only [hC06C_NoEmptyAny] at hn
    have ihfs := hC06C_rtF fs hfs hn
    rcases hC06C_dict_inv ops _ h with hs | ⟨kvs, fs', ell', hb, hs⟩
    · cases hs
    · cases hs
      obtain ⟨hnd, hp⟩ := hC06C_buildKeys_inv kvs [] none 0 fs ell ⟨by simp, by simp, by simp⟩ hb
      simp only [rebuild, ihfs, hC06C_bind_ok, Decl.apply, hC06C_keys_replay fs ell hnd hp]
      rfl
  | .any none, _, _ => by simp [rebuild]
  | .any (some ts), h, hn => by
    simp only [Declarable] at h
    obtain ⟨hts, ops, h⟩ := h
    simp only [hC06C_NoEmptyAny] at hn
    have ihts := hC06C_rtL ts hts hn.2
    rcases hC06C_any_inv ops _ h with hs | ⟨ss, hs⟩
    · cases hs
    · have hfl : flattenAny ts = ts := by
        cases hs; exact hC06C_flatten_idem ss
      simp only [rebuild, ihts, hC06C_bind_ok]
      exact hC06C_any_replay ts hn.1 hfl
  | .alias _ _, h, _ => by simp [Declarable] at h
  | .custom _, h, _ => by simp [Declarable] at h
theorem hC06C_rtL : ∀ (ss : List Schema), DeclarableL ss → hC06C_NoEmptyAnyL ss → rebuildL ss = .ok ss
  | [], _, _ => by simp [rebuildL]
  | s :: ss, h, hn => by
    simp only [DeclarableL] at h
    simp only [hC06C_NoEmptyAnyL] at hn
    simp only [rebuildL, hC06C_rt s h.1 hn.1, hC06C_rtL ss h.2 hn.2, hC06C_bind_ok]
    rfl
theorem hC06C_rtF : ∀ (fs : List (PyKey × Bool × Schema)), DeclarableF fs → hC06C_NoEmptyAnyF fs → rebuildF fs = .ok fs
  | [], _, _ => by simp [rebuildF]
  | (k, o, s) :: fs, h, hn => by
    simp only [DeclarableF] at h
    simp only [hC06C_NoEmptyAnyF] at hn
    simp only [rebuildF, hC06C_rt s h.1 hn.1, hC06C_rtF fs h.2 hn.2, hC06C_bind_ok]
    rfl
end

mutual
/-- converse: whenever the printed calls are accepted at all, no empty union occurs in the schema -/
theorem hC06C_nea : ∀ (s s' : Schema), rebuild s = .ok s' → hC06C_NoEmptyAny s
  | .scalar _, _, _ => by simp [hC06C_NoEmptyAny]
  | .listU _, _, _ => by simp [hC06C_NoEmptyAny]
  | .listT t L, s', h => by
    simp only [rebuild] at h
    obtain ⟨t', ht, _⟩ := hC06C_bind_eq_ok h
    simp only [hC06C_NoEmptyAny]
    exact hC06C_nea t t' ht
  | .listE lead es trail L, s', h => by
    simp only [rebuild] at h
    obtain ⟨es', hes, _⟩ := hC06C_bind_eq_ok h
    simp only [hC06C_NoEmptyAny]
    exact (hC06C_neaL es es' hes).1
  | .dict none _, _, _ => by simp [hC06C_NoEmptyAny]
  | .dict (some fs) ell, s', h => by
    simp only [rebuild] at h
    obtain ⟨fs', hfs, _⟩ := hC06C_bind_eq_ok h
    simp only [hC06C_NoEmptyAny]
    exact hC06C_neaF fs fs' hfs
  | .any none, _, _ => by simp [hC06C_NoEmptyAny]
  | .any (some ts), s', h => by
    simp only [rebuild] at h
    obtain ⟨ts', hts, h2⟩ := hC06C_bind_eq_ok h
    obtain ⟨h3, h4⟩ := hC06C_neaL ts ts' hts
    simp only [hC06C_NoEmptyAny]
    refine ⟨?_, h3⟩
    rintro rfl
    simp at h4
    subst h4
    simp [Decl.apply, allSch] at h2
  | .alias _ _, _, _ => by simp [hC06C_NoEmptyAny]
  | .custom _, _, _ => by simp [hC06C_NoEmptyAny]
theorem hC06C_neaL : ∀ (ss ss' : List Schema), rebuildL ss = .ok ss' → hC06C_NoEmptyAnyL ss ∧ ss'.length = ss.length
  | [], ss', h => by
    simp only [rebuildL] at h
    cases h
    simp [hC06C_NoEmptyAnyL]
  | s :: ss, ss', h => by
    simp only [rebuildL] at h
    obtain ⟨a, ha, h1⟩ := hC06C_bind_eq_ok h
    obtain ⟨b, hb, h2⟩ := hC06C_bind_eq_ok h1
    cases h2
    obtain ⟨h3, h4⟩ := hC06C_neaL ss b hb
    simp only [hC06C_NoEmptyAnyL]
    exact ⟨⟨hC06C_nea s a ha, h3⟩, by simp [h4]⟩
theorem hC06C_neaF : ∀ (fs fs' : List (PyKey × Bool × Schema)), rebuildF fs = .ok fs' → hC06C_NoEmptyAnyF fs
  | [], _, _ => by simp [hC06C_NoEmptyAnyF]
  | (k, o, s) :: fs, fs', h => by
    simp only [rebuildF] at h
    obtain ⟨a, ha, h1⟩ := hC06C_bind_eq_ok h
    obtain ⟨b, hb, h2⟩ := hC06C_bind_eq_ok h1
    simp only [hC06C_NoEmptyAnyF]
    exact ⟨hC06C_nea s a ha, hC06C_neaF fs b hb⟩
end

/-! ### theorems to prove -/

/-- `rebuild_roundtrip` is FALSE as originally stated (without `hne`): the node `.any (some [])` is
    `Declarable` in the sense of the specification — `Declarable` lets the ARGUMENTS of the witnessing
    calls be arbitrary, so `schema.any(x)` with `x = .any (some [])` itself flattens to `.any (some [])` —
    but its printed form is `schema.any()`, a call without arguments, which `Decl.apply` (like Python:
    `__call__(self, type, *types)`) rejects with a TypeError. -/
theorem rebuild_roundtrip_counterexample :
    Declarable (.any (some [])) ∧ rebuild (.any (some [])) = .error .typeError ∧
    ¬ (∀ s : Schema, Declarable s → rebuild s = .ok s) := by
  have hd : Declarable (.any (some [])) := by
    simp only [Declarable, DeclarableL, true_and]
    exact ⟨[.anyCall [.sch (.any (some []))]], by simp [Decl.run, Decl.apply, allSch, flattenAny, bind, Except.bind]⟩
  have hr : rebuild (.any (some [])) = .error .typeError := by
    simp [rebuild, rebuildL, Decl.apply, allSch, bind, Except.bind]
  refine ⟨hd, hr, ?_⟩
  intro h
  have := h _ hd
  rw [hr] at this
  cases this

/-- **C06 (containers).** Evaluating the printed calls bottom-up rebuilds exactly the schema, at any
    nesting depth.  CORRECTED: extra hypothesis `hne` (no union node with an empty list of alternatives
    occurs in the schema); see `rebuild_roundtrip_counterexample`. By `hC06C_rebuild_roundtrip_iff` below this is
    the weakest hypothesis that makes the statement true. -/
theorem rebuild_roundtrip (s : Schema) (h : Declarable s) (hne : hC06C_NoEmptyAny s) : rebuild s = .ok s :=
  hC06C_rt s h hne

/-- the extra hypothesis of `rebuild_roundtrip` is necessary and sufficient -/
theorem hC06C_rebuild_roundtrip_iff (s : Schema) (h : Declarable s) : rebuild s = .ok s ↔ hC06C_NoEmptyAny s :=
  ⟨hC06C_nea s s, hC06C_rt s h⟩

/-- uniqueness form, true as originally stated: whatever `rebuild` returns for a declarable schema is
    that schema -/
theorem hC06C_rebuild_ok_eq (s s' : Schema) (h : Declarable s) (hr : rebuild s = .ok s') : s' = s := by
  have := hC06C_rt s h (hC06C_nea s s' hr)
  rw [this] at hr
  cases hr
  rfl

/-- what `rebuild` returns prints the same (determinism of the text through the round trip) -/
theorem rebuild_same_repr (s s' : Schema) (ind : Nat) (h : Declarable s) (hr : rebuild s = .ok s') :
    represent s' ind = represent s ind := by
  rw [hC06C_rebuild_ok_eq s s' h hr]

/-- non-vacuity: `schema.dict({"a": schema.list([schema.int(1), ...]).len(1, ...), ...: ..., optional("b"): schema.any(schema.none, schema.str)})` -/
theorem declarable_example :
    Declarable (.dict (some [(.str [97], false, .listE false [.scalar (.int (some 1) none none)] true { minLen := some 1 }),
                             (.str [98], true, .any (some [.scalar .none, .scalar (.str none {} none none none)]))]) (some 1)) := by
  simp only [Declarable, DeclarableF, DeclarableL, and_true]
  refine ⟨⟨⟨⟨[.call (.v (.int 1))], rfl⟩,
      ⟨[.call (.elems [.sch (.scalar (.int (some 1) none none)), .ell]), .len (.v (.int 1)) (.v .ellipsis)], ?_⟩⟩,
      ⟨⟨⟨[], rfl⟩, ⟨[], rfl⟩⟩, ⟨[.anyCall [.sch (.scalar .none), .sch (.scalar (.str none {} none none none))]], ?_⟩⟩⟩,
    ⟨[.call (.keys [(.key (.str [97]) false, .sch (.listE false [.scalar (.int (some 1) none none)] true { minLen := some 1 })),
        (.ell, .ell),
        (.key (.str [98]) true, .sch (.any (some [.scalar .none, .scalar (.str none {} none none none)])))])], ?_⟩⟩
  · rfl
  · simp [Decl.run, Decl.apply, allSch, flattenAny, bind, Except.bind]
  · rfl

/-- the example is covered by the corrected theorem -/
theorem hC06C_example_noEmptyAny :
    hC06C_NoEmptyAny (.dict (some [(.str [97], false, .listE false [.scalar (.int (some 1) none none)] true { minLen := some 1 }),
                             (.str [98], true, .any (some [.scalar .none, .scalar (.str none {} none none none)]))]) (some 1)) := by
  simp [hC06C_NoEmptyAny, hC06C_NoEmptyAnyF, hC06C_NoEmptyAnyL]

end D42
