/-
  C15 (verdicts) — equal schemas give identical validation verdicts on every value, wherever the comparison
  did not go through the `...`/`Nil` fall-through of `Props.__eq__` (finding K8).
-/
import D42.Props.C15
import D42.Props.C13

namespace D42

mutual
/-- the two schemas have the same shape: same kinds, and element lists with the same marker layout and
    length — i.e. `==` never compares a schema with a `...` marker or with a missing prop (K8 excluded) -/
def SameShape : Schema → Schema → Prop
  | .scalar _, .scalar _ => True
  | .listU _, .listU _ => True
  | .listT t _, .listT u _ => SameShape t u
  | .listE l es tr _, .listE l' es' tr' _ => l = l' ∧ tr = tr' ∧ SameShapeL es es'
  | .dict none _, .dict none _ => True
  | .dict (some fs) _, .dict (some gs) _ => SameShapeF fs gs
  | .any none, .any none => True
  | .any (some ts), .any (some us) => SameShapeL ts us
  | .alias _ t, .alias _ u => SameShape t u
  | .custom t, .custom u => SameShape t u
  | _, _ => False
def SameShapeL : List Schema → List Schema → Prop
  | [], [] => True
  | s :: ss, t :: ts => SameShape s t ∧ SameShapeL ss ts
  | _, _ => False
/-- every field of the first table has a same-shaped partner under the same key in the second -/
def SameShapeF : List (PyKey × Bool × Schema) → List (PyKey × Bool × Schema) → Prop
  | [], _ => True
  | (k, _, s) :: fs, gs => (∀ g ∈ gs, g.1 = k → SameShape s g.2.2) ∧ SameShapeF fs gs
end

/-! ### helper lemmas -/

theorem SameShapeL_length : ∀ (es es' : List Schema), SameShapeL es es' → es.length = es'.length
  | [], [], _ => rfl
  | [], _ :: _, h => by simp only [SameShapeL] at h
  | _ :: _, [], h => by simp only [SameShapeL] at h
  | _ :: es, _ :: es', h => by
    simp only [SameShapeL] at h
    simp [SameShapeL_length es es' h.2]

theorem SameShapeF_iff (gs : List (PyKey × Bool × Schema)) : ∀ (fs : List (PyKey × Bool × Schema)),
    SameShapeF fs gs ↔ ∀ f ∈ fs, ∀ g ∈ gs, g.1 = f.1 → SameShape f.2.2 g.2.2
  | [] => by simp [SameShapeF]
  | (k, o, s) :: fs => by
    simp only [SameShapeF, SameShapeF_iff gs fs, List.mem_cons, forall_eq_or_imp]

theorem FieldsC_iff (env : Env) (kvs : List (PyKey × PyVal)) : ∀ (fs : List (PyKey × Bool × Schema)),
    FieldsC env fs kvs ↔ ∀ f ∈ fs,
      (match lookupKey f.1 kvs with | some x => Conforms env f.2.2 x | none => f.2.1 = true)
  | [] => by simp [FieldsC]
  | (k, o, s) :: fs => by
    simp only [FieldsC, FieldsC_iff env kvs fs, List.mem_cons, forall_eq_or_imp]
    exact Iff.rfl

/-- with the same marker layout, comparing element lists is comparing the schemas pointwise -/
theorem eqOL_elemList (env : Env) (l tr : Bool) (es es' : List Schema) :
    eqOL env (elemList l es tr) (elemList l es' tr) = eqList env es es' := by
  have h1 : ∀ (es es' : List Schema),
      eqOL env (es.map some ++ (if tr then [none] else [])) (es'.map some ++ (if tr then [none] else [])) =
        eqList env es es' := by
    intro es
    induction es with
    | nil =>
      intro es'
      cases es' with
      | nil => cases tr <;> simp [eqOL, eqList, eqOpt]
      | cons e' r' => cases tr <;> cases r' <;> simp [eqOL, eqList, eqOpt]
    | cons e r ih =>
      intro es'
      cases es' with
      | nil => cases tr <;> cases r <;> simp [eqOL, eqList, eqOpt]
      | cons e' r' => simp only [List.map_cons, List.cons_append, eqOL, eqList, eqOpt, ih r']
  cases l
  · simpa [elemList] using h1 es es'
  · simpa [elemList, eqOL, eqOpt] using h1 es es'

/-- pointwise relation of two schema lists of the same length -/
def AllPairs (R : Schema → Schema → Prop) : List Schema → List Schema → Prop
  | [], [] => True
  | s :: ss, t :: ts => R s t ∧ AllPairs R ss ts
  | _, _ => False

theorem AllPairs_length (R : Schema → Schema → Prop) : ∀ (es es' : List Schema),
    AllPairs R es es' → es.length = es'.length
  | [], [], _ => rfl
  | [], _ :: _, h => by simp only [AllPairs] at h
  | _ :: _, [], h => by simp only [AllPairs] at h
  | _ :: es, _ :: es', h => by
    simp only [AllPairs] at h
    simp [AllPairs_length R es es' h.2]

/-- the two schemas accept the same values -/
def SameVerdicts (env : Env) (s t : Schema) : Prop := ∀ v, Conforms env s v ↔ Conforms env t v

theorem AllPairs_of_eqList (env : Env) (R : Schema → Schema → Prop) : ∀ (es es' : List Schema),
    (∀ s ∈ es, ∀ t, pyEq env s t = true → SameShape s t → KeysNodup t → R s t) →
    eqList env es es' = true → SameShapeL es es' → KeysNodupL es' → AllPairs R es es'
  | [], [], _, _, _, _ => trivial
  | [], _ :: _, _, h, _, _ => by simp [eqList] at h
  | _ :: _, [], _, h, _, _ => by simp [eqList] at h
  | e :: es, e' :: es', H, h, hs, hk => by
    simp only [eqList, Bool.and_eq_true] at h
    simp only [SameShapeL] at hs
    simp only [KeysNodupL] at hk
    exact ⟨H e (by simp) e' h.1 hs.1 hk.1,
      AllPairs_of_eqList env R es es' (fun s hs' => H s (List.mem_cons_of_mem _ hs')) h.2 hs.2 hk.2⟩

theorem AllC_congr (env : Env) (t u : Schema) (h : SameVerdicts env t u) :
    ∀ (xs : List PyVal), AllC env t xs ↔ AllC env u xs
  | [] => by simp [AllC]
  | x :: xs => by simp only [AllC, h x, AllC_congr env t u h xs]

theorem PrefixC_congr (env : Env) : ∀ (es es' : List Schema), AllPairs (SameVerdicts env) es es' →
    ∀ (xs : List PyVal), PrefixC env es xs ↔ PrefixC env es' xs
  | [], [], _, _ => by simp [PrefixC]
  | [], _ :: _, h, _ => by simp only [AllPairs] at h
  | _ :: _, [], h, _ => by simp only [AllPairs] at h
  | _ :: _, _ :: _, _, [] => by simp [PrefixC]
  | e :: es, e' :: es', h, x :: xs => by
    simp only [AllPairs] at h
    simp only [PrefixC, h.1 x, PrefixC_congr env es es' h.2 xs]

theorem AnyC_congr (env : Env) : ∀ (es es' : List Schema), AllPairs (SameVerdicts env) es es' →
    ∀ (v : PyVal), AnyC env es v ↔ AnyC env es' v
  | [], [], _, _ => by simp [AnyC]
  | [], _ :: _, h, _ => by simp only [AllPairs] at h
  | _ :: _, [], h, _ => by simp only [AllPairs] at h
  | e :: es, e' :: es', h, v => by
    simp only [AllPairs] at h
    simp only [AnyC, h.1 v, AnyC_congr env es es' h.2 v]

theorem listE_congr (env : Env) (l tr : Bool) (L : LenP) (es es' : List Schema)
    (h : AllPairs (SameVerdicts env) es es') (v : PyVal) :
    Conforms env (.listE l es tr L) v ↔ Conforms env (.listE l es' tr L) v := by
  have hlen := AllPairs_length _ es es' h
  have hne : es ≠ [] ↔ es' ≠ [] := by
    cases es <;> cases es' <;> simp at hlen ⊢
  simp only [Conforms, PrefixC_congr env es es' h, hlen, hne]

/-- in tables with distinct keys and the same number of keys, "every field of `a` has a partner in `b`"
    can be read from `b`'s side -/
theorem partner_swap {R : (PyKey × Bool × Schema) → (PyKey × Bool × Schema) → Prop}
    (a b : List (PyKey × Bool × Schema))
    (ha : (a.map (·.1)).Nodup) (hb : (b.map (·.1)).Nodup) (hlen : a.length = b.length)
    (h : ∀ f ∈ a, ∃ g ∈ b, g.1 = f.1 ∧ R f g) : ∀ g ∈ b, ∃ f ∈ a, f.1 = g.1 ∧ R f g := by
  have hsub : a.map (·.1) ⊆ b.map (·.1) := by
    intro k hk
    obtain ⟨f, hf, rfl⟩ := List.mem_map.1 hk
    obtain ⟨g, hg, h1, _⟩ := h f hf
    exact h1 ▸ List.mem_map_of_mem hg
  have hsub' := subset_of_nodup_of_length_le _ _ ha hsub (by simp [hlen])
  intro g hg
  obtain ⟨f, hf, hfk⟩ := List.mem_map.1 (hsub' (List.mem_map_of_mem (f := (·.1)) hg))
  obtain ⟨g', hg', h1, h2⟩ := h f hf
  have e1 := find_key b hb g hg
  have e2 := find_key b hb g' hg'
  rw [h1, hfk, e1] at e2
  cases Option.some.inj e2
  exact ⟨f, hf, hfk, h2⟩

theorem FieldsC_mono (env : Env) (fa fb : List (PyKey × Bool × Schema)) (kvs : List (PyKey × PyVal))
    (h : ∀ g ∈ fb, ∃ f ∈ fa, f.1 = g.1 ∧ f.2.1 = g.2.1 ∧ ∀ v, Conforms env f.2.2 v → Conforms env g.2.2 v)
    (hc : FieldsC env fa kvs) : FieldsC env fb kvs := by
  rw [FieldsC_iff] at hc ⊢
  intro g hg
  obtain ⟨f, hf, h1, h2, h3⟩ := h g hg
  have := hc f hf
  rw [h1, h2] at this
  cases hl : lookupKey g.1 kvs with
  | none => simpa [hl] using this
  | some x =>
    simp only [hl] at this ⊢
    exact h3 x this

theorem hasField_mono (fa fb : List (PyKey × Bool × Schema)) (k : PyKey)
    (h : ∀ f ∈ fa, ∃ g ∈ fb, g.1 = f.1) (hc : hasField k fa = true) : hasField k fb = true := by
  simp only [hasField, List.any_eq_true, beq_iff_eq] at hc ⊢
  obtain ⟨f, hf, hk⟩ := hc
  obtain ⟨g, hg, h1⟩ := h f hf
  exact ⟨g, hg, h1.trans hk⟩

theorem dict_congr_mp (env : Env) (fa fb : List (PyKey × Bool × Schema)) (ea eb : Option Nat)
    (he : ea.isSome = eb.isSome)
    (h1 : ∀ f ∈ fa, ∃ g ∈ fb, g.1 = f.1)
    (h2 : ∀ g ∈ fb, ∃ f ∈ fa, f.1 = g.1 ∧ f.2.1 = g.2.1 ∧ ∀ v, Conforms env f.2.2 v → Conforms env g.2.2 v)
    (v : PyVal) (hc : Conforms env (.dict (some fa) ea) v) : Conforms env (.dict (some fb) eb) v := by
  simp only [Conforms] at hc ⊢
  obtain ⟨kvs, rfl, hf, hx⟩ := hc
  refine ⟨kvs, rfl, FieldsC_mono env fa fb kvs h2 hf, ?_⟩
  intro hn kv hkv
  have : ea = none := by subst hn; cases ea <;> simp_all
  exact hasField_mono fa fb kv.1 h1 (hx this kv hkv)

theorem dict_congr (env : Env) (fa fb : List (PyKey × Bool × Schema)) (ea eb : Option Nat)
    (ha : (fa.map (·.1)).Nodup) (hb : (fb.map (·.1)).Nodup)
    (he : ea.isSome = eb.isSome) (hlen : fa.length = fb.length)
    (h : ∀ f ∈ fa, ∃ g ∈ fb, g.1 = f.1 ∧ g.2.1 = f.2.1 ∧ SameVerdicts env f.2.2 g.2.2) (v : PyVal) :
    Conforms env (.dict (some fa) ea) v ↔ Conforms env (.dict (some fb) eb) v := by
  have h' := partner_swap (R := fun f g => g.2.1 = f.2.1 ∧ SameVerdicts env f.2.2 g.2.2) fa fb ha hb hlen h
  constructor
  · apply dict_congr_mp env fa fb ea eb he
    · intro f hf; obtain ⟨g, hg, h1, _⟩ := h f hf; exact ⟨g, hg, h1⟩
    · intro g hg; obtain ⟨f, hf, h1, h2, h3⟩ := h' g hg
      exact ⟨f, hf, h1, h2.symm, fun v => (h3 v).1⟩
  · apply dict_congr_mp env fb fa eb ea he.symm
    · intro g hg; obtain ⟨f, hf, h1, _⟩ := h' g hg; exact ⟨f, hf, h1⟩
    · intro f hf; obtain ⟨g, hg, h1, h2, h3⟩ := h f hf
      exact ⟨g, hg, h1, h2, fun v => (h3 v).2⟩

/-! ### equal, same-shaped schemas give the same verdicts -/

mutual
theorem sameVerdicts' (env : Env) : ∀ (a b : Schema), pyEq env a b = true → SameShape a b →
    KeysNodup a → KeysNodup b → SameVerdicts env a b
  | .scalar k, b, h, hs, _, _ => by
    cases b <;> simp only [SameShape] at hs
    simp only [pyEq] at h
    intro v; simp only [Conforms]; exact scalarEq_same_meaning env _ _ h v
  | .listU L, b, h, hs, _, _ => by
    cases b <;> simp only [SameShape] at hs
    simp only [pyEq, lenPEq_iff] at h
    subst h; exact fun _ => Iff.rfl
  | .listT t L, b, h, hs, ha, hb => by
    cases b <;> simp only [SameShape] at hs
    case listT u M =>
      simp only [pyEq, Bool.and_eq_true, lenPEq_iff] at h
      simp only [KeysNodup] at ha hb
      obtain ⟨h1, rfl⟩ := h
      have ih := sameVerdicts' env t u h1 hs ha hb
      intro v
      simp only [Conforms, AllC_congr env t u ih]
  | .listE lead es trail L, b, h, hs, ha, hb => by
    cases b <;> simp only [SameShape] at hs
    case listE lead2 es2 trail2 M =>
      obtain ⟨rfl, rfl, hs⟩ := hs
      rw [pyEq_listE, eqOL_elemList, Bool.and_eq_true, lenPEq_iff] at h
      simp only [KeysNodup] at ha hb
      obtain ⟨h1, rfl⟩ := h
      exact listE_congr env _ _ _ es es2
        (AllPairs_of_eqList env _ es es2 (sameVerdictsL env es ha) h1 hs hb)
  | .dict fa ea, b, h, hs, ha, hb => by
    cases b <;> try (simp only [SameShape] at hs; done)
    case dict fb eb =>
      cases fa <;> cases fb <;> simp only [SameShape] at hs
      case none.none => intro v; simp only [Conforms]
      case some.some fa fb =>
        simp only [pyEq, Bool.and_eq_true, beq_iff_eq] at h
        simp only [KeysNodup] at ha hb
        rw [eqFields_iff env fb hb.1] at h
        rw [SameShapeF_iff] at hs
        refine dict_congr env fa fb ea eb ha.1 hb.1 h.1.1 h.1.2 (fun f hf => ?_)
        obtain ⟨g, hg, h1, h2, h3⟩ := h.2 f hf
        exact ⟨g, hg, h1, h2, sameVerdictsF env fa ha.2 f hf g.2.2 h3 (hs f hf g hg h1)
          (KeysNodupF_mem fb hb.2 g hg)⟩
  | .any x, b, h, hs, ha, hb => by
    cases b <;> try (simp only [SameShape] at hs; done)
    case any y =>
      cases x <;> cases y <;> simp only [SameShape] at hs
      case none.none => exact fun _ => Iff.rfl
      case some.some xs ys =>
        simp only [pyEq] at h
        simp only [KeysNodup] at ha hb
        intro v
        simp only [Conforms]
        exact AnyC_congr env xs ys (AllPairs_of_eqList env _ xs ys (sameVerdictsL env xs ha) h hs hb) v
  | .alias n t, b, h, hs, ha, hb => by
    cases b <;> simp only [SameShape] at hs
    case alias m u =>
      simp only [pyEq, Bool.and_eq_true] at h
      simp only [KeysNodup] at ha hb
      have ih := sameVerdicts' env t u h.2 hs ha hb
      intro v; simp only [Conforms]; exact ih v
  | .custom t, b, h, hs, ha, hb => by
    cases b <;> simp only [SameShape] at hs
    case custom u =>
      simp only [pyEq] at h
      simp only [KeysNodup] at ha hb
      have ih := sameVerdicts' env t u h hs ha hb
      intro v; simp only [Conforms]; exact ih v
theorem sameVerdictsL (env : Env) : ∀ (es : List Schema), KeysNodupL es →
    ∀ s ∈ es, ∀ t, pyEq env s t = true → SameShape s t → KeysNodup t → SameVerdicts env s t
  | [], _, s, hs, _, _, _, _ => by simp at hs
  | e :: es, hk, s, hs, t, h, hsh, ht => by
    simp only [KeysNodupL] at hk
    rcases List.mem_cons.1 hs with he | hs'
    · rw [he] at h hsh ⊢; exact sameVerdicts' env e t h hsh hk.1 ht
    · exact sameVerdictsL env es hk.2 s hs' t h hsh ht
theorem sameVerdictsF (env : Env) : ∀ (fs : List (PyKey × Bool × Schema)), KeysNodupF fs →
    ∀ f ∈ fs, ∀ t, pyEq env f.2.2 t = true → SameShape f.2.2 t → KeysNodup t → SameVerdicts env f.2.2 t
  | [], _, f, hf, _, _, _, _ => by simp at hf
  | (k, o, e) :: fs, hk, f, hf, t, h, hsh, ht => by
    simp only [KeysNodupF] at hk
    rcases List.mem_cons.1 hf with he | hf'
    · rw [he] at h hsh ⊢; exact sameVerdicts' env e t h hsh hk.1 ht
    · exact sameVerdictsF env fs hk.2 f hf' t h hsh ht
end

/-! ### theorems to prove -/

/-- **equal schemas give identical verdicts on every value** (K8 excluded by `SameShape`) -/
theorem pyEq_same_verdicts (env : Env) (a b : Schema) (v : PyVal)
    (h : pyEq env a b = true) (hs : SameShape a b) (ha : KeysNodup a) (hb : KeysNodup b) :
    Conforms env a v ↔ Conforms env b v :=
  sameVerdicts' env a b h hs ha hb v

/-- in terms of the validator: the same values are accepted -/
theorem pyEq_same_validation (env : Env) (a b : Schema) (v : PyVal)
    (h : pyEq env a b = true) (hs : SameShape a b) (ha : KeysNodup a) (hb : KeysNodup b) :
    (validateP env false a v [] = [] ↔ validateP env false b v [] = []) := by
  rw [validate_iff_conforms, validate_iff_conforms]
  exact pyEq_same_verdicts env a b v h hs ha hb

/-! ### `SameShape` is reflexive on schemas with distinct keys (and only there) -/

/-- `sameShape_refl` as originally stated (no hypothesis) is false: a field table with a duplicated key whose
    two entries have different kinds is not same-shaped with itself, because the field clause of
    `SameShapeF` compares every field with *every* same-key field of the other table. -/
theorem sameShape_refl_counterexample :
    ¬ SameShape (.dict (some [(.none, false, .scalar .none), (.none, false, .listU {})]) none)
        (.dict (some [(.none, false, .scalar .none), (.none, false, .listU {})]) none) := by
  simp [SameShape, SameShapeF]

mutual
theorem sameShape_refl' : ∀ (s : Schema), KeysNodup s → SameShape s s
  | .scalar _, _ => by simp only [SameShape]
  | .listU _, _ => by simp only [SameShape]
  | .listT t _, hk => by
    simp only [KeysNodup] at hk; simp only [SameShape]; exact sameShape_refl' t hk
  | .listE _ es _ _, hk => by
    simp only [KeysNodup] at hk; simp only [SameShape, true_and]; exact sameShape_reflL es hk
  | .dict none _, _ => by simp only [SameShape]
  | .dict (some fs) _, hk => by
    simp only [KeysNodup] at hk
    simp only [SameShape]
    rw [SameShapeF_iff]
    intro f hf g hg hgf
    have e1 := find_key fs hk.1 f hf
    have e2 := find_key fs hk.1 g hg
    rw [hgf, e1] at e2
    cases Option.some.inj e2
    exact sameShape_reflF fs hk.2 f hf
  | .any none, _ => by simp only [SameShape]
  | .any (some ts), hk => by
    simp only [KeysNodup] at hk; simp only [SameShape]; exact sameShape_reflL ts hk
  | .alias _ t, hk => by
    simp only [KeysNodup] at hk; simp only [SameShape]; exact sameShape_refl' t hk
  | .custom t, hk => by
    simp only [KeysNodup] at hk; simp only [SameShape]; exact sameShape_refl' t hk
theorem sameShape_reflL : ∀ (es : List Schema), KeysNodupL es → SameShapeL es es
  | [], _ => by simp only [SameShapeL]
  | e :: es, hk => by
    simp only [KeysNodupL] at hk
    simp only [SameShapeL]
    exact ⟨sameShape_refl' e hk.1, sameShape_reflL es hk.2⟩
theorem sameShape_reflF : ∀ (fs : List (PyKey × Bool × Schema)), KeysNodupF fs →
    ∀ f ∈ fs, SameShape f.2.2 f.2.2
  | [], _, f, hf => by simp at hf
  | (k, o, e) :: fs, hk, f, hf => by
    simp only [KeysNodupF] at hk
    rcases List.mem_cons.1 hf with he | hf'
    · rw [he]; exact sameShape_refl' e hk.1
    · exact sameShape_reflF fs hk.2 f hf'
end

/-- a schema with distinct dict keys (every schema Python can build) has the same shape as itself, so the
    theorem is not vacuous: independent builds of one declaration give identical verdicts.
    (Corrected statement: the hypothesis `KeysNodup s` is needed, see `sameShape_refl_counterexample`.) -/
theorem sameShape_refl (s : Schema) (hk : KeysNodup s) : SameShape s s :=
  sameShape_refl' s hk

/-- non-vacuity, spelled out: a NaN-free schema with distinct keys satisfies all hypotheses of
    `pyEq_same_verdicts` against itself -/
theorem pyEq_same_verdicts_nonvacuous (env : Env) (s : Schema) (hn : NoNaNS s) (hk : KeysNodup s) :
    pyEq env s s = true ∧ SameShape s s :=
  ⟨pyEq_refl env s hn hk, sameShape_refl s hk⟩

/-! ### transitivity -/

theorem optEq_trans {α} (eq : α → α → Bool)
    (ht : ∀ x y z, eq x y = true → eq y z = true → eq x z = true) (a b c : Option α)
    (h1 : optEq eq a b = true) (h2 : optEq eq b c = true) : optEq eq a c = true := by
  cases a <;> cases b <;> cases c <;> simp only [optEq, Bool.false_eq_true] at h1 h2 ⊢
  exact ht _ _ _ h1 h2

theorem scalarEq_trans (a b c : ScalarS) (h1 : scalarEq a b = true) (h2 : scalarEq b c = true) :
    scalarEq a c = true := by
  cases a <;> cases b <;>
    simp only [scalarEq, Bool.and_eq_true, optEq_beq_iff, lenPEq_iff, Bool.false_eq_true] at h1 <;>
    cases c <;>
    simp only [scalarEq, Bool.and_eq_true, optEq_beq_iff, lenPEq_iff, Bool.false_eq_true] at h2 ⊢
  case bool.bool.bool => exact h1.trans h2
  case int.int.int =>
    exact ⟨⟨h1.1.1.trans h2.1.1, h1.1.2.trans h2.1.2⟩, h1.2.trans h2.2⟩
  case float.float.float =>
    obtain ⟨⟨⟨a1, a2⟩, a3⟩, a4⟩ := h1
    obtain ⟨⟨⟨b1, b2⟩, b3⟩, b4⟩ := h2
    have := optEq_pf_iff _ _ a1; have := optEq_pf_iff _ _ a2; have := optEq_pf_iff _ _ a3
    subst_vars
    exact ⟨⟨⟨b1, b2⟩, b3⟩, rfl⟩
  case str.str.str =>
    obtain ⟨⟨⟨⟨a1, a2⟩, a3⟩, a4⟩, a5⟩ := h1
    obtain ⟨⟨⟨⟨b1, b2⟩, b3⟩, b4⟩, b5⟩ := h2
    refine ⟨⟨⟨⟨a1.trans b1, a2.trans b2⟩, a3.trans b3⟩, a4.trans b4⟩, ?_⟩
    refine optEq_trans _ (fun x y z hx hy => ?_) _ _ _ a5 b5
    simp only [beq_iff_eq] at hx hy ⊢; exact hx.trans hy
  case bytes.bytes.bytes => exact h1.trans h2
  case uuid4.uuid4.uuid4 =>
    refine optEq_trans _ (fun x y z hx hy => ?_) _ _ _ h1 h2
    simp only [beq_iff_eq] at hx hy ⊢; exact hx.trans hy
  case datetime.datetime.datetime => exact h1.trans h2
  case date.date.date =>
    refine optEq_trans _ (fun x y z hx hy => ?_) _ _ _ h1 h2
    simp only [Bool.and_eq_true, beq_iff_eq] at hx hy ⊢
    exact ⟨hx.1.trans hy.1, hx.2.trans hy.2⟩

theorem eqList_trans (env : Env) : ∀ (xs ys zs : List Schema),
    (∀ s ∈ xs, ∀ b c, pyEq env s b = true → pyEq env b c = true → SameShape s b → SameShape b c →
      KeysNodup b → KeysNodup c → pyEq env s c = true) →
    eqList env xs ys = true → eqList env ys zs = true → SameShapeL xs ys → SameShapeL ys zs →
    KeysNodupL ys → KeysNodupL zs → eqList env xs zs = true
  | [], [], [], _, _, _, _, _, _, _ => by simp [eqList]
  | [], [], _ :: _, _, _, h, _, _, _, _ => by simp [eqList] at h
  | [], _ :: _, _, _, h, _, _, _, _, _ => by simp [eqList] at h
  | _ :: _, [], _, _, h, _, _, _, _, _ => by simp [eqList] at h
  | _ :: _, _ :: _, [], _, _, h, _, _, _, _ => by simp [eqList] at h
  | x :: xs, y :: ys, z :: zs, H, h1, h2, s1, s2, ky, kz => by
    simp only [eqList, Bool.and_eq_true] at h1 h2 ⊢
    simp only [SameShapeL] at s1 s2
    simp only [KeysNodupL] at ky kz
    exact ⟨H x (by simp) y z h1.1 h2.1 s1.1 s2.1 ky.1 kz.1,
      eqList_trans env xs ys zs (fun s hs => H s (List.mem_cons_of_mem _ hs)) h1.2 h2.2 s1.2 s2.2 ky.2 kz.2⟩

mutual
theorem pyEq_trans' (env : Env) : ∀ (a b c : Schema), pyEq env a b = true → pyEq env b c = true →
    SameShape a b → SameShape b c → KeysNodup b → KeysNodup c → pyEq env a c = true
  | .scalar k, b, c, hab, hbc, s1, s2, _, _ => by
    cases b <;> simp only [SameShape] at s1
    cases c <;> simp only [SameShape] at s2
    simp only [pyEq] at hab hbc ⊢
    exact scalarEq_trans _ _ _ hab hbc
  | .listU L, b, c, hab, hbc, s1, s2, _, _ => by
    cases b <;> simp only [SameShape] at s1
    cases c <;> simp only [SameShape] at s2
    simp only [pyEq, lenPEq_iff] at hab hbc ⊢
    exact hab.trans hbc
  | .listT t L, b, c, hab, hbc, s1, s2, hb, hc => by
    cases b <;> simp only [SameShape] at s1
    cases c <;> simp only [SameShape] at s2
    simp only [pyEq, Bool.and_eq_true, lenPEq_iff] at hab hbc ⊢
    simp only [KeysNodup] at hb hc
    exact ⟨pyEq_trans' env t _ _ hab.1 hbc.1 s1 s2 hb hc, hab.2.trans hbc.2⟩
  | .listE lead es trail L, b, c, hab, hbc, s1, s2, hb, hc => by
    cases b <;> simp only [SameShape] at s1
    cases c <;> simp only [SameShape] at s2
    obtain ⟨rfl, rfl, s1⟩ := s1
    obtain ⟨rfl, rfl, s2⟩ := s2
    rw [pyEq_listE, eqOL_elemList, Bool.and_eq_true, lenPEq_iff] at hab hbc ⊢
    simp only [KeysNodup] at hb hc
    exact ⟨eqList_trans env es _ _ (pyEq_transL env es) hab.1 hbc.1 s1 s2 hb hc, hab.2.trans hbc.2⟩
  | .dict fa ea, b, c, hab, hbc, s1, s2, hb, hc => by
    cases b <;> try (simp only [SameShape] at s1; done)
    cases c <;> try (simp only [SameShape] at s2; done)
    case dict.dict fb eb fc ec =>
      cases fa <;> cases fb <;> simp only [SameShape] at s1 <;> cases fc <;> simp only [SameShape] at s2
      case none.none.none => simp only [pyEq]
      case some.some.some fa fb fc =>
        simp only [pyEq, Bool.and_eq_true, beq_iff_eq] at hab hbc ⊢
        simp only [KeysNodup] at hb hc
        rw [eqFields_iff env fb hb.1] at hab
        rw [eqFields_iff env fc hc.1] at hbc ⊢
        rw [SameShapeF_iff] at s1 s2
        refine ⟨⟨hab.1.1.trans hbc.1.1, hab.1.2.trans hbc.1.2⟩, fun f hf => ?_⟩
        obtain ⟨g, hg, g1, g2, g3⟩ := hab.2 f hf
        obtain ⟨h, hh, h1, h2, h3⟩ := hbc.2 g hg
        exact ⟨h, hh, h1.trans g1, h2.trans g2,
          pyEq_transF env fa f hf g.2.2 h.2.2 g3 h3 (s1 f hf g hg g1) (s2 g hg h hh h1)
            (KeysNodupF_mem fb hb.2 g hg) (KeysNodupF_mem fc hc.2 h hh)⟩
  | .any x, b, c, hab, hbc, s1, s2, hb, hc => by
    cases b <;> try (simp only [SameShape] at s1; done)
    cases c <;> try (simp only [SameShape] at s2; done)
    case any.any y z =>
      cases x <;> cases y <;> simp only [SameShape] at s1 <;> cases z <;> simp only [SameShape] at s2
      case none.none.none => simp only [pyEq]
      case some.some.some xs ys zs =>
        simp only [pyEq] at hab hbc ⊢
        simp only [KeysNodup] at hb hc
        exact eqList_trans env xs ys zs (pyEq_transL env xs) hab hbc s1 s2 hb hc
  | .alias n t, b, c, hab, hbc, s1, s2, hb, hc => by
    cases b <;> simp only [SameShape] at s1
    cases c <;> simp only [SameShape] at s2
    simp only [pyEq, Bool.and_eq_true, optEq_beq_iff] at hab hbc ⊢
    simp only [KeysNodup] at hb hc
    exact ⟨hab.1.trans hbc.1, pyEq_trans' env t _ _ hab.2 hbc.2 s1 s2 hb hc⟩
  | .custom t, b, c, hab, hbc, s1, s2, hb, hc => by
    cases b <;> simp only [SameShape] at s1
    cases c <;> simp only [SameShape] at s2
    simp only [pyEq] at hab hbc ⊢
    simp only [KeysNodup] at hb hc
    exact pyEq_trans' env t _ _ hab hbc s1 s2 hb hc
theorem pyEq_transL (env : Env) : ∀ (es : List Schema), ∀ s ∈ es, ∀ b c,
    pyEq env s b = true → pyEq env b c = true → SameShape s b → SameShape b c →
    KeysNodup b → KeysNodup c → pyEq env s c = true
  | [], s, hs, _, _, _, _, _, _, _, _ => by simp at hs
  | e :: es, s, hs, b, c, hab, hbc, s1, s2, hb, hc => by
    rcases List.mem_cons.1 hs with he | hs'
    · rw [he] at hab s1 ⊢; exact pyEq_trans' env e b c hab hbc s1 s2 hb hc
    · exact pyEq_transL env es s hs' b c hab hbc s1 s2 hb hc
theorem pyEq_transF (env : Env) : ∀ (fs : List (PyKey × Bool × Schema)), ∀ f ∈ fs, ∀ b c,
    pyEq env f.2.2 b = true → pyEq env b c = true → SameShape f.2.2 b → SameShape b c →
    KeysNodup b → KeysNodup c → pyEq env f.2.2 c = true
  | [], f, hf, _, _, _, _, _, _, _, _ => by simp at hf
  | (k, o, e) :: fs, f, hf, b, c, hab, hbc, s1, s2, hb, hc => by
    rcases List.mem_cons.1 hf with he | hf'
    · rw [he] at hab s1 ⊢; exact pyEq_trans' env e b c hab hbc s1 s2 hb hc
    · exact pyEq_transF env fs f hf' b c hab hbc s1 s2 hb hc
end

/-- **transitive** on same-shaped schemas — strongest form: neither `NoNaNS b` nor `KeysNodup a` is
    needed (`pyEq env a b = true` already rules NaN out of every compared float prop) -/
theorem pyEq_trans_strong (env : Env) (a b c : Schema)
    (hab : pyEq env a b = true) (hbc : pyEq env b c = true)
    (s1 : SameShape a b) (s2 : SameShape b c) (hb : KeysNodup b) (hc : KeysNodup c) :
    pyEq env a c = true :=
  pyEq_trans' env a b c hab hbc s1 s2 hb hc

set_option linter.unusedVariables false in
/-- **transitive** on same-shaped schemas (statement as given; `ha` and `hn` are not used) -/
theorem pyEq_trans (env : Env) (a b c : Schema)
    (hab : pyEq env a b = true) (hbc : pyEq env b c = true)
    (s1 : SameShape a b) (s2 : SameShape b c)
    (ha : KeysNodup a) (hb : KeysNodup b) (hc : KeysNodup c) (hn : NoNaNS b) : pyEq env a c = true :=
  pyEq_trans' env a b c hab hbc s1 s2 hb hc

end D42
