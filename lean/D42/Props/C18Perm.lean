/-
  C18 (all orders of the flat keys) — the flat mapping may list its keys in ANY order; rollout then gives
  back a mapping equal to the nested one in Python's sense of dict equality (same keys, equal values,
  recursively; insertion order is irrelevant to `==`).
-/
import D42.Props.C18

namespace D42

mutual
/-- Python `==` on the values `rollout` handles: leaves by payload, mappings as mappings (order-free) -/
def REquiv : RVal → RVal → Prop
  | .leaf p, .leaf q => p = q
  | .ell, .ell => True
  | .dict a, .dict b => a.length = b.length ∧ REquivL a b
  | _, _ => False
/-- every entry of the first table is present, with an equal value, in the second -/
def REquivL : List (RKey × RVal) → List (RKey × RVal) → Prop
  | [], _ => True
  | (k, v) :: r, b => (∃ w, rlookup k b = some w ∧ REquiv v w) ∧ REquivL r b
end

mutual
/-- the keys of every mapping inside the value are pairwise distinct (what a Python dict guarantees) -/
def RNodup : RVal → Prop
  | .dict a => (a.map (·.1)).Nodup ∧ RNodupL a
  | _ => True
def RNodupL : List (RKey × RVal) → Prop
  | [] => True
  | (_, v) :: r => RNodup v ∧ RNodupL r
end

/-! ### helper lemmas: rlookup / rupsert -/

theorem hC18P_rlookup_append_some (k : RKey) (a b : List (RKey × RVal)) (v : RVal)
    (h : rlookup k a = some v) : rlookup k (a ++ b) = some v := by
  induction a with
  | nil => simp [rlookup] at h
  | cons kv r ih =>
    obtain ⟨k', v'⟩ := kv
    simp only [rlookup, List.cons_append] at h ⊢
    split
    · rename_i e; simpa [e] using h
    · rename_i e; simp [e] at h; exact ih h

theorem hC18P_rlookup_repl (K K0 : RKey) (v0 : RVal) (d : List (RKey × RVal)) :
    rlookup K (d.map (fun kv => if kv.1 = K0 then (K0, v0) else kv)) =
      if K = K0 then (if (rlookup K0 d).isSome then some v0 else none) else rlookup K d := by
  induction d with
  | nil => simp [rlookup]
  | cons kv r ih =>
    obtain ⟨k', v'⟩ := kv
    simp only [List.map_cons, rlookup]
    by_cases h1 : k' = K0 <;> by_cases h2 : K = K0 <;> grind [rlookup]

theorem hC18P_rlookup_snoc_ne (K K0 : RKey) (v0 : RVal) (d : List (RKey × RVal)) (h : K ≠ K0) :
    rlookup K (d ++ [(K0, v0)]) = rlookup K d := by
  induction d with
  | nil => simp [rlookup, h]
  | cons kv r ih =>
    obtain ⟨k', v'⟩ := kv
    simp only [rlookup, List.cons_append, ih]

theorem hC18P_rlookup_rupsert (K K0 : RKey) (v0 : RVal) (d : List (RKey × RVal)) :
    rlookup K (rupsert d K0 v0) = if K = K0 then some v0 else rlookup K d := by
  unfold rupsert
  split
  · rename_i h
    rw [hC18P_rlookup_repl]; simp [h]
  · rename_i h
    have h' : rlookup K0 d = none := by simpa using h
    by_cases e : K = K0
    · subst e; simp [rlookup_append_none _ _ _ h', rlookup]
    · simp [e, hC18P_rlookup_snoc_ne _ _ _ _ e]

theorem hC18P_rupsert_nodup (K0 : RKey) (v0 : RVal) (d : List (RKey × RVal))
    (h : (d.map (·.1)).Nodup) : ((rupsert d K0 v0).map (·.1)).Nodup := by
  unfold rupsert
  split
  · have : (d.map (fun kv => if kv.1 = K0 then (K0, v0) else kv)).map (·.1) = d.map (·.1) := by
      rw [List.map_map]; apply List.map_congr_left; intro kv _; simp only [Function.comp]; split <;> simp_all
    rw [this]; exact h
  · rename_i hn
    have h' : rlookup K0 d = none := by simpa using hn
    rw [rlookup_none_iff] at h'
    rw [List.map_append, List.nodup_append]
    refine ⟨h, by simp, ?_⟩
    intro a ha b hb e
    simp at hb; subst hb; subst e
    simp only [List.mem_map] at ha
    obtain ⟨kv, hkv, e⟩ := ha
    exact h' kv hkv e

theorem hC18P_rlookup_mem (K : RKey) (v : RVal) (d : List (RKey × RVal)) (h : rlookup K d = some v) :
    (K, v) ∈ d := by
  induction d with
  | nil => simp [rlookup] at h
  | cons kv r ih =>
    obtain ⟨k', v'⟩ := kv
    simp only [rlookup] at h
    split at h
    · rename_i e; subst e; simp at h; subst h; simp
    · exact List.mem_cons_of_mem _ (ih h)

theorem hC18P_mem_rlookup (K : RKey) (v : RVal) (d : List (RKey × RVal)) (hn : (d.map (·.1)).Nodup)
    (h : (K, v) ∈ d) : rlookup K d = some v := by
  induction d with
  | nil => simp at h
  | cons kv r ih =>
    obtain ⟨k', v'⟩ := kv
    simp only [List.map_cons, List.nodup_cons] at hn
    simp only [rlookup]
    rcases List.mem_cons.mp h with e | h2
    · injection e with e1 e2; subst e1; subst e2; simp
    · have : K ≠ k' := by
        intro e; subst e
        have := List.mem_map_of_mem (f := (·.1)) h2
        exact hn.1 this
      simp [this, ih hn.2 h2]

theorem hC18P_rlookup_isSome_iff (K : RKey) (d : List (RKey × RVal)) :
    K ∈ d.map (·.1) ↔ ∃ v, rlookup K d = some v := by
  constructor
  · intro h
    cases h' : rlookup K d with
    | some v => exact ⟨v, rfl⟩
    | none =>
      rw [rlookup_none_iff] at h'
      simp only [List.mem_map] at h
      obtain ⟨kv, hkv, e⟩ := h
      exact absurd e (h' kv hkv)
  · rintro ⟨v, h⟩
    exact List.mem_map_of_mem (f := (·.1)) (hC18P_rlookup_mem K v d h)


/-! ### the tails grouped under one head -/

def hC18P_tailOf (sep h : Str) (kv : RKey × RVal) : Option (RKey × RVal) :=
  match kv.1 with
  | .str s o =>
    match splitFirst sep s with
    | some (h', t) => if h' = h then some (RKey.str t o, kv.2) else none
    | none => none
  | _ => none

def hC18P_tails (sep h : Str) (P : List (RKey × RVal)) : List (RKey × RVal) :=
  P.filterMap (hC18P_tailOf sep h)

theorem hC18P_tails_append (sep h : Str) (A B : List (RKey × RVal)) :
    hC18P_tails sep h (A ++ B) = hC18P_tails sep h A ++ hC18P_tails sep h B := by
  simp [hC18P_tails, List.filterMap_append]

theorem hC18P_tails_nil (sep h : Str) : hC18P_tails sep h [] = [] := rfl

theorem hC18P_tails_ell (sep h : Str) (v : RVal) : hC18P_tails sep h [(RKey.ell, v)] = [] := by
  simp [hC18P_tails, hC18P_tailOf]

theorem hC18P_tails_nosplit (sep h s : Str) (o : Bool) (v : RVal) (hsp : splitFirst sep s = none) :
    hC18P_tails sep h [(RKey.str s o, v)] = [] := by
  simp [hC18P_tails, hC18P_tailOf, hsp]

theorem hC18P_tails_split (sep h s h0 t : Str) (o : Bool) (v : RVal)
    (hsp : splitFirst sep s = some (h0, t)) :
    hC18P_tails sep h [(RKey.str s o, v)] = if h0 = h then [(RKey.str t o, v)] else [] := by
  by_cases e : h0 = h <;> simp [hC18P_tails, hC18P_tailOf, hsp, e]

theorem hC18P_tails_mem (sep h : Str) (P : List (RKey × RVal)) (kv' : RKey × RVal) :
    kv' ∈ hC18P_tails sep h P ↔
      ∃ s o v t, (RKey.str s o, v) ∈ P ∧ splitFirst sep s = some (h, t) ∧ kv' = (RKey.str t o, v) := by
  simp only [hC18P_tails, List.mem_filterMap]
  constructor
  · rintro ⟨⟨k, v⟩, hm, e⟩
    cases k with
    | str s o =>
      simp only [hC18P_tailOf] at e
      cases hsp : splitFirst sep s with
      | none => simp [hsp] at e
      | some ht =>
        obtain ⟨h', t⟩ := ht
        simp only [hsp] at e
        split at e
        · rename_i e'; subst e'
          simp at e
          exact ⟨s, o, v, t, hm, hsp, e.symm⟩
        · cases e
    | ell => simp [hC18P_tailOf] at e
    | other n => simp [hC18P_tailOf] at e
  · rintro ⟨s, o, v, t, hm, hsp, rfl⟩
    exact ⟨_, hm, by simp [hC18P_tailOf, hsp]⟩

theorem hC18P_tails_ne_nil (sep h : Str) (P : List (RKey × RVal)) (hne : hC18P_tails sep h P ≠ []) :
    ∃ s o v t, (RKey.str s o, v) ∈ P ∧ splitFirst sep s = some (h, t) := by
  obtain ⟨kv', hkv'⟩ := List.exists_mem_of_ne_nil _ hne
  obtain ⟨s, o, v, t, hm, hsp, _⟩ := (hC18P_tails_mem sep h P kv').mp hkv'
  exact ⟨s, o, v, t, hm, hsp⟩

/-! ### well-behaved flat lists and the invariant of the first loop -/

structure hC18P_Good (sep : Str) (P : List (RKey × RVal)) : Prop where
  ok : ∀ kv ∈ P, (∃ s o, kv.1 = RKey.str s o) ∨ kv = (RKey.ell, RVal.ell)
  nd : (P.map (·.1)).Nodup
  nc : ∀ s o v s' o' v' h t, (RKey.str s o, v) ∈ P → splitFirst sep s = none →
        (RKey.str s' o', v') ∈ P → splitFirst sep s' = some (h, t) → h ≠ s

theorem hC18P_Good_prefix (sep : Str) (A B : List (RKey × RVal)) (h : hC18P_Good sep (A ++ B)) :
    hC18P_Good sep A := by
  refine ⟨fun kv hkv => h.ok kv (List.mem_append_left _ hkv), ?_, ?_⟩
  · have := h.nd
    rw [List.map_append, List.nodup_append] at this
    exact this.1
  · intro s o v s' o' v' h' t h1 h2 h3 h4
    exact h.nc s o v s' o' v' h' t (List.mem_append_left _ h1) h2 (List.mem_append_left _ h3) h4

theorem hC18P_Good_perm (sep : Str) (A B : List (RKey × RVal)) (hp : A.Perm B) (h : hC18P_Good sep B) :
    hC18P_Good sep A := by
  refine ⟨fun kv hkv => h.ok kv (hp.mem_iff.mp hkv), ?_, ?_⟩
  · exact ((hp.map (·.1)).nodup_iff).mpr h.nd
  · intro s o v s' o' v' h' t h1 h2 h3 h4
    exact h.nc s o v s' o' v' h' t (hp.mem_iff.mp h1) h2 (hp.mem_iff.mp h3) h4

structure hC18P_Inv (sep : Str) (P upd : List (RKey × RVal)) : Prop where
  nd : (upd.map (·.1)).Nodup
  leaf : ∀ s o v, (RKey.str s o, v) ∈ P → splitFirst sep s = none → rlookup (.str s o) upd = some v
  node : ∀ h, hC18P_tails sep h P ≠ [] →
    rlookup (.str h false) upd = some (.dict (hC18P_tails sep h P))
  ell : (RKey.ell, RVal.ell) ∈ P → rlookup .ell upd = some .ell
  back : ∀ K w, rlookup K upd = some w →
    (∃ s o, K = .str s o ∧ splitFirst sep s = none ∧ (K, w) ∈ P) ∨
    (∃ h, K = .str h false ∧ hC18P_tails sep h P ≠ [] ∧ w = .dict (hC18P_tails sep h P)) ∨
    (K = .ell ∧ w = .ell ∧ (RKey.ell, RVal.ell) ∈ P)

theorem hC18P_Inv_nil (sep : Str) : hC18P_Inv sep [] [] := by
  refine ⟨by simp, ?_, ?_, ?_, ?_⟩
  · intro s o v h; simp at h
  · intro h hne; simp [hC18P_tails] at hne
  · intro h; simp at h
  · intro K w h; simp [rlookup] at h

/-- a key not yet seen: not among the processed keys -/
theorem hC18P_fresh_key (sep : Str) (P : List (RKey × RVal)) (x : RKey × RVal)
    (hg : hC18P_Good sep (P ++ [x])) (w : RVal) : (x.1, w) ∉ P := by
  intro hm
  have := hg.nd
  rw [List.map_append, List.nodup_append] at this
  exact this.2.2 x.1 (List.mem_map_of_mem (f := (·.1)) hm) x.1 (by simp) rfl

/-- step, `...: ...` entry -/
theorem hC18P_step_ell (sep : Str) (P upd : List (RKey × RVal))
    (_hg : hC18P_Good sep (P ++ [(RKey.ell, RVal.ell)])) (hi : hC18P_Inv sep P upd) :
    hC18P_Inv sep (P ++ [(RKey.ell, RVal.ell)]) (rupsert upd .ell .ell) := by
  refine ⟨hC18P_rupsert_nodup _ _ _ hi.nd, ?_, ?_, ?_, ?_⟩
  · intro s o v hm hsp
    rw [hC18P_rlookup_rupsert]
    simp only [reduceCtorEq, if_false]
    simp only [List.mem_append, List.mem_singleton, Prod.mk.injEq, reduceCtorEq, false_and, or_false] at hm
    exact hi.leaf s o v hm hsp
  · intro h hne
    rw [hC18P_tails_append, hC18P_tails_ell, List.append_nil] at hne ⊢
    rw [hC18P_rlookup_rupsert]
    simp only [reduceCtorEq, if_false]
    exact hi.node h hne
  · intro _
    rw [hC18P_rlookup_rupsert]; simp
  · intro K w hl
    rw [hC18P_rlookup_rupsert] at hl
    split at hl
    · rename_i e; subst e
      simp at hl; subst hl
      exact Or.inr (Or.inr ⟨rfl, rfl, by simp⟩)
    · rcases hi.back K w hl with ⟨s, o, e, hsp, hm⟩ | ⟨h, e, hne, hw⟩ | ⟨e, hw, hm⟩
      · exact Or.inl ⟨s, o, e, hsp, List.mem_append_left _ hm⟩
      · refine Or.inr (Or.inl ⟨h, e, ?_, ?_⟩)
        · rw [hC18P_tails_append, hC18P_tails_ell, List.append_nil]; exact hne
        · rw [hC18P_tails_append, hC18P_tails_ell, List.append_nil]; exact hw
      · exact Or.inr (Or.inr ⟨e, hw, List.mem_append_left _ hm⟩)

/-- step, separator-free key -/
theorem hC18P_step_leaf (sep : Str) (P upd : List (RKey × RVal)) (s : Str) (o : Bool) (v : RVal)
    (hsp : splitFirst sep s = none)
    (hg : hC18P_Good sep (P ++ [(RKey.str s o, v)])) (hi : hC18P_Inv sep P upd) :
    hC18P_Inv sep (P ++ [(RKey.str s o, v)]) (rupsert upd (.str s o) v) := by
  have hfresh := hC18P_fresh_key sep P _ hg
  refine ⟨hC18P_rupsert_nodup _ _ _ hi.nd, ?_, ?_, ?_, ?_⟩
  · intro s1 o1 v1 hm hsp1
    rw [hC18P_rlookup_rupsert]
    simp only [List.mem_append, List.mem_singleton] at hm
    rcases hm with hm | hm
    · have : RKey.str s1 o1 ≠ RKey.str s o := by
        intro e; rw [e] at hm; exact hfresh v1 hm
      simp only [this, if_false]
      exact hi.leaf s1 o1 v1 hm hsp1
    · injection hm with e1 e2; rw [e1, e2]; simp
  · intro h hne
    rw [hC18P_tails_append, hC18P_tails_nosplit sep h s o v hsp, List.append_nil] at hne ⊢
    rw [hC18P_rlookup_rupsert]
    have : RKey.str h false ≠ RKey.str s o := by
      intro e; injection e with e1 e2; subst e1
      obtain ⟨s', o', v', t, hm, hsp'⟩ := hC18P_tails_ne_nil sep h P hne
      exact hg.nc h o v s' o' v' h t (by simp) hsp (List.mem_append_left _ hm) hsp' rfl
    simp only [this, if_false]
    exact hi.node h hne
  · intro hm
    rw [hC18P_rlookup_rupsert]
    simp only [reduceCtorEq, if_false]
    simp only [List.mem_append, List.mem_singleton, Prod.mk.injEq, reduceCtorEq, false_and, or_false] at hm
    exact hi.ell hm
  · intro K w hl
    rw [hC18P_rlookup_rupsert] at hl
    split at hl
    · rename_i e; subst e
      simp at hl; subst hl
      exact Or.inl ⟨s, o, rfl, hsp, by simp⟩
    · rcases hi.back K w hl with ⟨s1, o1, e, hsp1, hm⟩ | ⟨h, e, hne, hw⟩ | ⟨e, hw, hm⟩
      · exact Or.inl ⟨s1, o1, e, hsp1, List.mem_append_left _ hm⟩
      · refine Or.inr (Or.inl ⟨h, e, ?_, ?_⟩)
        · rw [hC18P_tails_append, hC18P_tails_nosplit sep h s o v hsp, List.append_nil]; exact hne
        · rw [hC18P_tails_append, hC18P_tails_nosplit sep h s o v hsp, List.append_nil]; exact hw
      · exact Or.inr (Or.inr ⟨e, hw, List.mem_append_left _ hm⟩)

/-- step, key with a separator: the invariant for the merged table -/
theorem hC18P_step_node_inv (sep : Str) (P upd : List (RKey × RVal)) (s h t : Str) (o : Bool) (v : RVal)
    (hsp : splitFirst sep s = some (h, t))
    (hg : hC18P_Good sep (P ++ [(RKey.str s o, v)])) (hi : hC18P_Inv sep P upd) :
    hC18P_Inv sep (P ++ [(RKey.str s o, v)])
      (rupsert upd (.str h false) (.dict (hC18P_tails sep h (P ++ [(RKey.str s o, v)])))) := by
  have hT : ∀ h1, h1 ≠ h → hC18P_tails sep h1 (P ++ [(RKey.str s o, v)]) = hC18P_tails sep h1 P := by
    intro h1 hne
    rw [hC18P_tails_append, hC18P_tails_split sep h1 s h t o v hsp]
    have : ¬ h = h1 := fun e => hne e.symm
    simp [this]
  refine ⟨hC18P_rupsert_nodup _ _ _ hi.nd, ?_, ?_, ?_, ?_⟩
  · intro s1 o1 v1 hm hsp1
    rw [hC18P_rlookup_rupsert]
    simp only [List.mem_append, List.mem_singleton] at hm
    rcases hm with hm | hm
    · have : RKey.str s1 o1 ≠ RKey.str h false := by
        intro e; injection e with e1 e2; subst e1
        exact hg.nc s1 o1 v1 s o v s1 t (List.mem_append_left _ hm) hsp1 (by simp) hsp rfl
      simp only [this, if_false]
      exact hi.leaf s1 o1 v1 hm hsp1
    · injection hm with e1 e2; injection e1 with e3 e4; subst e3
      rw [hsp] at hsp1; cases hsp1
  · intro h1 hne
    rw [hC18P_rlookup_rupsert]
    by_cases e : h1 = h
    · subst e; simp
    · have : RKey.str h1 false ≠ RKey.str h false := by
        intro e'; injection e' with e1; exact e e1
      simp only [this, if_false]
      rw [hT h1 e] at hne ⊢
      exact hi.node h1 hne
  · intro hm
    rw [hC18P_rlookup_rupsert]
    simp only [reduceCtorEq, if_false]
    simp only [List.mem_append, List.mem_singleton, Prod.mk.injEq, reduceCtorEq, false_and, or_false] at hm
    exact hi.ell hm
  · intro K w hl
    rw [hC18P_rlookup_rupsert] at hl
    split at hl
    · rename_i e; subst e
      simp at hl; subst hl
      refine Or.inr (Or.inl ⟨h, rfl, ?_, rfl⟩)
      rw [hC18P_tails_append, hC18P_tails_split sep h s h t o v hsp]
      simp
    · rename_i hK
      rcases hi.back K w hl with ⟨s1, o1, e, hsp1, hm⟩ | ⟨h1, e, hne, hw⟩ | ⟨e, hw, hm⟩
      · exact Or.inl ⟨s1, o1, e, hsp1, List.mem_append_left _ hm⟩
      · have hh : h1 ≠ h := by intro e'; subst e'; exact hK e
        refine Or.inr (Or.inl ⟨h1, e, ?_, ?_⟩)
        · rw [hT h1 hh]; exact hne
        · rw [hT h1 hh]; exact hw
      · exact Or.inr (Or.inr ⟨e, hw, List.mem_append_left _ hm⟩)

/-- step, key with a separator: the step computes the merged table -/
theorem hC18P_step_node_eq (sep : Str) (hs : sep ≠ []) (P upd : List (RKey × RVal)) (s h t : Str) (o : Bool) (v : RVal)
    (hsp : splitFirst sep s = some (h, t))
    (hg : hC18P_Good sep (P ++ [(RKey.str s o, v)])) (hi : hC18P_Inv sep P upd) :
    rolloutStep sep upd (RKey.str s o, v) =
      .ok (rupsert upd (.str h false) (.dict (hC18P_tails sep h (P ++ [(RKey.str s o, v)])))) := by
  have hTx : hC18P_tails sep h (P ++ [(RKey.str s o, v)]) = hC18P_tails sep h P ++ [(RKey.str t o, v)] := by
    rw [hC18P_tails_append, hC18P_tails_split sep h s h t o v hsp]; simp
  have hnoleaf : ∀ w, ¬ (splitFirst sep h = none ∧ (RKey.str h false, w) ∈ P) := by
    rintro w ⟨h1, h2⟩
    exact hg.nc h false w s o v h t (List.mem_append_left _ h2) h1 (by simp) hsp rfl
  simp only [rolloutStep, hsp]
  cases hl : rlookup (RKey.str h false) upd with
  | none =>
    have hTn : hC18P_tails sep h P = [] := by
      by_cases e : hC18P_tails sep h P = []
      · exact e
      · rw [hi.node h e] at hl; cases hl
    simp only [hTx, hTn, List.nil_append]
    rw [rupsert_fresh _ _ _ hl]
  | some w =>
    rcases hi.back _ w hl with ⟨s1, o1, e, hsp1, hm⟩ | ⟨h1, e, hne, hw⟩ | ⟨e, _, _⟩
    · injection e with e1 e2; subst e1
      exact absurd ⟨hsp1, hm⟩ (hnoleaf w)
    · injection e with e1 e2; subst e1
      subst hw
      simp only
      have hfr : rlookup (RKey.str t o) (hC18P_tails sep h P) = none := by
        rw [rlookup_none_iff]
        intro kv hkv e
        obtain ⟨s', o', v', t', hm, hsp', rfl⟩ := (hC18P_tails_mem sep h P kv).mp hkv
        simp only at e
        injection e with e1 e2; subst e1; subst e2
        have e1 := splitFirst_some sep s' h t' hs hsp'
        have e2 := splitFirst_some sep s h t' hs hsp
        rw [← e2] at e1; subst e1
        exact hC18P_fresh_key sep P _ hg v' hm
      rw [rupsert_fresh _ _ _ hfr, hTx]
    · cases e

/-! ### the first loop establishes the invariant -/

theorem hC18P_step (sep : Str) (hs : sep ≠ []) (P upd : List (RKey × RVal)) (x : RKey × RVal)
    (hg : hC18P_Good sep (P ++ [x])) (hi : hC18P_Inv sep P upd) :
    ∃ upd', rolloutStep sep upd x = .ok upd' ∧ hC18P_Inv sep (P ++ [x]) upd' := by
  rcases hg.ok x (by simp) with ⟨s, o, e⟩ | e
  · obtain ⟨k, v⟩ := x
    simp only at e; subst e
    cases hsp : splitFirst sep s with
    | none =>
      exact ⟨_, by simp only [rolloutStep, hsp], hC18P_step_leaf sep P upd s o v hsp hg hi⟩
    | some ht =>
      obtain ⟨h, t⟩ := ht
      exact ⟨_, hC18P_step_node_eq sep hs P upd s h t o v hsp hg hi,
        hC18P_step_node_inv sep P upd s h t o v hsp hg hi⟩
  · subst e
    exact ⟨_, by simp only [rolloutStep], hC18P_step_ell sep P upd hg hi⟩

theorem hC18P_pass_gen (sep : Str) (hs : sep ≠ []) : ∀ (S P upd : List (RKey × RVal)),
    hC18P_Good sep (P ++ S) → hC18P_Inv sep P upd →
    ∃ upd', rolloutPass sep upd S = .ok upd' ∧ hC18P_Inv sep (P ++ S) upd' := by
  intro S
  induction S with
  | nil => intro P upd _ hi; exact ⟨upd, by simp [rolloutPass], by simpa using hi⟩
  | cons x S ih =>
    intro P upd hg hi
    have hg' : hC18P_Good sep ((P ++ [x]) ++ S) := by simpa using hg
    obtain ⟨u1, h1, hi1⟩ := hC18P_step sep hs P upd x (hC18P_Good_prefix sep _ _ hg') hi
    obtain ⟨u2, h2, hi2⟩ := ih (P ++ [x]) u1 hg' hi1
    refine ⟨u2, ?_, by simpa using hi2⟩
    simp only [rolloutPass, h1, bind, Except.bind]
    exact h2

theorem hC18P_pass (sep : Str) (hs : sep ≠ []) (fl : List (RKey × RVal)) (hg : hC18P_Good sep fl) :
    ∃ upd, rolloutPass sep [] fl = .ok upd ∧ hC18P_Inv sep fl upd := by
  simpa using hC18P_pass_gen sep hs fl [] [] (by simpa using hg) (hC18P_Inv_nil sep)

/-! ### structure of the flattened list -/

theorem hC18P_wf_mem (sep : Str) : ∀ (kids : List (Str × Bool × Tree)), WFKids sep kids →
    ∀ k o t, (k, o, t) ∈ kids →
      NoSep sep k ∧ SepSafe sep k ∧ (match t with | .leaf _ => True | .node _ => o = false) ∧ WFTree sep t
  | [], _, k, o, t, h => by simp at h
  | (k1, o1, t1) :: r, hw, k, o, t, h => by
    simp only [WFKids] at hw
    rcases List.mem_cons.mp h with e | h
    · injection e with e1 e2; injection e2 with e2 e3; subst e1; subst e2; subst e3
      exact ⟨hw.1, hw.2.1, hw.2.2.1, hw.2.2.2.1⟩
    · exact hC18P_wf_mem sep r hw.2.2.2.2 k o t h

theorem hC18P_kids_unique (kids : List (Str × Bool × Tree)) (hn : (kids.map (·.1)).Nodup)
    (k : Str) (a b : Bool × Tree) (ha : (k, a) ∈ kids) (hb : (k, b) ∈ kids) : a = b := by
  induction kids with
  | nil => simp at ha
  | cons x r ih =>
    simp only [List.map_cons, List.nodup_cons] at hn
    rcases List.mem_cons.mp ha with ea | ha' <;> rcases List.mem_cons.mp hb with eb | hb'
    · rw [← eb] at ea; injection ea
    · subst ea; exact absurd (List.mem_map_of_mem (f := (·.1)) hb') hn.1
    · subst eb; exact absurd (List.mem_map_of_mem (f := (·.1)) ha') hn.1
    · exact ih hn.2 ha' hb'

/-- every flat entry is a leaf child, or a prefixed flat entry of a node child -/
theorem hC18P_flat_cases (sep : Str) : ∀ (kids : List (Str × Bool × Tree)), WFKids sep kids →
    ∀ kv ∈ flattenKids sep kids,
      (∃ k o p, (k, o, Tree.leaf p) ∈ kids ∧ kv = (RKey.str k o, RVal.leaf p)) ∨
      (∃ k o kids' s0 o0 v0, (k, o, Tree.node kids') ∈ kids ∧
        (RKey.str s0 o0, v0) ∈ flattenKids sep kids' ∧ kv = (RKey.str (k ++ sep ++ s0) o0, v0))
  | [], _, kv, h => by simp [flattenKids] at h
  | (k, o, .leaf p) :: r, hw, kv, h => by
    simp only [WFKids] at hw
    simp only [flattenKids, List.mem_cons] at h
    rcases h with rfl | h
    · exact Or.inl ⟨k, o, p, by simp, rfl⟩
    · rcases hC18P_flat_cases sep r hw.2.2.2.2 kv h with ⟨k1, o1, p1, hm, e⟩ | ⟨k1, o1, kids1, s0, o0, v0, hm, hm0, e⟩
      · exact Or.inl ⟨k1, o1, p1, List.mem_cons_of_mem _ hm, e⟩
      · exact Or.inr ⟨k1, o1, kids1, s0, o0, v0, List.mem_cons_of_mem _ hm, hm0, e⟩
  | (k, o, .node kids') :: r, hw, kv, h => by
    simp only [WFKids, WFTree] at hw
    rw [flattenKids_node, List.mem_append, List.mem_map] at h
    rcases h with ⟨kv0, h0, rfl⟩ | h
    · obtain ⟨s0, o0, e0⟩ := flat_allStr sep kids' hw.2.2.2.1.2.2 kv0 h0
      obtain ⟨k0, v0⟩ := kv0
      simp only at e0; subst e0
      exact Or.inr ⟨k, o, kids', s0, o0, v0, by simp, h0, by simp [pref]⟩
    · rcases hC18P_flat_cases sep r hw.2.2.2.2 kv h with ⟨k1, o1, p1, hm, e⟩ | ⟨k1, o1, kids1, s0, o0, v0, hm, hm0, e⟩
      · exact Or.inl ⟨k1, o1, p1, List.mem_cons_of_mem _ hm, e⟩
      · exact Or.inr ⟨k1, o1, kids1, s0, o0, v0, List.mem_cons_of_mem _ hm, hm0, e⟩

theorem hC18P_flat_mem_leaf (sep : Str) : ∀ (kids : List (Str × Bool × Tree)) (k : Str) (o : Bool) (p : Nat),
    (k, o, Tree.leaf p) ∈ kids → (RKey.str k o, RVal.leaf p) ∈ flattenKids sep kids
  | [], k, o, p, h => by simp at h
  | (k1, o1, .leaf p1) :: r, k, o, p, h => by
    simp only [flattenKids, List.mem_cons]
    rcases List.mem_cons.mp h with e | h
    · left; injection e with e1 e2; injection e2 with e2 e3; injection e3 with e3
      subst e1; subst e2; subst e3; rfl
    · exact Or.inr (hC18P_flat_mem_leaf sep r k o p h)
  | (k1, o1, .node kids1) :: r, k, o, p, h => by
    rw [flattenKids_node, List.mem_append]
    rcases List.mem_cons.mp h with e | h
    · injection e with e1 e2; injection e2 with e2 e3; cases e3
    · exact Or.inr (hC18P_flat_mem_leaf sep r k o p h)

theorem hC18P_tails_pref (sep k h : Str) (hk : SepSafe sep k) : ∀ (L : List (RKey × RVal)), AllStr L →
    hC18P_tails sep h (L.map (pref sep k)) = if k = h then L else [] := by
  intro L
  induction L with
  | nil => intro _; simp [hC18P_tails]
  | cons kv r ih =>
    intro ha
    obtain ⟨s, o, e1⟩ := ha kv (List.mem_cons_self ..)
    obtain ⟨k1, v⟩ := kv
    simp only at e1; subst e1
    have har : AllStr r := fun x hx => ha x (List.mem_cons_of_mem _ hx)
    have := ih har
    have e : pref sep k (RKey.str s o, v) = (RKey.str (k ++ sep ++ s) o, v) := by simp [pref]
    rw [List.map_cons, e, ← List.singleton_append, hC18P_tails_append, this,
      hC18P_tails_split sep h _ k s o v (hk s)]
    by_cases e' : k = h <;> simp [e']

/-- the tails grouped under `h` are exactly the flattening of the node child `h` -/
theorem hC18P_tails_flat (sep : Str) : ∀ (kids : List (Str × Bool × Tree)), WFKids sep kids →
    (kids.map (·.1)).Nodup → ∀ h,
      (∀ o kids', (h, o, Tree.node kids') ∈ kids → hC18P_tails sep h (flattenKids sep kids) = flattenKids sep kids') ∧
      ((∀ o kids', (h, o, Tree.node kids') ∉ kids) → hC18P_tails sep h (flattenKids sep kids) = [])
  | [], _, _, h => by simp [flattenKids, hC18P_tails]
  | (k, o, .leaf p) :: r, hw, hn, h => by
    simp only [WFKids] at hw
    simp only [List.map_cons, List.nodup_cons] at hn
    have ih := hC18P_tails_flat sep r hw.2.2.2.2 hn.2 h
    have e : hC18P_tails sep h (flattenKids sep ((k, o, Tree.leaf p) :: r)) = hC18P_tails sep h (flattenKids sep r) := by
      rw [flattenKids, ← List.singleton_append, hC18P_tails_append,
        hC18P_tails_nosplit sep h k o _ hw.1, List.nil_append]
    rw [e]
    constructor
    · intro o' kids' hm
      rcases List.mem_cons.mp hm with e' | hm
      · injection e' with e1 e2; injection e2 with e2 e3; cases e3
      · exact ih.1 o' kids' hm
    · intro hno
      exact ih.2 (fun o' kids' hm => hno o' kids' (List.mem_cons_of_mem _ hm))
  | (k, o, .node kids1) :: r, hw, hn, h => by
    simp only [WFKids, WFTree] at hw
    simp only [List.map_cons, List.nodup_cons] at hn
    have ih := hC18P_tails_flat sep r hw.2.2.2.2 hn.2 h
    have e : hC18P_tails sep h (flattenKids sep ((k, o, Tree.node kids1) :: r)) =
        (if k = h then flattenKids sep kids1 else []) ++ hC18P_tails sep h (flattenKids sep r) := by
      rw [flattenKids_node, hC18P_tails_append,
        hC18P_tails_pref sep k h hw.2.1 _ (flat_allStr sep kids1 hw.2.2.2.1.2.2)]
    rw [e]
    constructor
    · intro o' kids' hm
      rcases List.mem_cons.mp hm with e' | hm
      · injection e' with e1 e2; injection e2 with e2 e3; injection e3 with e3
        subst e1; subst e3
        have : hC18P_tails sep h (flattenKids sep r) = [] := by
          apply ih.2
          intro o2 kids2 hm2
          exact hn.1 (List.mem_map_of_mem (f := (·.1)) hm2)
        simp [this]
      · have : k ≠ h := by
          intro e'; subst e'
          exact hn.1 (List.mem_map_of_mem (f := (·.1)) hm)
        simp [this, ih.1 o' kids' hm]
    · intro hno
      have : k ≠ h := by
        intro e'; subst e'
        exact hno o kids1 (by simp)
      simp only [this, if_false, List.nil_append]
      exact ih.2 (fun o' kids' hm => hno o' kids' (List.mem_cons_of_mem _ hm))

theorem hC18P_tails_flat_ne (sep : Str) (kids : List (Str × Bool × Tree)) (hw : WFKids sep kids)
    (hn : (kids.map (·.1)).Nodup) (h : Str) (hne : hC18P_tails sep h (flattenKids sep kids) ≠ []) :
    ∃ o kids', (h, o, Tree.node kids') ∈ kids := by
  apply Classical.byContradiction
  intro hc
  apply hne
  apply (hC18P_tails_flat sep kids hw hn h).2
  intro o kids' hm
  exact hc ⟨o, kids', hm⟩

theorem hC18P_depth_mem : ∀ (kids : List (Str × Bool × Tree)) (k : Str) (o : Bool) (kids' : List (Str × Bool × Tree)),
    (k, o, Tree.node kids') ∈ kids → tdepthK kids' + 1 ≤ tdepthK kids
  | [], k, o, kids', h => by simp at h
  | (k1, o1, .leaf p1) :: r, k, o, kids', h => by
    rcases List.mem_cons.mp h with e | h
    · injection e with e1 e2; injection e2 with e2 e3; cases e3
    · have := hC18P_depth_mem r k o kids' h
      simp only [tdepthK]; omega
  | (k1, o1, .node kids1) :: r, k, o, kids', h => by
    rcases List.mem_cons.mp h with e | h
    · injection e with e1 e2; injection e2 with e2 e3; injection e3 with e3
      subst e3
      simp only [tdepthK]; omega
    · have := hC18P_depth_mem r k o kids' h
      simp only [tdepthK]; omega

/-! ### the flattened list (with an optional `...` entry) is well-behaved -/

theorem hC18P_good_flat (sep : Str) (kids : List (Str × Bool × Tree)) (hw : WFKids sep kids)
    (hn : (kids.map (·.1)).Nodup) (E : List (RKey × RVal)) (hE : E = [] ∨ E = [(RKey.ell, RVal.ell)]) :
    hC18P_Good sep (flattenKids sep kids ++ E) := by
  have hmemE : ∀ kv ∈ E, kv = (RKey.ell, RVal.ell) := by
    intro kv hkv; rcases hE with rfl | rfl <;> simp at hkv; exact hkv
  have hstr : ∀ s o v, (RKey.str s o, v) ∈ flattenKids sep kids ++ E → (RKey.str s o, v) ∈ flattenKids sep kids := by
    intro s o v hm
    rcases List.mem_append.mp hm with hm | hm
    · exact hm
    · have := hmemE _ hm; injection this with e; cases e
  refine ⟨?_, ?_, ?_⟩
  · intro kv hkv
    rcases List.mem_append.mp hkv with hm | hm
    · exact Or.inl (flat_allStr sep kids hw kv hm)
    · exact Or.inr (hmemE kv hm)
  · rw [List.map_append, List.nodup_append]
    refine ⟨flat_nodup sep kids hw hn, ?_, ?_⟩
    · rcases hE with rfl | rfl <;> simp
    · intro a ha b hb e
      subst e
      simp only [List.mem_map] at ha hb
      obtain ⟨kv, hkv, e1⟩ := ha
      obtain ⟨kv2, hkv2, e2⟩ := hb
      obtain ⟨s, o, e3⟩ := flat_allStr sep kids hw kv hkv
      have := hmemE kv2 hkv2
      subst this
      rw [← e2, e3] at e1; cases e1
  · intro s o v s' o' v' h t h1 hsp h2 hsp' e
    subst e
    have h1 := hstr _ _ _ h1
    have h2 := hstr _ _ _ h2
    rcases hC18P_flat_cases sep kids hw _ h1 with ⟨k1, o1, p1, hm1, e1⟩ | ⟨k1, o1, kids1, s0, o0, v0, hm1, _, e1⟩
    · injection e1 with e1 e1'; injection e1 with e1 e1''
      subst e1
      rcases hC18P_flat_cases sep kids hw _ h2 with ⟨k2, o2, p2, hm2, e2⟩ | ⟨k2, o2, kids2, s2, o2', v2, hm2, _, e2⟩
      · injection e2 with e2 e2'; injection e2 with e2 e2''
        subst e2
        have := (hC18P_wf_mem sep kids hw _ _ _ hm2).1
        rw [show splitFirst sep s' = none from this] at hsp'; cases hsp'
      · injection e2 with e2 e2'; injection e2 with e2 e2''
        subst e2
        have := (hC18P_wf_mem sep kids hw _ _ _ hm2).2.1 s2
        rw [this] at hsp'
        injection hsp' with e; injection e with e3 e4
        subst e3
        have := hC18P_kids_unique kids hn _ _ _ hm1 hm2
        injection this with _ e5; cases e5
    · injection e1 with e1 e1'; injection e1 with e1 e1''
      subst e1
      have := (hC18P_wf_mem sep kids hw _ _ _ hm1).2.1 s0
      rw [this] at hsp; cases hsp

/-! ### lookups in the nested mapping -/

theorem hC18P_toKVs_keys : ∀ (kids : List (Str × Bool × Tree)) (K : RKey),
    K ∈ (Tree.toRVal.toKVs kids).map (·.1) ↔ ∃ k o t, (k, o, t) ∈ kids ∧ K = RKey.str k o
  | [], K => by simp [Tree.toRVal.toKVs]
  | (k1, o1, t1) :: r, K => by
    simp only [Tree.toRVal.toKVs, List.map_cons, List.mem_cons, hC18P_toKVs_keys r K]
    constructor
    · rintro (e | ⟨k, o, t, hm, e⟩)
      · exact ⟨k1, o1, t1, Or.inl rfl, e⟩
      · exact ⟨k, o, t, Or.inr hm, e⟩
    · rintro ⟨k, o, t, hm | hm, e⟩
      · injection hm with e1 e2; injection e2 with e2 e3; subst e1; subst e2; exact Or.inl e
      · exact Or.inr ⟨k, o, t, hm, e⟩

theorem hC18P_toKVs_lookup : ∀ (kids : List (Str × Bool × Tree)), (kids.map (·.1)).Nodup →
    ∀ k o t, (k, o, t) ∈ kids → rlookup (RKey.str k o) (Tree.toRVal.toKVs kids) = some t.toRVal
  | [], _, k, o, t, h => by simp at h
  | (k1, o1, t1) :: r, hn, k, o, t, h => by
    simp only [List.map_cons, List.nodup_cons] at hn
    simp only [Tree.toRVal.toKVs, rlookup]
    rcases List.mem_cons.mp h with e | h2
    · injection e with e1 e2; injection e2 with e2 e3; subst e1; subst e2; subst e3; simp
    · have : k ≠ k1 := by
        intro e; subst e
        have := List.mem_map_of_mem (f := (·.1)) h2
        exact hn.1 this
      simp [this, hC18P_toKVs_lookup r hn.2 k o t h2]

theorem hC18P_toKVs_nodup (kids : List (Str × Bool × Tree)) (hn : (kids.map (·.1)).Nodup) :
    ((Tree.toRVal.toKVs kids).map (·.1)).Nodup := by
  induction kids with
  | nil => simp [Tree.toRVal.toKVs]
  | cons x r ih =>
    obtain ⟨k, o, t⟩ := x
    simp only [List.map_cons, List.nodup_cons] at hn
    simp only [Tree.toRVal.toKVs, List.map_cons, List.nodup_cons]
    refine ⟨?_, ih hn.2⟩
    intro hm
    obtain ⟨k', o', t', hm', e⟩ := (hC18P_toKVs_keys r _).mp hm
    injection e with e1 e2; subst e1
    have := List.mem_map_of_mem (f := (·.1)) hm'
    exact hn.1 this

theorem hC18P_toKVs_length (kids : List (Str × Bool × Tree)) :
    (Tree.toRVal.toKVs kids).length = kids.length := by
  induction kids with
  | nil => simp [Tree.toRVal.toKVs]
  | cons x r ih => obtain ⟨k, o, t⟩ := x; simp [Tree.toRVal.toKVs, ih]

/-! ### `REquivL`, `RNodupL` by membership -/

theorem hC18P_REquivL_iff (a b : List (RKey × RVal)) :
    REquivL a b ↔ ∀ kv ∈ a, ∃ w, rlookup kv.1 b = some w ∧ REquiv kv.2 w := by
  induction a with
  | nil => simp [REquivL]
  | cons x r ih =>
    obtain ⟨k, v⟩ := x
    simp only [REquivL, ih, List.mem_cons, forall_eq_or_imp]

theorem hC18P_RNodupL_iff (a : List (RKey × RVal)) :
    RNodupL a ↔ ∀ kv ∈ a, RNodup kv.2 := by
  induction a with
  | nil => simp [RNodupL]
  | cons x r ih =>
    obtain ⟨k, v⟩ := x
    simp only [RNodupL, ih, List.mem_cons, forall_eq_or_imp]

/-! ### the second loop -/

theorem hC18P_mapM_recF (sep : Str) (f : Nat) (Q : RKey → RVal → Prop) : ∀ (upd : List (RKey × RVal)),
    (∀ kv ∈ upd, ∃ v', recF sep f kv = .ok (kv.1, v') ∧ Q kv.1 v') →
    ∃ r, upd.mapM (recF sep f) = .ok r ∧ r.map (·.1) = upd.map (·.1) ∧ ∀ kv' ∈ r, Q kv'.1 kv'.2 := by
  intro upd
  induction upd with
  | nil => intro _; exact ⟨[], by simp [pure, Except.pure], rfl, by simp⟩
  | cons x r ih =>
    intro h
    obtain ⟨v', h1, h2⟩ := h x (List.mem_cons_self ..)
    obtain ⟨r', h3, h4, h5⟩ := ih (fun kv hkv => h kv (List.mem_cons_of_mem _ hkv))
    refine ⟨(x.1, v') :: r', ?_, by simp [h4], ?_⟩
    · simp only [List.mapM_cons, h1, h3, bind, Except.bind, pure, Except.pure]
    · intro kv' hkv'
      rcases List.mem_cons.mp hkv' with e | hm
      · subst e; exact h2
      · exact h5 kv' hm

theorem hC18P_rsizeL_perm (a b : List (RKey × RVal)) (hp : a.Perm b) : rsize.rsizeL a = rsize.rsizeL b := by
  induction hp with
  | nil => rfl
  | cons x _ ih => obtain ⟨k, v⟩ := x; simp only [rsize.rsizeL, ih]
  | swap x y l => obtain ⟨k, v⟩ := x; obtain ⟨k', v'⟩ := y; simp only [rsize.rsizeL]; omega
  | trans _ _ ih1 ih2 => rw [ih1, ih2]

/-! ### one level of rollout on a permuted flat list -/

theorem hC18P_tails_E (sep h : Str) (E : List (RKey × RVal)) (hE : E = [] ∨ E = [(RKey.ell, RVal.ell)]) :
    hC18P_tails sep h E = [] := by
  rcases hE with rfl | rfl
  · rfl
  · exact hC18P_tails_ell sep h _

theorem hC18P_main_step (sep : Str) (hs : sep ≠ []) (f : Nat)
    (IH : ∀ (kids' : List (Str × Bool × Tree)) (d : List (RKey × RVal)), WFTree sep (.node kids') →
      d.Perm (flattenKids sep kids') → tdepthK kids' + 1 ≤ f →
      ∃ r', rolloutF sep f d = .ok r' ∧ REquiv (.dict r') (.dict (Tree.toRVal.toKVs kids')) ∧ RNodup (.dict r'))
    (kids : List (Str × Bool × Tree)) (hw : WFKids sep kids) (hn : (kids.map (·.1)).Nodup)
    (E : List (RKey × RVal)) (hE : E = [] ∨ E = [(RKey.ell, RVal.ell)])
    (fl : List (RKey × RVal)) (hp : fl.Perm (flattenKids sep kids ++ E)) (hd : tdepthK kids ≤ f) :
    ∃ r, rolloutF sep (f + 1) fl = .ok r ∧
      REquiv (.dict r) (.dict (Tree.toRVal.toKVs kids ++ E)) ∧ RNodup (.dict r) := by
  have hgood : hC18P_Good sep fl := hC18P_Good_perm sep _ _ hp (hC18P_good_flat sep kids hw hn E hE)
  obtain ⟨upd, hpass, inv⟩ := hC18P_pass sep hs fl hgood
  have hmemE : ∀ kv ∈ E, kv = (RKey.ell, RVal.ell) := by
    intro kv hkv; rcases hE with rfl | rfl <;> simp at hkv; exact hkv
  -- membership of string keys in `fl`
  have hstr : ∀ s o v, (RKey.str s o, v) ∈ fl ↔ (RKey.str s o, v) ∈ flattenKids sep kids := by
    intro s o v
    rw [hp.mem_iff, List.mem_append]
    constructor
    · rintro (hm | hm)
      · exact hm
      · have := hmemE _ hm; injection this with e; cases e
    · exact Or.inl
  -- the tails in `fl`
  have htl : ∀ h, (hC18P_tails sep h fl).Perm (hC18P_tails sep h (flattenKids sep kids)) := by
    intro h
    have := hp.filterMap (hC18P_tailOf sep h)
    have e : hC18P_tails sep h (flattenKids sep kids ++ E) = hC18P_tails sep h (flattenKids sep kids) := by
      rw [hC18P_tails_append, hC18P_tails_E sep h E hE, List.append_nil]
    rw [← e]; exact this
  -- lookups in the target
  have htn : ((Tree.toRVal.toKVs kids ++ E).map (·.1)).Nodup := by
    rw [List.map_append, List.nodup_append]
    refine ⟨hC18P_toKVs_nodup kids hn, by rcases hE with rfl | rfl <;> simp, ?_⟩
    intro a ha b hb e
    subst e
    obtain ⟨k, o, t, _, e⟩ := (hC18P_toKVs_keys kids a).mp ha
    simp only [List.mem_map] at hb
    obtain ⟨kv2, hkv2, e2⟩ := hb
    have := hmemE kv2 hkv2
    subst this
    rw [e] at e2; cases e2
  have htk : ∀ k o t, (k, o, t) ∈ kids → rlookup (RKey.str k o) (Tree.toRVal.toKVs kids ++ E) = some t.toRVal :=
    fun k o t hm => hC18P_rlookup_append_some _ _ _ _ (hC18P_toKVs_lookup kids hn k o t hm)
  -- every entry of `upd` is processed by the second loop and lands in the target
  let Q : RKey → RVal → Prop := fun K v' =>
    ∃ w, rlookup K (Tree.toRVal.toKVs kids ++ E) = some w ∧ REquiv v' w ∧ RNodup v'
  have hall : ∀ kv ∈ upd, ∃ v', recF sep f kv = .ok (kv.1, v') ∧ Q kv.1 v' := by
    intro kv hkv
    obtain ⟨K, val⟩ := kv
    have hl := hC18P_mem_rlookup K val upd inv.nd hkv
    rcases inv.back K val hl with ⟨s, o, e, hsp, hm⟩ | ⟨h, e, hne, hv⟩ | ⟨e, hv, hm⟩
    · subst e
      have hm := (hstr s o val).mp hm
      rcases hC18P_flat_cases sep kids hw _ hm with ⟨k1, o1, p1, hm1, e1⟩ | ⟨k1, o1, kids1, s0, o0, v0, hm1, _, e1⟩
      · injection e1 with e1 e1'; injection e1 with e1 e1''
        subst e1; subst e1'; subst e1''
        refine ⟨.leaf p1, by simp [recF, pure, Except.pure], .leaf p1, ?_, by simp [REquiv], by simp [RNodup]⟩
        exact htk _ _ _ hm1
      · injection e1 with e1 e1'; injection e1 with e1 e1''
        subst e1
        have := (hC18P_wf_mem sep kids hw _ _ _ hm1).2.1 s0
        rw [this] at hsp; cases hsp
    · subst e; subst hv
      have hne' : hC18P_tails sep h (flattenKids sep kids) ≠ [] := by
        intro e
        have := (htl h).length_eq
        rw [e] at this
        exact hne (List.length_eq_zero_iff.mp this)
      obtain ⟨o, kids', hm⟩ := hC18P_tails_flat_ne sep kids hw hn h hne'
      have hwf := hC18P_wf_mem sep kids hw _ _ _ hm
      have ho : o = false := hwf.2.2.1
      subst ho
      have hperm : (hC18P_tails sep h fl).Perm (flattenKids sep kids') := by
        have := htl h
        rwa [(hC18P_tails_flat sep kids hw hn h).1 _ _ hm] at this
      have hdep := hC18P_depth_mem kids _ _ _ hm
      obtain ⟨r', hr1, hr2, hr3⟩ := IH kids' _ hwf.2.2.2 hperm (by omega)
      refine ⟨.dict r', by simp [recF, hr1, bind, Except.bind, pure, Except.pure],
        .dict (Tree.toRVal.toKVs kids'), ?_, hr2, hr3⟩
      have := htk _ _ _ hm
      simpa [Tree.toRVal] using this
    · subst e; subst hv
      have hm' : (RKey.ell, RVal.ell) ∈ E := by
        rcases List.mem_append.mp (hp.mem_iff.mp hm) with hm | hm
        · obtain ⟨s, o, e⟩ := flat_allStr sep kids hw _ hm
          cases e
        · exact hm
      refine ⟨.ell, by simp [recF, pure, Except.pure], .ell, ?_, by simp [REquiv], by simp [RNodup]⟩
      exact hC18P_mem_rlookup _ _ _ htn (List.mem_append_right _ hm')
  obtain ⟨r, hr1, hr2, hr3⟩ := hC18P_mapM_recF sep f Q upd hall
  refine ⟨r, ?_, ?_, ?_⟩
  · rw [rolloutF_succ sep hs, hpass]
    simpa [bind, Except.bind] using hr1
  · simp only [REquiv]
    constructor
    · -- lengths: the key lists are permutations of each other
      have hperm : (upd.map (·.1)).Perm ((Tree.toRVal.toKVs kids ++ E).map (·.1)) := by
        rw [List.perm_ext_iff_of_nodup inv.nd htn]
        intro K
        constructor
        · intro hK
          simp only [List.mem_map] at hK
          obtain ⟨kv, hkv, e⟩ := hK
          obtain ⟨v', _, w, hw1, _⟩ := hall kv hkv
          rw [e] at hw1
          exact (hC18P_rlookup_isSome_iff K _).mpr ⟨w, hw1⟩
        · intro hK
          rw [List.map_append, List.mem_append] at hK
          rw [hC18P_rlookup_isSome_iff]
          rcases hK with hK | hK
          · obtain ⟨k, o, t, hm, e⟩ := (hC18P_toKVs_keys kids K).mp hK
            subst e
            have hwf := hC18P_wf_mem sep kids hw _ _ _ hm
            cases t with
            | leaf p =>
              exact ⟨_, inv.leaf k o (.leaf p) ((hstr _ _ _).mpr (hC18P_flat_mem_leaf sep kids k o p hm)) hwf.1⟩
            | node kids' =>
              have ho : o = false := hwf.2.2.1
              subst ho
              have hwt := hwf.2.2.2
              simp only [WFTree] at hwt
              have hne : hC18P_tails sep k fl ≠ [] := by
                intro e
                have := (htl k).length_eq
                rw [e, (hC18P_tails_flat sep kids hw hn k).1 _ _ hm] at this
                exact flat_ne sep kids' hwt.2.2 hwt.1 (List.length_eq_zero_iff.mp this.symm)
              exact ⟨_, inv.node k hne⟩
          · simp only [List.mem_map] at hK
            obtain ⟨kv2, hkv2, e2⟩ := hK
            have := hmemE kv2 hkv2
            subst this
            subst e2
            exact ⟨_, inv.ell (hp.mem_iff.mpr (List.mem_append_right _ hkv2))⟩
      have h1 := hperm.length_eq
      have h2 := congrArg List.length hr2
      simp only [List.length_map] at h1 h2
      omega
    · rw [hC18P_REquivL_iff]
      intro kv hkv
      obtain ⟨w, h1, h2, _⟩ := hr3 kv hkv
      exact ⟨w, h1, h2⟩
  · simp only [RNodup]
    refine ⟨by rw [hr2]; exact inv.nd, ?_⟩
    rw [hC18P_RNodupL_iff]
    intro kv hkv
    obtain ⟨w, _, _, h3⟩ := hr3 kv hkv
    exact h3

theorem hC18P_main (sep : Str) (hs : sep ≠ []) : ∀ (f : Nat)
    (kids : List (Str × Bool × Tree)), WFKids sep kids → (kids.map (·.1)).Nodup →
    ∀ (E : List (RKey × RVal)), (E = [] ∨ E = [(RKey.ell, RVal.ell)]) →
    ∀ (fl : List (RKey × RVal)), fl.Perm (flattenKids sep kids ++ E) → tdepthK kids ≤ f →
    ∃ r, rolloutF sep (f + 1) fl = .ok r ∧
      REquiv (.dict r) (.dict (Tree.toRVal.toKVs kids ++ E)) ∧ RNodup (.dict r) := by
  intro f
  induction f with
  | zero =>
    intro kids hw hn E hE fl hp hd
    exact hC18P_main_step sep hs 0 (fun _ _ _ _ h => by omega) kids hw hn E hE fl hp hd
  | succ f ih =>
    intro kids hw hn E hE fl hp hd
    refine hC18P_main_step sep hs (f + 1) ?_ kids hw hn E hE fl hp hd
    intro kids' d hwt hpd hdd
    simp only [WFTree] at hwt
    have := ih kids' hwt.2.2 hwt.2.1 [] (Or.inl rfl) d (by simpa using hpd) (by omega)
    simpa using this

/-! ### reflexivity and symmetry of `REquiv` -/

mutual
theorem hC18P_refl : ∀ (v : RVal), RNodup v → REquiv v v
  | .leaf p, _ => by simp [REquiv]
  | .ell, _ => by simp [REquiv]
  | .dict a, h => by
    simp only [RNodup] at h
    simp only [REquiv, true_and]
    rw [hC18P_REquivL_iff]
    intro kv hkv
    exact ⟨kv.2, hC18P_mem_rlookup kv.1 kv.2 a h.1 hkv, hC18P_refl_list a h.2 kv hkv⟩
theorem hC18P_refl_list : ∀ (a : List (RKey × RVal)), RNodupL a → ∀ kv ∈ a, REquiv kv.2 kv.2
  | [], _, kv, hm => by simp at hm
  | (k, v) :: r, h, kv, hm => by
    simp only [RNodupL] at h
    rcases List.mem_cons.mp hm with e | hm2
    · subst e; exact hC18P_refl v h.1
    · exact hC18P_refl_list r h.2 kv hm2
end

/-- pigeonhole: a duplicate-free list included in a list that is not longer covers it -/
theorem hC18P_subset_of_length {α : Type} [DecidableEq α] : ∀ (l₁ l₂ : List α), l₁.Nodup →
    (∀ x ∈ l₁, x ∈ l₂) → l₂.length ≤ l₁.length → ∀ y ∈ l₂, y ∈ l₁ := by
  intro l₁
  induction l₁ with
  | nil =>
    intro l₂ _ _ hl y hy
    have : l₂ = [] := List.length_eq_zero_iff.mp (by simpa using hl)
    subst this; exact hy
  | cons x r ih =>
    intro l₂ hn hsub hl y hy
    simp only [List.nodup_cons] at hn
    have hx : x ∈ l₂ := hsub x (List.mem_cons_self ..)
    have hsub' : ∀ z ∈ r, z ∈ l₂.erase x := by
      intro z hz
      have : z ≠ x := fun e => hn.1 (e ▸ hz)
      exact (List.mem_erase_of_ne this).mpr (hsub z (List.mem_cons_of_mem _ hz))
    have hl' : (l₂.erase x).length ≤ r.length := by
      rw [List.length_erase_of_mem hx]
      simp only [List.length_cons] at hl; omega
    by_cases e : y = x
    · subst e; exact List.mem_cons_self ..
    · exact List.mem_cons_of_mem _ (ih (l₂.erase x) hn.2 hsub' hl' y ((List.mem_erase_of_ne e).mpr hy))

mutual
theorem hC18P_symm : ∀ (a b : RVal), RNodup a → RNodup b → REquiv a b → REquiv b a
  | .leaf p, b, _, _, h => by
    cases b <;> simp [REquiv] at h ⊢
    exact h.symm
  | .ell, b, _, _, h => by
    cases b <;> simp [REquiv] at h ⊢
  | .dict a, b, ha, hb, h => by
    cases b with
    | leaf q => simp [REquiv] at h
    | ell => simp [REquiv] at h
    | dict b =>
      simp only [RNodup] at ha hb
      simp only [REquiv] at h ⊢
      obtain ⟨hlen, hab⟩ := h
      rw [hC18P_REquivL_iff] at hab
      refine ⟨hlen.symm, ?_⟩
      rw [hC18P_REquivL_iff]
      intro kv hkv
      -- the key of `kv` occurs in `a`
      have hsub : ∀ K ∈ a.map (·.1), K ∈ b.map (·.1) := by
        intro K hK
        simp only [List.mem_map] at hK
        obtain ⟨kv1, hkv1, e⟩ := hK
        obtain ⟨w, hw, _⟩ := hab kv1 hkv1
        rw [e] at hw
        exact (hC18P_rlookup_isSome_iff K b).mpr ⟨w, hw⟩
      have hin : kv.1 ∈ a.map (·.1) :=
        hC18P_subset_of_length (a.map (·.1)) (b.map (·.1)) ha.1 hsub (by simp [hlen]) kv.1
          (List.mem_map_of_mem (f := (·.1)) hkv)
      simp only [List.mem_map] at hin
      obtain ⟨kv1, hkv1, e⟩ := hin
      obtain ⟨w, hw, hvw⟩ := hab kv1 hkv1
      have hw' := hC18P_mem_rlookup kv.1 kv.2 b hb.1 hkv
      rw [e, hw'] at hw
      injection hw with hw; subst hw
      refine ⟨kv1.2, ?_, ?_⟩
      · rw [← e]; exact hC18P_mem_rlookup kv1.1 kv1.2 a ha.1 hkv1
      · exact hC18P_symm_list a ha.2 kv1 hkv1 kv.2 ((hC18P_RNodupL_iff b).mp hb.2 kv hkv) hvw
theorem hC18P_symm_list : ∀ (a : List (RKey × RVal)), RNodupL a → ∀ kv ∈ a, ∀ w, RNodup w →
    REquiv kv.2 w → REquiv w kv.2
  | [], _, kv, hm, _, _, _ => by simp at hm
  | (k, v) :: r, h, kv, hm, w, hw, he => by
    simp only [RNodupL] at h
    rcases List.mem_cons.mp hm with e | hm2
    · subst e; exact hC18P_symm v w h.1 hw he
    · exact hC18P_symm_list r h.2 kv hm2 w hw he
end

/-! ### theorems to prove -/

/-- **C18 (any order).** For every ordering `fl` of the flattened keys, rollout succeeds and returns a
    mapping equal (as a mapping, at every level) to the nested one; its keys are distinct at every level. -/
theorem rollout_flatten_perm (sep : Str) (hs : sep ≠ []) (kids : List (Str × Bool × Tree))
    (hw : WFTree sep (.node kids)) (fl : List (RKey × RVal)) (hp : fl.Perm (flattenKids sep kids)) :
    ∃ r, rollout sep fl = .ok r ∧ REquiv (.dict r) (.dict (Tree.toRVal.toKVs kids)) ∧ RNodup (.dict r) := by
  simp only [WFTree] at hw
  have hd := depth_le_flat sep hs kids hw.2.2
  rw [← hC18P_rsizeL_perm _ _ hp] at hd
  unfold rollout
  simp only [rsize]
  have := hC18P_main sep hs (1 + rsize.rsizeL fl) kids hw.2.2 hw.2.1 [] (Or.inl rfl) fl
    (by simpa using hp) (by omega)
  simpa using this

/-- the same with a top-level `...: ...` entry at any position of the flat mapping -/
theorem rollout_flatten_perm_ell (sep : Str) (hs : sep ≠ []) (kids : List (Str × Bool × Tree))
    (hw : WFTree sep (.node kids)) (fl : List (RKey × RVal))
    (hp : fl.Perm (flattenKids sep kids ++ [(.ell, .ell)])) :
    ∃ r, rollout sep fl = .ok r ∧
      REquiv (.dict r) (.dict (Tree.toRVal.toKVs kids ++ [(.ell, .ell)])) ∧ RNodup (.dict r) := by
  simp only [WFTree] at hw
  have hd := depth_le_flat sep hs kids hw.2.2
  have hsz := hC18P_rsizeL_perm _ _ hp
  rw [rsizeL_append] at hsz
  unfold rollout
  simp only [rsize]
  exact hC18P_main sep hs (1 + rsize.rsizeL fl) kids hw.2.2 hw.2.1 _ (Or.inr rfl) fl hp (by omega)

/-- `REquiv` is reflexive on values with distinct keys (so the statement above is not vacuous: the
    depth-first order of `rollout_flatten` is one instance) -/
theorem REquiv_refl (v : RVal) (h : RNodup v) : REquiv v v := hC18P_refl v h

/-- `REquiv` between mappings with distinct keys is symmetric — it really is mapping equality, not inclusion -/
theorem REquiv_symm (a b : RVal) (ha : RNodup a) (hb : RNodup b) (h : REquiv a b) : REquiv b a :=
  hC18P_symm a b ha hb h

/-- non-vacuity: {"a": {"b": 1, "c": 2}, "d": 3} flattened with "." in the order d, a.c, a.b -/
theorem rollout_perm_example :
    rollout [46] [(.str [100] false, .leaf 3), (.str [97, 46, 99] false, .leaf 2), (.str [97, 46, 98] true, .leaf 1)]
      = .ok [(.str [100] false, .leaf 3), (.str [97] false, .dict [(.str [99] false, .leaf 2), (.str [98] true, .leaf 1)])] := by
  simp [rollout, rsize, rsize.rsizeL, rolloutF, rolloutPass, rolloutStep, splitFirst, rlookup, rupsert,
    List.isPrefixOf, bind, Except.bind, pure, Except.pure]

end D42
