/-
  C13 — schema combinators mean what their parts mean.
  All statements are about the declarative meaning `Conforms` (equivalent to "validate reports no
  errors" by C02's `validate_iff_conforms`).
-/
import D42.Model.Decl
import D42.Props.C02

namespace D42

/-! ### unions -/

theorem AnyC_append (env : Env) (xs ys : List Schema) (v : PyVal) :
    AnyC env (xs ++ ys) v ↔ AnyC env xs v ∨ AnyC env ys v := by
  induction xs with
  | nil => simp [AnyC]
  | cons x xs ih => simp [AnyC, ih, or_assoc]

/-- nested unions flatten without changing meaning -/
theorem flattenAny_meaning (env : Env) : ∀ (ts : List Schema) (v : PyVal),
    AnyC env (flattenAny ts) v ↔ AnyC env ts v
  | [], v => by simp [flattenAny]
  | .any (some us) :: r, v => by
    simp only [flattenAny, AnyC_append, AnyC, Conforms]
    rw [flattenAny_meaning env us v, flattenAny_meaning env r v]
  | .any none :: r, v => by simp [flattenAny, AnyC, flattenAny_meaning env r v]
  | .scalar k :: r, v => by simp [flattenAny, AnyC, flattenAny_meaning env r v]
  | .listU L :: r, v => by simp [flattenAny, AnyC, flattenAny_meaning env r v]
  | .listT t L :: r, v => by simp [flattenAny, AnyC, flattenAny_meaning env r v]
  | .listE a b c d :: r, v => by simp [flattenAny, AnyC, flattenAny_meaning env r v]
  | .dict a b :: r, v => by simp [flattenAny, AnyC, flattenAny_meaning env r v]
  | .alias a b :: r, v => by simp [flattenAny, AnyC, flattenAny_meaning env r v]
  | .custom a :: r, v => by simp [flattenAny, AnyC, flattenAny_meaning env r v]

/-- **`a | b` accepts exactly the union** -/
theorem union_meaning (env : Env) (a b : Schema) (v : PyVal) :
    Conforms env (a.union b) v ↔ Conforms env a v ∨ Conforms env b v := by
  simp [Schema.union, Conforms, flattenAny_meaning, AnyC]

/-- `schema.any(t1, …, tn)` accepts exactly what some alternative accepts, whatever the nesting -/
theorem anyCall_meaning (env : Env) (ss : List Schema) (v : PyVal) :
    Conforms env (.any (some (flattenAny ss))) v ↔ ∃ s ∈ ss, Conforms env s v := by
  simp only [Conforms, flattenAny_meaning]
  induction ss with
  | nil => simp [AnyC]
  | cons s ss ih => simp [AnyC, ih]

/-- **alias** accepts exactly what its target accepts -/
theorem alias_meaning (env : Env) (n : Option Str) (t : Schema) (v : PyVal) :
    Conforms env (.alias n t) v ↔ Conforms env t v := by simp [Conforms]

/-! ### `d[key]`, iteration -/

/-- `d[key]` is the declared member schema -/
theorem getItem_spec (fs : List (PyKey × Bool × Schema)) (e : Option Nat) (k : PyKey) (s : Schema) :
    getItem (.dict (some fs) e) k = .ok s ↔ ∃ f, fs.find? (fun f => f.1 == k) = some f ∧ f.2.2 = s := by
  unfold getItem
  cases h : fs.find? (fun f => f.1 == k) <;> simp [h]

theorem getItem_missing (fs : List (PyKey × Bool × Schema)) (e : Option Nat) (k : PyKey)
    (h : hasField k fs = false) : getItem (.dict (some fs) e) k = .error .keyError := by
  unfold getItem
  have : fs.find? (fun f => f.1 == k) = none := by
    simp only [hasField] at h
    rw [List.find?_eq_none]
    intro f hf hk
    have : fs.any (fun f => f.1 == k) = true := List.any_eq_true.2 ⟨f, hf, hk⟩
    simp [this] at h
  simp [this]

/-! ### make_required -/

theorem FieldsC_required (env : Env) (ks : List PyKey) : ∀ (fs : List (PyKey × Bool × Schema)) (kvs : List (PyKey × PyVal)),
    FieldsC env (fs.map (fun f => (f.1, (if ks.contains f.1 then false else f.2.1), f.2.2))) kvs ↔
      FieldsC env fs kvs ∧ ∀ f ∈ fs, f.1 ∈ ks → (lookupKey f.1 kvs).isSome
  | [], kvs => by simp [FieldsC]
  | (k, o, s) :: fs, kvs => by
    simp only [List.map_cons, FieldsC, FieldsC_required env ks fs kvs, List.mem_cons, forall_eq_or_imp]
    cases hl : lookupKey k kvs with
    | some x =>
      simp only [Option.isSome_some, implies_true, true_and]
      exact and_assoc.symm
    | none =>
      by_cases hk : k ∈ ks
      · simp [hk]
      · simp only [List.contains_eq_mem, hk, decide_false, Bool.false_eq_true, if_false,
          Option.isSome_none, false_imp_iff, true_and]
        exact and_assoc.symm

theorem hasField_map_flags (k : PyKey) (g : PyKey × Bool × Schema → Bool) (fs : List (PyKey × Bool × Schema)) :
    hasField k (fs.map (fun f => (f.1, g f, f.2.2))) = hasField k fs := by
  simp [hasField, List.any_map, Function.comp_def]

/-- **make_required(d, keys)** accepts exactly the values `d` accepts in which the listed keys are present -/
theorem makeRequired_meaning (env : Env) (fs : List (PyKey × Bool × Schema)) (e : Option Nat) (ks : List PyKey)
    (r : Schema) (v : PyVal) (h : makeRequired (.dict (some fs) e) (some ks) = .ok r) :
    Conforms env r v ↔ Conforms env (.dict (some fs) e) v ∧
      ∃ kvs, v = .dict kvs ∧ ∀ f ∈ fs, f.1 ∈ ks → (lookupKey f.1 kvs).isSome := by
  simp only [makeRequired] at h
  split at h
  · simp only [Except.ok.injEq] at h; subst h
    simp only [Conforms,
      hasField_map_flags _ (fun f => if ks.contains f.1 then false else f.2.1) fs]
    constructor
    · rintro ⟨kvs, rfl, hfp, hx⟩
      obtain ⟨hf, hp⟩ := (FieldsC_required env ks fs kvs).1 hfp
      exact ⟨⟨kvs, rfl, hf, hx⟩, kvs, rfl, hp⟩
    · rintro ⟨⟨kvs, rfl, hf, hx⟩, kvs', hk, hp⟩
      cases hk
      exact ⟨kvs, rfl, (FieldsC_required env ks fs kvs).2 ⟨hf, hp⟩, hx⟩
  · simp [DErr] at h

/-- the default (`keys=None`) makes every declared key required -/
theorem makeRequired_all_meaning (env : Env) (fs : List (PyKey × Bool × Schema)) (e : Option Nat) (v : PyVal) :
    ∃ r, makeRequired (.dict (some fs) e) none = .ok r ∧
      (Conforms env r v ↔ Conforms env (.dict (some fs) e) v ∧
        ∃ kvs, v = .dict kvs ∧ ∀ f ∈ fs, (lookupKey f.1 kvs).isSome) := by
  refine ⟨_, rfl, ?_⟩
  have hmem : ∀ f ∈ fs, f.1 ∈ fs.map (·.1) := fun f hf => List.mem_map.2 ⟨f, hf, rfl⟩
  have hmap : fs.map (fun f => (f.1, false, f.2.2)) =
      fs.map (fun f => (f.1, (if (fs.map (·.1)).contains f.1 then false else f.2.1), f.2.2)) := by
    apply List.map_congr_left
    intro f hf
    have : (fs.map (·.1)).contains f.1 = true := by
      rw [List.contains_iff_mem]; exact hmem f hf
    simp only [this, if_true]
  rw [hmap]
  simp only [Conforms,
    hasField_map_flags _ (fun f => if (fs.map (·.1)).contains f.1 then false else f.2.1) fs]
  constructor
  · rintro ⟨kvs, rfl, hfp, hx⟩
    obtain ⟨hf, hp⟩ := (FieldsC_required env (fs.map (·.1)) fs kvs).1 hfp
    exact ⟨⟨kvs, rfl, hf, hx⟩, kvs, rfl, fun f hf' => hp f hf' (hmem f hf')⟩
  · rintro ⟨⟨kvs, rfl, hf, hx⟩, kvs', hk, hp⟩
    cases hk
    exact ⟨kvs, rfl, (FieldsC_required env (fs.map (·.1)) fs kvs).2 ⟨hf, fun f hf' _ => hp f hf'⟩, hx⟩

set_option linter.unusedVariables false in
/-- a key that is not declared is refused -/
theorem makeRequired_unknown_key (fs : List (PyKey × Bool × Schema)) (ks : List PyKey) (k : PyKey)
    (hk : k ∈ ks) (hf : hasField k fs = false) (hne : k ≠ PyKey.ellipsis) :
    makeRequired (.dict (some fs) none) (some ks) = .error .declarationError := by
  simp only [makeRequired]
  split
  · rename_i h
    have := List.all_eq_true.1 h k hk
    simp [hf] at this
  · rfl

/-! ### `d1 + d2` -/

/-- `d1 + d2` is relaxed exactly when either operand is -/
theorem add_relaxed (fa fb : Option (List (PyKey × Bool × Schema))) (ea eb : Option Nat) :
    ∃ fs ell, (Schema.dict fa ea).add (.dict fb eb) = some (.dict (some fs) ell) ∧
      ell.isSome = (ea.isSome || eb.isSome) := by
  refine ⟨_, _, rfl, ?_⟩
  cases ea <;> cases eb <;> simp

/-- order-free meaning of a dict schema given as a key table -/
def DictMeaning (env : Env) (table : PyKey → Option (Bool × Schema)) (relaxed : Bool) (v : PyVal) : Prop :=
  ∃ kvs, v = .dict kvs ∧
    (∀ k opt s, table k = some (opt, s) →
      (match lookupKey k kvs with | some x => Conforms env s x | none => opt = true)) ∧
    (relaxed = false → ∀ kv ∈ kvs, (table kv.1).isSome)

def tableOf (fs : List (PyKey × Bool × Schema)) : PyKey → Option (Bool × Schema) :=
  fun k => (fs.find? (fun f => f.1 == k)).map (·.2)

theorem tableOf_nil (k : PyKey) : tableOf [] k = none := by simp [tableOf]

theorem tableOf_cons (f : PyKey × Bool × Schema) (fs : List (PyKey × Bool × Schema)) (k : PyKey) :
    tableOf (f :: fs) k = if f.1 = k then some f.2 else tableOf fs k := by
  simp only [tableOf, List.find?_cons]
  by_cases h : f.1 = k
  · simp [h]
  · have : (f.1 == k) = false := by simpa using h
    simp [this, h]

theorem hasField_eq_tableOf (k : PyKey) : ∀ (fs : List (PyKey × Bool × Schema)),
    hasField k fs = (tableOf fs k).isSome
  | [] => by simp [hasField, tableOf]
  | f :: fs => by
    have ih := hasField_eq_tableOf k fs
    simp only [hasField] at ih
    simp only [hasField, List.any_cons, tableOf_cons, ih]
    by_cases h : f.1 = k
    · simp [h]
    · have : (f.1 == k) = false := by simpa using h
      simp [this, h]

theorem tableOf_some_mem (fs : List (PyKey × Bool × Schema)) (k : PyKey) (x : Bool × Schema)
    (h : tableOf fs k = some x) : k ∈ fs.map (·.1) := by
  have h1 : hasField k fs = true := by rw [hasField_eq_tableOf, h]; rfl
  simp only [hasField, List.any_eq_true] at h1
  obtain ⟨f, hf, hk⟩ := h1
  have : f.1 = k := by simpa using hk
  exact List.mem_map.2 ⟨f, hf, this⟩

theorem tableOf_none_of_not_mem (fs : List (PyKey × Bool × Schema)) (k : PyKey)
    (h : k ∉ fs.map (·.1)) : tableOf fs k = none := by
  cases hx : tableOf fs k with
  | none => rfl
  | some x => exact absurd (tableOf_some_mem fs k x hx) h

theorem FieldsC_table (env : Env) (kvs : List (PyKey × PyVal)) : ∀ (fs : List (PyKey × Bool × Schema)),
    (fs.map (·.1)).Nodup →
    (FieldsC env fs kvs ↔ ∀ k opt s, tableOf fs k = some (opt, s) →
      (match lookupKey k kvs with | some x => Conforms env s x | none => opt = true))
  | [], _ => by simp [FieldsC, tableOf_nil]
  | (k0, o0, s0) :: fs, hn => by
    simp only [List.map_cons, List.nodup_cons] at hn
    obtain ⟨hnot, hn'⟩ := hn
    have ih := FieldsC_table env kvs fs hn'
    simp only [FieldsC, ih]
    constructor
    · rintro ⟨hh, ht⟩ k opt s hk
      rw [tableOf_cons] at hk
      by_cases hkk : k0 = k
      · subst hkk
        simp only [if_true, Option.some.injEq, Prod.mk.injEq] at hk
        obtain ⟨rfl, rfl⟩ := hk
        exact hh
      · simp only [hkk, if_false] at hk
        exact ht k opt s hk
    · intro h
      refine ⟨?_, ?_⟩
      · exact h k0 o0 s0 (by simp [tableOf_cons])
      · intro k opt s hk
        have hmem := tableOf_some_mem fs k _ hk
        have hkk : ¬ k0 = k := by
          intro e; subst e; exact hnot hmem
        exact h k opt s (by rw [tableOf_cons]; simp only [hkk, if_false]; exact hk)

/-- a declared dict schema (distinct keys) means its key table -/
theorem dict_meaning (env : Env) (fs : List (PyKey × Bool × Schema)) (e : Option Nat) (v : PyVal)
    (hn : (fs.map (·.1)).Nodup) :
    Conforms env (.dict (some fs) e) v ↔ DictMeaning env (tableOf fs) e.isSome v := by
  simp only [Conforms, DictMeaning]
  constructor
  · rintro ⟨kvs, rfl, hf, hx⟩
    refine ⟨kvs, rfl, (FieldsC_table env kvs fs hn).1 hf, ?_⟩
    intro he kv hkv
    rw [← hasField_eq_tableOf]
    exact hx (by cases e <;> simp_all) kv hkv
  · rintro ⟨kvs, rfl, hf, hx⟩
    refine ⟨kvs, rfl, (FieldsC_table env kvs fs hn).2 hf, ?_⟩
    intro he kv hkv
    rw [hasField_eq_tableOf]
    exact hx (by subst he; rfl) kv hkv

theorem tableOf_map_replace (k : PyKey) (o : Bool) (s : Schema) (k' : PyKey) :
    ∀ (fs : List (PyKey × Bool × Schema)),
    tableOf (fs.map (fun f => if f.1 == k then (k, o, s) else f)) k' =
      if k = k' then (tableOf fs k).map (fun _ => (o, s)) else tableOf fs k'
  | [] => by simp [tableOf_nil]
  | f :: fs => by
    have ih := tableOf_map_replace k o s k' fs
    simp only [List.map_cons, tableOf_cons, ih]
    by_cases h1 : f.1 = k
    · simp only [if_true, h1]
      by_cases h2 : k = k'
      · simp [h2]
      · simp [h2]
    · have hb : (f.1 == k) = false := by simpa using h1
      simp only [hb, h1, if_false, Bool.false_eq_true]
      by_cases h2 : k = k'
      · subst h2
        simp [h1]
      · simp [h2]

theorem tableOf_append_single (x : PyKey × Bool × Schema) (k' : PyKey) :
    ∀ (fs : List (PyKey × Bool × Schema)),
    tableOf (fs ++ [x]) k' =
      (match tableOf fs k' with | some y => some y | none => if x.1 = k' then some x.2 else none)
  | [] => by simp [tableOf_cons, tableOf_nil]
  | f :: fs => by
    have ih := tableOf_append_single x k' fs
    simp only [List.cons_append, tableOf_cons, ih]
    by_cases h : f.1 = k'
    · simp [h]
    · simp [h]

theorem tableOf_upsert (fs : List (PyKey × Bool × Schema)) (k : PyKey) (o : Bool) (s : Schema) (k' : PyKey) :
    tableOf (upsertField fs k o s) k' = if k = k' then some (o, s) else tableOf fs k' := by
  unfold upsertField
  by_cases hf : hasField k fs = true
  · simp only [hf, if_true, tableOf_map_replace]
    by_cases h : k = k'
    · rw [hasField_eq_tableOf] at hf
      cases hx : tableOf fs k with
      | none => rw [hx] at hf; simp at hf
      | some y => simp [h]
    · simp [h]
  · have hf' : hasField k fs = false := by simpa using hf
    simp only [hf', Bool.false_eq_true, if_false, tableOf_append_single]
    by_cases h : k = k'
    · subst h
      rw [hasField_eq_tableOf] at hf'
      cases hx : tableOf fs k with
      | none => simp
      | some y => rw [hx] at hf'; simp at hf'
    · simp only [h, if_false]
      cases tableOf fs k' <;> rfl

theorem upsert_nodup (fs : List (PyKey × Bool × Schema)) (k : PyKey) (o : Bool) (s : Schema)
    (hn : (fs.map (·.1)).Nodup) : ((upsertField fs k o s).map (·.1)).Nodup := by
  unfold upsertField
  by_cases hf : hasField k fs = true
  · simp only [hf, if_true]
    have : (fs.map (fun f => if f.1 == k then (k, o, s) else f)).map (·.1) = fs.map (·.1) := by
      rw [List.map_map]
      apply List.map_congr_left
      intro f _
      by_cases h : f.1 = k
      · simp [h]
      · simp [h]
    rw [this]; exact hn
  · have hf' : hasField k fs = false := by simpa using hf
    simp only [hf', Bool.false_eq_true, if_false, List.map_append, List.map_cons, List.map_nil]
    have hnot : k ∉ fs.map (·.1) := by
      intro hm
      have := tableOf_none_of_not_mem fs k
      rw [hasField_eq_tableOf] at hf'
      obtain ⟨f, hfm, hk⟩ := List.mem_map.1 hm
      have : hasField k fs = true := by
        simp only [hasField, List.any_eq_true]
        exact ⟨f, hfm, by simpa using hk⟩
      rw [hasField_eq_tableOf] at this
      rw [this] at hf'; cases hf'
    rw [List.nodup_append]
    refine ⟨hn, by simp, ?_⟩
    intro a ha b hb
    simp only [List.mem_singleton] at hb
    subst hb
    intro e; subst e; exact hnot ha

/-- the key table of the merge: d2's entry where d2 declares the key, else d1's -/
theorem mergeFields_table (a b : List (PyKey × Bool × Schema)) (hb : (b.map (·.1)).Nodup) (k : PyKey) :
    tableOf (mergeFields a b) k = (match tableOf b k with | some x => some x | none => tableOf a k) := by
  induction b generalizing a with
  | nil => simp [mergeFields, tableOf_nil]
  | cons f b ih =>
    simp only [List.map_cons, List.nodup_cons] at hb
    obtain ⟨hnot, hb'⟩ := hb
    have ih' := ih (upsertField a f.1 f.2.1 f.2.2) hb'
    simp only [mergeFields, List.foldl_cons] at ih' ⊢
    rw [ih', tableOf_cons, tableOf_upsert]
    by_cases h : f.1 = k
    · subst h
      rw [tableOf_none_of_not_mem b f.1 hnot]
      simp
    · simp only [h, if_false]

theorem mergeFields_nodup (a b : List (PyKey × Bool × Schema)) (ha : (a.map (·.1)).Nodup) :
    ((mergeFields a b).map (·.1)).Nodup := by
  induction b generalizing a with
  | nil => simpa [mergeFields] using ha
  | cons f b ih =>
    have := ih (upsertField a f.1 f.2.1 f.2.2) (upsert_nodup a f.1 f.2.1 f.2.2 ha)
    simpa only [mergeFields, List.foldl_cons] using this

/-- **`d1 + d2`** accepts what a dict schema with d1's keys overridden and extended by d2's keys accepts,
    and is relaxed if either operand is -/
theorem add_meaning (env : Env) (a b : List (PyKey × Bool × Schema)) (ea eb : Option Nat) (v : PyVal) (r : Schema)
    (ha : (a.map (·.1)).Nodup) (hb : (b.map (·.1)).Nodup)
    (h : (Schema.dict (some a) ea).add (.dict (some b) eb) = some r) :
    Conforms env r v ↔
      DictMeaning env (fun k => match tableOf b k with | some x => some x | none => tableOf a k)
        (ea.isSome || eb.isSome) v := by
  simp only [Schema.add, Option.getD_some, Option.some.injEq] at h
  subst h
  rw [dict_meaning env _ _ v (mergeFields_nodup a b ha)]
  have ht : tableOf (mergeFields a b) =
      (fun k => match tableOf b k with | some x => some x | none => tableOf a k) :=
    funext (fun k => mergeFields_table a b hb k)
  rw [ht]
  cases ea <;> cases eb <;> exact Iff.rfl

end D42
