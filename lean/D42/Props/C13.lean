/- C13 (statements are being added) -/
import D42.Model.Decl
import D42.Spec.Conforms
