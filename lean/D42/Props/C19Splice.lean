/-
  C19 (whole module) — the rewriter's output is the source with exactly the import statements' spans
  replaced, everything between them byte-for-byte unchanged and in order — for any number of import
  statements, whether they own their physical lines or share them (`x = 1; from a import b; y = 2`).
-/
import D42.Props.C19

namespace D42.Migrate

def flat (ls : List Bytes) : Bytes := ls.foldl (· ++ ·) []

/-- byte offset of (1-based line, byte column) in the flattened source -/
def offsetOf (lines : List Bytes) (line col : Nat) : Nat := (flat (lines.take (line - 1))).length + col

/-- does the statement share its first or last physical line with other code (text before it, or a `;` after it) -/
def sharesLine (lines : List Bytes) (st : Stmt) : Bool :=
  let head := (lines.getD (st.lineno - 1) []).take st.col
  let tail := (lines.getD (st.endLineno - 1) []).drop st.endCol
  !(stripBoth head).isEmpty || (tail.dropWhile isSpace).head? == some 59

/-- the byte span the rewriter replaces for one statement, and the replacement text: the statement's own
    columns when it shares a line (replacement joined on one line, final newline stripped), its whole
    physical lines otherwise -/
def spanOf (lines : List Bytes) (r : Stmt × List Bytes) : Nat × Nat × Bytes :=
  if sharesLine lines r.1 then
    (offsetOf lines r.1.lineno r.1.col, offsetOf lines r.1.endLineno r.1.endCol, rstripNl (flat r.2))
  else
    (offsetOf lines r.1.lineno 0, offsetOf lines (r.1.endLineno + 1) 0, flat r.2)

/-- the specification: copy the source up to each span, emit the replacement, continue after the span -/
def spliceBytes (src : Bytes) : Nat → List (Nat × Nat × Bytes) → Bytes
  | pos, [] => src.drop pos
  | pos, (a, b, r) :: rest => (src.drop pos).take (a - pos) ++ r ++ spliceBytes src b rest

/-- what the parser guarantees about one reported statement: coordinates inside the text -/
def StmtInText (lines : List Bytes) (st : Stmt) : Prop :=
  1 ≤ st.lineno ∧ st.lineno ≤ st.endLineno ∧ st.endLineno ≤ lines.length ∧
  st.col ≤ (lines.getD (st.lineno - 1) []).length ∧ st.endCol ≤ (lines.getD (st.endLineno - 1) []).length ∧
  (st.lineno = st.endLineno → st.col ≤ st.endCol)

/-- what the parser guarantees about two statements in source order: the second starts on a later line, or
    on the first one's last line after a `;` that follows the first (only blanks in between), in which case the
    second has the first's text before it on its line -/
def Before (lines : List Bytes) (a b : Stmt) : Prop :=
  a.endLineno < b.lineno ∨
  (a.endLineno = b.lineno ∧
   (∃ k, a.endCol ≤ k ∧ k < b.col ∧ (lines.getD (a.endLineno - 1) [])[k]? = some 59 ∧
      ∀ j, a.endCol ≤ j → j < k → ∃ c, (lines.getD (a.endLineno - 1) [])[j]? = some c ∧ isSpace c = true) ∧
   stripBoth ((lines.getD (b.lineno - 1) []).take b.col) ≠ [])

def RepsOK (lines : List Bytes) (rs : List (Stmt × List Bytes)) : Prop :=
  (∀ r ∈ rs, StmtInText lines r.1) ∧ rs.Pairwise (fun a b => Before lines a.1 b.1)

/-! ### helper lemmas -/

theorem hC19S_flat_eq (ls : List Bytes) : flat ls = ls.flatten := by
  unfold flat
  induction ls with
  | nil => rfl
  | cons x r ih => simp only [List.foldl_cons, List.flatten_cons]; rw [foldl_append_acc, ih]; simp

def hC19S_off (lines : List Bytes) (n c : Nat) : Nat := (lines.take n).flatten.length + c

theorem hC19S_offsetOf (lines : List Bytes) (L c : Nat) : offsetOf lines L c = hC19S_off lines (L - 1) c := by
  simp [offsetOf, hC19S_off, hC19S_flat_eq]

theorem hC19S_flatten_drop (l : List Bytes) (n : Nat) :
    (l.drop n).flatten = l.getD n [] ++ (l.drop (n+1)).flatten := by
  by_cases h : n < l.length
  · rw [List.drop_eq_getElem_cons h, List.flatten_cons, List.getD_eq_getElem?_getD, List.getElem?_eq_getElem h]
    rfl
  · have h' : l.length ≤ n := by omega
    rw [List.drop_eq_nil_of_le h', List.drop_eq_nil_of_le (by omega), List.getD_eq_getElem?_getD, List.getElem?_eq_none h']
    rfl

theorem hC19S_flatten_split (l : List Bytes) (n : Nat) :
    l.flatten = (l.take n).flatten ++ l.getD n [] ++ (l.drop (n+1)).flatten := by
  conv => lhs; rw [← List.take_append_drop n l]
  rw [List.flatten_append, hC19S_flatten_drop, List.append_assoc]

theorem hC19S_take_app3 (A B C : Bytes) (c : Nat) (hc : c ≤ B.length) :
    (A ++ (B ++ C)).take (A.length + c) = A ++ B.take c := by
  rw [List.take_append, List.take_of_length_le (by omega), Nat.add_sub_cancel_left, List.take_append,
    show c - B.length = 0 by omega]
  simp

theorem hC19S_take_off (lines : List Bytes) (n c : Nat) (hc : c ≤ (lines.getD n []).length) :
    lines.flatten.take (hC19S_off lines n c) = (lines.take n).flatten ++ (lines.getD n []).take c := by
  conv => lhs; rw [hC19S_flatten_split lines n]
  unfold hC19S_off
  rw [List.append_assoc, hC19S_take_app3 _ _ _ _ hc]

theorem hC19S_take_drop_take (src : Bytes) (p a : Nat) (h : p ≤ a) :
    src.take p ++ (src.drop p).take (a - p) = src.take a := by
  rw [← List.drop_take]
  have : src.take p = (src.take a).take p := by rw [List.take_take]; congr; omega
  rw [this, List.take_append_drop]

/-- `cur` agrees with `lines` on the first `n` chunks and on the first `c` bytes of chunk `n` -/
def hC19S_Agree (cur lines : List Bytes) (n c : Nat) : Prop :=
  cur.take n = lines.take n ∧ (cur.getD n []).take c = (lines.getD n []).take c

theorem hC19S_agree_lt (cur lines : List Bytes) (n c m : Nat) (h : hC19S_Agree cur lines n c) (hm : m < n) :
    cur.take (m+1) = lines.take (m+1) ∧ cur.getD m [] = lines.getD m [] := by
  constructor
  · have h1 : cur.take (m+1) = (cur.take n).take (m+1) := by rw [List.take_take]; congr; omega
    have h2 : lines.take (m+1) = (lines.take n).take (m+1) := by rw [List.take_take]; congr; omega
    rw [h1, h2, h.1]
  · have h1 : cur.getD m [] = (cur.take n).getD m [] := by
      simp [List.getD_eq_getElem?_getD, hm]
    have h2 : lines.getD m [] = (lines.take n).getD m [] := by
      simp [List.getD_eq_getElem?_getD, hm]
    rw [h1, h2, h.1]

theorem hC19S_agree_mono (cur lines : List Bytes) (n c m d : Nat) (h : hC19S_Agree cur lines n c)
    (hm : m < n ∨ (m = n ∧ d ≤ c)) : hC19S_Agree cur lines m d := by
  rcases hm with hm | ⟨rfl, hd⟩
  · obtain ⟨h1, h2⟩ := hC19S_agree_lt cur lines n c m h hm
    refine ⟨?_, by rw [h2]⟩
    have a1 : cur.take m = (cur.take (m+1)).take m := by rw [List.take_take]; congr; omega
    have a2 : lines.take m = (lines.take (m+1)).take m := by rw [List.take_take]; congr; omega
    rw [a1, a2, h1]
  · refine ⟨h.1, ?_⟩
    have a1 : (cur.getD m []).take d = ((cur.getD m []).take c).take d := by rw [List.take_take]; congr; omega
    have a2 : (lines.getD m []).take d = ((lines.getD m []).take c).take d := by rw [List.take_take]; congr; omega
    rw [a1, a2, h.2]

theorem hC19S_tail (lines cur : List Bytes) (n c : Nat) (X : Bytes) (hag : hC19S_Agree cur lines n c)
    (hc : c ≤ (lines.getD n []).length)
    (h : cur.flatten = lines.flatten.take (hC19S_off lines n c) ++ X) :
    (cur.getD n []).drop c ++ (cur.drop (n+1)).flatten = X := by
  rw [hC19S_flatten_split cur n, hC19S_take_off lines n c hc, hag.1] at h
  have hs : cur.getD n [] = (lines.getD n []).take c ++ (cur.getD n []).drop c := by
    rw [← hag.2, List.take_append_drop]
  rw [hs] at h
  simp only [List.append_assoc] at h
  have h' := List.append_cancel_left (List.append_cancel_left h)
  rw [← h']

theorem hC19S_semi (l l' : Bytes) (k c : Nat) (hk2 : k < c) (h59 : l[k]? = some 59) (hag : l'.take c = l.take c) :
    ∀ (d ec : Nat), ec + d = k → (∀ j, ec ≤ j → j < k → ∃ x, l[j]? = some x ∧ isSpace x = true) →
    ((l'.drop ec).dropWhile isSpace).head? = some 59 := by
  have hget : ∀ j, j < c → l'[j]? = l[j]? := by
    intro j hj
    have := congrArg (fun t => t[j]?) hag
    simpa [List.getElem?_take, hj] using this
  intro d
  induction d with
  | zero =>
    intro ec hec _
    have hk : ec = k := by omega
    subst hk
    have h1 : l'[ec]? = some 59 := by rw [hget ec hk2]; exact h59
    obtain ⟨hlt, hv⟩ := List.getElem?_eq_some_iff.1 h1
    rw [List.drop_eq_getElem_cons hlt, hv]
    simp [isSpace]
  | succ d ih =>
    intro ec hec hbl
    obtain ⟨x, hx, hsp⟩ := hbl ec (Nat.le_refl _) (by omega)
    have h1 : l'[ec]? = some x := by rw [hget ec (by omega)]; exact hx
    obtain ⟨hlt, hv⟩ := List.getElem?_eq_some_iff.1 h1
    rw [List.drop_eq_getElem_cons hlt, hv, List.dropWhile_cons, if_pos hsp]
    exact ih (ec+1) (by omega) (fun j hj1 hj2 => hbl j (by omega) hj2)

theorem hC19S_applyOne_eq (cur : List Bytes) (a : Stmt) (repl : List Bytes) :
    applyOne cur a repl = cur.take (a.lineno - 1) ++
      (if sharesLine cur a then
        [(cur.getD (a.lineno - 1) []).take a.col ++ rstripNl (flat repl) ++ (cur.getD (a.endLineno - 1) []).drop a.endCol]
       else repl) ++ cur.drop (a.endLineno - 1 + 1) := rfl

theorem hC19S_splice_cons (src : Bytes) (p a b : Nat) (r : Bytes) (spans : List (Nat × Nat × Bytes)) (h : p ≤ a) :
    src.take p ++ spliceBytes src p ((a, b, r) :: spans) = src.take a ++ r ++ spliceBytes src b spans := by
  rw [spliceBytes, ← List.append_assoc, ← List.append_assoc, hC19S_take_drop_take src p a h]

theorem hC19S_len_mono (lines : List Bytes) (m n : Nat) (h : m ≤ n) :
    (lines.take m).flatten.length ≤ (lines.take n).flatten.length := by
  have h1 : lines.take m = (lines.take n).take m := by rw [List.take_take]; congr; omega
  have h2 : (lines.take n).flatten = ((lines.take n).take m).flatten ++ ((lines.take n).drop m).flatten := by
    rw [← List.flatten_append, List.take_append_drop]
  rw [h2, ← h1, List.length_append]
  omega

theorem hC19S_len_succ (lines : List Bytes) (m : Nat) :
    (lines.take (m+1)).flatten.length = (lines.take m).flatten.length + (lines.getD m []).length := by
  have h := hC19S_flatten_split (lines.take (m+1)) m
  have h1 : (lines.take (m+1)).take m = lines.take m := by rw [List.take_take]; congr; omega
  have h2 : (lines.take (m+1)).getD m [] = lines.getD m [] := by
    simp [List.getD_eq_getElem?_getD]
  have h3 : (lines.take (m+1)).drop (m+1) = [] := by
    apply List.drop_eq_nil_of_le; rw [List.length_take]; omega
  rw [h1, h2, h3] at h
  rw [h]; simp

theorem hC19S_off_le (lines : List Bytes) (m d n c : Nat)
    (h : (m < n ∧ d ≤ (lines.getD m []).length) ∨ (m = n ∧ d ≤ c)) :
    hC19S_off lines m d ≤ hC19S_off lines n c := by
  unfold hC19S_off
  rcases h with ⟨h1, h2⟩ | ⟨rfl, h2⟩
  · have := hC19S_len_mono lines (m+1) n (by omega)
    have := hC19S_len_succ lines m
    omega
  · omega

theorem hC19S_off_succ_le (lines : List Bytes) (m n c : Nat) (h : m + 1 ≤ n) :
    hC19S_off lines (m+1) 0 ≤ hC19S_off lines n c := by
  unfold hC19S_off
  have := hC19S_len_mono lines (m+1) n h
  omega

theorem hC19S_take_mid (A M B : List Bytes) (s : Nat) (h : A.length = s) : (A ++ M ++ B).take s = A := by
  rw [List.append_assoc]; exact List.take_left' h

theorem hC19S_getD_mid (A B : List Bytes) (x : Bytes) (s : Nat) (h : A.length = s) :
    (A ++ [x] ++ B).getD s [] = x := by
  subst h
  simp [List.getD_eq_getElem?_getD]

theorem hC19S_sharesLine_of_semi (cur lines : List Bytes) (a : Stmt) (n c : Nat)
    (hag : hC19S_Agree cur lines n c) (hen : a.endLineno - 1 = n)
    (hk : ∃ k, a.endCol ≤ k ∧ k < c ∧ (lines.getD n [])[k]? = some 59 ∧
       ∀ j, a.endCol ≤ j → j < k → ∃ x, (lines.getD n [])[j]? = some x ∧ isSpace x = true) :
    sharesLine cur a = true := by
  obtain ⟨k, hk1, hk2, h59, hbl⟩ := hk
  have := hC19S_semi (lines.getD n []) (cur.getD n []) k c hk2 h59 hag.2 (k - a.endCol) a.endCol (by omega) hbl
  unfold sharesLine
  simp only [hen, this]
  simp

theorem hC19S_agree_refl (lines : List Bytes) (n c : Nat) : hC19S_Agree lines lines n c := ⟨rfl, rfl⟩

theorem hC19S_step (lines cur : List Bytes) (n c : Nat) (spans : List (Nat × Nat × Bytes)) (a : Stmt) (repl : List Bytes)
    (hag : hC19S_Agree cur lines n c)
    (hflat : ∀ p, p ≤ hC19S_off lines n c → cur.flatten = lines.flatten.take p ++ spliceBytes lines.flatten p spans)
    (hin : StmtInText lines a)
    (hbef : a.endLineno - 1 < n ∨ (a.endLineno - 1 = n ∧ ∃ k, a.endCol ≤ k ∧ k < c ∧ (lines.getD n [])[k]? = some 59 ∧
       ∀ j, a.endCol ≤ j → j < k → ∃ x, (lines.getD n [])[j]? = some x ∧ isSpace x = true)) :
    hC19S_Agree (applyOne cur a repl) lines (a.lineno - 1) (if sharesLine lines a then a.col else 0) ∧
    ∀ p, p ≤ hC19S_off lines (a.lineno - 1) (if sharesLine lines a then a.col else 0) →
      (applyOne cur a repl).flatten =
        lines.flatten.take p ++ spliceBytes lines.flatten p (spanOf lines (a, repl) :: spans) := by
  obtain ⟨h1, h2, h3, h4, h5, h6⟩ := hin
  have agE : hC19S_Agree cur lines (a.endLineno - 1) a.endCol := by
    apply hC19S_agree_mono cur lines n c _ _ hag
    rcases hbef with h | ⟨h, k, hk1, hk2, _⟩
    · exact Or.inl h
    · exact Or.inr ⟨h, by omega⟩
  have agS : hC19S_Agree cur lines (a.lineno - 1) a.col := by
    apply hC19S_agree_mono cur lines _ _ _ _ agE
    by_cases hlt : a.lineno - 1 < a.endLineno - 1
    · exact Or.inl hlt
    · exact Or.inr ⟨by omega, h6 (by omega)⟩
  have hlenS : (cur.take (a.lineno - 1)).length = a.lineno - 1 := by
    rw [agS.1, List.length_take]; omega
  have hshare : sharesLine cur a = sharesLine lines a := by
    rcases hbef with h | ⟨h, hk⟩
    · have := (hC19S_agree_lt cur lines n c _ hag h).2
      unfold sharesLine
      simp only [agS.2, this]
    · rw [hC19S_sharesLine_of_semi cur lines a n c hag h hk,
        hC19S_sharesLine_of_semi lines lines a n c (hC19S_agree_refl _ _ _) h hk]
  have hoffE : hC19S_off lines (a.endLineno - 1) a.endCol ≤ hC19S_off lines n c := by
    apply hC19S_off_le
    rcases hbef with h | ⟨h, k, hk1, hk2, _⟩
    · exact Or.inl ⟨h, h5⟩
    · exact Or.inr ⟨h, by omega⟩
  rw [hC19S_applyOne_eq, hshare]
  cases hsh : sharesLine lines a with
  | true =>
    simp only [if_true]
    have hheadlen : ((lines.getD (a.lineno - 1) []).take a.col).length = a.col := by
      rw [List.length_take]; omega
    constructor
    · refine ⟨by rw [hC19S_take_mid _ _ _ _ hlenS, agS.1], ?_⟩
      rw [hC19S_getD_mid _ _ _ _ hlenS, agS.2, List.append_assoc, List.take_left' hheadlen]
    · intro p hp
      have htail := hC19S_tail lines cur _ _ _ agE h5 (hflat _ hoffE)
      simp only [spanOf, hsh, if_true, hC19S_offsetOf, hC19S_flat_eq]
      rw [hC19S_splice_cons _ _ _ _ _ _ hp, hC19S_take_off lines _ _ h4, ← htail, agS.1, agS.2]
      simp [List.flatten_append]
  | false =>
    simp only [Bool.false_eq_true, if_false]
    have hlt : a.endLineno - 1 < n := by
      rcases hbef with h | ⟨h, hk⟩
      · exact h
      · rw [hC19S_sharesLine_of_semi lines lines a n c (hC19S_agree_refl _ _ _) h hk] at hsh
        cases hsh
    constructor
    · exact ⟨by rw [hC19S_take_mid _ _ _ _ hlenS, agS.1], by simp⟩
    · intro p hp
      have agE1 : hC19S_Agree cur lines (a.endLineno - 1 + 1) 0 :=
        ⟨(hC19S_agree_lt cur lines n c _ hag hlt).1, by simp⟩
      have htail := hC19S_tail lines cur _ _ _ agE1 (Nat.zero_le _)
        (hflat _ (hC19S_off_succ_le lines _ n c hlt))
      rw [List.drop_zero, ← hC19S_flatten_drop] at htail
      simp only [spanOf, hsh, Bool.false_eq_true, if_false, hC19S_offsetOf, hC19S_flat_eq]
      rw [hC19S_splice_cons _ _ _ _ _ _ hp, hC19S_take_off lines _ _ (Nat.zero_le _),
        show a.endLineno + 1 - 1 = a.endLineno - 1 + 1 by omega, ← htail, agS.1]
      simp [List.flatten_append]

theorem hC19S_shares_of_head (lines : List Bytes) (b : Stmt)
    (h : stripBoth ((lines.getD (b.lineno - 1) []).take b.col) ≠ []) : sharesLine lines b = true := by
  have hemp : (stripBoth ((lines.getD (b.lineno - 1) []).take b.col)).isEmpty = false := by
    cases hx : stripBoth ((lines.getD (b.lineno - 1) []).take b.col) with
    | nil => exact absurd hx h
    | cons _ _ => rfl
  unfold sharesLine
  simp only [hemp]
  rfl

/-- the position up to which the chunks still agree with the original lines after the replacements `rs`
    have been applied: the start of the first of them (its column if it shares its line) -/
def hC19S_front (lines : List Bytes) : List (Stmt × List Bytes) → Nat × Nat
  | [] => (lines.length, 0)
  | b :: _ => (b.1.lineno - 1, if sharesLine lines b.1 then b.1.col else 0)

theorem hC19S_inv (lines : List Bytes) (rs : List (Stmt × List Bytes)) (hok : RepsOK lines rs) :
    hC19S_Agree (rs.foldr (fun r ls => applyOne ls r.1 r.2) lines) lines
        (hC19S_front lines rs).1 (hC19S_front lines rs).2 ∧
    ∀ p, p ≤ hC19S_off lines (hC19S_front lines rs).1 (hC19S_front lines rs).2 →
      (rs.foldr (fun r ls => applyOne ls r.1 r.2) lines).flatten =
        lines.flatten.take p ++ spliceBytes lines.flatten p (rs.map (spanOf lines)) := by
  induction rs with
  | nil =>
    refine ⟨hC19S_agree_refl _ _ _, ?_⟩
    intro p _
    simp [spliceBytes]
  | cons a rest ih =>
    obtain ⟨hin, hpw⟩ := hok
    have hokr : RepsOK lines rest :=
      ⟨fun r hr => hin r (List.mem_cons_of_mem _ hr), (List.pairwise_cons.1 hpw).2⟩
    obtain ⟨ihA, ihF⟩ := ih hokr
    have hina := hin a (List.mem_cons_self)
    simp only [List.foldr_cons, List.map_cons]
    have := hC19S_step lines _ _ _ _ a.1 a.2 ihA ihF hina
    apply this
    cases rest with
    | nil =>
      left
      obtain ⟨h1, h2, h3, _⟩ := hina
      simp only [hC19S_front]
      omega
    | cons b rest' =>
      have hb := (List.pairwise_cons.1 hpw).1 b (List.mem_cons_self)
      obtain ⟨h1, h2, h3, _⟩ := hina
      simp only [hC19S_front]
      rcases hb with hb | ⟨hb1, hb2, hb3⟩
      · left; omega
      · right
        have hshb : sharesLine lines b.1 = true := hC19S_shares_of_head lines b.1 hb3
        rw [hshb]
        simp only [if_true]
        refine ⟨by omega, ?_⟩
        rw [← hb1]
        exact hb2

theorem hC19S_span_bounds (lines : List Bytes) (r : Stmt × List Bytes) (hin : StmtInText lines r.1) :
    hC19S_off lines (r.1.lineno - 1) 0 ≤ (spanOf lines r).1 ∧ (spanOf lines r).1 ≤ (spanOf lines r).2.1 ∧
    (spanOf lines r).2.1 ≤ hC19S_off lines r.1.endLineno 0 ∧
    hC19S_off lines r.1.endLineno 0 ≤ lines.flatten.length := by
  obtain ⟨h1, h2, h3, h4, h5, h6⟩ := hin
  have hsucc := hC19S_len_succ lines (r.1.endLineno - 1)
  rw [show r.1.endLineno - 1 + 1 = r.1.endLineno by omega] at hsucc
  have hlast : hC19S_off lines r.1.endLineno 0 ≤ lines.flatten.length := by
    have := hC19S_len_mono lines r.1.endLineno lines.length h3
    rw [List.take_length] at this
    unfold hC19S_off; omega
  refine ⟨?_, ?_, ?_, hlast⟩
  all_goals
    unfold spanOf
    cases hsh : sharesLine lines r.1
    all_goals simp only [Bool.false_eq_true, if_false, if_true, hC19S_offsetOf]
  · exact Nat.le_refl _
  · unfold hC19S_off; omega
  · rw [show r.1.endLineno + 1 - 1 = r.1.endLineno by omega]
    have := hC19S_len_mono lines (r.1.lineno - 1) r.1.endLineno (by omega)
    unfold hC19S_off; omega
  · apply hC19S_off_le
    by_cases hlt : r.1.lineno - 1 < r.1.endLineno - 1
    · exact Or.inl ⟨hlt, h4⟩
    · exact Or.inr ⟨by omega, h6 (by omega)⟩
  · rw [show r.1.endLineno + 1 - 1 = r.1.endLineno by omega]
    exact Nat.le_refl _
  · unfold hC19S_off; omega

theorem hC19S_span_before (lines : List Bytes) (ra rb : Stmt × List Bytes)
    (ha : StmtInText lines ra.1) (hb : StmtInText lines rb.1) (hab : Before lines ra.1 rb.1) :
    (spanOf lines ra).2.1 ≤ (spanOf lines rb).1 := by
  rcases hab with hlt | ⟨heq, hk, hhead⟩
  · have h1 := (hC19S_span_bounds lines ra ha).2.2.1
    have h2 := (hC19S_span_bounds lines rb hb).1
    have h3 := hC19S_len_mono lines ra.1.endLineno (rb.1.lineno - 1) (by omega)
    unfold hC19S_off at h1 h2
    omega
  · have hsa : sharesLine lines ra.1 = true := by
      obtain ⟨k, hk1, hk2, hk3, hk4⟩ := hk
      exact hC19S_sharesLine_of_semi lines lines ra.1 (ra.1.endLineno - 1) rb.1.col
        (hC19S_agree_refl _ _ _) rfl ⟨k, hk1, hk2, hk3, hk4⟩
    have hsb := hC19S_shares_of_head lines rb.1 hhead
    obtain ⟨k, hk1, hk2, _⟩ := hk
    unfold spanOf
    simp only [hsa, hsb, if_true, hC19S_offsetOf, heq]
    unfold hC19S_off
    omega

theorem hC19S_example_lines :
    splitLines (bs "x = 1; from a import b; from c import d\nfrom e import f\n") =
      [[120, 32, 61, 32, 49, 59, 32, 102, 114, 111, 109, 32, 97, 32, 105, 109, 112, 111, 114, 116, 32, 98, 59, 32,
        102, 114, 111, 109, 32, 99, 32, 105, 109, 112, 111, 114, 116, 32, 100, 10],
       [102, 114, 111, 109, 32, 101, 32, 105, 109, 112, 111, 114, 116, 32, 102, 10]] := by
  decide +kernel

/-! ### theorems to prove -/

/-- **C19 (whole module).** With the statements as the parser reports them, the rewriter returns the source
    with each import statement's span replaced and everything else copied unchanged, in order. -/
theorem rewrite_splice (m : Mapping) (lines : List Bytes) (stmts : List Stmt)
    (hok : RepsOK lines (reps m stmts)) (hne : reps m stmts ≠ []) :
    rewriteLines m lines stmts = some (spliceBytes (flat lines) 0 ((reps m stmts).map (spanOf lines))) := by
  have hne' : (reps m stmts).isEmpty = false := by
    cases h : reps m stmts with
    | nil => exact absurd h hne
    | cons _ _ => rfl
  rw [rewriteLines_eq, hne']
  simp only [Bool.false_eq_true, if_false]
  rw [List.foldl_reverse]
  have h := (hC19S_inv lines _ hok).2 0 (Nat.zero_le _)
  rw [List.take_zero, List.nil_append] at h
  show some (flat _) = _
  rw [hC19S_flat_eq, hC19S_flat_eq, h]

/-- the spans are ordered and disjoint, so `spliceBytes` copies every byte outside them exactly once -/
theorem spans_ordered (lines : List Bytes) (rs : List (Stmt × List Bytes)) (hok : RepsOK lines rs) :
    (rs.map (spanOf lines)).Pairwise (fun x y => x.2.1 ≤ y.1) ∧ ∀ x ∈ rs.map (spanOf lines), x.1 ≤ x.2.1 ∧ x.2.1 ≤ (flat lines).length := by
  obtain ⟨hin, hpw⟩ := hok
  constructor
  · rw [List.pairwise_map]
    exact hpw.imp_of_mem (fun {a b} ha hb hab => hC19S_span_before lines a b (hin a ha) (hin b hb) hab)
  · intro x hx
    obtain ⟨r, hr, rfl⟩ := List.mem_map.1 hx
    obtain ⟨_, h2, h3, h4⟩ := hC19S_span_bounds lines r (hin r hr)
    rw [hC19S_flat_eq]
    exact ⟨h2, Nat.le_trans h3 h4⟩

/-- reading `spliceBytes`: for ordered spans the output is the gaps of the source, in order, interleaved with
    the replacements — in particular every gap (the text of all other statements, comments, blank lines)
    appears unchanged -/
theorem spliceBytes_cons_gap (src : Bytes) (pos a b : Nat) (r : Bytes) (rest : List (Nat × Nat × Bytes)) :
    spliceBytes src pos ((a, b, r) :: rest) = (src.drop pos).take (a - pos) ++ r ++ spliceBytes src b rest := rfl

/-- with the rewriter's real input: split lines of the source text -/
theorem rewriteImports_splice (m : Mapping) (src : Bytes) (stmts : List Stmt)
    (hok : RepsOK (splitLines src) (reps m stmts)) (hne : reps m stmts ≠ []) :
    rewriteImports m src stmts = some (spliceBytes src 0 ((reps m stmts).map (spanOf (splitLines src)))) := by
  have h := rewrite_splice m (splitLines src) stmts hok hne
  have hf : flat (splitLines src) = src := splitLines_flatten src
  rw [hf] at h
  exact h

/-- non-vacuity: "x = 1; from a import b; from c import d\nfrom e import f\n" — two imports sharing a
    line with another statement and one owning its line -/
theorem repsOK_example :
    let lines := splitLines (bs "x = 1; from a import b; from c import d\nfrom e import f\n")
    let s1 : Stmt := ⟨1, 1, 7, 22, .importFrom (some (bs "a")) 0 [⟨bs "b", none⟩]⟩
    let s2 : Stmt := ⟨1, 1, 24, 39, .importFrom (some (bs "c")) 0 [⟨bs "d", none⟩]⟩
    let s3 : Stmt := ⟨2, 2, 0, 15, .importFrom (some (bs "e")) 0 [⟨bs "f", none⟩]⟩
    RepsOK lines (reps [] [⟨1, 1, 0, 5, .other⟩, s1, s2, s3]) := by
  intro lines s1 s2 s3
  have hr : reps [] [⟨1, 1, 0, 5, .other⟩, s1, s2, s3] =
      [(s1, replacementLines [] (some (bs "a")) [⟨bs "b", none⟩]),
       (s2, replacementLines [] (some (bs "c")) [⟨bs "d", none⟩]),
       (s3, replacementLines [] (some (bs "e")) [⟨bs "f", none⟩])] := rfl
  rw [hr]
  have hl : lines = _ := hC19S_example_lines
  rw [hl]
  constructor
  · intro r hr
    simp only [List.mem_cons, List.not_mem_nil, or_false] at hr
    rcases hr with rfl | rfl | rfl <;> simp [StmtInText, s1, s2, s3]
  · simp only [List.pairwise_cons, List.mem_cons, List.not_mem_nil, or_false, forall_eq_or_imp, forall_eq,
      List.Pairwise.nil, and_true, false_imp_iff, implies_true]
    refine ⟨⟨?_, ?_⟩, ?_⟩
    · right
      refine ⟨rfl, ⟨22, by decide, by decide, by decide, ?_⟩, by decide +kernel⟩
      intro j h1 h2
      simp only [s1] at h1 h2
      omega
    · left; decide
    · left; decide

end D42.Migrate
