/-
  C04 — substitution pins the given value into the schema. The theorems are proved in D42/Props/C05.lean
  (C04 and C05 share the mutual inductions over `subst`): `subst_accepts` (with the recorded findings
  excluded: K6 `NoNaN`, K12 `NoContains`, K13 `NoOpenDictAlt`), `subst_total`, `subst_keeps_rest`,
  `subst_given_required`, `subst_pins_scalar`, `subst_pins_bool_int`, `subst_pins_float_precision`, and the
  counter-example theorems `subst_accepts_counterexample` (K13) and `subst_accepts_contains_counterexample` (K12).
-/
import D42.Props.C05
