/-
  C12 (idempotence) — substituting the same plain value into the result again succeeds and returns an
  equal (here: identical) schema.
-/
import D42.Props.C05

namespace D42

/-! ### helpers: building a successful substitution -/

theorem scalar_self (env : Env) (k : ScalarS) (v : PyVal) (hv : validateScalar env k v [] = [])
    (hw : k.withValue v = k) : subst env (.scalar k) v = .ok (.scalar k) := by
  rw [subst, hv, hw]; simp

theorem substFields_cons_some (env : Env) (k : PyKey) (opt : Bool) (s : Schema) (fs : List (PyKey × Bool × Schema))
    (kvs : List (PyKey × PyVal)) (x : PyVal) (s' : Schema) (r' : List (PyKey × Bool × Schema))
    (hl : lookupKey k kvs = some x) (hx : isEllipsis x = false) (hs : subst env s x = .ok s')
    (hr : substFields env fs kvs = .ok r') :
    substFields env ((k, opt, s) :: fs) kvs = .ok ((k, false, s') :: r') := by
  simp only [substFields, hl, hr]
  split
  · rename_i heq; cases heq; simp [isEllipsis] at hx
  · rename_i y _ heq; cases heq; simp [hs, bind, Except.bind, pure, Except.pure]
  · rename_i heq; cases heq

theorem substFields_cons_none (env : Env) (k : PyKey) (opt : Bool) (s : Schema) (fs : List (PyKey × Bool × Schema))
    (kvs : List (PyKey × PyVal)) (r' : List (PyKey × Bool × Schema))
    (hl : lookupKey k kvs = none) (hr : substFields env fs kvs = .ok r') :
    substFields env ((k, opt, s) :: fs) kvs = .ok ((k, opt, s) :: r') := by
  simp only [substFields, hl, hr]
  simp [bind, Except.bind, pure, Except.pure]

/-- the converse of `subst_dict_ok` -/
theorem subst_dict_intro (env : Env) (fs fs' : List (PyKey × Bool × Schema)) (ell : Option Nat)
    (kvs : List (PyKey × PyVal)) (hne : ¬ (fs = [] ∧ ell.isSome))
    (hv : validateP env true (.dict (some fs) ell) (.dict kvs) [] = [])
    (he : kvs.any (fun kv => kv.1 == PyKey.ellipsis) = false)
    (hfs : substFields env fs kvs = .ok fs')
    (hx : kvs.any (fun kv => !hasField kv.1 fs) = false) :
    subst env (.dict (some fs) ell) (.dict kvs) = .ok (.dict (some fs') ell) := by
  cases fs with
  | nil =>
    cases ell with
    | some pos => simp at hne
    | none =>
      simp only [subst]
      rw [hv, he, hfs]
      simp only [List.isEmpty_nil, Bool.not_true, Bool.false_eq_true, if_false]
      simp only [bind, Except.bind, hx, Bool.false_eq_true, if_false]
      rfl
  | cons f fs =>
    simp only [subst]
    rw [hv, he, hfs]
    simp only [List.isEmpty_nil, Bool.not_true, Bool.false_eq_true, if_false]
    simp only [bind, Except.bind, hx, Bool.false_eq_true, if_false]
    rfl

theorem lenOK_of_listU (env : Env) (L : LenP) (xs : List PyVal) (p : Path)
    (h : validateP env true (.listU L) (.list xs) p = []) : LenOK L xs.length := by
  simp only [validateP] at h
  cases hl : lenErrFirst L xs.length p (.list xs) with
  | some e => simp [hl] at h
  | none => exact (lenErrFirst_none_iff _ _ _ _).1 hl

theorem lenOK_of_listT (env : Env) (t : Schema) (L : LenP) (xs : List PyVal) (p : Path)
    (h : validateP env true (.listT t L) (.list xs) p = []) : LenOK L xs.length := by
  simp only [validateP] at h
  cases hl : lenErrFirst L xs.length p (.list xs) with
  | some e => simp [hl] at h
  | none => exact (lenErrFirst_none_iff _ _ _ _).1 hl

theorem lenOK_of_listE (env : Env) (lead : Bool) (es : List Schema) (trail : Bool) (L : LenP) (xs : List PyVal) (p : Path)
    (h : validateP env true (.listE lead es trail L) (.list xs) p = []) : LenOK L xs.length := by
  simp only [validateP] at h
  cases hl : lenErrFirst L xs.length p (.list xs) with
  | some e => simp [hl] at h
  | none => exact (lenErrFirst_none_iff _ _ _ _).1 hl

/-! ### the fixed-point relation between a result schema and the value -/

/-- `s` accepts `x` (substitution validator, any path) and substituting `x` into `s` returns `s` -/
def Fix (env : Env) (s : Schema) (x : PyVal) : Prop :=
  (∀ p, validateP env true s x p = []) ∧ subst env s x = .ok s

def FixL (env : Env) : List Schema → List PyVal → Prop
  | [], [] => True
  | s :: ss, x :: xs => Fix env s x ∧ FixL env ss xs
  | [], _ :: _ => False
  | _ :: _, [] => False

theorem FixL_length (env : Env) : ∀ (ss : List Schema) (xs : List PyVal), FixL env ss xs → ss.length = xs.length
  | [], [], _ => rfl
  | s :: ss, x :: xs, h => by
    simp only [FixL] at h
    simp [FixL_length env ss xs h.2]
  | [], _ :: _, h => by simp [FixL] at h
  | _ :: _, [], h => by simp [FixL] at h

theorem FixL_append (env : Env) : ∀ (a : List Schema) (xs : List PyVal) (b : List Schema) (ys : List PyVal),
    FixL env a xs → FixL env b ys → FixL env (a ++ b) (xs ++ ys)
  | [], [], _, _, _, h => by simpa using h
  | s :: ss, x :: xs, b, ys, h1, h2 => by
    simp only [FixL] at h1
    simp only [List.cons_append, FixL]
    exact ⟨h1.1, FixL_append env ss xs b ys h1.2 h2⟩
  | [], _ :: _, _, _, h, _ => by simp [FixL] at h
  | _ :: _, [], _, _, h, _ => by simp [FixL] at h

theorem FixL_validate (env : Env) : ∀ (ss : List Schema) (xs : List PyVal), FixL env ss xs →
    ∀ i a p, validateElemsP env true ss xs i a p = []
  | [], [], _, _, _, _ => by simp [validateElemsP]
  | s :: ss, x :: xs, h, i, a, p => by
    simp only [FixL] at h
    simp only [validateElemsP, List.append_eq_nil_iff]
    exact ⟨h.1.1 _, FixL_validate env ss xs h.2 _ _ _⟩
  | [], _ :: _, h, _, _, _ => by simp [FixL] at h
  | _ :: _, [], h, _, _, _ => by simp [FixL] at h

theorem FixL_substZip (env : Env) : ∀ (ss : List Schema) (xs : List PyVal), FixL env ss xs →
    substZip env ss xs = .ok ss
  | [], [], _ => by simp [substZip]
  | s :: ss, x :: xs, h => by
    simp only [FixL] at h
    exact (substZip_cons_ok _ _ _ _ _ _).2 ⟨s, ss, h.1.2, FixL_substZip env ss xs h.2, rfl⟩
  | [], _ :: _, h => by simp [FixL] at h
  | _ :: _, [], h => by simp [FixL] at h

/-- an exact element list that is pointwise a fixed point is a fixed point -/
theorem exactList_fix (env : Env) (L : LenP) (xs : List PyVal) (es : List Schema)
    (hlen : LenOK L xs.length) (hp : ∀ x ∈ xs, Plain x) (hF : FixL env es xs) :
    Fix env (.listE false es false L) (.list xs) := by
  have hel := FixL_length env es xs hF
  have hV : ∀ p, validateP env true (.listE false es false L) (.list xs) p = [] := by
    intro p
    simp only [validateP]
    rw [(lenErrFirst_none_iff L xs.length p (.list xs)).2 hlen]
    simp only [Bool.false_and, Bool.false_eq_true, if_false, List.append_eq_nil_iff]
    exact ⟨FixL_validate env es xs hF _ _ _, (extraElems_nil_iff _ _ _ _).2 (by omega)⟩
  refine ⟨hV, ?_⟩
  have hE : substElems env es xs 0 = .ok es := by
    refine (substElems_ok _ _ _ _ _).2 ⟨es, [], [], ?_, ?_, ?_, by simp⟩
    · simpa using FixL_substZip env es xs hF
    · simp [hel, fromNativeListS]
    · simp [fromNativeListS]
  simp only [subst]
  rw [hV [], plain_allEll xs hp, plain_anyEll xs hp, hE]
  simp [bind, Except.bind, pure, Except.pure]

/-! ### `from_native` schemas are fixed points -/

theorem fromNative_subAccepts (env : Env) (v : PyVal) (s : Schema) (p : Path)
    (hf : fromNative v = .ok s) (hn : NoNaN v) (hd : DistinctKeys v) : validateP env true s v p = [] :=
  subV env s v p (fromNative_accepts env v s p hf hn hd)

theorem fromNative_scalar_self (env : Env) (v : PyVal) (k : ScalarS)
    (hf : fromNative v = .ok (.scalar k)) (hn : NoNaN v) (hd : DistinctKeys v) (hw : k.withValue v = k) :
    subst env (.scalar k) v = .ok (.scalar k) :=
  scalar_self env k v (by simpa [validateP] using fromNative_accepts env v _ [] hf hn hd) hw

mutual
theorem fn_self (env : Env) : ∀ (v : PyVal) (s : Schema),
    fromNative v = .ok s → NoNaN v → DistinctKeys v → subst env s v = .ok s
  | .none, s, h, hn, hd => by
    have h' := h; simp [fromNative] at h'; subst h'
    exact fromNative_scalar_self env _ _ h hn hd (by simp [ScalarS.withValue])
  | .bool _, s, h, hn, hd => by
    have h' := h; simp [fromNative] at h'; subst h'
    exact fromNative_scalar_self env _ _ h hn hd (by simp [ScalarS.withValue])
  | .int _, s, h, hn, hd => by
    have h' := h; simp [fromNative] at h'; subst h'
    exact fromNative_scalar_self env _ _ h hn hd (by simp [ScalarS.withValue, asInt])
  | .float _, s, h, hn, hd => by
    have h' := h; simp [fromNative] at h'; subst h'
    exact fromNative_scalar_self env _ _ h hn hd (by simp [ScalarS.withValue])
  | .str _, s, h, hn, hd => by
    have h' := h; simp [fromNative] at h'; subst h'
    exact fromNative_scalar_self env _ _ h hn hd (by simp [ScalarS.withValue])
  | .bytes _, s, h, hn, hd => by
    have h' := h; simp [fromNative] at h'; subst h'
    exact fromNative_scalar_self env _ _ h hn hd (by simp [ScalarS.withValue])
  | .uuid i ver, s, h, hn, hd => by
    have hv : ver = 4 := fromNative_ok_plain _ _ h
    subst hv
    have h' := h; simp [fromNative] at h'; subst h'
    exact fromNative_scalar_self env _ _ h hn hd (by simp [ScalarS.withValue])
  | .datetime _, s, h, hn, hd => by
    have h' := h; simp [fromNative] at h'; subst h'
    exact fromNative_scalar_self env _ _ h hn hd (by simp [ScalarS.withValue])
  | .date _, s, h, hn, hd => by
    have h' := h; simp [fromNative] at h'; subst h'
    exact fromNative_scalar_self env _ _ h hn hd (by simp [ScalarS.withValue])
  | .list xs, s, h, hn, hd => by
    have hpl : Plain (.list xs) := fromNative_ok_plain _ _ h
    obtain ⟨es, he, rfl⟩ := (fromNative_list_ok _ _).1 h
    simp only [NoNaN] at hn
    simp only [DistinctKeys] at hd
    simp only [Plain] at hpl
    have hF := fnList_self env xs es he hn hd
    exact (exactList_fix env {} xs es (by simp [LenOK]) ((plainL_iff xs).1 hpl) hF).2
  | .dict kvs, s, h, hn, hd => by
    have hpl : Plain (.dict kvs) := fromNative_ok_plain _ _ h
    have hv := fromNative_subAccepts env _ _ [] h hn hd
    obtain ⟨hne, fs, hf, rfl⟩ := (fromNative_dict_ok _ _).1 h
    simp only [NoNaN] at hn
    simp only [DistinctKeys] at hd
    simp only [Plain] at hpl
    have hS := fnKVs_self env kvs fs kvs hf hn hd.2 hpl (lookupKey_of_nodup kvs hd.1)
    refine subst_dict_intro env fs fs none kvs (by simp) hv hne hS ?_
    rw [List.any_eq_false]
    intro kv hkv
    simp [fromNativeKVs_hasField kvs fs hf kv hkv]
  | .ellipsis, _, h, _, _ => by simp [fromNative] at h
  | .other _, _, h, _, _ => by simp [fromNative] at h
theorem fnList_self (env : Env) : ∀ (xs : List PyVal) (es : List Schema),
    fromNativeList xs = .ok es → NoNaNL xs → DistinctKeysL xs → FixL env es xs
  | [], es, h, _, _ => by simp [fromNativeList] at h; subst h; simp [FixL]
  | x :: xs, es, h, hn, hd => by
    obtain ⟨a, b, ha, hb, rfl⟩ := (fromNativeList_cons_ok _ _ _).1 h
    simp only [NoNaNL] at hn
    simp only [DistinctKeysL] at hd
    simp only [FixL]
    exact ⟨⟨fun p => fromNative_subAccepts env x a p ha hn.1 hd.1, fn_self env x a ha hn.1 hd.1⟩,
      fnList_self env xs b hb hn.2 hd.2⟩
theorem fnKVs_self (env : Env) : ∀ (r : List (PyKey × PyVal)) (fs : List (PyKey × Bool × Schema))
    (kvs : List (PyKey × PyVal)),
    fromNativeKVs r = .ok fs → NoNaNKV r → DistinctKeysKV r → PlainKV r →
    (∀ kv ∈ r, lookupKey kv.1 kvs = some kv.2) → substFields env fs kvs = .ok fs
  | [], fs, _, h, _, _, _, _ => by simp [fromNativeKVs] at h; subst h; simp [substFields]
  | (k, v) :: r, fs, kvs, h, hn, hd, hp, hl => by
    obtain ⟨a, b, ha, hb, rfl⟩ := (fromNativeKVs_cons_ok _ _ _ _).1 h
    simp only [NoNaNKV] at hn
    simp only [DistinctKeysKV] at hd
    simp only [PlainKV] at hp
    have h0 : lookupKey k kvs = some v := hl (k, v) (by simp)
    exact substFields_cons_some env k false a b kvs v a b h0 (plain_not_ell v hp.2.1)
      (fn_self env v a ha hn.1 hd.1)
      (fnKVs_self env r b kvs hb hn.2 hd.2 hp.2.2 (fun kv hkv => hl kv (List.mem_cons_of_mem _ hkv)))
end

/-! ### the induction scheme -/

/-- "the result of substituting a good value into `s` is a fixed point for that value" -/
def Idem (env : Env) (s : Schema) : Prop :=
  ∀ (s' : Schema) (v : PyVal), subst env s v = .ok s' → Good v → Fix env s' v

/-! #### lists -/

theorem fromNativeListS_fix (env : Env) (xs : List PyVal) (es : List Schema)
    (h : fromNativeListS xs = .ok es) (hg : ∀ x ∈ xs, Good x) : FixL env es xs :=
  fnList_self env xs es (fromNativeListS_ok xs es h)
    ((noNaNL_iff xs).2 (fun x hx => (hg x hx).2.1)) ((distinctL_iff xs).2 (fun x hx => (hg x hx).2.2))

theorem substAll_fix (env : Env) (t : Schema) (ih : Idem env t) :
    ∀ (xs : List PyVal) (es : List Schema), substAll env t xs = .ok es → (∀ x ∈ xs, Good x) → FixL env es xs
  | [], es, h, _ => by
    have : es = [] := by simpa [substAll, eq_comm] using h
    subst this; simp [FixL]
  | x :: xs, es, h, hg => by
    obtain ⟨a, b, ha, hb, rfl⟩ := (substAll_cons_ok _ _ _ _ _).1 h
    simp only [FixL]
    exact ⟨ih a x ha (hg x (by simp)), substAll_fix env t ih xs b hb (fun z hz => hg z (by simp [hz]))⟩

theorem substZip_fix (env : Env) : ∀ (ss : List Schema) (_ : ∀ s ∈ ss, Idem env s)
    (zs : List PyVal) (mid suf : List Schema),
    substZip env ss zs = .ok mid → fromNativeListS (zs.drop ss.length) = .ok suf → (∀ x ∈ zs, Good x) →
    FixL env (mid ++ suf) zs
  | [], _, zs, mid, suf, h, hsuf, hg => by
    have : mid = [] := by simpa [substZip, eq_comm] using h
    subst this
    simp only [List.length_nil, List.drop_zero] at hsuf
    simp only [List.nil_append]
    exact fromNativeListS_fix env zs suf hsuf hg
  | _ :: _, _, [], _, _, h, _, _ => by simp [substZip] at h
  | s :: ss, ih, z :: zs, mid, suf, h, hsuf, hg => by
    obtain ⟨a, b, ha, hb, rfl⟩ := (substZip_cons_ok _ _ _ _ _ _).1 h
    simp only [List.length_cons, List.drop_succ_cons] at hsuf
    simp only [List.cons_append, FixL]
    exact ⟨ih s (by simp) a z ha (hg z (by simp)),
      substZip_fix env ss (fun s hs => ih s (by simp [hs])) zs b suf hb hsuf (fun x hx => hg x (by simp [hx]))⟩

theorem substElems_fix (env : Env) (elems : List Schema) (ih : ∀ s ∈ elems, Idem env s)
    (xs : List PyVal) (start : Nat) (es : List Schema)
    (h : substElems env elems xs start = .ok es) (hg : ∀ x ∈ xs, Good x) : FixL env es xs := by
  obtain ⟨mid, suf, pre, hmid, hsuf, hpre, rfl⟩ := (substElems_ok _ _ _ _ _).1 h
  have hsuf' : fromNativeListS ((xs.drop start).drop elems.length) = .ok suf := by
    rw [List.drop_drop]; exact hsuf
  have h1 := substZip_fix env elems ih (xs.drop start) mid suf hmid hsuf'
    (fun x hx => hg x (List.mem_of_mem_drop hx))
  have h0 := fromNativeListS_fix env (xs.take start) pre hpre (fun x hx => hg x (List.mem_of_mem_take hx))
  have h3 := FixL_append env _ _ _ _ h0 h1
  rw [List.take_append_drop] at h3
  rw [List.append_assoc]
  exact h3

theorem idem_scalar (env : Env) (k : ScalarS) : Idem env (.scalar k) := by
  intro s' v hs hg
  refine ⟨?_, subst_idempotent_scalar env k v s' hg.2.1 hs⟩
  intro p
  rw [subst] at hs
  split at hs
  · rename_i hv
    cases hs
    simp only [validateP]
    have hv' : validateScalar env k v [] = [] := by simpa using hv
    have hvp : validateScalar env k v p = [] :=
      (validateScalar_nil_iff env k v p).2 ((validateScalar_nil_iff env k v []).1 hv')
    exact validateScalar_withValue env k v p hg.2.1 hvp
  · cases hs

theorem idem_listU (env : Env) (L : LenP) : Idem env (.listU L) := by
  intro s' v hs hg
  cases v
  case list xs =>
    have hg' := (good_list xs).1 hg
    have hp' : ∀ x ∈ xs, Plain x := fun x hx => (hg' x hx).1
    obtain ⟨hv, es, hes, rfl⟩ := subst_listU_ok env L xs s' hp' hs
    exact exactList_fix env L xs es (lenOK_of_listU env L xs [] hv) hp' (fromNativeListS_fix env xs es hes hg')
  all_goals (simp [subst, validateP] at hs)

theorem idem_listT (env : Env) (t : Schema) (L : LenP) (ih : Idem env t) : Idem env (.listT t L) := by
  intro s' v hs hg
  cases v
  case list xs =>
    have hg' := (good_list xs).1 hg
    have hp' : ∀ x ∈ xs, Plain x := fun x hx => (hg' x hx).1
    obtain ⟨hv, es, hes, rfl⟩ := subst_listT_ok env t L xs s' hp' hs
    exact exactList_fix env L xs es (lenOK_of_listT env t L xs [] hv) hp' (substAll_fix env t ih xs es hes hg')
  all_goals (simp [subst, validateP] at hs)

theorem idem_listE (env : Env) (lead : Bool) (elems : List Schema) (trail : Bool) (L : LenP)
    (ih : ∀ s ∈ elems, Idem env s) : Idem env (.listE lead elems trail L) := by
  intro s' v hs hg
  cases v
  case list xs =>
    have hg' := (good_list xs).1 hg
    have hp' : ∀ x ∈ xs, Plain x := fun x hx => (hg' x hx).1
    obtain ⟨hv, es, rfl, hcase⟩ := subst_listE_ok env lead elems trail L xs s' hs
    have hlen := lenOK_of_listE env lead elems trail L xs [] hv
    rcases hcase with ⟨_, _, _, i, _, hok⟩ | ⟨_, hok⟩
    · exact exactList_fix env L xs es hlen hp' (substElems_fix env elems ih xs i es hok hg')
    · exact exactList_fix env L xs es hlen hp' (substElems_fix env elems ih xs _ es hok hg')
  all_goals (simp [subst, validateP] at hs)

/-! #### dicts -/

theorem substFields_fix (env : Env) : ∀ (fs : List (PyKey × Bool × Schema))
    (_ : ∀ f ∈ fs, Idem env f.2.2) (kvs : List (PyKey × PyVal)) (fs' : List (PyKey × Bool × Schema)),
    substFields env fs kvs = .ok fs' → Good (.dict kvs) →
    (∀ a p, validateFieldsP env true fs' kvs a p = []) ∧ substFields env fs' kvs = .ok fs'
  | [], _, kvs, fs', h, _ => by
    rw [substFields_nil_ok env kvs fs' h]; simp [validateFieldsP, substFields]
  | (k, opt, s) :: fs, ih, kvs, fs', h, hg => by
    obtain ⟨f, r', rfl, hr', hcase⟩ := substFields_cons_ok env k opt s fs kvs fs' h
    obtain ⟨hV, hS⟩ := substFields_fix env fs (fun f hf => ih f (by simp [hf])) kvs r' hr' hg
    rcases hcase with ⟨hl, rfl⟩ | ⟨x, s', hl, hs', rfl⟩ | ⟨hl, rfl⟩
    · exact absurd (good_lookup kvs k _ hg hl).1 (by simp [Plain])
    · have hgx := good_lookup kvs k x hg hl
      obtain ⟨hVx, hSx⟩ := ih (k, opt, s) (by simp) s' x hs' hgx
      refine ⟨?_, substFields_cons_some env k false s' r' kvs x s' r' hl (plain_not_ell x hgx.1) hSx hS⟩
      intro a p
      simp only [validateFieldsP, hl, List.append_eq_nil_iff]
      refine ⟨?_, hV a p⟩
      split
      · rfl
      · exact hVx _
    · refine ⟨?_, substFields_cons_none env k opt s r' kvs r' hl hS⟩
      intro a p
      simp only [validateFieldsP, hl, List.append_eq_nil_iff]
      exact ⟨by simp, hV a p⟩

theorem fromNativeKVs_nil_of (kvs : List (PyKey × PyVal)) (h : fromNativeKVs kvs = .ok []) : kvs = [] := by
  cases kvs with
  | nil => rfl
  | cons kv r =>
    obtain ⟨k, v⟩ := kv
    obtain ⟨a, b, _, _, h⟩ := (fromNativeKVs_cons_ok _ _ _ _).1 h
    cases h

theorem fromNativeKVs_fix (env : Env) (kvs : List (PyKey × PyVal)) (fs : List (PyKey × Bool × Schema))
    (relaxed : Bool) (hf : fromNativeKVs kvs = .ok fs) (hg : Good (.dict kvs)) :
    Fix env (.dict (some fs) (if relaxed then some kvs.length else none)) (.dict kvs) := by
  obtain ⟨hpl0, hn0, hd0⟩ := hg
  have hpl := hpl0
  have hn := hn0
  have hd := hd0
  simp only [Plain] at hpl
  simp only [NoNaN] at hn
  simp only [DistinctKeys] at hd
  have hne := plainKV_noEll kvs hpl
  have hfn : fromNative (.dict kvs) = .ok (.dict (some fs) none) :=
    (fromNative_dict_ok _ _).2 ⟨hne, fs, hf, rfl⟩
  have hV0 : ∀ p, validateP env true (.dict (some fs) none) (.dict kvs) p = [] :=
    fun p => fromNative_subAccepts env _ _ p hfn hn0 hd0
  have hV : ∀ ell p, validateP env true (.dict (some fs) ell) (.dict kvs) p = [] := by
    intro ell p
    have := hV0 p
    simp only [validateP, List.append_eq_nil_iff] at this ⊢
    refine ⟨this.1, ?_⟩
    cases ell with
    | none => exact this.2
    | some n => simp
  refine ⟨hV _, ?_⟩
  have hhas : kvs.any (fun kv => !hasField kv.1 fs) = false := by
    rw [List.any_eq_false]
    intro kv hkv
    simp [fromNativeKVs_hasField kvs fs hf kv hkv]
  have hS := fnKVs_self env kvs fs kvs hf hn hd.2 hpl (lookupKey_of_nodup kvs hd.1)
  by_cases hc : fs = [] ∧ relaxed = true
  · obtain ⟨rfl, rfl⟩ := hc
    have := fromNativeKVs_nil_of kvs hf
    subst this
    simp [subst, validateP, validateFieldsP, substFresh, bind, Except.bind, pure, Except.pure]
  · refine subst_dict_intro env fs fs _ kvs ?_ (hV _ []) hne hS hhas
    rintro ⟨h1, h2⟩
    apply hc
    refine ⟨h1, ?_⟩
    cases relaxed with
    | true => rfl
    | false => simp at h2

theorem idem_dict_none (env : Env) (ell : Option Nat) : Idem env (.dict none ell) := by
  intro s' v hs hg
  cases v
  case dict kvs =>
    simp only [subst] at hs
    split at hs
    · cases hs
    obtain ⟨fs, hfs, rfl⟩ := substFresh_ok kvs false s' hg.1 hs
    exact fromNativeKVs_fix env kvs fs false hfs hg
  all_goals (simp [subst, validateP] at hs)

theorem idem_dict_open (env : Env) (pos : Nat) : Idem env (.dict (some []) (some pos)) := by
  intro s' v hs hg
  cases v
  case dict kvs =>
    simp only [subst] at hs
    split at hs
    · cases hs
    obtain ⟨fs, hfs, rfl⟩ := substFresh_ok kvs true s' hg.1 hs
    exact fromNativeKVs_fix env kvs fs true hfs hg
  all_goals (simp [subst, validateP] at hs)

theorem idem_dict (env : Env) (fs : List (PyKey × Bool × Schema)) (ell : Option Nat)
    (hne : ¬ (fs = [] ∧ ell.isSome)) (ih : ∀ f ∈ fs, Idem env f.2.2) :
    Idem env (.dict (some fs) ell) := by
  intro s' v hs hg
  obtain ⟨kvs, rfl⟩ := subst_dict_nondict env fs ell v s' hs
  obtain ⟨hv, hnell, fs', hfs, hx, rfl⟩ := subst_dict_ok env fs ell kvs s' hne hs
  obtain ⟨hVF, hSF⟩ := substFields_fix env fs ih kvs fs' hfs hg
  have hkeys := substFields_keys env fs kvs fs' hfs
  have hx' : kvs.any (fun kv => !hasField kv.1 fs') = false := by
    rw [List.any_eq_false] at hx ⊢
    intro kv hkv
    rw [hasField_congr kv.1 fs fs' hkeys]
    exact hx kv hkv
  have hV : ∀ p, validateP env true (.dict (some fs') ell) (.dict kvs) p = [] := by
    intro p
    simp only [validateP, List.append_eq_nil_iff]
    refine ⟨hVF _ _, ?_⟩
    split
    · rfl
    · rw [extraKeys_nil_iff]
      intro kv hkv
      simpa using (List.any_eq_false.1 hx') kv hkv
  refine ⟨hV, subst_dict_intro env fs' fs' ell kvs ?_ (hV []) hnell hSF hx'⟩
  rintro ⟨h1, h2⟩
  apply hne
  refine ⟨?_, h2⟩
  have := congrArg List.length hkeys
  simp only [h1, List.map_nil, List.length_nil, List.length_map] at this
  exact List.eq_nil_of_length_eq_zero this.symm

/-! #### any -/

theorem idem_any_none (env : Env) : Idem env (.any none) := by
  intro s' v hs hg
  simp only [subst] at hs
  obtain ⟨s0, h0, rfl⟩ := bind_pure_ok _ _ _ hs
  have h0' := (fromNativeS_ok _ _).1 h0
  have hV : ∀ p, validateP env true (.any (some [s0])) v p = [] := by
    intro p
    simp [validateP, anyOkP, fromNative_subAccepts env v s0 p h0' hg.2.1 hg.2.2]
  refine ⟨hV, ?_⟩
  simp only [subst]
  rw [hV []]
  simp [substAlts, fn_self env v s0 h0' hg.2.1 hg.2.2, ok?]

theorem substAlts_fix (env : Env) : ∀ (ts : List Schema) (_ : ∀ t ∈ ts, Idem env t) (v : PyVal), Good v →
    substAlts env (substAlts env ts v) v = substAlts env ts v ∧
      ∀ r ∈ substAlts env ts v, ∀ p, validateP env true r v p = []
  | [], _, _, _ => by simp [substAlts]
  | t :: ts, ih, v, hg => by
    obtain ⟨h1, h2⟩ := substAlts_fix env ts (fun s hs => ih s (by simp [hs])) v hg
    simp only [substAlts]
    cases ho : subst env t v with
    | error e => simp only [ok?]; exact ⟨h1, h2⟩
    | ok r =>
      obtain ⟨hV, hS⟩ := ih t (by simp) r v ho hg
      simp only [ok?, substAlts, hS, h1]
      refine ⟨trivial, ?_⟩
      intro r' hr'
      rcases List.mem_cons.1 hr' with rfl | h
      · exact hV
      · exact h2 _ h

theorem idem_any (env : Env) (ts : List Schema) (ih : ∀ t ∈ ts, Idem env t) : Idem env (.any (some ts)) := by
  intro s' v hs hg
  obtain ⟨a, as, hr⟩ := subst_any_nonempty env (some ts) v s' hs
  obtain ⟨rfl, _⟩ := subst_any_ok env ts v s' hs
  have hne : substAlts env ts v = a :: as := by
    simpa using hr
  obtain ⟨h1, h2⟩ := substAlts_fix env ts ih v hg
  have hV : ∀ p, validateP env true (.any (some (substAlts env ts v))) v p = [] := by
    intro p
    have := h2 a (by rw [hne]; simp) p
    simp only [validateP]
    rw [hne]
    simp [anyOkP, this]
  refine ⟨hV, ?_⟩
  simp only [subst]
  rw [hV [], h1, hne]
  simp

/-! #### the induction -/

mutual
theorem idem_all (env : Env) : ∀ (s : Schema), Idem env s
  | .scalar k => idem_scalar env k
  | .listU L => idem_listU env L
  | .listT t L => idem_listT env t L (idem_all env t)
  | .listE lead es trail L => idem_listE env lead es trail L (idem_list env es)
  | .dict none ell => idem_dict_none env ell
  | .dict (some []) (some pos) => idem_dict_open env pos
  | .dict (some []) none => idem_dict env [] none (by simp) (by simp)
  | .dict (some (f :: fs)) ell => idem_dict env (f :: fs) ell (by simp) (idem_fields env (f :: fs))
  | .any none => idem_any_none env
  | .any (some ts) => idem_any env ts (idem_list env ts)
  | .alias n t => by
    intro s' v hs hg
    simp only [subst] at hs
    obtain ⟨t', ht', rfl⟩ := bind_pure_ok _ _ _ hs
    obtain ⟨hV, hS⟩ := idem_all env t t' v ht' hg
    refine ⟨fun p => by simpa [validateP] using hV p, ?_⟩
    simp [subst, hS, bind, Except.bind, pure, Except.pure]
  | .custom t => by
    intro s' v hs hg
    simp only [subst] at hs
    obtain ⟨t', ht', rfl⟩ := bind_pure_ok _ _ _ hs
    obtain ⟨hV, hS⟩ := idem_all env t t' v ht' hg
    refine ⟨fun p => by simpa [validateP] using hV p, ?_⟩
    simp [subst, hS, bind, Except.bind, pure, Except.pure]
theorem idem_list (env : Env) : ∀ (ss : List Schema), ∀ s ∈ ss, Idem env s
  | [] => by simp
  | s :: ss => by
    intro s' hs'
    rcases List.mem_cons.1 hs' with h | h
    · rw [h]; exact idem_all env s
    · exact idem_list env ss s' h
theorem idem_fields (env : Env) : ∀ (fs : List (PyKey × Bool × Schema)), ∀ f ∈ fs, Idem env f.2.2
  | [] => by simp
  | (k, o, s) :: fs => by
    intro f hf
    rcases List.mem_cons.1 hf with h | h
    · rw [h]; exact idem_all env s
    · exact idem_fields env fs f h
end

/-! ### theorems to prove -/

/-- the result of substituting a plain value accepts that value in the substitution validator's sense
    (partial dicts allowed) -/
theorem subst_result_subAccepts (env : Env) (s s' : Schema) (v : PyVal) (p : Path)
    (hs : subst env s v = .ok s') (hp : Plain v) (hn : NoNaN v) (hd : DistinctKeys v) (hk : KeysNodupS s) :
    validateP env true s' v p = [] := by
  -- `hk` is not needed: the argument is field-by-field whatever the duplicates
  have _ := hk
  exact (idem_all env s s' v hs ⟨hp, hn, hd⟩).1 p

/-- substituting a plain value into its own `from_native` schema returns that schema -/
theorem subst_fromNative_self (env : Env) (v : PyVal) (s : Schema)
    (hf : fromNative v = .ok s) (hn : NoNaN v) (hd : DistinctKeys v) : subst env s v = .ok s :=
  fn_self env v s hf hn hd

/-- **C12 (idempotent).** Substituting the same plain value into the result again succeeds and returns
    the very same schema — for every schema, at every nesting depth (NaN excluded: K6). -/
theorem subst_idempotent (env : Env) (s s' : Schema) (v : PyVal)
    (hs : subst env s v = .ok s') (hp : Plain v) (hn : NoNaN v) (hd : DistinctKeys v) (hk : KeysNodupS s) :
    subst env s' v = .ok s' := by
  have _ := hk
  exact (idem_all env s s' v hs ⟨hp, hn, hd⟩).2

/-- K6 witness: with NaN the second substitution fails -/
theorem subst_idempotent_nan_counterexample :
    let env : Env := { rxSearch := fun _ _ => false, fl := PyFloat.fin }
    ∃ s', subst env (.scalar (.float none none none none none none)) (.float .nan) = .ok s' ∧
      subst env s' (.float .nan) = .error .substitutionError := by
  intro env
  refine ⟨.scalar (.float (some .nan) none none none none none), ?_, ?_⟩
  · simp [subst, validateScalar, floatBoundErrs, ScalarS.withValue]
  · simp [subst, validateScalar, floatValueOk, isclose, PyFloat.eq]

end D42
