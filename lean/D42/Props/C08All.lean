/-
  C08 — umbrella: totality / formatter, and the scalar core of the model = the check programs extracted from the source.
-/
import D42.Props.C08Format
import D42.Props.ValidatorProg
