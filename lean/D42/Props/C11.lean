/-
  C11 — constraint refinements can be declared in any order.

  Part A (abstract, proved): guarded update systems commute under any permutation when every op
  guards what it writes and the conflict relation is symmetric — the side conditions are exactly the
  facts `writes_guarded` / `conflict_symmetric` that D42/Gen/Guards.lean re-decides on the guard table
  extracted from the Python source on every run.

  Part B (to prove): the same statement for the concrete declaration model `declScalar`, for every
  scalar type, every list of non-value refinements of any length, every argument of any type.
-/
import D42.Model.Decl
import D42.Gen.Guards

namespace D42.GuardedUpdate

abbrev Name := Nat
abbrev Props := Name → Option Int
structure Op where
  ok  : Bool
  U   : List Name
  D   : List (Name × Int)

def declared (s : Props) (n : Name) : Bool := (s n).isSome
def write (s : Props) (D : List (Name × Int)) : Props := fun n => match D.lookup n with | some v => some v | none => s n
def free (s : Props) (r : Op) : Prop := ∀ n ∈ r.U, declared s n = false
instance (s r) : Decidable (free s r) := by unfold free; infer_instance
def apply (s : Props) (r : Op) : Option Props := if r.ok = true ∧ free s r then some (write s r.D) else none
def run (s : Props) : List Op → Option Props
  | [] => some s
  | r :: rs => (apply s r).bind (fun s' => run s' rs)
def Op.names (r : Op) : List Name := r.D.map (·.1)
def conflict (a b : Op) : Prop := ∃ n ∈ a.names, n ∈ b.U

theorem lookup_isSome_iff (D : List (Name × Int)) (n : Name) : (D.lookup n).isSome = true ↔ n ∈ D.map (·.1) := by
  induction D with
  | nil => simp
  | cons p D ih =>
    obtain ⟨a, b⟩ := p
    simp only [List.lookup_cons, List.map_cons, List.mem_cons]
    by_cases h : n = a
    · subst h; simp
    · have : (n == a) = false := by simpa using h
      simp [this, ih, h]

theorem declared_write (s : Props) (D) (n) : declared (write s D) n = (declared s n || (D.lookup n).isSome) := by
  unfold declared write; cases h : D.lookup n <;> simp

theorem free_write_iff (s : Props) (x y : Op) (hy : free s y) : free (write s x.D) y ↔ ¬ conflict x y := by
  unfold conflict Op.names free at *
  constructor
  · rintro h ⟨n, hn, hnu⟩
    have := h n hnu
    rw [declared_write, (lookup_isSome_iff _ _).2 hn] at this
    simp at this
  · intro h n hn
    rw [declared_write, hy n hn]
    cases hl : (x.D.lookup n).isSome
    · rfl
    · exact absurd ⟨n, (lookup_isSome_iff _ _).1 hl, hn⟩ h

theorem free_mono (s : Props) (x y : Op) (h : free (write s x.D) y) : free s y := by
  intro n hn
  have := h n hn
  rw [declared_write] at this
  cases hd : declared s n <;> simp_all

theorem write_comm (s : Props) (a b : Op) (hDb : ∀ n ∈ b.names, n ∈ b.U) (hc : ¬ conflict a b) :
    write (write s a.D) b.D = write (write s b.D) a.D := by
  funext n
  unfold write
  cases hla : a.D.lookup n <;> cases hlb : b.D.lookup n <;> simp
  exact absurd ⟨n, (lookup_isSome_iff _ _).1 (by simp [hla]), hDb n ((lookup_isSome_iff _ _).1 (by simp [hlb]))⟩ hc

theorem swap_ok (s : Props) (a b : Op)
    (hsym : conflict a b ↔ conflict b a) (hDb : ∀ n ∈ b.names, n ∈ b.U) :
    (apply s a).bind (fun s' => apply s' b) = (apply s b).bind (fun s' => apply s' a) := by
  unfold apply
  by_cases ha : a.ok = true <;> by_cases hb : b.ok = true <;>
    by_cases hfa : free s a <;> by_cases hfb : free s b <;>
    simp only [ha, hb, hfa, hfb, and_true, and_false, true_and, false_and, if_true, if_false,
      Option.bind_some, Option.bind_none, Option.bind] <;>
    (try (have h1 := free_write_iff s a b hfb; have h2 := free_write_iff s b a hfa
          by_cases hc : conflict a b
          · have hc' := hsym.1 hc
            have n1 : ¬ free (write s a.D) b := fun h => (h1.1 h) hc
            have n2 : ¬ free (write s b.D) a := fun h => (h2.1 h) hc'
            simp [n1, n2]
          · have hc' : ¬ conflict b a := fun h => hc (hsym.2 h)
            simp [h1.2 hc, h2.2 hc', write_comm s a b hDb hc])) <;>
    (try (have n1 : ¬ free (write s a.D) b := fun h => hfb (free_mono s a b h); simp [n1])) <;>
    (try (have n2 : ¬ free (write s b.D) a := fun h => hfa (free_mono s b a h); simp [n2])) <;>
    (try simp)

/-- **guarded updates commute under every permutation** -/
theorem run_perm (l l' : List Op) (hp : l.Perm l')
    (hD : ∀ r ∈ l, ∀ n ∈ r.names, n ∈ r.U)
    (hsym : ∀ a ∈ l, ∀ b ∈ l, (conflict a b ↔ conflict b a)) : ∀ s, run s l = run s l' := by
  induction hp with
  | nil => intro s; rfl
  | cons x _ ih =>
    intro s; simp only [run]
    cases apply s x with
    | none => rfl
    | some s' => simp only [Option.bind_some]; exact ih (fun r hr => hD r (List.mem_cons_of_mem _ hr)) (fun a ha b hb => hsym a (List.mem_cons_of_mem _ ha) b (List.mem_cons_of_mem _ hb)) s'
  | swap x y l =>
    intro s
    simp only [run]
    have := swap_ok s y x (hsym y (by simp) x (by simp)) (hD x (by simp))
    have e1 : (apply s y).bind (fun s' => (apply s' x).bind fun s'' => run s'' l) = ((apply s y).bind (fun s' => apply s' x)).bind (fun s'' => run s'' l) := by
      cases apply s y <;> simp
    have e2 : (apply s x).bind (fun s' => (apply s' y).bind fun s'' => run s'' l) = ((apply s x).bind (fun s' => apply s' y)).bind (fun s'' => run s'' l) := by
      cases apply s x <;> simp
    rw [e1, e2, this]
  | trans h1 h2 ih1 ih2 =>
    intro s
    have hD' := fun r hr => hD r (h1.mem_iff.2 hr)
    have hsym' := fun a ha b hb => hsym a (h1.mem_iff.2 ha) b (h1.mem_iff.2 hb)
    rw [ih1 hD hsym s, ih2 hD' hsym' s]

end D42.GuardedUpdate

namespace D42

/-! ### Part B — the concrete declaration model (to prove) -/

/-- the value-fixing calls; everything else is a "non-value refinement" -/
def Op.isValue : Op → Bool
  | .call _ => true
  | .anyCall _ => true
  | _ => false

/-- a chain of refinements on a scalar schema -/
def runScalar : ScalarS → List Op → Except PyExc ScalarS
  | k, [] => .ok k
  | k, op :: ops => match declScalar k op with
    | .ok k' => runScalar k' ops
    | .error e => .error e

/-- "the same outcome": both orders are rejected, or both succeed and yield the same schema -/
def SameOutcome (a b : Except PyExc ScalarS) : Prop :=
  match a, b with
  | .ok x, .ok y => x = y
  | .error _, .error _ => True
  | _, _ => False

theorem SameOutcome_err (e1 e2 : PyExc) : SameOutcome (.error e1) (.error e2) := by simp [SameOutcome]

theorem SameOutcome_symm {x y : Except PyExc ScalarS} (h : SameOutcome x y) : SameOutcome y x := by
  cases x <;> cases y <;> simp_all [SameOutcome]

/-- constructor tag of a scalar schema -/
def ScalarS.tag : ScalarS → Nat
  | .none => 0 | .bool _ => 1 | .int .. => 2 | .float .. => 3 | .str .. => 4
  | .bytes _ => 5 | .uuid4 _ => 6 | .datetime _ => 7 | .date _ => 8

/-- does the type with this tag have the (non-value) method? -/
def supported : Nat → Op → Bool
  | 2, .min _ => true
  | 2, .max _ => true
  | 3, .min _ => true
  | 3, .max _ => true
  | 3, .precision _ => true
  | 4, .len _ _ => true
  | 4, .alphabet _ => true
  | 4, .contains _ => true
  | 4, .regex _ => true
  | _, _ => false

theorem unsupported_err (k : ScalarS) (op : Op) (hnv : op.isValue = false) (h : supported k.tag op = false) :
    declScalar k op = .error .attributeError := by
  cases k <;> cases op <;> first | rfl | (exfalso; simp [Op.isValue] at hnv; done) | (exfalso; simp [supported, ScalarS.tag] at h; done)


/-! equation lemmas for the supported non-value methods -/

theorem int_min (v mn mx : Option Int) (a : Arg) : declScalar (.int v mn mx) (.min a) =
    (match argInt a with
     | none => DErr
     | some n => if mn.isSome then DErr else
        (match v with | some x => if n > x then DErr else .ok (.int v (some n) mx) | none => .ok (.int v (some n) mx))) := rfl

theorem int_max (v mn mx : Option Int) (a : Arg) : declScalar (.int v mn mx) (.max a) =
    (match argInt a with
     | none => DErr
     | some n => if mx.isSome then DErr else
        (match v with | some x => if n < x then DErr else .ok (.int v mn (some n)) | none => .ok (.int v mn (some n)))) := rfl

theorem float_min (v mn mx : Option PyFloat) (p : Option Nat) (d1 d2 : Option Rat) (a : Arg) :
    declScalar (.float v mn mx p d1 d2) (.min a) =
    (match argFloat a with
     | none => DErr
     | some f => if mn.isSome then DErr else
        (match v with
         | some x => if !(PyFloat.le f x) then DErr else .ok (.float v (some f) mx p none d2)
         | none => .ok (.float v (some f) mx p none d2))) := rfl

theorem float_max (v mn mx : Option PyFloat) (p : Option Nat) (d1 d2 : Option Rat) (a : Arg) :
    declScalar (.float v mn mx p d1 d2) (.max a) =
    (match argFloat a with
     | none => DErr
     | some f => if mx.isSome then DErr else
        (match v with
         | some x => if !(PyFloat.ge f x) then DErr else .ok (.float v mn (some f) p d1 none)
         | none => .ok (.float v mn (some f) p d1 none))) := rfl

theorem float_precision (v mn mx : Option PyFloat) (p : Option Nat) (d1 d2 : Option Rat) (a : Arg) :
    declScalar (.float v mn mx p d1 d2) (.precision a) =
    (match argInt a with
     | none => DErr
     | some n => if !(1 ≤ n && n ≤ (Consts.FLOAT_DIG : Int)) then DErr
        else if p.isSome then DErr else .ok (.float v mn mx (some n.toNat) d1 d2)) := rfl

/-- the `len(...)` dispatch on a str schema: reads only the fixed value, the length props and its arguments -/
def strLen (v : Option Str) (L : LenP) (a b : Arg) : Except PyExc LenP :=
  declLenDispatch (strDeclLen v) (strDeclMin v) (strDeclMax v) L a b

theorem str_len (v : Option Str) (L : LenP) (al sub : Option Str) (pat : Option Pat) (a b : Arg) :
    declScalar (.str v L al sub pat) (.len a b) =
    (if L.anySet || pat.isSome then DErr else
      match strLen v L a b with
      | .ok L' => .ok (.str v L' al sub pat)
      | .error e => .error e) := by
  simp only [declScalar, strLen]
  split
  · rfl
  · cases declLenDispatch (strDeclLen v) (strDeclMin v) (strDeclMax v) L a b <;> rfl

theorem str_alphabet (v : Option Str) (L : LenP) (al sub : Option Str) (pat : Option Pat) (a : Arg) :
    declScalar (.str v L al sub pat) (.alphabet a) =
    (match argStr a with
     | none => DErr
     | some letters => if al.isSome then DErr else if pat.isSome then DErr else
        (match v with
         | some s => if s.all (fun c => letters.contains c) then .ok (.str v L (some letters) sub pat) else DErr
         | none => .ok (.str v L (some letters) sub pat))) := rfl

theorem str_contains (v : Option Str) (L : LenP) (al sub : Option Str) (pat : Option Pat) (a : Arg) :
    declScalar (.str v L al sub pat) (.contains a) =
    (match argStr a with
     | none => DErr
     | some x => if sub.isSome then DErr else if pat.isSome then DErr else
        (match v with
         | some s => if isInfixB x s then .ok (.str v L al (some x) pat) else DErr
         | none => .ok (.str v L al (some x) pat))) := rfl

/-- the argument of `regex` when it is a pattern string -/
def regexArg : Arg → Option (Bool × Pat × Bool)
  | .pat c p m => some (c, p, m)
  | _ => none

theorem str_regex (v : Option Str) (L : LenP) (al sub : Option Str) (pat : Option Pat) (a : Arg) :
    declScalar (.str v L al sub pat) (.regex a) =
    (match regexArg a with
     | none => DErr
     | some (compiles, p, m) =>
        if pat.isSome || al.isSome || L.anySet || sub.isSome then DErr
        else if !compiles then DErr
        else (match v with
          | some _ => if m then .ok (.str v L al sub (some p)) else DErr
          | none => .ok (.str v L al sub (some p)))) := by
  cases a <;> rfl

theorem strDeclLen_set (v : Option Str) (L L' : LenP) (a : Arg) (h : strDeclLen v L a = .ok L') :
    L'.anySet = true := by
  unfold strDeclLen at h
  repeat' split at h
  all_goals (try simp at h)
  all_goals (subst h; simp [LenP.anySet])

theorem strDeclMin_set (v : Option Str) (L L' : LenP) (a : Arg) (h : strDeclMin v L a = .ok L') :
    L'.anySet = true := by
  unfold strDeclMin at h
  repeat' split at h
  all_goals (try simp at h)
  all_goals (subst h; simp [LenP.anySet])

theorem strDeclMax_set (v : Option Str) (L L' : LenP) (a : Arg) (h : strDeclMax v L a = .ok L') :
    L'.anySet = true := by
  unfold strDeclMax at h
  repeat' split at h
  all_goals (try simp at h)
  all_goals (subst h; simp [LenP.anySet])

theorem strLen_anySet (v : Option Str) (L L' : LenP) (a b : Arg) (h : strLen v L a b = .ok L') :
    L'.anySet = true := by
  unfold strLen declLenDispatch at h
  split at h
  · exact strDeclMax_set _ _ _ _ h
  · split at h
    · exact strDeclLen_set _ _ _ _ h
    · split at h
      · exact strDeclMin_set _ _ _ _ h
      · cases h1 : strDeclMin v L a with
        | error e => simp [h1, bind, Except.bind] at h
        | ok L1 =>
          simp only [h1, bind, Except.bind] at h
          exact strDeclMax_set _ _ _ _ h

theorem tag_preserved (k k' : ScalarS) (op : Op) (hnv : op.isValue = false) (h : declScalar k op = .ok k') :
    k'.tag = k.tag := by
  by_cases hs : supported k.tag op = false
  · rw [unsupported_err k op hnv hs] at h; cases h
  · cases k <;> cases op <;> (try (exfalso; simp [supported, ScalarS.tag] at hs; done)) <;>
      simp only [int_min, int_max, float_min, float_max, float_precision, str_len, str_alphabet,
        str_contains, str_regex] at h <;>
      (repeat' split at h) <;> (try simp at h) <;> (try (subst h; rfl))

theorem swap_unsupported (k : ScalarS) (a b : Op) (ha : a.isValue = false) (hb : b.isValue = false)
    (hs : supported k.tag a = false) : SameOutcome (runScalar k [a, b]) (runScalar k [b, a]) := by
  simp only [runScalar, unsupported_err k a ha hs]
  cases h : declScalar k b with
  | error e => exact SameOutcome_err _ _
  | ok k' =>
    have ht := tag_preserved k k' b hb h
    simp only [unsupported_err k' a ha (by rw [ht]; exact hs)]
    exact SameOutcome_err _ _

/-- `runScalar` as a monadic fold -/
def bindE (x : Except PyExc ScalarS) (f : ScalarS → Except PyExc ScalarS) : Except PyExc ScalarS :=
  match x with
  | .ok k => f k
  | .error e => .error e

@[simp] theorem bindE_ok (k : ScalarS) (f) : bindE (.ok k) f = f k := rfl
@[simp] theorem bindE_error (e : PyExc) (f) : bindE (.error e) f = .error e := rfl
@[simp] theorem bindE_ite (c : Prop) [Decidable c] (a b : Except PyExc ScalarS) (f) :
    bindE (if c then a else b) f = if c then bindE a f else bindE b f := by
  split <;> rfl

theorem run2 (k : ScalarS) (a b : Op) :
    runScalar k [a, b] = bindE (declScalar k a) (fun k' => declScalar k' b) := by
  simp only [runScalar, bindE]
  cases declScalar k a with
  | error e => rfl
  | ok k' => simp only []; cases declScalar k' b <;> rfl

/-! ### int -/

theorem int_min_min (v mn mx : Option Int) (x y : Arg) :
    SameOutcome (runScalar (.int v mn mx) [.min x, .min y]) (runScalar (.int v mn mx) [.min y, .min x]) := by
  cases hx : argInt x <;> cases hy : argInt y <;> cases v <;> cases mn <;> cases mx <;>
    simp [run2, int_min, hx, hy, SameOutcome_err] <;>
    (repeat' split) <;> simp_all [SameOutcome]

theorem int_max_max (v mn mx : Option Int) (x y : Arg) :
    SameOutcome (runScalar (.int v mn mx) [.max x, .max y]) (runScalar (.int v mn mx) [.max y, .max x]) := by
  cases hx : argInt x <;> cases hy : argInt y <;> cases v <;> cases mn <;> cases mx <;>
    simp [run2, int_max, hx, hy, SameOutcome_err] <;>
    (repeat' split) <;> simp_all [SameOutcome]

theorem int_min_max (v mn mx : Option Int) (x y : Arg) :
    SameOutcome (runScalar (.int v mn mx) [.min x, .max y]) (runScalar (.int v mn mx) [.max y, .min x]) := by
  cases hx : argInt x <;> cases hy : argInt y <;> cases v <;> cases mn <;> cases mx <;>
    simp [run2, int_min, int_max, hx, hy, SameOutcome_err] <;>
    (repeat' split) <;> simp_all [SameOutcome]

/-! ### float -/

theorem float_min_min (v mn mx : Option PyFloat) (p : Option Nat) (d1 d2 : Option Rat) (x y : Arg) :
    SameOutcome (runScalar (.float v mn mx p d1 d2) [.min x, .min y])
      (runScalar (.float v mn mx p d1 d2) [.min y, .min x]) := by
  cases hx : argFloat x <;> cases hy : argFloat y <;> cases v <;> cases mn <;> cases mx <;> cases p <;>
    simp [run2, float_min, hx, hy, SameOutcome_err] <;>
    (repeat' split) <;> simp_all [SameOutcome]

theorem float_max_max (v mn mx : Option PyFloat) (p : Option Nat) (d1 d2 : Option Rat) (x y : Arg) :
    SameOutcome (runScalar (.float v mn mx p d1 d2) [.max x, .max y])
      (runScalar (.float v mn mx p d1 d2) [.max y, .max x]) := by
  cases hx : argFloat x <;> cases hy : argFloat y <;> cases v <;> cases mn <;> cases mx <;> cases p <;>
    simp [run2, float_max, hx, hy, SameOutcome_err] <;>
    (repeat' split) <;> simp_all [SameOutcome]

theorem float_prec_prec (v mn mx : Option PyFloat) (p : Option Nat) (d1 d2 : Option Rat) (x y : Arg) :
    SameOutcome (runScalar (.float v mn mx p d1 d2) [.precision x, .precision y])
      (runScalar (.float v mn mx p d1 d2) [.precision y, .precision x]) := by
  cases hx : argInt x <;> cases hy : argInt y <;> cases v <;> cases mn <;> cases mx <;> cases p <;>
    simp [run2, float_precision, hx, hy, SameOutcome_err] <;>
    (repeat' split) <;> simp_all [SameOutcome]

theorem float_min_max (v mn mx : Option PyFloat) (p : Option Nat) (d1 d2 : Option Rat) (x y : Arg) :
    SameOutcome (runScalar (.float v mn mx p d1 d2) [.min x, .max y])
      (runScalar (.float v mn mx p d1 d2) [.max y, .min x]) := by
  cases hx : argFloat x <;> cases hy : argFloat y <;> cases v <;> cases mn <;> cases mx <;> cases p <;>
    simp [run2, float_max, float_min, hx, hy, SameOutcome_err] <;>
    (repeat' split) <;> simp_all [SameOutcome]

theorem float_min_prec (v mn mx : Option PyFloat) (p : Option Nat) (d1 d2 : Option Rat) (x y : Arg) :
    SameOutcome (runScalar (.float v mn mx p d1 d2) [.min x, .precision y])
      (runScalar (.float v mn mx p d1 d2) [.precision y, .min x]) := by
  cases hx : argFloat x <;> cases hy : argInt y <;> cases v <;> cases mn <;> cases mx <;> cases p <;>
    simp [run2, float_min, float_precision, hx, hy, SameOutcome_err] <;>
    (repeat' split) <;> simp_all [SameOutcome]

theorem float_max_prec (v mn mx : Option PyFloat) (p : Option Nat) (d1 d2 : Option Rat) (x y : Arg) :
    SameOutcome (runScalar (.float v mn mx p d1 d2) [.max x, .precision y])
      (runScalar (.float v mn mx p d1 d2) [.precision y, .max x]) := by
  cases hx : argFloat x <;> cases hy : argInt y <;> cases v <;> cases mn <;> cases mx <;> cases p <;>
    simp [run2, float_max, float_precision, hx, hy, SameOutcome_err] <;>
    (repeat' split) <;> simp_all [SameOutcome]

/-! ### str -/

theorem str_len_len (v : Option Str) (L : LenP) (al sub : Option Str) (pat : Option Pat) (a b c d : Arg) :
    SameOutcome (runScalar (.str v L al sub pat) [.len a b, .len c d])
      (runScalar (.str v L al sub pat) [.len c d, .len a b]) := by
  cases hL : L.anySet <;> cases pat <;>
    simp [run2, str_len, hL, SameOutcome_err]
  have A1 := fun L' => strLen_anySet v L L' a b
  have A2 := fun L' => strLen_anySet v L L' c d
  cases h1 : strLen v L a b <;> cases h2 : strLen v L c d <;> simp_all [SameOutcome_err, str_len]

theorem str_len_alphabet (v : Option Str) (L : LenP) (al sub : Option Str) (pat : Option Pat) (a b x : Arg) :
    SameOutcome (runScalar (.str v L al sub pat) [.len a b, .alphabet x])
      (runScalar (.str v L al sub pat) [.alphabet x, .len a b]) := by
  have A1 := fun L' => strLen_anySet v L L' a b
  cases hx : argStr x <;> cases h1 : strLen v L a b <;> cases hL : L.anySet <;> cases pat <;>
    cases al <;> cases sub <;> cases v <;>
    simp_all [run2, str_len, str_alphabet, SameOutcome_err] <;>
    (repeat' split) <;> simp_all [SameOutcome]

theorem str_len_contains (v : Option Str) (L : LenP) (al sub : Option Str) (pat : Option Pat) (a b x : Arg) :
    SameOutcome (runScalar (.str v L al sub pat) [.len a b, .contains x])
      (runScalar (.str v L al sub pat) [.contains x, .len a b]) := by
  have A1 := fun L' => strLen_anySet v L L' a b
  cases hx : argStr x <;> cases h1 : strLen v L a b <;> cases hL : L.anySet <;> cases pat <;>
    cases al <;> cases sub <;> cases v <;>
    simp_all [run2, str_len, str_contains, SameOutcome_err] <;>
    (repeat' split) <;> simp_all [SameOutcome]

theorem str_len_regex (v : Option Str) (L : LenP) (al sub : Option Str) (pat : Option Pat) (a b x : Arg) :
    SameOutcome (runScalar (.str v L al sub pat) [.len a b, .regex x])
      (runScalar (.str v L al sub pat) [.regex x, .len a b]) := by
  have A1 := fun L' => strLen_anySet v L L' a b
  rcases hx : regexArg x with _ | ⟨cmp_x, p_x, m_x⟩ <;> cases h1 : strLen v L a b <;> cases hL : L.anySet <;> cases pat <;>
    cases al <;> cases sub <;> cases v <;>
    simp_all [run2, str_len, str_regex, SameOutcome_err] <;>
    (repeat' split) <;> simp_all [SameOutcome]

theorem str_alphabet_alphabet (v : Option Str) (L : LenP) (al sub : Option Str) (pat : Option Pat) (x y : Arg) :
    SameOutcome (runScalar (.str v L al sub pat) [.alphabet x, .alphabet y])
      (runScalar (.str v L al sub pat) [.alphabet y, .alphabet x]) := by
  cases hx : argStr x <;> cases hy : argStr y <;> cases hL : L.anySet <;> cases pat <;>
    cases al <;> cases sub <;> cases v <;>
    simp_all [run2, str_alphabet, SameOutcome_err] <;>
    (repeat' split) <;> simp_all [SameOutcome]

theorem str_alphabet_contains (v : Option Str) (L : LenP) (al sub : Option Str) (pat : Option Pat) (x y : Arg) :
    SameOutcome (runScalar (.str v L al sub pat) [.alphabet x, .contains y])
      (runScalar (.str v L al sub pat) [.contains y, .alphabet x]) := by
  cases hx : argStr x <;> cases hy : argStr y <;> cases hL : L.anySet <;> cases pat <;>
    cases al <;> cases sub <;> cases v <;>
    simp_all [run2, str_alphabet, str_contains, SameOutcome_err] <;>
    (repeat' split) <;> simp_all [SameOutcome]

theorem str_alphabet_regex (v : Option Str) (L : LenP) (al sub : Option Str) (pat : Option Pat) (x y : Arg) :
    SameOutcome (runScalar (.str v L al sub pat) [.alphabet x, .regex y])
      (runScalar (.str v L al sub pat) [.regex y, .alphabet x]) := by
  cases hx : argStr x <;> rcases hy : regexArg y with _ | ⟨cmp_y, p_y, m_y⟩ <;> cases hL : L.anySet <;> cases pat <;>
    cases al <;> cases sub <;> cases v <;>
    simp_all [run2, str_alphabet, str_regex, SameOutcome_err] <;>
    (repeat' split) <;> simp_all [SameOutcome]

theorem str_contains_contains (v : Option Str) (L : LenP) (al sub : Option Str) (pat : Option Pat) (x y : Arg) :
    SameOutcome (runScalar (.str v L al sub pat) [.contains x, .contains y])
      (runScalar (.str v L al sub pat) [.contains y, .contains x]) := by
  cases hx : argStr x <;> cases hy : argStr y <;> cases hL : L.anySet <;> cases pat <;>
    cases al <;> cases sub <;> cases v <;>
    simp_all [run2, str_contains, SameOutcome_err] <;>
    (repeat' split) <;> simp_all [SameOutcome]

theorem str_contains_regex (v : Option Str) (L : LenP) (al sub : Option Str) (pat : Option Pat) (x y : Arg) :
    SameOutcome (runScalar (.str v L al sub pat) [.contains x, .regex y])
      (runScalar (.str v L al sub pat) [.regex y, .contains x]) := by
  cases hx : argStr x <;> rcases hy : regexArg y with _ | ⟨cmp_y, p_y, m_y⟩ <;> cases hL : L.anySet <;> cases pat <;>
    cases al <;> cases sub <;> cases v <;>
    simp_all [run2, str_contains, str_regex, SameOutcome_err] <;>
    (repeat' split) <;> simp_all [SameOutcome]

theorem str_regex_regex (v : Option Str) (L : LenP) (al sub : Option Str) (pat : Option Pat) (x y : Arg) :
    SameOutcome (runScalar (.str v L al sub pat) [.regex x, .regex y])
      (runScalar (.str v L al sub pat) [.regex y, .regex x]) := by
  rcases hx : regexArg x with _ | ⟨cmp_x, p_x, m_x⟩ <;> rcases hy : regexArg y with _ | ⟨cmp_y, p_y, m_y⟩ <;> cases hL : L.anySet <;> cases pat <;>
    cases al <;> cases sub <;> cases v <;>
    simp_all [run2, str_regex, SameOutcome_err] <;>
    (repeat' split) <;> simp_all [SameOutcome]

theorem swap_int (v mn mx : Option Int) (a b : Op)
    (hsa : supported 2 a = true) (hsb : supported 2 b = true) :
    SameOutcome (runScalar (.int v mn mx) [a, b]) (runScalar (.int v mn mx) [b, a]) := by
  cases a <;> simp [supported] at hsa <;> cases b <;> simp [supported] at hsb
  · exact int_min_min ..
  · exact int_min_max ..
  · exact SameOutcome_symm (int_min_max ..)
  · exact int_max_max ..

theorem swap_float (v mn mx : Option PyFloat) (p : Option Nat) (d1 d2 : Option Rat) (a b : Op)
    (hsa : supported 3 a = true) (hsb : supported 3 b = true) :
    SameOutcome (runScalar (.float v mn mx p d1 d2) [a, b]) (runScalar (.float v mn mx p d1 d2) [b, a]) := by
  cases a <;> simp [supported] at hsa <;> cases b <;> simp [supported] at hsb
  · exact float_min_min ..
  · exact float_min_max ..
  · exact float_min_prec ..
  · exact SameOutcome_symm (float_min_max ..)
  · exact float_max_max ..
  · exact float_max_prec ..
  · exact SameOutcome_symm (float_min_prec ..)
  · exact SameOutcome_symm (float_max_prec ..)
  · exact float_prec_prec ..

theorem swap_str (v : Option Str) (L : LenP) (al sub : Option Str) (pat : Option Pat) (a b : Op)
    (hsa : supported 4 a = true) (hsb : supported 4 b = true) :
    SameOutcome (runScalar (.str v L al sub pat) [a, b]) (runScalar (.str v L al sub pat) [b, a]) := by
  cases a <;> simp [supported] at hsa <;> cases b <;> simp [supported] at hsb
  · exact str_len_len ..
  · exact str_len_alphabet ..
  · exact str_len_contains ..
  · exact str_len_regex ..
  · exact SameOutcome_symm (str_len_alphabet ..)
  · exact str_alphabet_alphabet ..
  · exact str_alphabet_contains ..
  · exact str_alphabet_regex ..
  · exact SameOutcome_symm (str_len_contains ..)
  · exact SameOutcome_symm (str_alphabet_contains ..)
  · exact str_contains_contains ..
  · exact str_contains_regex ..
  · exact SameOutcome_symm (str_len_regex ..)
  · exact SameOutcome_symm (str_alphabet_regex ..)
  · exact SameOutcome_symm (str_contains_regex ..)
  · exact str_regex_regex ..

/-- two adjacent non-value refinements can be swapped — for every scalar type, every pair of methods
    (min, max, precision; the four len forms, alphabet, contains, regex), every argument of any type,
    whether or not a value was fixed first -/
theorem declScalar_swap (k : ScalarS) (a b : Op) (ha : a.isValue = false) (hb : b.isValue = false) :
    SameOutcome (runScalar k [a, b]) (runScalar k [b, a]) := by
  by_cases hsa : supported k.tag a = false
  · exact swap_unsupported k a b ha hb hsa
  by_cases hsb : supported k.tag b = false
  · exact SameOutcome_symm (swap_unsupported k b a hb ha hsb)
  simp only [Bool.not_eq_false] at hsa hsb
  cases k
  case int v mn mx => exact swap_int v mn mx a b hsa hsb
  case float v mn mx p d1 d2 => exact swap_float v mn mx p d1 d2 a b hsa hsb
  case str v L al sub pat => exact swap_str v L al sub pat a b hsa hsb
  all_goals (exfalso; cases a <;> simp [supported, ScalarS.tag] at hsa)

theorem SameOutcome_refl (x : Except PyExc ScalarS) : SameOutcome x x := by
  cases x <;> simp [SameOutcome]

theorem SameOutcome_trans {x y z : Except PyExc ScalarS} (h1 : SameOutcome x y) (h2 : SameOutcome y z) :
    SameOutcome x z := by
  cases x <;> cases y <;> cases z <;> simp_all [SameOutcome]

theorem runScalar_cons (k : ScalarS) (op : Op) (ops : List Op) :
    runScalar k (op :: ops) = bindE (declScalar k op) (fun k' => runScalar k' ops) := by
  simp only [runScalar, bindE]

theorem runScalar_cons2 (k : ScalarS) (a b : Op) (ops : List Op) :
    runScalar k (a :: b :: ops) = bindE (runScalar k [a, b]) (fun k' => runScalar k' ops) := by
  simp only [runScalar, bindE]
  cases declScalar k a with
  | error e => rfl
  | ok k' => simp only []; cases declScalar k' b <;> rfl

theorem SameOutcome_bindE {x y : Except PyExc ScalarS} (h : SameOutcome x y)
    (f g : ScalarS → Except PyExc ScalarS) (hfg : ∀ k, SameOutcome (f k) (g k)) :
    SameOutcome (bindE x f) (bindE y g) := by
  cases x <;> cases y <;> simp_all [SameOutcome, bindE]

theorem decl_perm_all (l l' : List Op) (hp : l.Perm l') (hnv : ∀ op ∈ l, op.isValue = false) :
    ∀ k : ScalarS, SameOutcome (runScalar k l) (runScalar k l') := by
  induction hp with
  | nil => intro k; exact SameOutcome_refl _
  | cons x _ ih =>
    intro k
    rw [runScalar_cons, runScalar_cons]
    exact SameOutcome_bindE (SameOutcome_refl _) _ _
      (ih (fun op h => hnv op (List.mem_cons_of_mem _ h)))
  | swap x y l =>
    intro k
    rw [runScalar_cons2 k y x l, runScalar_cons2 k x y l]
    exact SameOutcome_bindE (declScalar_swap k y x (hnv y (by simp)) (hnv x (by simp))) _ _
      (fun k' => SameOutcome_refl _)
  | trans h1 _ ih1 ih2 =>
    intro k
    exact SameOutcome_trans (ih1 hnv k) (ih2 (fun op h => hnv op (h1.mem_iff.2 h)) k)

/-- **C11.** Any permutation of any list (of any length) of non-value refinements of one scalar
    schema gives the same outcome: all orders are rejected, or all succeed with equal schemas. -/
theorem decl_perm (k : ScalarS) (l l' : List Op) (hp : l.Perm l') (hnv : ∀ op ∈ l, op.isValue = false) :
    SameOutcome (runScalar k l) (runScalar k l') :=
  decl_perm_all l l' hp hnv k

/-- the same after fixing a value first -/
theorem decl_perm_after_value (k : ScalarS) (v : Arg) (l l' : List Op) (hp : l.Perm l')
    (hnv : ∀ op ∈ l, op.isValue = false) :
    SameOutcome (runScalar k (.call v :: l)) (runScalar k (.call v :: l')) := by
  rw [runScalar_cons, runScalar_cons]
  exact SameOutcome_bindE (SameOutcome_refl _) _ _ (decl_perm_all l l' hp hnv)

/-- non-vacuity: an accepted and a rejected three-element set on `schema.str("ab")` -/
example : ∃ k, runScalar (.str (some [97, 98]) {} none none none)
    [.len (.v (.int 2)) .nil, .alphabet (.v (.str [97, 98, 99])), .contains (.v (.str [98]))] = .ok k :=
  ⟨_, rfl⟩

example : ∃ e, runScalar (.str (some [97, 98]) {} none none none)
    [.alphabet (.v (.str [97, 98, 99])), .regex (.pat true ⟨0, []⟩ true)] = .error e :=
  ⟨_, rfl⟩

/-! ### list `len` -/

theorem dispatch_anySet (dl dmin dmax : LenP → Arg → Except PyExc LenP)
    (hl : ∀ L a L', dl L a = .ok L' → L'.anySet = true)
    (hmin : ∀ L a L', dmin L a = .ok L' → L'.anySet = true)
    (hmax : ∀ L a L', dmax L a = .ok L' → L'.anySet = true)
    (L L' : LenP) (a b : Arg) (h : declLenDispatch dl dmin dmax L a b = .ok L') : L'.anySet = true := by
  unfold declLenDispatch at h
  split at h
  · exact hmax _ _ _ h
  · split at h
    · exact hl _ _ _ h
    · split at h
      · exact hmin _ _ _ h
      · cases h1 : dmin L a with
        | error e => simp [h1, bind, Except.bind] at h
        | ok L1 =>
          simp only [h1, bind, Except.bind] at h
          exact hmax _ _ _ h

theorem listDeclLen_set (el : Option (Nat × Bool)) (L : LenP) (a : Arg) (L' : LenP)
    (h : listDeclLen el L a = .ok L') : L'.anySet = true := by
  unfold listDeclLen at h
  repeat' split at h
  all_goals (try simp at h)
  all_goals (subst h; simp [LenP.anySet])

theorem listDeclMin_set (el : Option (Nat × Bool)) (L : LenP) (a : Arg) (L' : LenP)
    (h : listDeclMin el L a = .ok L') : L'.anySet = true := by
  unfold listDeclMin at h
  repeat' split at h
  all_goals (try simp at h)
  all_goals (subst h; simp [LenP.anySet])

theorem listDeclMax_set (el : Option (Nat × Bool)) (L : LenP) (a : Arg) (L' : LenP)
    (h : listDeclMax el L a = .ok L') : L'.anySet = true := by
  unfold listDeclMax at h
  repeat' split at h
  all_goals (try simp at h)
  all_goals (subst h; simp [LenP.anySet])

theorem listLen_anySet (el : Option (Nat × Bool)) (L L' : LenP) (a b : Arg)
    (h : declLenDispatch (listDeclLen el) (listDeclMin el) (listDeclMax el) L a b = .ok L') :
    L'.anySet = true :=
  dispatch_anySet _ _ _ (listDeclLen_set el) (listDeclMin_set el) (listDeclMax_set el) L L' a b h

theorem scalar_len_twice (k k' : ScalarS) (a b c d : Arg) (hk : declScalar k (.len a b) = .ok k') :
    ∃ e, declScalar k' (.len c d) = .error e := by
  by_cases hs : supported k.tag (.len a b) = false
  · rw [unsupported_err k _ rfl hs] at hk; cases hk
  · cases k <;> (try (exfalso; simp [supported, ScalarS.tag] at hs; done))
    case str v L al sub pat =>
      rw [str_len] at hk
      split at hk
      · cases hk
      · cases h1 : strLen v L a b with
        | error e => simp [h1] at hk
        | ok L1 =>
          simp only [h1] at hk
          cases hk
          exact ⟨.declarationError, by rw [str_len]; simp [strLen_anySet _ _ _ _ _ h1]⟩

/-- list schemas have a single non-value refinement (`len`), so its orders are trivially the same; the
    interesting fact is that `len` commutes with nothing else being declarable twice -/
theorem list_len_twice_rejected (s s' : Schema) (a b c d : Arg)
    (h : Decl.apply s (.len a b) = .ok s') : ∃ e, Decl.apply s' (.len c d) = .error e := by
  cases s with
  | scalar k =>
    simp only [Decl.apply] at h
    cases hk : declScalar k (.len a b) with
    | error e => simp [hk, bind, Except.bind] at h
    | ok k' =>
      simp [hk, bind, Except.bind, pure, Except.pure] at h
      subst h
      obtain ⟨e, he⟩ := scalar_len_twice k k' a b c d hk
      exact ⟨e, by simp [Decl.apply, he, bind, Except.bind]⟩
  | listU L =>
    simp only [Decl.apply] at h
    split at h
    · cases h
    · cases h1 : declLenDispatch (listDeclLen none) (listDeclMin none) (listDeclMax none) L a b with
      | error e => simp [h1, bind, Except.bind] at h
      | ok L1 =>
        simp [h1, bind, Except.bind, pure, Except.pure] at h
        subst h
        exact ⟨.declarationError, by simp [Decl.apply, listLen_anySet _ _ _ _ _ h1]⟩
  | listT t L =>
    simp only [Decl.apply] at h
    split at h
    · cases h
    · cases h1 : declLenDispatch (listDeclLen none) (listDeclMin none) (listDeclMax none) L a b with
      | error e => simp [h1, bind, Except.bind] at h
      | ok L1 =>
        simp [h1, bind, Except.bind, pure, Except.pure] at h
        subst h
        exact ⟨.declarationError, by simp [Decl.apply, listLen_anySet _ _ _ _ _ h1]⟩
  | listE lead es trail L =>
    simp only [Decl.apply] at h
    split at h
    · cases h
    · cases h1 : declLenDispatch (listDeclLen (some (es.length, lead || trail)))
          (listDeclMin (some (es.length, lead || trail))) (listDeclMax (some (es.length, lead || trail))) L a b with
      | error e => simp [h1, bind, Except.bind] at h
      | ok L1 =>
        simp [h1, bind, Except.bind, pure, Except.pure] at h
        subst h
        exact ⟨.declarationError, by simp [Decl.apply, listLen_anySet _ _ _ _ _ h1]⟩
  | dict f e => simp [Decl.apply] at h
  | any ts => simp [Decl.apply] at h
  | alias n t => simp [Decl.apply] at h
  | custom t => simp [Decl.apply] at h

end D42
