/-
  C06 — umbrella: round trip of the printed calls (scalars, containers), and the scalar part of the print model = the
  programs extracted from the source.
-/
import D42.Props.C06Containers
import D42.Props.ReprProg
