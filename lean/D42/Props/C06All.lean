/-
  C06 — umbrella: round trip of the printed calls (scalars, containers), and the scalar part of the print model = the
  programs extracted from the source.
-/
import D42.Props.C06Containers
import D42.Props.ReprProg

namespace D42
open CP RP

/-- the text printed by the print program AS EXTRACTED FROM THE SOURCE is exactly the rendering of the calls whose replay
    through the declaration model rebuilds the schema (`reprScalar_eq_extracted` composed with `reprScalar_eq_calls`), for
    every scalar schema -/
theorem extracted_print_eq_calls (k : ScalarS) :
    flattenToks (runRepr (viewScalar k) (reprProgOf k))
      = flattenToks (.t (facadeName k) :: (scalarCalls k).flatMap opToks) := by
  rw [← reprScalar_eq_extracted]
  exact reprScalar_eq_calls k

/-- and for every schema reachable through declaration calls, replaying those printed calls gives the schema back, which
    prints the same text again under the extracted program -/
theorem extracted_print_roundtrip (k k' : ScalarS) (ops : List Op) (hreach : runScalar (freshOf k) ops = .ok k)
    (h : runScalar (freshOf k) (scalarCalls k) = .ok k') :
    k' = k ∧ runRepr (viewScalar k') (reprProgOf k') = runRepr (viewScalar k) (reprProgOf k) := by
  have hk : k' = k := by
    have := repr_scalar_roundtrip k ops hreach
    rw [this] at h
    exact (Except.ok.inj h).symm
  subst hk
  exact ⟨rfl, rfl⟩

end D42
