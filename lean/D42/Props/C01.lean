/-
  C01 — generated data validates against its own schema, for every outcome of every random draw.

  The generator consumes an explicit list of answers (`Draws`), each range-checked against what the code
  asked for, so a theorem about `gen env s st = .ok (v, st')` quantifies over *all* outcomes of *all*
  draws, both ends of every range included.
-/
import D42.Model.Gen
import D42.Props.C02
import D42.Props.C09

namespace D42

/-! ### what is assumed of the environment (CPython facts, stated — not axioms) -/

/-- IEEE rounding is monotone (this carries `min ≤ k/10^p` over ℚ to `min ≤ fl(k/10^p)` over doubles),
    and `round(x, p)` is the identity on `fl(k/10^p)` -/
structure EnvOK (env : Env) : Prop where
  fl_mono : ∀ a b : Rat, a ≤ b → PyFloat.le (env.fl a) (env.fl b) = true
  round_stable : ∀ (k : Int) (p : Nat), roundP env (env.fl ((k : Rat) / ((10 ^ p : Nat) : Rat))) p = env.fl ((k : Rat) / ((10 ^ p : Nat) : Rat))

/-- `float(repr(x)) == x`: the decimal companion of a declared bound rounds back to the bound -/
def DecOK (env : Env) : Option PyFloat → Option Rat → Prop
  | some (.fin q), some d => env.fl d = .fin q
  | some (.fin _), none => False
  | _, _ => True

/-- CPython's `re.search` finds a match whenever the whole string is in the language of the pattern -/
def RxComplete (env : Env) (ext : ClsItem → Nat → Prop) (pat : Pat) : Prop :=
  ∀ s, MatchesSeq ext pat.tree s → env.rxSearch pat.id s = true

/-! ### hypotheses on the schema (they exclude exactly the recorded findings K2, K4 and unsatisfiable pieces) -/

/-- the fixed value of a scalar schema -/
def ScalarS.fixedV : ScalarS → Option PyVal
  | .none => Option.none
  | .bool v => v.map PyVal.bool
  | .int v _ _ => v.map PyVal.int
  | .float v _ _ _ _ _ => v.map PyVal.float
  | .str v _ _ _ _ => v.map PyVal.str
  | .bytes v => v.map PyVal.bytes
  | .uuid4 v => v.map (fun iv => PyVal.uuid iv.1 iv.2)
  | .datetime v => v.map PyVal.datetime
  | .date v => v.map (fun bi => if bi.1 then PyVal.datetime bi.2 else PyVal.date bi.2)

/-- a scalar schema the generator can serve:
    * a fixed value conforms to the schema itself (what declaration guarantees — C10);
    * a pattern excludes every other str constraint (what declaration guarantees) and `re.search` is complete for it;
    * an unfixed, pattern-free str schema is satisfiable;
    * declared float bounds have faithful decimal companions when a precision grid is used. -/
def ScalarGenHyp (env : Env) (ext : ClsItem → Nat → Prop) (k : ScalarS) : Prop :=
  (∀ v, k.fixedV = some v → validateScalar env k v [] = []) ∧
  (match k with
   | .str none L al sub (some pat) => L = {} ∧ al = none ∧ sub = none ∧ RxComplete env ext pat
   | .str none L al sub none => ∃ w, ConformsScalar env (.str none L al sub none) w
   | .float none mn mx (some _) mnDec mxDec => DecOK env mn mnDec ∧ DecOK env mx mxDec
   | _ => True)

/-- list lengths the generator can honour: a declared exact length is what it will produce, a declared
    maximum is not negative -/
def LenGenOK (L : LenP) : Prop :=
  (∀ k, L.len = some k → LenOK L k.toNat) ∧ (∀ k, L.maxLen = some k → 0 ≤ k) ∧
  (∀ a b, L.minLen = some a → L.maxLen = some b → a ≤ b)

mutual
/-- hereditary generation hypothesis (HSat ∧ GenOK of DESIGN §3 C01) -/
def GenHyp (env : Env) (ext : ClsItem → Nat → Prop) : Schema → Prop
  | .scalar k => ScalarGenHyp env ext k
  | .listU L => LenGenOK L
  | .listT t L => LenGenOK L ∧ GenHyp env ext t
  | .listE _ es _ L => LenOK L es.length ∧ GenHypL env ext es          -- K2: the generator emits exactly the concrete elements
  | .dict none _ => True
  | .dict (some fs) _ => (fs.map (·.1)).Nodup ∧ GenHypF env ext fs
  | .any none => True
  | .any (some ts) => GenHypL env ext ts                              -- K4: every alternative, not just one
  | .alias _ t => GenHyp env ext t
  | .custom t => GenHyp env ext t
def GenHypL (env : Env) (ext : ClsItem → Nat → Prop) : List Schema → Prop
  | [] => True
  | s :: ss => GenHyp env ext s ∧ GenHypL env ext ss
def GenHypF (env : Env) (ext : ClsItem → Nat → Prop) : List (PyKey × Bool × Schema) → Prop
  | [] => True
  | (_, opt, s) :: fs => (opt = false → GenHyp env ext s) ∧ GenHypF env ext fs
end

/-! ### PART A — scalars (to prove) -/

/-- `randomStr n alphabet` returns exactly `n` characters, all from the alphabet, whatever the draws -/
theorem randomStr_spec (n : Nat) (alphabet : List Nat) (st st' : GS) (s : Str)
    (h : randomStr n alphabet st = .ok (s, st')) : s.length = n ∧ ∀ c ∈ s, c ∈ alphabet := by
  induction n generalizing st st' s with
  | zero =>
    simp only [randomStr, pure] at h
    obtain ⟨rfl, _⟩ := G.pure_ok h
    simp
  | succ n ih =>
    simp only [randomStr, bind, pure] at h
    obtain ⟨c, st1, h1, h2⟩ := G.bind_ok h
    obtain ⟨r, st2, h3, h4⟩ := G.bind_ok h2
    obtain ⟨rfl, _⟩ := G.pure_ok h4
    obtain ⟨hl, hm⟩ := ih _ _ _ h3
    refine ⟨by simp [hl], ?_⟩
    intro x hx
    rcases List.mem_cons.1 hx with rfl | hx
    · exact choiceChar_ok h1
    · exact hm x hx

theorem rat_le_div {a b c : Rat} (hc : 0 < c) (h : a * c ≤ b) : a ≤ b / c := by
  rw [← Rat.not_lt] at h ⊢
  rwa [Rat.div_lt_iff hc]

theorem rat_div_le {a b c : Rat} (hc : 0 < c) (h : b ≤ a * c) : b / c ≤ a := by
  rw [← Rat.not_lt] at h ⊢
  rwa [Rat.lt_div_iff hc]

theorem pow10_pos (p : Nat) : (0 : Rat) < ((10 ^ p : Nat) : Rat) := by
  rw [Rat.natCast_pos]; exact Nat.pow_pos (by decide)

/-- `ceil(d·10^p) ≤ k` puts the grid point `k/10^p` at or above `d` -/
theorem ceil_grid_le {d : Rat} {p : Nat} {k : Int} (h : (d * ((10 ^ p : Nat) : Rat)).ceil ≤ k) :
    d ≤ (k : Rat) / ((10 ^ p : Nat) : Rat) :=
  rat_le_div (pow10_pos p) (Rat.ceil_le_iff.1 h)

/-- `k ≤ floor(d·10^p)` puts the grid point `k/10^p` at or below `d` -/
theorem grid_le_floor {d : Rat} {p : Nat} {k : Int} (h : k ≤ (d * ((10 ^ p : Nat) : Rat)).floor) :
    (k : Rat) / ((10 ^ p : Nat) : Rat) ≤ d :=
  rat_div_le (pow10_pos p) (Rat.le_floor_iff.1 h)

theorem uniform_ok {env : Env} {a b f : PyFloat} {st st' : GS} (h : uniform env a b st = .ok (f, st')) :
    PyFloat.le a f = true ∧ PyFloat.le f b = true := by
  unfold uniform at h
  split at h
  · split at h
    · split at h
      · split at h
        · rename_i hc
          simp at h
          obtain ⟨rfl, _⟩ := h
          simpa using hc
        · simp at h
      · simp at h
    · simp at h
  · simp at h

theorem PyFloat.eq_le {a b : PyFloat} (h : PyFloat.eq a b = true) :
    PyFloat.le a a = true ∧ PyFloat.le a b = true := by
  cases a <;> cases b <;> simp_all [PyFloat.eq, PyFloat.le]
  all_goals exact Rat.le_refl

/-- the shortcut of `random_float` (fix F20): equal ends return the end itself, no draw -/
theorem randomFloat_eq_ok {env : Env} {lo hi : PyFloat} {loDec hiDec : Option Rat} {prec : Option Nat}
    {st st' : GS} {f : PyFloat} (he : PyFloat.eq lo hi = true)
    (h : randomFloat env lo hi loDec hiDec prec st = .ok (f, st')) : f = lo ∧ st' = st := by
  unfold randomFloat at h
  split at h
  · simp [G.fail] at h
  · simp only [pure] at h
    obtain ⟨rfl, rfl⟩ := G.pure_ok h
    exact ⟨rfl, rfl⟩

/-- inversion of the grid branch of `randomFloat` -/
theorem randomFloat_grid_ok {env : Env} {lo hi : PyFloat} {loDec hiDec : Option Rat} {p : Nat}
    {st st' : GS} {f : PyFloat} (hne : PyFloat.eq lo hi = false)
    (h : randomFloat env lo hi loDec hiDec (some p) st = .ok (f, st')) :
    ∃ (l r k : Int), decCeil lo loDec p = .ok l ∧ decFloor hi hiDec p = .ok r ∧ l ≤ k ∧ k ≤ r ∧
      f = roundP env (env.fl ((k : Rat) / ((10 ^ p : Nat) : Rat))) p := by
  unfold randomFloat at h
  split at h
  · simp [G.fail] at h
  · simp only [hne, Bool.false_eq_true, if_false, bind, pure] at h
    obtain ⟨l, st1, h1, h2⟩ := G.bind_ok h
    obtain ⟨r, st2, h3, h4⟩ := G.bind_ok h2
    obtain ⟨k, st3, h5, h6⟩ := G.bind_ok h4
    obtain ⟨rfl, _⟩ := G.pure_ok h6
    obtain ⟨h7, h8, _⟩ := randint_ok h5
    exact ⟨l, r, k, liftE_ok h1, liftE_ok h3, h7, h8, rfl⟩

theorem randomFloat_uniform_ok {env : Env} {lo hi : PyFloat} {loDec hiDec : Option Rat}
    {st st' : GS} {f : PyFloat} (hne : PyFloat.eq lo hi = false)
    (h : randomFloat env lo hi loDec hiDec none st = .ok (f, st')) :
    PyFloat.le lo f = true ∧ PyFloat.le f hi = true := by
  unfold randomFloat at h
  split at h
  · simp [G.fail] at h
  · first
      | exact uniform_ok h
      | (simp only [hne, Bool.false_eq_true, if_false] at h; exact uniform_ok h)

/-- lower half of `randomFloat_in_bounds`: needs the decimal companion of the lower bound only,
    and only when a precision grid is used -/
theorem randomFloat_lo (env : Env) (he : EnvOK env) (lo hi : PyFloat) (loDec hiDec : Option Rat) (prec : Option Nat)
    (st st' : GS) (f : PyFloat)
    (hlo : prec.isSome = true → DecOK env (some lo) loDec)
    (h : randomFloat env lo hi loDec hiDec prec st = .ok (f, st')) :
    PyFloat.le lo f = true := by
  cases heq : PyFloat.eq lo hi with
  | true => obtain ⟨rfl, _⟩ := randomFloat_eq_ok heq h; exact (PyFloat.eq_le heq).1
  | false =>
  cases prec with
  | none => exact (randomFloat_uniform_ok heq h).1
  | some p =>
    obtain ⟨l, r, k, h1, _, h3, _, rfl⟩ := randomFloat_grid_ok heq h
    have hd := hlo rfl
    rw [he.round_stable]
    cases lo with
    | fin q =>
      cases loDec with
      | none => simp [DecOK] at hd
      | some d =>
        simp only [DecOK] at hd
        simp only [decCeil, Except.ok.injEq] at h1
        subst h1
        rw [← hd]
        exact he.fl_mono _ _ (ceil_grid_le h3)
    | pinf => simp [decCeil] at h1
    | ninf => simp [decCeil] at h1
    | nan => simp [decCeil] at h1

/-- upper half of `randomFloat_in_bounds` -/
theorem randomFloat_hi (env : Env) (he : EnvOK env) (lo hi : PyFloat) (loDec hiDec : Option Rat) (prec : Option Nat)
    (st st' : GS) (f : PyFloat)
    (hhi : prec.isSome = true → DecOK env (some hi) hiDec)
    (h : randomFloat env lo hi loDec hiDec prec st = .ok (f, st')) :
    PyFloat.le f hi = true := by
  cases heq : PyFloat.eq lo hi with
  | true => obtain ⟨rfl, _⟩ := randomFloat_eq_ok heq h; exact (PyFloat.eq_le heq).2
  | false =>
  cases prec with
  | none => exact (randomFloat_uniform_ok heq h).2
  | some p =>
    obtain ⟨l, r, k, _, h2, _, h4, rfl⟩ := randomFloat_grid_ok heq h
    have hd := hhi rfl
    rw [he.round_stable]
    cases hi with
    | fin q =>
      cases hiDec with
      | none => simp [DecOK] at hd
      | some d =>
        simp only [DecOK] at hd
        simp only [decFloor, Except.ok.injEq] at h2
        subst h2
        rw [← hd]
        exact he.fl_mono _ _ (grid_le_floor h4)
    | pinf => simp [decFloor] at h2
    | ninf => simp [decFloor] at h2
    | nan => simp [decFloor] at h2

/-- whatever `random_float` returns is a number (never nan) -/
theorem randomFloat_not_nan (env : Env) (he : EnvOK env) (lo hi : PyFloat) (loDec hiDec : Option Rat) (prec : Option Nat)
    (st st' : GS) (f : PyFloat) (h : randomFloat env lo hi loDec hiDec prec st = .ok (f, st')) : f ≠ .nan := by
  cases heq : PyFloat.eq lo hi with
  | true =>
    obtain ⟨rfl, _⟩ := randomFloat_eq_ok heq h
    intro hn; subst hn; simp [PyFloat.eq] at heq
  | false =>
  cases prec with
  | none =>
    have := (randomFloat_uniform_ok heq h).1
    intro hn; subst hn; cases lo <;> simp [PyFloat.le] at this
  | some p =>
    obtain ⟨l, r, k, _, _, _, _, rfl⟩ := randomFloat_grid_ok heq h
    rw [he.round_stable]
    have := he.fl_mono ((k : Rat) / ((10 ^ p : Nat) : Rat)) _ (Rat.le_refl)
    intro hn; rw [hn] at this; simp [PyFloat.le] at this

theorem PyFloat.ninf_le {f : PyFloat} (h : f ≠ .nan) : PyFloat.le .ninf f = true := by
  cases f <;> simp_all [PyFloat.le]
theorem PyFloat.le_pinf {f : PyFloat} (h : f ≠ .nan) : PyFloat.le f .pinf = true := by
  cases f <;> simp_all [PyFloat.le]

/-- the precision grid stays inside the declared bounds: for every drawn grid index -/
theorem randomFloat_in_bounds (env : Env) (he : EnvOK env) (lo hi : PyFloat) (loDec hiDec : Option Rat) (prec : Option Nat)
    (st st' : GS) (f : PyFloat)
    (hlo : DecOK env (some lo) loDec) (hhi : DecOK env (some hi) hiDec)
    (h : randomFloat env lo hi loDec hiDec prec st = .ok (f, st')) :
    PyFloat.le lo f = true ∧ PyFloat.le f hi = true :=
  ⟨randomFloat_lo env he lo hi loDec hiDec prec st st' f (fun _ => hlo) h,
   randomFloat_hi env he lo hi loDec hiDec prec st st' f (fun _ => hhi) h⟩

theorem extDraw_ok {kind : Nat} {v : PyVal} {st st' : GS} (h : extDraw kind st = .ok (v, st')) :
    (kind = 0 → ∃ i, v = .uuid i 4) ∧ (kind = 1 → ∃ i, v = .datetime i) ∧ (kind = 2 → ∃ i, v = .date i) := by
  unfold extDraw at h
  split at h
  · split at h <;> simp at h <;> (obtain ⟨rfl, _⟩ := h; simp)
  · simp at h

theorem fixed_conforms {env : Env} {ext : ClsItem → Nat → Prop} {k : ScalarS} (hk : ScalarGenHyp env ext k)
    {v : PyVal} (hv : k.fixedV = some v) : ConformsScalar env k v :=
  (validateScalar_nil_iff env k v []).1 (hk.1 v hv)

theorem pyMaxI_ge_left (a b : Int) : a ≤ pyMaxI a b := by unfold pyMaxI; split <;> omega
theorem pyMaxI_ge_right (a b : Int) : b ≤ pyMaxI a b := by unfold pyMaxI; split <;> omega
theorem pyMaxI_eq_left (a b : Int) (h : b ≤ a) : pyMaxI a b = a := by unfold pyMaxI; split <;> omega

theorem str_conforms {env : Env} {L : LenP} {al sub : Option Str} {g : Str}
    (hL : LenOK L g.length) (hA : ∀ a, al = some a → ∀ c ∈ g, c ∈ a) (hS : ∀ sb, sub = some sb → sb <:+: g) :
    ConformsScalar env (.str none L al sub none) (.str g) := by
  simp only [ConformsScalar]
  exact ⟨g, rfl, by simp, hL, hA, hS, by simp⟩

/-- **C01, scalars.** every value the scalar generator returns is accepted by the scalar validator -/
theorem genScalar_sound (env : Env) (he : EnvOK env) (ext : ClsItem → Nat → Prop) (k : ScalarS)
    (hk : ScalarGenHyp env ext k) (st st' : GS) (v : PyVal) (p : Path)
    (h : genScalar env k st = .ok (v, st')) : validateScalar env k v p = [] := by
  rw [validateScalar_nil_iff]
  cases k with
  | none =>
    simp only [genScalar, pure] at h
    obtain ⟨rfl, _⟩ := G.pure_ok h
    simp [ConformsScalar]
  | bool b =>
    cases b with
    | none =>
      simp only [genScalar, bind, pure] at h
      obtain ⟨i, st1, h1, h2⟩ := G.bind_ok h
      obtain ⟨rfl, _⟩ := G.pure_ok h2
      simp [ConformsScalar]
    | some b =>
      simp only [genScalar, pure] at h
      obtain ⟨rfl, _⟩ := G.pure_ok h
      simp [ConformsScalar]
  | int x mn mx =>
    cases x with
    | some x =>
      simp only [genScalar, pure] at h
      obtain ⟨rfl, _⟩ := G.pure_ok h
      exact fixed_conforms hk rfl
    | none =>
      simp only [genScalar, bind, pure] at h
      obtain ⟨n, st1, h1, h2⟩ := G.bind_ok h
      obtain ⟨rfl, _⟩ := G.pure_ok h2
      obtain ⟨h3, h4, _⟩ := randint_ok h1
      simp only [ConformsScalar]
      refine ⟨n, rfl, by simp, ?_, ?_⟩
      · rintro m rfl; simpa using h3
      · rintro m rfl; simpa using h4
  | float x mn mx prec mnDec mxDec =>
    cases x with
    | some x =>
      simp only [genScalar, pure] at h
      obtain ⟨rfl, _⟩ := G.pure_ok h
      exact fixed_conforms hk rfl
    | none =>
      simp only [genScalar, bind, pure] at h
      obtain ⟨f, st1, h1, h2⟩ := G.bind_ok h
      obtain ⟨rfl, _⟩ := G.pure_ok h2
      have hd : prec.isSome = true → DecOK env mn mnDec ∧ DecOK env mx mxDec := by
        intro hp
        cases prec with
        | none => simp at hp
        | some pr => exact hk.2
      have hnn := randomFloat_not_nan env he _ _ _ _ _ _ _ _ h1
      simp only [ConformsScalar]
      refine ⟨f, rfl, by simp, ?_, ?_⟩
      · rintro m rfl
        cases m with
        | ninf => exact PyFloat.ninf_le hnn
        | fin q => exact randomFloat_lo env he _ _ _ _ _ _ _ _ (fun hp => (hd hp).1) h1
        | pinf => exact randomFloat_lo env he _ _ _ _ _ _ _ _ (fun hp => (hd hp).1) h1
        | nan => exact randomFloat_lo env he _ _ _ _ _ _ _ _ (fun hp => (hd hp).1) h1
      · rintro M rfl
        cases M with
        | pinf => exact PyFloat.le_pinf hnn
        | fin q => exact randomFloat_hi env he _ _ _ _ _ _ _ _ (fun hp => (hd hp).2) h1
        | ninf => exact randomFloat_hi env he _ _ _ _ _ _ _ _ (fun hp => (hd hp).2) h1
        | nan => exact randomFloat_hi env he _ _ _ _ _ _ _ _ (fun hp => (hd hp).2) h1
  | str x L al sub pat =>
    cases x with
    | some x =>
      simp only [genScalar, pure] at h
      obtain ⟨rfl, _⟩ := G.pure_ok h
      exact fixed_conforms hk rfl
    | none =>
      cases pat with
      | some pt =>
        simp only [genScalar, bind, pure] at h
        obtain ⟨s, st1, h1, h2⟩ := G.bind_ok h
        obtain ⟨rfl, _⟩ := G.pure_ok h2
        obtain ⟨rfl, rfl, rfl, hrx⟩ := hk.2
        have := hrx s (genSeq_sound ext _ _ _ _ h1)
        simp [ConformsScalar, LenOK, this]
      | none =>
        obtain ⟨w, hw⟩ := hk.2
        simp only [ConformsScalar] at hw
        obtain ⟨ws, rfl, _, hwL, hwA, hwS, _⟩ := hw
        simp only [genScalar, bind, pure] at h
        obtain ⟨len, st1, h1, h2⟩ := G.bind_ok h
        clear h hk
        rcases L with ⟨l, mnl, mxl⟩
        cases sub with
        | none =>
          simp only at h2
          obtain ⟨g, st2, h3, h4⟩ := G.bind_ok h2
          obtain ⟨rfl, _⟩ := G.pure_ok h4
          obtain ⟨hgl, hga⟩ := randomStr_spec _ _ _ _ _ h3
          refine str_conforms ?_ (by rintro a rfl; exact hga) (by simp)
          rw [hgl]
          cases l with
          | some n =>
            simp only at h1
            obtain ⟨rfl, _⟩ := G.pure_ok h1
            have h0 : (ws.length : Int) = len := hwL.1 _ rfl
            have : len.toNat = ws.length := by omega
            rw [this]; exact hwL
          | none =>
            simp only at h1
            obtain ⟨h5, h6, _⟩ := randint_ok h1
            obtain ⟨_, hw2, hw3⟩ := hwL
            refine ⟨by simp, ?_, ?_⟩
            · rintro k rfl
              simp only at h5; omega
            · rintro k rfl
              have := hw3 _ rfl
              simp only at h6; omega
        | some sb =>
          simp only at h2
          obtain ⟨g, st2, h3, h4⟩ := G.bind_ok h2
          obtain ⟨off, st3, h5, h6⟩ := G.bind_ok h4
          obtain ⟨rfl, _⟩ := G.pure_ok h6
          obtain ⟨hgl, hga⟩ := randomStr_spec _ _ _ _ _ h3
          obtain ⟨ho1, ho2, _⟩ := randint_ok h5
          have hsw : sb <:+: ws := hwS sb rfl
          have hsl : sb.length ≤ ws.length := hsw.length_le
          refine str_conforms ?_ ?_ ?_
          · have hlen : (List.take off.toNat g ++ sb ++ List.drop off.toNat g).length = g.length + sb.length := by
              simp only [List.length_append, List.length_take, List.length_drop]; omega
            rw [hlen, hgl]
            cases l with
            | some n =>
              simp only at h1
              obtain ⟨rfl, _⟩ := G.pure_ok h1
              have h0 : (ws.length : Int) = len := hwL.1 _ rfl
              have : (len - (sb.length : Int)).toNat + sb.length = ws.length := by omega
              rw [this]; exact hwL
            | none =>
              simp only at h1
              obtain ⟨h7, h8, _⟩ := randint_ok h1
              obtain ⟨_, hw2, hw3⟩ := hwL
              have h9 : (sb.length : Int) ≤ len := Int.le_trans (pyMaxI_ge_right _ _) h7
              refine ⟨by simp, ?_, ?_⟩
              · rintro k rfl
                have := pyMaxI_ge_left k sb.length
                simp only at h7; omega
              · rintro k rfl
                have := hw3 _ rfl
                have hm : pyMaxI k sb.length = k := pyMaxI_eq_left _ _ (by omega)
                simp only [hm] at h8; omega
          · rintro a rfl c hc
            simp only [List.mem_append] at hc
            rcases hc with (hc | hc) | hc
            · exact hga c (List.mem_of_mem_take hc)
            · exact hwA _ rfl c (hsw.subset hc)
            · exact hga c (List.mem_of_mem_drop hc)
          · rintro sb' h; cases h
            exact List.infix_append _ _ _
  | bytes x =>
    cases x with
    | some x =>
      simp only [genScalar, pure] at h
      obtain ⟨rfl, _⟩ := G.pure_ok h
      simp [ConformsScalar]
    | none =>
      simp only [genScalar, bind, pure] at h
      obtain ⟨n, st1, h1, h2⟩ := G.bind_ok h
      obtain ⟨g, st2, h3, h4⟩ := G.bind_ok h2
      obtain ⟨rfl, _⟩ := G.pure_ok h4
      simp [ConformsScalar]
  | uuid4 x =>
    cases x with
    | some x =>
      obtain ⟨i, ver⟩ := x
      simp only [genScalar, pure] at h
      obtain ⟨rfl, _⟩ := G.pure_ok h
      exact fixed_conforms hk rfl
    | none =>
      simp only [genScalar] at h
      obtain ⟨i, rfl⟩ := (extDraw_ok h).1 rfl
      simp [ConformsScalar]
  | datetime x =>
    cases x with
    | some x =>
      simp only [genScalar, pure] at h
      obtain ⟨rfl, _⟩ := G.pure_ok h
      simp [ConformsScalar]
    | none =>
      simp only [genScalar] at h
      obtain ⟨i, rfl⟩ := (extDraw_ok h).2.1 rfl
      simp [ConformsScalar]
  | date x =>
    cases x with
    | some x =>
      obtain ⟨b, i⟩ := x
      cases b <;>
      · simp only [genScalar, pure] at h
        obtain ⟨rfl, _⟩ := G.pure_ok h
        simp [ConformsScalar]
    | none =>
      simp only [genScalar, bind] at h
      obtain ⟨n, st1, h1, h2⟩ := G.bind_ok h
      obtain ⟨i, rfl⟩ := (extDraw_ok h2).2.2 rfl
      simp [ConformsScalar]

/-! ### PART B — containers (to prove; may use `genScalar_sound`) -/

/-! helper lemmas for `gen_sound` -/

theorem genLength_list_ok {L : LenP} {n : Int} {st st' : GS}
    (hL : LenGenOK L) (h : genLength L Consts.LIST_LEN_MIN Consts.LIST_LEN_MAX st = .ok (n, st')) :
    LenOK L n.toNat := by
  obtain ⟨h1, h2, h3⟩ := hL
  unfold genLength at h
  rcases L with ⟨l, mn, mx⟩
  cases l with
  | some k =>
    simp only [pure] at h
    obtain ⟨rfl, _⟩ := G.pure_ok h
    exact h1 _ rfl
  | none =>
    simp only at h
    obtain ⟨ha, hb, _⟩ := randint_ok h
    unfold LenOK
    cases mn <;> cases mx <;> simp_all <;> omega

theorem replicateG_sound {m : G PyVal} {P : PyVal → Prop} (hm : ∀ st st' v, m st = .ok (v, st') → P v) :
    ∀ (n : Nat) (st st' : GS) (xs : List PyVal), replicateG m n st = .ok (xs, st') →
      xs.length = n ∧ ∀ x ∈ xs, P x
  | 0, st, st', xs, h => by
    simp only [replicateG, pure] at h
    simp [(G.pure_ok h).1]
  | n + 1, st, st', xs, h => by
    simp only [replicateG, bind, pure] at h
    obtain ⟨a, st1, h1, h2⟩ := G.bind_ok h
    obtain ⟨b, st2, h3, h4⟩ := G.bind_ok h2
    obtain ⟨rfl, _⟩ := G.pure_ok h4
    obtain ⟨hl, hp⟩ := replicateG_sound hm n _ _ _ h3
    refine ⟨by simp [hl], ?_⟩
    intro x hx
    rcases List.mem_cons.1 hx with rfl | hx
    · exact hm _ _ _ h1
    · exact hp x hx

theorem AllC_of_forall (env : Env) (t : Schema) : ∀ (xs : List PyVal), (∀ x ∈ xs, Conforms env t x) → AllC env t xs
  | [], _ => by simp [AllC]
  | x :: xs, h => by
    simp only [AllC]
    exact ⟨h x (by simp), AllC_of_forall env t xs (fun y hy => h y (by simp [hy]))⟩

theorem lookupKey_none_of_not_mem {k : PyKey} : ∀ {kvs : List (PyKey × PyVal)},
    k ∉ kvs.map (·.1) → lookupKey k kvs = none
  | [], _ => by simp [lookupKey]
  | (k', v) :: r, h => by
    simp only [List.map_cons, List.mem_cons, not_or] at h
    simp only [lookupKey, h.1, if_false]
    exact lookupKey_none_of_not_mem h.2

theorem lookupKey_append_of_not_mem {k : PyKey} : ∀ {pre kvs : List (PyKey × PyVal)},
    k ∉ pre.map (·.1) → lookupKey k (pre ++ kvs) = lookupKey k kvs
  | [], _, _ => by simp
  | (k', v) :: r, kvs, h => by
    simp only [List.map_cons, List.mem_cons, not_or] at h
    simp only [List.cons_append, lookupKey, h.1, if_false]
    exact lookupKey_append_of_not_mem h.2

theorem hasField_of_mem {k : PyKey} {fs : List (PyKey × Bool × Schema)} (h : k ∈ fs.map (·.1)) :
    hasField k fs = true := by
  simp only [List.mem_map] at h
  obtain ⟨f, hf, rfl⟩ := h
  simp only [hasField, List.any_eq_true]
  exact ⟨f, hf, by simp⟩

mutual
theorem gen_conforms (env : Env) (he : EnvOK env) (ext : ClsItem → Nat → Prop) :
    ∀ (s : Schema) (_ : GenHyp env ext s) (st st' : GS) (v : PyVal),
      gen env s st = .ok (v, st') → Conforms env s v
  | .scalar k, hs, st, st', v, h => by
    simp only [gen] at h
    simp only [GenHyp] at hs
    simp only [Conforms]
    exact (validateScalar_nil_iff env k v []).1 (genScalar_sound env he ext k hs st st' v [] h)
  | .listU L, hs, st, st', v, h => by
    simp only [GenHyp] at hs
    simp only [gen] at h
    simp only [Conforms]
    cases hl : L.len with
    | some k =>
      simp only [hl, pure] at h
      obtain ⟨rfl, _⟩ := G.pure_ok h
      exact ⟨_, rfl, by simpa using hs.1 k hl⟩
    | none =>
      simp only [hl, bind] at h
      obtain ⟨n, st1, h1, h2⟩ := G.bind_ok h
      have hn := genLength_list_ok hs h1
      split at h2
      · simp only [pure] at h2
        obtain ⟨rfl, _⟩ := G.pure_ok h2
        exact ⟨_, rfl, by simpa using hn⟩
      · rename_i hc
        simp only [pure] at h2
        obtain ⟨rfl, _⟩ := G.pure_ok h2
        refine ⟨_, rfl, ?_⟩
        simp only [Bool.or_eq_true, not_or, Option.isSome_iff_ne_none, ne_eq, Decidable.not_not] at hc
        simp [LenOK, hl, hc.1, hc.2]
  | .listT t L, hs, st, st', v, h => by
    simp only [GenHyp] at hs
    simp only [gen, bind, pure] at h
    obtain ⟨n, st1, h1, h2⟩ := G.bind_ok h
    obtain ⟨xs, st2, h3, h4⟩ := G.bind_ok h2
    obtain ⟨rfl, _⟩ := G.pure_ok h4
    have hn := genLength_list_ok hs.1 h1
    obtain ⟨hlen, hall⟩ := replicateG_sound (P := Conforms env t)
      (fun a b c hh => gen_conforms env he ext t hs.2 a b c hh) _ _ _ _ h3
    simp only [Conforms]
    exact ⟨xs, rfl, by rw [hlen]; exact hn, AllC_of_forall env t xs hall⟩
  | .listE lead es trail L, hs, st, st', v, h => by
    simp only [GenHyp] at hs
    simp only [gen, bind, pure] at h
    obtain ⟨xs, st1, h1, h2⟩ := G.bind_ok h
    obtain ⟨rfl, _⟩ := G.pure_ok h2
    obtain ⟨hlen, hp⟩ := genList_conforms env he ext es hs.2 _ _ _ h1
    simp only [Conforms]
    refine ⟨xs, rfl, by rw [hlen]; exact hs.1, ?_⟩
    split
    · rename_i hc
      refine ⟨0, ?_, by simpa using hp⟩
      rw [hlen]
      exact List.length_pos_iff.2 hc.2.2
    · split
      · exact hp
      · split
        · simpa [hlen] using hp
        · exact ⟨hlen, hp⟩
  | .dict none _, hs, st, st', v, h => by
    simp only [gen, pure] at h
    obtain ⟨rfl, _⟩ := G.pure_ok h
    simp [Conforms]
  | .dict (some fs) ell, hs, st, st', v, h => by
    simp only [GenHyp] at hs
    simp only [gen, bind, pure] at h
    obtain ⟨kvs, st1, h1, h2⟩ := G.bind_ok h
    obtain ⟨rfl, _⟩ := G.pure_ok h2
    obtain ⟨hk, hf⟩ := genFields_conforms env he ext fs hs.2 hs.1 _ _ _ h1
    simp only [Conforms]
    refine ⟨kvs, rfl, by simpa using hf [] (by simp), ?_⟩
    intro _ kv hkv
    exact hasField_of_mem (hk kv hkv)
  | .any none, hs, st, st', v, h => by simp [Conforms]
  | .any (some ts), hs, st, st', v, h => by
    simp only [GenHyp] at hs
    simp only [gen, bind] at h
    obtain ⟨i, st1, h1, h2⟩ := G.bind_ok h
    simp only [Conforms]
    exact genNth_conforms env he ext ts i hs _ _ _ h2
  | .alias _ t, hs, st, st', v, h => by
    simp only [GenHyp] at hs
    simp only [gen] at h
    simp only [Conforms]
    exact gen_conforms env he ext t hs _ _ _ h
  | .custom t, hs, st, st', v, h => by
    simp only [GenHyp] at hs
    simp only [gen] at h
    simp only [Conforms]
    exact gen_conforms env he ext t hs _ _ _ h
theorem genList_conforms (env : Env) (he : EnvOK env) (ext : ClsItem → Nat → Prop) :
    ∀ (ss : List Schema) (_ : GenHypL env ext ss) (st st' : GS) (xs : List PyVal),
      genList env ss st = .ok (xs, st') → xs.length = ss.length ∧ PrefixC env ss xs
  | [], hs, st, st', xs, h => by
    simp only [genList, pure] at h
    simp [(G.pure_ok h).1, PrefixC]
  | s :: ss, hs, st, st', xs, h => by
    simp only [GenHypL] at hs
    simp only [genList, bind, pure] at h
    obtain ⟨a, st1, h1, h2⟩ := G.bind_ok h
    obtain ⟨b, st2, h3, h4⟩ := G.bind_ok h2
    obtain ⟨rfl, _⟩ := G.pure_ok h4
    obtain ⟨hl, hp⟩ := genList_conforms env he ext ss hs.2 _ _ _ h3
    simp only [PrefixC]
    exact ⟨by simp [hl], gen_conforms env he ext s hs.1 _ _ _ h1, hp⟩
theorem genFields_conforms (env : Env) (he : EnvOK env) (ext : ClsItem → Nat → Prop) :
    ∀ (fs : List (PyKey × Bool × Schema)) (_ : GenHypF env ext fs) (_ : (fs.map (·.1)).Nodup)
      (st st' : GS) (kvs : List (PyKey × PyVal)),
      genFields env fs st = .ok (kvs, st') →
        (∀ kv ∈ kvs, kv.1 ∈ fs.map (·.1)) ∧
        ∀ pre : List (PyKey × PyVal), (∀ kv ∈ pre, kv.1 ∉ fs.map (·.1)) → FieldsC env fs (pre ++ kvs)
  | [], hs, hnd, st, st', kvs, h => by
    simp only [genFields, pure] at h
    simp [(G.pure_ok h).1, FieldsC]
  | (k, true, s) :: fs, hs, hnd, st, st', kvs, h => by
    simp only [GenHypF] at hs
    simp only [List.map_cons, List.nodup_cons] at hnd
    simp only [genFields, if_true] at h
    obtain ⟨hk, hf⟩ := genFields_conforms env he ext fs hs.2 hnd.2 _ _ _ h
    refine ⟨fun kv hkv => by simp [hk kv hkv], ?_⟩
    intro pre hpre
    simp only [FieldsC]
    have hpre' : ∀ kv ∈ pre, kv.1 ∉ fs.map (·.1) := fun kv hkv hm => hpre kv hkv (by simp [hm])
    refine ⟨?_, hf pre hpre'⟩
    have : lookupKey k (pre ++ kvs) = none := by
      apply lookupKey_none_of_not_mem
      simp only [List.map_append, List.mem_append, not_or]
      constructor
      · intro hm
        obtain ⟨kv, hkv, rfl⟩ := List.mem_map.1 hm
        exact hpre kv hkv (by simp)
      · intro hm
        obtain ⟨kv, hkv, rfl⟩ := List.mem_map.1 hm
        exact hnd.1 (hk kv hkv)
    simp [this]
  | (k, false, s) :: fs, hs, hnd, st, st', kvs, h => by
    simp only [GenHypF] at hs
    simp only [List.map_cons, List.nodup_cons] at hnd
    simp only [genFields, Bool.false_eq_true, if_false, bind, pure] at h
    obtain ⟨a, st1, h1, h2⟩ := G.bind_ok h
    obtain ⟨b, st2, h3, h4⟩ := G.bind_ok h2
    obtain ⟨rfl, _⟩ := G.pure_ok h4
    obtain ⟨hk, hf⟩ := genFields_conforms env he ext fs hs.2 hnd.2 _ _ _ h3
    have ha := gen_conforms env he ext s (hs.1 (by simp)) _ _ _ h1
    constructor
    · intro kv hkv
      rcases List.mem_cons.1 hkv with rfl | hkv
      · simp
      · simp [hk kv hkv]
    · intro pre hpre
      simp only [FieldsC]
      constructor
      · have : lookupKey k (pre ++ (k, a) :: b) = some a := by
          rw [lookupKey_append_of_not_mem]
          · simp [lookupKey]
          · intro hm
            obtain ⟨kv, hkv, rfl⟩ := List.mem_map.1 hm
            exact hpre kv hkv (by simp)
        simp only [this]
        exact ha
      · have := hf (pre ++ [(k, a)]) (by
          intro kv hkv hm
          rcases List.mem_append.1 hkv with hkv | hkv
          · exact hpre kv hkv (by simp [hm])
          · simp only [List.mem_singleton] at hkv
            subst hkv
            exact hnd.1 hm)
        simpa using this
theorem genNth_conforms (env : Env) (he : EnvOK env) (ext : ClsItem → Nat → Prop) :
    ∀ (ss : List Schema) (i : Nat) (_ : GenHypL env ext ss) (st st' : GS) (v : PyVal),
      genNth env ss i st = .ok (v, st') → AnyC env ss v
  | [], i, hs, st, st', v, h => by simp [genNth, G.fail] at h
  | s :: ss, 0, hs, st, st', v, h => by
    simp only [GenHypL] at hs
    simp only [genNth] at h
    simp only [AnyC]
    exact Or.inl (gen_conforms env he ext s hs.1 _ _ _ h)
  | s :: ss, i + 1, hs, st, st', v, h => by
    simp only [GenHypL] at hs
    simp only [genNth] at h
    simp only [AnyC]
    exact Or.inr (genNth_conforms env he ext ss i hs.2 _ _ _ h)
end

/-- **C01.** For every schema satisfying the hereditary hypothesis, every value `fake` returns — for every
    outcome of every draw — is accepted by `validate` with zero errors. -/
theorem gen_sound (env : Env) (he : EnvOK env) (ext : ClsItem → Nat → Prop) (s : Schema)
    (hs : GenHyp env ext s) (st st' : GS) (v : PyVal) (p : Path)
    (h : gen env s st = .ok (v, st')) : validateP env false s v p = [] :=
  (validateP_nil_iff env s v p).2 (gen_conforms env he ext s hs st st' v h)

/-- K4 witness: with a dead alternative the union is satisfiable but the generator fails when it is drawn -/
theorem gen_dead_alternative_counterexample (env : Env) :
    let s := Schema.any (some [.scalar (.int none (some 5) (some 3)), .scalar (.str (some [120]) {} none none none)])
    Conforms env s (.str [120]) ∧ ∃ e, gen env s { draws := [.idx 0] } = .error e := by
  intro s
  constructor
  · simp [s, Conforms, AnyC, ConformsScalar, LenOK]
  · refine ⟨.valueError, ?_⟩
    simp [s, gen, bind, G.bind, choiceIdx, genNth, genScalar, randint]

/-- K2 witness: `schema.list([schema.int, ...]).len(3)` generates one element, which it rejects -/
theorem gen_ellipsis_len_counterexample (env : Env) :
    let s := Schema.listE false [.scalar (.int none none none)] true { len := some 3 }
    ∃ v st', gen env s { draws := [.int 7] } = .ok (v, st') ∧ validateP env false s v [] ≠ [] := by
  intro s
  refine ⟨.list [.int 7], { draws := [], reqs := [.randint Consts.INT_MIN Consts.INT_MAX] }, ?_, ?_⟩
  · simp [s, gen, genList, bind, G.bind, pure, G.pure, genScalar, randint, pyMaxI, pyMinI, Consts.INT_MIN, Consts.INT_MAX]
  · simp [s, validateP, lenErrFirst]

end D42
