/-
  C01 — generated data validates against its own schema (statements are being added).
-/
import D42.Model.Gen
import D42.Spec.Conforms
