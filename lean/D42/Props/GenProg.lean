/-
  D42.Props.GenProg — the fixed-value short-circuit of the generator: model = what the source says, for every scalar schema.
-/
import D42.Props.C01
import D42.Gen.GenProg

namespace D42
open Gen.GenProg

def shortcutOf : ScalarS → Bool
  | .none => noneShortcut
  | .bool _ => boolShortcut
  | .int .. => intShortcut
  | .float .. => floatShortcut
  | .str .. => strShortcut
  | .bytes _ => bytesShortcut
  | .uuid4 _ => uuid4Shortcut
  | .datetime _ => datetimeShortcut
  | .date _ => dateShortcut

/-- every scalar type that can carry a fixed value starts its `visit_*` with the short-circuit -/
theorem shortcut_everywhere (k : ScalarS) (v : PyVal) (h : k.fixedV = some v) : shortcutOf k = true := by
  cases k <;> simp_all [ScalarS.fixedV, shortcutOf, boolShortcut, intShortcut, floatShortcut, strShortcut, bytesShortcut,
    uuid4Shortcut, datetimeShortcut, dateShortcut]

/-- a schema with a fixed value generates exactly that value, whatever the draw list, and asks for no draw (the state,
    request log included, is returned untouched) — for the types whose method starts with the short-circuit -/
theorem genScalar_fixed_eq_extracted (env : Env) (k : ScalarS) (v : PyVal) (st : GS)
    (hv : k.fixedV = some v) (hs : shortcutOf k = true) : genScalar env k st = .ok (v, st) := by
  cases k with
  | none => simp [ScalarS.fixedV] at hv
  | bool x => cases x <;> simp_all [ScalarS.fixedV, genScalar, pure, G.pure]
  | int x mn mx => cases x <;> simp_all [ScalarS.fixedV, genScalar, pure, G.pure]
  | float x mn mx p d1 d2 => cases x <;> simp_all [ScalarS.fixedV, genScalar, pure, G.pure]
  | str x L al sub pat => cases x <;> simp_all [ScalarS.fixedV, genScalar, pure, G.pure]
  | bytes x => cases x <;> simp_all [ScalarS.fixedV, genScalar, pure, G.pure]
  | uuid4 x => rcases x with _ | ⟨i, ver⟩ <;> simp_all [ScalarS.fixedV, genScalar, pure, G.pure]
  | datetime x => cases x <;> simp_all [ScalarS.fixedV, genScalar, pure, G.pure]
  | date x => rcases x with _ | ⟨_ | _, i⟩ <;> simp_all [ScalarS.fixedV, genScalar, pure, G.pure]

end D42
