/-
  C04 / C05 — substitution pins the value and only narrows the schema.
-/
import D42.Model.Subst
import D42.Props.C02
import D42.Props.C14
import D42.Props.C12

namespace D42

mutual
/-- no float schema with a fixed value anywhere (finding K7: re-substituting a *close* float re-centres
    the tolerance window, so the result can accept a value the original rejects) -/
def NoFixedFloat : Schema → Prop
  | .scalar (.float v _ _ _ _ _) => v = none
  | .scalar _ => True
  | .listU _ => True
  | .listT t _ => NoFixedFloat t
  | .listE _ es _ _ => NoFixedFloatL es
  | .dict none _ => True
  | .dict (some fs) _ => NoFixedFloatF fs
  | .any none => True
  | .any (some ts) => NoFixedFloatL ts
  | .alias _ t => NoFixedFloat t
  | .custom t => NoFixedFloat t
def NoFixedFloatL : List Schema → Prop
  | [] => True
  | s :: ss => NoFixedFloat s ∧ NoFixedFloatL ss
def NoFixedFloatF : List (PyKey × Bool × Schema) → Prop
  | [] => True
  | (_, _, s) :: fs => NoFixedFloat s ∧ NoFixedFloatF fs
end

mutual
/-- no `[..., a, ...]` (contains) element list anywhere (finding K12: the window that is substituted is
    the first one that *can* be substituted — a partial dict may match earlier than the window that made
    the value conform) -/
def NoContains : Schema → Prop
  | .scalar _ => True
  | .listU _ => True
  | .listT t _ => NoContains t
  | .listE lead es trail _ => ¬ (lead = true ∧ trail = true ∧ es ≠ []) ∧ NoContainsL es
  | .dict none _ => True
  | .dict (some fs) _ => NoContainsF fs
  | .any none => True
  | .any (some ts) => NoContainsL ts
  | .alias _ t => NoContains t
  | .custom t => NoContains t
def NoContainsL : List Schema → Prop
  | [] => True
  | s :: ss => NoContains s ∧ NoContainsL ss
def NoContainsF : List (PyKey × Bool × Schema) → Prop
  | [] => True
  | (_, _, s) :: fs => NoContains s ∧ NoContainsF fs
end

mutual
/-- dict schemas have distinct keys at every level -/
def KeysNodupS : Schema → Prop
  | .scalar _ => True
  | .listU _ => True
  | .listT t _ => KeysNodupS t
  | .listE _ es _ _ => KeysNodupSL es
  | .dict none _ => True
  | .dict (some fs) _ => (fs.map (·.1)).Nodup ∧ KeysNodupSF fs
  | .any none => True
  | .any (some ts) => KeysNodupSL ts
  | .alias _ t => KeysNodupS t
  | .custom t => KeysNodupS t
def KeysNodupSL : List Schema → Prop
  | [] => True
  | s :: ss => KeysNodupS s ∧ KeysNodupSL ss
def KeysNodupSF : List (PyKey × Bool × Schema) → Prop
  | [] => True
  | (_, _, s) :: fs => KeysNodupS s ∧ KeysNodupSF fs
end

/-! ### the substitution validator is weaker than the validator -/

theorem minByLen_nil_of_mem {α} (ws : List (List α)) (h : [] ∈ ws) : minByLen ws = [] := by
  have hne : ws ≠ [] := by intro h0; simp [h0] at h
  exact (minByLen_nil_iff ws hne).2 ⟨[], h, rfl⟩

theorem mem_of_minByLen_nil {α} (ws : List (List α)) (hne : ws ≠ []) (h : minByLen ws = []) : [] ∈ ws := by
  obtain ⟨w, hw, rfl⟩ := (minByLen_nil_iff ws hne).1 h
  exact hw

theorem windowsP_sub_nil (env : Env) (elems : List Schema)
    (hE : ∀ xs i a p, validateElemsP env false elems xs i a p = [] → validateElemsP env true elems xs i a p = []) :
    ∀ (xs : List PyVal) (i n : Nat) (a : PyVal) (p : Path),
      [] ∈ windowsP env false elems xs i n a p → [] ∈ windowsP env true elems xs i n a p
  | [], i, n, a, p, h => by simp [windowsP] at h
  | x :: xs, i, n, a, p, h => by
    simp only [windowsP, List.mem_cons] at h ⊢
    rcases h with h | h
    · exact Or.inl (hE _ _ _ _ h.symm).symm
    · exact Or.inr (windowsP_sub_nil env elems hE xs (i + 1) n a p h)

mutual
theorem subV (env : Env) : ∀ (s : Schema) (a : PyVal) (p : Path),
    validateP env false s a p = [] → validateP env true s a p = []
  | .scalar k, a, p, h => by simpa [validateP] using h
  | .listU L, a, p, h => by
    cases a <;> simp only [validateP] at h ⊢ <;> exact h
  | .listT t L, a, p, h => by
    cases a <;> simp only [validateP] at h ⊢ <;> try exact h
    case list xs =>
      cases hl : lenErrFirst L xs.length p (.list xs) with
      | some e => simp [hl] at h
      | none =>
        simp only [hl] at h ⊢
        exact subV_all env t xs 0 xs.length p h
  | .listE lead es trail L, a, p, h => by
    cases a <;> simp only [validateP] at h ⊢ <;> try exact h
    case list xs =>
      cases hl : lenErrFirst L xs.length p (.list xs) with
      | some e => simp [hl] at h
      | none =>
        simp only [hl] at h ⊢
        have hE := subV_elems env es
        cases lead <;> cases trail <;>
          simp only [Bool.false_and, Bool.and_false, Bool.true_and, Bool.and_true, Bool.false_eq_true,
            ↓reduceIte] at h ⊢
        · rw [List.append_eq_nil_iff] at h ⊢
          exact ⟨hE _ _ _ _ h.1, h.2⟩
        · exact hE _ _ _ _ h
        · exact hE _ _ _ _ h
        · cases es with
          | nil => simp [validateElemsP]
          | cons e es' =>
            simp only [List.isEmpty_cons, Bool.not_false, if_true] at h ⊢
            cases xs with
            | nil => simp only [List.isEmpty_nil, if_true] at h ⊢; exact hE _ _ _ _ h
            | cons x xs' =>
              simp only [List.isEmpty_cons, Bool.false_eq_true, if_false] at h ⊢
              apply minByLen_nil_of_mem
              apply windowsP_sub_nil env (e :: es') hE
              exact mem_of_minByLen_nil _ (windowsP_ne_nil env false (e :: es') x xs' 0 _ _ p) h
  | .dict none _, a, p, h => by
    cases a <;> simp only [validateP] at h ⊢ <;> exact h
  | .dict (some fs) ell, a, p, h => by
    cases a <;> simp only [validateP] at h ⊢ <;> try exact h
    case dict kvs =>
      rw [List.append_eq_nil_iff] at h ⊢
      exact ⟨subV_fields env fs kvs _ p h.1, h.2⟩
  | .any none, _, _, _ => by simp [validateP]
  | .any (some ts), a, p, h => by
    simp only [validateP] at h ⊢
    cases ha : anyOkP env false ts a p with
    | false => simp [ha] at h
    | true => simp [subV_any env ts a p ha]
  | .alias _ t, a, p, h => by
    simp only [validateP] at h ⊢; exact subV env t a p h
  | .custom t, a, p, h => by
    simp only [validateP] at h ⊢; exact subV env t a p h
theorem subV_all (env : Env) (t : Schema) : ∀ (xs : List PyVal) (i n : Nat) (p : Path),
    validateAllP env false t xs i n p = [] → validateAllP env true t xs i n p = []
  | [], _, _, _, _ => by simp [validateAllP]
  | x :: xs, i, n, p, h => by
    simp only [validateAllP, List.append_eq_nil_iff] at h ⊢
    refine ⟨?_, subV_all env t xs (i + 1) n p h.2⟩
    split
    · rfl
    · have h1 := h.1
      simp only [Bool.false_and, Bool.false_eq_true, if_false] at h1
      exact subV env t x _ h1
theorem subV_elems (env : Env) : ∀ (ss : List Schema) (xs : List PyVal) (i : Nat) (a : PyVal) (p : Path),
    validateElemsP env false ss xs i a p = [] → validateElemsP env true ss xs i a p = []
  | [], _, _, _, _, _ => by simp [validateElemsP]
  | _ :: _, [], _, _, _, h => by simp [validateElemsP] at h
  | s :: ss, x :: xs, i, a, p, h => by
    simp only [validateElemsP, List.append_eq_nil_iff] at h ⊢
    exact ⟨subV env s x _ h.1, subV_elems env ss xs (i + 1) a p h.2⟩
theorem subV_fields (env : Env) : ∀ (fs : List (PyKey × Bool × Schema)) (kvs : List (PyKey × PyVal)) (a : PyVal) (p : Path),
    validateFieldsP env false fs kvs a p = [] → validateFieldsP env true fs kvs a p = []
  | [], _, _, _, _ => by simp [validateFieldsP]
  | (k, opt, s) :: fs, kvs, a, p, h => by
    simp only [validateFieldsP, List.append_eq_nil_iff] at h ⊢
    refine ⟨?_, subV_fields env fs kvs a p h.2⟩
    have h1 := h.1
    cases hl : lookupKey k kvs with
    | none => simp
    | some x =>
      simp only [hl, Bool.false_and, Bool.false_eq_true, if_false] at h1
      simp only [Bool.true_and]
      split
      · rfl
      · exact subV env s x _ h1
theorem subV_any (env : Env) : ∀ (ss : List Schema) (a : PyVal) (p : Path),
    anyOkP env false ss a p = true → anyOkP env true ss a p = true
  | [], _, _, h => by simp [anyOkP] at h
  | s :: ss, a, p, h => by
    simp only [anyOkP, Bool.or_eq_true, List.isEmpty_iff] at h ⊢
    rcases h with h | h
    · exact Or.inl (subV env s a p h)
    · exact Or.inr (subV_any env ss a p h)
end

/-- on plain values (no `...`) the substitution validator reports exactly the validator's errors minus
    the missing-key errors; in particular a value the validator accepts is accepted -/
theorem subValidate_of_validate (env : Env) (s : Schema) (v : PyVal) (p : Path)
    (h : validateP env false s v p = []) : validateP env true s v p = [] :=
  subV env s v p h


/-! ### generic helpers -/

theorem except_bind_ok {α β} (x : Except PyExc α) (f : α → Except PyExc β) (r : β) :
    (x >>= f) = .ok r ↔ ∃ a, x = .ok a ∧ f a = .ok r := by
  cases x <;> simp [bind, Except.bind]

theorem except_pure_ok {α} (a r : α) : (pure a : Except PyExc α) = .ok r ↔ a = r := by
  simp [pure, Except.pure]

theorem fromNativeS_ok (v : PyVal) (s : Schema) : fromNativeS v = .ok s ↔ fromNative v = .ok s := by
  unfold fromNativeS
  cases fromNative v <;> simp

theorem fromNativeListS_cons_ok (x : PyVal) (xs : List PyVal) (es : List Schema) :
    fromNativeListS (x :: xs) = .ok es ↔
      ∃ a b, fromNative x = .ok a ∧ fromNativeListS xs = .ok b ∧ es = a :: b := by
  simp only [fromNativeListS, except_bind_ok, except_pure_ok, fromNativeS_ok]
  constructor
  · rintro ⟨a, ha, b, hb, rfl⟩; exact ⟨a, b, ha, hb, rfl⟩
  · rintro ⟨a, b, ha, hb, rfl⟩; exact ⟨a, ha, b, hb, rfl⟩

theorem fromNativeListS_ok : ∀ (xs : List PyVal) (es : List Schema),
    fromNativeListS xs = .ok es → fromNativeList xs = .ok es
  | [], es, h => by simpa [fromNativeListS, fromNativeList] using h
  | x :: xs, es, h => by
    obtain ⟨a, b, ha, hb, rfl⟩ := (fromNativeListS_cons_ok _ _ _).1 h
    exact (fromNativeList_cons_ok _ _ _).2 ⟨a, b, ha, fromNativeListS_ok xs b hb, rfl⟩

theorem fromNativeListS_length (xs : List PyVal) (es : List Schema)
    (h : fromNativeListS xs = .ok es) : es.length = xs.length :=
  fromNativeList_length xs es (fromNativeListS_ok xs es h)

theorem fromNativeListS_nil (es : List Schema) (h : fromNativeListS [] = .ok es) : es = [] := by
  simpa [fromNativeListS, eq_comm] using h

/-! ### plain values -/

theorem plainL_iff : ∀ (xs : List PyVal), PlainL xs ↔ ∀ x ∈ xs, Plain x
  | [] => by simp [PlainL]
  | x :: xs => by simp [PlainL, plainL_iff xs]

theorem distinctL_iff : ∀ (xs : List PyVal), DistinctKeysL xs ↔ ∀ x ∈ xs, DistinctKeys x
  | [] => by simp [DistinctKeysL]
  | x :: xs => by simp [DistinctKeysL, distinctL_iff xs]

theorem noNaNL_iff : ∀ (xs : List PyVal), NoNaNL xs ↔ ∀ x ∈ xs, NoNaN x
  | [] => by simp [NoNaNL]
  | x :: xs => by simp [NoNaNL, noNaNL_iff xs]

theorem plain_not_ell (x : PyVal) (h : Plain x) : isEllipsis x = false := by
  cases x <;> simp_all [Plain, isEllipsis]

theorem lookupKey_plain : ∀ (kvs : List (PyKey × PyVal)) (k : PyKey) (x : PyVal),
    PlainKV kvs → lookupKey k kvs = some x → Plain x
  | [], _, _, _, h => by simp [lookupKey] at h
  | (k', v) :: r, k, x, hp, h => by
    simp only [PlainKV] at hp
    simp only [lookupKey] at h
    split at h
    · cases h; exact hp.2.1
    · exact lookupKey_plain r k x hp.2.2 h

theorem lookupKey_distinct : ∀ (kvs : List (PyKey × PyVal)) (k : PyKey) (x : PyVal),
    DistinctKeysKV kvs → lookupKey k kvs = some x → DistinctKeys x
  | [], _, _, _, h => by simp [lookupKey] at h
  | (k', v) :: r, k, x, hp, h => by
    simp only [DistinctKeysKV] at hp
    simp only [lookupKey] at h
    split at h
    · cases h; exact hp.1
    · exact lookupKey_distinct r k x hp.2 h

theorem lookupKey_noNaN : ∀ (kvs : List (PyKey × PyVal)) (k : PyKey) (x : PyVal),
    NoNaNKV kvs → lookupKey k kvs = some x → NoNaN x
  | [], _, _, _, h => by simp [lookupKey] at h
  | (k', v) :: r, k, x, hp, h => by
    simp only [NoNaNKV] at hp
    simp only [lookupKey] at h
    split at h
    · cases h; exact hp.1
    · exact lookupKey_noNaN r k x hp.2 h

def ellO (o : Option PyVal) : Bool := match o with | some .ellipsis => true | _ => false

theorem stripEll_eq (xs : List PyVal) :
    stripEll xs = (ellO xs.head?,
      (if ellO (if ellO xs.head? then xs.drop 1 else xs).getLast? then (if ellO xs.head? then xs.drop 1 else xs).dropLast
       else (if ellO xs.head? then xs.drop 1 else xs)),
      ellO (if ellO xs.head? then xs.drop 1 else xs).getLast?) := rfl

theorem ellO_false (o : Option PyVal) (h : ∀ y, o = some y → Plain y) : ellO o = false := by
  cases o with
  | none => rfl
  | some y => have := h y rfl; cases y <;> simp_all [ellO, Plain]

theorem stripEll_plain (xs : List PyVal) (h : ∀ x ∈ xs, Plain x) : stripEll xs = (false, xs, false) := by
  have h1 : ellO xs.head? = false := ellO_false _ (fun y hy => h y (List.mem_of_head? hy))
  have h2 : ellO xs.getLast? = false := ellO_false _ (fun y hy => h y (List.mem_of_getLast? hy))
  rw [stripEll_eq]
  simp only [h1, Bool.false_eq_true, if_false, h2]

/-! ### the shape of a successful substitution -/

theorem substAll_cons_ok (env : Env) (t : Schema) (x : PyVal) (xs : List PyVal) (es : List Schema) :
    substAll env t (x :: xs) = .ok es ↔
      ∃ a b, subst env t x = .ok a ∧ substAll env t xs = .ok b ∧ es = a :: b := by
  simp only [substAll, except_bind_ok, except_pure_ok]
  constructor
  · rintro ⟨a, ha, b, hb, rfl⟩; exact ⟨a, b, ha, hb, rfl⟩
  · rintro ⟨a, b, ha, hb, rfl⟩; exact ⟨a, ha, b, hb, rfl⟩

theorem substZip_cons_ok (env : Env) (s : Schema) (ss : List Schema) (x : PyVal) (xs : List PyVal) (es : List Schema) :
    substZip env (s :: ss) (x :: xs) = .ok es ↔
      ∃ a b, subst env s x = .ok a ∧ substZip env ss xs = .ok b ∧ es = a :: b := by
  simp only [substZip, except_bind_ok, except_pure_ok]
  constructor
  · rintro ⟨a, ha, b, hb, rfl⟩; exact ⟨a, b, ha, hb, rfl⟩
  · rintro ⟨a, b, ha, hb, rfl⟩; exact ⟨a, ha, b, hb, rfl⟩

theorem substElems_ok (env : Env) (elems : List Schema) (xs : List PyVal) (start : Nat) (es : List Schema) :
    substElems env elems xs start = .ok es ↔
      ∃ mid suf pre, substZip env elems (xs.drop start) = .ok mid ∧
        fromNativeListS (xs.drop (start + elems.length)) = .ok suf ∧
        fromNativeListS (xs.take start) = .ok pre ∧ es = pre ++ mid ++ suf := by
  simp only [substElems, except_bind_ok, except_pure_ok]
  constructor
  · rintro ⟨a, ha, b, hb, c, hc, rfl⟩; exact ⟨a, b, c, ha, hb, hc, rfl⟩
  · rintro ⟨a, b, c, ha, hb, hc, rfl⟩; exact ⟨a, ha, b, hb, c, hc, rfl⟩

theorem substZip_length (env : Env) : ∀ (ss : List Schema) (xs : List PyVal) (es : List Schema),
    substZip env ss xs = .ok es → es.length = ss.length ∧ ss.length ≤ xs.length
  | [], xs, es, h => by
    have : es = [] := by simpa [substZip, eq_comm] using h
    subst this; simp
  | _ :: _, [], es, h => by simp [substZip] at h
  | s :: ss, x :: xs, es, h => by
    obtain ⟨a, b, _, hb, rfl⟩ := (substZip_cons_ok _ _ _ _ _ _).1 h
    have := substZip_length env ss xs b hb
    simp only [List.length_cons]; omega

theorem substWindows_ok (env : Env) (elems : List Schema) (xs : List PyVal) (n : Nat) (es : List Schema) :
    ∀ (k i : Nat), n - i = k → substWindows env elems xs i n = some es →
      ∃ j, i ≤ j ∧ j < n ∧ substElems env elems xs j = .ok es
  | 0, i, hk, h => by
    rw [substWindows] at h
    have : ¬ i < n := by omega
    simp [this] at h
  | k + 1, i, hk, h => by
    rw [substWindows] at h
    by_cases hi : i < n
    · simp only [hi, if_true] at h
      cases ho : substElems env elems xs i with
      | ok r =>
        simp only [ho, ok?] at h
        cases h
        exact ⟨i, Nat.le_refl _, hi, ho⟩
      | error e =>
        simp only [ho, ok?] at h
        obtain ⟨j, hj1, hj2, hj3⟩ := substWindows_ok env elems xs n es k (i + 1) (by omega) h
        exact ⟨j, by omega, hj2, hj3⟩
    · simp [hi] at h


/-! ### C05: substitution only narrows -/

/-- "substituting a plain value into `s` only narrows `s`" -/
def Narrows (env : Env) (s : Schema) : Prop :=
  ∀ (s' : Schema) (v w : PyVal), subst env s v = .ok s' → Plain v → NoFixedFloat s →
    Conforms env s' w → Conforms env s w

theorem noFixedFloatL_iff : ∀ (ss : List Schema), NoFixedFloatL ss ↔ ∀ s ∈ ss, NoFixedFloat s
  | [] => by simp [NoFixedFloatL]
  | s :: ss => by simp [NoFixedFloatL, noFixedFloatL_iff ss]

theorem narrows_scalar (env : Env) (k : ScalarS) (v w : PyVal) (hv : validateScalar env k v [] = [])
    (hf : NoFixedFloat (.scalar k)) (hc : ConformsScalar env (k.withValue v) w) : ConformsScalar env k w := by
  have hcv := (validateScalar_nil_iff env k v []).1 hv
  cases k with
  | none => simpa [ScalarS.withValue] using hc
  | int x mn mx =>
    obtain ⟨n, hn, hx, _, _⟩ := hcv
    have hw : (ScalarS.int x mn mx).withValue v = .int (some n) mn mx := by
      cases v <;> simp_all [ScalarS.withValue]
    rw [hw] at hc
    obtain ⟨m, hm, hmx, h1, h2⟩ := hc
    have : m = n := hmx n rfl
    subst this
    exact ⟨m, hm, hx, h1, h2⟩
  | float x mn mx pr d1 d2 =>
    simp only [NoFixedFloat] at hf
    subst hf
    cases v <;> simp_all [ConformsScalar, ScalarS.withValue]
    obtain ⟨g, rfl, _, h1, h2⟩ := hc
    exact ⟨g, rfl, h1, h2⟩
  | bool x => cases v <;> simp_all [ConformsScalar, ScalarS.withValue]
  | str x L al sub pat =>
    cases v <;> simp_all [ConformsScalar, ScalarS.withValue]
    obtain ⟨s, rfl, rfl, rest⟩ := hc
    exact ⟨_, rfl, hcv.1, rest⟩
  | bytes x => cases v <;> simp_all [ConformsScalar, ScalarS.withValue]
  | uuid4 x =>
    cases v <;> simp_all [ConformsScalar, ScalarS.withValue]
    obtain ⟨i, ⟨rfl, _⟩, h⟩ := hcv
    exact h
  | datetime x => cases v <;> simp_all [ConformsScalar, ScalarS.withValue]
  | date x => cases v <;> simp_all [ConformsScalar, ScalarS.withValue]

/-! #### lists -/

theorem PrefixC_append_left (env : Env) : ∀ (a b : List Schema) (ys : List PyVal),
    PrefixC env (a ++ b) ys → PrefixC env a ys
  | [], _, _, _ => by simp [PrefixC]
  | _ :: _, _, [], h => by simp [PrefixC] at h
  | s :: a, b, y :: ys, h => by
    simp only [List.cons_append, PrefixC] at h ⊢
    exact ⟨h.1, PrefixC_append_left env a b ys h.2⟩

theorem PrefixC_append_right (env : Env) : ∀ (a b : List Schema) (ys : List PyVal),
    PrefixC env (a ++ b) ys → PrefixC env b (ys.drop a.length)
  | [], _, _, h => by simpa using h
  | _ :: _, _, [], h => by simp [PrefixC] at h
  | s :: a, b, y :: ys, h => by
    simp only [List.cons_append, PrefixC] at h
    simpa using PrefixC_append_right env a b ys h.2

theorem substAll_narrows (env : Env) (t : Schema) (ih : Narrows env t) (hf : NoFixedFloat t) :
    ∀ (xs : List PyVal) (es : List Schema) (ys : List PyVal), substAll env t xs = .ok es →
      (∀ x ∈ xs, Plain x) → ys.length = es.length → PrefixC env es ys → AllC env t ys
  | [], es, ys, h, _, hl, _ => by
    have : es = [] := by simpa [substAll, eq_comm] using h
    subst this
    have : ys = [] := by simpa using hl
    subst this
    simp [AllC]
  | x :: xs, es, ys, h, hp, hl, hc => by
    obtain ⟨a, b, ha, hb, rfl⟩ := (substAll_cons_ok _ _ _ _ _).1 h
    cases ys with
    | nil => simp at hl
    | cons y ys' =>
      simp only [PrefixC] at hc
      simp only [AllC]
      exact ⟨ih a x y ha (hp x (by simp)) hf hc.1,
        substAll_narrows env t ih hf xs b ys' hb (fun z hz => hp z (by simp [hz])) (by simpa using hl) hc.2⟩

theorem substZip_narrows (env : Env) : ∀ (ss : List Schema) (_ : ∀ s ∈ ss, Narrows env s)
    (_ : ∀ s ∈ ss, NoFixedFloat s) (xs : List PyVal) (es : List Schema) (ys : List PyVal),
    substZip env ss xs = .ok es → (∀ x ∈ xs, Plain x) → PrefixC env es ys → PrefixC env ss ys
  | [], _, _, _, _, _, _, _, _ => by simp [PrefixC]
  | _ :: _, _, _, [], _, _, h, _, _ => by simp [substZip] at h
  | s :: ss, ih, hf, x :: xs, es, ys, h, hp, hc => by
    obtain ⟨a, b, ha, hb, rfl⟩ := (substZip_cons_ok _ _ _ _ _ _).1 h
    cases ys with
    | nil => simp [PrefixC] at hc
    | cons y ys' =>
      simp only [PrefixC] at hc ⊢
      exact ⟨ih s (by simp) a x y ha (hp x (by simp)) (hf s (by simp)) hc.1,
        substZip_narrows env ss (fun s hs => ih s (by simp [hs])) (fun s hs => hf s (by simp [hs]))
          xs b ys' hb (fun z hz => hp z (by simp [hz])) hc.2⟩

/-- what `_substitute_elements` produces, against any list the result accepts as an exact list -/
theorem substElems_narrows (env : Env) (elems : List Schema) (ih : ∀ s ∈ elems, Narrows env s)
    (hf : ∀ s ∈ elems, NoFixedFloat s) (xs : List PyVal) (start : Nat) (es : List Schema) (ys : List PyVal)
    (h : substElems env elems xs start = .ok es) (hp : ∀ x ∈ xs, Plain x) (hstart : start ≤ xs.length)
    (hc : PrefixC env es ys) :
    PrefixC env elems (ys.drop start) ∧ start + elems.length ≤ xs.length ∧ es.length = xs.length := by
  obtain ⟨mid, suf, pre, hmid, hsuf, hpre, rfl⟩ := (substElems_ok _ _ _ _ _).1 h
  have hl1 := fromNativeListS_length _ _ hpre
  have hl2 := fromNativeListS_length _ _ hsuf
  have hl3 := substZip_length env _ _ _ hmid
  simp only [List.length_take, List.length_drop] at hl1 hl2 hl3
  have hpl : pre.length = start := by omega
  refine ⟨?_, by omega, by simp only [List.length_append]; omega⟩
  have h1 := PrefixC_append_left env _ _ _ hc
  have h2 := PrefixC_append_right env _ _ _ h1
  rw [hpl] at h2
  exact substZip_narrows env elems ih hf _ mid _ hmid (fun z hz => hp z (List.mem_of_mem_drop hz)) h2


theorem subst_listE_ok (env : Env) (lead : Bool) (elems : List Schema) (trail : Bool) (L : LenP)
    (xs : List PyVal) (s' : Schema)
    (h : subst env (.listE lead elems trail L) (.list xs) = .ok s') :
    validateP env true (.listE lead elems trail L) (.list xs) [] = [] ∧
    ∃ es, s' = .listE false es false L ∧
      ((lead = true ∧ trail = true ∧ elems ≠ [] ∧ ∃ i, i < xs.length ∧ substElems env elems xs i = .ok es) ∨
       (¬(lead = true ∧ trail = true ∧ elems ≠ []) ∧
          substElems env elems xs (if trail = true then 0 else if lead = true then xs.length - elems.length else 0) = .ok es)) := by
  simp only [subst] at h
  split at h
  · cases h
  rename_i hv
  split at h
  · cases h
  split at h
  · cases h
  have hv' : validateP env true (.listE lead elems trail L) (.list xs) [] = [] := by
    simpa using hv
  refine ⟨hv', ?_⟩
  split at h
  · rename_i hc
    have hc' : lead = true ∧ trail = true ∧ elems ≠ [] := by
      simpa [Bool.and_eq_true, List.isEmpty_iff, and_assoc] using hc
    split at h
    · rename_i es hw
      cases h
      obtain ⟨j, _, hj, hok⟩ := substWindows_ok env elems xs xs.length es _ 0 rfl hw
      exact ⟨es, rfl, Or.inl ⟨hc'.1, hc'.2.1, hc'.2.2, j, hj, hok⟩⟩
    · cases h
  · rename_i hc
    have hc' : ¬ (lead = true ∧ trail = true ∧ elems ≠ []) := by
      simpa [Bool.and_eq_true, List.isEmpty_iff, and_assoc] using hc
    split at h
    · rename_i ht
      obtain ⟨es, hes, rfl⟩ := bind_pure_ok _ _ _ h
      exact ⟨es, rfl, Or.inr ⟨hc', by simpa [ht] using hes⟩⟩
    · rename_i ht
      split at h
      · rename_i hl
        obtain ⟨es, hes, rfl⟩ := bind_pure_ok _ _ _ h
        exact ⟨es, rfl, Or.inr ⟨hc', by simpa [ht, hl] using hes⟩⟩
      · rename_i hl
        obtain ⟨es, hes, rfl⟩ := bind_pure_ok _ _ _ h
        exact ⟨es, rfl, Or.inr ⟨hc', by simpa [ht, hl] using hes⟩⟩

theorem subst_listT_ok (env : Env) (t : Schema) (L : LenP) (xs : List PyVal) (s' : Schema)
    (hp : ∀ x ∈ xs, Plain x) (h : subst env (.listT t L) (.list xs) = .ok s') :
    validateP env true (.listT t L) (.list xs) [] = [] ∧
    ∃ es, substAll env t xs = .ok es ∧ s' = .listE false es false L := by
  simp only [subst] at h
  split at h
  · cases h
  rename_i hv
  split at h
  · cases h
  split at h
  · cases h
  rw [stripEll_plain xs hp] at h
  obtain ⟨es, hes, rfl⟩ := bind_pure_ok _ _ _ h
  exact ⟨by simpa using hv, es, hes, rfl⟩

theorem subst_listU_ok (env : Env) (L : LenP) (xs : List PyVal) (s' : Schema)
    (hp : ∀ x ∈ xs, Plain x) (h : subst env (.listU L) (.list xs) = .ok s') :
    validateP env true (.listU L) (.list xs) [] = [] ∧
    ∃ es, fromNativeListS xs = .ok es ∧ s' = .listE false es false L := by
  simp only [subst] at h
  split at h
  · cases h
  rename_i hv
  split at h
  · cases h
  split at h
  · cases h
  rw [stripEll_plain xs hp] at h
  obtain ⟨es, hes, rfl⟩ := bind_pure_ok _ _ _ h
  exact ⟨by simpa using hv, es, hes, rfl⟩

theorem conforms_exact_list (env : Env) (es : List Schema) (L : LenP) (w : PyVal) :
    Conforms env (.listE false es false L) w ↔
      ∃ ys, w = .list ys ∧ LenOK L ys.length ∧ ys.length = es.length ∧ PrefixC env es ys := by
  simp [Conforms]

theorem narrows_listU (env : Env) (L : LenP) : Narrows env (.listU L) := by
  intro s' v w hs hp _ hc
  cases v
  case list xs =>
    simp only [Plain] at hp
    obtain ⟨_, es, _, rfl⟩ := subst_listU_ok env L xs s' ((plainL_iff xs).1 hp) hs
    obtain ⟨ys, rfl, hL, _⟩ := (conforms_exact_list _ _ _ _).1 hc
    simp only [Conforms]
    exact ⟨ys, rfl, hL⟩
  all_goals (simp [subst, validateP] at hs)

theorem narrows_listT (env : Env) (t : Schema) (L : LenP) (ih : Narrows env t) : Narrows env (.listT t L) := by
  intro s' v w hs hp hf hc
  cases v
  case list xs =>
    simp only [Plain] at hp
    simp only [NoFixedFloat] at hf
    have hp' := (plainL_iff xs).1 hp
    obtain ⟨_, es, hes, rfl⟩ := subst_listT_ok env t L xs s' hp' hs
    obtain ⟨ys, rfl, hL, hlen, hpc⟩ := (conforms_exact_list _ _ _ _).1 hc
    simp only [Conforms]
    exact ⟨ys, rfl, hL, substAll_narrows env t ih hf xs es ys hes hp' hlen hpc⟩
  all_goals (simp [subst, validateP] at hs)

theorem validateElemsP_nil_length (env : Env) (sub : Bool) : ∀ (ss : List Schema) (xs : List PyVal) (i : Nat) (a : PyVal) (p : Path),
    validateElemsP env sub ss xs i a p = [] → ss.length ≤ xs.length
  | [], _, _, _, _, _ => by simp
  | _ :: _, [], _, _, _, h => by simp [validateElemsP] at h
  | s :: ss, x :: xs, i, a, p, h => by
    simp only [validateElemsP, List.append_eq_nil_iff] at h
    have := validateElemsP_nil_length env sub ss xs (i + 1) a p h.2
    simp only [List.length_cons]; omega

theorem narrows_listE (env : Env) (lead : Bool) (elems : List Schema) (trail : Bool) (L : LenP)
    (ih : ∀ s ∈ elems, Narrows env s) : Narrows env (.listE lead elems trail L) := by
  intro s' v w hs hp hf hc
  cases v
  case list xs =>
    simp only [Plain] at hp
    simp only [NoFixedFloat] at hf
    have hp' := (plainL_iff xs).1 hp
    have hf' := (noFixedFloatL_iff elems).1 hf
    obtain ⟨hv, es, rfl, hcase⟩ := subst_listE_ok env lead elems trail L xs s' hs
    obtain ⟨ys, rfl, hL, hlen, hpc⟩ := (conforms_exact_list _ _ _ _).1 hc
    simp only [Conforms]
    refine ⟨ys, rfl, hL, ?_⟩
    rcases hcase with ⟨hl, ht, hne, i, hi, hok⟩ | ⟨hnc, hok⟩
    · have hc' : lead = true ∧ trail = true ∧ elems ≠ [] := ⟨hl, ht, hne⟩
      rw [if_pos hc']
      obtain ⟨h1, h2, h3⟩ := substElems_narrows env elems ih hf' xs i es ys hok hp' (Nat.le_of_lt hi) hpc
      have : 0 < elems.length := List.length_pos_iff.2 hne
      exact ⟨i, by omega, h1⟩
    · rw [if_neg hnc]
      by_cases ht : trail = true
      · simp only [ht, if_true] at hok ⊢
        obtain ⟨h1, _, _⟩ := substElems_narrows env elems ih hf' xs 0 es ys hok hp' (Nat.zero_le _) hpc
        simpa using h1
      · simp only [ht] at hok ⊢
        by_cases hl : lead = true
        · simp only [hl, if_true] at hok ⊢
          obtain ⟨h1, h2, h3⟩ := substElems_narrows env elems ih hf' xs _ es ys hok hp' (Nat.sub_le _ _) hpc
          have : ys.length - elems.length = xs.length - elems.length := by omega
          rw [this]; exact h1
        · simp only [hl] at hok ⊢
          obtain ⟨h1, h2, h3⟩ := substElems_narrows env elems ih hf' xs 0 es ys hok hp' (Nat.zero_le _) hpc
          refine ⟨?_, by simpa using h1⟩
          -- the validator's "no extra elements" check
          have hb : lead = false := by simpa using hl
          have hb2 : trail = false := by simpa using ht
          subst hb hb2
          simp only [validateP] at hv
          split at hv
          · simp at hv
          · simp only [Bool.false_and, Bool.false_eq_true, if_false, List.append_eq_nil_iff] at hv
            have := (extraElems_nil_iff _ _ _ _).1 hv.2
            omega
  all_goals (simp [subst, validateP] at hs)


/-! #### dicts -/

theorem substFields_cons_ok (env : Env) (k : PyKey) (opt : Bool) (s : Schema) (fs : List (PyKey × Bool × Schema))
    (kvs : List (PyKey × PyVal)) (r : List (PyKey × Bool × Schema))
    (h : substFields env ((k, opt, s) :: fs) kvs = .ok r) :
    ∃ f r', r = f :: r' ∧ substFields env fs kvs = .ok r' ∧
      ((lookupKey k kvs = some .ellipsis ∧ f = (k, false, s)) ∨
       (∃ x s', lookupKey k kvs = some x ∧ subst env s x = .ok s' ∧ f = (k, false, s')) ∨
       (lookupKey k kvs = none ∧ f = (k, opt, s))) := by
  simp only [substFields, except_bind_ok, except_pure_ok] at h
  obtain ⟨f, hf, r', hr', rfl⟩ := h
  refine ⟨f, r', rfl, hr', ?_⟩
  split at hf
  · rename_i hl
    exact Or.inl ⟨hl, ((except_pure_ok _ _).1 hf).symm⟩
  · rename_i x _ hl
    obtain ⟨s', hs', hfe⟩ := (except_bind_ok _ _ _).1 hf
    exact Or.inr (Or.inl ⟨x, s', hl, hs', ((except_pure_ok _ _).1 hfe).symm⟩)
  · rename_i hl
    exact Or.inr (Or.inr ⟨hl, ((except_pure_ok _ _).1 hf).symm⟩)

theorem substFields_nil_ok (env : Env) (kvs : List (PyKey × PyVal)) (r : List (PyKey × Bool × Schema))
    (h : substFields env [] kvs = .ok r) : r = [] := by
  simpa [substFields, eq_comm] using h

theorem substFields_keys (env : Env) : ∀ (fs : List (PyKey × Bool × Schema)) (kvs : List (PyKey × PyVal))
    (fs' : List (PyKey × Bool × Schema)), substFields env fs kvs = .ok fs' → fs'.map (·.1) = fs.map (·.1)
  | [], kvs, fs', h => by rw [substFields_nil_ok env kvs fs' h]
  | (k, opt, s) :: fs, kvs, fs', h => by
    obtain ⟨f, r', rfl, hr', hcase⟩ := substFields_cons_ok env k opt s fs kvs fs' h
    have := substFields_keys env fs kvs r' hr'
    rcases hcase with ⟨_, rfl⟩ | ⟨x, s', _, _, rfl⟩ | ⟨_, rfl⟩ <;> simp [this]

theorem hasField_congr (k : PyKey) (fs fs' : List (PyKey × Bool × Schema))
    (h : fs'.map (·.1) = fs.map (·.1)) : hasField k fs' = hasField k fs := by
  have e : ∀ l : List (PyKey × Bool × Schema), hasField k l = (l.map (·.1)).any (· == k) := by
    intro l; simp [hasField, List.any_map, Function.comp_def]
  rw [e, e, h]

theorem substFields_narrows (env : Env) : ∀ (fs : List (PyKey × Bool × Schema))
    (_ : ∀ f ∈ fs, Narrows env f.2.2) (_ : NoFixedFloatF fs) (kvs : List (PyKey × PyVal))
    (fs' : List (PyKey × Bool × Schema)) (kws : List (PyKey × PyVal)),
    substFields env fs kvs = .ok fs' → PlainKV kvs → FieldsC env fs' kws → FieldsC env fs kws
  | [], _, _, _, _, _, _, _, _ => by simp [FieldsC]
  | (k, opt, s) :: fs, ih, hf, kvs, fs', kws, h, hp, hc => by
    obtain ⟨f, r', rfl, hr', hcase⟩ := substFields_cons_ok env k opt s fs kvs fs' h
    simp only [NoFixedFloatF] at hf
    have hrest : FieldsC env r' kws → FieldsC env fs kws :=
      substFields_narrows env fs (fun f hf => ih f (by simp [hf])) hf.2 kvs r' kws hr' hp
    rcases hcase with ⟨hl, rfl⟩ | ⟨x, s', hl, hs', rfl⟩ | ⟨hl, rfl⟩
    · exact absurd (lookupKey_plain kvs k _ hp hl) (by simp [Plain])
    · simp only [FieldsC] at hc ⊢
      refine ⟨?_, hrest hc.2⟩
      have h1 := hc.1
      cases hw : lookupKey k kws with
      | none => rw [hw] at h1; simp at h1
      | some y =>
        rw [hw] at h1
        exact ih (k, opt, s) (by simp) s' x y hs' (lookupKey_plain kvs k x hp hl) hf.1 h1
    · simp only [FieldsC] at hc ⊢
      exact ⟨hc.1, hrest hc.2⟩

theorem dictBody_ok (env : Env) (fs : List (PyKey × Bool × Schema)) (kvs : List (PyKey × PyVal))
    (ell : Option Nat) (s' : Schema)
    (h : (do
        let fs' ← substFields env fs kvs
        if (kvs.any fun kv => !hasField kv.fst fs) = true then Except.error PyExc.substitutionError
          else pure (Schema.dict (some fs') ell)) = Except.ok s') :
    ∃ fs', substFields env fs kvs = .ok fs' ∧ kvs.any (fun kv => !hasField kv.1 fs) = false ∧
      s' = .dict (some fs') ell := by
  obtain ⟨fs', hfs, h2⟩ := (except_bind_ok _ _ _).1 h
  split at h2
  · cases h2
  · rename_i hx
    exact ⟨fs', hfs, by simpa using hx, ((except_pure_ok _ _).1 h2).symm⟩

theorem subst_dict_ok (env : Env) (fs : List (PyKey × Bool × Schema)) (ell : Option Nat)
    (kvs : List (PyKey × PyVal)) (s' : Schema) (hne : ¬ (fs = [] ∧ ell.isSome))
    (h : subst env (.dict (some fs) ell) (.dict kvs) = .ok s') :
    validateP env true (.dict (some fs) ell) (.dict kvs) [] = [] ∧
    kvs.any (fun kv => kv.1 == PyKey.ellipsis) = false ∧
    ∃ fs', substFields env fs kvs = .ok fs' ∧ kvs.any (fun kv => !hasField kv.1 fs) = false ∧
      s' = .dict (some fs') ell := by
  cases fs with
  | nil =>
    cases ell with
    | some pos => simp at hne
    | none =>
      simp only [subst] at h
      split at h
      · cases h
      rename_i hv
      split at h
      · cases h
      rename_i hx
      exact ⟨by simpa using hv, Bool.eq_false_iff.2 hx, dictBody_ok env _ _ _ _ h⟩
  | cons f fs =>
    simp only [subst] at h
    split at h
    · cases h
    rename_i hv
    split at h
    · cases h
    rename_i hx
    exact ⟨by simpa using hv, Bool.eq_false_iff.2 hx, dictBody_ok env _ _ _ _ h⟩

theorem mapM_fromNative_ok : ∀ (kvs : List (PyKey × PyVal)) (fs : List (PyKey × Bool × Schema)),
    kvs.mapM (fun kv => do let s ← fromNativeS kv.2; pure (kv.1, false, s)) = Except.ok fs →
    fromNativeKVs kvs = .ok fs
  | [], fs, h => by
    simp only [List.mapM_nil, except_pure_ok] at h
    subst h; simp [fromNativeKVs]
  | (k, v) :: r, fs, h => by
    simp only [List.mapM_cons, except_bind_ok, except_pure_ok, fromNativeS_ok] at h
    obtain ⟨f, ⟨a, ha, rfl⟩, b, hb, rfl⟩ := h
    exact (fromNativeKVs_cons_ok _ _ _ _).2 ⟨a, b, ha, mapM_fromNative_ok r b hb, rfl⟩

theorem substFresh_ok (kvs : List (PyKey × PyVal)) (relaxed : Bool) (s' : Schema) (hp : PlainKV kvs)
    (h : substFresh kvs relaxed = .ok s') :
    ∃ fs, fromNativeKVs kvs = .ok fs ∧ s' = .dict (some fs) (if relaxed then some kvs.length else none) := by
  have hne : ∀ kv ∈ kvs, (kv.1 == PyKey.ellipsis) = false := by
    intro kv hkv
    have := noEll_of_any kvs (plainKV_noEll kvs hp) kv hkv
    simpa using this
  unfold substFresh at h
  split at h
  · cases h
  have h1 : kvs.filter (fun kv => !(kv.1 == PyKey.ellipsis)) = kvs := by
    apply List.filter_eq_self.2
    intro kv hkv; simp [hne kv hkv]
  have h2 : kvs.findIdx? (fun kv => kv.1 == PyKey.ellipsis) = none := by
    apply List.findIdx?_eq_none_iff.2
    intro kv hkv; exact hne kv hkv
  simp only [h1, h2] at h
  obtain ⟨fs, hfs, h3⟩ := (except_bind_ok _ _ _).1 h
  have h4 := (except_pure_ok _ _).1 h3
  exact ⟨fs, mapM_fromNative_ok kvs fs hfs, h4.symm⟩

theorem narrows_dict_none (env : Env) (ell : Option Nat) : Narrows env (.dict none ell) := by
  intro s' v w hs hp _ hc
  cases v
  case dict kvs =>
    simp only [Plain] at hp
    simp only [subst] at hs
    split at hs
    · cases hs
    obtain ⟨fs, _, rfl⟩ := substFresh_ok kvs false s' hp hs
    simp only [Conforms] at hc ⊢
    obtain ⟨kws, rfl, _⟩ := hc
    exact ⟨kws, rfl⟩
  all_goals (simp [subst, validateP] at hs)

theorem narrows_dict_open (env : Env) (pos : Nat) : Narrows env (.dict (some []) (some pos)) := by
  intro s' v w hs hp _ hc
  cases v
  case dict kvs =>
    simp only [Plain] at hp
    simp only [subst] at hs
    split at hs
    · cases hs
    obtain ⟨fs, _, rfl⟩ := substFresh_ok kvs true s' hp hs
    simp only [Conforms] at hc ⊢
    obtain ⟨kws, rfl, _⟩ := hc
    exact ⟨kws, rfl, by simp [FieldsC], by simp⟩
  all_goals (simp [subst, validateP] at hs)

theorem subst_dict_nondict (env : Env) (fs : List (PyKey × Bool × Schema)) (ell : Option Nat) (v : PyVal) (s' : Schema)
    (h : subst env (.dict (some fs) ell) v = .ok s') : ∃ kvs, v = .dict kvs := by
  cases v
  case dict kvs => exact ⟨kvs, rfl⟩
  all_goals
    exfalso
    cases fs with
    | nil => cases ell <;> simp [subst, validateP] at h
    | cons f fs => simp [subst, validateP] at h

theorem narrows_dict (env : Env) (fs : List (PyKey × Bool × Schema)) (ell : Option Nat)
    (hne : ¬ (fs = [] ∧ ell.isSome)) (ih : ∀ f ∈ fs, Narrows env f.2.2) :
    Narrows env (.dict (some fs) ell) := by
  intro s' v w hs hp hf hc
  obtain ⟨kvs, rfl⟩ := subst_dict_nondict env fs ell v s' hs
  simp only [Plain] at hp
  simp only [NoFixedFloat] at hf
  obtain ⟨_, _, fs', hfs, _, rfl⟩ := subst_dict_ok env fs ell kvs s' hne hs
  simp only [Conforms] at hc ⊢
  obtain ⟨kws, rfl, hF, hk⟩ := hc
  refine ⟨kws, rfl, substFields_narrows env fs ih hf kvs fs' kws hfs hp hF, ?_⟩
  intro he kw hkw
  rw [← hasField_congr kw.1 fs fs' (substFields_keys env fs kvs fs' hfs)]
  exact hk he kw hkw

/-! #### any -/

theorem subst_any_ok (env : Env) (ts : List Schema) (v : PyVal) (s' : Schema)
    (h : subst env (.any (some ts)) v = .ok s') :
    s' = .any (some (substAlts env ts v)) ∧ validateP env true (.any (some ts)) v [] = [] := by
  simp only [subst] at h
  split at h
  · cases h
  · rename_i hv
    cases hs : substAlts env ts v with
    | nil => rw [hs] at h; cases h
    | cons a as =>
      rw [hs] at h
      simp only [] at h
      cases h
      exact ⟨rfl, by simpa using hv⟩

theorem substAlts_narrows (env : Env) : ∀ (ts : List Schema) (_ : ∀ t ∈ ts, Narrows env t)
    (_ : ∀ t ∈ ts, NoFixedFloat t) (v w : PyVal), Plain v → AnyC env (substAlts env ts v) w → AnyC env ts w
  | [], _, _, _, _, _, h => by simp [substAlts, AnyC] at h
  | t :: ts, ih, hf, v, w, hp, h => by
    have hrest := substAlts_narrows env ts (fun s hs => ih s (by simp [hs])) (fun s hs => hf s (by simp [hs])) v w hp
    simp only [substAlts] at h
    simp only [AnyC]
    cases ho : subst env t v with
    | error e =>
      simp only [ho, ok?] at h
      exact Or.inr (hrest h)
    | ok r =>
      simp only [ho, ok?, AnyC] at h
      rcases h with h | h
      · exact Or.inl (ih t (by simp) r v w ho hp (hf t (by simp)) h)
      · exact Or.inr (hrest h)

theorem narrows_any (env : Env) (ts : List Schema) (ih : ∀ t ∈ ts, Narrows env t) :
    Narrows env (.any (some ts)) := by
  intro s' v w hs hp hf hc
  simp only [NoFixedFloat] at hf
  obtain ⟨rfl, _⟩ := subst_any_ok env ts v s' hs
  simp only [Conforms] at hc ⊢
  exact substAlts_narrows env ts ih ((noFixedFloatL_iff ts).1 hf) v w hp hc

/-! #### the induction -/

mutual
theorem narrows_all (env : Env) : ∀ (s : Schema), Narrows env s
  | .scalar k => by
    intro s' v w hs _ hf hc
    rw [subst] at hs
    split at hs
    · rename_i hv
      cases hs
      simp only [Conforms] at hc ⊢
      exact narrows_scalar env k v w (by simpa using hv) hf hc
    · cases hs
  | .listU L => narrows_listU env L
  | .listT t L => narrows_listT env t L (narrows_all env t)
  | .listE lead es trail L => narrows_listE env lead es trail L (narrows_list env es)
  | .dict none ell => narrows_dict_none env ell
  | .dict (some []) (some pos) => narrows_dict_open env pos
  | .dict (some []) none => narrows_dict env [] none (by simp) (by simp)
  | .dict (some (f :: fs)) ell => narrows_dict env (f :: fs) ell (by simp) (narrows_fields env (f :: fs))
  | .any none => by
    intro s' v w _ _ _ _
    simp [Conforms]
  | .any (some ts) => narrows_any env ts (narrows_list env ts)
  | .alias n t => by
    intro s' v w hs hp hf hc
    simp only [subst] at hs
    obtain ⟨t', ht', rfl⟩ := bind_pure_ok _ _ _ hs
    simp only [Conforms, NoFixedFloat] at hc hf ⊢
    exact narrows_all env t t' v w ht' hp hf hc
  | .custom t => by
    intro s' v w hs hp hf hc
    simp only [subst] at hs
    obtain ⟨t', ht', rfl⟩ := bind_pure_ok _ _ _ hs
    simp only [Conforms, NoFixedFloat] at hc hf ⊢
    exact narrows_all env t t' v w ht' hp hf hc
theorem narrows_list (env : Env) : ∀ (ss : List Schema), ∀ s ∈ ss, Narrows env s
  | [] => by simp
  | s :: ss => by
    intro s' hs'
    rcases List.mem_cons.1 hs' with h | h
    · rw [h]; exact narrows_all env s
    · exact narrows_list env ss s' h
theorem narrows_fields (env : Env) : ∀ (fs : List (PyKey × Bool × Schema)), ∀ f ∈ fs, Narrows env f.2.2
  | [] => by simp
  | (k, o, s) :: fs => by
    intro f hf
    rcases List.mem_cons.1 hf with h | h
    · rw [h]; exact narrows_all env s
    · exact narrows_fields env fs f h
end

/-- **C05.** Substitution only narrows: every value accepted by the result of substituting a plain
    value is accepted by the original schema — bounds, lengths, alphabets, key sets, element types all
    remain in force. -/
theorem subst_narrows (env : Env) (s s' : Schema) (v w : PyVal)
    (hs : subst env s v = .ok s') (hp : Plain v) (hd : DistinctKeys v) (hk : KeysNodupS s) (hf : NoFixedFloat s)
    (hc : Conforms env s' w) : Conforms env s w := by
  -- `hd`, `hk` are not needed: narrowing holds key-by-key whatever the duplicates
  have _ := hd
  have _ := hk
  exact narrows_all env s s' v w hs hp hf hc


/-! ### K7 witness -/

def k7Env : Env := { rxSearch := fun _ _ => false, fl := PyFloat.fin }

theorem k7_close1 : isclose k7Env (.fin (1 + 9 / 10000000000)) (.fin 1) = true := by decide +kernel
theorem k7_close2 : isclose k7Env (.fin (1 + 18 / 10000000000)) (.fin (1 + 9 / 10000000000)) = true := by decide +kernel
theorem k7_far : isclose k7Env (.fin (1 + 18 / 10000000000)) (.fin 1) = false := by decide +kernel

/-- K7 witness: without `NoFixedFloat` narrowing fails — for an environment whose rounding is exact
    on the numbers involved (`fl = fin`), S = float(1), v = 1 + 9/10^10, w = 1 + 18/10^10 -/
theorem subst_narrows_float_counterexample :
    let env : Env := { rxSearch := fun _ _ => false, fl := PyFloat.fin }
    let s := Schema.scalar (.float (some (.fin 1)) none none none none none)
    let v := PyVal.float (.fin (1 + 9 / 10000000000))
    let w := PyVal.float (.fin (1 + 18 / 10000000000))
    ∃ s', subst env s v = .ok s' ∧ Conforms env s' w ∧ ¬ Conforms env s w := by
  intro env s v w
  refine ⟨.scalar (.float (some (.fin (1 + 9 / 10000000000))) none none none none none), ?_, ?_, ?_⟩
  · show subst k7Env (.scalar (.float (some (.fin 1)) none none none none none))
      (.float (.fin (1 + 9 / 10000000000))) = _
    simp [subst, validateScalar, floatValueOk, floatBoundErrs, ScalarS.withValue, k7_close1]
  · show Conforms k7Env _ (.float (.fin (1 + 18 / 10000000000)))
    simp [Conforms, ConformsScalar, floatValueOk, k7_close2]
  · show ¬ Conforms k7Env (.scalar (.float (some (.fin 1)) none none none none none))
      (.float (.fin (1 + 18 / 10000000000)))
    simp [Conforms, ConformsScalar, floatValueOk, k7_far]


/-! ### C04: the result accepts the substituted value -/

mutual
/-- no dict schema that has declared keys *and* `...: ...` anywhere (finding K13: substituting a value
    with undeclared keys into such a dict is refused although the schema accepts the value) -/
def NoOpenDict : Schema → Prop
  | .scalar _ => True
  | .listU _ => True
  | .listT t _ => NoOpenDict t
  | .listE _ es _ _ => NoOpenDictL es
  | .dict none _ => True
  | .dict (some fs) ell => (fs = [] ∨ ell = none) ∧ NoOpenDictF fs
  | .any none => True
  | .any (some ts) => NoOpenDictL ts
  | .alias _ t => NoOpenDict t
  | .custom t => NoOpenDict t
def NoOpenDictL : List Schema → Prop
  | [] => True
  | s :: ss => NoOpenDict s ∧ NoOpenDictL ss
def NoOpenDictF : List (PyKey × Bool × Schema) → Prop
  | [] => True
  | (_, _, s) :: fs => NoOpenDict s ∧ NoOpenDictF fs
end

mutual
/-- the alternatives of every `any` are free of open dicts (`NoOpenDict`); open dicts outside `any`
    are allowed (finding K13: inside `any` a refused alternative is silently dropped, and the value may
    then be left with alternatives that matched only partially) -/
def NoOpenDictAlt : Schema → Prop
  | .scalar _ => True
  | .listU _ => True
  | .listT t _ => NoOpenDictAlt t
  | .listE _ es _ _ => NoOpenDictAltL es
  | .dict none _ => True
  | .dict (some fs) _ => NoOpenDictAltF fs
  | .any none => True
  | .any (some ts) => NoOpenDictL ts ∧ NoOpenDictAltL ts
  | .alias _ t => NoOpenDictAlt t
  | .custom t => NoOpenDictAlt t
def NoOpenDictAltL : List Schema → Prop
  | [] => True
  | s :: ss => NoOpenDictAlt s ∧ NoOpenDictAltL ss
def NoOpenDictAltF : List (PyKey × Bool × Schema) → Prop
  | [] => True
  | (_, _, s) :: fs => NoOpenDictAlt s ∧ NoOpenDictAltF fs
end

theorem noContainsL_iff : ∀ (ss : List Schema), NoContainsL ss ↔ ∀ s ∈ ss, NoContains s
  | [] => by simp [NoContainsL]
  | s :: ss => by simp [NoContainsL, noContainsL_iff ss]

theorem noOpenDictL_iff : ∀ (ss : List Schema), NoOpenDictL ss ↔ ∀ s ∈ ss, NoOpenDict s
  | [] => by simp [NoOpenDictL]
  | s :: ss => by simp [NoOpenDictL, noOpenDictL_iff ss]

theorem noOpenDictAltL_iff : ∀ (ss : List Schema), NoOpenDictAltL ss ↔ ∀ s ∈ ss, NoOpenDictAlt s
  | [] => by simp [NoOpenDictAltL]
  | s :: ss => by simp [NoOpenDictAltL, noOpenDictAltL_iff ss]

theorem noContainsF_iff : ∀ (fs : List (PyKey × Bool × Schema)), NoContainsF fs ↔ ∀ f ∈ fs, NoContains f.2.2
  | [] => by simp [NoContainsF]
  | (k, o, s) :: fs => by simp [NoContainsF, noContainsF_iff fs]

theorem noOpenDictF_iff : ∀ (fs : List (PyKey × Bool × Schema)), NoOpenDictF fs ↔ ∀ f ∈ fs, NoOpenDict f.2.2
  | [] => by simp [NoOpenDictF]
  | (k, o, s) :: fs => by simp [NoOpenDictF, noOpenDictF_iff fs]

theorem noOpenDictAltF_iff : ∀ (fs : List (PyKey × Bool × Schema)), NoOpenDictAltF fs ↔ ∀ f ∈ fs, NoOpenDictAlt f.2.2
  | [] => by simp [NoOpenDictAltF]
  | (k, o, s) :: fs => by simp [NoOpenDictAltF, noOpenDictAltF_iff fs]

/-- the hypotheses on the value -/
def Good (v : PyVal) : Prop := Plain v ∧ NoNaN v ∧ DistinctKeys v

theorem good_list (xs : List PyVal) : Good (.list xs) ↔ ∀ x ∈ xs, Good x := by
  simp only [Good, Plain, NoNaN, DistinctKeys, plainL_iff, noNaNL_iff, distinctL_iff]
  constructor
  · rintro ⟨h1, h2, h3⟩ x hx; exact ⟨h1 x hx, h2 x hx, h3 x hx⟩
  · intro h; exact ⟨fun x hx => (h x hx).1, fun x hx => (h x hx).2.1, fun x hx => (h x hx).2.2⟩

theorem good_lookup (kvs : List (PyKey × PyVal)) (k : PyKey) (x : PyVal) (h : Good (.dict kvs))
    (hl : lookupKey k kvs = some x) : Good x := by
  simp only [Good, Plain, NoNaN, DistinctKeys] at h
  exact ⟨lookupKey_plain kvs k x h.1 hl, lookupKey_noNaN kvs k x h.2.1 hl, lookupKey_distinct kvs k x h.2.2.2 hl⟩

/-- "the result of substituting a conforming plain value into `s` accepts the value" -/
def Accepts (env : Env) (s : Schema) : Prop :=
  ∀ (s' : Schema) (v : PyVal), subst env s v = .ok s' → Good v → NoContains s → NoOpenDictAlt s →
    Conforms env s v → Conforms env s' v

/-- "substituting a conforming plain value into `s` succeeds" -/
def Total (env : Env) (s : Schema) : Prop :=
  ∀ (v : PyVal), Plain v → NoContains s → NoOpenDict s → Conforms env s v → ∃ s', subst env s v = .ok s'

/-! #### accepts: lists -/

theorem fromNativeListS_conforms (env : Env) (xs : List PyVal) (es : List Schema)
    (h : fromNativeListS xs = .ok es) (hg : ∀ x ∈ xs, Good x) : PrefixC env es xs :=
  fromNativeList_conforms env xs es (fromNativeListS_ok xs es h)
    ((noNaNL_iff xs).2 (fun x hx => (hg x hx).2.1)) ((distinctL_iff xs).2 (fun x hx => (hg x hx).2.2))

theorem substAll_accepts (env : Env) (t : Schema) (ih : Accepts env t) (hnc : NoContains t) (hod : NoOpenDictAlt t) :
    ∀ (xs : List PyVal) (es : List Schema), substAll env t xs = .ok es → (∀ x ∈ xs, Good x) →
      AllC env t xs → PrefixC env es xs ∧ xs.length = es.length
  | [], es, h, _, _ => by
    have : es = [] := by simpa [substAll, eq_comm] using h
    subst this; simp [PrefixC]
  | x :: xs, es, h, hg, hc => by
    obtain ⟨a, b, ha, hb, rfl⟩ := (substAll_cons_ok _ _ _ _ _).1 h
    simp only [AllC] at hc
    have := substAll_accepts env t ih hnc hod xs b hb (fun z hz => hg z (by simp [hz])) hc.2
    simp only [PrefixC, List.length_cons]
    exact ⟨⟨ih a x ha (hg x (by simp)) hnc hod hc.1, this.1⟩, by omega⟩

theorem substZip_accepts (env : Env) : ∀ (ss : List Schema) (_ : ∀ s ∈ ss, Accepts env s)
    (_ : ∀ s ∈ ss, NoContains s) (_ : ∀ s ∈ ss, NoOpenDictAlt s) (zs : List PyVal) (mid suf : List Schema),
    substZip env ss zs = .ok mid → fromNativeListS (zs.drop ss.length) = .ok suf → (∀ x ∈ zs, Good x) →
    PrefixC env ss zs → PrefixC env (mid ++ suf) zs ∧ (mid ++ suf).length = zs.length
  | [], _, _, _, zs, mid, suf, h, hsuf, hg, _ => by
    have : mid = [] := by simpa [substZip, eq_comm] using h
    subst this
    simp only [List.length_nil, List.drop_zero] at hsuf
    simp only [List.nil_append]
    exact ⟨fromNativeListS_conforms env zs suf hsuf hg, fromNativeListS_length zs suf hsuf⟩
  | _ :: _, _, _, _, [], _, _, h, _, _, _ => by simp [substZip] at h
  | s :: ss, ih, hnc, hod, z :: zs, mid, suf, h, hsuf, hg, hc => by
    obtain ⟨a, b, ha, hb, rfl⟩ := (substZip_cons_ok _ _ _ _ _ _).1 h
    simp only [PrefixC] at hc
    simp only [List.length_cons, List.drop_succ_cons] at hsuf
    have := substZip_accepts env ss (fun s hs => ih s (by simp [hs])) (fun s hs => hnc s (by simp [hs]))
      (fun s hs => hod s (by simp [hs])) zs b suf hb hsuf (fun x hx => hg x (by simp [hx])) hc.2
    simp only [List.cons_append, PrefixC, List.length_cons]
    exact ⟨⟨ih s (by simp) a z ha (hg z (by simp)) (hnc s (by simp)) (hod s (by simp)) hc.1, this.1⟩, by omega⟩

theorem pre_accepts (env : Env) : ∀ (ps : List PyVal) (pre rest : List Schema) (zs : List PyVal),
    fromNativeListS ps = .ok pre → (∀ x ∈ ps, Good x) → PrefixC env rest zs → PrefixC env (pre ++ rest) (ps ++ zs)
  | [], pre, rest, zs, h, _, hc => by
    rw [fromNativeListS_nil pre h]; simpa using hc
  | p :: ps, pre, rest, zs, h, hg, hc => by
    obtain ⟨a, b, ha, hb, rfl⟩ := (fromNativeListS_cons_ok _ _ _).1 h
    simp only [List.cons_append, PrefixC]
    exact ⟨fromNative_conforms env p a ha (hg p (by simp)).2.1 (hg p (by simp)).2.2,
      pre_accepts env ps b rest zs hb (fun x hx => hg x (by simp [hx])) hc⟩

theorem substElems_accepts (env : Env) (elems : List Schema) (ih : ∀ s ∈ elems, Accepts env s)
    (hnc : ∀ s ∈ elems, NoContains s) (hod : ∀ s ∈ elems, NoOpenDictAlt s)
    (xs : List PyVal) (start : Nat) (es : List Schema)
    (h : substElems env elems xs start = .ok es) (hg : ∀ x ∈ xs, Good x) (hstart : start ≤ xs.length)
    (hc : PrefixC env elems (xs.drop start)) : PrefixC env es xs ∧ xs.length = es.length := by
  obtain ⟨mid, suf, pre, hmid, hsuf, hpre, rfl⟩ := (substElems_ok _ _ _ _ _).1 h
  have hsuf' : fromNativeListS ((xs.drop start).drop elems.length) = .ok suf := by
    rw [List.drop_drop]; exact hsuf
  obtain ⟨h1, h2⟩ := substZip_accepts env elems ih hnc hod (xs.drop start) mid suf hmid hsuf'
    (fun x hx => hg x (List.mem_of_mem_drop hx)) hc
  have h3 := pre_accepts env (xs.take start) pre (mid ++ suf) (xs.drop start) hpre
    (fun x hx => hg x (List.mem_of_mem_take hx)) h1
  rw [List.take_append_drop] at h3
  have hl1 := fromNativeListS_length _ _ hpre
  simp only [List.length_take, List.length_drop, List.length_append] at hl1 h2 ⊢
  rw [List.append_assoc]
  exact ⟨h3, by omega⟩


theorem accepts_scalar (env : Env) (k : ScalarS) : Accepts env (.scalar k) := by
  intro s' v hs hg _ _ hc
  rw [subst] at hs
  split at hs
  · cases hs
    simp only [Conforms] at hc ⊢
    have hv := (validateScalar_nil_iff env k v []).2 hc
    exact (validateScalar_nil_iff env _ v []).1 (validateScalar_withValue env k v [] hg.2.1 hv)
  · cases hs

theorem accepts_listU (env : Env) (L : LenP) : Accepts env (.listU L) := by
  intro s' v hs hg _ _ hc
  cases v
  case list xs =>
    have hg' := (good_list xs).1 hg
    obtain ⟨_, es, hes, rfl⟩ := subst_listU_ok env L xs s' (fun x hx => (hg' x hx).1) hs
    simp only [Conforms] at hc
    obtain ⟨ys, hy, hL⟩ := hc
    cases hy
    exact (conforms_exact_list _ _ _ _).2 ⟨xs, rfl, hL, (fromNativeListS_length xs es hes).symm,
      fromNativeListS_conforms env xs es hes hg'⟩
  all_goals (simp [subst, validateP] at hs)

theorem accepts_listT (env : Env) (t : Schema) (L : LenP) (ih : Accepts env t) : Accepts env (.listT t L) := by
  intro s' v hs hg hnc hod hc
  cases v
  case list xs =>
    have hg' := (good_list xs).1 hg
    simp only [NoContains, NoOpenDictAlt] at hnc hod
    obtain ⟨_, es, hes, rfl⟩ := subst_listT_ok env t L xs s' (fun x hx => (hg' x hx).1) hs
    simp only [Conforms] at hc
    obtain ⟨ys, hy, hL, hA⟩ := hc
    cases hy
    obtain ⟨h1, h2⟩ := substAll_accepts env t ih hnc hod xs es hes hg' hA
    exact (conforms_exact_list _ _ _ _).2 ⟨xs, rfl, hL, h2, h1⟩
  all_goals (simp [subst, validateP] at hs)

theorem accepts_listE (env : Env) (lead : Bool) (elems : List Schema) (trail : Bool) (L : LenP)
    (ih : ∀ s ∈ elems, Accepts env s) : Accepts env (.listE lead elems trail L) := by
  intro s' v hs hg hnc hod hc
  cases v
  case list xs =>
    have hg' := (good_list xs).1 hg
    simp only [NoContains, NoOpenDictAlt] at hnc hod
    have hnc' := (noContainsL_iff elems).1 hnc.2
    have hod' := (noOpenDictAltL_iff elems).1 hod
    obtain ⟨_, es, rfl, hcase⟩ := subst_listE_ok env lead elems trail L xs s' hs
    simp only [Conforms] at hc
    obtain ⟨ys, hy, hL, hif⟩ := hc
    cases hy
    rw [if_neg hnc.1] at hif
    rcases hcase with ⟨hl, ht, hne, _⟩ | ⟨_, hok⟩
    · exact absurd ⟨hl, ht, hne⟩ hnc.1
    · have key : ∀ start, start ≤ xs.length → substElems env elems xs start = .ok es →
          PrefixC env elems (xs.drop start) → Conforms env (.listE false es false L) (.list xs) := by
        intro start hst hok hp
        obtain ⟨h1, h2⟩ := substElems_accepts env elems ih hnc' hod' xs start es hok hg' hst hp
        exact (conforms_exact_list _ _ _ _).2 ⟨xs, rfl, hL, h2, h1⟩
      by_cases ht : trail = true
      · simp only [ht, if_true] at hok hif
        exact key 0 (Nat.zero_le _) hok (by simpa using hif)
      · simp only [ht] at hok hif
        by_cases hl : lead = true
        · simp only [hl, if_true] at hok hif
          exact key _ (Nat.sub_le _ _) hok hif
        · simp only [hl] at hok hif
          exact key 0 (Nat.zero_le _) hok (by simpa using hif.2)
  all_goals (simp [subst, validateP] at hs)

/-! #### accepts: dicts, any -/

theorem substFields_accepts (env : Env) : ∀ (fs : List (PyKey × Bool × Schema))
    (_ : ∀ f ∈ fs, Accepts env f.2.2) (_ : ∀ f ∈ fs, NoContains f.2.2) (_ : ∀ f ∈ fs, NoOpenDictAlt f.2.2)
    (kvs : List (PyKey × PyVal)) (fs' : List (PyKey × Bool × Schema)),
    substFields env fs kvs = .ok fs' → Good (.dict kvs) → FieldsC env fs kvs → FieldsC env fs' kvs
  | [], _, _, _, kvs, fs', h, _, _ => by
    rw [substFields_nil_ok env kvs fs' h]; simp [FieldsC]
  | (k, opt, s) :: fs, ih, hnc, hod, kvs, fs', h, hg, hc => by
    obtain ⟨f, r', rfl, hr', hcase⟩ := substFields_cons_ok env k opt s fs kvs fs' h
    simp only [FieldsC] at hc
    have hrest : FieldsC env r' kvs :=
      substFields_accepts env fs (fun f hf => ih f (by simp [hf])) (fun f hf => hnc f (by simp [hf]))
        (fun f hf => hod f (by simp [hf])) kvs r' hr' hg hc.2
    have h1 := hc.1
    rcases hcase with ⟨hl, rfl⟩ | ⟨x, s', hl, hs', rfl⟩ | ⟨hl, rfl⟩
    · exact absurd (good_lookup kvs k _ hg hl).1 (by simp [Plain])
    · simp only [FieldsC]
      rw [hl] at h1 ⊢
      exact ⟨ih (k, opt, s) (by simp) s' x hs' (good_lookup kvs k x hg hl) (hnc (k, opt, s) (by simp))
        (hod (k, opt, s) (by simp)) h1, hrest⟩
    · simp only [FieldsC]
      exact ⟨h1, hrest⟩

theorem conforms_fromNativeKVs (env : Env) (kvs : List (PyKey × PyVal)) (fs : List (PyKey × Bool × Schema))
    (ell : Option Nat) (hf : fromNativeKVs kvs = .ok fs) (hg : Good (.dict kvs)) :
    Conforms env (.dict (some fs) ell) (.dict kvs) := by
  simp only [Good, Plain, NoNaN, DistinctKeys] at hg
  simp only [Conforms]
  exact ⟨kvs, rfl, fromNativeKVs_conforms env kvs fs kvs hf hg.2.1 hg.2.2.2 (lookupKey_of_nodup kvs hg.2.2.1),
    fun _ => fromNativeKVs_hasField kvs fs hf⟩

theorem accepts_dict_none (env : Env) (ell : Option Nat) : Accepts env (.dict none ell) := by
  intro s' v hs hg _ _ hc
  cases v
  case dict kvs =>
    simp only [subst] at hs
    split at hs
    · cases hs
    obtain ⟨fs, hfs, rfl⟩ := substFresh_ok kvs false s' hg.1 hs
    exact conforms_fromNativeKVs env kvs fs _ hfs hg
  all_goals (simp [subst, validateP] at hs)

theorem accepts_dict_open (env : Env) (pos : Nat) : Accepts env (.dict (some []) (some pos)) := by
  intro s' v hs hg _ _ hc
  cases v
  case dict kvs =>
    simp only [subst] at hs
    split at hs
    · cases hs
    obtain ⟨fs, hfs, rfl⟩ := substFresh_ok kvs true s' hg.1 hs
    exact conforms_fromNativeKVs env kvs fs _ hfs hg
  all_goals (simp [subst, validateP] at hs)

theorem accepts_dict (env : Env) (fs : List (PyKey × Bool × Schema)) (ell : Option Nat)
    (hne : ¬ (fs = [] ∧ ell.isSome)) (ih : ∀ f ∈ fs, Accepts env f.2.2) :
    Accepts env (.dict (some fs) ell) := by
  intro s' v hs hg hnc hod hc
  obtain ⟨kvs, rfl⟩ := subst_dict_nondict env fs ell v s' hs
  simp only [NoContains, NoOpenDictAlt] at hnc hod
  obtain ⟨_, _, fs', hfs, _, rfl⟩ := subst_dict_ok env fs ell kvs s' hne hs
  simp only [Conforms] at hc ⊢
  obtain ⟨kws, hk, hF, hkeys⟩ := hc
  cases hk
  refine ⟨kvs, rfl, substFields_accepts env fs ih ((noContainsF_iff fs).1 hnc) ((noOpenDictAltF_iff fs).1 hod)
    kvs fs' hfs hg hF, ?_⟩
  intro he kv hkv
  rw [hasField_congr kv.1 fs fs' (substFields_keys env fs kvs fs' hfs)]
  exact hkeys he kv hkv

theorem accepts_any_none (env : Env) : Accepts env (.any none) := by
  intro s' v hs hg _ _ _
  simp only [subst] at hs
  obtain ⟨s0, h0, rfl⟩ := bind_pure_ok _ _ _ hs
  simp only [Conforms, AnyC]
  exact Or.inl (fromNative_conforms env v s0 ((fromNativeS_ok _ _).1 h0) hg.2.1 hg.2.2)

theorem substAlts_accepts (env : Env) : ∀ (ts : List Schema) (_ : ∀ t ∈ ts, Accepts env t) (_ : ∀ t ∈ ts, Total env t)
    (_ : ∀ t ∈ ts, NoContains t) (_ : ∀ t ∈ ts, NoOpenDict t) (_ : ∀ t ∈ ts, NoOpenDictAlt t) (v : PyVal),
    Good v → AnyC env ts v → AnyC env (substAlts env ts v) v
  | [], _, _, _, _, _, _, _, h => by simp [AnyC] at h
  | t :: ts, ih, tot, hnc, hod, hoa, v, hg, h => by
    have hrest := substAlts_accepts env ts (fun s hs => ih s (by simp [hs])) (fun s hs => tot s (by simp [hs]))
      (fun s hs => hnc s (by simp [hs])) (fun s hs => hod s (by simp [hs])) (fun s hs => hoa s (by simp [hs])) v hg
    simp only [AnyC] at h
    simp only [substAlts]
    cases ho : subst env t v with
    | error e =>
      simp only [ok?]
      rcases h with h | h
      · obtain ⟨r, hr⟩ := tot t (by simp) v hg.1 (hnc t (by simp)) (hod t (by simp)) h
        rw [hr] at ho; cases ho
      · exact hrest h
    | ok r =>
      simp only [ok?, AnyC]
      rcases h with h | h
      · exact Or.inl (ih t (by simp) r v ho hg (hnc t (by simp)) (hoa t (by simp)) h)
      · exact Or.inr (hrest h)

theorem accepts_any (env : Env) (ts : List Schema) (ih : ∀ t ∈ ts, Accepts env t) (tot : ∀ t ∈ ts, Total env t) :
    Accepts env (.any (some ts)) := by
  intro s' v hs hg hnc hod hc
  simp only [NoContains, NoOpenDictAlt] at hnc hod
  obtain ⟨rfl, _⟩ := subst_any_ok env ts v s' hs
  simp only [Conforms] at hc ⊢
  exact substAlts_accepts env ts ih tot ((noContainsL_iff ts).1 hnc) ((noOpenDictL_iff ts).1 hod.1)
    ((noOpenDictAltL_iff ts).1 hod.2) v hg hc


/-! #### totality: substituting a conforming plain value succeeds -/

theorem fromNativeListS_total : ∀ (xs : List PyVal), (∀ x ∈ xs, Plain x) → ∃ es, fromNativeListS xs = .ok es
  | [], _ => ⟨[], by simp [fromNativeListS]⟩
  | x :: xs, h => by
    obtain ⟨a, ha⟩ := fromNative_total x (h x (by simp))
    obtain ⟨b, hb⟩ := fromNativeListS_total xs (fun z hz => h z (by simp [hz]))
    exact ⟨_, (fromNativeListS_cons_ok _ _ _).2 ⟨a, b, ha, hb, rfl⟩⟩

theorem substAll_total (env : Env) (t : Schema) (ih : Total env t) (hnc : NoContains t) (hod : NoOpenDict t) :
    ∀ (xs : List PyVal), (∀ x ∈ xs, Plain x) → AllC env t xs → ∃ es, substAll env t xs = .ok es
  | [], _, _ => ⟨[], by simp [substAll]⟩
  | x :: xs, hp, hc => by
    simp only [AllC] at hc
    obtain ⟨a, ha⟩ := ih x (hp x (by simp)) hnc hod hc.1
    obtain ⟨b, hb⟩ := substAll_total env t ih hnc hod xs (fun z hz => hp z (by simp [hz])) hc.2
    exact ⟨_, (substAll_cons_ok _ _ _ _ _).2 ⟨a, b, ha, hb, rfl⟩⟩

theorem substZip_total (env : Env) : ∀ (ss : List Schema) (_ : ∀ s ∈ ss, Total env s)
    (_ : ∀ s ∈ ss, NoContains s) (_ : ∀ s ∈ ss, NoOpenDict s) (zs : List PyVal),
    (∀ x ∈ zs, Plain x) → PrefixC env ss zs → ∃ mid, substZip env ss zs = .ok mid
  | [], _, _, _, _, _, _ => ⟨[], by simp [substZip]⟩
  | _ :: _, _, _, _, [], _, h => by simp [PrefixC] at h
  | s :: ss, ih, hnc, hod, z :: zs, hp, hc => by
    simp only [PrefixC] at hc
    obtain ⟨a, ha⟩ := ih s (by simp) z (hp z (by simp)) (hnc s (by simp)) (hod s (by simp)) hc.1
    obtain ⟨b, hb⟩ := substZip_total env ss (fun s hs => ih s (by simp [hs])) (fun s hs => hnc s (by simp [hs]))
      (fun s hs => hod s (by simp [hs])) zs (fun x hx => hp x (by simp [hx])) hc.2
    exact ⟨_, (substZip_cons_ok _ _ _ _ _ _).2 ⟨a, b, ha, hb, rfl⟩⟩

theorem substElems_total (env : Env) (elems : List Schema) (ih : ∀ s ∈ elems, Total env s)
    (hnc : ∀ s ∈ elems, NoContains s) (hod : ∀ s ∈ elems, NoOpenDict s) (xs : List PyVal) (start : Nat)
    (hp : ∀ x ∈ xs, Plain x) (hc : PrefixC env elems (xs.drop start)) :
    ∃ es, substElems env elems xs start = .ok es := by
  obtain ⟨mid, hmid⟩ := substZip_total env elems ih hnc hod (xs.drop start)
    (fun x hx => hp x (List.mem_of_mem_drop hx)) hc
  obtain ⟨suf, hsuf⟩ := fromNativeListS_total (xs.drop (start + elems.length))
    (fun x hx => hp x (List.mem_of_mem_drop hx))
  obtain ⟨pre, hpre⟩ := fromNativeListS_total (xs.take start) (fun x hx => hp x (List.mem_of_mem_take hx))
  exact ⟨_, (substElems_ok _ _ _ _ _).2 ⟨mid, suf, pre, hmid, hsuf, hpre, rfl⟩⟩

theorem plain_allEll (xs : List PyVal) (hp : ∀ x ∈ xs, Plain x) : (!xs.isEmpty && xs.all isEllipsis) = false := by
  cases xs with
  | nil => simp
  | cons x xs => simp [plain_not_ell x (hp x (by simp))]

theorem plain_anyEll (xs : List PyVal) (hp : ∀ x ∈ xs, Plain x) : xs.any isEllipsis = false := by
  rw [List.any_eq_false]
  intro x hx
  simp [plain_not_ell x (hp x hx)]

theorem validateTrue_of_conforms (env : Env) (s : Schema) (v : PyVal) (h : Conforms env s v) :
    validateP env true s v [] = [] :=
  subV env s v [] ((validateP_nil_iff env s v []).2 h)

theorem total_scalar (env : Env) (k : ScalarS) : Total env (.scalar k) := by
  intro v _ _ _ hc
  simp only [Conforms] at hc
  rw [subst, (validateScalar_nil_iff env k v []).2 hc]
  exact ⟨_, rfl⟩

theorem total_listU (env : Env) (L : LenP) : Total env (.listU L) := by
  intro v hp _ _ hc
  have hv := validateTrue_of_conforms env _ v hc
  simp only [Conforms] at hc
  obtain ⟨xs, rfl, _⟩ := hc
  have hp' := (plainL_iff xs).1 (by simpa [Plain] using hp)
  obtain ⟨es, hes⟩ := fromNativeListS_total xs hp'
  simp only [subst]
  rw [hv, plain_allEll xs hp', plain_anyEll _ (fun x hx => hp' x (List.mem_of_mem_drop (List.dropLast_subset _ hx))),
    stripEll_plain xs hp', hes]
  exact ⟨_, rfl⟩

theorem total_listT (env : Env) (t : Schema) (L : LenP) (ih : Total env t) : Total env (.listT t L) := by
  intro v hp hnc hod hc
  have hv := validateTrue_of_conforms env _ v hc
  simp only [Conforms, NoContains, NoOpenDict] at hc hnc hod
  obtain ⟨xs, rfl, _, hA⟩ := hc
  have hp' := (plainL_iff xs).1 (by simpa [Plain] using hp)
  obtain ⟨es, hes⟩ := substAll_total env t ih hnc hod xs hp' hA
  simp only [subst]
  rw [hv, plain_allEll xs hp', plain_anyEll _ (fun x hx => hp' x (List.mem_of_mem_drop (List.dropLast_subset _ hx))),
    stripEll_plain xs hp', hes]
  exact ⟨_, rfl⟩

theorem total_listE (env : Env) (lead : Bool) (elems : List Schema) (trail : Bool) (L : LenP)
    (ih : ∀ s ∈ elems, Total env s) : Total env (.listE lead elems trail L) := by
  intro v hp hnc hod hc
  have hv := validateTrue_of_conforms env _ v hc
  simp only [Conforms, NoContains, NoOpenDict] at hc hnc hod
  obtain ⟨xs, rfl, _, hif⟩ := hc
  have hp' := (plainL_iff xs).1 (by simpa [Plain] using hp)
  have hnc' := (noContainsL_iff elems).1 hnc.2
  have hod' := (noOpenDictL_iff elems).1 hod
  rw [if_neg hnc.1] at hif
  have hcond : (lead && trail && !elems.isEmpty) = false := by
    have := hnc.1
    cases lead <;> cases trail <;> simp_all
  simp only [subst]
  rw [hv, plain_allEll xs hp', plain_anyEll xs hp', hcond]
  simp only [List.isEmpty_nil, Bool.not_true, Bool.false_eq_true, if_false]
  by_cases ht : trail = true
  · simp only [ht, if_true] at hif ⊢
    obtain ⟨es, hes⟩ := substElems_total env elems ih hnc' hod' xs 0 hp' (by simpa using hif)
    rw [hes]; exact ⟨_, rfl⟩
  · simp only [ht] at hif ⊢
    by_cases hl : lead = true
    · simp only [hl, if_true] at hif ⊢
      obtain ⟨es, hes⟩ := substElems_total env elems ih hnc' hod' xs _ hp' hif
      rw [hes]; exact ⟨_, rfl⟩
    · simp only [hl] at hif ⊢
      obtain ⟨es, hes⟩ := substElems_total env elems ih hnc' hod' xs 0 hp' (by simpa using hif.2)
      rw [hes]; exact ⟨_, rfl⟩


theorem substFields_total (env : Env) : ∀ (fs : List (PyKey × Bool × Schema))
    (_ : ∀ f ∈ fs, Total env f.2.2) (_ : ∀ f ∈ fs, NoContains f.2.2) (_ : ∀ f ∈ fs, NoOpenDict f.2.2)
    (kvs : List (PyKey × PyVal)), PlainKV kvs → FieldsC env fs kvs → ∃ fs', substFields env fs kvs = .ok fs'
  | [], _, _, _, _, _, _ => ⟨[], by simp [substFields]⟩
  | (k, opt, s) :: fs, ih, hnc, hod, kvs, hp, hc => by
    simp only [FieldsC] at hc
    obtain ⟨r', hr'⟩ := substFields_total env fs (fun f hf => ih f (by simp [hf])) (fun f hf => hnc f (by simp [hf]))
      (fun f hf => hod f (by simp [hf])) kvs hp hc.2
    have h1 := hc.1
    simp only [substFields, hr']
    split
    · exact ⟨_, rfl⟩
    · rename_i x _ hl
      rw [hl] at h1
      obtain ⟨s', hs'⟩ := ih (k, opt, s) (by simp) x (lookupKey_plain kvs k x hp hl) (hnc (k, opt, s) (by simp))
        (hod (k, opt, s) (by simp)) h1
      rw [hs']; exact ⟨_, rfl⟩
    · exact ⟨_, rfl⟩

theorem mapM_fromNative_total : ∀ (kvs : List (PyKey × PyVal)) (fs : List (PyKey × Bool × Schema)),
    fromNativeKVs kvs = .ok fs →
    kvs.mapM (fun kv => do let s ← fromNativeS kv.2; pure (kv.1, false, s)) = Except.ok fs
  | [], fs, h => by
    simp [fromNativeKVs] at h; subst h; simp [List.mapM_nil, pure, Except.pure]
  | (k, v) :: r, fs, h => by
    obtain ⟨a, b, ha, hb, rfl⟩ := (fromNativeKVs_cons_ok _ _ _ _).1 h
    simp only [List.mapM_cons, except_bind_ok, except_pure_ok, fromNativeS_ok]
    exact ⟨(k, false, a), ⟨a, ha, rfl⟩, b, mapM_fromNative_total r b hb, rfl⟩

theorem substFresh_total (kvs : List (PyKey × PyVal)) (relaxed : Bool) (hp : PlainKV kvs) :
    ∃ s', substFresh kvs relaxed = .ok s' := by
  have hne : ∀ kv ∈ kvs, (kv.1 == PyKey.ellipsis) = false := by
    intro kv hkv
    have := noEll_of_any kvs (plainKV_noEll kvs hp) kv hkv
    simpa using this
  have hpv : ∀ kv ∈ kvs, isEllipsis kv.2 = false := by
    intro kv hkv
    have hn := lookupKey_of_nodup
    clear hn
    induction kvs with
    | nil => simp at hkv
    | cons kv0 r ihr =>
      obtain ⟨k0, v0⟩ := kv0
      simp only [PlainKV] at hp
      rcases List.mem_cons.1 hkv with rfl | h
      · exact plain_not_ell _ hp.2.1
      · exact ihr hp.2.2 (fun kv hkv => hne kv (by simp [hkv])) h
  obtain ⟨fs, hfs⟩ := fromNativeKVs_total kvs hp
  have h0 : kvs.any (fun kv => (kv.1 == PyKey.ellipsis) != isEllipsis kv.2) = false := by
    rw [List.any_eq_false]
    intro kv hkv
    simp [hne kv hkv, hpv kv hkv]
  have h1 : kvs.filter (fun kv => !(kv.1 == PyKey.ellipsis)) = kvs := by
    apply List.filter_eq_self.2
    intro kv hkv; simp [hne kv hkv]
  have h2 : kvs.findIdx? (fun kv => kv.1 == PyKey.ellipsis) = none := by
    apply List.findIdx?_eq_none_iff.2
    intro kv hkv; exact hne kv hkv
  unfold substFresh
  simp only [h0, h1, h2, mapM_fromNative_total kvs fs hfs, Bool.false_eq_true, if_false]
  exact ⟨_, rfl⟩

theorem total_dict_none (env : Env) (ell : Option Nat) : Total env (.dict none ell) := by
  intro v hp _ _ hc
  have hv := validateTrue_of_conforms env _ v hc
  simp only [Conforms] at hc
  obtain ⟨kvs, rfl⟩ := hc
  simp only [subst]
  rw [hv]
  exact substFresh_total kvs false (by simpa [Plain] using hp)

theorem total_dict_open (env : Env) (pos : Nat) : Total env (.dict (some []) (some pos)) := by
  intro v hp _ _ hc
  have hv := validateTrue_of_conforms env _ v hc
  simp only [Conforms] at hc
  obtain ⟨kvs, rfl, _⟩ := hc
  simp only [subst]
  rw [hv]
  exact substFresh_total kvs true (by simpa [Plain] using hp)

theorem total_dict (env : Env) (fs : List (PyKey × Bool × Schema)) (ell : Option Nat)
    (hne : ¬ (fs = [] ∧ ell.isSome)) (ih : ∀ f ∈ fs, Total env f.2.2) :
    Total env (.dict (some fs) ell) := by
  intro v hp hnc hod hc
  have hv := validateTrue_of_conforms env _ v hc
  simp only [Conforms, NoContains, NoOpenDict] at hc hnc hod
  obtain ⟨kvs, rfl, hF, hkeys⟩ := hc
  have hp' : PlainKV kvs := by simpa [Plain] using hp
  have hell : ell = none := by
    rcases hod.1 with h | h
    · cases ell with
      | none => rfl
      | some p => exact absurd ⟨h, rfl⟩ hne
    · exact h
  obtain ⟨fs', hfs'⟩ := substFields_total env fs ih ((noContainsF_iff fs).1 hnc) ((noOpenDictF_iff fs).1 hod.2) kvs hp' hF
  have hx : kvs.any (fun kv => !hasField kv.1 fs) = false := by
    rw [List.any_eq_false]
    intro kv hkv
    simp [hkeys hell kv hkv]
  cases fs with
  | nil =>
    subst hell
    simp only [subst]
    rw [hv, plainKV_noEll kvs hp', hfs']
    simp only [List.isEmpty_nil, Bool.not_true, Bool.false_eq_true, if_false]
    simp only [bind, Except.bind, hx, Bool.false_eq_true, if_false]
    exact ⟨_, rfl⟩
  | cons f fs =>
    simp only [subst]
    rw [hv, plainKV_noEll kvs hp', hfs']
    simp only [List.isEmpty_nil, Bool.not_true, Bool.false_eq_true, if_false]
    simp only [bind, Except.bind, hx, Bool.false_eq_true, if_false]
    exact ⟨_, rfl⟩

theorem total_any_none (env : Env) : Total env (.any none) := by
  intro v hp _ _ _
  obtain ⟨s0, h0⟩ := fromNative_total v hp
  simp only [subst, (fromNativeS_ok v s0).2 h0]
  exact ⟨_, rfl⟩

theorem substAlts_ne_nil (env : Env) : ∀ (ts : List Schema) (_ : ∀ t ∈ ts, Total env t)
    (_ : ∀ t ∈ ts, NoContains t) (_ : ∀ t ∈ ts, NoOpenDict t) (v : PyVal),
    Plain v → AnyC env ts v → substAlts env ts v ≠ []
  | [], _, _, _, _, _, h => by simp [AnyC] at h
  | t :: ts, tot, hnc, hod, v, hp, h => by
    simp only [AnyC] at h
    simp only [substAlts]
    cases ho : subst env t v with
    | ok r => simp [ok?]
    | error e =>
      simp only [ok?]
      rcases h with h | h
      · obtain ⟨r, hr⟩ := tot t (by simp) v hp (hnc t (by simp)) (hod t (by simp)) h
        rw [hr] at ho; cases ho
      · exact substAlts_ne_nil env ts (fun s hs => tot s (by simp [hs])) (fun s hs => hnc s (by simp [hs]))
          (fun s hs => hod s (by simp [hs])) v hp h

theorem total_any (env : Env) (ts : List Schema) (ih : ∀ t ∈ ts, Total env t) : Total env (.any (some ts)) := by
  intro v hp hnc hod hc
  have hv := validateTrue_of_conforms env _ v hc
  simp only [Conforms, NoContains, NoOpenDict] at hc hnc hod
  have hne := substAlts_ne_nil env ts ih ((noContainsL_iff ts).1 hnc) ((noOpenDictL_iff ts).1 hod) v hp hc
  simp only [subst]
  rw [hv]
  cases hs : substAlts env ts v with
  | nil => exact absurd hs hne
  | cons a as => exact ⟨_, rfl⟩

mutual
theorem total_all (env : Env) : ∀ (s : Schema), Total env s
  | .scalar k => total_scalar env k
  | .listU L => total_listU env L
  | .listT t L => total_listT env t L (total_all env t)
  | .listE lead es trail L => total_listE env lead es trail L (total_list env es)
  | .dict none ell => total_dict_none env ell
  | .dict (some []) (some pos) => total_dict_open env pos
  | .dict (some []) none => total_dict env [] none (by simp) (by simp)
  | .dict (some (f :: fs)) ell => total_dict env (f :: fs) ell (by simp) (total_fields env (f :: fs))
  | .any none => total_any_none env
  | .any (some ts) => total_any env ts (total_list env ts)
  | .alias n t => by
    intro v hp hnc hod hc
    simp only [Conforms, NoContains, NoOpenDict] at hc hnc hod
    obtain ⟨t', ht'⟩ := total_all env t v hp hnc hod hc
    simp only [subst, ht']
    exact ⟨_, rfl⟩
  | .custom t => by
    intro v hp hnc hod hc
    simp only [Conforms, NoContains, NoOpenDict] at hc hnc hod
    obtain ⟨t', ht'⟩ := total_all env t v hp hnc hod hc
    simp only [subst, ht']
    exact ⟨_, rfl⟩
theorem total_list (env : Env) : ∀ (ss : List Schema), ∀ s ∈ ss, Total env s
  | [] => by simp
  | s :: ss => by
    intro s' hs'
    rcases List.mem_cons.1 hs' with h | h
    · rw [h]; exact total_all env s
    · exact total_list env ss s' h
theorem total_fields (env : Env) : ∀ (fs : List (PyKey × Bool × Schema)), ∀ f ∈ fs, Total env f.2.2
  | [] => by simp
  | (k, o, s) :: fs => by
    intro f hf
    rcases List.mem_cons.1 hf with h | h
    · rw [h]; exact total_all env s
    · exact total_fields env fs f h
end

mutual
theorem accepts_all (env : Env) : ∀ (s : Schema), Accepts env s
  | .scalar k => accepts_scalar env k
  | .listU L => accepts_listU env L
  | .listT t L => accepts_listT env t L (accepts_all env t)
  | .listE lead es trail L => accepts_listE env lead es trail L (accepts_list env es)
  | .dict none ell => accepts_dict_none env ell
  | .dict (some []) (some pos) => accepts_dict_open env pos
  | .dict (some []) none => accepts_dict env [] none (by simp) (by simp)
  | .dict (some (f :: fs)) ell => accepts_dict env (f :: fs) ell (by simp) (accepts_fields env (f :: fs))
  | .any none => accepts_any_none env
  | .any (some ts) => accepts_any env ts (accepts_list env ts) (total_list env ts)
  | .alias n t => by
    intro s' v hs hg hnc hod hc
    simp only [subst] at hs
    obtain ⟨t', ht', rfl⟩ := bind_pure_ok _ _ _ hs
    simp only [Conforms, NoContains, NoOpenDictAlt] at hc hnc hod ⊢
    exact accepts_all env t t' v ht' hg hnc hod hc
  | .custom t => by
    intro s' v hs hg hnc hod hc
    simp only [subst] at hs
    obtain ⟨t', ht', rfl⟩ := bind_pure_ok _ _ _ hs
    simp only [Conforms, NoContains, NoOpenDictAlt] at hc hnc hod ⊢
    exact accepts_all env t t' v ht' hg hnc hod hc
theorem accepts_list (env : Env) : ∀ (ss : List Schema), ∀ s ∈ ss, Accepts env s
  | [] => by simp
  | s :: ss => by
    intro s' hs'
    rcases List.mem_cons.1 hs' with h | h
    · rw [h]; exact accepts_all env s
    · exact accepts_list env ss s' h
theorem accepts_fields (env : Env) : ∀ (fs : List (PyKey × Bool × Schema)), ∀ f ∈ fs, Accepts env f.2.2
  | [] => by simp
  | (k, o, s) :: fs => by
    intro f hf
    rcases List.mem_cons.1 hf with h | h
    · rw [h]; exact accepts_all env s
    · exact accepts_fields env fs f h
end

/-- **K13 (totality).** Substituting a plain value that conforms to the schema succeeds, unless the
    schema has a contains-list or a dict with both declared keys and `...: ...` -/
theorem subst_total (env : Env) (s : Schema) (v : PyVal) (hp : Plain v) (hnc : NoContains s)
    (hod : NoOpenDict s) (hc : Conforms env s v) : ∃ s', subst env s v = .ok s' :=
  total_all env s v hp hnc hod hc

/-- **C04 (accepts), corrected.** If the plain value itself conforms to the original schema, the result
    accepts it — provided no alternative of an `any` contains an open dict (`NoOpenDictAlt`, K13; see
    `subst_accepts_counterexample` for the statement without it). -/
theorem subst_accepts (env : Env) (s s' : Schema) (v : PyVal)
    (hs : subst env s v = .ok s') (hp : Plain v) (hn : NoNaN v) (hd : DistinctKeys v) (hk : KeysNodupS s)
    (hnc : NoContains s) (hoa : NoOpenDictAlt s) (hc : Conforms env s v) : Conforms env s' v := by
  have _ := hk
  exact accepts_all env s s' v hs ⟨hp, hn, hd⟩ hnc hoa hc


/-! ### K12 witness -/

/-- K12 witness: with a contains-list the first substitutable window may be a partial match, and the
    result then rejects the value although the value conformed to the original:
    S = [..., {"a": int, "b": int}, ...],  v = [{"a": 1}, {"a": 1, "b": 2}] -/
theorem subst_accepts_contains_counterexample :
    let env : Env := { rxSearch := fun _ _ => false, fl := PyFloat.fin }
    let d := Schema.dict (some [(.str [97], false, .scalar (.int none none none)), (.str [98], false, .scalar (.int none none none))]) none
    let s := Schema.listE true [d] true {}
    let v := PyVal.list [.dict [(.str [97], .int 1)], .dict [(.str [97], .int 1), (.str [98], .int 2)]]
    Conforms env s v ∧ ∃ s', subst env s v = .ok s' ∧ ¬ Conforms env s' v := by
  intro env d s v
  refine ⟨?_, .listE false
    [.dict (some [(.str [97], false, .scalar (.int (some 1) none none)), (.str [98], false, .scalar (.int none none none))]) none,
     .dict (some [(.str [97], false, .scalar (.int (some 1) none none)), (.str [98], false, .scalar (.int (some 2) none none))]) none]
    false {}, ?_, ?_⟩
  · show Conforms k7Env (.listE true [.dict (some [(.str [97], false, .scalar (.int none none none)), (.str [98], false, .scalar (.int none none none))]) none] true {})
      (.list [.dict [(.str [97], .int 1)], .dict [(.str [97], .int 1), (.str [98], .int 2)]])
    simp only [Conforms]
    refine ⟨_, rfl, by simp [LenOK], ?_⟩
    rw [if_pos (by simp)]
    refine ⟨1, by simp, ?_⟩
    simp [PrefixC, Conforms, FieldsC, lookupKey, ConformsScalar, asInt, hasField]
    rintro a b (⟨rfl, _⟩ | ⟨rfl, _⟩) <;> simp
  · show subst k7Env (.listE true [.dict (some [(.str [97], false, .scalar (.int none none none)), (.str [98], false, .scalar (.int none none none))]) none] true {})
      (.list [.dict [(.str [97], .int 1)], .dict [(.str [97], .int 1), (.str [98], .int 2)]]) = _
    rw [subst]
    rw [substWindows]
    simp [subst, validateP, lenErrFirst, windowsP, validateElemsP, validateFieldsP, lookupKey, validateScalar,
      asInt, intBoundErrs, minByLen, hasField, substElems, substZip, substFields, ok?, fromNativeListS,
      fromNativeS, fromNative, fromNativeKVs, ScalarS.withValue, bind, Except.bind, pure, Except.pure, isEllipsis]
  · show ¬ Conforms k7Env _ (.list [.dict [(.str [97], .int 1)], .dict [(.str [97], .int 1), (.str [98], .int 2)]])
    simp [Conforms, PrefixC, FieldsC, lookupKey, ConformsScalar, asInt, hasField]


/-! ### K13 witness: `subst_accepts` as originally stated (without `NoOpenDictAlt`) is false -/

/-- K13 witness: S = any({"a": int, ...: ...}, {"a": int, "b": int, "c": int}), v = {"a": 1, "c": 2}.
    The value conforms to the first alternative, but substitution into that alternative is refused
    (undeclared key "c" — the alternative is silently dropped); the second alternative, which the
    value does *not* conform to ("b" is missing), substitutes fine because the substitution validator
    ignores missing keys. The result any({"a": 1, "b": int, "c": 2}) rejects the value. All hypotheses
    of the original statement hold. -/
theorem subst_accepts_counterexample :
    let env : Env := { rxSearch := fun _ _ => false, fl := PyFloat.fin }
    let t1 := Schema.dict (some [(.str [97], false, .scalar (.int none none none))]) (some 1)
    let t2 := Schema.dict (some [(.str [97], false, .scalar (.int none none none)),
      (.str [98], false, .scalar (.int none none none)), (.str [99], false, .scalar (.int none none none))]) none
    let s := Schema.any (some [t1, t2])
    let v := PyVal.dict [(.str [97], .int 1), (.str [99], .int 2)]
    Plain v ∧ NoNaN v ∧ DistinctKeys v ∧ KeysNodupS s ∧ NoContains s ∧ Conforms env s v ∧
      ∃ s', subst env s v = .ok s' ∧ ¬ Conforms env s' v := by
  intro env t1 t2 s v
  refine ⟨by simp [v, Plain, PlainKV], by simp [v, NoNaN, NoNaNKV], by simp [v, DistinctKeys, DistinctKeysKV],
    by simp [s, t1, t2, KeysNodupS, KeysNodupSL, KeysNodupSF], by simp [s, t1, t2, NoContains, NoContainsL, NoContainsF], ?_,
    .any (some [.dict (some [(.str [97], false, .scalar (.int (some 1) none none)),
      (.str [98], false, .scalar (.int none none none)), (.str [99], false, .scalar (.int (some 2) none none))]) none]), ?_, ?_⟩
  · simp [s, t1, v, Conforms, AnyC, FieldsC, lookupKey, ConformsScalar, asInt]
  · simp [s, t1, t2, v, subst, validateP, anyOkP, validateFieldsP, lookupKey, validateScalar,
      asInt, intBoundErrs, hasField, substAlts, substFields, ok?, ScalarS.withValue, bind, Except.bind, pure,
      Except.pure, isEllipsis]
  · simp [v, Conforms, AnyC, FieldsC, lookupKey, ConformsScalar, asInt]


/-! ### C04: the rest of a dict is kept -/

theorem substFields_keeps (env : Env) : ∀ (fs : List (PyKey × Bool × Schema)) (kvs : List (PyKey × PyVal))
    (fs' : List (PyKey × Bool × Schema)), substFields env fs kvs = .ok fs' →
    ∀ f ∈ fs, lookupKey f.1 kvs = none → f ∈ fs'
  | [], _, _, _, f, hf, _ => by simp at hf
  | (k, opt, s) :: fs, kvs, fs', h, f, hf, hl => by
    obtain ⟨f0, r', rfl, hr', hcase⟩ := substFields_cons_ok env k opt s fs kvs fs' h
    rcases List.mem_cons.1 hf with rfl | hf'
    · rcases hcase with ⟨hl', _⟩ | ⟨x, s', hl', _, _⟩ | ⟨_, rfl⟩
      · simp only [] at hl; rw [hl'] at hl; cases hl
      · simp only [] at hl; rw [hl'] at hl; cases hl
      · simp
    · exact List.mem_cons_of_mem _ (substFields_keeps env fs kvs r' hr' f hf' hl)

theorem substFields_required (env : Env) : ∀ (fs : List (PyKey × Bool × Schema)) (kvs : List (PyKey × PyVal))
    (fs' : List (PyKey × Bool × Schema)), substFields env fs kvs = .ok fs' →
    ∀ f' ∈ fs', lookupKey f'.1 kvs ≠ none → f'.2.1 = false
  | [], kvs, fs', h, f', hf', _ => by
    rw [substFields_nil_ok env kvs fs' h] at hf'; simp at hf'
  | (k, opt, s) :: fs, kvs, fs', h, f', hf', hl => by
    obtain ⟨f0, r', rfl, hr', hcase⟩ := substFields_cons_ok env k opt s fs kvs fs' h
    rcases List.mem_cons.1 hf' with rfl | hf''
    · rcases hcase with ⟨_, rfl⟩ | ⟨x, s', _, _, rfl⟩ | ⟨hl', rfl⟩
      · rfl
      · rfl
      · exact absurd hl' hl
    · exact substFields_required env fs kvs r' hr' f' hf'' hl

/-- **C04 (rest kept).** Dict keys that are not given keep their original schema and optionality, and
    given keys become required -/
theorem subst_keeps_rest (env : Env) (fs fs' : List (PyKey × Bool × Schema)) (e e' : Option Nat)
    (kvs : List (PyKey × PyVal))
    (hne : ¬ (fs = [] ∧ e.isSome))
    (hs : subst env (.dict (some fs) e) (.dict kvs) = .ok (.dict (some fs') e')) :
    e' = e ∧ fs'.map (·.1) = fs.map (·.1) ∧
    ∀ f ∈ fs, lookupKey f.1 kvs = none → f ∈ fs' := by
  obtain ⟨_, _, fs'', hfs, _, heq⟩ := subst_dict_ok env fs e kvs _ hne hs
  cases heq
  exact ⟨rfl, substFields_keys env fs kvs fs' hfs, substFields_keeps env fs kvs fs' hfs⟩

/-- **C04 (given keys become required).** -/
theorem subst_given_required (env : Env) (fs fs' : List (PyKey × Bool × Schema)) (e e' : Option Nat)
    (kvs : List (PyKey × PyVal))
    (hne : ¬ (fs = [] ∧ e.isSome))
    (hs : subst env (.dict (some fs) e) (.dict kvs) = .ok (.dict (some fs') e')) :
    ∀ f' ∈ fs', lookupKey f'.1 kvs ≠ none → f'.2.1 = false := by
  obtain ⟨_, _, fs'', hfs, _, heq⟩ := subst_dict_ok env fs e kvs _ hne hs
  cases heq
  exact substFields_required env fs kvs fs' hfs

/-! ### C04: pinned scalars -/

/-- `subst_pins_scalar` as originally stated is false (1): a bool substituted into an int schema pins
    the *int* value, so the result accepts `1` which is not `Same` as `True` -/
theorem subst_pins_scalar_counterexample :
    let env : Env := { rxSearch := fun _ _ => false, fl := PyFloat.fin }
    let k := ScalarS.int none none none
    let v := PyVal.bool true
    let w := PyVal.int 1
    k ≠ .none ∧ ∃ s', subst env (.scalar k) v = .ok s' ∧ Conforms env s' w ∧ ¬ Same env v w := by
  intro env k v w
  refine ⟨by simp [k], .scalar (.int (some 1) none none), ?_, ?_, ?_⟩
  · simp [k, v, subst, validateScalar, asInt, intBoundErrs, ScalarS.withValue]
  · simp [w, Conforms, ConformsScalar, asInt]
  · simp [v, w, Same]

theorem k7_prec : eqAtPrecision k7Env (.fin (6 / 5)) (.fin 1) 0 = true := by decide +kernel
theorem k7_prec_far : isclose k7Env (.fin (6 / 5)) (.fin 1) = false := by decide +kernel

/-- `subst_pins_scalar` as originally stated is false (2): a float schema with a `precision` compares
    at that precision, not with `isclose`: float.precision(0) % 1.0 accepts 1.2 -/
theorem subst_pins_scalar_precision_counterexample :
    let env : Env := { rxSearch := fun _ _ => false, fl := PyFloat.fin }
    let k := ScalarS.float none none none (some 0) none none
    let v := PyVal.float (.fin 1)
    let w := PyVal.float (.fin (6 / 5))
    k ≠ .none ∧ ∃ s', subst env (.scalar k) v = .ok s' ∧ Conforms env s' w ∧ ¬ Same env v w := by
  intro env k v w
  refine ⟨by simp [k], .scalar (.float (some (.fin 1)) none none (some 0) none none), ?_, ?_, ?_⟩
  · simp [k, v, subst, validateScalar, floatBoundErrs, ScalarS.withValue]
  · show Conforms k7Env _ (.float (.fin (6 / 5)))
    simp [Conforms, ConformsScalar, floatValueOk, k7_prec]
  · show ¬ Same k7Env (.float (.fin 1)) (.float (.fin (6 / 5)))
    simp [Same, k7_prec_far]

/-- **C04 (pinned scalars), corrected.** A value accepted by the result of substituting a scalar equals
    the substituted value (floats up to the `isclose` tolerance) — except for a bool substituted into an
    int schema (`subst_pins_bool_int`) and a float schema with a precision (`subst_pins_float_precision`). -/
theorem subst_pins_scalar (env : Env) (k : ScalarS) (v w : PyVal) (s' : Schema)
    (hs : subst env (.scalar k) v = .ok s') (hk : k ≠ .none)
    (hb : ∀ b x mn mx, ¬ (v = .bool b ∧ k = .int x mn mx))
    (hpr : ∀ x mn mx pr d1 d2, k ≠ .float x mn mx (some pr) d1 d2)
    (hc : Conforms env s' w) : Same env v w := by
  rw [subst] at hs
  split at hs
  · rename_i hv
    cases hs
    have hcv := (validateScalar_nil_iff env k v []).1 (by simpa using hv)
    simp only [Conforms] at hc
    cases k with
    | none => exact absurd rfl hk
    | bool x => cases v <;> simp_all [ConformsScalar, ScalarS.withValue, Same]
    | int x mn mx =>
      cases v with
      | bool b => exact absurd ⟨rfl, rfl⟩ (hb b x mn mx)
      | int n =>
        simp_all [ConformsScalar, ScalarS.withValue, Same, asInt]
        obtain ⟨m, hm, rfl, _⟩ := hc
        exact hm
      | _ => simp [ConformsScalar, asInt] at hcv
    | float x mn mx pr d1 d2 =>
      cases pr with
      | some p => exact absurd rfl (hpr x mn mx p d1 d2)
      | none =>
        cases v <;> simp_all [ConformsScalar, ScalarS.withValue, Same, floatValueOk]
        obtain ⟨g, rfl, h, _⟩ := hc
        exact ⟨g, rfl, h⟩
    | str x L al sub pat =>
      cases v <;> simp_all [ConformsScalar, ScalarS.withValue, Same]
      obtain ⟨s, rfl, rfl, _⟩ := hc
      rfl
    | bytes x => cases v <;> simp_all [ConformsScalar, ScalarS.withValue, Same]
    | uuid4 x => cases v <;> simp_all [ConformsScalar, ScalarS.withValue, Same]
    | datetime x => cases v <;> simp_all [ConformsScalar, ScalarS.withValue, Same]
    | date x => cases v <;> simp_all [ConformsScalar, ScalarS.withValue, Same]
  · cases hs


/-- the excluded case (1): a bool substituted into an int schema pins the int value -/
theorem subst_pins_bool_int (env : Env) (x mn mx : Option Int) (b : Bool) (w : PyVal) (s' : Schema)
    (hs : subst env (.scalar (.int x mn mx)) (.bool b) = .ok s') (hc : Conforms env s' w) :
    asInt w = some (if b then 1 else 0) := by
  rw [subst] at hs
  split at hs
  · cases hs
    simp only [Conforms, ScalarS.withValue, asInt, ConformsScalar] at hc
    obtain ⟨m, hm, hmx, _⟩ := hc
    have hm' : asInt w = some m := hm
    rw [hm', hmx _ rfl]
  · cases hs

/-- the excluded case (2): a float schema with a precision pins the value at that precision -/
theorem subst_pins_float_precision (env : Env) (x mn mx : Option PyFloat) (pr : Nat) (d1 d2 : Option Rat)
    (f : PyFloat) (w : PyVal) (s' : Schema)
    (hs : subst env (.scalar (.float x mn mx (some pr) d1 d2)) (.float f) = .ok s') (hc : Conforms env s' w) :
    ∃ g, w = .float g ∧ eqAtPrecision env g f pr = true := by
  rw [subst] at hs
  split at hs
  · cases hs
    simp only [Conforms, ScalarS.withValue, ConformsScalar] at hc
    obtain ⟨g, rfl, hg, _⟩ := hc
    exact ⟨g, rfl, by simpa [floatValueOk] using hg f rfl⟩
  · cases hs


end D42
