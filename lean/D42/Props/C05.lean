/- C05 (statements are being added) -/
import D42.Model.Subst
