/-
  D42.Props.ValidatorProg — code → extracted check programs → hand model, for every input.

  `Gen/ValidatorProg.lean` is regenerated from d42/validation/_validator.py on every run. The theorems
  below say that the hand-written model of the scalar visitors (`validateScalar`), of the list length
  prelude (`lenErrFirst`) and of the container type checks computes exactly what the interpreter
  `CP.run` computes on the extracted statement sequences. A change of the source that alters a
  comparison operator, drops or reorders a check, turns an accumulating check into a returning one
  (or back), or changes a type test changes the generated file, and these proofs stop checking.
-/
import D42.Model.CheckProg
import D42.Gen.ValidatorProg

namespace D42
open CP Gen.ValidatorProg

/-- which extracted program belongs to which scalar schema -/
def progOf : ScalarS → List Stmt
  | .none => noneProg
  | .bool _ => boolProg
  | .int .. => intProg
  | .float .. => floatProg
  | .str .. => strProg
  | .bytes _ => bytesProg
  | .uuid4 _ => uuid4Prog
  | .datetime _ => datetimeProg
  | .date _ => dateProg

theorem validateNone_eq_extracted (env : Env) (a : PyVal) (p : Path) :
    validateScalar env .none a p = (run env (viewScalar .none) a p noneProg []).1 := by
  cases a <;> simp [validateScalar, noneProg, run_typeGuard, isInstance]

theorem validateBool_eq_extracted (env : Env) (v : Option Bool) (a : PyVal) (p : Path) :
    validateScalar env (.bool v) a p = (run env (viewScalar (.bool v)) a p boolProg []).1 := by
  cases a <;> cases v <;>
    simp [validateScalar, boolProg, run, step, isInstance, viewScalar, pyEqAtom, asInt]
  rename_i b x
  cases b <;> cases x <;> simp

theorem validateBytes_eq_extracted (env : Env) (v : Option (List Nat)) (a : PyVal) (p : Path) :
    validateScalar env (.bytes v) a p = (run env (viewScalar (.bytes v)) a p bytesProg []).1 := by
  cases a <;> cases v <;>
    simp [validateScalar, bytesProg, run, step, isInstance, viewScalar, pyEqAtom]
  rename_i b x
  by_cases h : b = x <;> simp [h]

theorem validateDatetime_eq_extracted (env : Env) (v : Option Nat) (a : PyVal) (p : Path) :
    validateScalar env (.datetime v) a p = (run env (viewScalar (.datetime v)) a p datetimeProg []).1 := by
  cases a <;> cases v <;>
    simp [validateScalar, datetimeProg, run, step, isInstance, viewScalar, pyEqAtom]
  rename_i b x
  by_cases h : b = x <;> simp [h]

theorem validateDate_eq_extracted (env : Env) (v : Option (Bool × Nat)) (a : PyVal) (p : Path) :
    validateScalar env (.date v) a p = (run env (viewScalar (.date v)) a p dateProg []).1 := by
  cases a <;> (try rcases v with _ | ⟨_ | _, x⟩) <;>
    simp [validateScalar, dateProg, run, step, isInstance, viewScalar, pyEqAtom, asInt]
  all_goals (rename_i b; by_cases h : b = x <;> simp [h])

theorem validateUuid_eq_extracted (env : Env) (v : Option (Nat × Nat)) (a : PyVal) (p : Path) :
    validateScalar env (.uuid4 v) a p = (run env (viewScalar (.uuid4 v)) a p uuid4Prog []).1 := by
  cases a <;> (try rcases v with _ | ⟨xid, xver⟩) <;>
    simp [validateScalar, uuid4Prog, run, step, isInstance, viewScalar, pyEqAtom]
  all_goals (rename_i id ver; by_cases hv : ver = 4 <;> simp [hv])
  by_cases h : id = xid <;> simp [h]

theorem validateInt_eq_extracted (env : Env) (v mn mx : Option Int) (a : PyVal) (p : Path) :
    validateScalar env (.int v mn mx) a p = (run env (viewScalar (.int v mn mx)) a p intProg []).1 := by
  cases a <;> try (simp [validateScalar, intProg, run_typeGuard, isInstance, asInt]; done)
  all_goals
    cases v <;> cases mn <;> cases mx <;>
    simp [validateScalar, intProg, run_typeGuard, run_valueGuard, run_check, isInstance, viewScalar, asInt,
      intBoundErrs, evalTest, mkErr, pyEqAtom]
  all_goals (repeat' split) <;> simp_all <;> omega

theorem validateFloat_eq_extracted (env : Env) (v mn mx : Option PyFloat) (prec : Option Nat) (d1 d2 : Option Rat)
    (a : PyVal) (p : Path) :
    validateScalar env (.float v mn mx prec d1 d2) a p
      = (run env (viewScalar (.float v mn mx prec d1 d2)) a p floatProg []).1 := by
  cases a <;> try (simp [validateScalar, floatProg, run_typeGuard, isInstance]; done)
  rename_i f
  have hp : precOf (viewScalar (.float v mn mx prec d1 d2)) = prec := by
    cases prec <;> simp [precOf, viewScalar]
  simp only [floatProg, run_typeGuard, isInstance, if_true]
  cases v
  · rw [run_floatValueGuard_none _ _ _ _ _ _ (by simp [viewScalar])]
    cases mn <;> cases mx <;>
      simp [run_check, viewScalar, validateScalar, floatBoundErrs, evalTest, mkErr, asInt] <;>
      (repeat' split) <;> simp_all
  · rename_i x
    rw [run_floatValueGuard_some _ _ _ _ _ x f (by simp [viewScalar]), hp]
    by_cases hok : floatValueOk env f x prec = true
    · cases mn <;> cases mx <;>
        simp [hok, run_check, viewScalar, validateScalar, floatBoundErrs, evalTest, mkErr, asInt] <;>
        (repeat' split) <;> simp_all
    · simp [validateScalar, hok]
theorem validateStr_eq_extracted (env : Env) (v : Option Str) (L : LenP) (al sub : Option Str) (pat : Option Pat)
    (a : PyVal) (p : Path) :
    validateScalar env (.str v L al sub pat) a p
      = (run env (viewScalar (.str v L al sub pat)) a p strProg []).1 := by
  cases a <;> try (simp [validateScalar, strProg, run_typeGuard, isInstance]; done)
  rename_i s
  obtain ⟨l, mnl, mxl⟩ := L
  simp only [strProg, run_typeGuard, isInstance, if_true, validateScalar]
  have h1 : (viewScalar (.str v ⟨l, mnl, mxl⟩ al sub pat)).get .value = v.map PyVal.str := rfl
  have h2 : (viewScalar (.str v ⟨l, mnl, mxl⟩ al sub pat)).get .len = l.map PyVal.int := rfl
  have h3 : (viewScalar (.str v ⟨l, mnl, mxl⟩ al sub pat)).get .minLen = mnl.map PyVal.int := rfl
  have h4 : (viewScalar (.str v ⟨l, mnl, mxl⟩ al sub pat)).get .maxLen = mxl.map PyVal.int := rfl
  have h5 : (viewScalar (.str v ⟨l, mnl, mxl⟩ al sub pat)).get .substr = sub.map PyVal.str := rfl
  have h6 : (viewScalar (.str v ⟨l, mnl, mxl⟩ al sub pat)).get .alphabet = al.map PyVal.str := rfl
  have h7 : (viewScalar (.str v ⟨l, mnl, mxl⟩ al sub pat)).pat = pat.map (·.id) := rfl
  generalize viewScalar (.str v ⟨l, mnl, mxl⟩ al sub pat) = pv at *
  have c1 : checkErrs pv (.str s) p .len .lenNe .len
      = (match (generalizing := false) l with | some k => if (s.length : Int) ≠ k then [Err.len p (.str s) k] else [] | none => []) := by
    cases l <;> simp [checkErrs, h2, evalTest, mkErr, pyLen, asInt]
  have c2 : checkErrs pv (.str s) p .minLen .lenLt .minLen
      = (match (generalizing := false) mnl with | some k => if (s.length : Int) < k then [Err.minLen p (.str s) k] else [] | none => []) := by
    cases mnl <;> simp [checkErrs, h3, evalTest, mkErr, pyLen, asInt]
  have c3 : checkErrs pv (.str s) p .maxLen .lenGt .maxLen
      = (match (generalizing := false) mxl with | some k => if (s.length : Int) > k then [Err.maxLen p (.str s) k] else [] | none => []) := by
    cases mxl <;> simp [checkErrs, h4, evalTest, mkErr, pyLen, asInt]
  have c4 : checkErrs pv (.str s) p .substr .notIn .substr
      = (match (generalizing := false) sub with | some x => if isInfixB x s then [] else [Err.substr p (.str s) x] | none => []) := by
    cases sub <;> simp [checkErrs, h5, evalTest, mkErr]
    split <;> simp_all
  have hal : ∀ acc', (run env pv (.str s) p [.alphabetGuard] acc').1
      = acc' ++ (match (generalizing := false) al with
                 | some alx => if s.all (fun c => alx.contains c) then [] else [Err.alphabet p (.str s) alx]
                 | none => []) := by
    intro acc'
    cases al with
    | none => rw [run_alphabetGuard_none _ _ _ _ _ _ (by simp [h6])]; simp
    | some alx =>
      rw [run_alphabetGuard_some _ _ _ _ _ alx s (by simp [h6])]
      by_cases hc : (s.all (fun c => alx.contains c)) = true
      · simp only [hc, if_true]; simp
      · simp only [hc]; simp
  have tail : ∀ acc : List Err,
      (run env pv (.str s) p
        [.check .len .lenNe .len false, .check .minLen .lenLt .minLen false, .check .maxLen .lenGt .maxLen false,
         .check .substr .notIn .substr false, .alphabetGuard] acc).1
        = acc ++ strTail ⟨l, mnl, mxl⟩ al sub s p (.str s) := by
    intro acc
    simp only [run_check_add, hal, c1, c2, c3, c4, strTail, lenErrs, List.append_assoc]
    cases l <;> cases mnl <;> cases mxl <;> cases sub <;> cases al <;> rfl
  have rest : (run env pv (.str s) p
        [.regexGuard, .check .len .lenNe .len false, .check .minLen .lenLt .minLen false,
         .check .maxLen .lenGt .maxLen false, .check .substr .notIn .substr false, .alphabetGuard] []).1
        = strRest env ⟨l, mnl, mxl⟩ al sub pat s p (.str s) := by
    rw [run_regexGuard, h7]
    cases pat with
    | none => simp [strRest, tail]
    | some pt => by_cases h : env.rxSearch pt.id s = true <;> simp [strRest, h, tail]
  rw [run_valueGuard, h1]
  cases v with
  | none => simp [strErrs, rest]
  | some x =>
    by_cases h : s = x
    · subst h; simp [strErrs, pyEqAtom, rest]
    · simp [strErrs, h, pyEqAtom]

/-- every scalar visitor of the model is the extracted program, for every schema, value and path -/
theorem validateScalar_eq_extracted (env : Env) (k : ScalarS) (a : PyVal) (p : Path) :
    validateScalar env k a p = (run env (viewScalar k) a p (progOf k) []).1 := by
  cases k with
  | none => exact validateNone_eq_extracted env a p
  | bool v => exact validateBool_eq_extracted env v a p
  | int v mn mx => exact validateInt_eq_extracted env v mn mx a p
  | float v mn mx prec d1 d2 => exact validateFloat_eq_extracted env v mn mx prec d1 d2 a p
  | str v L al sub pat => exact validateStr_eq_extracted env v L al sub pat a p
  | bytes v => exact validateBytes_eq_extracted env v a p
  | uuid4 v => exact validateUuid_eq_extracted env v a p
  | datetime v => exact validateDatetime_eq_extracted env v a p
  | date v => exact validateDate_eq_extracted env v a p

/-- the prelude of `visit_list` (type check, then the three length checks, each returning alone) is what every list
    clause of `validateP` starts with -/
theorem listPrelude_eq_extracted (env : Env) (L : LenP) (a : PyVal) (p : Path) :
    run env { get := viewLen L } a p listPrelude []
      = (match a with
         | .list xs => (match lenErrFirst L xs.length p a with | some e => ([e], true) | none => ([], false))
         | _ => ([Err.type p a .list], true)) := by
  cases a <;> try (simp [listPrelude, run_typeGuard, isInstance]; done)
  rename_i xs
  obtain ⟨l, mnl, mxl⟩ := L
  simp only [listPrelude, run_typeGuard, isInstance, if_true]
  cases l <;> cases mnl <;> cases mxl <;>
    simp [run_check, viewLen, lenErrFirst, evalTest, mkErr, pyLen, asInt] <;>
    (repeat' split) <;> simp_all

theorem dictPrelude_eq_extracted (env : Env) (pv : PV) (a : PyVal) (p : Path) :
    run env pv a p dictPrelude []
      = (match a with | .dict _ => ([], false) | _ => ([Err.type p a .dict], true)) := by
  cases a <;> simp [dictPrelude, run_typeGuard, isInstance]

theorem anyPrelude_eq_extracted (env : Env) (pv : PV) (a : PyVal) (p : Path) :
    run env pv a p anyPrelude [] = ([], false) := by
  simp [anyPrelude]

/-- the list clauses of the model start with exactly that prelude: when the extracted prelude returns, the model
    returns the same errors; when it falls through, the model's result is that of the element checks alone -/
theorem validateP_list_prelude (env : Env) (sub : Bool) (L : LenP) (a : PyVal) (p : Path)
    (h : (run env { get := viewLen L } a p listPrelude []).2 = true) :
    validateP env sub (.listU L) a p = (run env { get := viewLen L } a p listPrelude []).1 ∧
    (∀ t, validateP env sub (.listT t L) a p = (run env { get := viewLen L } a p listPrelude []).1) ∧
    (∀ lead es trail, validateP env sub (.listE lead es trail L) a p
        = (run env { get := viewLen L } a p listPrelude []).1) := by
  rw [listPrelude_eq_extracted] at h ⊢
  cases a <;> simp_all [validateP]
  rename_i xs
  cases hl : lenErrFirst L xs.length p (.list xs) <;> simp_all

theorem validateP_dict_prelude (env : Env) (sub : Bool) (fs : Option (List (PyKey × Bool × Schema))) (ell : Option Nat)
    (a : PyVal) (p : Path) (pv : PV) (h : (run env pv a p dictPrelude []).2 = true) :
    validateP env sub (.dict fs ell) a p = (run env pv a p dictPrelude []).1 := by
  rw [dictPrelude_eq_extracted] at h ⊢
  cases a <;> cases fs <;> simp_all [validateP]

/-! ### non-vacuity: the extracted programs are the non-trivial ones and the interpreter reports with them -/

example : (run ⟨fun _ _ => false, flExec⟩ (viewScalar (.int none (some 3) (some 5))) (.int 7) [] intProg []).1
    = [Err.max [] (.int 7) (.int 5)] := by rfl
example : (run ⟨fun _ _ => false, flExec⟩ (viewScalar (.str none ⟨some 1, none, some 0⟩ none none none)) (.str [97, 98]) []
    strProg []).1 = [Err.len [] (.str [97, 98]) 1, Err.maxLen [] (.str [97, 98]) 0] := by rfl

end D42
