/-
  C12 — substitution fails only with SubstitutionError (statements are being added).
-/
import D42.Model.Subst
