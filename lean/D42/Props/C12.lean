/-
  C12 — substitution fails only with SubstitutionError, and is idempotent.
-/
import D42.Model.Subst
import D42.Props.C14

namespace D42

/-! ### helpers -/

theorem fromNativeS_error_kind (v : PyVal) (e : PyExc) (h : fromNativeS v = .error e) : e = .substitutionError := by
  unfold fromNativeS at h
  split at h
  · cases h
  · cases h; rfl

theorem fromNativeListS_error_kind : ∀ (xs : List PyVal) (e : PyExc),
    fromNativeListS xs = .error e → e = .substitutionError
  | [], e, h => by simp [fromNativeListS] at h
  | x :: xs, e, h => by
    simp only [fromNativeListS, bind, Except.bind] at h
    cases hx : fromNativeS x with
    | error e1 =>
      rw [hx] at h; cases h
      exact fromNativeS_error_kind x _ hx
    | ok a =>
      rw [hx] at h
      cases hr : fromNativeListS xs with
      | error e2 =>
        rw [hr] at h; cases h
        exact fromNativeListS_error_kind xs _ hr
      | ok b => rw [hr] at h; cases h

theorem mapM_except_error {α β} (f : α → Except PyExc β) : ∀ (l : List α) (e : PyExc),
    l.mapM f = .error e → ∃ x ∈ l, f x = .error e
  | [], e, h => by simp [pure, Except.pure] at h
  | x :: xs, e, h => by
    rw [List.mapM_cons] at h
    simp only [bind, Except.bind] at h
    cases hx : f x with
    | error e1 =>
      rw [hx] at h; cases h
      exact ⟨x, by simp, hx⟩
    | ok a =>
      rw [hx] at h
      cases hr : xs.mapM f with
      | error e2 =>
        rw [hr] at h; cases h
        obtain ⟨y, hy, hfy⟩ := mapM_except_error f xs _ hr
        exact ⟨y, by simp [hy], hfy⟩
      | ok b => rw [hr] at h; cases h

theorem substFresh_error_kind (kvs : List (PyKey × PyVal)) (relaxed : Bool) (e : PyExc)
    (h : substFresh kvs relaxed = .error e) : e = .substitutionError := by
  unfold substFresh at h
  split at h
  · cases h; rfl
  · simp only [bind, Except.bind] at h
    split at h
    · rename_i e1 hm
      cases h
      obtain ⟨x, _, hx⟩ := mapM_except_error _ _ _ hm
      cases hf : fromNativeS x.2 with
      | error e2 =>
        rw [hf] at hx; cases hx
        exact fromNativeS_error_kind _ _ hf
      | ok a => rw [hf] at hx; simp [pure, Except.pure] at hx
    · simp [pure, Except.pure] at h

/-- "substituting into `s` fails only with SubstitutionError" -/
def SubstEK (env : Env) (s : Schema) : Prop :=
  ∀ (v : PyVal) (e : PyExc), subst env s v = .error e → e = .substitutionError

theorem substAll_error_kind (env : Env) (t : Schema) (ih : SubstEK env t) : ∀ (xs : List PyVal) (e : PyExc),
    substAll env t xs = .error e → e = .substitutionError
  | [], e, h => by simp [substAll] at h
  | x :: xs, e, h => by
    simp only [substAll, bind, Except.bind] at h
    cases hx : subst env t x with
    | error e1 =>
      rw [hx] at h; cases h
      exact ih x _ hx
    | ok a =>
      rw [hx] at h
      cases hr : substAll env t xs with
      | error e2 =>
        rw [hr] at h; cases h
        exact substAll_error_kind env t ih xs _ hr
      | ok b => rw [hr] at h; simp [pure, Except.pure] at h

theorem substZip_error_kind (env : Env) : ∀ (ss : List Schema) (_ : ∀ s ∈ ss, SubstEK env s) (xs : List PyVal) (e : PyExc),
    substZip env ss xs = .error e → e = .substitutionError
  | [], _, xs, e, h => by simp [substZip] at h
  | _ :: _, _, [], e, h => by simp [substZip] at h; exact h.symm
  | s :: ss, ih, x :: xs, e, h => by
    simp only [substZip, bind, Except.bind] at h
    cases hx : subst env s x with
    | error e1 =>
      rw [hx] at h; cases h
      exact ih s (by simp) x _ hx
    | ok a =>
      rw [hx] at h
      cases hr : substZip env ss xs with
      | error e2 =>
        rw [hr] at h; cases h
        exact substZip_error_kind env ss (fun s hs => ih s (by simp [hs])) xs _ hr
      | ok b => rw [hr] at h; simp [pure, Except.pure] at h

theorem substElems_error_kind (env : Env) (ss : List Schema) (ih : ∀ s ∈ ss, SubstEK env s) (xs : List PyVal)
    (start : Nat) (e : PyExc) (h : substElems env ss xs start = .error e) : e = .substitutionError := by
  simp only [substElems, bind, Except.bind] at h
  cases h1 : substZip env ss (xs.drop start) with
  | error e1 => rw [h1] at h; cases h; exact substZip_error_kind env ss ih _ _ h1
  | ok a =>
    rw [h1] at h
    cases h2 : fromNativeListS (xs.drop (start + ss.length)) with
    | error e2 => rw [h2] at h; cases h; exact fromNativeListS_error_kind _ _ h2
    | ok b =>
      rw [h2] at h
      cases h3 : fromNativeListS (xs.take start) with
      | error e3 => rw [h3] at h; cases h; exact fromNativeListS_error_kind _ _ h3
      | ok c => rw [h3] at h; simp [pure, Except.pure] at h

theorem substFields_error_kind (env : Env) : ∀ (fs : List (PyKey × Bool × Schema)) (_ : ∀ f ∈ fs, SubstEK env f.2.2)
    (kvs : List (PyKey × PyVal)) (e : PyExc), substFields env fs kvs = .error e → e = .substitutionError
  | [], _, kvs, e, h => by simp [substFields] at h
  | (k, opt, s) :: fs, ih, kvs, e, h => by
    simp only [substFields, bind, Except.bind] at h
    split at h
    · rename_i e1 hm
      cases h
      split at hm
      · simp [pure, Except.pure] at hm
      · rename_i x _ _
        cases hx : subst env s x with
        | error e2 => rw [hx] at hm; cases hm; exact ih (k, opt, s) (by simp) x _ hx
        | ok a => rw [hx] at hm; simp [pure, Except.pure] at hm
      · simp [pure, Except.pure] at hm
    · cases hr : substFields env fs kvs with
      | error e2 =>
        rw [hr] at h; cases h
        exact substFields_error_kind env fs (fun f hf => ih f (by simp [hf])) kvs _ hr
      | ok b => rw [hr] at h; simp [pure, Except.pure] at h

theorem bind_pure_error {α β} (x : Except PyExc α) (f : α → β) (e : PyExc)
    (h : (do let a ← x; pure (f a)) = Except.error e) : x = .error e := by
  cases x with
  | error e1 => simpa [bind, Except.bind] using h
  | ok a => simp [bind, Except.bind, pure, Except.pure] at h

theorem dictBody_error_kind (env : Env) (fs : List (PyKey × Bool × Schema)) (kvs : List (PyKey × PyVal))
    (ell : Option Nat) (e : PyExc) (ih : ∀ f ∈ fs, SubstEK env f.2.2)
    (h : (do
        let fs' ← substFields env fs kvs
        if (kvs.any fun kv => !hasField kv.fst fs) = true then Except.error PyExc.substitutionError
          else pure (Schema.dict (some fs') ell)) = Except.error e) : e = .substitutionError := by
  cases hf : substFields env fs kvs with
  | error e1 =>
    rw [hf] at h; simp only [bind, Except.bind] at h; cases h
    exact substFields_error_kind env fs ih kvs _ hf
  | ok a =>
    rw [hf] at h; simp only [bind, Except.bind] at h
    split at h
    · cases h; rfl
    · simp [pure, Except.pure] at h

mutual
theorem subst_ek (env : Env) : ∀ (s : Schema), SubstEK env s
  | .scalar k => by
    intro v e h
    rw [subst] at h
    split at h
    · cases h
    · cases h; rfl
  | .listU L => by
    intro v e h
    cases v
    case list xs =>
      simp only [subst] at h
      repeat' split at h
      all_goals first | (cases h; rfl) | (cases h) | skip
      exact fromNativeListS_error_kind _ _ (bind_pure_error _ _ _ h)
    all_goals (simp [subst, validateP] at h; exact h.symm)
  | .listT t L => by
    intro v e h
    cases v
    case list xs =>
      simp only [subst] at h
      repeat' split at h
      all_goals first | (cases h; rfl) | (cases h) | skip
      exact substAll_error_kind env t (subst_ek env t) _ _ (bind_pure_error _ _ _ h)
    all_goals (simp [subst, validateP] at h; exact h.symm)
  | .listE lead elems trail L => by
    intro v e h
    cases v
    case list xs =>
      simp only [subst] at h
      repeat' split at h
      all_goals first | (cases h; rfl) | (cases h) | skip
      all_goals exact substElems_error_kind env elems (subst_ek_list env elems) _ _ _ (bind_pure_error _ _ _ h)
    all_goals (simp [subst, validateP] at h; exact h.symm)
  | .dict none ell => by
    intro v e h
    cases v
    case dict kvs =>
      simp only [subst] at h
      split at h
      · cases h; rfl
      · exact substFresh_error_kind _ _ _ h
    all_goals (simp [subst, validateP] at h; exact h.symm)
  | .dict (some []) (some pos) => by
    intro v e h
    cases v
    case dict kvs =>
      simp only [subst] at h
      split at h
      · cases h; rfl
      · exact substFresh_error_kind _ _ _ h
    all_goals (simp [subst, validateP] at h; exact h.symm)
  | .dict (some []) none => by
    intro v e h
    cases v
    case dict kvs =>
      simp only [subst] at h
      split at h
      · cases h; rfl
      split at h
      · cases h; rfl
      exact dictBody_error_kind env _ _ _ _ (by simp) h
    all_goals (simp [subst, validateP] at h; exact h.symm)
  | .dict (some (f :: fs)) ell => by
    intro v e h
    cases v
    case dict kvs =>
      simp only [subst] at h
      split at h
      · cases h; rfl
      split at h
      · cases h; rfl
      exact dictBody_error_kind env _ _ _ _ (subst_ek_fields env (f :: fs)) h
    all_goals (simp [subst, validateP] at h; exact h.symm)
  | .any none => by
    intro v e h
    simp only [subst] at h
    exact fromNativeS_error_kind _ _ (bind_pure_error _ _ _ h)
  | .any (some ts) => by
    intro v e h
    simp only [subst] at h
    repeat' split at h
    all_goals first | (cases h; rfl) | (cases h) | skip
  | .alias n t => by
    intro v e h
    simp only [subst] at h
    exact subst_ek env t v e (bind_pure_error _ _ _ h)
  | .custom t => by
    intro v e h
    simp only [subst] at h
    exact subst_ek env t v e (bind_pure_error _ _ _ h)
theorem subst_ek_list (env : Env) : ∀ (ss : List Schema), ∀ s ∈ ss, SubstEK env s
  | [] => by simp
  | s :: ss => by
    intro s' hs'
    rcases List.mem_cons.1 hs' with h | h
    · rw [h]; exact subst_ek env s
    · exact subst_ek_list env ss s' h
theorem subst_ek_fields (env : Env) : ∀ (fs : List (PyKey × Bool × Schema)), ∀ f ∈ fs, SubstEK env f.2.2
  | [] => by simp
  | (k, o, s) :: fs => by
    intro f hf
    rcases List.mem_cons.1 hf with h | h
    · rw [h]; exact subst_ek env s
    · exact subst_ek_fields env fs f h
end

/-- **C12 (error kind).** For every schema and *every* value — conforming or not, convertible or not,
    with `...` placeholders anywhere — the substitution model fails only with SubstitutionError.
    (In particular the `unmodelled` escape of the model is unreachable.) -/
theorem subst_error_kind (env : Env) (s : Schema) (v : PyVal) (e : PyExc)
    (h : subst env s v = .error e) : e = .substitutionError :=
  subst_ek env s v e h

theorem bind_pure_ok {α β} (x : Except PyExc α) (f : α → β) (r : β)
    (h : (do let a ← x; pure (f a)) = Except.ok r) : ∃ a, x = .ok a ∧ r = f a := by
  cases x with
  | error e1 => simp [bind, Except.bind] at h
  | ok a =>
    simp only [bind, Except.bind, pure, Except.pure] at h
    cases h
    exact ⟨a, rfl, rfl⟩

/-- the result of substituting into `any` always has at least one alternative (fix F3) -/
theorem subst_any_nonempty (env : Env) (ts : Option (List Schema)) (v : PyVal) (r : Schema)
    (h : subst env (.any ts) v = .ok r) : ∃ a as, r = .any (some (a :: as)) := by
  cases ts with
  | none =>
    simp only [subst] at h
    obtain ⟨a, _, rfl⟩ := bind_pure_ok _ _ _ h
    exact ⟨a, [], rfl⟩
  | some ts =>
    simp only [subst] at h
    split at h
    · cases h
    · cases hs : substAlts env ts v with
      | nil => rw [hs] at h; cases h
      | cons a as =>
        rw [hs] at h
        simp only [] at h
        cases h
        exact ⟨a, as, rfl⟩

/-- a successful substitution into an element list yields an exact list (no `...` markers), unless the
    list was untyped / typed (then the markers are those of the value) -/
theorem subst_listE_exact (env : Env) (lead trail : Bool) (es : List Schema) (L : LenP) (v : PyVal) (r : Schema)
    (h : subst env (.listE lead es trail L) v = .ok r) : ∃ es', r = .listE false es' false L := by
  cases v
  case list xs =>
    simp only [subst] at h
    repeat' split at h
    all_goals first | (cases h; exact ⟨_, rfl⟩) | (cases h) | skip
    all_goals (obtain ⟨a, _, rfl⟩ := bind_pure_ok _ _ _ h; exact ⟨a, rfl⟩)
  all_goals (simp [subst, validateP] at h)

theorem withValue_idem (k : ScalarS) (v : PyVal) : (k.withValue v).withValue v = k.withValue v := by
  cases k <;> cases v <;> rfl

theorem PyFloat.eq_self (f : PyFloat) (h : f ≠ .nan) : PyFloat.eq f f = true := by
  cases f <;> simp [PyFloat.eq] at *

theorem floatValueOk_self (env : Env) (f : PyFloat) (prec : Option Nat) (h : f ≠ .nan) :
    floatValueOk env f f prec = true := by
  cases prec with
  | none => simp [floatValueOk, isclose, PyFloat.eq_self f h]
  | some pr =>
    simp only [floatValueOk, eqAtPrecision]
    cases pyRound (fscale env f pr) <;> simp [PyFloat.eq_self f h]

theorem validateScalar_withValue (env : Env) (k : ScalarS) (v : PyVal) (p : Path) (hn : NoNaN v)
    (h : validateScalar env k v p = []) : validateScalar env (k.withValue v) v p = [] := by
  cases k with
  | none => cases v <;> simp_all [validateScalar, ScalarS.withValue]
  | bool x => cases v <;> simp_all [validateScalar, ScalarS.withValue]
  | int x mn mx =>
    cases hv : asInt v with
    | none => simp [validateScalar, hv] at h
    | some n =>
      have hw : (ScalarS.int x mn mx).withValue v = .int (some n) mn mx := by
        cases v <;> simp_all [ScalarS.withValue]
      rw [hw]
      simp only [validateScalar, hv] at h ⊢
      cases x with
      | none => simpa using h
      | some y =>
        simp only [] at h
        split at h
        · simp at h
        · rename_i hy
          simp at hy; subst hy; simpa using h
  | float x mn mx pr d1 d2 =>
    cases v <;> simp_all [validateScalar, ScalarS.withValue]
    case float f =>
      have hf : f ≠ .nan := by intro hf; subst hf; simp [NoNaN] at hn
      simp only [floatValueOk_self env f pr hf, if_true]
      cases x <;> simp_all
      split at h <;> simp_all
  | str x L al sub pat =>
    cases v <;> simp_all [validateScalar, ScalarS.withValue]
    case str s =>
      cases x <;> simp_all [strErrs]
      split at h <;> simp_all
  | bytes x => cases v <;> simp_all [validateScalar, ScalarS.withValue]
  | uuid4 x => cases v <;> simp_all [validateScalar, ScalarS.withValue] <;> (split at h <;> simp_all)
  | datetime x => cases v <;> simp_all [validateScalar, ScalarS.withValue]
  | date x => cases v <;> simp_all [validateScalar, ScalarS.withValue]

/-- **C12 (idempotent), scalars.** Substituting the same value again into the result of a scalar
    substitution succeeds and returns the same schema (floats: not NaN — K6). -/
theorem subst_idempotent_scalar (env : Env) (k : ScalarS) (v : PyVal) (r : Schema)
    (hn : NoNaN v) (h : subst env (.scalar k) v = .ok r) : subst env r v = .ok r := by
  rw [subst] at h
  split at h
  · rename_i hv
    cases h
    rw [subst, validateScalar_withValue env k v [] hn (by simpa using hv), withValue_idem]
    simp
  · cases h

end D42
