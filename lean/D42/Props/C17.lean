/-
  C17 — seeded generation is reproducible: in the model, generation is a function of the schemas and the
  answers of the random source, reads the answers strictly left to right without look-ahead, and the
  request log is a pure by-product. With "the Mersenne Twister is a function of the seed and the
  request sequence" (trusted) this is the property; that the *code* is this function in every interpreter
  configuration is what the cross-process check decides.
-/
import D42.Model.Gen
import D42.Props.C09

namespace D42

/-- generating a sequence of schemas, one after the other, from one random source -/
def genMany (env : Env) : List Schema → G (List PyVal)
  | [] => pure []
  | s :: ss => do let v ← gen env s; let vs ← genMany env ss; pure (v :: vs)

/-! ### helper: the frame property of a generator computation

  `Frame m`: a successful run of `m` consumes a prefix `used` of the answers and prepends a block `new`
  to the request log, and the same run happens — same value, same `used`, same `new` — whatever follows
  the prefix and whatever the log held before. It is closed under `bind`, holds of every primitive draw,
  and therefore of every generator of the model. -/

def Frame {α} (m : G α) : Prop :=
  ∀ (st : GS) (a : α) (st' : GS), m st = .ok (a, st') →
    ∃ used new, st.draws = used ++ st'.draws ∧ st'.reqs = new ++ st.reqs ∧
      ∀ extra r0, m { draws := used ++ extra, reqs := r0 } = .ok (a, { draws := extra, reqs := new ++ r0 })

theorem frame_pure {α} (a : α) : Frame (G.pure a) := by
  intro st x st' h
  obtain ⟨rfl, rfl⟩ := G.pure_ok h
  exact ⟨[], [], by simp, by simp, fun _ _ => by simp [G.pure]⟩

theorem frame_pure' {α} (a : α) : Frame (Pure.pure a : G α) := frame_pure a

theorem frame_fail {α} (e : PyExc) : Frame (G.fail e : G α) := by
  intro st x st' h
  simp [G.fail] at h

theorem frame_bind {α β} {m : G α} {f : α → G β} (hm : Frame m) (hf : ∀ a, Frame (f a)) :
    Frame (G.bind m f) := by
  intro st b st' h
  obtain ⟨a, st1, h1, h2⟩ := G.bind_ok h
  obtain ⟨u1, n1, hd1, hr1, k1⟩ := hm _ _ _ h1
  obtain ⟨u2, n2, hd2, hr2, k2⟩ := hf a _ _ _ h2
  refine ⟨u1 ++ u2, n2 ++ n1, by simp [hd1, hd2], by simp [hr1, hr2], ?_⟩
  intro extra r0
  simp only [G.bind, List.append_assoc, k1, k2]

theorem frame_bind' {α β} {m : G α} {f : α → G β} (hm : Frame m) (hf : ∀ a, Frame (f a)) :
    Frame (m >>= f) := frame_bind hm hf

theorem frame_randint (a b : Int) : Frame (randint a b) := by
  intro st x st' h
  unfold D42.randint at h
  split at h
  · simp at h
  · split at h
    · rename_i n ds hd
      split at h
      · simp at h
        obtain ⟨rfl, rfl⟩ := h
        refine ⟨[.int n], [.randint a b], by simp [hd], by simp, ?_⟩
        intro extra r0
        simp [D42.randint, *]
      · simp at h
    · simp at h

theorem frame_choiceIdx (n : Nat) : Frame (choiceIdx n) := by
  intro st x st' h
  unfold D42.choiceIdx at h
  split at h
  · simp at h
  · split at h
    · rename_i i ds hd
      split at h
      · simp at h
        obtain ⟨rfl, rfl⟩ := h
        refine ⟨[.idx i], [.choice n], by simp [hd], by simp, ?_⟩
        intro extra r0
        simp [D42.choiceIdx, *]
      · simp at h
    · simp at h

theorem frame_choiceChar (c : List Nat) : Frame (choiceChar c) := by
  intro st x st' h
  unfold D42.choiceChar at h
  split at h
  · simp at h
  · split at h
    · rename_i i ds hd
      split at h
      · simp at h
        obtain ⟨rfl, rfl⟩ := h
        refine ⟨[.idx i], [.choice c.length], by simp [hd], by simp, ?_⟩
        intro extra r0
        simp_all [D42.choiceChar]
      · simp at h
    · simp at h

theorem frame_uniform (env : Env) (a b : PyFloat) : Frame (uniform env a b) := by
  intro st x st' h
  unfold D42.uniform at h
  split at h
  · split at h
    · split at h
      · rename_i xa ya _ _ _ _ f ds hd
        split at h
        · simp at h
          obtain ⟨rfl, rfl⟩ := h
          refine ⟨[.flt f], [.uniform (.fin xa) (.fin ya)], by simp [hd], by simp, ?_⟩
          intro extra r0
          simp [D42.uniform, *]
        · simp at h
      · simp at h
    · simp at h
  · simp at h

def extOk (kind : Nat) (v : PyVal) : Bool :=
  match kind, v with
  | 0, .uuid _ 4 => true
  | 1, .datetime _ => true
  | 2, .date _ => true
  | _, _ => false

theorem extDraw_eq (k : Nat) (st : GS) : extDraw k st =
    match st.draws with
    | .ext v :: ds => if extOk k v then .ok (v, { draws := ds, reqs := .ext k :: st.reqs }) else .error .badDraw
    | _ => .error .badDraw := by
  unfold extDraw extOk
  rfl

theorem frame_extDraw (k : Nat) : Frame (extDraw k) := by
  intro st x st' h
  rw [extDraw_eq] at h
  split at h
  · rename_i v ds hd
    split at h
    · simp at h
      obtain ⟨rfl, rfl⟩ := h
      refine ⟨[.ext v], [.ext k], by simp [hd], by simp, ?_⟩
      intro extra r0
      simp [extDraw_eq, *]
    · simp at h
  · simp at h

theorem frame_liftE {α} (e : Except PyExc α) : Frame (liftE e) := by
  intro st x st' h
  unfold D42.liftE at h
  split at h
  · simp at h
    obtain ⟨rfl, rfl⟩ := h
    exact ⟨[], [], by simp, by simp, fun _ _ => by simp [D42.liftE]⟩
  · simp at h


macro "frame_tac" : tactic => `(tactic| repeat (first
  | exact frame_pure' _ | exact frame_pure _ | exact frame_fail _
  | exact frame_randint _ _ | exact frame_choiceIdx _ | exact frame_choiceChar _
  | exact frame_uniform _ _ _ | exact frame_extDraw _ | exact frame_liftE _
  | assumption
  | refine frame_bind' ?_ (fun _ => ?_) | refine frame_bind ?_ (fun _ => ?_)
  | split))

theorem frame_randomStr (al : List Nat) : ∀ n, Frame (randomStr n al)
  | 0 => by simp only [randomStr]; frame_tac
  | n + 1 => by
    have ih := frame_randomStr al n
    simp only [randomStr]; frame_tac

theorem frame_repeatG {m : G Str} (hm : Frame m) : ∀ n, Frame (repeatG m n)
  | 0 => by simp only [repeatG]; frame_tac
  | n + 1 => by
    have ih := frame_repeatG hm n
    simp only [repeatG]; frame_tac

theorem frame_replicateG {m : G PyVal} (hm : Frame m) : ∀ n, Frame (replicateG m n)
  | 0 => by simp only [replicateG]; frame_tac
  | n + 1 => by
    have ih := frame_replicateG hm n
    simp only [replicateG]; frame_tac

theorem frame_randomFloat (env : Env) (a b : PyFloat) (ad bd : Option Rat) (p : Option Nat) :
    Frame (randomFloat env a b ad bd p) := by
  unfold randomFloat; frame_tac

theorem frame_genNotIn (items : List ClsItem) : Frame (genNotIn items) := by
  unfold genNotIn; frame_tac

theorem frame_genClsItem (it : ClsItem) : Frame (genClsItem it) := by
  cases it <;> simp only [genClsItem] <;> frame_tac

theorem frame_genLength (L : LenP) (a b : Int) : Frame (genLength L a b) := by
  unfold genLength; frame_tac

mutual
theorem frame_genRe : ∀ r : Re, Frame (genRe r)
  | .any => by simp only [genRe]; frame_tac
  | .lit c => by simp only [genRe]; frame_tac
  | .notLit c => by
    have := frame_genNotIn [.lit c]
    simp only [genRe]; frame_tac
  | .cls true items => by
    have := frame_genNotIn items
    simp only [genRe]; frame_tac
  | .cls false items => by
    simp only [genRe]
    refine frame_bind' (frame_choiceIdx _) (fun i => ?_)
    split
    · refine frame_bind' (frame_genClsItem _) (fun _ => ?_); frame_tac
    · frame_tac
  | .group r => by
    simp only [genRe]; exact frame_genSeq r
  | .rep mn mx r => by
    simp only [genRe]
    exact frame_bind' (frame_randint _ _) (fun n => frame_repeatG (frame_genSeq r) _)
  | .at_ => by simp only [genRe]; frame_tac
  | .branch alts => by
    simp only [genRe]
    exact frame_bind' (frame_choiceIdx _) (fun i => frame_genAlt alts i)
  | .unsup n => by simp only [genRe]; frame_tac
theorem frame_genSeq : ∀ r : List Re, Frame (genSeq r)
  | [] => by simp only [genSeq]; frame_tac
  | r :: rs => by
    have h1 := frame_genRe r
    have h2 := frame_genSeq rs
    simp only [genSeq]; frame_tac
theorem frame_genAlt : ∀ (alts : List (List Re)) (i : Nat), Frame (genAlt alts i)
  | [], i => by simp only [genAlt]; frame_tac
  | a :: as, 0 => by simp only [genAlt]; exact frame_genSeq a
  | a :: as, i + 1 => by simp only [genAlt]; exact frame_genAlt as i
end

theorem frame_genScalar (env : Env) (k : ScalarS) : Frame (genScalar env k) := by
  have hf := frame_randomFloat env
  have hs := frame_randomStr
  have hq := frame_genSeq
  cases k with
  | none => simp only [genScalar]; frame_tac
  | bool v => cases v <;> simp only [genScalar] <;> frame_tac
  | int v mn mx => cases v <;> simp only [genScalar] <;> frame_tac
  | float v mn mx p d1 d2 =>
    cases v <;> simp only [genScalar]
    · exact frame_bind' (hf _ _ _ _ _) (fun _ => frame_pure' _)
    · frame_tac
  | str v L al sub pat =>
    cases v with
    | some v => simp only [genScalar]; frame_tac
    | none =>
      cases pat with
      | some pat =>
        simp only [genScalar]
        exact frame_bind' (hq _) (fun _ => frame_pure' _)
      | none =>
        simp only [genScalar]
        refine frame_bind' ?_ (fun _ => ?_)
        · frame_tac
        · split
          · refine frame_bind' (hs _ _) (fun _ => ?_); frame_tac
          · refine frame_bind' (hs _ _) (fun _ => ?_); frame_tac
  | bytes v =>
    cases v <;> simp only [genScalar]
    · refine frame_bind' (frame_randint _ _) (fun _ => ?_)
      refine frame_bind' (hs _ _) (fun _ => ?_); frame_tac
    · frame_tac
  | uuid4 v =>
    cases v with
    | none => simp only [genScalar]; frame_tac
    | some p => obtain ⟨i, ver⟩ := p; simp only [genScalar]; frame_tac
  | datetime v => cases v <;> simp only [genScalar] <;> frame_tac
  | date v =>
    cases v with
    | none => simp only [genScalar]; frame_tac
    | some p => obtain ⟨b, i⟩ := p; cases b <;> simp only [genScalar] <;> frame_tac

mutual
theorem frame_gen (env : Env) : ∀ s : Schema, Frame (gen env s)
  | .scalar k => by simp only [gen]; exact frame_genScalar env k
  | .listU L => by
    have := frame_genLength L Consts.LIST_LEN_MIN Consts.LIST_LEN_MAX
    simp only [gen]; frame_tac
  | .listT t L => by
    simp only [gen]
    refine frame_bind' (frame_genLength _ _ _) (fun _ => ?_)
    refine frame_bind' (frame_replicateG (frame_gen env t) _) (fun _ => ?_)
    frame_tac
  | .listE _ elems _ _ => by
    simp only [gen]
    exact frame_bind' (frame_genList env elems) (fun _ => frame_pure' _)
  | .dict none _ => by simp only [gen]; frame_tac
  | .dict (some fs) _ => by
    simp only [gen]
    exact frame_bind' (frame_genFields env fs) (fun _ => frame_pure' _)
  | .any none => by simp only [gen]; frame_tac
  | .any (some ts) => by
    simp only [gen]
    exact frame_bind' (frame_choiceIdx _) (fun i => frame_genNth env ts i)
  | .alias _ t => by simp only [gen]; exact frame_gen env t
  | .custom t => by simp only [gen]; exact frame_gen env t
theorem frame_genList (env : Env) : ∀ ss : List Schema, Frame (genList env ss)
  | [] => by simp only [genList]; frame_tac
  | s :: ss => by
    have h1 := frame_gen env s
    have h2 := frame_genList env ss
    simp only [genList]; frame_tac
theorem frame_genFields (env : Env) : ∀ fs : List (PyKey × Bool × Schema), Frame (genFields env fs)
  | [] => by simp only [genFields]; frame_tac
  | (k, opt, s) :: fs => by
    have h1 := frame_gen env s
    have h2 := frame_genFields env fs
    simp only [genFields]; frame_tac
theorem frame_genNth (env : Env) : ∀ (ss : List Schema) (i : Nat), Frame (genNth env ss i)
  | [], i => by simp only [genNth]; frame_tac
  | s :: _, 0 => by simp only [genNth]; exact frame_gen env s
  | _ :: ss, i + 1 => by simp only [genNth]; exact frame_genNth env ss i
end

theorem frame_genMany (env : Env) : ∀ ss : List Schema, Frame (genMany env ss)
  | [] => by simp only [genMany]; frame_tac
  | s :: ss => by
    have h1 := frame_gen env s
    have h2 := frame_genMany env ss
    simp only [genMany]; frame_tac

theorem Frame.log_independent {α} {m : G α} (hm : Frame m) {d d' : Draws} {r r' : List Req} {v : α}
    (h : m { draws := d, reqs := r } = .ok (v, { draws := d', reqs := r' })) :
    ∃ new, r' = new ++ r ∧ ∀ r0, m { draws := d, reqs := r0 } = .ok (v, { draws := d', reqs := new ++ r0 }) := by
  obtain ⟨used, new, hd, hr, k⟩ := hm _ _ _ h
  simp only at hd hr
  exact ⟨new, hr, fun r0 => by rw [hd]; exact k d' r0⟩

theorem Frame.no_lookahead {α} {m : G α} (hm : Frame m) {d d' : Draws} {r r' : List Req} {v : α}
    (h : m { draws := d, reqs := r } = .ok (v, { draws := d', reqs := r' })) :
    ∃ used, d = used ++ d' ∧ ∀ extra, m { draws := used ++ extra, reqs := r } = .ok (v, { draws := extra, reqs := r' }) := by
  obtain ⟨used, new, hd, hr, k⟩ := hm _ _ _ h
  simp only at hd hr
  exact ⟨used, hd, fun extra => by rw [hr]; exact k extra r⟩

/-! ### theorems to prove -/

/-- the request log is only appended to and does not influence the result -/
theorem gen_log_independent (env : Env) (s : Schema) (d d' : Draws) (r r' : List Req) (v : PyVal)
    (h : gen env s { draws := d, reqs := r } = .ok (v, { draws := d', reqs := r' })) :
    ∃ new, r' = new ++ r ∧ ∀ r0, gen env s { draws := d, reqs := r0 } = .ok (v, { draws := d', reqs := new ++ r0 }) :=
  (frame_gen env s).log_independent h

/-- **no look-ahead.** generation consumes a prefix of the answers and is unaffected by what follows -/
theorem gen_no_lookahead (env : Env) (s : Schema) (d d' : Draws) (r r' : List Req) (v : PyVal)
    (h : gen env s { draws := d, reqs := r } = .ok (v, { draws := d', reqs := r' })) :
    ∃ used, d = used ++ d' ∧ ∀ extra, gen env s { draws := used ++ extra, reqs := r } = .ok (v, { draws := extra, reqs := r' }) :=
  (frame_gen env s).no_lookahead h

/-- the same for a sequence of schemas: the values produced for a sequence of schemas are a function of
    the schemas and of the answers consumed -/
theorem genMany_no_lookahead (env : Env) (ss : List Schema) (d d' : Draws) (r r' : List Req) (vs : List PyVal)
    (h : genMany env ss { draws := d, reqs := r } = .ok (vs, { draws := d', reqs := r' })) :
    ∃ used, d = used ++ d' ∧ ∀ extra, genMany env ss { draws := used ++ extra, reqs := r } = .ok (vs, { draws := extra, reqs := r' }) :=
  (frame_genMany env ss).no_lookahead h

/-- **the k-th request depends only on the schemas and the earlier answers**: two answer lists that
    agree on a prefix long enough for the run on the first give the same run on the second -/
theorem gen_prefix_determined (env : Env) (s : Schema) (d1 d2 rest1 : Draws) (r r' : List Req) (v : PyVal)
    (h : gen env s { draws := d1, reqs := r } = .ok (v, { draws := rest1, reqs := r' }))
    (hp : ∃ used, d1 = used ++ rest1 ∧ ∃ rest2, d2 = used ++ rest2) :
    ∃ rest2, gen env s { draws := d2, reqs := r } = .ok (v, { draws := rest2, reqs := r' }) := by
  obtain ⟨used, hd, k⟩ := gen_no_lookahead env s d1 rest1 r r' v h
  obtain ⟨used', hd', rest2, rfl⟩ := hp
  have : used' = used := List.append_cancel_right (hd'.symm.trans hd)
  subst this
  exact ⟨rest2, k rest2⟩

end D42
