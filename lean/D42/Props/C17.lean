/- C17 (statements are being added) -/
import D42.Model.Gen
