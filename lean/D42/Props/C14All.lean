/-
  C14 — umbrella: from_native denotes the value, and the model's from_native = the isinstance ladder extracted from the source.
-/
import D42.Props.C14
import D42.Props.SubstProg

namespace D42
open SP

/-- what the `isinstance` ladder AS EXTRACTED FROM THE SOURCE builds for a plain value is a schema that accepts that value
    (`fromNative_eq_extracted` composed with `fromNative_accepts`) -/
theorem extracted_ladder_accepts (env : Env) (v : PyVal) (s : Schema) (p : Path)
    (hs : build (classify Gen.SubstProg.ladder v) v = .ok s) (hn : NoNaN v) (hd : DistinctKeys v) :
    validateP env false s v p = [] :=
  fromNative_accepts env v s p (by rw [fromNative_eq_extracted]; exact hs) hn hd

/-- … and whatever it refuses, it refuses with ValueError -/
theorem extracted_ladder_error_kind (v : PyVal) (e : PyExc)
    (h : build (classify Gen.SubstProg.ladder v) v = .error e) : e = .valueError := by
  rw [← fromNative_eq_extracted] at h
  exact fromNative_error_kind v e h

end D42
