/-
  C14 — umbrella: from_native denotes the value, and the model's from_native = the isinstance ladder extracted from the source.
-/
import D42.Props.C14
import D42.Props.SubstProg
