def hello := "world"
