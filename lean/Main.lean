/-
  Line-protocol driver around the model: one S-expression per line in, one canonical line out.
-/
import D42.Model.Codec
import D42.Model.Validate
import D42.Model.Gen
import D42.Model.Subst
import D42.Model.Decl
import D42.Model.Repr
import D42.Model.Eq
import D42.Model.Rollout
import D42.Model.Migrate
import D42.Model.History
import D42.Model.Format
import D42.Model.RegexMatch
import D42.Gen.MigrationData

open D42 D42.Sexp

/-- rx table shipped with each case: (pattern id, string, result of CPython's `re.search`). -/
def decRxTab : Sexp → Option (List (Nat × Str × Bool))
  | .list (.atom "rxtab" :: es) => es.mapM (fun e => match e with
      | .list [i, s, b] => do some ((← sxNat i), (← decStr s), (← decBool b))
      | _ => none)
  | _ => none

def decElemArg : Sexp → Option ElemArg
  | .atom "E" => some .ell
  | .atom "bad" => some .bad
  | .list [.atom "sch", s] => do some (.sch (← decSchema s))
  | _ => none

def decKeyArg : Sexp → Option KeyArg
  | .atom "E" => some .ell
  | .list [.atom "key", k, o] => do some (.key (← decKey k) (← decBool o))
  | _ => none

def decArg : Sexp → Option Arg
  | .atom "nil" => some .nil
  | .list [.atom "v", x] => do some (.v (← decVal x))
  | .list [.atom "sch", s] => do some (.sch (← decSchema s))
  | .list (.atom "elems" :: xs) => do some (.elems (← xs.mapM decElemArg))
  | .list (.atom "keys" :: kvs) => do
      some (.keys (← kvs.mapM (fun kv => match kv with
        | .list [k, v] => do some ((← decKeyArg k), (← decElemArg v))
        | _ => none)))
  | .list [.atom "pat", c, p, m] => do some (.pat (← decBool c) (← decPat p) (← decBool m))
  | _ => none

def decOp : Sexp → Option Op
  | .list [.atom "call", a] => do some (.call (← decArg a))
  | .list [.atom "min", a] => do some (.min (← decArg a))
  | .list [.atom "max", a] => do some (.max (← decArg a))
  | .list [.atom "precision", a] => do some (.precision (← decArg a))
  | .list [.atom "len", a, b] => do some (.len (← decArg a) (← decArg b))
  | .list [.atom "alphabet", a] => do some (.alphabet (← decArg a))
  | .list [.atom "contains", a] => do some (.contains (← decArg a))
  | .list [.atom "regex", a] => do some (.regex (← decArg a))
  | .list (.atom "anycall" :: as) => do some (.anyCall (← as.mapM decArg))
  | _ => none

def encTok : Tok → Sexp
  | .t s => .list (.atom "t" :: s.toList.map (fun c => .atom (toString c.toNat)))
  | .val v => .list [.atom "val", encVal v]
  | .key k => .list [.atom "key", encKey k]
  | .pat i => .list [.atom "pat", encNat i]
  | .name n => encNats "name" n

def decRKey : Sexp → Option RKey
  | .atom "E" => some .ell
  | .list [.atom "rs", s, o] => do some (.str (← decStr s) (← decBool o))
  | .list [.atom "ro", i] => do some (.other (← sxNat i))
  | _ => none

partial def decRVal : Sexp → Option RVal
  | .atom "E" => some .ell
  | .list [.atom "leaf", n] => do some (.leaf (← sxNat n))
  | .list (.atom "rd" :: kvs) => do
      some (.dict (← kvs.mapM (fun kv => match kv with
        | .list [k, v] => do some ((← decRKey k), (← decRVal v))
        | _ => none)))
  | _ => none

def encRKey : RKey → Sexp
  | .ell => .atom "E"
  | .str s o => .list [.atom "rs", encNats "s" s, encBool o]
  | .other i => .list [.atom "ro", encNat i]

partial def encRVal : RVal → Sexp
  | .ell => .atom "E"
  | .leaf n => .list [.atom "leaf", encNat n]
  | .dict kvs => .list (.atom "rd" :: kvs.map (fun kv => .list [encRKey kv.1, encRVal kv.2]))

def decAlias : Sexp → Option Migrate.Alias
  | .list [.atom "alias", n, a] => do some { name := (← decBytes n), asname := (← decOpt decBytes a) }
  | _ => none

def decStmt : Sexp → Option Migrate.Stmt
  | .list [.atom "stmt", a, b, c, d, k] => do
    let kind ← (match k with
      | .atom "other" => some Migrate.Kind.other
      | .list (.atom "from" :: m :: lvl :: names) => do
          some (Migrate.Kind.importFrom (← decOpt decBytes m) (← sxNat lvl) (← names.mapM decAlias))
      | _ => none)
    some { lineno := (← sxNat a), endLineno := (← sxNat b), col := (← sxNat c), endCol := (← sxNat d), kind := kind }
  | _ => none

def decHOp : Sexp → Option HOp
  | .list [.atom "hdecl", i, op] => do some (.decl (← sxNat i) (← decOp op))
  | .list [.atom "hsubst", i, v] => do some (.subst (← sxNat i) (← decVal v))
  | .list [.atom "hunion", i, j] => do some (.union (← sxNat i) (← sxNat j))
  | .list [.atom "hadd", i, j] => do some (.add (← sxNat i) (← sxNat j))
  | .list [.atom "hrequired", i, ks] => do
      let ks' ← (match ks with | .atom "_" => some none | .list (.atom "ks" :: l) => (l.mapM decKey).map some | _ => none)
      some (.makeRequired (← sxNat i) ks')
  | .list [.atom "hfromnative", v] => do some (.fromNative (← decVal v))
  | .list [.atom "hgetitem", i, k] => do some (.getItem (← sxNat i) (← decKey k))
  | .list [.atom "hvalidate", i, v] => do some (.validate (← sxNat i) (← decVal v))
  | .list [.atom "hrepr", i] => do some (.represent (← sxNat i))
  | .list [.atom "heq", i, j] => do some (.eq (← sxNat i) (← sxNat j))
  | _ => none

def mkEnv (tab : List (Nat × Str × Bool)) : Env :=
  { rxSearch := fun i s => match tab.find? (fun e => e.1 == i && e.2.1 == s) with
      | some e => e.2.2
      | none => false
    fl := flExec }

def encErrs (es : List Err) : Sexp := .list (.atom "errs" :: es.map encErr)

def encExcept {α} (f : α → Sexp) : Except PyExc α → Sexp
  | .ok a => .list [.atom "ok", f a]
  | .error e => .list [.atom "exc", encExc e]

def handle (e : Sexp) : Sexp :=
  match e with
  | .list [.atom "validate", sub, s, v, tab] =>
    (match decBool sub, decSchema s, decVal v, decRxTab tab with
     | some sub, some s, some v, some tab =>
       let env := mkEnv tab
       encExcept encErrs (validate env sub s v [])
     | _, _, _, _ => .atom "BADINPUT")
  | .list [.atom "vformat", s, v, tab] =>
    -- validate, then render every error: what each message is made of (kind, the path it names, the printed length)
    (match decSchema s, decVal v, decRxTab tab with
     | some s, some v, some tab =>
       let env := mkEnv tab
       encExcept (fun (ms : List Msg) => .list (ms.map (fun m =>
          .list [.atom "msg", .atom m.kind, encPath m.shown, (match m.len with | some n => encNat n | none => .atom "_")])))
         (do let errs ← validate env false s v []; formatAll errs)
     | _, _, _ => .atom "BADINPUT")
  | .list [.atom "vof", s, v, tab] =>
    (match decSchema s, decVal v, decRxTab tab with
     | some s, some v, some tab => encExcept encBool (validateOrFail (mkEnv tab) s v)
     | _, _, _ => .atom "BADINPUT")
  | .list [.atom "gen", s, .list (.atom "draws" :: ds), tab] =>
    (match decSchema s, ds.mapM decDraw, decRxTab tab with
     | some s, some ds, some tab =>
       let env := mkEnv tab
       encExcept (fun (r : PyVal × Draws × List Req) =>
          .list [encVal r.1, .list (.atom "reqs" :: r.2.2.map encReq), encNat r.2.1.length])
         (runGen (gen env s) ds)
     | _, _, _ => .atom "BADINPUT")
  | .list [.atom "regen", .list (.atom "re" :: rs), .list (.atom "draws" :: ds)] =>
    (match rs.mapM decRe, ds.mapM decDraw with
     | some rs, some ds =>
       encExcept (fun (r : Str × Draws × List Req) =>
          .list [encNats "s" r.1, .list (.atom "reqs" :: r.2.2.map encReq), encNat r.2.1.length])
         (runGen (genSeq rs) ds)
     | _, _ => .atom "BADINPUT")
  | .list [.atom "rxmatch", .list (.atom "re" :: rs), str, .list (.atom "digits" :: ds), .list (.atom "words" :: ws)] =>
    -- `digits` / `words`: the non-ASCII characters of the string that CPython's `\\d` / `\\w` accept
    (match rs.mapM decRe, decStr str, sxNats ds, sxNats ws with
     | some rs, some str, some ds, some ws =>
       let extB : ClsItem → Nat → Bool := fun it x => match it with
         | .digit => ds.contains x
         | .word => ws.contains x
         | _ => false
       .atom (if matchSeqB extB rs str then "1" else "0")
     | _, _, _, _ => .atom "BADINPUT")
  | .list [.atom "subst", s, v, tab] =>
    (match decSchema s, decVal v, decRxTab tab with
     | some s, some v, some tab => encExcept encSchema (subst (mkEnv tab) s v)
     | _, _, _ => .atom "BADINPUT")
  | .list [.atom "fromnative", v] =>
    (match decVal v with
     | some v => encExcept encSchema (fromNative v)
     | _ => .atom "BADINPUT")
  | .list [.atom "decl", s, .list (.atom "ops" :: ops)] =>
    (match decSchema s, ops.mapM decOp with
     | some s, some ops => encExcept encSchema (Decl.run s ops)
     | _, _ => .atom "BADINPUT")
  | .list [.atom "union", a, b] =>
    (match decSchema a, decSchema b with
     | some a, some b => encSchema (a.union b)
     | _, _ => .atom "BADINPUT")
  | .list [.atom "add", a, b] =>
    (match decSchema a, decSchema b with
     | some a, some b => (match a.add b with | some r => .list [.atom "ok", encSchema r] | none => .list [.atom "exc", .atom "TypeError"])
     | _, _ => .atom "BADINPUT")
  | .list [.atom "makerequired", a, ks] =>
    (match decSchema a, (match ks with | .atom "_" => some none | .list (.atom "ks" :: l) => (l.mapM decKey).map some | _ => none) with
     | some a, some ks => encExcept encSchema (makeRequired a ks)
     | _, _ => .atom "BADINPUT")
  | .list [.atom "getitem", a, k] =>
    (match decSchema a, decKey k with
     | some a, some k => encExcept encSchema (getItem a k)
     | _, _ => .atom "BADINPUT")
  | .list [.atom "repr", s, ind] =>
    (match decSchema s, sxNat ind with
     | some s, some ind => .list (.atom "toks" :: (represent s ind).map encTok)
     | _, _ => .atom "BADINPUT")
  | .list [.atom "eq", a, b, tab] =>
    (match decSchema a, decSchema b, decRxTab tab with
     | some a, some b, some tab => encBool (pyEq (mkEnv tab) a b)
     | _, _, _ => .atom "BADINPUT")
  | .list [.atom "eqvalue", a, v, tab] =>
    (match decSchema a, decVal v, decRxTab tab with
     | some a, some v, some tab => encBool (pyEqValue (mkEnv tab) a v)
     | _, _, _ => .atom "BADINPUT")
  | .list [.atom "rollout", sep, v] =>
    (match decStr sep, decRVal v with
     | some sep, some (.dict kvs) => encExcept (fun r => encRVal (.dict r)) (rollout sep kvs)
     | _, _ => .atom "BADINPUT")
  | .list [.atom "migrate", src, .list (.atom "stmts" :: ss)] =>
    (match decBytes src, ss.mapM decStmt with
     | some ls, some ss =>
       (match Migrate.rewriteImports Gen.Migration.mapping ls ss with
        | some out => .list [.atom "some", encNats "y" out]
        | none => .atom "none")
     | _, _ => .atom "BADINPUT")
  | .list [.atom "history", .list (.atom "pool" :: ps), .list (.atom "ops" :: ops), tab] =>
    (match ps.mapM decSchema, ops.mapM decHOp, decRxTab tab with
     | some ps, some ops, some tab =>
       let (pool, obs) := runHistory (mkEnv tab) ps ops
       .list [.list (.atom "pool" :: pool.map encSchema),
              .list (.atom "obs" :: obs.map (fun o => match o with
                | .stored i => .list [.atom "stored", encNat i]
                | .raised e => .list [.atom "raised", encExc e]
                | .errors n => .list [.atom "errors", encNat n]
                | .text t => .list (.atom "toks" :: t.map encTok)
                | .bool b => .list [.atom "bool", encBool b]
                | .badIndex => .atom "badindex"))]
     | _, _, _ => .atom "BADINPUT")
  | .list [.atom "echo-schema", s] =>
    (match decSchema s with | some s => encSchema s | none => .atom "BADINPUT")
  | .list [.atom "echo-value", v] =>
    (match decVal v with | some v => encVal v | none => .atom "BADINPUT")
  | .list [.atom "fl", q] =>
    (match decRat q with | some q => encFloat (flExec q) | none => .atom "BADINPUT")
  | _ => .atom "BADCMD"

partial def loop (h : IO.FS.Stream) (out : IO.FS.Stream) : IO Unit := do
  let line ← h.getLine
  if line.isEmpty then return ()
  let r := match Sexp.parse line with
    | some e => (handle e).toStr
    | none => "BADPARSE"
  out.putStrLn r
  loop h out

def main : IO Unit := do
  let i ← IO.getStdin
  let o ← IO.getStdout
  loop i o
  o.flush
