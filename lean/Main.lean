/-
  Line-protocol driver around the model: one S-expression per line in, one canonical line out.
-/
import D42.Model.Codec
import D42.Model.Validate
import D42.Model.Gen
import D42.Model.Subst

open D42 D42.Sexp

/-- rx table shipped with each case: (pattern id, string, result of CPython's `re.search`). -/
def decRxTab : Sexp → Option (List (Nat × Str × Bool))
  | .list (.atom "rxtab" :: es) => es.mapM (fun e => match e with
      | .list [i, s, b] => do some ((← sxNat i), (← decStr s), (← decBool b))
      | _ => none)
  | _ => none

def mkEnv (tab : List (Nat × Str × Bool)) : Env :=
  { rxSearch := fun i s => match tab.find? (fun e => e.1 == i && e.2.1 == s) with
      | some e => e.2.2
      | none => false
    fl := flExec }

def encErrs (es : List Err) : Sexp := .list (.atom "errs" :: es.map encErr)

def encExcept {α} (f : α → Sexp) : Except PyExc α → Sexp
  | .ok a => .list [.atom "ok", f a]
  | .error e => .list [.atom "exc", encExc e]

def handle (e : Sexp) : Sexp :=
  match e with
  | .list [.atom "validate", sub, s, v, tab] =>
    (match decBool sub, decSchema s, decVal v, decRxTab tab with
     | some sub, some s, some v, some tab =>
       let env := mkEnv tab
       encExcept encErrs (validate env sub s v [])
     | _, _, _, _ => .atom "BADINPUT")
  | .list [.atom "gen", s, .list (.atom "draws" :: ds), tab] =>
    (match decSchema s, ds.mapM decDraw, decRxTab tab with
     | some s, some ds, some tab =>
       let env := mkEnv tab
       encExcept (fun (r : PyVal × Draws × List Req) =>
          .list [encVal r.1, .list (.atom "reqs" :: r.2.2.map encReq), encNat r.2.1.length])
         (runGen (gen env s) ds)
     | _, _, _ => .atom "BADINPUT")
  | .list [.atom "regen", .list (.atom "re" :: rs), .list (.atom "draws" :: ds)] =>
    (match rs.mapM decRe, ds.mapM decDraw with
     | some rs, some ds =>
       encExcept (fun (r : Str × Draws × List Req) =>
          .list [encNats "s" r.1, .list (.atom "reqs" :: r.2.2.map encReq), encNat r.2.1.length])
         (runGen (genSeq rs) ds)
     | _, _ => .atom "BADINPUT")
  | .list [.atom "subst", s, v, tab] =>
    (match decSchema s, decVal v, decRxTab tab with
     | some s, some v, some tab => encExcept encSchema (subst (mkEnv tab) s v)
     | _, _, _ => .atom "BADINPUT")
  | .list [.atom "fromnative", v] =>
    (match decVal v with
     | some v => encExcept encSchema (fromNative v)
     | _ => .atom "BADINPUT")
  | .list [.atom "echo-schema", s] =>
    (match decSchema s with | some s => encSchema s | none => .atom "BADINPUT")
  | .list [.atom "echo-value", v] =>
    (match decVal v with | some v => encVal v | none => .atom "BADINPUT")
  | .list [.atom "fl", q] =>
    (match decRat q with | some q => encFloat (flExec q) | none => .atom "BADINPUT")
  | _ => .atom "BADCMD"

partial def loop (h : IO.FS.Stream) (out : IO.FS.Stream) : IO Unit := do
  let line ← h.getLine
  if line.isEmpty then return ()
  let r := match Sexp.parse line with
    | some e => (handle e).toStr
    | none => "BADPARSE"
  out.putStrLn r
  loop h out

def main : IO Unit := do
  let i ← IO.getStdin
  let o ← IO.getStdout
  loop i o
  o.flush
