/-
  Line-protocol driver around the model: one S-expression per line in, one canonical line out.
-/
import D42.Model.Codec
import D42.Model.Validate
import D42.Model.Gen
import D42.Model.Subst
import D42.Model.Decl
import D42.Model.Repr
import D42.Model.Eq

open D42 D42.Sexp

/-- rx table shipped with each case: (pattern id, string, result of CPython's `re.search`). -/
def decRxTab : Sexp → Option (List (Nat × Str × Bool))
  | .list (.atom "rxtab" :: es) => es.mapM (fun e => match e with
      | .list [i, s, b] => do some ((← sxNat i), (← decStr s), (← decBool b))
      | _ => none)
  | _ => none

def decElemArg : Sexp → Option ElemArg
  | .atom "E" => some .ell
  | .atom "bad" => some .bad
  | .list [.atom "sch", s] => do some (.sch (← decSchema s))
  | _ => none

def decKeyArg : Sexp → Option KeyArg
  | .atom "E" => some .ell
  | .list [.atom "key", k, o] => do some (.key (← decKey k) (← decBool o))
  | _ => none

def decArg : Sexp → Option Arg
  | .atom "nil" => some .nil
  | .list [.atom "v", x] => do some (.v (← decVal x))
  | .list [.atom "sch", s] => do some (.sch (← decSchema s))
  | .list (.atom "elems" :: xs) => do some (.elems (← xs.mapM decElemArg))
  | .list (.atom "keys" :: kvs) => do
      some (.keys (← kvs.mapM (fun kv => match kv with
        | .list [k, v] => do some ((← decKeyArg k), (← decElemArg v))
        | _ => none)))
  | .list [.atom "pat", c, p, m] => do some (.pat (← decBool c) (← decPat p) (← decBool m))
  | _ => none

def decOp : Sexp → Option Op
  | .list [.atom "call", a] => do some (.call (← decArg a))
  | .list [.atom "min", a] => do some (.min (← decArg a))
  | .list [.atom "max", a] => do some (.max (← decArg a))
  | .list [.atom "precision", a] => do some (.precision (← decArg a))
  | .list [.atom "len", a, b] => do some (.len (← decArg a) (← decArg b))
  | .list [.atom "alphabet", a] => do some (.alphabet (← decArg a))
  | .list [.atom "contains", a] => do some (.contains (← decArg a))
  | .list [.atom "regex", a] => do some (.regex (← decArg a))
  | .list (.atom "anycall" :: as) => do some (.anyCall (← as.mapM decArg))
  | _ => none

def encTok : Tok → Sexp
  | .t s => .list (.atom "t" :: s.toList.map (fun c => .atom (toString c.toNat)))
  | .val v => .list [.atom "val", encVal v]
  | .key k => .list [.atom "key", encKey k]
  | .pat i => .list [.atom "pat", encNat i]
  | .name n => encNats "name" n

def mkEnv (tab : List (Nat × Str × Bool)) : Env :=
  { rxSearch := fun i s => match tab.find? (fun e => e.1 == i && e.2.1 == s) with
      | some e => e.2.2
      | none => false
    fl := flExec }

def encErrs (es : List Err) : Sexp := .list (.atom "errs" :: es.map encErr)

def encExcept {α} (f : α → Sexp) : Except PyExc α → Sexp
  | .ok a => .list [.atom "ok", f a]
  | .error e => .list [.atom "exc", encExc e]

def handle (e : Sexp) : Sexp :=
  match e with
  | .list [.atom "validate", sub, s, v, tab] =>
    (match decBool sub, decSchema s, decVal v, decRxTab tab with
     | some sub, some s, some v, some tab =>
       let env := mkEnv tab
       encExcept encErrs (validate env sub s v [])
     | _, _, _, _ => .atom "BADINPUT")
  | .list [.atom "gen", s, .list (.atom "draws" :: ds), tab] =>
    (match decSchema s, ds.mapM decDraw, decRxTab tab with
     | some s, some ds, some tab =>
       let env := mkEnv tab
       encExcept (fun (r : PyVal × Draws × List Req) =>
          .list [encVal r.1, .list (.atom "reqs" :: r.2.2.map encReq), encNat r.2.1.length])
         (runGen (gen env s) ds)
     | _, _, _ => .atom "BADINPUT")
  | .list [.atom "regen", .list (.atom "re" :: rs), .list (.atom "draws" :: ds)] =>
    (match rs.mapM decRe, ds.mapM decDraw with
     | some rs, some ds =>
       encExcept (fun (r : Str × Draws × List Req) =>
          .list [encNats "s" r.1, .list (.atom "reqs" :: r.2.2.map encReq), encNat r.2.1.length])
         (runGen (genSeq rs) ds)
     | _, _ => .atom "BADINPUT")
  | .list [.atom "subst", s, v, tab] =>
    (match decSchema s, decVal v, decRxTab tab with
     | some s, some v, some tab => encExcept encSchema (subst (mkEnv tab) s v)
     | _, _, _ => .atom "BADINPUT")
  | .list [.atom "fromnative", v] =>
    (match decVal v with
     | some v => encExcept encSchema (fromNative v)
     | _ => .atom "BADINPUT")
  | .list [.atom "decl", s, .list (.atom "ops" :: ops)] =>
    (match decSchema s, ops.mapM decOp with
     | some s, some ops => encExcept encSchema (Decl.run s ops)
     | _, _ => .atom "BADINPUT")
  | .list [.atom "union", a, b] =>
    (match decSchema a, decSchema b with
     | some a, some b => encSchema (a.union b)
     | _, _ => .atom "BADINPUT")
  | .list [.atom "add", a, b] =>
    (match decSchema a, decSchema b with
     | some a, some b => (match a.add b with | some r => .list [.atom "ok", encSchema r] | none => .list [.atom "exc", .atom "TypeError"])
     | _, _ => .atom "BADINPUT")
  | .list [.atom "makerequired", a, ks] =>
    (match decSchema a, (match ks with | .atom "_" => some none | .list (.atom "ks" :: l) => (l.mapM decKey).map some | _ => none) with
     | some a, some ks => encExcept encSchema (makeRequired a ks)
     | _, _ => .atom "BADINPUT")
  | .list [.atom "getitem", a, k] =>
    (match decSchema a, decKey k with
     | some a, some k => encExcept encSchema (getItem a k)
     | _, _ => .atom "BADINPUT")
  | .list [.atom "repr", s, ind] =>
    (match decSchema s, sxNat ind with
     | some s, some ind => .list (.atom "toks" :: (represent s ind).map encTok)
     | _, _ => .atom "BADINPUT")
  | .list [.atom "eq", a, b, tab] =>
    (match decSchema a, decSchema b, decRxTab tab with
     | some a, some b, some tab => encBool (pyEq (mkEnv tab) a b)
     | _, _, _ => .atom "BADINPUT")
  | .list [.atom "echo-schema", s] =>
    (match decSchema s with | some s => encSchema s | none => .atom "BADINPUT")
  | .list [.atom "echo-value", v] =>
    (match decVal v with | some v => encVal v | none => .atom "BADINPUT")
  | .list [.atom "fl", q] =>
    (match decRat q with | some q => encFloat (flExec q) | none => .atom "BADINPUT")
  | _ => .atom "BADCMD"

partial def loop (h : IO.FS.Stream) (out : IO.FS.Stream) : IO Unit := do
  let line ← h.getLine
  if line.isEmpty then return ()
  let r := match Sexp.parse line with
    | some e => (handle e).toStr
    | none => "BADPARSE"
  out.putStrLn r
  loop h out

def main : IO Unit := do
  let i ← IO.getStdin
  let o ← IO.getStdout
  loop i o
  o.flush
