"""Common setup: locate the repository under test and import the real d42 from it."""
import os
import sys

VERIF = os.path.dirname(os.path.dirname(os.path.abspath(__file__)))
REPO = os.environ.get("D42_REPO", "/repo")

if REPO not in sys.path:
    sys.path.insert(0, REPO)

# The real implementation, imported from REPO's current working tree.
import d42  # noqa: E402
import d42.generation  # noqa: E402

assert os.path.realpath(os.path.dirname(os.path.dirname(d42.__file__))) == os.path.realpath(REPO), \
    f"d42 imported from {d42.__file__}, expected under {REPO}"

RANDOM_MODULE = sys.modules["d42.generation._random"]


def safe_repr(x):
    """repr for DESCRIBING a case in evidence / replay files: a schema whose printing raises (printing is C06's business, and
    messages that embed it are C08 / C10 / C12's) is described by its class instead of stopping the run"""
    try:
        return repr(x)
    except Exception as e:  # noqa: BLE001
        return "<%s whose repr raises %s>" % (type(x).__name__, type(e).__name__)
