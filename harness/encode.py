"""Real d42 objects / Python values  ->  the model's wire format (S-expressions).

Trusted glue (DESIGN §2). `Unencodable` means the object is outside the modelled universe; callers
count and skip such cases, they never turn into verdicts.
"""
import datetime as _dt
import math
import sys
from decimal import Decimal
from fractions import Fraction
from uuid import UUID

from . import common  # noqa: F401
from niltype import Nil
from d42.declaration.types import (AnySchema, BoolSchema, BytesSchema, DateSchema, DateTimeSchema,
                                   DictSchema, FloatSchema, IntSchema, ListSchema, NoneSchema,
                                   StrSchema, TypeAliasSchema, UUID4Schema, GenericTypeAliasSchema)

if sys.version_info >= (3, 11):
    import re._parser as sre
    import re._constants as src
else:  # pragma: no cover
    import sre_parse as sre
    import sre_constants as src
import re


class Unencodable(Exception):
    pass


class Interner:
    """Per-case interning of atoms (uuid / datetime / date by ==, keys by hash, others by identity)
    and of regex patterns; collects every string seen so that the rx table can be computed."""

    def __init__(self):
        self.uuids, self.dts, self.ds = [], [], []
        self.others = []          # by identity
        self.okeys = {}           # hashable 'other' keys by ==
        self.patterns = []        # pattern strings
        self.strings = set()      # every python str seen in values

    def _by_eq(self, pool, x):
        for i, y in enumerate(pool):
            try:
                if y == x and type(y) is type(x):
                    return i
            except Exception:
                pass
        pool.append(x)
        return len(pool) - 1

    def uuid(self, u): return self._by_eq(self.uuids, u)
    def dt(self, d): return self._by_eq(self.dts, d)
    def d(self, d): return self._by_eq(self.ds, d)

    def other(self, o):
        for i, y in enumerate(self.others):
            if y is o:
                return i
        self.others.append(o)
        return len(self.others) - 1

    def okey(self, k):
        try:
            if k not in self.okeys:
                self.okeys[k] = len(self.okeys)
            return self.okeys[k]
        except Exception:
            raise Unencodable(f"key {k!r}")

    def pattern(self, p):
        if p not in self.patterns:
            self.patterns.append(p)
        return self.patterns.index(p)

    def rxtab(self, extra_strings=()):
        tab = ["rxtab"]
        for i, p in enumerate(self.patterns):
            for s in sorted(self.strings | set(extra_strings)):
                tab.append([i, enc_str(s), 1 if re.search(p, s) is not None else 0])
        return tab


def enc_str(s):
    return ["s"] + [ord(c) for c in s]


def enc_bytes(b):
    return ["y"] + list(b)


def enc_float(x):
    if x != x:
        return "nan"
    if x == math.inf:
        return "+inf"
    if x == -math.inf:
        return "-inf"
    if x == 0 and math.copysign(1.0, x) < 0:
        # the model's finite floats are exact rationals: it has one zero (outside the modelled universe; the oracles on
        # the real code still see -0.0)
        raise Unencodable("negative zero")
    fr = Fraction(x)
    return ["f", fr.numerator, fr.denominator]


def enc_q(fr):
    return ["q", fr.numerator, fr.denominator]


def enc_key(k, I):
    if type(k).__name__ == "optional" and type(k).__module__.startswith("d42."):
        # the DSL's own key marker used as DATA: outside the modelled universe (the oracles on the real code still see it)
        raise Unencodable("optional(...) key object as data")
    if k is None:
        return "N"
    if k is Ellipsis:
        return "E"
    if isinstance(k, bool):
        return ["i", int(k)]
    if isinstance(k, int):
        return ["i", int(k)]
    if isinstance(k, float):
        if k == k and math.isfinite(k) and k == int(k):
            return ["i", int(k)]
        return ["o", I.okey(k)]
    if isinstance(k, str):
        I.strings.add(str(k))
        return enc_str(k)
    if isinstance(k, bytes):
        return enc_bytes(k)
    return ["o", I.okey(k)]


def enc_value(v, I):
    if v is None:
        return "N"
    if v is Ellipsis:
        return "E"
    if isinstance(v, bool):
        return ["b", 1 if v else 0]
    if isinstance(v, int):
        return ["i", int(v)]
    if isinstance(v, float):
        return enc_float(float(v))
    if isinstance(v, str):
        I.strings.add(str(v))
        return enc_str(v)
    if isinstance(v, bytes):
        return enc_bytes(v)
    if isinstance(v, list):
        return ["l"] + [enc_value(x, I) for x in v]
    if isinstance(v, dict):
        return ["m"] + [[enc_key(k, I), enc_value(x, I)] for k, x in v.items()]
    if isinstance(v, UUID):
        ver = v.version
        return ["u", I.uuid(v), ver if isinstance(ver, int) else 0]
    if isinstance(v, _dt.datetime):
        return ["dt", I.dt(v)]
    if isinstance(v, _dt.date):
        return ["d", I.d(v)]
    return ["o", I.other(v)]


# ---------------------------------------------------------------------------------------------
# regex trees

_UNSUP = {}


def _unsup(name):
    name = str(name)
    if name not in _UNSUP:
        _UNSUP[name] = len(_UNSUP)
    return ["unsup", _UNSUP[name]]


def enc_re_items(items):
    return [enc_re(op, av) for op, av in items]


def enc_cls_item(op, av):
    if op == src.LITERAL:
        return ["lit", av]
    if op == src.RANGE:
        return ["range", av[0], av[1]]
    if op == src.CATEGORY:
        if av == src.CATEGORY_DIGIT:
            return "digit"
        if av == src.CATEGORY_WORD:
            return "word"
        return _unsup(av)
    return _unsup(op)


def enc_re(op, av):
    if op == src.ANY:
        return "any"
    if op == src.LITERAL:
        return ["lit", av]
    if op == src.NOT_LITERAL:
        return ["notlit", av]
    if op == src.IN:
        items = list(av)
        neg = 0
        if items and items[0][0] == src.NEGATE:
            neg = 1
            items = items[1:]
        return ["in", neg] + [enc_cls_item(o, a) for o, a in items]
    if op == src.SUBPATTERN:
        return ["sub"] + enc_re_items(av[3])
    if op in (src.MAX_REPEAT, src.MIN_REPEAT):
        mn, mx, sub = av
        return ["rep", mn, "inf" if mx == src.MAXREPEAT else mx] + enc_re_items(sub)
    if op == src.AT:
        return "at"
    if op == src.BRANCH:
        return ["branch"] + [enc_re_items(alt) for alt in av[1]]
    return _unsup(op)


def enc_pattern(p, I):
    try:
        tree = sre.parse(p)
    except Exception as e:  # declared patterns always compile
        raise Unencodable(f"pattern {p!r}: {e}")
    return ["rx", I.pattern(p)] + enc_re_items(tree)


# ---------------------------------------------------------------------------------------------
# schemas

def _get(props, name):
    v = props.get(name)
    return None if v is Nil else v


def _opt(v, f):
    return "_" if v is None else f(v)


def _int(v):
    if isinstance(v, bool) or isinstance(v, int):
        return int(v)
    raise Unencodable(f"int prop {v!r}")


def _flt(v):
    if isinstance(v, float):
        return enc_float(float(v))
    raise Unencodable(f"float prop {v!r}")


def _dec(v):
    """Decimal(repr(x)) as an exact rational — what Random.random_float scales (fix F8)."""
    if v is None or not isinstance(v, float) or not math.isfinite(v):
        return "_"
    return enc_q(Fraction(Decimal(repr(float(v)))))


def _lenp(p):
    return [_opt(_get(p, "len"), _int), _opt(_get(p, "min_len"), _int), _opt(_get(p, "max_len"), _int)]


CUSTOM_CLASSES = []   # forwarding custom schema classes registered by harness.custom


def enc_schema(s, I):
    """a schema object in a state no declaration can produce (a bytes schema pinned to an int, junk where a member schema
    should be …) is outside the modelled universe: Unencodable, never a crash of the harness"""
    try:
        return _enc_schema(s, I)
    except (Unencodable, RecursionError):
        raise
    except Exception as e:  # noqa: BLE001
        raise Unencodable("malformed schema object (%s: %s)" % (type(e).__name__, str(e)[:80]))


def _enc_schema(s, I):
    t = type(s)
    p = s.props
    if t in CUSTOM_CLASSES:
        return ["custom", enc_schema(p.get("inner"), I)]
    if t is NoneSchema:
        return ["none"]
    if t is BoolSchema:
        v = _get(p, "value")
        if v is not None and not isinstance(v, bool):
            raise Unencodable("bool value")
        return ["bool", _opt(v, lambda b: 1 if b else 0)]
    if t is IntSchema:
        return ["int", _opt(_get(p, "value"), _int), _opt(_get(p, "min"), _int), _opt(_get(p, "max"), _int)]
    if t is FloatSchema:
        mn, mx = _get(p, "min"), _get(p, "max")
        return ["float", _opt(_get(p, "value"), _flt), _opt(mn, _flt), _opt(mx, _flt),
                _opt(_get(p, "precision"), _int), _dec(mn), _dec(mx)]
    if t is StrSchema:
        def s_(x):
            if not isinstance(x, str):
                raise Unencodable("str prop")
            I.strings.add(str(x))
            return enc_str(x)
        return ["str", _opt(_get(p, "value"), s_)] + _lenp(p) + [
            _opt(_get(p, "alphabet"), s_), _opt(_get(p, "substr"), s_),
            _opt(_get(p, "pattern"), lambda x: enc_pattern(x, I))]
    if t is BytesSchema:
        return ["bytes", _opt(_get(p, "value"), enc_bytes)]
    if t is UUID4Schema:
        return ["uuid4", _opt(_get(p, "value"), lambda u: enc_value(u, I))]
    if t is DateTimeSchema:
        return ["datetime", _opt(_get(p, "value"), lambda u: enc_value(u, I))]
    if t is DateSchema:
        return ["date", _opt(_get(p, "value"), lambda u: enc_value(u, I))]
    if t is ListSchema:
        ty, els = _get(p, "type"), _get(p, "elements")
        if ty is not None and els is not None:
            raise Unencodable("list with type and elements")
        if ty is not None:
            return ["listT", enc_schema(ty, I)] + _lenp(p)
        if els is None:
            return ["listU"] + _lenp(p)
        els = list(els)
        n = len(els)
        lead = 1 if n >= 1 and els[0] is Ellipsis else 0
        trail = 1 if n >= 2 and els[-1] is Ellipsis else 0
        core = els[lead:n - trail]
        if any(x is Ellipsis for x in core):
            raise Unencodable("`...` inside an element list")
        return ["listE", lead, trail, [enc_schema(x, I) for x in core]] + _lenp(p)
    if t is DictSchema:
        keys = _get(p, "keys")
        if keys is None:
            return ["dict", "nil"]
        ell = "_"
        fs = []
        for pos, (k, (v, opt)) in enumerate(keys.items()):
            if k is Ellipsis:
                ell = pos
                continue
            if v is Ellipsis:
                raise Unencodable("`...` as a member schema")
            fs.append([enc_key(k, I), 1 if opt else 0, enc_schema(v, I)])
        return ["dict", ell] + fs
    if t is AnySchema:
        ts = _get(p, "types")
        if ts is None:
            return ["any", "_"]
        return ["any"] + [enc_schema(x, I) for x in ts]
    if t is TypeAliasSchema or isinstance(s, GenericTypeAliasSchema):
        name = _get(p, "name")
        return ["alias", _opt(name, lambda x: enc_str(str(x))), enc_schema(p.type, I)]
    raise Unencodable(f"schema class {t.__name__}")


# ---------------------------------------------------------------------------------------------
# validation errors of the real code -> canonical form (same shape as the model's `encErr`)

def enc_path(path, I):
    return ["p"] + [["k", enc_key(op.operand, I)] for op in path]


_TY = {type(None): "none", bool: "bool", int: "int", float: "float", str: "str", list: "list",
       dict: "dict", bytes: "bytes", UUID: "uuid", _dt.datetime: "datetime", _dt.date: "date"}


def enc_error(e, I):
    from d42.validation import errors as E
    n = type(e).__name__
    P, A = enc_path(e.path, I), enc_value(e.actual_value, I)
    if n == "TypeValidationError":
        return ["type", P, A, _TY.get(e.expected_type, "?")]
    if n == "ValueValidationError":
        return ["value", P, A, enc_value(e.expected_value, I)]
    if n == "MinValueValidationError":
        return ["min", P, A, enc_value(e.min_value, I)]
    if n == "MaxValueValidationError":
        return ["max", P, A, enc_value(e.max_value, I)]
    if n == "LengthValidationError":
        return ["len", P, A, e.length]
    if n == "MinLengthValidationError":
        return ["minlen", P, A, e.min_length]
    if n == "MaxLengthValidationError":
        return ["maxlen", P, A, e.max_length]
    if n == "AlphabetValidationError":
        return ["alphabet", P, A, enc_str(e.alphabet)]
    if n == "SubstrValidationError":
        return ["substr", P, A, enc_str(e.substr)]
    if n == "RegexValidationError":
        return ["regex", P, A, I.pattern(e.pattern)]
    if n == "MissingElementValidationError":
        return ["missingelem", P, A, e.index]
    if n == "ExtraElementValidationError":
        return ["extraelem", P, A, e.index]
    if n == "MissingKeyValidationError":
        return ["missingkey", P, A, enc_key(e.missing_key, I)]
    if n == "ExtraKeyValidationError":
        return ["extrakey", P, A, enc_key(e.extra_key, I)]
    if n == "SchemaMismatchValidationError":
        return ["mismatch", P, A, [enc_schema(x, I) for x in e.expected_schemas]]
    if n == "InvalidUUIDVersionValidationError":
        av = e.actual_version
        return ["uuidversion", P, A, av if isinstance(av, int) else 0]
    raise Unencodable(n)


def canon_model_path(p):
    """model paths distinguish list indices `(i n)` from dict keys `(k K)`; the real PathHolder
    does not. Map `(i n)` to `(k (i n))`."""
    out = ["p"]
    for st in p[1:]:
        if st[0] == "i":
            out.append(["k", ["i", st[1]]])
        else:
            out.append(st)
    return out


def canon_param(e):
    """`True == 1`: a bool parameter of a value/min/max error is compared as the int it equals
    (schema.int(True) keeps the bool object in props; the model stores the int)."""
    if e[0] in ("value", "min", "max") and isinstance(e[3], list) and len(e[3]) == 2 and e[3][0] == "b":
        e = list(e)
        e[3] = ["i", e[3][1]]
    return e


def canon_model_err(e):
    e = list(e)
    e[1] = canon_model_path(e[1])
    return canon_param(e)


def tostr(x):
    """normalise a python-side sexp (ints etc.) to the all-strings form that `sexp.loads` yields"""
    if isinstance(x, (list, tuple)):
        return [tostr(y) for y in x]
    return str(x)


# ---------------------------------------------------------------------------------------------
# decoding model output back to python objects (repr holes, generated values)

def dec_value(e, I):
    from fractions import Fraction as Fr
    if e == "N":
        return None
    if e == "E":
        return Ellipsis
    if e == "nan":
        return float("nan")
    if e == "+inf":
        return float("inf")
    if e == "-inf":
        return float("-inf")
    t = e[0]
    if t == "b":
        return e[1] == "1"
    if t == "i":
        return int(e[1])
    if t == "f":
        return float(Fr(int(e[1]), int(e[2])))
    if t == "s":
        return "".join(chr(int(c)) for c in e[1:])
    if t == "y":
        return bytes(int(c) for c in e[1:])
    if t == "u":
        return I.uuids[int(e[1])]
    if t == "dt":
        return I.dts[int(e[1])]
    if t == "d":
        return I.ds[int(e[1])]
    if t == "o":
        return I.others[int(e[1])]
    if t == "l":
        return [dec_value(x, I) for x in e[1:]]
    if t == "m":
        return {dec_key(k, I): dec_value(v, I) for k, v in e[1:]}
    raise ValueError(e)


def dec_key(e, I):
    if e == "N":
        return None
    if e == "E":
        return Ellipsis
    t = e[0]
    if t == "s":
        return "".join(chr(int(c)) for c in e[1:])
    if t == "y":
        return bytes(int(c) for c in e[1:])
    if t == "i":
        return int(e[1])
    if t == "o":
        for k, i in I.okeys.items():
            if i == int(e[1]):
                return k
    raise ValueError(e)


def render_toks(toks, I):
    out = []
    for t in toks[1:]:
        k = t[0]
        if k == "t":
            out.append("".join(chr(int(c)) for c in t[1:]))
        elif k == "val":
            out.append(repr(dec_value(t[1], I)))
        elif k == "key":
            out.append(repr(dec_key(t[1], I)))
        elif k == "pat":
            out.append(repr(I.patterns[int(t[1])]))
        elif k == "name":
            out.append("".join(chr(int(c)) for c in t[1:]))
    return "".join(out)


def strip_dec(e):
    """float schemas modulo the decimal companions of min/max (recomputed by the encoder)"""
    if isinstance(e, list):
        if len(e) == 7 and e[0] == "float":
            return [strip_dec(x) for x in e[:5]] + ["_", "_"]
        return [strip_dec(x) for x in e]
    return e
