"""Known findings: class predicates (is this search hit an instance of a listed finding?) and
witness replays (does the listed witness still fail on the real code?).

Each `class_<name>(v)` receives the violation record (a dict produced by an oracle: 'what', and
oracle-specific fields, most importantly the python objects under 'schema'/'value' …) and must be
narrow: a different violation of the same property is not suppressed.
Each `witness_<name>()` re-runs the listed witness on the real code and returns True iff it still fails.
"""
import math

from . import common  # noqa: F401
from niltype import Nil


def replay_witness(fd):
    fn = globals().get("witness_" + fd["class"])
    if fn is None:
        return True
    try:
        return bool(fn())
    except Exception:
        return True


def _walk(s):
    """all sub-schemas of a real schema object"""
    from d42.declaration.types import Schema
    out = []

    def rec(x):
        if not isinstance(x, Schema):
            return
        out.append(x)
        for name in x.props:
            v = x.props.get(name)
            if isinstance(v, Schema):
                rec(v)
            elif isinstance(v, (list, tuple)):
                for y in v:
                    rec(y)
            elif isinstance(v, dict):
                for y in v.values():
                    if isinstance(y, tuple):
                        rec(y[0])
                    else:
                        rec(y)
    rec(s)
    return out


def _has_nan_float_value(s):
    from d42.declaration.types import FloatSchema
    for x in _walk(s):
        if isinstance(x, FloatSchema):
            v = x.props.get("value")
            if isinstance(v, float) and v != v:
                return True
    return False
