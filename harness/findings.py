"""Known findings: class predicates (is this search hit an instance of a listed finding?) and
witness replays (does the listed witness still fail on the real code?).

Each `class_<name>(v)` receives the violation record (a dict produced by an oracle: 'what', and
oracle-specific fields, most importantly the python objects under 'schema'/'value' …) and must be
narrow: a different violation of the same property is not suppressed.
Each `witness_<name>()` re-runs the listed witness on the real code and returns True iff it still fails.
"""
import math

from . import common  # noqa: F401
from niltype import Nil


def replay_witness(fd):
    fn = globals().get("witness_" + fd["class"])
    if fn is None:
        return True
    try:
        return bool(fn())
    except Exception:
        return True


def _walk(s):
    """all sub-schemas of a real schema object"""
    from d42.declaration.types import Schema
    out = []

    def rec(x):
        if not isinstance(x, Schema):
            return
        out.append(x)
        for name in x.props:
            v = x.props.get(name)
            if isinstance(v, Schema):
                rec(v)
            elif isinstance(v, (list, tuple)):
                for y in v:
                    rec(y)
            elif isinstance(v, dict):
                for y in v.values():
                    if isinstance(y, tuple):
                        rec(y[0])
                    else:
                        rec(y)
    rec(s)
    return out


def _has_nan_float_value(s):
    from d42.declaration.types import FloatSchema
    for x in _walk(s):
        if isinstance(x, FloatSchema):
            v = x.props.get("value")
            if isinstance(v, float) and v != v:
                return True
    return False


# ---------------------------------------------------------------------------------------------
# C01 classes

def _subs(v):
    return _walk(v["py_schema"]) if "py_schema" in v else []


def _num(x, default):
    return default if x is Nil else x


def obviously_unsat(s):
    """cheap sufficient test that a schema accepts nothing"""
    from d42.declaration.types import FloatSchema, IntSchema, ListSchema, StrSchema
    p = s.props
    if isinstance(s, (IntSchema, FloatSchema)):
        mn, mx, val = p.get("min"), p.get("max"), p.get("value")
        if mn is not Nil and mx is not Nil and not (mn <= mx):
            return True
        if isinstance(s, FloatSchema):
            for b in (mn, mx):
                if isinstance(b, float) and b != b:
                    return True
            if isinstance(val, float) and val != val:
                return True
        return False
    if isinstance(s, (StrSchema, ListSchema)):
        ln, mn, mx = p.get("len"), p.get("min_len"), p.get("max_len")
        if ln is not Nil and ln < 0:
            return True
        if mx is not Nil and mx < 0:
            return True
        if mn is not Nil and mx is not Nil and mn > mx:
            return True
        if isinstance(s, StrSchema):
            al, sub = p.get("alphabet"), p.get("substr")
            if al is not Nil and sub is not Nil and any(c not in al for c in sub):
                return True
            need = len(sub) if sub is not Nil else 0
            if ln is not Nil and ln < need:
                return True
            if mx is not Nil and mx < need:
                return True
            if al == "" and ((ln is not Nil and ln > 0) or (mn is not Nil and mn > 0)):
                return True
    return False


def class_K2_ellipsis_list_exact_len(v):
    from d42.declaration.types import ListSchema
    for s in _subs(v):
        if isinstance(s, ListSchema):
            els, ln = s.props.get("elements"), s.props.get("len")
            if els is not Nil and ln is not Nil and any(x is Ellipsis for x in els):
                if ln > sum(1 for x in els if x is not Ellipsis):
                    return True
    return False


def witness_K2_ellipsis_list_exact_len():
    from d42 import fake, schema, validate
    s = schema.list([schema.int, ...]).len(3)
    return validate(s, [1, 2, 3]).has_errors() is False and validate(s, fake(s)).has_errors()


def class_K3_empty_alphabet(v):
    from d42.declaration.types import StrSchema
    return any(isinstance(s, StrSchema) and s.props.get("alphabet") == "" for s in _subs(v))


def witness_K3_empty_alphabet():
    from d42 import schema, validate
    from . import scripted_random as SR
    s = schema.str.alphabet("")
    (k, val), _ = SR.generate(s, SR.make_policy("hi", None))
    return (not validate(s, "").has_errors()) and k == "exc"


def class_K4_dead_alternative(v):
    return any(obviously_unsat(s) for s in _subs(v))


def witness_K4_dead_alternative():
    from d42 import schema, validate
    from . import scripted_random as SR
    s = schema.any(schema.int.min(5).max(3), schema.str("x"))
    (k, val), _ = SR.generate(s, SR.make_policy("lo", None))
    return (not validate(s, "x").has_errors()) and k == "exc"


def _float_bounds(s):
    from d42.generation._consts import FLOAT_MAX, FLOAT_MIN
    mn, mx = s.props.get("min"), s.props.get("max")
    lo = FLOAT_MIN if mn is Nil else mn
    hi = FLOAT_MAX if mx is Nil else mx
    return lo, hi


def class_K5_float_span_overflow(v):
    from d42.declaration.types import FloatSchema
    for s in _subs(v):
        if isinstance(s, FloatSchema) and s.props.get("value") is Nil and s.props.get("precision") is Nil:
            lo, hi = _float_bounds(s)
            if isinstance(lo, float) and isinstance(hi, float) and not math.isfinite(hi - lo):
                return True
    return False


def witness_K5_float_span_overflow():
    from d42 import schema, validate
    from . import scripted_random as SR
    s = schema.float.min(-1.5e308).max(1.5e308)
    with SR.scripted(SR.make_policy("lo", None)) as m:
        pass
    import random
    a, b = -1.5e308, 1.5e308
    r = a + (b - a) * 0.5      # what random.uniform computes
    return (not math.isfinite(r)) and validate(s, r).has_errors()


def class_K11_no_grid_point(v):
    from decimal import Decimal
    from d42.declaration.types import FloatSchema
    for s in _subs(v):
        if isinstance(s, FloatSchema) and s.props.get("value") is Nil and s.props.get("precision") is not Nil:
            lo, hi = _float_bounds(s)
            if not (math.isfinite(lo) and math.isfinite(hi)) or lo > hi:
                continue
            sc = 10 ** s.props.get("precision")
            if math.ceil(Decimal(repr(float(lo))) * sc) > math.floor(Decimal(repr(float(hi))) * sc):
                return True
    return False


def witness_K11_no_grid_point():
    from d42 import schema, validate
    from . import scripted_random as SR
    s = schema.float.min(0.11).max(0.19).precision(1)
    (k, val), _ = SR.generate(s, SR.make_policy("lo", None))
    return (not validate(s, 0.15).has_errors()) and k == "exc"


# ---------------------------------------------------------------------------------------------
# C17

def pattern_has_negation(p):
    import sys
    try:
        import re._parser as sre
        import re._constants as src
    except ImportError:  # pragma: no cover
        import sre_parse as sre
        import sre_constants as src

    def walk(items):
        for op, av in items:
            if op == src.NOT_LITERAL:
                return True
            if op == src.IN and av and av[0][0] == src.NEGATE:
                return True
            if op == src.SUBPATTERN and walk(av[3]):
                return True
            if op in (src.MAX_REPEAT, src.MIN_REPEAT) and walk(av[2]):
                return True
            if op == src.BRANCH and any(walk(a) for a in av[1]):
                return True
        return False
    try:
        return walk(sre.parse(p))
    except Exception:
        return False


def has_negated_class(s):
    from d42.declaration.types import StrSchema
    for x in _walk(s):
        if isinstance(x, StrSchema):
            p = x.props.get("pattern")
            if p is not Nil and x.props.get("value") is Nil and pattern_has_negation(p):
                return True
    return False


def class_K1_negated_class_order(v):
    return bool(v.get("negated_class"))


def witness_K1_negated_class_order():
    import os
    import subprocess
    import sys
    from .common import REPO
    code = ("import sys; sys.path.insert(0, %r); from d42 import fake, schema; from d42.generation import Random; "
            "Random().set_seed(7); print(fake(schema.str.regex('[^a]{6}')))" % REPO)
    outs = set()
    for hs in ("1", "2", "3"):
        env = dict(os.environ, PYTHONHASHSEED=hs)
        outs.add(subprocess.run([sys.executable, "-c", code], env=env, stdout=subprocess.PIPE).stdout)
    return len(outs) > 1


# ---------------------------------------------------------------------------------------------
# K6: NaN as a fixed float value (one entry per property, same root cause)

def class_K6_nan_fixed_value(v):
    for key in ("py_schema", "py_result", "py_a", "py_b"):
        s = v.get(key)
        if s is not None:
            try:
                if _has_nan_float_value(s):
                    return True
            except Exception:
                pass
    return False


def witness_K6_nan_fixed_value():
    from d42 import schema, validate
    s = schema.float(float("nan"))
    return validate(s, s.props.value).has_errors() and not (s == s)


# ---------------------------------------------------------------------------------------------
# C15: K8

def class_K8_universal_at_edge(v):
    from .props.C15 import universal_at_edge
    for key in ("py_a", "py_b"):
        s = v.get(key)
        if s is not None and universal_at_edge(s):
            return True
    return False


def witness_K8_universal_at_edge():
    from d42 import schema, validate
    a, b = schema.list([schema.any, ...]), schema.list([schema.any, schema.any])
    return (a == b) and (validate(a, [1]).has_errors() != validate(b, [1]).has_errors())


# ---------------------------------------------------------------------------------------------
# C18: K9

def class_K9_separator_overlap(v):
    return bool(v.get("sep_unsafe")) and len(v.get("separator", "")) > 1


def witness_K9_separator_overlap():
    from d42.utils import rollout
    return rollout({"x:::y": 1}, separator="::") != {"x:": {"y": 1}}


# ---------------------------------------------------------------------------------------------
# C05: K7 (float re-substitution re-centres the tolerance window); C04: K12 (contains-list window)

def class_K7_float_revalue(v):
    """the ORIGINAL schema has a float with a fixed value at a position where the substituted value is a float
    that differs from it"""
    from d42.declaration.types import FloatSchema
    s = v.get("py_schema")
    if s is None:
        return False
    for x in _walk(s):
        if isinstance(x, FloatSchema) and x.props.get("value") is not Nil:
            return True
    return False


def witness_K7_float_revalue():
    from d42 import schema, substitute, validate
    s = schema.float(1.0)
    r = substitute(s, 1.0000000009)
    w = 1.0000000018
    return (not validate(r, w).has_errors()) and validate(s, w).has_errors()


def class_K12_contains_partial_window(v):
    """S % v rejects v: S has a `[..., x, ...]` element list whose body holds a dict schema (a partial dict may be
    substituted in an earlier window than the one that made v conform)"""
    from d42.declaration.types import DictSchema, ListSchema
    if "rejects v although v conforms" not in v.get("what", ""):
        return False
    s = v.get("py_schema")
    if s is None:
        return False
    for x in _walk(s):
        if isinstance(x, ListSchema):
            els = x.props.get("elements")
            if els is not Nil and len(els) > 2 and els[0] is Ellipsis and els[-1] is Ellipsis:
                if any(isinstance(y, DictSchema) for e in els[1:-1] for y in _walk(e)):
                    return True
    return False


def witness_K12_contains_partial_window():
    from d42 import schema, substitute, validate
    s = schema.list([..., schema.dict({"a": schema.int, "b": schema.int}), ...])
    v = [{"a": 1}, {"a": 1, "b": 2}]
    return (not validate(s, v).has_errors()) and validate(substitute(s, v), v).has_errors()


def class_K13_open_dict_alternative(v):
    """S % v rejects v: S has an `any` one of whose alternatives is a dict with declared keys AND `...: ...`
    (substitution refuses undeclared keys there, drops that alternative and pins another that only matched partially)"""
    from d42.declaration.types import AnySchema, DictSchema
    if "rejects v although v conforms" not in v.get("what", ""):
        return False
    s = v.get("py_schema")
    if s is None:
        return False
    for x in _walk(s):
        if isinstance(x, AnySchema):
            ts = x.props.get("types")
            if ts is not Nil:
                for t in ts:
                    for y in _walk(t):
                        if isinstance(y, DictSchema):
                            keys = y.props.get("keys")
                            if keys is not Nil and len(keys) > 1 and any(k is Ellipsis for k in keys):
                                return True
    return False


def witness_K13_open_dict_alternative():
    from d42 import schema, substitute, validate
    s = schema.any(schema.dict({"a": schema.int, ...: ...}), schema.dict({"a": schema.int, "b": schema.int, "c": schema.int}))
    v = {"a": 1, "c": 2}
    return (not validate(s, v).has_errors()) and validate(substitute(s, v), v).has_errors()


# ---------------------------------------------------------------------------------------------
# K19 (C17): a NaN seed — CPython hashes a float NaN by object identity since 3.10, random.seed(nan) inherits that

def class_K19_nan_seed(v):
    return v.get("seed") == "nan"


def witness_K19_nan_seed():
    import os
    import subprocess
    import sys
    from .common import REPO
    code = ("import sys; sys.path.insert(0, %r); from d42 import fake, schema; from d42.generation import Random; "
            "Random().set_seed(float('nan')); print(fake(schema.int))" % REPO)
    outs = set()
    for hs in ("1", "2", "3", "4"):
        env = dict(os.environ, PYTHONHASHSEED=hs)
        outs.add(subprocess.run([sys.executable, "-c", code], env=env, stdout=subprocess.PIPE).stdout)
    return len(outs) > 1


# ---------------------------------------------------------------------------------------------
# K15 (C08 C10 C11): an int with more digits than sys.get_int_max_str_digits() cannot be rendered into a message

def _digit_limit():
    import sys
    return getattr(sys, "get_int_max_str_digits", lambda: 0)() or 10 ** 9


def class_K15_int_str_digit_limit(v):
    return (int(v.get("huge_int_digits") or 0) > _digit_limit() and "ValueError" in str(v.get("exception", ""))
            and "xceeds the limit" in str(v.get("exception", "")))


def witness_K15_int_str_digit_limit():
    from d42 import schema, validate_or_fail
    from d42.declaration.errors import DeclarationError
    H = 10 ** 5000
    hits = 0
    try:
        validate_or_fail(schema.str, H)
    except ValueError:
        hits += 1
    except Exception:
        pass
    try:
        schema.int(H)(1)
    except DeclarationError:
        pass
    except ValueError:
        hits += 1
    return hits > 0


# ---------------------------------------------------------------------------------------------
# K16 (C10 C12 C14): input nested deeper than the interpreter's recursion limit

def class_K16_recursion_limit(v):
    return int(v.get("nesting_depth") or 0) >= 900 and "RecursionError" in str(v.get("exception", ""))


def witness_K16_recursion_limit():
    from d42 import schema
    try:
        schema.str.regex("(" * 5000 + ")" * 5000)
    except RecursionError:
        return True
    except Exception:
        return False
    return False


# ---------------------------------------------------------------------------------------------
# K18 (C03): a dict key hashed by identity, two or more levels down — the path holds deep COPIES of the keys

def class_K18_identity_key_path(v):
    return bool(v.get("identity_hashed_key_depth2")) and "KeyError" in str(v.get("what", ""))


def witness_K18_identity_key_path():
    from d42 import schema, validate

    class K:
        pass
    k = K()
    value = {k: {"a": "x"}}
    errs = validate(schema.dict({k: schema.dict({"a": schema.int})}), value).get_errors()
    cur = value
    try:
        for op in errs[0].path:
            cur = op(cur)
    except KeyError:
        return True
    return False


# ---------------------------------------------------------------------------------------------
# K14 (C16): a forwarding custom type around a UNION, placed as an alternative of a union, is not flattened

def class_K14_custom_union_not_flattened(v):
    return bool(v.get("wrapped_union_alternative_unflattened"))


def witness_K14_custom_union_not_flattened():
    from d42 import schema
    from . import custom
    u = schema.any(schema.int, schema.str)
    return repr(schema.any(custom.wrap(u), schema.none)) != repr(schema.any(u, schema.none))
