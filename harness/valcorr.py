"""Correspondence on the validator view, shared by the validator-family properties.

A case is (schema, value). The real `validate` (or the substitution validator) runs in-process; the
model runs the same case through the driver; the canonical error lists are compared as multisets
(or only the verdict, per view)."""
from . import encode, model, sexp
from .common import d42  # noqa: F401
from d42 import validate


class ValCase:
    __slots__ = ("schema", "value", "tag", "real", "real_exc", "req", "I", "skip")

    def __init__(self, schema, value, tag=""):
        self.schema, self.value, self.tag = schema, value, tag
        self.real = None
        self.real_exc = None
        self.req = None
        self.skip = None


def run_real(case, sub=False):
    try:
        if sub:
            from d42.substitution import SubstitutorValidator
            res = case.schema.__accept__(SubstitutorValidator(), value=case.value)
        else:
            res = validate(case.schema, case.value)
        case.real = list(res.get_errors())
    except Exception as e:  # noqa: BLE001
        case.real_exc = e


def prepare(case, sub=False):
    I = encode.Interner()
    case.I = I
    if case.tag == "touchy":
        case.skip = "a member whose special methods raise is outside the modelled universe"
        return
    try:
        es = encode.enc_schema(case.schema, I)
        ev = encode.enc_value(case.value, I)
        # errors may mention strings already in I; table covers every pattern × string of the case
        case.req = ["validate", 1 if sub else 0, es, ev, I.rxtab()]
    except encode.Unencodable as e:
        case.skip = str(e)
    except RecursionError:
        case.skip = "recursion"
    except Exception as e:  # noqa: BLE001  (a value whose own special methods raise: outside the modelled universe)
        case.skip = "encoding raised " + type(e).__name__


def key_of(err):
    return sexp.dumps(err)


def compare(cases, ctx, view="errors", sub=False):
    """runs model on all prepared cases; returns list of (case, detail) disagreements"""
    todo = [c for c in cases if c.req is not None]
    res = model.run_batch([c.req for c in todo])
    out = []
    for c, r in zip(todo, res):
        ctx.count("corr_cases")
        if isinstance(r, str):
            out.append((c, f"model driver answered {r}"))
            continue
        if c.real_exc is not None:
            if r[0] == "exc" and r[1] == type(c.real_exc).__name__:
                ctx.count("corr_both_raise")
                continue
            out.append((c, f"real raised {type(c.real_exc).__name__}, model {sexp.dumps(r)[:200]}"))
            continue
        if r[0] != "ok":
            out.append((c, f"model raised {sexp.dumps(r)}, real returned {len(c.real)} errors"))
            continue
        try:
            real = sorted(key_of(encode.canon_param(encode.tostr(encode.enc_error(e, c.I)))) for e in c.real)
        except encode.Unencodable as e:
            ctx.count("corr_unencodable_error")
            continue
        got = sorted(key_of(encode.canon_model_err(e)) for e in r[1][1:])
        if view == "verdict":
            if (len(real) == 0) != (len(got) == 0):
                out.append((c, f"verdict differs: real {len(real)} errors, model {len(got)}"))
        else:
            if real != got:
                out.append((c, f"errors differ:\n real  {real}\n model {got}"))
        if len(real) == 0:
            ctx.count("corr_clean_verdicts")
        else:
            ctx.count("corr_error_verdicts")
            for e in c.real:
                ctx.count("errkind:" + type(e).__name__.replace("ValidationError", ""))
    return out
