"""The skeleton every property check shares (DESIGN §1.1):
translate -> prove (lake build + audit) -> correspond -> search -> verdict + evidence."""
import importlib
import json
import os
import random
import sys
import time
import traceback

from . import lake
from .common import REPO, VERIF

EVIDENCE_DIR = os.path.join(VERIF, "evidence")
REPLAY_DIR = os.path.join(VERIF, "replays")
FINDINGS_FILE = os.path.join(VERIF, "known_findings.json")


def _safe(x):
    from .common import safe_repr
    return safe_repr(x)


def jsonable(x):
    try:
        json.dumps(x)
        return x
    except Exception:
        if isinstance(x, dict):
            return {str(k): jsonable(v) for k, v in x.items()}
        if isinstance(x, (list, tuple)):
            return [jsonable(v) for v in x]
        from .common import safe_repr
        return safe_repr(x)


class Ctx:
    def __init__(self, prop, tier, seed):
        self.prop, self.tier, self.seed = prop, tier, seed
        self.rnd = random.Random(seed * 1000003 + sum(map(ord, prop)))
        self.t0 = time.time()
        self.violations = []        # failing inputs on the REAL code (dicts with 'what', 'input', ...)
        self.known_hits = {}        # finding id -> count of search hits suppressed by it
        self.broken = []            # proof / translation / correspondence breakages
        self.cov = {}               # coverage counters for the evidence
        self.samples = []
        self.assumptions = []
        self.obligations = []       # (name, discharged: bool, detail)
        self.notes = []
        self.distinct = set()
        self.evaluations = 0
        self.findings = load_findings()

    # -- bookkeeping ---------------------------------------------------------------------
    def count(self, key, n=1):
        self.cov[key] = self.cov.get(key, 0) + n

    def sample(self, x, limit=6):
        if len(self.samples) < limit:
            self.samples.append(jsonable(x))

    def case(self, fingerprint, nontrivial=True):
        self.evaluations += 1
        if nontrivial:
            self.distinct.add(fingerprint if isinstance(fingerprint, (str, int)) else repr(fingerprint))

    def violation(self, what, **info):
        """an input on which the REAL code breaks the property"""
        v = {"what": what}
        v.update(info)
        fid = match_finding(self, v)
        if fid is not None:
            self.known_hits[fid] = self.known_hits.get(fid, 0) + 1
            return False
        if len(self.violations) < 20:
            self.violations.append(jsonable(v))
        else:
            self.count("violations_not_recorded")
        return True

    def breakage(self, kind, what, **info):
        """kind: 'proof' | 'audit' | 'translation' | 'correspondence'"""
        b = {"kind": kind, "what": what}
        b.update(info)
        if len(self.broken) < 20:
            self.broken.append(jsonable(b))

    def obligation(self, name, ok, detail=""):
        self.obligations.append((name, bool(ok), detail))

    def quick(self):
        return self.tier == "quick"

    def n(self, quick, thorough):
        return quick if self.tier == "quick" else thorough


def load_findings():
    try:
        return json.load(open(FINDINGS_FILE))
    except FileNotFoundError:
        return []


def match_finding(ctx, v):
    from . import findings as F
    for f in ctx.findings:
        if f.get("status") != "finding" or f.get("property") != ctx.prop:
            continue
        pred = getattr(F, "class_" + f["class"], None)
        if pred is None:
            continue
        try:
            if pred(v):
                return f["id"]
        except Exception:
            continue
    return None


def prove(ctx, module, theorems, files):
    """lake build the property's module and the driver, audit axioms, grep for escapes."""
    # the generated parts of the model always reflect the tree under test NOW (a file left behind by a run against another
    # tree must never be built against); a translator that cannot read the source leaves its file as it is — the properties
    # that depend on it run it themselves and report that. Regenerating, building and copying the driver is one critical
    # section.
    with lake.Lock():
        for name in ("extract_consts", "extract_guards", "extract_migration", "extract_validator", "extract_representor", "extract_substitutor", "extract_effects", "extract_entropy", "extract_generator"):
            try:
                import importlib
                importlib.import_module("harness." + name).run()
            except Exception as e:  # noqa: BLE001
                ctx.count("translator_failed:" + name)
                ctx.notes.append(f"{name} failed: {type(e).__name__}: {e}")
        from . import pins
        for f, diff in pins.check(ctx.prop):
            ctx.obligation("source-pin:" + f, False, "the file is not the text the hand model was last compared with")
            ctx.breakage("translation", "an anchor file of this property is no longer the source text the hand-written model was "
                         "last validated against (comments / layout / docstrings aside): " + f, diff=diff)
        ok, out, dt = lake.build([module, "d42model"])
        ax_result = lake.audit(module, theorems, ctx.prop) if ok else None
    ctx.cov["lake_build_s"] = round(dt, 2)
    if not ok:
        tail = "\n".join(l for l in out.splitlines() if "error" in l.lower())[:3000]
        ctx.breakage("proof", f"lake build {module} failed", log=tail or out[-3000:])
        for t in theorems:
            ctx.obligation(t, False, "build failed")
        return False
    hits = lake.grep_forbidden(files)
    if hits:
        ctx.breakage("audit", "forbidden construct in Lean sources", hits=hits[:10])
    ax, raw = ax_result
    good = True
    for t in theorems:
        a = ax.get(t)
        if a is None:
            ctx.obligation(t, False, "theorem not found by #print axioms")
            ctx.breakage("audit", f"theorem {t} missing", log=raw[-1500:])
            good = False
        elif not a <= lake.ALLOWED_AXIOMS:
            ctx.obligation(t, False, f"axioms {sorted(a)}")
            ctx.breakage("audit", f"theorem {t} depends on {sorted(a - lake.ALLOWED_AXIOMS)}")
            good = False
        else:
            ctx.obligation(t, not hits, "axioms: " + (", ".join(sorted(a)) or "none"))
    if ctx.tier == "thorough":
        ok2, out2 = lake.leanchecker([module])
        ctx.cov["leanchecker"] = "ok" if ok2 else "FAILED"
        if not ok2:
            ctx.breakage("audit", "leanchecker rejected " + module, log=out2[-2000:])
            good = False
    return good and not hits


def finish(ctx, level="proof", checker_cmd="lake build + #print axioms", trusted=None, rule=""):
    """write evidence, replay, print verdict lines, return exit code"""
    os.makedirs(EVIDENCE_DIR, exist_ok=True)
    wall = time.time() - ctx.t0
    exit_code = 0
    replay_path = None
    try:
        from . import valcases
        for k, v in valcases.CORPUS_STATS.items():
            ctx.cov[k] = ctx.cov.get(k, 0) + v
    except Exception:  # noqa: BLE001
        pass
    if ctx.violations or ctx.broken:
        os.makedirs(REPLAY_DIR, exist_ok=True)
        replay_path = os.path.join(REPLAY_DIR, f"{ctx.prop}-{ctx.tier}-{ctx.seed}.json")
        with open(replay_path, "w") as f:
            json.dump({"property": ctx.prop, "tier": ctx.tier, "seed": ctx.seed, "repo": REPO,
                       "failing_inputs_on_real_code": ctx.violations,
                       "broken_obligations_or_correspondence": ctx.broken,
                       "how_to_rerun": f"cd {VERIF} && VERIF_SEED={ctx.seed} ./check {ctx.prop} --tier {ctx.tier}",
                       "replay_one": f"cd {VERIF} && ./check {ctx.prop} --replay {replay_path}"},
                      f, indent=1, default=_safe)
        exit_code = 1
    n_obl = len(ctx.obligations)
    n_dis = sum(1 for o in ctx.obligations if o[1])
    cov = dict(ctx.cov)
    cov.update({
        "obligations": n_obl, "discharged": n_dis,
        "obligation_list": [{"name": a, "discharged": b, "detail": c} for a, b, c in ctx.obligations],
        "checker_cmd": checker_cmd,
        "trusted_base": trusted or [],
        "evaluations": ctx.evaluations,
        "distinct_nontrivial": len(ctx.distinct),
        "rule": rule,
        "samples": ctx.samples or ["(none)"],
        "known_finding_hits": ctx.known_hits,
        "notes": ctx.notes,
    })
    ev = {"property_id": ctx.prop, "tier": ctx.tier, "seed": ctx.seed, "level": level, "coverage": cov,
          "assumptions": ctx.assumptions, "wall_s": round(wall, 2),
          "violations": len(ctx.violations) + (1 if (ctx.broken and not ctx.violations) else 0)}
    with open(os.path.join(EVIDENCE_DIR, f"{ctx.prop}.json"), "w") as f:
        json.dump(jsonable(ev), f, indent=1)
    # known findings whose witness still fails on the real code
    from . import findings as F
    for fd in ctx.findings:
        if fd.get("property") == ctx.prop and fd.get("status") == "finding":
            still = F.replay_witness(fd)
            if still:
                print(f"KNOWN-FINDING: property={ctx.prop} {fd['id']} {fd['what']}")
            else:
                ctx.notes.append(f"finding {fd['id']} no longer reproduces")
                print(f"note: finding {fd['id']} no longer reproduces on this tree")
    if not exit_code:
        stale = os.path.join(REPLAY_DIR, f"{ctx.prop}-{ctx.tier}-{ctx.seed}.json")
        if os.path.exists(stale):
            os.remove(stale)
    if exit_code:
        if ctx.violations:
            print(f"VIOLATION property={ctx.prop} replay={replay_path}")
        else:
            print(f"VIOLATION property={ctx.prop} replay={replay_path} no-failing-input-found")
    else:
        print(f"OK property={ctx.prop} tier={ctx.tier} seed={ctx.seed} obligations={n_dis}/{n_obl} "
              f"cases={ctx.evaluations} wall={wall:.1f}s")
    return exit_code


def anchor_coverage(cov, prop):
    """executed / total statements and branches of the property's anchor files during this run's real-code execution"""
    anchors = []
    for line in open(os.path.join(VERIF, "properties.jsonl")):
        p = json.loads(line)
        if p["id"] == prop:
            anchors = p["anchors"]["files"]
    out = {}
    data = cov.get_data()
    for f in anchors:
        path = os.path.join(REPO, f)
        try:
            an = cov._analyze(path)
            nums = an.numbers
            out[f] = {"statements": nums.n_statements, "missed": nums.n_missing, "branches": nums.n_branches,
                      "partial_branches": nums.n_partial_branches, "percent": round(nums.pc_covered, 1),
                      "missing_lines": sorted(an.missing)[:40]}
        except Exception as e:  # noqa: BLE001
            out[f] = {"error": repr(e)}
    return out


def main(argv, cov=None):
    import argparse
    ap = argparse.ArgumentParser()
    ap.add_argument("prop")
    ap.add_argument("--tier", default=os.environ.get("VERIF_TIER", "quick"), choices=["quick", "thorough"])
    ap.add_argument("--replay", default=None)
    a = ap.parse_args(argv)
    seed = int(os.environ.get("VERIF_SEED", "0") or 0)
    try:
        mod = importlib.import_module(f"harness.props.{a.prop}")
    except ImportError as e:
        print(f"no such property check: {a.prop} ({e})", file=sys.stderr)
        return 2
    if a.replay:
        return mod.replay(a.replay)
    ctx = Ctx(a.prop, a.tier, seed)
    try:
        mod.run(ctx)
        if cov is not None:
            cov.stop()
            try:
                ctx.cov["anchor_branch_coverage"] = anchor_coverage(cov, a.prop)
            except Exception as e:  # noqa: BLE001
                ctx.notes.append("coverage measurement failed: %r" % e)
        return finish(ctx, **getattr(mod, "EVIDENCE", {}))
    except lake.subprocess.TimeoutExpired as e:
        print(f"timeout: {e}", file=sys.stderr)
        return 2
    except Exception as e:  # noqa: BLE001
        # an exception that escaped while the harness was merely building or OBSERVING a case (repr, ==, props, a declaration
        # of its fixed corpus): if it was raised inside the library under test it is the library's doing — on the unchanged tree
        # none of these raise — and the run is reported as a broken correspondence; anything raised by the harness' own code
        # is a tooling error (exit 2)
        tb = traceback.extract_tb(e.__traceback__)
        inner = tb[-1].filename if tb else ""
        lib = os.path.realpath(os.path.join(REPO, "d42")) + os.sep
        if os.path.realpath(inner).startswith(lib):
            where = "%s:%d in %s" % (os.path.relpath(inner, REPO), tb[-1].lineno, tb[-1].name)
            ctx.breakage("correspondence", "the library raised %s while the harness was building or observing a case (%s); the "
                         "run stopped there" % (type(e).__name__, where),
                         traceback="".join(traceback.format_exception(type(e), e, e.__traceback__))[-3000:])
            traceback.print_exc()
            return finish(ctx, **getattr(mod, "EVIDENCE", {}))
        traceback.print_exc()
        return 2
