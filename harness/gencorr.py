"""Correspondence on the generator view: (draw requests issued, generated value) under scripted draws."""
from . import encode, model, scripted_random as SR, sexp


def canon_val(e):
    """`True == 1`: generated bools from int schemas are compared as ints"""
    if isinstance(e, list):
        if len(e) == 2 and e[0] == "b":
            return ["i", e[1]]
        return [canon_val(x) for x in e]
    return e


class GenCase:
    __slots__ = ("schema", "policy", "kind", "value", "log", "req", "I", "skip", "exp_val", "exp_reqs")

    def __init__(self, schema, policy):
        self.schema, self.policy = schema, policy
        self.req = None
        self.skip = None


def run_real(case, rnd):
    (case.kind, case.value), case.log = SR.generate(case.schema, SR.make_policy(case.policy, rnd))
    I = encode.Interner()
    case.I = I
    try:
        es = encode.enc_schema(case.schema, I)
        draws, reqs = SR.draws_of(case.log, I)
        case.exp_reqs = encode.tostr(reqs)
        if case.kind == "ok":
            case.exp_val = encode.tostr(encode.enc_value(case.value, I))
        case.req = ["gen", es, draws, I.rxtab()]
    except encode.Unencodable as e:
        case.skip = str(e)
    except RecursionError:
        case.skip = "recursion"


def compare(cases, ctx):
    todo = [c for c in cases if c.req is not None]
    res = model.run_batch([c.req for c in todo])
    out = []
    for c, r in zip(todo, res):
        ctx.count("gencorr_cases")
        if isinstance(r, str):
            out.append((c, "model driver answered " + r))
            continue
        if r[0] == "exc" and r[1] == "UNMODELLED":
            ctx.count("gencorr_unmodelled")
            continue
        if c.kind == "ok":
            if r[0] != "ok":
                out.append((c, f"real generated {c.value!r}, model raised {sexp.dumps(r)}"))
            elif canon_val(r[1][0]) != canon_val(c.exp_val):
                out.append((c, f"generated values differ: real {c.value!r}\n model {sexp.dumps(r[1][0])[:400]}"))
            elif r[1][1] != c.exp_reqs:
                out.append((c, f"draw requests differ:\n real  {sexp.dumps(c.exp_reqs)[:400]}\n model {sexp.dumps(r[1][1])[:400]}"))
            elif r[1][2] != "0":
                out.append((c, "model left draws unconsumed"))
            else:
                ctx.count("gencorr_agree_value")
        else:
            name = type(c.value).__name__
            if r[0] == "exc" and r[1] == name:
                ctx.count("gencorr_agree_exc:" + name)
            else:
                out.append((c, f"real raised {name}, model {sexp.dumps(r)[:300]}"))
    return out
